(* IndexProofs.v — C09: the document's lookups (element_dict, _styles_dict) agree with the tree after any history. *)
From Coq Require Import Lia Arith PeanoNat.
From Odf Require Import model.Base model.Dom proofs.DomProofs.
Open Scope nat_scope.

(* ---------------- ancestors ---------------- *)
Fixpoint up (f : id -> nrec) (m : id) (k : nat) : option id :=
  match k with
  | O => Some m
  | S k' => match parent (f m) with Some p => up f p k' | None => None end
  end.

Lemma up_add f : forall a m b, up f m (a + b) = match up f m a with Some x => up f x b | None => None end.
Proof.
  induction a as [|a IH]; intros m b; [reflexivity|]. cbn [Nat.add up].
  destruct (parent (f m)) as [p|]; [apply IH|reflexivity].
Qed.

Lemma in_subtree_up fuel : forall f n m, in_subtree fuel f n m = true <-> exists k, k <= fuel /\ up f m k = Some n.
Proof.
  induction fuel as [|fu IH]; intros f n m; cbn [in_subtree]; destruct (Nat.eqb m n) eqn:E.
  - apply Nat.eqb_eq in E. subst. split; [intros _; exists 0; split; [lia|reflexivity]|reflexivity].
  - split; [discriminate|]. intros [k [Hk Hu]]. assert (k = 0) by lia. subst. cbn in Hu. injection Hu as ->. now rewrite Nat.eqb_refl in E.
  - apply Nat.eqb_eq in E. subst. split; [intros _; exists 0; split; [lia|reflexivity]|reflexivity].
  - destruct (parent (f m)) as [p|] eqn:Ep.
    + rewrite IH. split.
      * intros [k [Hk Hu]]. exists (S k). split; [lia|]. cbn [up]. now rewrite Ep.
      * intros [k [Hk Hu]]. destruct k as [|k]; [cbn in Hu; injection Hu as ->; now rewrite Nat.eqb_refl in E|].
        cbn [up] in Hu. rewrite Ep in Hu. exists k. split; [lia|exact Hu].
    + split; [discriminate|]. intros [k [Hk Hu]]. destruct k as [|k]; [cbn in Hu; injection Hu as ->; now rewrite Nat.eqb_refl in E|].
      cbn [up] in Hu. now rewrite Ep in Hu.
Qed.

(* least witness of a decidable predicate *)
Lemma least_witness (P : nat -> Prop) (dec : forall k, {P k} + {~ P k}) : forall k, P k -> exists k0, k0 <= k /\ P k0 /\ forall j, j < k0 -> ~ P j.
Proof.
  induction k as [k IH] using lt_wf_ind. intros Hk.
  assert (D : (exists j, j < k /\ P j) \/ forall j, j < k -> ~ P j).
  { clear IH Hk. induction k as [|k IHk]; [right; intros j Hj; lia|].
    destruct IHk as [[j [Hj Pj]]|Hn]; [left; exists j; split; [lia|exact Pj]|].
    destruct (dec k) as [Pk|Nk]; [left; exists k; split; [lia|exact Pk]|].
    right. intros j Hj. destruct (Nat.eq_dec j k); [now subst|apply Hn; lia]. }
  destruct D as [[j [Hj Pj]]|Hn].
  - destruct (IH j Hj Pj) as [k0 [A [B C]]]. exists k0. split; [lia|]. split; assumption.
  - exists k. split; [lia|]. split; assumption.
Qed.

Lemma NoDup_map_inj_on {A B} (g : A -> B) (l : list A) :
  (forall x y, In x l -> In y l -> g x = g y -> x = y) -> NoDup l -> NoDup (map g l).
Proof.
  induction l as [|a l IH]; intros Hi Hn; [constructor|]. apply NoDup_cons_iff in Hn as [Ha Hn]. cbn [map]. constructor.
  - intros Hin. apply in_map_iff in Hin as [y [E Hy]]. apply Hi in E; [subst; contradiction|now right|now left].
  - apply IH; [|exact Hn]. intros x y Hx Hy. apply Hi; now right.
Qed.

(* every parent edge joins two nodes below N *)
Definition closed (f : id -> nrec) (N : nat) : Prop := forall x y, parent (f x) = Some y -> x < N /\ y < N.

Lemma up_below f N : closed f N -> forall k m x, m < N -> up f m k = Some x -> x < N.
Proof.
  intros Hc. induction k as [|k IH]; intros m x Hm Hu; [cbn in Hu; injection Hu as <-; exact Hm|].
  cbn [up] in Hu. destruct (parent (f m)) as [p|] eqn:Ep; [|discriminate]. apply (IH p x); [now destruct (Hc m p Ep)|exact Hu].
Qed.
Lemma up_prefix f : forall k m x j, up f m k = Some x -> j <= k -> exists y, up f m j = Some y.
Proof.
  intros k m x j Hu Hj. replace k with (j + (k - j)) in Hu by lia. rewrite up_add in Hu.
  destruct (up f m j) as [y|]; [eauto|discriminate].
Qed.

(* pigeonhole: if n is an ancestor of m at all, it is one within fewer than N steps *)
Lemma up_short f N n : closed f N -> forall m k, m < N -> up f m k = Some n -> exists k', k' < N /\ up f m k' = Some n.
Proof.
  intros Hc m k Hm Hu.
  destruct (least_witness (fun i => up f m i = Some n)) with (k := k) as [k0 [Hle [H0 Hmin]]]; [|exact Hu|].
  { intros i. destruct (up f m i) as [x|]; [destruct (Nat.eq_dec x n); [left; now subst|right; congruence]|right; discriminate]. }
  exists k0. split; [|exact H0].
  set (g := fun i => match up f m i with Some x => x | None => 0 end).
  assert (Hdef : forall i, i <= k0 -> up f m i = Some (g i)).
  { intros i Hi. unfold g. destruct (up_prefix f k0 m n i H0 Hi) as [y Hy]. now rewrite Hy. }
  assert (HN : NoDup (map g (seq 0 (S k0)))).
  { apply NoDup_map_inj_on; [|apply seq_NoDup]. intros i j Hi Hj E. apply in_seq in Hi, Hj.
    destruct (Nat.lt_trichotomy i j) as [L|[L|L]]; [|exact L|]; exfalso.
    - (* i < j: the chain repeats, so n occurs earlier than k0 *)
      apply (Hmin (i + (k0 - j))); [lia|]. rewrite up_add, (Hdef i) by lia. rewrite E.
      replace k0 with (j + (k0 - j)) in H0 at 1 by lia. rewrite up_add, (Hdef j) in H0 by lia. exact H0.
    - apply (Hmin (j + (k0 - i))); [lia|]. rewrite up_add, (Hdef j) by lia. rewrite <- E.
      replace k0 with (i + (k0 - i)) in H0 at 1 by lia. rewrite up_add, (Hdef i) in H0 by lia. exact H0. }
  assert (HI : incl (map g (seq 0 (S k0))) (seq 0 N)).
  { intros x Hx. apply in_map_iff in Hx as [i [E Hi]]. apply in_seq in Hi. subst x. apply in_seq. split; [lia|].
    cbn [Nat.add]. apply (up_below f N Hc i m); [exact Hm|apply Hdef; lia]. }
  apply (NoDup_incl_length HN) in HI. rewrite map_length, !seq_length in HI. lia.
Qed.

(* the set a subtree walk covers: closed downwards *)
Definition below (f : id -> nrec) (N : nat) (c m : id) : bool := in_subtree N f c m.

Lemma below_refl f N c : below f N c c = true.
Proof. unfold below. destruct N; cbn [in_subtree]; now rewrite Nat.eqb_refl. Qed.
Lemma below_step_up f N c m : closed f N -> below f N c m = true -> m <> c -> exists p, parent (f m) = Some p /\ below f N c p = true.
Proof.
  intros Hc H Hn. unfold below in *. apply in_subtree_up in H as [k [Hk Hu]].
  destruct k as [|k]; [cbn in Hu; injection Hu as ->; contradiction|]. cbn [up] in Hu.
  destruct (parent (f m)) as [p|] eqn:Ep; [|discriminate]. exists p. split; [reflexivity|]. apply in_subtree_up. exists k. split; [lia|exact Hu].
Qed.
Lemma below_step_down f N c m p : closed f N -> parent (f m) = Some p -> below f N c p = true -> below f N c m = true.
Proof.
  intros Hc Ep H. unfold below in *. apply in_subtree_up in H as [k [Hk Hu]].
  assert (Hu2 : up f m (S k) = Some c) by (cbn [up]; now rewrite Ep).
  destruct (up_short f N c Hc m (S k)) as [k' [Hk' Hu']]; [now destruct (Hc m p Ep)|exact Hu2|].
  apply in_subtree_up. exists k'. split; [lia|exact Hu'].
Qed.
Lemma below_of_up f N c m k : closed f N -> m < N -> up f m k = Some c -> below f N c m = true.
Proof.
  intros Hc Hm Hu. destruct (up_short f N c Hc m k Hm Hu) as [k' [Hk' Hu']]. apply in_subtree_up. exists k'. split; [lia|exact Hu'].
Qed.

Lemma in_sub h c x : existsb (Nat.eqb x) (subtree_ids h c) = true <-> x < alloc h /\ below (nodes h) (alloc h) c x = true.
Proof.
  unfold subtree_ids, below. rewrite existsb_exists. split.
  - intros [y [Hy E]]. apply Nat.eqb_eq in E. subst y. apply filter_In in Hy as [Hs Hb]. apply in_seq in Hs. split; [lia|exact Hb].
  - intros [Hx Hb]. exists x. split; [|apply Nat.eqb_refl]. apply filter_In. split; [apply in_seq; lia|exact Hb].
Qed.
Lemma In_sub h c x : In x (subtree_ids h c) <-> x < alloc h /\ below (nodes h) (alloc h) c x = true.
Proof. unfold subtree_ids, below. rewrite filter_In, in_seq. intuition lia. Qed.
Lemma sub_nodup h c : NoDup (subtree_ids h c).
Proof. unfold subtree_ids. apply NoDup_filter, seq_NoDup. Qed.

Lemma wf_closed h : WF h -> closed (nodes h) (alloc h).
Proof.
  intros [HC HF] x y E. split.
  - destruct (Nat.lt_ge_cases x (alloc h)) as [L|G]; [exact L|]. destruct (HF x G) as [P _]. congruence.
  - destruct (Nat.lt_ge_cases y (alloc h)) as [L|G]; [exact L|]. destruct (HF y G) as [_ K]. apply (c_par _ HC) in E. rewrite K in E. contradiction.
Qed.

(* a node that is not an element has nothing below it *)
Lemma below_leaf f N c x : Consistent f -> closed f N -> is_elem (f c) = false -> below f N c x = true -> x = c.
Proof.
  intros HC Hc He Hb. destruct (Nat.eq_dec x c) as [E|Hn]; [exact E|exfalso].
  unfold below in Hb. apply in_subtree_up in Hb as [k [_ Hu]].
  destruct k as [|k]; [cbn in Hu; injection Hu as ->; contradiction|].
  replace (S k) with (k + 1) in Hu by lia. rewrite up_add in Hu. destruct (up f x k) as [y|]; [|discriminate].
  cbn [up] in Hu. destruct (parent (f y)) as [p|] eqn:Ep; [|discriminate]. injection Hu as ->.
  apply (c_par _ HC) in Ep. rewrite (c_leaf _ HC c He) in Ep. contradiction.
Qed.

(* the chain of m is the same in two heaps that agree on the parents of the nodes it visits *)
Lemma up_same_prefix f g : forall k n, (forall i x, i < k -> up f n i = Some x -> parent (g x) = parent (f x)) -> up g n k = up f n k.
Proof.
  induction k as [|k IH]; intros n H; [reflexivity|]. cbn [up].
  rewrite (H 0 n) by (lia || reflexivity). destruct (parent (f n)) as [p|] eqn:Ep; [|reflexivity].
  apply IH. intros i x Hi Hu. apply (H (S i) x); [lia|]. cbn [up]. now rewrite Ep.
Qed.

(* ---------------- dictionaries and lists ---------------- *)
Lemma dict_get_set {A} k k' (v : A) d : dict_get k' (dict_set k v d) = if Nat.eqb k k' then Some v else dict_get k' d.
Proof.
  induction d as [|[a b] d IH]; cbn [dict_set dict_get]; [reflexivity|].
  destruct (Nat.eqb a k) eqn:E1.
  - apply Nat.eqb_eq in E1. subst a. cbn [dict_get]. destruct (Nat.eqb k k'); reflexivity.
  - cbn [dict_get]. destruct (Nat.eqb a k') eqn:E2.
    + destruct (Nat.eqb k k') eqn:E3; [|reflexivity]. apply Nat.eqb_eq in E2, E3. subst. now rewrite Nat.eqb_refl in E1.
    + exact IH.
Qed.
Lemma dict_get_del_other {A} k k' (d : list (nat * A)) : k <> k' -> dict_get k' (dict_del k d) = dict_get k' d.
Proof.
  intros Hn. induction d as [|[a b] d IH]; cbn [dict_del dict_get]; [reflexivity|].
  destruct (Nat.eqb a k) eqn:E1.
  - apply Nat.eqb_eq in E1. subst a. destruct (Nat.eqb k k') eqn:E2; [apply Nat.eqb_eq in E2; contradiction|reflexivity].
  - cbn [dict_get]. destruct (Nat.eqb a k'); [reflexivity|exact IH].
Qed.
Lemma dict_get_in {A} k (v : A) d : dict_get k d = Some v -> In k (map fst d).
Proof.
  induction d as [|[a b] d IH]; cbn [dict_get map fst]; [discriminate|].
  destruct (Nat.eqb a k) eqn:E; [apply Nat.eqb_eq in E; now left|intros H; right; now apply IH].
Qed.
Lemma dict_get_del_same {A} k (d : list (nat * A)) : NoDup (map fst d) -> dict_get k (dict_del k d) = None.
Proof.
  induction d as [|[a b] d IH]; cbn [dict_del dict_get map fst]; intros Hd; [reflexivity|]. apply NoDup_cons_iff in Hd as [Ha Hd].
  destruct (Nat.eqb a k) eqn:E.
  - apply Nat.eqb_eq in E. subst a. destruct (dict_get k d) as [v|] eqn:G; [|reflexivity]. apply dict_get_in in G. contradiction.
  - cbn [dict_get]. rewrite E. now apply IH.
Qed.
Lemma dict_keys_set {A} k (v : A) d x : In x (map fst (dict_set k v d)) <-> x = k \/ In x (map fst d).
Proof.
  induction d as [|[a b] d IH]; cbn [dict_set map fst In]; [split; (intros [H|[]]; left; now symmetry)|].
  destruct (Nat.eqb a k) eqn:E; cbn [map fst In].
  - apply Nat.eqb_eq in E. subst. split; [intros [H|H]; [left; now symmetry|right; now right]|intros [H|[H|H]]; [left; now symmetry|left; now symmetry|now right]].
  - rewrite IH. split; [intros [H|[H|H]]; [right; now left|now left|right; now right]|intros [H|[H|H]]; [right; now left|now left|right; now right]].
Qed.
Lemma dict_nodup_set {A} k (v : A) d : NoDup (map fst d) -> NoDup (map fst (dict_set k v d)).
Proof.
  induction d as [|[a b] d IH]; cbn [dict_set map fst]; intros Hd; [constructor; [intros []|constructor]|].
  apply NoDup_cons_iff in Hd as [Ha Hd]. destruct (Nat.eqb a k) eqn:E; cbn [map fst].
  - apply Nat.eqb_eq in E. subst. now constructor.
  - constructor; [|now apply IH]. rewrite dict_keys_set. intros [H|H]; [subst; now rewrite Nat.eqb_refl in E|contradiction].
Qed.
Lemma dict_keys_del {A} k (d : list (nat * A)) x : In x (map fst (dict_del k d)) -> In x (map fst d).
Proof.
  induction d as [|[a b] d IH]; cbn [dict_del map fst]; [tauto|]. destruct (Nat.eqb a k); cbn [map fst]; [now right|]. intros [H|H]; [now left|right; now apply IH].
Qed.
Lemma dict_nodup_del {A} k (d : list (nat * A)) : NoDup (map fst d) -> NoDup (map fst (dict_del k d)).
Proof.
  induction d as [|[a b] d IH]; cbn [dict_del map fst]; intros Hd; [constructor|]. apply NoDup_cons_iff in Hd as [Ha Hd].
  destruct (Nat.eqb a k); [exact Hd|]. cbn [map fst]. constructor; [intros H; apply Ha; now apply dict_keys_del in H|now apply IH].
Qed.

Lemma remove_first_in x y l : In x (remove_first y l) -> In x l.
Proof.
  induction l as [|a l IH]; cbn [remove_first]; [tauto|]. destruct (Nat.eqb a y); [now right|]. intros [H|H]; [now left|right; now apply IH].
Qed.
Lemma remove_first_nodup y l : NoDup l -> NoDup (remove_first y l).
Proof.
  induction l as [|a l IH]; cbn [remove_first]; intros Hd; [constructor|]. apply NoDup_cons_iff in Hd as [Ha Hd].
  destruct (Nat.eqb a y); [exact Hd|]. constructor; [intros H; apply Ha; now apply remove_first_in in H|now apply IH].
Qed.
Lemma remove_first_iff x y l : NoDup l -> (In x (remove_first y l) <-> In x l /\ x <> y).
Proof.
  induction l as [|a l IH]; cbn [remove_first]; intros Hd; [tauto|]. apply NoDup_cons_iff in Hd as [Ha Hd].
  destruct (Nat.eqb a y) eqn:E.
  - apply Nat.eqb_eq in E. subst a. split; [intros H; split; [now right|intros ->; contradiction]|intros [[H|H] Hn]; [congruence|exact H]].
  - apply Nat.eqb_neq in E. cbn [In]. rewrite (IH Hd). split.
    + intros [H|[H Hn]]; [subst; split; [now left|exact E]|split; [now right|exact Hn]].
    + intros [[H|H] Hn]; [now left|right; split; assumption].
Qed.

(* ---------------- the index ---------------- *)
Definition indexed (h : heap) (q : nat) : list id := get_elements_by_type h q.

Lemma indexed_build h n q q' : kind (nodes h n) = KElem q ->
  indexed (build_caches h n) q' = if Nat.eqb q q' then indexed h q ++ [n] else indexed h q'.
Proof.
  intros Hk. unfold indexed, get_elements_by_type, build_caches. rewrite Hk.
  assert (E : forall sd, match dict_get q' (edict (mkH (nodes h) (alloc h) (dict_set q (match dict_get q (edict h) with Some l => l | None => [] end ++ [n]) (edict h)) sd)) with Some l => l | None => [] end =
                         if Nat.eqb q q' then match dict_get q (edict h) with Some l => l | None => [] end ++ [n] else match dict_get q' (edict h) with Some l => l | None => [] end).
  { intros sd. cbn [edict]. rewrite dict_get_set. destruct (Nat.eqb q q'); reflexivity. }
  destruct (Nat.eqb q Q_STYLE); [|apply E]. destruct (sname (nodes h n)); [|apply E]. destruct (style_parent_ok h n); apply E.
Qed.
Lemma indexed_remove h n q q' : kind (nodes h n) = KElem q ->
  indexed (remove_one h n) q' = if Nat.eqb q q' then remove_first n (indexed h q) else indexed h q'.
Proof.
  intros Hk. unfold indexed, get_elements_by_type, remove_one. rewrite Hk. cbn [edict].
  destruct (dict_get q (edict h)) as [l|] eqn:G.
  - rewrite dict_get_set. destruct (Nat.eqb q q'); reflexivity.
  - destruct (Nat.eqb q q') eqn:E; [apply Nat.eqb_eq in E; subst; now rewrite G|reflexivity].
Qed.
Lemma indexed_build_other h n : is_elem (nodes h n) = false -> build_caches h n = h.
Proof. unfold build_caches, is_elem. destruct (kind (nodes h n)); [discriminate|reflexivity|reflexivity]. Qed.

(* folds over a list of nodes; the node records do not change along the way *)
Lemma rebuild_fold_indexed f0 l : forall h0, nodes h0 = f0 -> NoDup l -> forall q x,
  In x (indexed (fold_left (fun h' m => if is_elem (f0 m) then build_caches h' m else h') l h0) q) <->
  In x (indexed h0 q) \/ (In x l /\ kind (f0 x) = KElem q).
Proof.
  induction l as [|m l IH]; intros h0 Hn Hd q x; cbn [fold_left]; [split; [now left|intros [H|[[] _]]; exact H]|]. apply NoDup_cons_iff in Hd as [Hm Hd].
  destruct (is_elem (f0 m)) eqn:Em.
  - rewrite IH by (rewrite ?nodes_build_caches; assumption).
    unfold is_elem in Em. destruct (kind (f0 m)) as [qm| |] eqn:Km; try discriminate.
    rewrite (indexed_build h0 m qm q) by (now rewrite Hn). destruct (Nat.eqb qm q) eqn:E.
    + apply Nat.eqb_eq in E. subst qm. rewrite in_app_iff. cbn [In]. split.
      * intros [[H|[H|[]]]|[H1 H2]]; [now left|subst; right; split; [now left|exact Km]|right; split; [now right|exact H2]].
      * intros [H|[[H|H] H2]]; [left; now left|subst; left; right; now left|right; split; assumption].
    + split.
      * intros [H|[H1 H2]]; [now left|right; split; [now right|exact H2]].
      * intros [H|[[H|H] H2]]; [now left|subst; rewrite Km in H2; injection H2 as ->; now rewrite Nat.eqb_refl in E|right; split; assumption].
  - rewrite IH by assumption. split.
    + intros [H|[H1 H2]]; [now left|right; split; [now right|exact H2]].
    + intros [H|[[H|H] H2]]; [now left|subst; unfold is_elem in Em; rewrite H2 in Em; discriminate|right; split; assumption].
Qed.
Lemma rebuild_fold_nodup f0 l : forall h0, nodes h0 = f0 -> NoDup l -> forall q,
  NoDup (indexed h0 q) -> (forall x, In x l -> ~ In x (indexed h0 q)) ->
  NoDup (indexed (fold_left (fun h' m => if is_elem (f0 m) then build_caches h' m else h') l h0) q).
Proof.
  induction l as [|m l IH]; intros h0 Hn Hd q Hq Hdis; cbn [fold_left]; [exact Hq|]. apply NoDup_cons_iff in Hd as [Hm Hd].
  destruct (is_elem (f0 m)) eqn:Em.
  - unfold is_elem in Em. destruct (kind (f0 m)) as [qm| |] eqn:Km; try discriminate.
    apply IH; [now rewrite nodes_build_caches|exact Hd| |].
    + rewrite (indexed_build h0 m qm q) by (now rewrite Hn). destruct (Nat.eqb qm q) eqn:E; [|exact Hq].
      apply Nat.eqb_eq in E. subst qm. apply NoDup_app_intro_local; [exact Hq|constructor; [intros []|constructor]|].
      intros y H1 [H2|[]]. subst y. apply (Hdis m); [now left|exact H1].
    + intros x Hx. rewrite (indexed_build h0 m qm q) by (now rewrite Hn). destruct (Nat.eqb qm q) eqn:E; [|apply Hdis; now right].
      apply Nat.eqb_eq in E. subst qm. rewrite in_app_iff. intros [H|[H|[]]]; [revert H; apply Hdis; now right|subst; contradiction].
  - apply IH; try assumption. intros x Hx. apply Hdis. now right.
Qed.

Lemma remove_fold_indexed f0 l : forall h0, nodes h0 = f0 -> forall q, NoDup (indexed h0 q) ->
  NoDup (indexed (fold_left (fun h' m => if is_elem (f0 m) then remove_one h' m else h') l h0) q) /\
  forall x, In x (indexed (fold_left (fun h' m => if is_elem (f0 m) then remove_one h' m else h') l h0) q) <->
            In x (indexed h0 q) /\ ~ (In x l /\ kind (f0 x) = KElem q).
Proof.
  induction l as [|m l IH]; intros h0 Hn q Hq; cbn [fold_left]; [split; [exact Hq|intros x; split; [intros H; split; [exact H|intros [[] _]]|now intros [H _]]]|].
  destruct (is_elem (f0 m)) eqn:Em.
  - unfold is_elem in Em. destruct (kind (f0 m)) as [qm| |] eqn:Km; try discriminate.
    assert (Hq1 : NoDup (indexed (remove_one h0 m) q)).
    { rewrite (indexed_remove h0 m qm q) by (now rewrite Hn). destruct (Nat.eqb qm q) eqn:E; [|exact Hq]. apply Nat.eqb_eq in E. subst. now apply remove_first_nodup. }
    destruct (IH (remove_one h0 m) ltac:(now rewrite nodes_remove_one) q Hq1) as [A B]. split; [exact A|].
    intros x. rewrite B. rewrite (indexed_remove h0 m qm q) by (now rewrite Hn). destruct (Nat.eqb qm q) eqn:E.
    + apply Nat.eqb_eq in E. subst qm. rewrite (remove_first_iff x m _ Hq). split.
      * intros [[H1 H2] H3]. split; [exact H1|]. intros [[H4|H4] H5]; [congruence|apply H3; split; assumption].
      * intros [H1 H2]. split; [split; [exact H1|]|].
        -- intros ->. apply H2. split; [now left|exact Km].
        -- intros [H4 H5]. apply H2. split; [now right|exact H5].
    + apply Nat.eqb_neq in E. split.
      * intros [H1 H3]. split; [exact H1|]. intros [[H4|H4] H5]; [subst x; rewrite Km in H5; injection H5 as ->; contradiction|apply H3; split; assumption].
      * intros [H1 H2]. split; [exact H1|]. intros [H4 H5]. apply H2. split; [now right|exact H5].
  - destruct (IH h0 Hn q Hq) as [A B]. split; [exact A|]. intros x. rewrite B. split.
    + intros [H1 H3]. split; [exact H1|]. intros [[H4|H4] H5]; [subst; unfold is_elem in Em; rewrite H5 in Em; discriminate|apply H3; split; assumption].
    + intros [H1 H2]. split; [exact H1|]. intros [H4 H5]. apply H2. split; [now right|exact H5].
Qed.

(* ---------------- what the link updates leave alone ---------------- *)
Definition DATA (f : id -> nrec) (j : id) := (kind (f j), owner (f j), sname (f j)).
Definition data_of (r : nrec) := (kind r, owner r, sname r).
Lemma data_upd_same g i r j : data_of r = data_of (g i) -> DATA (upd g i r) j = DATA g j.
Proof. intros H. unfold DATA, upd. destruct (Nat.eqb j i) eqn:E; [apply Nat.eqb_eq in E; subst; exact H|reflexivity]. Qed.

Ltac data_step := rewrite data_upd_same by reflexivity.
Lemma unlink_data f p c j : DATA (unlink f p c) j = DATA f j.
Proof.
  unfold unlink. cbv zeta. data_step.
  repeat match goal with |- context [match ?x with Some _ => _ | None => _ end] => destruct x end; repeat data_step; reflexivity.
Qed.
Lemma link_last_data f p c j : DATA (link_last f p c) j = DATA f j.
Proof.
  unfold link_last. cbv zeta. data_step. data_step.
  repeat match goal with |- context [match ?x with Some _ => _ | None => _ end] => destruct x end; repeat data_step; reflexivity.
Qed.
Lemma link_before_data f p c r i j : DATA (link_before f p c r i) j = DATA f j.
Proof.
  unfold link_before. cbv zeta. data_step.
  destruct i as [|i']; [repeat data_step; reflexivity|].
  destruct (nth_error (kids (f p)) i'); repeat data_step; reflexivity.
Qed.
Lemma DATA_fields f g j : DATA g j = DATA f j -> kind (g j) = kind (f j) /\ owner (g j) = owner (f j) /\ sname (g j) = sname (f j).
Proof. unfold DATA. intros H. injection H as A B C. auto. Qed.

(* ---------------- the invariant ---------------- *)
Definition pok (f : id -> nrec) (n : id) : bool :=
  match parent (f n) with
  | Some p => match kind (f p) with KElem q => Nat.eqb q Q_STYLES || Nat.eqb q Q_AUTOSTYLES | _ => false end
  | None => false
  end.
Lemma pok_spec h n : style_parent_ok h n = pok (nodes h) n.
Proof. reflexivity. Qed.

Definition StyOK (f : id -> nrec) (sd : list (nat * id)) : Prop :=
  NoDup (map fst sd) /\
  forall nm n, dict_get nm sd = Some n -> kind (f n) = KElem Q_STYLE /\ sname (f n) = Some nm /\ owner (f n) = true /\ pok f n = true.

Record Idx (top : id) (h : heap) : Prop := mkIdx {
  x_iff : forall q n, In n (indexed h q) <-> kind (nodes h n) = KElem q /\ owner (nodes h n) = true;
  x_nodup : forall q, NoDup (indexed h q);
  x_down : forall c p, parent (nodes h c) = Some p -> owner (nodes h c) = owner (nodes h p);
  x_fresh : forall j, alloc h <= j -> owner (nodes h j) = false;
  x_top : top < alloc h /\ owner (nodes h top) = true /\ parent (nodes h top) = None;
  x_att : forall n, owner (nodes h n) = true -> exists k, up (nodes h) n k = Some top;
  x_sty : StyOK (nodes h) (sdict h)
}.

Lemma up_owner f : (forall c p, parent (f c) = Some p -> owner (f c) = owner (f p)) -> forall k x y, up f x k = Some y -> owner (f x) = owner (f y).
Proof.
  intros Hd. induction k as [|k IH]; intros x y Hu; [cbn in Hu; now injection Hu as ->|].
  cbn [up] in Hu. destruct (parent (f x)) as [p|] eqn:Ep; [|discriminate]. rewrite (Hd x p Ep). now apply IH.
Qed.
Lemma below_owner f N c x : (forall c p, parent (f c) = Some p -> owner (f c) = owner (f p)) -> below f N c x = true -> owner (f x) = owner (f c).
Proof. intros Hd Hb. unfold below in Hb. apply in_subtree_up in Hb as [k [_ Hu]]. now apply (up_owner f Hd k). Qed.
(* a root other than the top node is not owned *)
Lemma root_not_owned top h c : Idx top h -> parent (nodes h c) = None -> c <> top -> owner (nodes h c) = false.
Proof.
  intros HI Hp Hn. destruct (owner (nodes h c)) eqn:E; [|reflexivity]. destruct (x_att _ _ HI c E) as [k Hu].
  destruct k as [|k]; [cbn in Hu; injection Hu as ->; contradiction|]. cbn [up] in Hu. now rewrite Hp in Hu.
Qed.

(* sdict along the two folds *)
Lemma rebuild_fold_sdict f0 l : forall h0, nodes h0 = f0 -> StyOK f0 (sdict h0) -> (forall m, In m l -> owner (f0 m) = true) ->
  StyOK f0 (sdict (fold_left (fun h' m => if is_elem (f0 m) then build_caches h' m else h') l h0)).
Proof.
  induction l as [|m l IH]; intros h0 Hn Hs Ho; cbn [fold_left]; [exact Hs|].
  destruct (is_elem (f0 m)) eqn:Em; [|apply IH; [exact Hn|exact Hs|intros x Hx; apply Ho; now right]].
  apply IH; [now rewrite nodes_build_caches| |intros x Hx; apply Ho; now right].
  unfold build_caches. rewrite Hn. destruct (kind (f0 m)) as [q| |] eqn:Km; try exact Hs.
  destruct (Nat.eqb q Q_STYLE) eqn:Eq; [|exact Hs]. apply Nat.eqb_eq in Eq. subst q.
  destruct (sname (f0 m)) as [nm|] eqn:Sm; [|exact Hs]. rewrite pok_spec, Hn. destruct (pok f0 m) eqn:Pm; [|exact Hs].
  cbn [sdict]. destruct Hs as [Hk Hv]. split; [now apply dict_nodup_set|].
  intros nm' n. rewrite dict_get_set. destruct (Nat.eqb nm nm') eqn:E.
  - apply Nat.eqb_eq in E. subst nm'. intros H. injection H as <-. repeat split; try assumption. apply Ho. now left.
  - apply Hv.
Qed.

Lemma remove_fold_sdict f0 l : forall h0, nodes h0 = f0 -> NoDup (map fst (sdict h0)) ->
  NoDup (map fst (sdict (fold_left (fun h' m => if is_elem (f0 m) then remove_one h' m else h') l h0))) /\
  forall nm n, dict_get nm (sdict (fold_left (fun h' m => if is_elem (f0 m) then remove_one h' m else h') l h0)) = Some n ->
    dict_get nm (sdict h0) = Some n /\ ~ (In n l /\ kind (f0 n) = KElem Q_STYLE /\ sname (f0 n) = Some nm).
Proof.
  induction l as [|m l IH]; intros h0 Hn Hk; cbn [fold_left]; [split; [exact Hk|intros nm n H; split; [exact H|intros [[] _]]]|].
  destruct (is_elem (f0 m)) eqn:Em.
  - assert (S1 : NoDup (map fst (sdict (remove_one h0 m))) /\
                 forall nm n, dict_get nm (sdict (remove_one h0 m)) = Some n ->
                   dict_get nm (sdict h0) = Some n /\ ~ (n = m /\ kind (f0 n) = KElem Q_STYLE /\ sname (f0 n) = Some nm)).
    { unfold remove_one. rewrite Hn. destruct (kind (f0 m)) as [q| |] eqn:Km; try (unfold is_elem in Em; rewrite Km in Em; discriminate).
      cbn [sdict]. destruct (Nat.eqb q Q_STYLE) eqn:Eq.
      - apply Nat.eqb_eq in Eq. subst q. destruct (sname (f0 m)) as [nmm|] eqn:Sm.
        + destruct (dict_get nmm (sdict h0)) as [m'|] eqn:G.
          * destruct (Nat.eqb m' m) eqn:E.
            -- apply Nat.eqb_eq in E. subst m'. split; [now apply dict_nodup_del|]. intros nm n H.
               destruct (Nat.eq_dec nmm nm) as [->|Hne]; [rewrite dict_get_del_same in H by assumption; discriminate|].
               rewrite dict_get_del_other in H by assumption. split; [exact H|]. intros [-> [_ S2]]. congruence.
            -- apply Nat.eqb_neq in E. split; [exact Hk|]. intros nm n H. split; [exact H|]. intros [-> [_ S2]]. congruence.
          * split; [exact Hk|]. intros nm n H. split; [exact H|]. intros [-> [_ S2]]. congruence.
        + split; [exact Hk|]. intros nm n H. split; [exact H|]. intros [-> [_ S2]]. congruence.
      - split; [exact Hk|]. intros nm n H. split; [exact H|]. intros [-> [K2 _]]. rewrite Km in K2. injection K2 as ->. now rewrite Nat.eqb_refl in Eq. }
    destruct S1 as [K1 V1]. destruct (IH (remove_one h0 m) ltac:(now rewrite nodes_remove_one) K1) as [A B]. split; [exact A|].
    intros nm n H. destruct (B nm n H) as [H1 H2]. destruct (V1 nm n H1) as [H3 H4]. split; [exact H3|].
    intros [[H5|H5] H6]; [apply H4; split; [now symmetry|exact H6]|apply H2; split; assumption].
  - destruct (IH h0 Hn Hk) as [A B]. split; [exact A|]. intros nm n H. destruct (B nm n H) as [H1 H2]. split; [exact H1|].
    intros [[H5|H5] [H6 H7]]; [subst; unfold is_elem in Em; rewrite H6 in Em; discriminate|apply H2; repeat split; assumption].
Qed.

(* ---------------- removeChild ---------------- *)
Lemma alloc_remove_from_caches h l : alloc (remove_from_caches h l) = alloc h.
Proof.
  unfold remove_from_caches.
  assert (G : forall l h0, alloc (fold_left (fun h' m => if is_elem (nodes h m) then remove_one h' m else h') l h0) = alloc h0).
  { induction l0 as [|m l0 IH]; intros h0; cbn [fold_left]; [reflexivity|]. rewrite IH.
    destruct (is_elem (nodes h m)); [|reflexivity]. unfold remove_one. destruct (kind (nodes h0 m)); reflexivity. }
  apply G.
Qed.
Lemma indexed_edict h h' q : edict h' = edict h -> indexed h' q = indexed h q.
Proof. intros E. unfold indexed, get_elements_by_type. now rewrite E. Qed.

Lemma remove_child_idx top h p c : WF h -> Idx top h -> Idx top (heap_of (remove_child h p c)).
Proof.
  intros HW HI. pose proof HW as [HC HF]. pose proof (wf_closed h HW) as Hcl.
  unfold remove_child. destruct (is_childless (nodes h p)) eqn:Ecl; [exact HI|].
  destruct (index_of c (kids (nodes h p))) as [i|] eqn:Hi; [|exact HI]. cbn [heap_of].
  assert (Hin : In c (kids (nodes h p))) by (apply index_of_in; eauto).
  assert (Hpar : parent (nodes h c) = Some p) by (now apply (c_kids _ HC)).
  assert (Hcp : c <> p) by (intros ->; now apply (c_noself _ HC p)).
  destruct (Hcl c p Hpar) as [Hc Hp].
  pose proof (unlink_removed (nodes h) p c Hcp) as [_ RP _ _ _]. unfold PAR in RP.
  assert (GD : forall j, kind (unlink (nodes h) p c j) = kind (nodes h j) /\ owner (unlink (nodes h) p c j) = owner (nodes h j) /\
                         sname (unlink (nodes h) p c j) = sname (nodes h j)) by (intros j; apply DATA_fields, unlink_data).
  cbv zeta. set (G := unlink (nodes h) p c) in *. set (sub := subtree_ids h c).
  set (h4 := set_nodes h G).
  set (b := owner (nodes h4 p) && is_elem (nodes h4 c)).
  set (h5 := if b then remove_from_caches h4 sub else h4).
  assert (N5 : nodes h5 = G) by (unfold h5; destruct b; [rewrite nodes_remove_from_caches|]; reflexivity).
  match goal with |- Idx top ?H => set (h6 := H) end.
  assert (N6 : forall j, nodes h6 j = if existsb (Nat.eqb j) sub then with_owner (G j) false else G j).
  { intros j. unfold h6, set_nodes. cbn [nodes]. now rewrite N5. }
  assert (A6 : alloc h6 = alloc h).
  { unfold h6, set_nodes. cbn [alloc]. unfold h5. destruct b; [rewrite alloc_remove_from_caches|]; reflexivity. }
  assert (K6 : forall j, kind (nodes h6 j) = kind (nodes h j)).
  { intros j. rewrite N6. destruct (existsb _ _); cbn [kind with_owner]; apply GD. }
  assert (SN6 : forall j, sname (nodes h6 j) = sname (nodes h j)).
  { intros j. rewrite N6. destruct (existsb _ _); cbn [sname with_owner]; apply GD. }
  assert (O6 : forall j, owner (nodes h6 j) = if existsb (Nat.eqb j) sub then false else owner (nodes h j)).
  { intros j. rewrite N6. destruct (existsb _ _); cbn [owner with_owner]; [reflexivity|apply GD]. }
  assert (P6 : forall j, parent (nodes h6 j) = if Nat.eqb j c then None else parent (nodes h j)).
  { intros j. rewrite N6. destruct (existsb _ _); cbn [parent with_owner]; apply RP. }
  (* facts about the removed subtree *)
  assert (Sub : forall j, existsb (Nat.eqb j) sub = true <-> j < alloc h /\ below (nodes h) (alloc h) c j = true) by (intros j; apply in_sub).
  assert (SubO : forall j, existsb (Nat.eqb j) sub = true -> owner (nodes h j) = owner (nodes h p)).
  { intros j Hj. apply Sub in Hj as [_ Hb]. rewrite (below_owner _ _ _ _ (x_down _ _ HI) Hb). now apply (x_down _ _ HI). }
  assert (Hb4 : b = owner (nodes h p) && is_elem (nodes h c)).
  { unfold b, h4, set_nodes. cbn [nodes]. destruct (GD p) as (_ & O & _). rewrite O. f_equal. unfold is_elem. now destruct (GD c) as (K & _); rewrite K. }
  (* an owned element of the subtree means the caches were cleaned *)
  assert (SubE : forall j q, existsb (Nat.eqb j) sub = true -> kind (nodes h j) = KElem q -> owner (nodes h j) = true -> b = true).
  { intros j q Hj Kj Oj. rewrite Hb4. rewrite <- (SubO j Hj), Oj. cbn [andb].
    destruct (is_elem (nodes h c)) eqn:Ec; [reflexivity|]. apply Sub in Hj as [_ Hb].
    apply (below_leaf _ _ _ _ HC Hcl Ec) in Hb. subst j. unfold is_elem in Ec. now rewrite Kj in Ec. }
  assert (E6 : edict h6 = edict h5) by reflexivity.
  assert (S6 : sdict h6 = sdict h5) by reflexivity.
  constructor.
  - (* x_iff *)
    intros q n. rewrite (indexed_edict h5 h6 q E6), K6, O6. unfold h5. destruct b eqn:Eb.
    + destruct (remove_fold_indexed G sub h4 eq_refl q) as [_ B]; [rewrite (indexed_edict h h4 q eq_refl); apply (x_nodup _ _ HI)|].
      unfold remove_from_caches. cbn [nodes h4 set_nodes]. fold G. rewrite B, (indexed_edict h h4 q eq_refl), (x_iff _ _ HI).
      destruct (GD n) as (Kn & _). rewrite Kn. split.
      * intros [[H1 H2] H3]. split; [exact H1|]. destruct (existsb (Nat.eqb n) sub) eqn:En; [|exact H2].
        exfalso. apply H3. split; [|exact H1]. apply existsb_exists in En as [y [Hy E]]. apply Nat.eqb_eq in E. now subst.
      * intros [H1 H2]. destruct (existsb (Nat.eqb n) sub) eqn:En; [discriminate|]. split; [split; assumption|].
        intros [H3 _]. assert (existsb (Nat.eqb n) sub = true) by (apply existsb_exists; exists n; split; [exact H3|apply Nat.eqb_refl]). congruence.
    + rewrite (indexed_edict h h4 q eq_refl), (x_iff _ _ HI). split.
      * intros [H1 H2]. split; [exact H1|]. destruct (existsb (Nat.eqb n) sub) eqn:En; [|exact H2].
        pose proof (SubE n q En H1 H2) as X. congruence.
      * intros [H1 H2]. destruct (existsb (Nat.eqb n) sub); [discriminate|]. split; assumption.
  - (* x_nodup *)
    intros q. rewrite (indexed_edict h5 h6 q E6). unfold h5. destruct b.
    + destruct (remove_fold_indexed G sub h4 eq_refl q) as [A _]; [rewrite (indexed_edict h h4 q eq_refl); apply (x_nodup _ _ HI)|]. exact A.
    + rewrite (indexed_edict h h4 q eq_refl). apply (x_nodup _ _ HI).
  - (* x_down *)
    intros x y. rewrite P6, !O6. destruct (Nat.eqb x c) eqn:Exc; [discriminate|]. apply Nat.eqb_neq in Exc. intros Exy.
    destruct (Hcl x y Exy) as [Hx Hy].
    destruct (existsb (Nat.eqb x) sub) eqn:Sx.
    + apply Sub in Sx as [_ Bx]. destruct (below_step_up _ _ _ _ Hcl Bx Exc) as [y' [E1 B1]]. rewrite Exy in E1. injection E1 as <-.
      assert (Sy : existsb (Nat.eqb y) sub = true) by (apply Sub; split; assumption). now rewrite Sy.
    + destruct (existsb (Nat.eqb y) sub) eqn:Sy.
      * apply Sub in Sy as [_ By]. assert (existsb (Nat.eqb x) sub = true) by (apply Sub; split; [exact Hx|apply (below_step_down _ _ _ _ y Hcl Exy By)]). congruence.
      * now apply (x_down _ _ HI).
  - (* x_fresh *)
    intros j Hj. rewrite A6 in Hj. rewrite O6. destruct (existsb (Nat.eqb j) sub) eqn:Sj; [reflexivity|]. now apply (x_fresh _ _ HI).
  - (* x_top *)
    destruct (x_top _ _ HI) as (T1 & T2 & T3). rewrite A6, O6, P6. split; [exact T1|]. split.
    + destruct (existsb (Nat.eqb top) sub) eqn:St; [|exact T2]. apply Sub in St as [_ Bt].
      unfold below in Bt. apply in_subtree_up in Bt as [k [_ Hu]]. destruct k as [|k]; [cbn in Hu; injection Hu as ->; congruence|].
      cbn [up] in Hu. now rewrite T3 in Hu.
    + destruct (Nat.eqb top c); [reflexivity|exact T3].
  - (* x_att *)
    intros n. rewrite O6. destruct (existsb (Nat.eqb n) sub) eqn:Sn; [discriminate|]. intros On.
    destruct (x_att _ _ HI n On) as [k Hu]. exists k. rewrite <- Hu. apply up_same_prefix.
    intros i2 x Hi2 Hx. rewrite P6. destruct (Nat.eqb x c) eqn:Exc; [|reflexivity]. apply Nat.eqb_eq in Exc. subst x. exfalso.
    assert (Hn : n < alloc h). { destruct (Nat.lt_ge_cases n (alloc h)) as [L|Ge]; [exact L|]. rewrite (x_fresh _ _ HI n Ge) in On. discriminate. }
    assert (existsb (Nat.eqb n) sub = true) by (apply Sub; split; [exact Hn|apply (below_of_up _ _ _ _ i2 Hcl Hn Hx)]). congruence.
  - (* x_sty *)
    rewrite S6. destruct (x_sty _ _ HI) as [SK SV].
    assert (Keep : forall nm n, dict_get nm (sdict h) = Some n -> existsb (Nat.eqb n) sub = false ->
                   kind (nodes h6 n) = KElem Q_STYLE /\ sname (nodes h6 n) = Some nm /\ owner (nodes h6 n) = true /\ pok (nodes h6) n = true).
    { intros nm n Hg Sn. destruct (SV nm n Hg) as (V1 & V2 & V3 & V4). rewrite K6, SN6, O6, Sn. repeat split; try assumption.
      unfold pok in *. rewrite P6. destruct (Nat.eqb n c) eqn:Enc.
      - apply Nat.eqb_eq in Enc. subst n. assert (existsb (Nat.eqb c) sub = true) by (apply Sub; split; [exact Hc|apply below_refl]). congruence.
      - destruct (parent (nodes h n)) as [pp|]; [|exact V4]. now rewrite K6. }
    unfold h5. destruct b eqn:Eb.
    + destruct (remove_fold_sdict G sub h4 eq_refl SK) as [A B]. unfold remove_from_caches. cbn [nodes h4 set_nodes]. fold G. split; [exact A|].
      intros nm n Hg. destruct (B nm n Hg) as [H1 H2]. change (sdict h4) with (sdict h) in H1. apply (Keep nm n H1).
      destruct (existsb (Nat.eqb n) sub) eqn:Sn; [|reflexivity]. exfalso. apply H2. destruct (SV nm n H1) as (V1 & V2 & _).
      destruct (GD n) as (Kn & _ & Sn2). rewrite Kn, Sn2. split; [|split; assumption].
      apply existsb_exists in Sn as [y [Hy E]]. apply Nat.eqb_eq in E. now subst.
    + split; [exact SK|]. intros nm n Hg. change (sdict h4) with (sdict h) in Hg. apply (Keep nm n Hg).
      destruct (existsb (Nat.eqb n) sub) eqn:Sn; [|reflexivity]. destruct (SV nm n Hg) as (V1 & _ & V3 & _).
      pose proof (SubE n Q_STYLE Sn V1 V3) as X. congruence.
Qed.

(* ---------------- _adopt ---------------- *)
Lemma up_ext f g : (forall j, parent (g j) = parent (f j)) -> forall k n, up g n k = up f n k.
Proof. intros H k n. apply up_same_prefix. intros. apply H. Qed.
Lemma in_subtree_ext f g : (forall j, parent (g j) = parent (f j)) -> forall fuel n m, in_subtree fuel g n m = in_subtree fuel f n m.
Proof.
  intros H. induction fuel as [|fu IH]; intros n m; cbn [in_subtree]; destruct (Nat.eqb m n); try reflexivity.
  rewrite H. destruct (parent (f m)); [apply IH|reflexivity].
Qed.
Lemma alloc_rebuild_caches h n : alloc (rebuild_caches h n) = alloc h.
Proof.
  unfold rebuild_caches.
  assert (G : forall l h0, alloc (fold_left (fun h' m => if is_elem (nodes h m) then build_caches h' m else h') l h0) = alloc h0).
  { induction l as [|m l IH]; intros h0; cbn [fold_left]; [reflexivity|]. rewrite IH.
    destruct (is_elem (nodes h m)); [|reflexivity]. unfold build_caches. destruct (kind (nodes h0 m)); try reflexivity.
    destruct (Nat.eqb q Q_STYLE); [|reflexivity]. destruct (sname (nodes h0 m)); [|reflexivity]. destruct (style_parent_ok h0 m); reflexivity. }
  apply G.
Qed.

Lemma adopt_idx top h1 hL p c :
  Idx top h1 -> WF hL -> alloc hL = alloc h1 -> edict hL = edict h1 -> sdict hL = sdict h1 ->
  (forall j, DATA (nodes hL) j = DATA (nodes h1) j) ->
  (forall j, parent (nodes hL j) = if Nat.eqb j c then Some p else parent (nodes h1 j)) ->
  parent (nodes h1 c) = None -> c <> top -> c < alloc h1 -> p < alloc h1 ->
  Idx top (adopt hL p c).
Proof.
  intros HI HW HA HE HS HD HP Hroot Hct Hc Hp. pose proof HW as [HC HF]. pose proof (wf_closed hL HW) as Hcl. rewrite HA in Hcl.
  assert (D : forall j, kind (nodes hL j) = kind (nodes h1 j) /\ owner (nodes hL j) = owner (nodes h1 j) /\ sname (nodes hL j) = sname (nodes h1 j)) by (intros j; apply DATA_fields, HD).
  unfold adopt. set (o := owner (nodes hL p)). set (sub := subtree_ids hL c).
  assert (Ho : o = owner (nodes h1 p)) by (unfold o; apply D).
  set (h1' := set_owner hL c o).
  assert (N1 : forall j, nodes h1' j = if existsb (Nat.eqb j) sub then with_owner (nodes hL j) o else nodes hL j) by reflexivity.
  assert (P1 : forall j, parent (nodes h1' j) = parent (nodes hL j)) by (intros j; rewrite N1; destruct (existsb _ _); reflexivity).
  assert (Sub1 : subtree_ids h1' c = sub).
  { unfold sub, subtree_ids. change (alloc h1') with (alloc hL). apply filter_ext. intros m. now apply in_subtree_ext. }
  set (b := o && is_elem (nodes h1' c)).
  set (hF := if b then rebuild_caches h1' c else h1').
  assert (NF : nodes hF = nodes h1') by (unfold hF; destruct b; [apply nodes_rebuild_caches|reflexivity]).
  assert (AF : alloc hF = alloc h1) by (unfold hF; destruct b; [rewrite alloc_rebuild_caches|]; exact HA).
  assert (KF : forall j, kind (nodes hF j) = kind (nodes h1 j)) by (intros j; rewrite NF, N1; destruct (existsb _ _); cbn [kind with_owner]; apply D).
  assert (SNF : forall j, sname (nodes hF j) = sname (nodes h1 j)) by (intros j; rewrite NF, N1; destruct (existsb _ _); cbn [sname with_owner]; apply D).
  assert (OF : forall j, owner (nodes hF j) = if existsb (Nat.eqb j) sub then o else owner (nodes h1 j)).
  { intros j. rewrite NF, N1. destruct (existsb _ _); cbn [owner with_owner]; [reflexivity|apply D]. }
  assert (PF : forall j, parent (nodes hF j) = if Nat.eqb j c then Some p else parent (nodes h1 j)) by (intros j; rewrite NF, P1; apply HP).
  assert (Sub : forall j, existsb (Nat.eqb j) sub = true <-> j < alloc h1 /\ below (nodes hL) (alloc h1) c j = true) by (intros j; unfold sub; rewrite in_sub, HA; tauto).
  assert (SubIn : forall j, In j sub <-> existsb (Nat.eqb j) sub = true).
  { intros j. rewrite existsb_exists. split; [intros H; exists j; split; [exact H|apply Nat.eqb_refl]|intros [y [Hy E]]; apply Nat.eqb_eq in E; now subst]. }
  (* the adopted subtree was not owned *)
  assert (Oc : owner (nodes h1 c) = false) by (now apply (root_not_owned top h1 c HI)).
  assert (UpL : forall k j, up (nodes hL) j k = Some c -> owner (nodes h1 j) = false).
  { induction k as [|k IH]; intros j Hu; [cbn in Hu; injection Hu as ->; exact Oc|].
    destruct (Nat.eq_dec j c) as [->|Hn]; [exact Oc|]. cbn [up] in Hu. rewrite HP in Hu. apply Nat.eqb_neq in Hn. rewrite Hn in Hu.
    destruct (parent (nodes h1 j)) as [y|] eqn:Ey; [|discriminate]. rewrite (x_down _ _ HI j y Ey). now apply IH. }
  assert (SubF : forall j, existsb (Nat.eqb j) sub = true -> owner (nodes h1 j) = false).
  { intros j Hj. apply Sub in Hj as [_ Hb]. unfold below in Hb. apply in_subtree_up in Hb as [k [_ Hu]]. now apply (UpL k). }
  assert (Sc : existsb (Nat.eqb c) sub = true) by (apply Sub; split; [exact Hc|apply below_refl]).
  assert (Ec1 : is_elem (nodes h1' c) = is_elem (nodes h1 c)).
  { rewrite N1, Sc. unfold is_elem. cbn [kind with_owner]. now destruct (D c) as (K & _); rewrite K. }
  assert (EL : forall j, is_elem (nodes hL j) = is_elem (nodes h1 j)) by (intros j; unfold is_elem; now destruct (D j) as (K & _); rewrite K).
  (* when nothing is indexed although the subtree becomes owned, the subtree is a single non-element *)
  assert (Leaf : b = false -> o = true -> forall j, existsb (Nat.eqb j) sub = true -> j = c /\ is_elem (nodes h1 c) = false).
  { intros Hb Ht j Hj. unfold b in Hb. rewrite Ht, Ec1 in Hb. cbn [andb] in Hb. split; [|exact Hb].
    apply Sub in Hj as [_ Hbl]. apply (below_leaf _ _ _ _ HC Hcl); [now rewrite EL|exact Hbl]. }
  (* chains that do not meet c are the same before and after the link *)
  assert (UpSame : forall n k x, up (nodes h1) n k = Some x -> up (nodes hL) n k = Some x).
  { intros n k x Hu. rewrite <- Hu. apply up_same_prefix. intros i y Hi Hy. rewrite HP. destruct (Nat.eqb y c) eqn:E; [|reflexivity].
    apply Nat.eqb_eq in E. subst y. exfalso. destruct (up_prefix _ k n x (S i) Hu ltac:(lia)) as [z Hz].
    replace (S i) with (i + 1) in Hz by lia. rewrite up_add, Hy in Hz. cbn [up] in Hz. now rewrite Hroot in Hz. }
  assert (Keep : forall nm n, dict_get nm (sdict h1) = Some n ->
            kind (nodes hF n) = KElem Q_STYLE /\ sname (nodes hF n) = Some nm /\ owner (nodes hF n) = true /\ pok (nodes hF) n = true).
  { intros nm n Hg. destruct (x_sty _ _ HI) as [_ SV]. destruct (SV nm n Hg) as (V1 & V2 & V3 & V4).
    assert (Sn : existsb (Nat.eqb n) sub = false) by (destruct (existsb (Nat.eqb n) sub) eqn:E; [rewrite (SubF n E) in V3; discriminate|reflexivity]).
    rewrite KF, SNF, OF, Sn. repeat split; try assumption. unfold pok in *. rewrite PF.
    destruct (Nat.eqb n c) eqn:E; [apply Nat.eqb_eq in E; subst; congruence|]. destruct (parent (nodes h1 n)); [now rewrite KF|exact V4]. }
  change (Idx top hF). constructor.
  - (* x_iff *)
    intros q n. rewrite KF, OF. unfold hF. destruct b eqn:Eb.
    + assert (Ot : o = true) by (unfold b in Eb; now apply andb_prop in Eb as [A _]).
      unfold rebuild_caches. rewrite Sub1. rewrite (rebuild_fold_indexed (nodes h1') sub h1' eq_refl (sub_nodup hL c) q n).
      rewrite (indexed_edict h1 h1' q HE), (x_iff _ _ HI), SubIn.
      assert (K1 : kind (nodes h1' n) = kind (nodes h1 n)) by (rewrite N1; destruct (existsb (Nat.eqb n) sub); cbn [kind with_owner]; apply D). rewrite K1.
      destruct (existsb (Nat.eqb n) sub) eqn:Sn.
      * split; [intros [[H _]|[_ H]]; (split; [exact H|exact Ot])|intros [H _]; right; split; [reflexivity|exact H]].
      * split; [intros [H|[H _]]; [exact H|discriminate]|intros H; now left].
    + rewrite (indexed_edict h1 h1' q HE), (x_iff _ _ HI). split.
      * intros [H1 H2]. split; [exact H1|]. destruct (existsb (Nat.eqb n) sub) eqn:Sn; [rewrite (SubF n Sn) in H2; discriminate|exact H2].
      * intros [H1 H2]. split; [exact H1|]. destruct (existsb (Nat.eqb n) sub) eqn:Sn; [|exact H2].
        destruct (Leaf eq_refl H2 n Sn) as [-> Hne]. unfold is_elem in Hne. now rewrite H1 in Hne.
  - (* x_nodup *)
    intros q. unfold hF. destruct b.
    + unfold rebuild_caches. rewrite Sub1. apply (rebuild_fold_nodup (nodes h1') sub h1' eq_refl (sub_nodup hL c) q).
      * rewrite (indexed_edict h1 h1' q HE). apply (x_nodup _ _ HI).
      * intros x Hx. rewrite (indexed_edict h1 h1' q HE), (x_iff _ _ HI). intros [_ H]. apply SubIn in Hx. rewrite (SubF x Hx) in H. discriminate.
    + rewrite (indexed_edict h1 h1' q HE). apply (x_nodup _ _ HI).
  - (* x_down *)
    intros x y. rewrite PF, !OF. destruct (Nat.eqb x c) eqn:Exc.
    + apply Nat.eqb_eq in Exc. subst x. intros H. injection H as <-. rewrite Sc. destruct (existsb (Nat.eqb p) sub); [reflexivity|exact Ho].
    + apply Nat.eqb_neq in Exc. intros Exy.
      assert (ExyL : parent (nodes hL x) = Some y) by (rewrite HP; apply Nat.eqb_neq in Exc; now rewrite Exc).
      destruct (Hcl x y ExyL) as [Hx Hy].
      destruct (existsb (Nat.eqb x) sub) eqn:Sx.
      * apply Sub in Sx as [_ Bx]. destruct (below_step_up _ _ _ _ Hcl Bx Exc) as [y' [E1 B1]]. rewrite ExyL in E1. injection E1 as <-.
        assert (Sy : existsb (Nat.eqb y) sub = true) by (apply Sub; split; assumption). now rewrite Sy.
      * destruct (existsb (Nat.eqb y) sub) eqn:Sy.
        -- apply Sub in Sy as [_ By]. assert (existsb (Nat.eqb x) sub = true) by (apply Sub; split; [exact Hx|apply (below_step_down _ _ _ _ y Hcl ExyL By)]). congruence.
        -- now apply (x_down _ _ HI).
  - (* x_fresh *)
    intros j Hj. rewrite AF in Hj. rewrite OF. destruct (existsb (Nat.eqb j) sub) eqn:Sj; [apply Sub in Sj as [L _]; lia|now apply (x_fresh _ _ HI)].
  - (* x_top *)
    destruct (x_top _ _ HI) as (T1 & T2 & T3). rewrite AF, OF, PF. split; [exact T1|].
    assert (Etc : Nat.eqb top c = false) by (apply Nat.eqb_neq; congruence). rewrite Etc. split; [|exact T3].
    destruct (existsb (Nat.eqb top) sub) eqn:St; [|exact T2]. rewrite (SubF top St) in T2. discriminate.
  - (* x_att *)
    intros n. rewrite OF. intros On.
    assert (UE : forall k m, up (nodes hF) m k = up (nodes hL) m k) by (apply up_ext; intros j; now rewrite NF, P1).
    destruct (existsb (Nat.eqb n) sub) eqn:Sn.
    + (* n is below c, c is now below p, p was attached *)
      destruct (x_att _ _ HI p ltac:(now rewrite <- Ho)) as [k1 Hu1]. apply UpSame in Hu1.
      apply Sub in Sn as [_ Hb]. unfold below in Hb. apply in_subtree_up in Hb as [k2 [_ Hu2]].
      exists (k2 + S k1). rewrite UE, up_add, Hu2. cbn [up]. rewrite HP, Nat.eqb_refl. exact Hu1.
    + destruct (x_att _ _ HI n On) as [k Hu]. exists k. rewrite UE. now apply UpSame.
  - (* x_sty *)
    unfold hF. destruct b eqn:Eb.
    + assert (Ot : o = true) by (unfold b in Eb; now apply andb_prop in Eb as [A _]).
      unfold rebuild_caches. rewrite Sub1.
      assert (R : StyOK (nodes h1') (sdict (fold_left (fun h' m => if is_elem (nodes h1' m) then build_caches h' m else h') sub h1'))).
      { apply rebuild_fold_sdict; [reflexivity| |].
        - change (sdict h1') with (sdict hL). rewrite HS. destruct (x_sty _ _ HI) as [SK _]. split; [exact SK|].
          intros nm n Hg. destruct (Keep nm n Hg) as (A & B & C & E). rewrite NF in A, B, C, E. auto.
        - intros m Hm. apply SubIn in Hm. rewrite N1, Hm. cbn [owner with_owner]. exact Ot. }
      rewrite nodes_fold by apply nodes_build_caches. exact R.
    + change (sdict h1') with (sdict hL). rewrite HS. destruct (x_sty _ _ HI) as [SK _]. split; [exact SK|].
      intros nm n Hg. exact (Keep nm n Hg).
Qed.

(* ---------------- the operations ---------------- *)
(* the detach appendChild and insertBefore start with *)
Lemma detach_idx top h c : WF h -> Idx top h -> c < alloc h ->
  match (match parent (nodes h c) with Some op => remove_child h op c | None => ROk h end) with
  | ROk h1 => WF h1 /\ Idx top h1 /\ alloc h1 = alloc h /\ parent (nodes h1 c) = None /\ (forall j, is_elem (nodes h1 j) = is_elem (nodes h j))
  | RRaise _ h1 => h1 = h
  end.
Proof.
  intros HW HI Hc. pose proof HW as [HC HF]. pose proof (detach_first h c _ HC eq_refl) as Hd.
  destruct (parent (nodes h c)) as [op|] eqn:Ep.
  - pose proof (remove_child_idx top h op c HW HI) as RI.
    destruct (wf_closed h HW c op Ep) as [_ Hop].
    destruct (remove_child_wf h op c HW Hop Hc) as [RW RA].
    destruct (remove_child h op c) as [h1|e h1]; cbn [heap_of] in *; [|exact Hd].
    destruct Hd as (_ & D2 & D3). auto.
  - destruct Hd as (_ & D2 & D3). auto.
Qed.

Lemma append_child_idx top h p c : WF h -> Idx top h -> p < alloc h -> c < alloc h -> c <> p -> c <> top ->
  Idx top (heap_of (append_child h p c)).
Proof.
  intros HW HI Hp Hc Hcp Hct. unfold append_child. destruct (is_childless (nodes h p)) eqn:Ecl; [exact HI|].
  pose proof (detach_idx top h c HW HI Hc) as Hd.
  destruct (match parent (nodes h c) with Some op => remove_child h op c | None => ROk h end) as [h1|e h1]; cbn [bind_res heap_of]; [|now subst h1].
  destruct Hd as ([H1 F1] & I1 & A1 & Hdet & Hel).
  assert (Hnk : ~ In c (kids (nodes h1 p))) by (intros H; apply (c_kids _ H1) in H; congruence).
  pose proof (link_last_appended (nodes h1) p c Hcp Hnk) as AP.
  assert (Hep : is_elem (nodes h1 p) = true) by (rewrite Hel; unfold is_childless in Ecl; now apply negb_false_iff in Ecl).
  apply (adopt_idx top h1); try assumption; try reflexivity; try lia.
  - split; [apply (appended_consistent (nodes h1) _ p c H1 Hcp Hdet Hep AP)|].
    intros j Hj. cbn [alloc set_nodes] in Hj. unfold set_nodes. cbn [nodes]. eapply appended_fresh; [exact AP| | |apply F1; exact Hj]; lia.
  - intros j. unfold set_nodes. cbn [nodes]. apply link_last_data.
  - intros j. unfold set_nodes. cbn [nodes]. destruct AP as [_ A2 _ _ _]. apply A2.
Qed.

Lemma insert_before_idx top h p c ref : WF h -> Idx top h -> p < alloc h -> c < alloc h -> c <> p -> c <> top ->
  Idx top (heap_of (insert_before h p c ref)).
Proof.
  intros HW HI Hp Hc Hcp Hct. unfold insert_before. destruct (is_childless (nodes h p)) eqn:Ecl; [exact HI|].
  destruct ref as [r|]; [|now apply append_child_idx].
  destruct (index_of r (kids (nodes h p))) as [i0|]; [|exact HI].
  destruct (Nat.eqb r c) eqn:Erc; [exact HI|]. apply Nat.eqb_neq in Erc.
  pose proof (detach_idx top h c HW HI Hc) as Hd.
  destruct (match parent (nodes h c) with Some op => remove_child h op c | None => ROk h end) as [h1|e h1]; cbn [bind_res heap_of]; [|now subst h1].
  destruct Hd as ([H1 F1] & I1 & A1 & Hdet & Hel).
  destruct (index_of r (kids (nodes h1 p))) as [i|] eqn:Hi; [|exact I1]. cbn [heap_of].
  destruct (index_of_split _ _ _ Hi) as (a & b & Hk & Hl & _). subst i.
  assert (Hnk : ~ In c (kids (nodes h1 p))) by (intros H; apply (c_kids _ H1) in H; congruence).
  assert (Hpc : prev (nodes h1 c) = None) by (now destruct (c_free _ H1 c Hdet)).
  pose proof (link_before_inserted (nodes h1) p c r a b Hcp Erc Hk Hnk Hpc) as IN.
  assert (Hep : is_elem (nodes h1 p) = true) by (rewrite Hel; unfold is_childless in Ecl; now apply negb_false_iff in Ecl).
  apply (adopt_idx top h1); try assumption; try reflexivity; try lia.
  - split; [apply (inserted_consistent (nodes h1) _ p c r a b H1 Hcp Erc Hdet Hep Hk IN)|].
    intros j Hj. cbn [alloc set_nodes] in Hj. unfold set_nodes. cbn [nodes]. eapply (inserted_fresh (nodes h1) _ p c r a); [exact IN| | |apply F1; exact Hj]; lia.
  - intros j. unfold set_nodes. cbn [nodes]. apply link_before_data.
  - intros j. unfold set_nodes. cbn [nodes]. destruct IN as [_ A2 _ _ _]. apply A2.
Qed.

Lemma new_node_idx top h k : is_elem (mkN k None [] None None false None) = false -> WF h -> Idx top h -> Idx top (fst (new_node h k)).
Proof.
  intros Hk [HC HF] HI. unfold new_node. cbn [fst]. set (n := alloc h). set (g := upd (nodes h) n (mkN k None [] None None false None)).
  assert (On : owner (nodes h n) = false) by (apply (x_fresh _ _ HI); unfold n; lia).
  assert (G : forall j, owner (g j) = owner (nodes h j)) by (intros j; unfold g; rewrite upd_field; cbn; destruct (Nat.eqb j n) eqn:E; [apply Nat.eqb_eq in E; subst; now rewrite On|reflexivity]).
  assert (P : forall j, parent (g j) = parent (nodes h j)).
  { intros j. unfold g. rewrite upd_field. cbn. destruct (Nat.eqb j n) eqn:E; [apply Nat.eqb_eq in E; subst j; now destruct (HF n ltac:(unfold n; lia)) as [A _]|reflexivity]. }
  assert (KO : forall j q, (kind (g j) = KElem q /\ owner (g j) = true) <-> (kind (nodes h j) = KElem q /\ owner (nodes h j) = true)).
  { intros j q. rewrite G. unfold g. rewrite upd_field. destruct (Nat.eqb j n) eqn:E; [|tauto]. apply Nat.eqb_eq in E. subst j. rewrite On. split; intros [_ H]; discriminate. }
  constructor; cbn [nodes alloc edict sdict].
  - intros q x. change (indexed (mkH g (S n) (edict h) (sdict h)) q) with (indexed h q). rewrite (x_iff _ _ HI). symmetry. apply KO.
  - intros q. apply (x_nodup _ _ HI).
  - intros c p. rewrite P, !G. apply (x_down _ _ HI).
  - intros j Hj. rewrite G. apply (x_fresh _ _ HI). unfold n in Hj. lia.
  - destruct (x_top _ _ HI) as (T1 & T2 & T3). rewrite G, P. split; [unfold n; lia|split; assumption].
  - intros x. rewrite G. intros Ox. destruct (x_att _ _ HI x Ox) as [k0 Hu]. exists k0. rewrite <- Hu. now apply up_ext.
  - destruct (x_sty _ _ HI) as [SK SV]. split; [exact SK|]. intros nm x Hg. destruct (SV nm x Hg) as (V1 & V2 & V3 & V4).
    assert (Hx : Nat.eqb x n = false) by (apply Nat.eqb_neq; intros ->; congruence).
    unfold g. rewrite !upd_field, Hx. repeat split; try assumption. unfold pok. rewrite upd_field, Hx.
    unfold pok in V4. destruct (parent (nodes h x)) as [pp|] eqn:Epp; [|exact V4]. rewrite upd_field.
    destruct (Nat.eqb pp n) eqn:E; [|exact V4]. apply Nat.eqb_eq in E. subst pp.
    destruct (HF n ltac:(unfold n; lia)) as [_ Kn]. apply (c_par _ HC) in Epp. rewrite Kn in Epp. contradiction.
Qed.

(* ---------------- every operation, every history ---------------- *)
(* the document's root is never made a child *)
Definition op_keeps_top (top : id) (o : op) : Prop :=
  match o with
  | OAppend _ c | OAddElement _ c _ | OInsert _ c _ => c <> top
  | _ => True
  end.

Theorem step_idx top h o : WF h -> Idx top h -> op_ok h o -> op_keeps_top top o -> Idx top (heap_of (step h o)).
Proof.
  intros HW HI Ho Ht. destruct o as [p c|p c r|p c|p c al|p al em cd]; cbn [step op_ok op_keeps_top] in *.
  - destruct Ho as (A & B & C). now apply append_child_idx.
  - destruct Ho as (A & B & C). now apply insert_before_idx.
  - now apply remove_child_idx.
  - destruct Ho as (A & B & C). unfold add_element. destruct (negb al); [exact HI|]. now apply append_child_idx.
  - unfold add_text. destruct (negb (is_elem (nodes h p))); [exact HI|]. destruct (negb al); [exact HI|].
    destruct (em && negb cd); [exact HI|].
    destruct (new_node_consistent h (if cd then KCData else KText) HW) as [W1 E1].
    pose proof (new_node_idx top h (if cd then KCData else KText) ltac:(destruct cd; reflexivity) HW HI) as I1.
    destruct (new_node h (if cd then KCData else KText)) as [h1 t] eqn:En. cbn [fst snd] in *. subst t.
    assert (A1 : alloc h1 = S (alloc h)) by (unfold new_node in En; injection En as <-; reflexivity).
    destruct (x_top _ _ HI) as (T1 & _). apply append_child_idx; try assumption; lia.
Qed.

Fixpoint ops_keep_top (top : id) (ops : list op) : Prop :=
  match ops with [] => True | o :: r => op_keeps_top top o /\ ops_keep_top top r end.

Theorem run_idx top ops : forall h, WF h -> Idx top h -> ops_ok h ops -> ops_keep_top top ops -> WF (run h ops) /\ Idx top (run h ops).
Proof.
  induction ops as [|o r IH]; intros h HW HI Ho Ht; [split; assumption|].
  destruct Ho as [H1 H2]. destruct Ht as [T1 T2]. cbn [run]. apply IH; [now apply step_wf|now apply step_idx|exact H2|exact T2].
Qed.

(* ---------------- what the invariant says about the lookups ---------------- *)
Definition attached (h : heap) (top n : id) : Prop := exists k, up (nodes h) n k = Some top.

Lemma owned_iff_attached top h n : Idx top h -> (owner (nodes h n) = true <-> attached h top n).
Proof.
  intros HI. split; [apply (x_att _ _ HI)|]. intros [k Hu]. rewrite (up_owner _ (x_down _ _ HI) k n top Hu). now destruct (x_top _ _ HI) as (_ & T & _).
Qed.

Theorem index_exact top h : Idx top h -> forall q,
  NoDup (get_elements_by_type h q) /\
  forall n, In n (get_elements_by_type h q) <-> kind (nodes h n) = KElem q /\ attached h top n.
Proof.
  intros HI q. split; [apply (x_nodup _ _ HI)|]. intros n. change (get_elements_by_type h q) with (indexed h q).
  rewrite (x_iff _ _ HI), (owned_iff_attached top h n HI). reflexivity.
Qed.

Theorem style_lookup_sound top h nm n : Idx top h -> get_style_by_name h nm = Some n ->
  kind (nodes h n) = KElem Q_STYLE /\ sname (nodes h n) = Some nm /\ attached h top n /\ style_parent_ok h n = true.
Proof.
  intros HI Hg. destruct (x_sty _ _ HI) as [_ SV]. destruct (SV nm n Hg) as (A & B & C & D).
  repeat split; try assumption. now apply (owned_iff_attached top h n HI).
Qed.

(* a starting point: a document root (node 0, owned and indexed) and free nodes *)
Definition heap1 (nelem ntext : nat) : heap :=
  mkH (fun j => if Nat.eqb j 0 then mkN (KElem 3) None [] None None true None
                else if Nat.ltb j (S nelem) then blank (KElem (3 + j)) else blank KText)
      (S nelem + ntext) [(3, [0])] [].

Lemma heap1_wf a b : WF (heap1 a b).
Proof.
  assert (B : forall j, parent (nodes (heap1 a b) j) = None /\ kids (nodes (heap1 a b) j) = [] /\
                        prev (nodes (heap1 a b) j) = None /\ next (nodes (heap1 a b) j) = None).
  { intros j. cbn [heap1 nodes]. destruct (Nat.eqb j 0); [repeat split|]. destruct (Nat.ltb j (S a)); repeat split. }
  split; [constructor|].
  - intros p c. destruct (B p) as (_ & K & _). rewrite K. intros [].
  - intros p c. destruct (B c) as (P & _). rewrite P. discriminate.
  - intros p. destruct (B p) as (_ & K & _). rewrite K. constructor.
  - intros p. destruct (B p) as (_ & K & _). rewrite K. exact I.
  - intros c _. destruct (B c) as (_ & _ & A & C). auto.
  - intros n _. now destruct (B n) as (_ & K & _).
  - intros n. destruct (B n) as (P & _). rewrite P. discriminate.
  - intros j _. destruct (B j) as (P & K & _). split; assumption.
Qed.

Lemma heap1_idx a b : Idx 0 (heap1 a b).
Proof.
  assert (O : forall j, owner (nodes (heap1 a b) j) = Nat.eqb j 0).
  { intros j. cbn [heap1 nodes]. destruct (Nat.eqb j 0); [reflexivity|]. destruct (Nat.ltb j (S a)); reflexivity. }
  assert (P : forall j, parent (nodes (heap1 a b) j) = None).
  { intros j. cbn [heap1 nodes]. destruct (Nat.eqb j 0); [reflexivity|]. destruct (Nat.ltb j (S a)); reflexivity. }
  constructor.
  - intros q n. rewrite O. unfold indexed, get_elements_by_type. cbn [heap1 edict dict_get nodes].
    destruct (Nat.eqb 3 q) eqn:E.
    + apply Nat.eqb_eq in E. subst q. cbn [In]. split.
      * intros [<-|[]]. split; reflexivity.
      * intros [_ H]. apply Nat.eqb_eq in H. now left.
    + split; [intros []|]. intros [K H]. apply Nat.eqb_eq in H. subst n. cbn in K. injection K as <-. now rewrite Nat.eqb_refl in E.
  - intros q. unfold indexed, get_elements_by_type. cbn [heap1 edict dict_get]. destruct (Nat.eqb 3 q); [constructor; [intros []|constructor]|constructor].
  - intros c p. rewrite P. discriminate.
  - intros j Hj. rewrite O. apply Nat.eqb_neq. cbn [heap1 alloc] in Hj. lia.
  - rewrite O, P. cbn [heap1 alloc]. repeat split. lia.
  - intros n. rewrite O. intros H. apply Nat.eqb_eq in H. subst. now exists 0.
  - split; [constructor|]. intros nm n H. discriminate.
Qed.

(* non-vacuity: a history on such a document; the index lists exactly the attached elements *)
Example run_idx_example :
  let h := run (heap1 3 2) [OAppend 0 1; OAppend 1 2; OAppend 1 4; ORemove 0 1; OAppend 0 3; OInsert 0 1 (Some 3); ORemove 1 2] in
  map (get_elements_by_type h) [3; 4; 5; 6] = [[0]; [1]; []; [3]] /\ map (fun j => owner (nodes h j)) [0; 1; 2; 3; 4] = [true; true; false; true; true].
Proof. vm_compute. split; reflexivity. Qed.

(* ---------------- completeness of the style lookup, where names are unique ---------------- *)
Definition registrable (f : id -> nrec) (n : id) (nm : nat) : Prop :=
  kind (f n) = KElem Q_STYLE /\ sname (f n) = Some nm /\ owner (f n) = true /\ pok f n = true.
Definition Uniq (h : heap) : Prop := forall n1 n2 nm, registrable (nodes h) n1 nm -> registrable (nodes h) n2 nm -> n1 = n2.
Definition Comp (h : heap) : Prop := forall n nm, registrable (nodes h) n nm -> dict_get nm (sdict h) = Some n.

Lemma remove_fold_keeps f0 l nm n : forall h0, nodes h0 = f0 -> dict_get nm (sdict h0) = Some n -> ~ In n l ->
  dict_get nm (sdict (fold_left (fun h' m => if is_elem (f0 m) then remove_one h' m else h') l h0)) = Some n.
Proof.
  induction l as [|m l IH]; intros h0 Hn Hg Hl; cbn [fold_left]; [exact Hg|].
  assert (Hm : m <> n) by (intros ->; apply Hl; now left). assert (Hl' : ~ In n l) by (intros H; apply Hl; now right).
  destruct (is_elem (f0 m)); [|now apply IH]. apply IH; [now rewrite nodes_remove_one| |exact Hl'].
  unfold remove_one. destruct (kind (nodes h0 m)) as [q| |]; try exact Hg. cbn [sdict].
  destruct (Nat.eqb q Q_STYLE); [|exact Hg]. destruct (sname (nodes h0 m)) as [nmm|]; [|exact Hg].
  destruct (dict_get nmm (sdict h0)) as [m'|] eqn:G; [|exact Hg]. destruct (Nat.eqb m' m) eqn:E; [|exact Hg].
  apply Nat.eqb_eq in E. subst m'. destruct (Nat.eq_dec nmm nm) as [->|Hne]; [congruence|]. now rewrite dict_get_del_other.
Qed.

(* build_caches on m leaves the entry nm alone unless m registers under nm *)
Lemma build_keeps f0 h0 m nm : nodes h0 = f0 -> ~ (kind (f0 m) = KElem Q_STYLE /\ sname (f0 m) = Some nm /\ pok f0 m = true) ->
  dict_get nm (sdict (build_caches h0 m)) = dict_get nm (sdict h0).
Proof.
  intros Hn Hr. unfold build_caches. rewrite Hn. destruct (kind (f0 m)) as [q| |] eqn:Km; try reflexivity.
  destruct (Nat.eqb q Q_STYLE) eqn:Eq; [|reflexivity]. apply Nat.eqb_eq in Eq. subst q.
  destruct (sname (f0 m)) as [nmm|] eqn:Sm; [|reflexivity]. rewrite pok_spec, Hn. destruct (pok f0 m) eqn:Pm; [|reflexivity].
  cbn [sdict]. rewrite dict_get_set. destruct (Nat.eqb nmm nm) eqn:E; [|reflexivity]. apply Nat.eqb_eq in E. subst nmm. exfalso. apply Hr. auto.
Qed.
Lemma build_sets f0 h0 m nm : nodes h0 = f0 -> kind (f0 m) = KElem Q_STYLE -> sname (f0 m) = Some nm -> pok f0 m = true ->
  dict_get nm (sdict (build_caches h0 m)) = Some m.
Proof.
  intros Hn Km Sm Pm. unfold build_caches. rewrite Hn, Km, Nat.eqb_refl, Sm, pok_spec, Hn, Pm. cbn [sdict]. now rewrite dict_get_set, Nat.eqb_refl.
Qed.
Lemma rebuild_fold_keeps f0 l nm v : forall h0, nodes h0 = f0 -> dict_get nm (sdict h0) = v ->
  (forall m, In m l -> ~ (kind (f0 m) = KElem Q_STYLE /\ sname (f0 m) = Some nm /\ pok f0 m = true)) ->
  dict_get nm (sdict (fold_left (fun h' m => if is_elem (f0 m) then build_caches h' m else h') l h0)) = v.
Proof.
  induction l as [|m l IH]; intros h0 Hn Hg Hl; cbn [fold_left]; [exact Hg|].
  destruct (is_elem (f0 m)); [|apply IH; [exact Hn|exact Hg|intros x Hx; apply Hl; now right]].
  apply IH; [now rewrite nodes_build_caches| |intros x Hx; apply Hl; now right].
  rewrite (build_keeps f0 h0 m nm Hn); [exact Hg|apply Hl; now left].
Qed.
Lemma rebuild_fold_sets f0 l nm n : forall h0, nodes h0 = f0 -> NoDup l -> In n l ->
  kind (f0 n) = KElem Q_STYLE -> sname (f0 n) = Some nm -> pok f0 n = true ->
  (forall m, In m l -> kind (f0 m) = KElem Q_STYLE /\ sname (f0 m) = Some nm /\ pok f0 m = true -> m = n) ->
  dict_get nm (sdict (fold_left (fun h' m => if is_elem (f0 m) then build_caches h' m else h') l h0)) = Some n.
Proof.
  induction l as [|m l IH]; intros h0 Hn Hd Hin Kn Sn Pn Hu; [destruct Hin|]. cbn [fold_left]. apply NoDup_cons_iff in Hd as [Hm Hd].
  destruct Hin as [->|Hin].
  - assert (En : is_elem (f0 n) = true) by (unfold is_elem; now rewrite Kn). rewrite En.
    apply rebuild_fold_keeps; [now rewrite nodes_build_caches|now apply (build_sets f0)|].
    intros x Hx Hr. assert (x = n) by (apply Hu; [now right|exact Hr]). subst. contradiction.
  - destruct (is_elem (f0 m)); [|apply IH; try assumption; intros x Hx; apply Hu; now right].
    apply IH; try assumption; [now rewrite nodes_build_caches|intros x Hx; apply Hu; now right].
Qed.

Lemma remove_child_comp top h p c : WF h -> Idx top h -> Comp h -> Comp (heap_of (remove_child h p c)).
Proof.
  intros HW HI HCo. revert HW HI.
  intros HW HI. pose proof HW as [HC HF]. pose proof (wf_closed h HW) as Hcl.
  unfold remove_child. destruct (is_childless (nodes h p)) eqn:Ecl; [exact HCo|].
  destruct (index_of c (kids (nodes h p))) as [i|] eqn:Hi; [|exact HCo]. cbn [heap_of].
  assert (Hin : In c (kids (nodes h p))) by (apply index_of_in; eauto).
  assert (Hpar : parent (nodes h c) = Some p) by (now apply (c_kids _ HC)).
  assert (Hcp : c <> p) by (intros ->; now apply (c_noself _ HC p)).
  destruct (Hcl c p Hpar) as [Hc Hp].
  pose proof (unlink_removed (nodes h) p c Hcp) as [_ RP _ _ _]. unfold PAR in RP.
  assert (GD : forall j, kind (unlink (nodes h) p c j) = kind (nodes h j) /\ owner (unlink (nodes h) p c j) = owner (nodes h j) /\
                         sname (unlink (nodes h) p c j) = sname (nodes h j)) by (intros j; apply DATA_fields, unlink_data).
  cbv zeta. set (G := unlink (nodes h) p c) in *. set (sub := subtree_ids h c).
  set (h4 := set_nodes h G).
  set (b := owner (nodes h4 p) && is_elem (nodes h4 c)).
  set (h5 := if b then remove_from_caches h4 sub else h4).
  assert (N5 : nodes h5 = G) by (unfold h5; destruct b; [rewrite nodes_remove_from_caches|]; reflexivity).
  match goal with |- Comp ?H => set (h6 := H) end.
  assert (N6 : forall j, nodes h6 j = if existsb (Nat.eqb j) sub then with_owner (G j) false else G j).
  { intros j. unfold h6, set_nodes. cbn [nodes]. now rewrite N5. }
  assert (A6 : alloc h6 = alloc h).
  { unfold h6, set_nodes. cbn [alloc]. unfold h5. destruct b; [rewrite alloc_remove_from_caches|]; reflexivity. }
  assert (K6 : forall j, kind (nodes h6 j) = kind (nodes h j)).
  { intros j. rewrite N6. destruct (existsb _ _); cbn [kind with_owner]; apply GD. }
  assert (SN6 : forall j, sname (nodes h6 j) = sname (nodes h j)).
  { intros j. rewrite N6. destruct (existsb _ _); cbn [sname with_owner]; apply GD. }
  assert (O6 : forall j, owner (nodes h6 j) = if existsb (Nat.eqb j) sub then false else owner (nodes h j)).
  { intros j. rewrite N6. destruct (existsb _ _); cbn [owner with_owner]; [reflexivity|apply GD]. }
  assert (P6 : forall j, parent (nodes h6 j) = if Nat.eqb j c then None else parent (nodes h j)).
  { intros j. rewrite N6. destruct (existsb _ _); cbn [parent with_owner]; apply RP. }
  (* facts about the removed subtree *)
  assert (Sub : forall j, existsb (Nat.eqb j) sub = true <-> j < alloc h /\ below (nodes h) (alloc h) c j = true) by (intros j; apply in_sub).
  assert (SubO : forall j, existsb (Nat.eqb j) sub = true -> owner (nodes h j) = owner (nodes h p)).
  { intros j Hj. apply Sub in Hj as [_ Hb]. rewrite (below_owner _ _ _ _ (x_down _ _ HI) Hb). now apply (x_down _ _ HI). }
  assert (Hb4 : b = owner (nodes h p) && is_elem (nodes h c)).
  { unfold b, h4, set_nodes. cbn [nodes]. destruct (GD p) as (_ & O & _). rewrite O. f_equal. unfold is_elem. now destruct (GD c) as (K & _); rewrite K. }
  (* an owned element of the subtree means the caches were cleaned *)
  assert (SubE : forall j q, existsb (Nat.eqb j) sub = true -> kind (nodes h j) = KElem q -> owner (nodes h j) = true -> b = true).
  { intros j q Hj Kj Oj. rewrite Hb4. rewrite <- (SubO j Hj), Oj. cbn [andb].
    destruct (is_elem (nodes h c)) eqn:Ec; [reflexivity|]. apply Sub in Hj as [_ Hb].
    apply (below_leaf _ _ _ _ HC Hcl Ec) in Hb. subst j. unfold is_elem in Ec. now rewrite Kj in Ec. }
  assert (E6 : edict h6 = edict h5) by reflexivity.
  assert (S6 : sdict h6 = sdict h5) by reflexivity.
  intros n nm (R1 & R2 & R3 & R4). rewrite K6 in R1. rewrite SN6 in R2. rewrite O6 in R3.
  destruct (existsb (Nat.eqb n) sub) eqn:Sn; [discriminate|].
  assert (Hnc : Nat.eqb n c = false).
  { apply Nat.eqb_neq. intros ->. assert (existsb (Nat.eqb c) sub = true) by (apply Sub; split; [exact Hc|apply below_refl]). congruence. }
  assert (R4' : pok (nodes h) n = true).
  { unfold pok in *. rewrite P6, Hnc in R4. destruct (parent (nodes h n)); [now rewrite K6 in R4|exact R4]. }
  pose proof (HCo n nm (conj R1 (conj R2 (conj R3 R4')))) as Hg.
  assert (Hns : ~ In n sub) by (intros H; assert (existsb (Nat.eqb n) sub = true) by (apply existsb_exists; exists n; split; [exact H|apply Nat.eqb_refl]); congruence).
  rewrite S6. unfold h5. destruct b; [|exact Hg].
  unfold remove_from_caches. cbn [nodes h4 set_nodes]. fold G. now apply (remove_fold_keeps G sub nm n h4 eq_refl).
Qed.

Lemma adopt_comp top h1 hL p c :
  Idx top h1 -> WF hL -> alloc hL = alloc h1 -> edict hL = edict h1 -> sdict hL = sdict h1 ->
  (forall j, DATA (nodes hL) j = DATA (nodes h1) j) ->
  (forall j, parent (nodes hL j) = if Nat.eqb j c then Some p else parent (nodes h1 j)) ->
  parent (nodes h1 c) = None -> c <> top -> c < alloc h1 -> p < alloc h1 ->
  Comp h1 -> Uniq (adopt hL p c) -> Comp (adopt hL p c).
Proof.
  intros HI HW HA HE HS HD HP Hroot Hct Hc Hp HCo. revert HI HW HA HE HS HD HP Hroot Hct Hc Hp.
  intros HI HW HA HE HS HD HP Hroot Hct Hc Hp. pose proof HW as [HC HF]. pose proof (wf_closed hL HW) as Hcl. rewrite HA in Hcl.
  assert (D : forall j, kind (nodes hL j) = kind (nodes h1 j) /\ owner (nodes hL j) = owner (nodes h1 j) /\ sname (nodes hL j) = sname (nodes h1 j)) by (intros j; apply DATA_fields, HD).
  unfold adopt. set (o := owner (nodes hL p)). set (sub := subtree_ids hL c).
  assert (Ho : o = owner (nodes h1 p)) by (unfold o; apply D).
  set (h1' := set_owner hL c o).
  assert (N1 : forall j, nodes h1' j = if existsb (Nat.eqb j) sub then with_owner (nodes hL j) o else nodes hL j) by reflexivity.
  assert (P1 : forall j, parent (nodes h1' j) = parent (nodes hL j)) by (intros j; rewrite N1; destruct (existsb _ _); reflexivity).
  assert (Sub1 : subtree_ids h1' c = sub).
  { unfold sub, subtree_ids. change (alloc h1') with (alloc hL). apply filter_ext. intros m. now apply in_subtree_ext. }
  set (b := o && is_elem (nodes h1' c)).
  set (hF := if b then rebuild_caches h1' c else h1').
  assert (NF : nodes hF = nodes h1') by (unfold hF; destruct b; [apply nodes_rebuild_caches|reflexivity]).
  assert (AF : alloc hF = alloc h1) by (unfold hF; destruct b; [rewrite alloc_rebuild_caches|]; exact HA).
  assert (KF : forall j, kind (nodes hF j) = kind (nodes h1 j)) by (intros j; rewrite NF, N1; destruct (existsb _ _); cbn [kind with_owner]; apply D).
  assert (SNF : forall j, sname (nodes hF j) = sname (nodes h1 j)) by (intros j; rewrite NF, N1; destruct (existsb _ _); cbn [sname with_owner]; apply D).
  assert (OF : forall j, owner (nodes hF j) = if existsb (Nat.eqb j) sub then o else owner (nodes h1 j)).
  { intros j. rewrite NF, N1. destruct (existsb _ _); cbn [owner with_owner]; [reflexivity|apply D]. }
  assert (PF : forall j, parent (nodes hF j) = if Nat.eqb j c then Some p else parent (nodes h1 j)) by (intros j; rewrite NF, P1; apply HP).
  assert (Sub : forall j, existsb (Nat.eqb j) sub = true <-> j < alloc h1 /\ below (nodes hL) (alloc h1) c j = true) by (intros j; unfold sub; rewrite in_sub, HA; tauto).
  assert (SubIn : forall j, In j sub <-> existsb (Nat.eqb j) sub = true).
  { intros j. rewrite existsb_exists. split; [intros H; exists j; split; [exact H|apply Nat.eqb_refl]|intros [y [Hy E]]; apply Nat.eqb_eq in E; now subst]. }
  (* the adopted subtree was not owned *)
  assert (Oc : owner (nodes h1 c) = false) by (now apply (root_not_owned top h1 c HI)).
  assert (UpL : forall k j, up (nodes hL) j k = Some c -> owner (nodes h1 j) = false).
  { induction k as [|k IH]; intros j Hu; [cbn in Hu; injection Hu as ->; exact Oc|].
    destruct (Nat.eq_dec j c) as [->|Hn]; [exact Oc|]. cbn [up] in Hu. rewrite HP in Hu. apply Nat.eqb_neq in Hn. rewrite Hn in Hu.
    destruct (parent (nodes h1 j)) as [y|] eqn:Ey; [|discriminate]. rewrite (x_down _ _ HI j y Ey). now apply IH. }
  assert (SubF : forall j, existsb (Nat.eqb j) sub = true -> owner (nodes h1 j) = false).
  { intros j Hj. apply Sub in Hj as [_ Hb]. unfold below in Hb. apply in_subtree_up in Hb as [k [_ Hu]]. now apply (UpL k). }
  assert (Sc : existsb (Nat.eqb c) sub = true) by (apply Sub; split; [exact Hc|apply below_refl]).
  assert (Ec1 : is_elem (nodes h1' c) = is_elem (nodes h1 c)).
  { rewrite N1, Sc. unfold is_elem. cbn [kind with_owner]. now destruct (D c) as (K & _); rewrite K. }
  assert (EL : forall j, is_elem (nodes hL j) = is_elem (nodes h1 j)) by (intros j; unfold is_elem; now destruct (D j) as (K & _); rewrite K).
  (* when nothing is indexed although the subtree becomes owned, the subtree is a single non-element *)
  assert (Leaf : b = false -> o = true -> forall j, existsb (Nat.eqb j) sub = true -> j = c /\ is_elem (nodes h1 c) = false).
  { intros Hb Ht j Hj. unfold b in Hb. rewrite Ht, Ec1 in Hb. cbn [andb] in Hb. split; [|exact Hb].
    apply Sub in Hj as [_ Hbl]. apply (below_leaf _ _ _ _ HC Hcl); [now rewrite EL|exact Hbl]. }
  (* chains that do not meet c are the same before and after the link *)
  assert (UpSame : forall n k x, up (nodes h1) n k = Some x -> up (nodes hL) n k = Some x).
  { intros n k x Hu. rewrite <- Hu. apply up_same_prefix. intros i y Hi Hy. rewrite HP. destruct (Nat.eqb y c) eqn:E; [|reflexivity].
    apply Nat.eqb_eq in E. subst y. exfalso. destruct (up_prefix _ k n x (S i) Hu ltac:(lia)) as [z Hz].
    replace (S i) with (i + 1) in Hz by lia. rewrite up_add, Hy in Hz. cbn [up] in Hz. now rewrite Hroot in Hz. }
  assert (Keep : forall nm n, dict_get nm (sdict h1) = Some n ->
            kind (nodes hF n) = KElem Q_STYLE /\ sname (nodes hF n) = Some nm /\ owner (nodes hF n) = true /\ pok (nodes hF) n = true).
  { intros nm n Hg. destruct (x_sty _ _ HI) as [_ SV]. destruct (SV nm n Hg) as (V1 & V2 & V3 & V4).
    assert (Sn : existsb (Nat.eqb n) sub = false) by (destruct (existsb (Nat.eqb n) sub) eqn:E; [rewrite (SubF n E) in V3; discriminate|reflexivity]).
    rewrite KF, SNF, OF, Sn. repeat split; try assumption. unfold pok in *. rewrite PF.
    destruct (Nat.eqb n c) eqn:E; [apply Nat.eqb_eq in E; subst; congruence|]. destruct (parent (nodes h1 n)); [now rewrite KF|exact V4]. }
  intros HU. change (Uniq hF) in HU. change (Comp hF).
  intros n nm (R1 & R2 & R3 & R4).
  assert (Old : existsb (Nat.eqb n) sub = false -> dict_get nm (sdict h1) = Some n).
  { intros Sn. apply HCo. rewrite KF in R1. rewrite SNF in R2. rewrite OF, Sn in R3. repeat split; try assumption.
    assert (Hnc : Nat.eqb n c = false) by (apply Nat.eqb_neq; intros ->; congruence).
    unfold pok in *. rewrite PF, Hnc in R4. destruct (parent (nodes h1 n)); [now rewrite KF in R4|exact R4]. }
  assert (RF : forall m, In m sub -> kind (nodes h1' m) = KElem Q_STYLE /\ sname (nodes h1' m) = Some nm /\ pok (nodes h1') m = true -> o = true -> m = n).
  { intros m Hm (A1 & A2 & A3) Ot. apply (HU m n nm); [|repeat split; assumption]. rewrite NF. repeat split; try assumption.
    apply SubIn in Hm. rewrite N1, Hm. cbn [owner with_owner]. exact Ot. }
  unfold hF in *. destruct b eqn:Eb.
  - assert (Ot : o = true) by (unfold b in Eb; now apply andb_prop in Eb as [A _]).
    unfold rebuild_caches. rewrite Sub1. rewrite nodes_rebuild_caches in R1, R2, R3, R4.
    destruct (existsb (Nat.eqb n) sub) eqn:Sn.
    + apply (rebuild_fold_sets (nodes h1') sub nm n h1' eq_refl (sub_nodup hL c)); try assumption; [now apply SubIn|].
      intros m Hm Hr. now apply RF.
    + apply (rebuild_fold_keeps (nodes h1') sub nm (Some n) h1' eq_refl).
      * change (sdict h1') with (sdict hL). rewrite HS. now apply Old.
      * intros m Hm Hr. assert (m = n) by (now apply RF). subst m. apply SubIn in Hm. congruence.
  - change (sdict h1') with (sdict hL). rewrite HS. apply Old.
    destruct (existsb (Nat.eqb n) sub) eqn:Sn; [|reflexivity]. exfalso.
    assert (Ot : o = true) by (rewrite N1, Sn in R3; exact R3).
    destruct (Leaf eq_refl Ot n Sn) as [-> Hne]. rewrite KF in R1. unfold is_elem in Hne. now rewrite R1 in Hne.
Qed.

Record adoptable (top : id) (h1 hL : heap) (p c : id) : Prop := {
  ad_idx : Idx top h1; ad_wf : WF hL; ad_alloc : alloc hL = alloc h1; ad_edict : edict hL = edict h1; ad_sdict : sdict hL = sdict h1;
  ad_data : forall j, DATA (nodes hL) j = DATA (nodes h1) j;
  ad_par : forall j, parent (nodes hL j) = if Nat.eqb j c then Some p else parent (nodes h1 j);
  ad_root : parent (nodes h1 c) = None; ad_top : c <> top; ad_c : c < alloc h1; ad_p : p < alloc h1
}.
Lemma adoptable_comp top h1 hL p c : adoptable top h1 hL p c -> Comp h1 -> Uniq (adopt hL p c) -> Comp (adopt hL p c).
Proof. intros [A1 A2 A3 A4 A5 A6 A7 A8 A9 A10 A11]. now apply (adopt_comp top h1). Qed.

Lemma detach_comp top h c : WF h -> Idx top h -> Comp h ->
  Comp (heap_of (match parent (nodes h c) with Some op => remove_child h op c | None => ROk h end)).
Proof. intros HW HI HCo. destruct (parent (nodes h c)); [now apply (remove_child_comp top)|exact HCo]. Qed.

(* appendChild / insertBefore either change nothing or end with _adopt on a freshly linked, detached node *)
Lemma append_child_shape top h p c : WF h -> Idx top h -> p < alloc h -> c < alloc h -> c <> p -> c <> top ->
  heap_of (append_child h p c) = h \/
  exists h1 hL, heap_of (append_child h p c) = adopt hL p c /\ adoptable top h1 hL p c /\ (Comp h -> Comp h1).
Proof.
  intros HW HI Hp Hc Hcp Hct. unfold append_child. destruct (is_childless (nodes h p)) eqn:Ecl; [now left|].
  pose proof (detach_idx top h c HW HI Hc) as Hd. pose proof (detach_comp top h c HW HI) as Hdc.
  destruct (match parent (nodes h c) with Some op => remove_child h op c | None => ROk h end) as [h1|e h1]; cbn [bind_res heap_of] in *; [|left; now subst h1].
  destruct Hd as ([H1 F1] & I1 & A1 & Hdet & Hel). right.
  assert (Hnk : ~ In c (kids (nodes h1 p))) by (intros H; apply (c_kids _ H1) in H; congruence).
  pose proof (link_last_appended (nodes h1) p c Hcp Hnk) as AP.
  assert (Hep : is_elem (nodes h1 p) = true) by (rewrite Hel; unfold is_childless in Ecl; now apply negb_false_iff in Ecl).
  exists h1, (set_nodes h1 (link_last (nodes h1) p c)). split; [reflexivity|]. split; [|exact Hdc].
  constructor; try assumption; try reflexivity; try lia.
  - split; [apply (appended_consistent (nodes h1) _ p c H1 Hcp Hdet Hep AP)|].
    intros j Hj. cbn [alloc set_nodes] in Hj. unfold set_nodes. cbn [nodes]. eapply appended_fresh; [exact AP| | |apply F1; exact Hj]; lia.
  - intros j. unfold set_nodes. cbn [nodes]. apply link_last_data.
  - intros j. unfold set_nodes. cbn [nodes]. destruct AP as [_ A2 _ _ _]. apply A2.
Qed.

Lemma insert_before_shape top h p c ref : WF h -> Idx top h -> p < alloc h -> c < alloc h -> c <> p -> c <> top ->
  (heap_of (insert_before h p c ref) = h \/
   exists h1, heap_of (insert_before h p c ref) = h1 /\ Idx top h1 /\ (Comp h -> Comp h1)) \/
  exists h1 hL, heap_of (insert_before h p c ref) = adopt hL p c /\ adoptable top h1 hL p c /\ (Comp h -> Comp h1).
Proof.
  intros HW HI Hp Hc Hcp Hct. unfold insert_before. destruct (is_childless (nodes h p)) eqn:Ecl; [left; now left|].
  destruct ref as [r|]; [|destruct (append_child_shape top h p c HW HI Hp Hc Hcp Hct) as [E|E]; [left; now left|now right]].
  destruct (index_of r (kids (nodes h p))) as [i0|]; [|left; now left].
  destruct (Nat.eqb r c) eqn:Erc; [left; now left|]. apply Nat.eqb_neq in Erc.
  pose proof (detach_idx top h c HW HI Hc) as Hd. pose proof (detach_comp top h c HW HI) as Hdc.
  destruct (match parent (nodes h c) with Some op => remove_child h op c | None => ROk h end) as [h1|e h1]; cbn [bind_res heap_of] in *; [|left; left; now subst h1].
  destruct Hd as ([H1 F1] & I1 & A1 & Hdet & Hel).
  destruct (index_of r (kids (nodes h1 p))) as [i|] eqn:Hi; [|left; right; exists h1; auto]. cbn [heap_of]. right.
  destruct (index_of_split _ _ _ Hi) as (a & b & Hk & Hl & _). subst i.
  assert (Hnk : ~ In c (kids (nodes h1 p))) by (intros H; apply (c_kids _ H1) in H; congruence).
  assert (Hpc : prev (nodes h1 c) = None) by (now destruct (c_free _ H1 c Hdet)).
  pose proof (link_before_inserted (nodes h1) p c r a b Hcp Erc Hk Hnk Hpc) as IN.
  assert (Hep : is_elem (nodes h1 p) = true) by (rewrite Hel; unfold is_childless in Ecl; now apply negb_false_iff in Ecl).
  exists h1, (set_nodes h1 (link_before (nodes h1) p c r (List.length a))). split; [reflexivity|]. split; [|exact Hdc].
  constructor; try assumption; try reflexivity; try lia.
  - split; [apply (inserted_consistent (nodes h1) _ p c r a b H1 Hcp Erc Hdet Hep Hk IN)|].
    intros j Hj. cbn [alloc set_nodes] in Hj. unfold set_nodes. cbn [nodes]. eapply (inserted_fresh (nodes h1) _ p c r a); [exact IN| | |apply F1; exact Hj]; lia.
  - intros j. unfold set_nodes. cbn [nodes]. apply link_before_data.
  - intros j. unfold set_nodes. cbn [nodes]. destruct IN as [_ A2 _ _ _]. apply A2.
Qed.

Lemma append_child_comp top h p c : WF h -> Idx top h -> p < alloc h -> c < alloc h -> c <> p -> c <> top ->
  Comp h -> Uniq (heap_of (append_child h p c)) -> Comp (heap_of (append_child h p c)).
Proof.
  intros HW HI Hp Hc Hcp Hct HCo HU. destruct (append_child_shape top h p c HW HI Hp Hc Hcp Hct) as [E|(h1 & hL & E & AD & HC1)]; rewrite E in *; [exact HCo|].
  apply (adoptable_comp top h1); auto.
Qed.
Lemma insert_before_comp top h p c ref : WF h -> Idx top h -> p < alloc h -> c < alloc h -> c <> p -> c <> top ->
  Comp h -> Uniq (heap_of (insert_before h p c ref)) -> Comp (heap_of (insert_before h p c ref)).
Proof.
  intros HW HI Hp Hc Hcp Hct HCo HU.
  destruct (insert_before_shape top h p c ref HW HI Hp Hc Hcp Hct) as [[E|(h1 & E & _ & HC1)]|(h1 & hL & E & AD & HC1)]; rewrite E in *; [exact HCo|auto|].
  apply (adoptable_comp top h1); auto.
Qed.

Lemma new_node_comp top h k : is_elem (mkN k None [] None None false None) = false -> WF h -> Idx top h -> Comp h -> Comp (fst (new_node h k)).
Proof.
  intros Hk [HC HF] HI HCo. unfold new_node. cbn [fst]. set (n := alloc h). intros x nm (R1 & R2 & R3 & R4). cbn [nodes sdict] in *.
  assert (Hx : Nat.eqb x n = false).
  { destruct (Nat.eqb x n) eqn:E; [|reflexivity]. apply Nat.eqb_eq in E. subst x. rewrite upd_field, Nat.eqb_refl in R3. discriminate. }
  rewrite upd_field, Hx in R1. rewrite upd_field, Hx in R2. rewrite upd_field, Hx in R3. apply HCo. repeat split; try assumption.
  unfold pok in *. rewrite upd_field, Hx in R4. destruct (parent (nodes h x)) as [pp|] eqn:Epp; [|exact R4].
  rewrite upd_field in R4. destruct (Nat.eqb pp n) eqn:E; [|exact R4]. apply Nat.eqb_eq in E. subst pp.
  destruct (HF n ltac:(unfold n; lia)) as [_ Kn]. apply (c_par _ HC) in Epp. rewrite Kn in Epp. contradiction.
Qed.

Theorem step_comp top h o : WF h -> Idx top h -> op_ok h o -> op_keeps_top top o ->
  Comp h -> Uniq (heap_of (step h o)) -> Comp (heap_of (step h o)).
Proof.
  intros HW HI Ho Ht HCo. destruct o as [p c|p c r|p c|p c al|p al em cd]; cbn [step op_ok op_keeps_top] in *.
  - destruct Ho as (A & B & C). now apply (append_child_comp top).
  - destruct Ho as (A & B & C). now apply (insert_before_comp top).
  - intros _. now apply (remove_child_comp top).
  - destruct Ho as (A & B & C). unfold add_element. destruct (negb al); [intros _; exact HCo|]. now apply (append_child_comp top).
  - unfold add_text. destruct (negb (is_elem (nodes h p))); [intros _; exact HCo|]. destruct (negb al); [intros _; exact HCo|].
    destruct (em && negb cd); [intros _; exact HCo|].
    destruct (new_node_consistent h (if cd then KCData else KText) HW) as [W1 E1].
    pose proof (new_node_idx top h (if cd then KCData else KText) ltac:(destruct cd; reflexivity) HW HI) as I1.
    pose proof (new_node_comp top h (if cd then KCData else KText) ltac:(destruct cd; reflexivity) HW HI HCo) as C1.
    destruct (new_node h (if cd then KCData else KText)) as [h1 t] eqn:En. cbn [fst snd] in *. subst t.
    assert (A1 : alloc h1 = S (alloc h)) by (unfold new_node in En; injection En as <-; reflexivity).
    destruct (x_top _ _ HI) as (T1 & _). apply (append_child_comp top); try assumption; lia.
Qed.

Fixpoint ops_uniq (h : heap) (ops : list op) : Prop :=
  match ops with [] => True | o :: r => Uniq (heap_of (step h o)) /\ ops_uniq (heap_of (step h o)) r end.

Theorem run_comp top ops : forall h, WF h -> Idx top h -> Comp h -> ops_ok h ops -> ops_keep_top top ops -> ops_uniq h ops -> Comp (run h ops).
Proof.
  induction ops as [|o r IH]; intros h HW HI HCo Ho Ht Hu; [exact HCo|].
  destruct Ho as [H1 H2]. destruct Ht as [T1 T2]. destruct Hu as [U1 U2]. cbn [run].
  apply IH; [now apply step_wf|now apply step_idx|now apply (step_comp top)|exact H2|exact T2|exact U2].
Qed.

Lemma heap1_comp a b : Comp (heap1 a b).
Proof.
  intros n nm (R1 & _ & R3 & R4). exfalso. unfold pok in R4. cbn [heap1 nodes] in R4.
  destruct (Nat.eqb n 0); [discriminate|]. destruct (Nat.ltb n (S a)); discriminate.
Qed.
