(* XmlRoundTrip.v — the printer emits no literal CR (so end-of-line normalisation
   is the identity on its output), and the assembled round-trip theorem. *)
From Coq Require Import Lia.
From Odf Require Import model.Base model.Chars model.XmlPrint model.XmlLex model.XmlTree
  proofs.XmlPrintProofs proofs.XmlLexProofs proofs.XmlTokProofs proofs.XmlBuildProofs proofs.XmlResolveProofs.

Definition nocr (s : str) : Prop := mem_cp cCR s = false.

Lemma nocr_app a b : nocr (a ++ b) <-> nocr a /\ nocr b.
Proof. unfold nocr. rewrite mem_cp_app_gen. apply orb_false_iff. Qed.

Lemma nocr_cons c s : nocr (c :: s) <-> (c =? cCR) = false /\ nocr s.
Proof. unfold nocr. cbn [mem_cp]. apply orb_false_iff. Qed.

Lemma nocr_flat_map {A} (f : A -> str) l : (forall x, In x l -> nocr (f x)) -> nocr (flat_map f l).
Proof.
  induction l as [|x l IH]; intros H; [reflexivity|]. cbn [flat_map]. apply nocr_app. split.
  - apply H. now left.
  - apply IH. intros y Hy. apply H. now right.
Qed.

Lemma nocr_replace_self r s : nocr r -> nocr (replace1 cCR r s).
Proof.
  intros Hr. unfold replace1. apply nocr_flat_map. intros x _.
  destruct (x =? cCR) eqn:E; [exact Hr|]. unfold nocr. cbn. now rewrite E.
Qed.

Lemma nocr_replace_other c r s : nocr r -> nocr s -> nocr (replace1 c r s).
Proof.
  intros Hr Hs. unfold replace1. induction s as [|x s IH]; [reflexivity|].
  apply nocr_cons in Hs as [Hx Hs]. cbn [flat_map]. apply nocr_app. split; [|now apply IH].
  destruct (x =? c); [exact Hr|]. unfold nocr. cbn. now rewrite Hx.
Qed.

Lemma eol_norm_id s : nocr s -> eol_norm s = s.
Proof.
  induction s as [|c s IH]; intros H; [reflexivity|].
  apply nocr_cons in H as [H1 H2]. cbn [eol_norm]. rewrite H1. now rewrite IH.
Qed.

Lemma strip_decl_not_decl c rest : (c =? 63) = false -> strip_decl (cLT :: c :: rest) = Some (cLT :: c :: rest).
Proof.
  intros H. unfold strip_decl, sXMLDECL. change (s2l "<?xml") with [60; 63; 120; 109; 108].
  cbn [strip_prefix]. change (60 =? cLT) with true. cbn iota. rewrite N.eqb_sym, H. reflexivity.
Qed.

Section RT.
Variable filtered : list (N * N).
Hypothesis Hcov : filter_covers filtered.
Hypothesis Hnames : forall c, name_char c = true -> in_ranges filtered c = false.
Variable env : nsenv.

Lemma nocr_text s : nocr (text_toXml filtered s).
Proof. unfold text_toXml, sanitize, escape, text_ents. cbn [fold_left fst snd]. now apply nocr_replace_self. Qed.

Lemma nocr_sanitize_attr s : nocr (sanitize filtered attr_ents s).
Proof.
  unfold sanitize, escape, attr_ents. cbn [fold_left fst snd].
  apply nocr_replace_other; [reflexivity|]. now apply nocr_replace_self.
Qed.

Lemma nocr_quoteattr s : nocr (quoteattr filtered s).
Proof.
  unfold quoteattr. pose proof (nocr_sanitize_attr s) as H.
  destruct (mem_cp cQUOT _); [destruct (mem_cp cAPOS _)|];
    repeat (apply nocr_app; split); try reflexivity; try exact H.
  now apply nocr_replace_other.
Qed.

Lemma nocr_cdata s : nocr (cdata_toXml filtered s).
Proof.
  unfold cdata_toXml. destruct s; [reflexivity|].
  repeat (apply nocr_app; split); try reflexivity. now apply nocr_replace_self.
Qed.

Lemma nocr_name s : all_name s = true -> nocr s.
Proof.
  induction s as [|c s IH]; intros H; [reflexivity|].
  cbn [all_name forallb] in H. apply andb_true_iff in H as [H1 H2]. apply nocr_cons. split; [|now apply IH].
  apply N.eqb_neq. intros ->. vm_compute in H1. discriminate.
Qed.

Lemma nocr_tag q : qname_ok env q = true -> nocr (tag_of env q).
Proof. intros H. apply nocr_name. destruct (tag_shape env q H) as [Hall _]. exact Hall. Qed.

Lemma nocr_att a : att_ok env a = true -> nocr (att_toXml filtered env a).
Proof.
  intros H. unfold att_ok in H. apply andb_true_iff in H as [Hq _].
  unfold att_toXml. destruct (tag_shape env _ Hq) as [Hall _].
  rewrite (sanitize_name filtered Hnames _ Hall).
  apply nocr_app; split; [reflexivity|]. apply nocr_app; split; [now apply nocr_name|].
  apply nocr_app; split; [reflexivity|apply nocr_quoteattr].
Qed.

Lemma nocr_ns_dump : env_ok filtered env = true -> nocr (ns_dump filtered env).
Proof.
  unfold env_ok, ns_dump. intros H. apply nocr_flat_map. intros e He.
  rewrite forallb_forall in H. specialize (H e He). unfold ns_entry_ok in H. apply andb_true_iff in H as [H1 H2].
  apply nocr_app; split; [reflexivity|]. apply nocr_app; split; [apply nocr_name; now apply ncname_all_name|].
  apply nocr_app; split; [reflexivity|apply nocr_quoteattr].
Qed.

Lemma nocr_open_tag l0 q atts : env_ok filtered env = true -> qname_ok env q = true ->
  forallb (att_ok env) atts = true -> nocr (open_tag filtered env l0 q atts).
Proof.
  intros He Hq Ha. unfold open_tag.
  apply nocr_app; split; [reflexivity|]. apply nocr_app; split; [now apply nocr_tag|].
  apply nocr_app; split; [destruct l0; [now apply nocr_ns_dump|reflexivity]|].
  apply nocr_flat_map. intros a Hin. apply nocr_att. rewrite forallb_forall in Ha. now apply Ha.
Qed.

Lemma nocr_node t : env_ok filtered env = true -> tree_ok env t = true -> forall l0,
  nocr (node_toXml filtered env l0 t).
Proof.
  intros He. induction t as [s|s|q atts kids IH] using node_ind2; intros Hok l0.
  - cbn [node_toXml]. unfold textnode_toXml. destruct s; [reflexivity|apply nocr_text].
  - apply nocr_cdata.
  - cbn [tree_ok] in Hok. apply andb_true_iff in Hok as [Hok Hkids]. apply andb_true_iff in Hok as [Hq Ha].
    cbn [node_toXml]. apply nocr_app. split; [now apply nocr_open_tag|].
    destruct kids as [|k0 kids]; [reflexivity|].
    apply nocr_app; split; [reflexivity|]. apply nocr_app; split;
      [|apply nocr_app; split; [reflexivity|apply nocr_app; split; [now apply nocr_tag|reflexivity]]].
    apply nocr_flat_map. intros k Hk. rewrite Forall_forall in IH. rewrite forallb_forall in Hkids.
    apply IH; [exact Hk|now apply Hkids].
Qed.

(* ---------------- the assembled theorem ---------------- *)
Definition doc_ok (t : node) : bool :=
  env_ok filtered env && env_ok2 env && tree_ok env t && atts_distinct t.

Lemma lex_body_root q atts kids ws : forallb is_ws ws = true ->
  env_ok filtered env = true -> tree_ok env (Elem q atts kids) = true ->
  lfinish (run (ws ++ node_toXml filtered env true (Elem q atts kids)) linit)
  = Some (flushT ws ++ emit_root filtered env q atts kids).
Proof.
  intros Hws He Hok. rewrite run_app.
  assert (Hrun : exists k, run ws linit = mkL [] (MText ws k)).
  { assert (G : forall w, forallb is_ws w = true -> forall k acc,
               exists k', run w (mkL [] (MText acc k)) = mkL [] (MText (acc ++ w) k')).
    { induction w as [|c w IH]; intros Hw k acc; [exists k; now rewrite app_nil_r|].
      cbn [forallb] in Hw. apply andb_true_iff in Hw as [H1 H2].
      rewrite run_cons.
      assert (Hstep : lstep (mkL [] (MText acc k)) c = mkL [] (MText (acc ++ [c]) 0)).
      { unfold is_ws in H1. repeat (apply orb_true_iff in H1 as [H1|H1]); apply N.eqb_eq in H1; subst; reflexivity. }
      rewrite Hstep. destruct (IH H2 0%nat (acc ++ [c])) as [k' ->]. exists k'. now rewrite <- app_assoc. }
    destruct (G ws Hws 0%nat []) as [k' Hk]. exists k'. exact Hk. }
  destruct Hrun as [k ->].
  rewrite (lex_root filtered Hcov Hnames env q atts kids [] ws k He Hok).
  unfold lfinish. cbn [md toks]. unfold flush_text. cbn [app]. reflexivity.
Qed.

Theorem xml_roundtrip_elem q atts kids :
  doc_ok (Elem q atts kids) = true ->
  xml_parse (node_toXml filtered env true (Elem q atts kids)) = Some (canon filtered (Elem q atts kids)).
Proof.
  unfold doc_ok. intros H. repeat (apply andb_true_iff in H as [H ?]).
  unfold xml_parse, lex. rewrite eol_norm_id by now apply nocr_node.
  assert (Hsd : strip_decl (node_toXml filtered env true (Elem q atts kids))
                = Some (node_toXml filtered env true (Elem q atts kids))).
  { assert (Hq : qname_ok env q = true).
    { match goal with H : tree_ok env _ = true |- _ => cbn [tree_ok] in H; apply andb_true_iff in H as [H _]; apply andb_true_iff in H as [H _]; exact H end. }
    destruct (tag_shape env q Hq) as [_ (c & r & Etag & Hc)].
    assert (Hshape : exists rest, node_toXml filtered env true (Elem q atts kids) = cLT :: c :: rest).
    { cbn [node_toXml]. unfold open_tag. rewrite Etag. cbn [app]. eexists. reflexivity. }
    destruct Hshape as [rest ->]. apply strip_decl_not_decl.
    apply N.eqb_neq. intros ->. vm_compute in Hc. discriminate. }
  rewrite Hsd.
  change (node_toXml filtered env true (Elem q atts kids)) with ([] ++ node_toXml filtered env true (Elem q atts kids)).
  rewrite (lex_body_root q atts kids []) by (first [reflexivity | assumption]).
  cbn [flushT app].
  change (emit_root filtered env q atts kids) with (flushT [] ++ emit_root filtered env q atts kids).
  rewrite (build_root filtered env q atts kids []) by reflexivity.
  now apply resolve_root.
Qed.

Theorem xml_roundtrip_doc q atts kids :
  doc_ok (Elem q atts kids) = true ->
  xml_parse (sPROLOGUE ++ node_toXml filtered env true (Elem q atts kids))
  = Some (canon filtered (Elem q atts kids)).
Proof.
  unfold doc_ok. intros H. repeat (apply andb_true_iff in H as [H ?]).
  unfold xml_parse, lex.
  rewrite eol_norm_id by (apply nocr_app; split; [reflexivity|now apply nocr_node]).
  assert (Hsd : forall body, strip_decl (sPROLOGUE ++ body) = Some (cLF :: body)) by reflexivity.
  rewrite Hsd.
  change (cLF :: node_toXml filtered env true (Elem q atts kids))
    with ([cLF] ++ node_toXml filtered env true (Elem q atts kids)).
  rewrite (lex_body_root q atts kids [cLF]) by (first [reflexivity | assumption]).
  rewrite (build_root filtered env q atts kids [cLF]) by reflexivity.
  now apply resolve_root.
Qed.
End RT.
