(* LoadStylesProofs.v — C11: after loading, every style reference finds the definition it found in the package,
   whatever names content.xml and styles.xml share.  The theorems are about any sequence of elements; the two-part
   statements are corollaries. *)
From Coq Require Import Lia Arith PeanoNat.
From Odf Require Import model.Base model.XmlTree model.Doc model.LoadStyles proofs.XmlBuildProofs proofs.XmlResolveProofs.

Definition own (e : lelem) : list str := match le_def e with Some n => [n] | None => [] end.
Definition defs_of (es : list lelem) : list str := flat_map own es.
Lemma defs_of_cons e r : defs_of (e :: r) = own e ++ defs_of r.
Proof. reflexivity. Qed.
Lemma defs_of_app a b : defs_of (a ++ b) = defs_of a ++ defs_of b.
Proof. unfold defs_of. apply flat_map_app. Qed.
Lemma defs_of_one e : defs_of [e] = own e.
Proof. unfold defs_of. cbn. apply app_nil_r. Qed.

(* ---------------- small facts ---------------- *)
Lemma mem_str_In x l : mem_str x l = true <-> In x l.
Proof.
  unfold mem_str. rewrite existsb_exists. split.
  - intros [y [Hy E]]. apply str_eqb_eq in E. now subst.
  - intros H. exists x. split; [exact H|apply str_eqb_refl].
Qed.
Lemma mem_str_false x l : mem_str x l = false <-> ~ In x l.
Proof. split; intros H; [intros Hin; apply mem_str_In in Hin; congruence|destruct (mem_str x l) eqn:E; [apply mem_str_In in E; contradiction|reflexivity]]. Qed.
Lemma str_eqb_false a b : a <> b -> str_eqb a b = false.
Proof. intros H. destruct (str_eqb a b) eqn:E; [apply str_eqb_eq in E; contradiction|reflexivity]. Qed.

Lemma fix_get_set k n v m : fix_get k (fix_set n v m) = if str_eqb n k then Some v else fix_get k m.
Proof.
  induction m as [|[a b] m IH]; cbn [fix_set fix_get]; [reflexivity|].
  destruct (str_eqb a n) eqn:E1.
  - apply str_eqb_eq in E1. subst a. cbn [fix_get]. destruct (str_eqb n k); reflexivity.
  - cbn [fix_get]. destruct (str_eqb a k) eqn:E2.
    + destruct (str_eqb n k) eqn:E3; [|reflexivity]. apply str_eqb_eq in E2, E3. subst. now rewrite str_eqb_refl in E1.
    + exact IH.
Qed.

Lemma NoDup_app_l {A} (a b : list A) : NoDup (a ++ b) -> NoDup a.
Proof. induction a as [|x a IH]; intros H; [constructor|]. cbn in H. apply NoDup_cons_iff in H as [Hn H]. constructor; [intros Hx; apply Hn; apply in_or_app; now left|now apply IH]. Qed.
Lemma NoDup_app_r {A} (a b : list A) : NoDup (a ++ b) -> NoDup b.
Proof. induction a as [|x a IH]; intros H; [exact H|]. cbn in H. apply NoDup_cons_iff in H as [_ H]. now apply IH. Qed.
Lemma NoDup_app_disj {A} (a b : list A) x : NoDup (a ++ b) -> In x a -> In x b -> False.
Proof.
  induction a as [|y a IH]; intros H Ha Hb; [destruct Ha|]. cbn in H. apply NoDup_cons_iff in H as [Hn H]. destruct Ha as [Ha|Ha].
  - subst. apply Hn. apply in_or_app. now right.
  - now apply IH.
Qed.
Lemma NoDup_snoc {A} (a : list A) x : NoDup a -> ~ In x a -> NoDup (a ++ [x]).
Proof.
  intros Ha Hx. apply NoDup_app_intro; [exact Ha|constructor; [intros []|constructor]|].
  intros y H1 [H2|[]]. subst. contradiction.
Qed.
Lemma NoDup_map_inj_on {A B} (f : A -> B) (l : list A) :
  (forall x y, In x l -> In y l -> f x = f y -> x = y) -> NoDup l -> NoDup (map f l).
Proof.
  induction l as [|a l IH]; intros Hi Hn; [constructor|]. apply NoDup_cons_iff in Hn as [Ha Hn]. cbn [map]. constructor.
  - intros Hin. apply in_map_iff in Hin as [y [E Hy]]. apply Hi in E; [subst; contradiction|now right|now left].
  - apply IH; [|exact Hn]. intros x y Hx Hy. apply Hi; now right.
Qed.
Lemma forallb_false_ex {A} (f : A -> bool) l : forallb f l = false -> exists x, In x l /\ f x = false.
Proof.
  induction l as [|a l IH]; cbn [forallb]; intros H; [discriminate|]. destruct (f a) eqn:E.
  - destruct (IH H) as [x [Hx Fx]]. exists x. split; [now right|exact Fx].
  - exists a. split; [now left|exact E].
Qed.

(* ---------------- the renaming loop always ends on a free name ---------------- *)
Definition iterM (k : nat) (c : str) : str := repeat cM k ++ c.
Lemma iterM_S k c : iterM k (cM :: c) = iterM (S k) c.
Proof. unfold iterM. cbn [repeat]. rewrite repeat_cons, <- app_assoc. reflexivity. Qed.
Lemma iterM_length k c : List.length (iterM k c) = (k + List.length c)%nat.
Proof. unfold iterM. now rewrite app_length, repeat_length. Qed.

Lemma fresh_name_spec fuel : forall names c, (exists j, (j < fuel)%nat /\ ~ In (iterM j c) names) ->
  ~ In (fresh_name fuel names c) names /\ exists k, fresh_name fuel names c = iterM k c.
Proof.
  induction fuel as [|f IH]; intros names c [j [Hj Hn]]; [lia|]. cbn [fresh_name].
  destruct (mem_str c names) eqn:E.
  - destruct j as [|j']; [exfalso; apply Hn; apply mem_str_In in E; exact E|].
    rewrite <- iterM_S in Hn. destruct (IH names (cM :: c)) as [H1 [k H2]]; [exists j'; split; [lia|exact Hn]|].
    split; [exact H1|]. exists (S k). now rewrite H2, iterM_S.
  - split; [now apply mem_str_false|]. now exists 0%nat.
Qed.

(* pigeonhole: among length names + 1 candidates of different lengths one is not a name *)
Lemma some_free names c : exists j, (j <= List.length names)%nat /\ ~ In (iterM j c) names.
Proof.
  set (n := List.length names). set (L := map (fun j => iterM j c) (seq 0 (S n))).
  assert (HL : NoDup L).
  { apply NoDup_map_inj_on; [|apply seq_NoDup]. intros x y _ _ E. apply (f_equal (@List.length cp)) in E. rewrite !iterM_length in E. lia. }
  destruct (forallb (fun y => mem_str y names) L) eqn:F.
  - exfalso. assert (I : incl L names) by (intros y Hy; apply mem_str_In; revert y Hy; apply forallb_forall; exact F).
    apply (NoDup_incl_length HL) in I. unfold L in I. rewrite map_length, seq_length in I. fold n in I. lia.
  - apply forallb_false_ex in F as [y [Hy Fy]]. unfold L in Hy. apply in_map_iff in Hy as [j [E Hj]]. apply in_seq in Hj.
    exists j. split; [lia|]. subst y. now apply mem_str_false.
Qed.

Lemma new_name_free names n : ~ In (new_name names n) names.
Proof.
  unfold new_name. apply fresh_name_spec. destruct (some_free names (cM :: n)) as [j [Hj Hn]]. exists j. split; [lia|exact Hn].
Qed.
Lemma new_name_shape names n : exists k, new_name names n = iterM (S k) n.
Proof.
  unfold new_name. destruct (some_free names (cM :: n)) as [j [Hj Hn]].
  destruct (fresh_name_spec (S (List.length names)) names (cM :: n)) as [_ [k E]]; [exists j; split; [lia|exact Hn]|].
  exists k. now rewrite E, iterM_S.
Qed.

(* ---------------- lookups ---------------- *)
Lemma find_def_app n a b i :
  find_def n (a ++ b) i = match find_def n a i with Some k => Some k | None => find_def n b (i + List.length a)%nat end.
Proof.
  revert i. induction a as [|e r IH]; intros i; cbn [app find_def List.length]; [now rewrite Nat.add_0_r|].
  destruct (le_def e) as [m|]; [destruct (str_eqb m n); [reflexivity|]|]; rewrite IH; replace (S i + List.length r)%nat with (i + S (List.length r))%nat by lia; reflexivity.
Qed.
Lemma find_def_none n a i : ~ In n (defs_of a) -> find_def n a i = None.
Proof.
  revert i. induction a as [|e r IH]; intros i H; [reflexivity|]. rewrite defs_of_cons in H. cbn [find_def]. unfold own in H.
  destruct (le_def e) as [m|].
  - destruct (str_eqb m n) eqn:E; [apply str_eqb_eq in E; subst; exfalso; apply H; now left|]. apply IH. intros Hin. apply H. now right.
  - apply IH. exact H.
Qed.
Lemma find_def_some n a i : In n (defs_of a) -> exists k, find_def n a i = Some k.
Proof.
  revert i. induction a as [|e r IH]; intros i H; [destruct H|]. rewrite defs_of_cons in H. cbn [find_def]. unfold own in H.
  destruct (le_def e) as [m|].
  - destruct (str_eqb m n) eqn:E; [eauto|]. apply IH. destruct H as [H|H]; [subst; now rewrite str_eqb_refl in E|exact H].
  - apply IH. exact H.
Qed.
Lemma find_def_one n e i : find_def n [e] i = match le_def e with Some m => if str_eqb m n then Some i else None | None => None end.
Proof. cbn [find_def]. destruct (le_def e) as [m|]; [destruct (str_eqb m n)|]; reflexivity. Qed.

Lemma last_def_app n a b i :
  last_def n (a ++ b) i = match last_def n b (i + List.length a)%nat with Some k => Some k | None => last_def n a i end.
Proof.
  revert i. induction a as [|e r IH]; intros i; cbn [app last_def List.length].
  - rewrite Nat.add_0_r. destruct (last_def n b i); reflexivity.
  - rewrite IH. replace (S i + List.length r)%nat with (i + S (List.length r))%nat by lia.
    destruct (last_def n b (i + S (List.length r))); reflexivity.
Qed.
Lemma last_def_some n a i : In n (defs_of a) -> exists k, last_def n a i = Some k.
Proof.
  revert i. induction a as [|e r IH]; intros i H; [destruct H|]. rewrite defs_of_cons in H. cbn [last_def].
  apply in_app_or in H as [H|H].
  - destruct (last_def n r (S i)); [eauto|]. unfold own in H. destruct (le_def e) as [m|]; [|destruct H].
    destruct H as [H|[]]. subst. rewrite str_eqb_refl. eauto.
  - destruct (IH (S i) H) as [k E]. rewrite E. eauto.
Qed.
Lemma last_def_one n e i : last_def n [e] i = match le_def e with Some m => if str_eqb m n then Some i else None | None => None end.
Proof. reflexivity. Qed.
(* where names are distinct, the last definition is the only one *)
Lemma last_def_unique n a : NoDup (defs_of a) -> forall i, last_def n a i = find_def n a i.
Proof.
  induction a as [|e r IH]; intros Hd i; [reflexivity|]. rewrite defs_of_cons in Hd. cbn [last_def find_def].
  rewrite (IH (NoDup_app_r _ _ Hd)). unfold own in Hd. destruct (le_def e) as [m|]; [|destruct (find_def n r (S i)); reflexivity].
  destruct (str_eqb m n) eqn:E.
  - apply str_eqb_eq in E. subst m. rewrite find_def_none; [reflexivity|]. intros Hin. apply (NoDup_app_disj _ _ n Hd); [now left|exact Hin].
  - destruct (find_def n r (S i)); reflexivity.
Qed.

(* ---------------- one element ---------------- *)
Lemma load_elems_app s a b :
  load_elems s (a ++ b) = let '(s1, a') := load_elems s a in let '(s2, b') := load_elems s1 b in (s2, a' ++ b').
Proof.
  revert s. induction a as [|e r IH]; intros s.
  - cbn. destruct (load_elems s b); reflexivity.
  - cbn [app load_elems]. destruct (load_elem s e) as [s1 e']. rewrite IH.
    destruct (load_elems s1 r) as [s2 r']. destruct (load_elems s2 b) as [s3 b']. reflexivity.
Qed.
Lemma load_elems_one s e : load_elems s [e] = let '(s1, e') := load_elem s e in (s1, [e']).
Proof. cbn [load_elems]. destruct (load_elem s e); reflexivity. Qed.

Definition redirected (fx : list (str * str)) (e : lelem) : list (nat * list str) :=
  map (fun r => (fst r, map (redirect fx) (snd r))) (le_refs e).

Lemma load_elem_refs s e : le_refs (snd (load_elem s e)) = redirected (ls_fix (fst (load_elem s e))) e.
Proof.
  unfold load_elem. destruct (le_def e) as [n|]; [destruct (mem_str n (ls_names s))|]; reflexivity.
Qed.

(* the state after the elements [pre] have been loaded as [pre'] *)
Record inv (pre pre' : list lelem) (s : lstate) : Prop := mkInv {
  i_names : ls_names s = defs_of pre';
  i_nodup : NoDup (ls_names s);
  i_len : List.length pre' = List.length pre;
  i_incl : forall x, In x (defs_of pre) -> In x (ls_names s);
  i_fix0 : forall x, ~ In x (defs_of pre) -> fix_get x (ls_fix s) = None;
  i_res : forall x, In x (defs_of pre) -> find_def (redirect (ls_fix s) x) pre' 0 = last_def x pre 0
}.

Lemma inv_init : inv [] [] s0.
Proof. constructor; try reflexivity; try apply NoDup_nil; intros x []. Qed.

(* a name defined earlier keeps resolving to the same element when an element defining another name is added *)
Lemma res_old pre pre' e e' fx fx' x :
  In x (defs_of pre) -> find_def (redirect fx x) pre' 0 = last_def x pre 0 ->
  redirect fx' x = redirect fx x -> (forall m, le_def e = Some m -> m <> x) ->
  find_def (redirect fx' x) (pre' ++ [e']) 0 = last_def x (pre ++ [e]) 0.
Proof.
  intros Hx Hres Hfx Hne. destruct (last_def_some x pre 0 Hx) as [k Hk].
  rewrite Hfx, find_def_app, Hres, Hk, last_def_app, last_def_one.
  destruct (le_def e) as [m|]; [|now rewrite Hk]. rewrite (str_eqb_false m x (Hne m eq_refl)). now rewrite Hk.
Qed.
(* the element just added answers for its own name *)
Lemma res_new pre pre' e e' fx' x y :
  List.length pre' = List.length pre -> le_def e = Some x -> le_def e' = Some y -> ~ In y (defs_of pre') ->
  redirect fx' x = y -> find_def (redirect fx' x) (pre' ++ [e']) 0 = last_def x (pre ++ [e]) 0.
Proof.
  intros Hlen He He' Hy Hfx. rewrite Hfx, find_def_app, (find_def_none y pre' 0 Hy), find_def_one, He', str_eqb_refl.
  rewrite last_def_app, last_def_one, He, str_eqb_refl. cbn [Nat.add]. now rewrite Hlen.
Qed.

Lemma load_elem_inv pre pre' s e : inv pre pre' s ->
  inv (pre ++ [e]) (pre' ++ [snd (load_elem s e)]) (fst (load_elem s e)).
Proof.
  intros [Hnames Hnd Hlen Hincl Hfix0 Hres]. unfold load_elem. destruct (le_def e) as [n|] eqn:Hn.
  - assert (Hdefs : defs_of (pre ++ [e]) = defs_of pre ++ [n]) by (rewrite defs_of_app, defs_of_one; unfold own; now rewrite Hn).
    destruct (mem_str n (ls_names s)) eqn:Hmem; cbn [fst snd].
    + (* clash: renamed *)
      set (n' := new_name (ls_names s) n). pose proof (new_name_free (ls_names s) n) as Hfree. fold n' in Hfree.
      set (e' := mkLE (Some n') _).
      assert (Hd' : defs_of (pre' ++ [e']) = defs_of pre' ++ [n']) by (rewrite defs_of_app, defs_of_one; reflexivity).
      constructor; cbn [ls_names ls_fix].
      * now rewrite Hd', Hnames.
      * now apply NoDup_snoc.
      * rewrite !app_length. cbn. lia.
      * intros x Hx. rewrite Hdefs in Hx. apply in_or_app. left. apply in_app_or in Hx as [Hx|[Hx|[]]]; [now apply Hincl|subst; now apply mem_str_In].
      * intros x Hx. rewrite Hdefs in Hx. rewrite fix_get_set.
        rewrite str_eqb_false by (intros E; subst; apply Hx; apply in_or_app; right; now left).
        apply Hfix0. intros Hin. apply Hx. apply in_or_app. now left.
      * intros x Hx. destruct (str_eqb n x) eqn:E.
        -- apply str_eqb_eq in E. subst x. apply (res_new pre pre' e e' _ n n' Hlen Hn eq_refl).
           ++ now rewrite <- Hnames.
           ++ unfold redirect. now rewrite fix_get_set, str_eqb_refl.
        -- assert (Hne : n <> x) by (intros E2; subst; now rewrite str_eqb_refl in E).
           rewrite Hdefs in Hx. apply in_app_or in Hx as [Hx|[Hx|[]]]; [|contradiction].
           apply (res_old pre pre' e e' (ls_fix s)); [exact Hx|now apply Hres| |intros m Hm; congruence].
           unfold redirect. now rewrite fix_get_set, E.
    + (* the name is free: kept *)
      apply mem_str_false in Hmem. set (e' := mkLE (Some n) _).
      assert (Hd' : defs_of (pre' ++ [e']) = defs_of pre' ++ [n]) by (rewrite defs_of_app, defs_of_one; reflexivity).
      assert (Hnew : ~ In n (defs_of pre)) by (intros Hin; apply Hmem; now apply Hincl).
      constructor; cbn [ls_names ls_fix].
      * now rewrite Hd', Hnames.
      * now apply NoDup_snoc.
      * rewrite !app_length. cbn. lia.
      * intros x Hx. rewrite Hdefs in Hx. apply in_or_app. apply in_app_or in Hx as [Hx|Hx]; [left; now apply Hincl|now right].
      * intros x Hx. rewrite Hdefs in Hx. apply Hfix0. intros Hin. apply Hx. apply in_or_app. now left.
      * intros x Hx. destruct (str_eqb n x) eqn:E.
        -- apply str_eqb_eq in E. subst x. apply (res_new pre pre' e e' _ n n Hlen Hn eq_refl).
           ++ now rewrite <- Hnames.
           ++ unfold redirect. now rewrite (Hfix0 n Hnew).
        -- assert (Hne : n <> x) by (intros E2; subst; now rewrite str_eqb_refl in E).
           rewrite Hdefs in Hx. apply in_app_or in Hx as [Hx|[Hx|[]]]; [|contradiction].
           apply (res_old pre pre' e e' (ls_fix s)); [exact Hx|now apply Hres|reflexivity|intros m Hm; congruence].
  - cbn [fst snd]. set (e' := mkLE None _).
    assert (Hdefs : defs_of (pre ++ [e]) = defs_of pre) by (rewrite defs_of_app, defs_of_one; unfold own; rewrite Hn; apply app_nil_r).
    assert (Hd' : defs_of (pre' ++ [e']) = defs_of pre') by (rewrite defs_of_app, defs_of_one; apply app_nil_r).
    constructor.
    + now rewrite Hd'.
    + exact Hnd.
    + rewrite !app_length. cbn. lia.
    + intros x Hx. rewrite Hdefs in Hx. now apply Hincl.
    + intros x Hx. rewrite Hdefs in Hx. now apply Hfix0.
    + intros x Hx. rewrite Hdefs in Hx. apply (res_old pre pre' e e' (ls_fix s)); [exact Hx|now apply Hres|reflexivity|intros m Hm; congruence].
Qed.

Lemma load_elems_inv es : forall pre pre' s, inv pre pre' s ->
  inv (pre ++ es) (pre' ++ snd (load_elems s es)) (fst (load_elems s es)).
Proof.
  induction es as [|e r IH]; intros pre pre' s Hinv; [cbn; now rewrite !app_nil_r|].
  cbn [load_elems]. pose proof (load_elem_inv pre pre' s e Hinv) as H1.
  destruct (load_elem s e) as [s1 e']. cbn [fst snd] in H1. specialize (IH _ _ _ H1).
  destruct (load_elems s1 r) as [s2 r']. cbn [fst snd] in *. now rewrite <- !app_assoc in IH.
Qed.

(* ---------------- the whole load ---------------- *)
Theorem loaded_inv es : inv es (load_all es) (fst (load_elems s0 es)).
Proof. exact (load_elems_inv es [] [] s0 inv_init). Qed.

(* no two definitions of a loaded document share a name (so a save cannot conflate them), whatever the package *)
Theorem loaded_names_distinct es : NoDup (defs_of (load_all es)).
Proof. destruct (loaded_inv es) as [Hn Hd _ _ _ _]. now rewrite <- Hn. Qed.

Theorem loaded_length es : List.length (load_all es) = List.length es.
Proof. now destruct (loaded_inv es). Qed.

(* the element at position |pre|: its references are redirected with the map as it stands after that element, and
   for every name defined up to there, the redirected name, looked up in the whole loaded document, finds the
   last definition of that name up to there *)
Theorem ref_resolves pre e post x : In x (defs_of (pre ++ [e])) ->
  let fx := ls_fix (fst (load_elems s0 (pre ++ [e]))) in
  let L := load_all (pre ++ e :: post) in
  (exists e', nth_error L (List.length pre) = Some e' /\ le_refs e' = redirected fx e) /\
  find_def (redirect fx x) L 0 = last_def x (pre ++ [e]) 0.
Proof.
  intros Hx fx L. pose proof (loaded_inv (pre ++ [e])) as Hinv. fold fx in Hinv.
  assert (EL : L = load_all (pre ++ [e]) ++ snd (load_elems (fst (load_elems s0 (pre ++ [e]))) post)).
  { unfold L, load_all. replace (pre ++ e :: post) with ((pre ++ [e]) ++ post) by (now rewrite <- app_assoc).
    rewrite load_elems_app. destruct (load_elems s0 (pre ++ [e])) as [s2 l2]. cbn [fst snd]. destruct (load_elems s2 post). reflexivity. }
  assert (E1 : load_all (pre ++ [e]) = load_all pre ++ [snd (load_elem (fst (load_elems s0 pre)) e)] /\
               fx = ls_fix (fst (load_elem (fst (load_elems s0 pre)) e))).
  { unfold fx, load_all. rewrite load_elems_app. destruct (load_elems s0 pre) as [s1 l1]. rewrite load_elems_one. cbn [fst snd].
    destruct (load_elem s1 e). split; reflexivity. }
  destruct E1 as [E1 E2]. split.
  - exists (snd (load_elem (fst (load_elems s0 pre)) e)). split.
    + rewrite EL, E1, <- app_assoc, nth_error_app2 by (rewrite loaded_length; lia).
      rewrite loaded_length, Nat.sub_diag. reflexivity.
    + rewrite load_elem_refs, <- E2. reflexivity.
  - unfold fx. rewrite EL, find_def_app, (i_res _ _ _ Hinv x Hx). destruct (last_def_some x (pre ++ [e]) 0 Hx) as [k Hk]. now rewrite Hk.
Qed.

(* a name not defined up to the referring element is left as it is *)
Theorem ref_untouched pre e x : ~ In x (defs_of (pre ++ [e])) ->
  redirect (ls_fix (fst (load_elems s0 (pre ++ [e])))) x = x.
Proof. intros Hx. unfold redirect. now rewrite (i_fix0 _ _ _ (loaded_inv (pre ++ [e])) x Hx). Qed.

(* where no name is used twice, loading changes nothing (content.xml, and the common styles of styles.xml) *)
Lemma load_noclash es : forall s, ls_fix s = [] -> NoDup (ls_names s ++ defs_of es) ->
  load_elems s es = (mkLS (ls_names s ++ defs_of es) [], es).
Proof.
  induction es as [|e r IH]; intros s Hf Hd.
  - cbn. rewrite app_nil_r. destruct s. cbn in *. now subst.
  - rewrite defs_of_cons in Hd. cbn [load_elems].
    assert (Hid : forall fs : list (nat * list str), map (fun r0 => (fst r0, map (redirect []) (snd r0))) fs = fs).
    { intros fs. rewrite <- (map_id fs) at 2. apply map_ext. intros [i ns]. cbn [fst snd]. f_equal.
      rewrite <- (map_id ns) at 2. apply map_ext. reflexivity. }
    assert (E : load_elem s e = (mkLS (ls_names s ++ own e) [], e)).
    { unfold load_elem, own in *. destruct e as [d rf]. cbn [le_def le_refs] in *. destruct d as [n|].
      - assert (Hm : mem_str n (ls_names s) = false).
        { apply mem_str_false. intros Hin. apply (NoDup_app_disj _ _ n Hd); [exact Hin|apply in_or_app; left; now left]. }
        rewrite Hm. cbn [ls_fix]. rewrite Hf, Hid. reflexivity.
      - rewrite app_nil_r, Hf, Hid. destruct s. cbn in *. now subst. }
    rewrite E, IH; cbn [ls_names ls_fix]; [|reflexivity|now rewrite <- app_assoc].
    now rewrite defs_of_cons, app_assoc.
Qed.

Theorem load_prefix_unchanged a b : NoDup (defs_of a) -> exists b', load_all (a ++ b) = a ++ b' /\ List.length b' = List.length b.
Proof.
  intros Hd. unfold load_all. rewrite load_elems_app, (load_noclash a s0 eq_refl Hd). change (ls_names s0 ++ defs_of a) with (defs_of a).
  destruct (load_elems (mkLS (defs_of a) []) b) as [s2 b'] eqn:E. exists b'. split; [reflexivity|].
  pose proof (loaded_length (a ++ b)) as HL. unfold load_all in HL. rewrite load_elems_app, (load_noclash a s0 eq_refl Hd) in HL.
  change (ls_names s0 ++ defs_of a) with (defs_of a) in HL. rewrite E in HL. cbn [snd] in HL. rewrite !app_length in HL. lia.
Qed.

(* ---------------- the two parts of a package ---------------- *)
(* content.xml = ce; styles.xml = se = spre ++ e :: spost.  A reference made by e (a master page element, or a style)
   to a name x that styles.xml defines at or before e finds, after loading, the element that defines x in styles.xml *)
Theorem styles_ref_resolves ce spre e spost x : NoDup (defs_of (spre ++ e :: spost)) -> In x (defs_of (spre ++ [e])) ->
  let fx := ls_fix (fst (load_elems s0 ((ce ++ spre) ++ [e]))) in
  find_def (redirect fx x) (load_all ((ce ++ spre) ++ e :: spost)) 0 = find_def x (spre ++ e :: spost) (List.length ce).
Proof.
  intros Hd Hx fx.
  assert (Hx2 : In x (defs_of ((ce ++ spre) ++ [e]))) by (rewrite <- app_assoc, defs_of_app; apply in_or_app; now right).
  destruct (ref_resolves (ce ++ spre) e spost x Hx2) as [_ R]. fold fx in R. rewrite R.
  rewrite <- app_assoc, last_def_app. cbn [Nat.add].
  destruct (last_def_some x (spre ++ [e]) (List.length ce) Hx) as [k Hk]. rewrite Hk.
  replace (spre ++ e :: spost) with ((spre ++ [e]) ++ spost) in * by (now rewrite <- app_assoc).
  rewrite defs_of_app in Hd. rewrite find_def_app, <- (last_def_unique x _ (NoDup_app_l _ _ Hd)), Hk. reflexivity.
Qed.

(* a reference made in content.xml (ce = cpre ++ e :: cpost) to one of its own styles defined at or before e *)
Theorem content_ref_resolves cpre e cpost se x : NoDup (defs_of (cpre ++ e :: cpost)) -> In x (defs_of (cpre ++ [e])) ->
  let fx := ls_fix (fst (load_elems s0 (cpre ++ [e]))) in
  find_def (redirect fx x) (load_all (cpre ++ e :: cpost ++ se)) 0 = find_def x (cpre ++ e :: cpost) 0.
Proof.
  intros Hd Hx fx. destruct (ref_resolves cpre e (cpost ++ se) x Hx) as [_ R]. fold fx in R. rewrite R.
  destruct (last_def_some x (cpre ++ [e]) 0 Hx) as [k Hk]. rewrite Hk.
  replace (cpre ++ e :: cpost) with ((cpre ++ [e]) ++ cpost) in * by (now rewrite <- app_assoc).
  rewrite defs_of_app in Hd. rewrite find_def_app, <- (last_def_unique x _ (NoDup_app_l _ _ Hd)), Hk. reflexivity.
Qed.

(* a reference made in content.xml to a common style (cm: the office:styles children of styles.xml, loaded right
   after content.xml): neither the reference nor the definition is touched *)
Theorem content_ref_common ce cm rest x : NoDup (defs_of ce ++ defs_of cm) -> In x (defs_of cm) ->
  exists rest', load_all (ce ++ cm ++ rest) = ce ++ cm ++ rest' /\
  find_def x (load_all (ce ++ cm ++ rest)) 0 = find_def x (ce ++ cm) 0.
Proof.
  intros Hd Hx. rewrite <- defs_of_app in Hd. rewrite app_assoc. destruct (load_prefix_unchanged (ce ++ cm) rest Hd) as [r' [E _]].
  exists r'. split; [now rewrite E, <- app_assoc|]. rewrite E, find_def_app.
  destruct (find_def_some x (ce ++ cm) 0) as [k Hk]; [rewrite defs_of_app; apply in_or_app; now right|]. now rewrite Hk.
Qed.

(* non-vacuity: content.xml defines P1 and uses it; styles.xml defines MP1, P1 and T1 and a master page uses all three *)
Definition ex_ce := [mkLE (Some (s2l "P1")) []; mkLE None [(0%nat, [s2l "P1"])]].
Definition ex_se := [mkLE (Some (s2l "MP1")) []; mkLE (Some (s2l "P1")) []; mkLE (Some (s2l "T1")) [];
                     mkLE None [(0%nat, [s2l "P1"; s2l "T1"; s2l "MP1"])]].
Example ex_loaded : load_all (ex_ce ++ ex_se) =
  ex_ce ++ [mkLE (Some (s2l "MP1")) []; mkLE (Some (s2l "MMP1")) []; mkLE (Some (s2l "T1")) [];
            mkLE None [(0%nat, [s2l "MMP1"; s2l "T1"; s2l "MP1"])]].
Proof. vm_compute. reflexivity. Qed.
