(* Proofs about the whitespace helper (C17). *)
From Coq Require Import Lia.
From Odf Require Import model.Base model.Teletype.

Lemma extract_app a b : extract (a ++ b) = extract a ++ extract b.
Proof. unfold extract. apply flat_map_app. Qed.

Lemma extract_flush buf : extract (flush buf) = buf.
Proof. destruct buf; cbn; [reflexivity|]. now rewrite app_nil_r. Qed.

Definition pending (sc : option nat) : str :=
  match sc with Some k => repeat cSP k | None => [] end.

Lemma extract_close_run buf sc :
  extract (fst (close_run buf sc)) ++ snd (close_run buf sc) = buf ++ pending sc.
Proof.
  destruct sc as [[|k]|]; cbn [close_run fst snd pending repeat].
  - cbn. now rewrite app_nil_r.
  - rewrite extract_app, extract_flush. cbn. now rewrite !app_nil_r.
  - cbn. now rewrite app_nil_r.
Qed.

Lemma repeat_snoc {A} (x : A) k : repeat x k ++ [x] = x :: repeat x k.
Proof. induction k; cbn; [reflexivity|]. now rewrite IHk. Qed.

(* The encoder state generalised: buffer contents, then the pending blanks,
   then the rest of the input. *)
Lemma extract_enc s : forall buf sc,
  extract (enc s buf sc) = buf ++ pending sc ++ s.
Proof.
  induction s as [|c r IH]; intros buf sc.
  - cbn [enc]. pose proof (extract_close_run buf sc) as H.
    destruct (close_run buf sc) as [out buf'] eqn:E. cbn [fst snd] in H.
    rewrite extract_app, extract_flush, H. now rewrite app_nil_r.
  - cbn [enc].
    destruct sc as [k|]; destruct (c =? cSP) eqn:Esp.
    + (* inside a run, another blank *)
      apply N.eqb_eq in Esp. subst c. rewrite IH. cbn [pending].
      change (repeat cSP (S k)) with (cSP :: repeat cSP k).
      rewrite <- repeat_snoc. now rewrite <- !app_assoc.
    + pose proof (extract_close_run buf (Some k)) as H.
      destruct (close_run buf (Some k)) as [out buf'] eqn:E. cbn [fst snd] in H.
      destruct (c =? cTAB) eqn:Et; [|destruct (c =? cLF) eqn:El].
      * apply N.eqb_eq in Et. subst c.
        rewrite !extract_app, extract_flush. cbn [extract flat_map extract_node].
        change (flat_map extract_node (enc r [] None)) with (extract (enc r [] None)).
        rewrite IH. cbn [pending app]. rewrite app_assoc, H. now rewrite <- app_assoc.
      * apply N.eqb_eq in El. subst c.
        rewrite !extract_app, extract_flush. cbn [extract flat_map extract_node].
        change (flat_map extract_node (enc r [] None)) with (extract (enc r [] None)).
        rewrite IH. cbn [pending app]. rewrite app_assoc, H. now rewrite <- app_assoc.
      * rewrite extract_app, IH. cbn [pending app].
        rewrite app_assoc, app_assoc, H. now rewrite <- !app_assoc.
    + (* first blank of a run *)
      apply N.eqb_eq in Esp. subst c. cbn [close_run].
      change (cSP =? cTAB) with false. change (cSP =? cLF) with false.
      change (cSP =? cSP) with true. cbn [app].
      rewrite IH. cbn [pending repeat app]. now rewrite <- app_assoc.
    + cbn [close_run].
      destruct (c =? cTAB) eqn:Et; [|destruct (c =? cLF) eqn:El].
      * apply N.eqb_eq in Et. subst c. cbn [app].
        rewrite extract_app, extract_flush. cbn [extract flat_map extract_node].
        change (flat_map extract_node (enc r [] None)) with (extract (enc r [] None)).
        rewrite IH. reflexivity.
      * apply N.eqb_eq in El. subst c. cbn [app].
        rewrite extract_app, extract_flush. cbn [extract flat_map extract_node].
        change (flat_map extract_node (enc r [] None)) with (extract (enc r [] None)).
        rewrite IH. reflexivity.
      * cbn [app]. rewrite IH. cbn [pending app]. now rewrite <- app_assoc.
Qed.

Theorem teletype_roundtrip kids s :
  extract (add_text_to_element kids s) = extract kids ++ s.
Proof.
  unfold add_text_to_element, encode. rewrite extract_app, extract_enc. reflexivity.
Qed.

(* ---------------- no literal tab / newline / double blank ---------------- *)

(* Invariant of the buffer while scanning: it is clean, and it ends in a blank
   exactly when we are inside a run ([sc] is [Some _]). *)
Definition ends_sp (s : str) : bool :=
  match rev s with c :: _ => c =? cSP | [] => false end.

Definition buf_ok (buf : str) (sc : option nat) : Prop :=
  clean_text buf = true /\
  (match sc with Some _ => ends_sp buf = true | None => ends_sp buf = false end).

Lemma mem_cp_app c a b : mem_cp c (a ++ b) = mem_cp c a || mem_cp c b.
Proof. induction a as [|x a IH]; cbn; [reflexivity|]. now rewrite IH, orb_assoc. Qed.

Lemma ends_sp_snoc s c : ends_sp (s ++ [c]) = (c =? cSP).
Proof. unfold ends_sp. rewrite rev_app_distr. reflexivity. Qed.

Lemma no_two_spaces_cons2 a b r :
  no_two_spaces (a :: b :: r) = negb ((a =? cSP) && (b =? cSP)) && no_two_spaces (b :: r).
Proof. reflexivity. Qed.

Lemma ends_sp_cons a b s : ends_sp (a :: b :: s) = ends_sp (b :: s).
Proof.
  unfold ends_sp. cbn [rev]. destruct (rev s ++ [b]) eqn:R.
  - destruct (rev s); discriminate.
  - reflexivity.
Qed.

Lemma no_two_spaces_snoc s c :
  no_two_spaces (s ++ [c]) = no_two_spaces s && negb (ends_sp s && (c =? cSP)).
Proof.
  induction s as [|a s IH]; [reflexivity|].
  destruct s as [|b s'].
  - cbn. unfold ends_sp. cbn. now rewrite !andb_true_r.
  - change ((a :: b :: s') ++ [c]) with (a :: b :: (s' ++ [c])).
    change ((b :: s') ++ [c]) with (b :: (s' ++ [c])) in IH.
    rewrite !no_two_spaces_cons2, IH, ends_sp_cons. now rewrite !andb_assoc.
Qed.

Lemma clean_text_snoc s c :
  clean_text s = true -> (c =? cTAB) = false -> (c =? cLF) = false ->
  (ends_sp s && (c =? cSP)) = false ->
  clean_text (s ++ [c]) = true.
Proof.
  unfold clean_text. intros H Ht Hl Hs.
  rewrite !mem_cp_app, no_two_spaces_snoc. cbn [mem_cp].
  rewrite Ht, Hl, Hs. cbn.
  apply andb_true_iff in H as [H H3]. apply andb_true_iff in H as [H1 H2].
  apply negb_true_iff in H1. apply negb_true_iff in H2.
  rewrite H1, H2, H3. reflexivity.
Qed.

Definition all_clean (ns : list tnode) : bool := forallb clean_node ns.

Lemma all_clean_app a b : all_clean (a ++ b) = all_clean a && all_clean b.
Proof. apply forallb_app. Qed.

Lemma all_clean_flush buf : clean_text buf = true -> all_clean (flush buf) = true.
Proof. destruct buf; cbn; [reflexivity|]. intros ->. reflexivity. Qed.

Lemma buf_ok_nil : buf_ok [] None.
Proof. split; reflexivity. Qed.

Lemma close_run_clean buf sc :
  buf_ok buf sc ->
  all_clean (fst (close_run buf sc)) = true /\
  buf_ok (snd (close_run buf sc)) (match sc with Some (S _) => None | _ => sc end).
Proof.
  intros [Hc He]. destruct sc as [[|k]|]; cbn [close_run fst snd].
  - split; [reflexivity|]. split; assumption.
  - split; [|apply buf_ok_nil].
    rewrite all_clean_app, all_clean_flush by assumption. reflexivity.
  - split; [reflexivity|]. split; assumption.
Qed.

Lemma enc_clean s : forall buf sc, buf_ok buf sc -> all_clean (enc s buf sc) = true.
Proof.
  induction s as [|c r IH]; intros buf sc Hok.
  - cbn [enc]. destruct (close_run_clean buf sc Hok) as [H1 H2].
    destruct (close_run buf sc) as [out buf']. cbn [fst snd] in *.
    rewrite all_clean_app, H1. cbn. apply all_clean_flush. apply H2.
  - cbn [enc].
    assert (Hgen : forall sc', (match sc, (c =? cSP) with Some _, true => False | _, _ => True end) ->
       sc' = sc ->
       all_clean (let '(out, buf') := close_run buf sc' in
          if c =? cTAB then out ++ flush buf' ++ TTab :: enc r [] None
          else if c =? cLF then out ++ flush buf' ++ TLineBreak :: enc r [] None
          else if c =? cSP then out ++ enc r (buf' ++ [cSP]) (Some 0%nat)
          else out ++ enc r (buf' ++ [c]) None) = true).
    { intros sc' Hcase ->.
      destruct (close_run_clean buf sc Hok) as [H1 H2].
      destruct (close_run buf sc) as [out buf'] eqn:E. cbn [fst snd] in *.
      destruct H2 as [Hc' He'].
      destruct (c =? cTAB) eqn:Et; [|destruct (c =? cLF) eqn:El; [|destruct (c =? cSP) eqn:Es]].
      - rewrite !all_clean_app, H1, all_clean_flush by assumption.
        cbn [all_clean forallb clean_node andb]. apply IH, buf_ok_nil.
      - rewrite !all_clean_app, H1, all_clean_flush by assumption.
        cbn [all_clean forallb clean_node andb]. apply IH, buf_ok_nil.
      - rewrite all_clean_app, H1. cbn [andb]. apply IH.
        (* the buffer after close_run does not end in a blank: either sc was
           None, or Some (S _) (buffer reset); Some 0 is excluded by Hcase *)
        assert (Hns : ends_sp buf' = false).
        { destruct sc as [[|k]|]; cbn in Hcase; try contradiction; exact He'. }
        split.
        + apply clean_text_snoc; try assumption; try reflexivity.
          now rewrite Hns.
        + apply ends_sp_snoc.
      - rewrite all_clean_app, H1. cbn [andb]. apply IH. split.
        + apply clean_text_snoc; try assumption. rewrite Es. apply andb_false_r.
        + rewrite ends_sp_snoc. exact Es. }
    destruct sc as [k|]; destruct (c =? cSP) eqn:Esp.
    + apply IH. destruct Hok as [Hc He]. split; assumption.
    + apply (Hgen (Some k)); [exact I|reflexivity].
    + apply (Hgen None); [exact I|reflexivity].
    + apply (Hgen None); [exact I|reflexivity].
Qed.

Theorem teletype_clean s : all_clean (encode s) = true.
Proof. apply enc_clean, buf_ok_nil. Qed.

(* Text nodes emitted by one call are never adjacent: between two flushes there
   is always an element node. *)
Definition starts_text (ns : list tnode) : bool :=
  match ns with TText _ :: _ => true | _ => false end.

Lemma no_adjacent_text_app a b :
  no_adjacent_text a = true -> no_adjacent_text b = true ->
  (match rev a with TText _ :: _ => starts_text b = false | _ => True end) ->
  no_adjacent_text (a ++ b) = true.
Proof.
  induction a as [|x a IH]; intros Ha Hb Hj; [exact Hb|].
  destruct a as [|y a'].
  - cbn [app]. destruct x; try exact Hb.
    cbn in Hj. destruct b as [|[] b']; try discriminate; exact Hb.
  - assert (Ha' : no_adjacent_text (y :: a') = true).
    { destruct x; try exact Ha. destruct y; try discriminate; exact Ha. }
    assert (Hj' : match rev (y :: a') with TText _ :: _ => starts_text b = false | _ => True end).
    { cbn [rev] in Hj |- *. destruct (rev a' ++ [y]) eqn:R.
      - destruct (rev a'); discriminate.
      - cbn in Hj. exact Hj. }
    specialize (IH Ha' Hb Hj').
    change ((x :: y :: a') ++ b) with (x :: (y :: a') ++ b).
    cbn [app] in IH |- *.
    destruct x; try exact IH.
    destruct y; try exact IH. discriminate.
Qed.

Lemma na_flush b rest :
  no_adjacent_text rest = true -> starts_text rest = false ->
  no_adjacent_text (flush b ++ rest) = true.
Proof.
  intros Hr Hs. destruct b; cbn [flush app]; [exact Hr|].
  destruct rest as [|[] rest']; try discriminate; exact Hr.
Qed.

Lemma na_elem n rest :
  match n with TText _ => False | _ => True end ->
  no_adjacent_text rest = true -> no_adjacent_text (n :: rest) = true.
Proof. intros Hn Hr. destruct n; try contradiction; exact Hr. Qed.

Lemma na_close buf sc rest :
  no_adjacent_text rest = true ->
  no_adjacent_text (fst (close_run buf sc) ++ rest) = true.
Proof.
  intros Hr. destruct sc as [[|k]|]; cbn [close_run fst app]; try exact Hr.
  rewrite <- app_assoc. apply na_flush; [|reflexivity]. cbn [app].
  apply na_elem; [exact I|exact Hr].
Qed.

Lemma enc_no_adjacent s : forall buf sc, no_adjacent_text (enc s buf sc) = true.
Proof.
  induction s as [|c r IH]; intros buf sc.
  - cbn [enc]. destruct sc as [[|k]|]; cbn [close_run]; destruct buf; reflexivity.
  - cbn [enc].
    assert (Hgen : forall sc',
       no_adjacent_text (let '(out, buf') := close_run buf sc' in
          if c =? cTAB then out ++ flush buf' ++ TTab :: enc r [] None
          else if c =? cLF then out ++ flush buf' ++ TLineBreak :: enc r [] None
          else if c =? cSP then out ++ enc r (buf' ++ [cSP]) (Some 0%nat)
          else out ++ enc r (buf' ++ [c]) None) = true).
    { intros sc'. pose proof (na_close buf sc') as Hc.
      destruct (close_run buf sc') as [out buf']. cbn [fst] in Hc.
      destruct (c =? cTAB); [|destruct (c =? cLF); [|destruct (c =? cSP)]];
        apply Hc; try apply IH;
        (apply na_flush; [|reflexivity]); (apply na_elem; [exact I|apply IH]). }
    destruct sc as [k|]; destruct (c =? cSP); try apply Hgen. apply IH.
Qed.

Theorem teletype_no_adjacent_text s : no_adjacent_text (encode s) = true.
Proof. apply enc_no_adjacent. Qed.

(* With checking on: either a refusal (and then nothing is returned) or the
   round trip. *)
Theorem teletype_checked al kids s :
  a_text al = true -> a_s al = true -> a_tab al = true -> a_lb al = true ->
  exists kids', add_text_checked al kids s = Ok kids' /\ extract kids' = extract kids ++ s.
Proof.
  intros Ht Hs Hb Hl. unfold add_text_checked.
  assert (H : forall ns, first_refusal al ns = None \/ exists n, In n ns /\
               match n with TCData _ | TOther _ => True | _ => False end).
  { induction ns as [|n ns IH]; [now left|].
    destruct n; cbn [first_refusal]; rewrite ?Ht, ?Hs, ?Hb, ?Hl;
      try (destruct IH as [IH|[m [Hm Hk]]]; [now left|right; exists m; split; [now right|exact Hk]]). }
  assert (Hnone : first_refusal al (encode s) = None).
  { assert (G : forall ns, (forall n, In n ns -> match n with TCData _ | TOther _ => False | _ => True end) ->
                  first_refusal al ns = None).
    { induction ns as [|n ns IH]; intros Hall; [reflexivity|].
      assert (Hn := Hall n (or_introl eq_refl)).
      destruct n; cbn [first_refusal]; rewrite ?Ht, ?Hs, ?Hb, ?Hl; try contradiction;
        apply IH; intros m Hm; apply Hall; now right. }
    apply G. clear.
    unfold encode. generalize (@nil cp) as buf. generalize (@None nat) as sc.
    induction s as [|c r IH]; intros sc buf n Hin.
    - cbn [enc] in Hin. destruct sc as [[|k]|]; cbn [close_run] in Hin;
        destruct buf; cbn in Hin; intuition (subst; exact I).
    - cbn [enc] in Hin.
      assert (Hfl : forall b m, In m (flush b) -> match m with TCData _ | TOther _ => False | _ => True end).
      { intros b m Hm. destruct b; cbn in Hm; intuition (subst; exact I). }
      assert (Hcr : forall m, In m (fst (close_run buf sc)) -> match m with TCData _ | TOther _ => False | _ => True end).
      { intros m Hm. destruct sc as [[|k]|]; cbn [close_run fst] in Hm; try (now destruct Hm).
        apply in_app_or in Hm as [Hm|Hm]; [now apply (Hfl buf)|].
        cbn in Hm. intuition (subst; exact I). }
      destruct sc as [k|]; destruct (c =? cSP).
      + now apply (IH _ _ _ Hin).
      + destruct (close_run buf (Some k)) as [out buf'] eqn:E. cbn [fst] in Hcr.
        destruct (c =? cTAB); [|destruct (c =? cLF)];
          repeat (apply in_app_or in Hin as [Hin|Hin]); try (now apply Hcr); try (now apply (Hfl buf'));
          try (destruct Hin as [<-|Hin]; [exact I|]); now apply (IH _ _ _ Hin).
      + cbn [close_run fst] in *. destruct (c =? cTAB); [|destruct (c =? cLF)]; cbn [app] in Hin;
          repeat (apply in_app_or in Hin as [Hin|Hin]); try (now apply (Hfl buf));
          try (destruct Hin as [<-|Hin]; [exact I|]); now apply (IH _ _ _ Hin).
      + cbn [close_run fst] in *. destruct (c =? cTAB); [|destruct (c =? cLF)]; cbn [app] in Hin;
          repeat (apply in_app_or in Hin as [Hin|Hin]); try (now apply (Hfl buf));
          try (destruct Hin as [<-|Hin]; [exact I|]); now apply (IH _ _ _ Hin). }
  rewrite Hnone. eexists; split; [reflexivity|]. apply teletype_roundtrip.
Qed.

(* Non-vacuity / sanity examples (computed). *)
Example enc_example :
  encode (s2l "a  b") = [TText (s2l "a "); TS (Some 1%nat); TText (s2l "b")].
Proof. vm_compute. reflexivity. Qed.

(* ---------------- the children as a parser returns them ---------------- *)
Lemma extract_merge_text ns : extract (merge_text ns) = extract ns.
Proof.
  induction ns as [|n r IH]; [reflexivity|].
  destruct n as [a| | | | |]; cbn [merge_text]; try (unfold extract in *; cbn [flat_map]; now rewrite IH).
  unfold extract in *. cbn [flat_map extract_node]. rewrite <- IH.
  destruct (merge_text r) as [|[b| | | | |] r'] eqn:E; cbn [flat_map extract_node];
    try (destruct a; cbn [flat_map extract_node]; reflexivity).
  now rewrite app_assoc.
Qed.

Lemma extract_reparse_node : forall n, no_cdata_node n = true -> extract_node (reparse_node n) = extract_node n.
Proof.
  fix IH 1. intros [s|s|c| | |kids] H; try reflexivity; [discriminate|].
  cbn [reparse_node extract_node]. change (flat_map extract_node ?l) with (extract l).
  rewrite extract_merge_text. cbn [no_cdata_node] in H.
  induction kids as [|k r IHr]; [reflexivity|].
  cbn [forallb] in H. apply andb_true_iff in H as [Hk Hr].
  unfold extract in *. cbn [map flat_map]. rewrite (IH k Hk), (IHr Hr). reflexivity.
Qed.

Theorem teletype_reparse_extract ns :
  forallb no_cdata_node ns = true -> extract (reparse ns) = extract ns.
Proof.
  intro H. unfold reparse. rewrite extract_merge_text.
  induction ns as [|k r IHr]; [reflexivity|].
  cbn [forallb] in H. apply andb_true_iff in H as [Hk Hr].
  unfold extract in *. cbn [map flat_map]. rewrite (extract_reparse_node k Hk), (IHr Hr). reflexivity.
Qed.

(* the nodes of one call hold no CDATA section and no nested element *)
Definition flat_node (n : tnode) : bool :=
  match n with TCData _ | TOther _ => false | _ => true end.
Lemma flat_app a b : forallb flat_node (a ++ b) = forallb flat_node a && forallb flat_node b.
Proof. apply forallb_app. Qed.
Lemma flat_flush buf : forallb flat_node (flush buf) = true.
Proof. destruct buf; reflexivity. Qed.
Lemma flat_close buf sc : forallb flat_node (fst (close_run buf sc)) = true.
Proof. destruct sc as [[|k]|]; cbn; try reflexivity. rewrite flat_app, flat_flush. reflexivity. Qed.
Lemma enc_flat s : forall buf sc, forallb flat_node (enc s buf sc) = true.
Proof.
  induction s as [|c r IH]; intros buf sc; cbn [enc].
  - pose proof (flat_close buf sc) as F. destruct (close_run buf sc) as [out buf']. cbn [fst] in F.
    now rewrite flat_app, F, flat_flush.
  - pose proof (flat_close buf sc) as F.
    assert (G : forallb flat_node
      (let '(out, buf') := close_run buf sc in
       if c =? cTAB then out ++ flush buf' ++ TTab :: enc r [] None
       else if c =? cLF then out ++ flush buf' ++ TLineBreak :: enc r [] None
       else if c =? cSP then out ++ enc r (buf' ++ [cSP]) (Some 0%nat)
       else out ++ enc r (buf' ++ [c]) None) = true).
    { destruct (close_run buf sc) as [out buf']. cbn [fst] in F.
      destruct (c =? cTAB); [|destruct (c =? cLF); [|destruct (c =? cSP)]];
        rewrite ?flat_app, ?F, ?flat_flush; cbn [forallb flat_node andb]; rewrite ?IH; reflexivity. }
    destruct sc as [k|]; [destruct (c =? cSP); [apply IH|exact G]|exact G].
Qed.

(* a flat list with no text nodes side by side and no empty text node is what the parser returns *)
Lemma reparse_flat_id ns :
  forallb flat_node ns = true -> map reparse_node ns = ns.
Proof.
  induction ns as [|n r IH]; [reflexivity|]. cbn [forallb map]. intro H.
  apply andb_true_iff in H as [Hn Hr]. rewrite (IH Hr). destruct n; try discriminate; reflexivity.
Qed.
Lemma merge_text_id ns :
  all_clean ns = true -> no_adjacent_text ns = true -> merge_text ns = ns.
Proof.
  induction ns as [|n r IH]; [reflexivity|]. intros Hc Ha.
  unfold all_clean in *. cbn [forallb] in Hc. apply andb_true_iff in Hc as [Hn Hr].
  assert (Ha' : no_adjacent_text r = true).
  { destruct n; cbn [no_adjacent_text] in Ha; try exact Ha. destruct r as [|[]]; try exact Ha; try reflexivity. discriminate. }
  specialize (IH Hr Ha').
  destruct n as [a| | | | |]; cbn [merge_text]; rewrite IH; try reflexivity.
  destruct r as [|[b| | | | |] r']; cbn [no_adjacent_text] in Ha; try discriminate;
    (destruct a; [cbn in Hn; discriminate|reflexivity]).
Qed.

Theorem teletype_reparse_fixpoint s : reparse (encode s) = encode s.
Proof.
  unfold reparse, encode. rewrite reparse_flat_id by apply enc_flat.
  apply merge_text_id; [apply teletype_clean | apply teletype_no_adjacent_text].
Qed.

Theorem teletype_saved_roundtrip kids s :
  forallb no_cdata_node kids = true ->
  extract (reparse (add_text_to_element kids s)) = extract kids ++ s.
Proof.
  intro H. rewrite teletype_reparse_extract.
  - apply teletype_roundtrip.
  - unfold add_text_to_element. rewrite forallb_app, H. cbn [andb].
    assert (F : forallb flat_node (encode s) = true) by apply enc_flat.
    induction (encode s) as [|n r IH]; [reflexivity|]. cbn [forallb] in *.
    apply andb_true_iff in F as [Fn Fr]. rewrite (IH Fr). destruct n; try discriminate; reflexivity.
Qed.
