(* XmlInst.v — table obligations on the regenerated GenChars.v and the round trip
   instantiated with the filter the code really applies. *)
From Coq Require Import Lia.
From Odf Require Import model.Base model.Chars model.XmlPrint model.XmlLex model.XmlTree model.Inst
  gen.GenChars
  proofs.XmlPrintProofs proofs.XmlLexProofs proofs.XmlTokProofs proofs.XmlBuildProofs
  proofs.XmlResolveProofs proofs.XmlRoundTrip.

(* a checker: no interval of r meets [lo, hi] *)
Definition ranges_avoid (r : list (N * N)) (lo hi : N) : bool :=
  forallb (fun x => (hi <? fst x) || (snd x <? lo)) r.

Lemma ranges_avoid_sound r lo hi : ranges_avoid r lo hi = true ->
  forall c, lo <= c -> c <= hi -> in_ranges r c = false.
Proof.
  unfold ranges_avoid. induction r as [|[a b] r IH]; intros H c H1 H2; [reflexivity|].
  cbn [forallb fst snd] in H. apply andb_true_iff in H as [Hx Hr].
  cbn [in_ranges]. rewrite (IH Hr c H1 H2), orb_false_r.
  apply orb_true_iff in Hx as [Hx|Hx]; apply N.ltb_lt in Hx; apply andb_false_iff.
  - left. apply N.leb_gt. lia.
  - right. apply N.leb_gt. lia.
Qed.

Lemma name_char_range c : name_char c = true -> 45 <= c /\ c <= 122.
Proof.
  unfold name_char, nc_char, nc_start, is_alpha, is_digit. intros H.
  repeat (apply orb_true_iff in H as [H|H]);
    repeat match goal with
           | H : (_ && _) = true |- _ => apply andb_true_iff in H as [? ?]
           | H : (_ <=? _) = true |- _ => apply N.leb_le in H
           | H : (_ =? _) = true |- _ => apply N.eqb_eq in H
           end; lia.
Qed.

(* ---- obligations on the regenerated table ---- *)
Lemma F_covers_illegal : ranges_subset xml10_illegal filtered_ranges = true.
Proof. vm_compute. reflexivity. Qed.

Lemma F_avoids_names : ranges_avoid filtered_ranges 45 122 = true.
Proof. vm_compute. reflexivity. Qed.

Lemma F_cov : filter_covers F.
Proof. apply filter_covers_of_subset. exact F_covers_illegal. Qed.

Lemma F_names : forall c, name_char c = true -> in_ranges F c = false.
Proof.
  intros c H. destruct (name_char_range c H). now apply (ranges_avoid_sound _ 45 122 F_avoids_names).
Qed.

(* the per-code-point tables of the working tree are the model's constants *)
Lemma gen_text_esc : text_esc = [(13, sREF13); (38, sAMP); (60, sLT); (62, sGT)].
Proof. vm_compute. reflexivity. Qed.
Lemma gen_attr_esc : attr_esc = [(9, sREF9); (10, sREF10); (13, sREF13); (38, sAMP); (60, sLT); (62, sGT)].
Proof. vm_compute. reflexivity. Qed.
Lemma gen_attr_quote : attr_quote = [(cQUOT, cAPOS)].
Proof. vm_compute. reflexivity. Qed.
Lemma gen_cdata_esc : cdata_esc = [(13, sCDOPEN ++ sCDCR ++ sCDCLOSE)].
Proof. vm_compute. reflexivity. Qed.
Lemma gen_prologue : xml_prologue = sPROLOGUE.
Proof. vm_compute. reflexivity. Qed.

(* and the model, on single code points, is exactly those tables *)
Definition tab_lookup (t : list (N * list N)) (c : cp) : str :=
  match find (fun e => fst e =? c) t with Some e => snd e | None => [c] end.

Lemma model_text_char c : text_toXml F [c] = tab_lookup text_esc (filter_char F c).
Proof.
  rewrite text_toXml_pointwise, gen_text_esc. cbn [handle_unrepresentable map flat_map]. rewrite app_nil_r.
  generalize (filter_char F c) as x. intros x. unfold esc_text, tab_lookup. cbn [find fst snd].
  rewrite (N.eqb_sym 13 x), (N.eqb_sym 38 x), (N.eqb_sym 60 x), (N.eqb_sym 62 x).
  unfold cAMP, cLT, cGT, cCR.
  destruct (x =? 38) eqn:E1; [apply N.eqb_eq in E1; subst; reflexivity|].
  destruct (x =? 60) eqn:E2; [apply N.eqb_eq in E2; subst; reflexivity|].
  destruct (x =? 62) eqn:E3; [apply N.eqb_eq in E3; subst; reflexivity|].
  destruct (x =? 13) eqn:E4; reflexivity.
Qed.

(* ---- the round trip for the code as it is ---- *)
Theorem roundtrip_doc env q atts kids :
  doc_ok F env (Elem q atts kids) = true ->
  xml_parse (xml_prologue ++ node_toXml F env true (Elem q atts kids)) = Some (canon F (Elem q atts kids)).
Proof. rewrite gen_prologue. apply xml_roundtrip_doc; [exact F_cov|exact F_names]. Qed.

Theorem roundtrip_elem env q atts kids :
  doc_ok F env (Elem q atts kids) = true ->
  xml_parse (node_toXml F env true (Elem q atts kids)) = Some (canon F (Elem q atts kids)).
Proof. apply xml_roundtrip_elem; [exact F_cov|exact F_names]. Qed.

(* the property's own canonical form replaces only what XML 1.0 cannot represent *)
Definition strict_char (c : cp) : cp := if xml10_char c then c else cFFFD.
Definition strict_str (s : str) : str := map strict_char s.

Lemma canon_is_strict s : in_codespace s ->
  Forall (fun c => in_ranges F c = true -> xml10_char c = false) s ->
  handle_unrepresentable F s = strict_str s.
Proof.
  intros Hs H. unfold handle_unrepresentable, strict_str. induction H as [|c s Hc H IH]; [reflexivity|].
  inversion Hs as [|? ? Hm Hs']; subst. cbn [map]. rewrite (IH Hs'). f_equal.
  unfold filter_char, strict_char. destruct (in_ranges F c) eqn:E.
  - now rewrite (Hc eq_refl).
  - destruct (xml10_char c) eqn:X; [reflexivity|]. rewrite (F_cov c Hm X) in E. discriminate.
Qed.

(* D6: the filter is wider than XML 1.0 requires *)
Theorem filter_wider_than_needed : exists c, xml10_char c = true /\ in_ranges F c = true.
Proof. exists 127. split; vm_compute; reflexivity. Qed.

(* non-vacuity: a concrete document meets doc_ok and round-trips by computation *)
Definition ex_env : nsenv := [(s2l "urn:t", s2l "text"); (s2l "urn:o", s2l "office")].
Definition ex_doc : node :=
  Elem (s2l "urn:t", s2l "p") [((s2l "urn:o", s2l "a"), s2l "x""'<&" ++ [9; 10; 13])]
    [TextN (s2l "a]]>" ++ [13; 1]); CDataN (s2l "]]>" ++ [13]); Elem (s2l "urn:t", s2l "s") [] []; TextN []].
Example ex_doc_ok : doc_ok F ex_env ex_doc = true.
Proof. vm_compute. reflexivity. Qed.
Example ex_doc_parses : xml_parse (xml_prologue ++ node_toXml F ex_env true ex_doc) = Some (canon F ex_doc).
Proof. vm_compute. reflexivity. Qed.
