(* XmlBuildProofs.v — the token stream [emit] describes builds the raw tree
   [raw_of] (third quarter of the round trip). *)
From Coq Require Import Lia.
From Odf Require Import model.Base model.Chars model.XmlPrint model.XmlLex model.XmlTree
  proofs.XmlPrintProofs proofs.XmlLexProofs proofs.XmlTokProofs.

Section Build.
Variable filtered : list (N * N).
Variable env : nsenv.
Notation canon_str := (handle_unrepresentable filtered).
Notation emit := (emit filtered env).
Notation emit_list := (emit_list filtered env).
Notation raw_att := (raw_att filtered env).

Definition flushR (acc : str) : list raw := match acc with [] => [] | _ => [RText acc] end.

Fixpoint raw_of (t : node) : raw :=
  match t with
  | TextN s => RText (canon_str s)
  | CDataN s => RText (canon_str s)
  | Elem q atts kids =>
      RElem (tag_of env q) (map raw_att atts)
        ((fix items (ks : list node) (acc : str) : list raw :=
            match ks with
            | [] => flushR acc
            | TextN s :: r => items r (acc ++ canon_str s)
            | CDataN s :: r => items r (acc ++ canon_str s)
            | (Elem _ _ _ as e) :: r => flushR acc ++ raw_of e :: items r []
            end) kids [])
  end.

Fixpoint kid_items (ks : list node) (acc : str) : list raw :=
  match ks with
  | [] => flushR acc
  | TextN s :: r => kid_items r (acc ++ canon_str s)
  | CDataN s :: r => kid_items r (acc ++ canon_str s)
  | (Elem _ _ _ as e) :: r => flushR acc ++ raw_of e :: kid_items r []
  end.

Lemma items_eq kids : forall acc,
  (fix items (ks : list node) (acc : str) : list raw :=
     match ks with
     | [] => flushR acc
     | TextN s :: r => items r (acc ++ canon_str s)
     | CDataN s :: r => items r (acc ++ canon_str s)
     | (Elem _ _ _ as e) :: r => flushR acc ++ raw_of e :: items r []
     end) kids acc = kid_items kids acc.
Proof.
  induction kids as [|k kids IH]; intros acc; [reflexivity|].
  destruct k as [q' a' k'|s|s]; cbn [kid_items].
  - do 2 f_equal; apply IH.
  - apply IH.
  - apply IH.
Qed.

Lemma raw_of_elem q atts kids :
  raw_of (Elem q atts kids) = RElem (tag_of env q) (map raw_att atts) (kid_items kids []).
Proof. cbn [raw_of]. apply f_equal. apply items_eq. Qed.

Lemma str_eqb_refl s : str_eqb s s = true.
Proof. induction s as [|c s IH]; [reflexivity|]. cbn. now rewrite N.eqb_refl, IH. Qed.

Lemma build_flushT acc n a kd stk top rest :
  build (flushT acc ++ rest) ((n, a, kd) :: stk) top = build rest ((n, a, kd ++ flushR acc) :: stk) top.
Proof. destruct acc; cbn; [now rewrite app_nil_r|reflexivity]. Qed.

(* what one child contributes, given the pending text *)
Definition build_stmt (t : node) : Prop :=
  forall acc n a kd stk top rest,
    build (fst (emit t acc) ++ flushT (snd (emit t acc)) ++ rest) ((n, a, kd) :: stk) top
    = build rest ((n, a, kd ++ kid_items [t] acc) :: stk) top.

Lemma build_kids kids : Forall build_stmt kids -> forall acc n a kd stk top rest,
  build (fst (emit_list kids ([], acc)) ++ flushT (snd (emit_list kids ([], acc))) ++ rest) ((n, a, kd) :: stk) top
  = build rest ((n, a, kd ++ kid_items kids acc) :: stk) top.
Proof.
  induction 1 as [|t kids Ht Hk IH]; intros acc n a kd stk top rest.
  - cbn [XmlTokProofs.emit_list fold_left fst snd app kid_items]. apply build_flushT.
  - rewrite emit_list_cons.
    destruct t as [q atts ks|s|s].
    + (* an element child: its tokens end with no pending text *)
      assert (Hs : snd (emit (Elem q atts ks) acc) = []) by (destruct ks; reflexivity).
      specialize (Ht acc n a kd stk top
        (fst (emit_list kids ([], [])) ++ flushT (snd (emit_list kids ([], []))) ++ rest)).
      destruct (emit (Elem q atts ks) acc) as [t1 a1]. cbn [fst snd] in *. subst a1.
      cbn [flushT app] in Ht. rewrite <- (app_assoc t1). etransitivity; [apply Ht|]. rewrite IH.
      cbn [kid_items]. rewrite <- !app_assoc. cbn [app]. reflexivity.
    + cbn [XmlTokProofs.emit fst snd app kid_items]. apply IH.
    + cbn [XmlTokProofs.emit fst snd app kid_items]. apply IH.
Qed.

Theorem build_node t : build_stmt t.
Proof.
  induction t as [s|s|q atts kids IH] using node_ind2; unfold build_stmt; intros acc n a kd stk top rest.
  - cbn [XmlTokProofs.emit fst snd app kid_items]. apply build_flushT.
  - cbn [XmlTokProofs.emit fst snd app kid_items]. apply build_flushT.
  - cbn [kid_items]. rewrite raw_of_elem.
    destruct kids as [|k0 kids].
    + cbn [XmlTokProofs.emit fst snd flushT app]. rewrite <- app_assoc, build_flushT.
      cbn [app build add_child kid_items flushR]. rewrite <- !app_assoc. cbn [app]. reflexivity.
    + remember (k0 :: kids) as ks eqn:Eks.
      assert (Hemit : emit (Elem q atts ks) acc =
                (flushT acc ++ [TkStart (tag_of env q) (map raw_att atts)] ++ fst (emit_list ks ([], []))
                   ++ flushT (snd (emit_list ks ([], []))) ++ [TkEnd (tag_of env q)], [])).
      { subst ks. reflexivity. }
      rewrite Hemit. cbn [fst snd flushT]. rewrite <- !app_assoc. rewrite build_flushT.
      cbn [app build].
      rewrite (build_kids ks IH [] (tag_of env q) (map raw_att atts) []).
      cbn [app build]. rewrite str_eqb_refl. cbn [add_child].
      rewrite <- !app_assoc. cbn [app]. reflexivity.
Qed.

(* the whole document: optional white space, then the root *)
Theorem build_root q atts kids ws :
  forallb is_ws ws = true ->
  build (flushT ws ++ emit_root filtered env q atts kids) [] None
  = Some (RElem (tag_of env q) (root_atts filtered env atts) (kid_items kids [])).
Proof.
  intros Hws.
  assert (Hpre : forall r, build (flushT ws ++ r) [] None = build r [] None).
  { intros r. destruct ws; [reflexivity|]. cbn [flushT app build]. now rewrite Hws. }
  rewrite Hpre. unfold emit_root.
  destruct kids as [|k0 kids]; [reflexivity|].
  remember (k0 :: kids) as ks eqn:Eks.
  replace (match ks with [] => [TkEmpty (tag_of env q) (root_atts filtered env atts)]
           | _ :: _ => [TkStart (tag_of env q) (root_atts filtered env atts)] ++ fst (emit_list ks ([], []))
                ++ flushT (snd (emit_list ks ([], []))) ++ [TkEnd (tag_of env q)] end)
    with ([TkStart (tag_of env q) (root_atts filtered env atts)] ++ fst (emit_list ks ([], []))
                ++ flushT (snd (emit_list ks ([], []))) ++ [TkEnd (tag_of env q)]) by (subst ks; reflexivity).
  cbn [app build].
  assert (IH : Forall build_stmt ks) by (apply Forall_forall; intros t _; apply build_node).
  rewrite (build_kids ks IH [] (tag_of env q) (root_atts filtered env atts) []).
  cbn [app build]. rewrite str_eqb_refl. cbn [add_child build]. reflexivity.
Qed.
End Build.
