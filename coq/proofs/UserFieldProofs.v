(* UserFieldProofs.v — C19: updating user fields changes those fields and nothing else. *)
From Coq Require Import Lia PeanoNat.
From Odf Require Import model.Base model.XmlTree model.UserField.

Lemma aget_aset_same k v a : aget k (aset k v a) = Some v.
Proof. induction a as [|[k' v'] a IH]; cbn; [now rewrite Nat.eqb_refl|]. destruct (Nat.eqb k' k) eqn:E; cbn; [now rewrite Nat.eqb_refl|now rewrite E]. Qed.

Lemma aget_aset_other k k' v a : k' <> k -> aget k' (aset k v a) = aget k' a.
Proof.
  intros H. induction a as [|[k0 v0] a IH]; cbn.
  - apply Nat.eqb_neq in H. now rewrite Nat.eqb_sym, H.
  - destruct (Nat.eqb k0 k) eqn:E; cbn.
    + apply Nat.eqb_eq in E. subst. apply Nat.eqb_neq in H. now rewrite Nat.eqb_sym, H.
    + destruct (Nat.eqb k0 k'); [reflexivity|exact IH].
Qed.

(* what update does to one declaration *)
Definition updated (data : list (str * str)) (f g : decl) : Prop :=
  d_name g = d_name f /\ d_type g = d_type f /\ d_other g = d_other f /\
  match dlookup (d_name f) data with
  | None => d_vals g = d_vals f
  | Some v => exists v', conv_value (value_attr (d_type f)) v = Ok v' /\
                aget (value_attr (d_type f)) (d_vals g) = Some v' /\
                (forall k, k <> value_attr (d_type f) -> aget k (d_vals g) = aget k (d_vals f))
  end.

Theorem update_pointwise data ds ds' : update data ds = Ok ds' -> Forall2 (updated data) ds ds'.
Proof.
  revert ds'. induction ds as [|f r IH]; intros ds' H; cbn [update] in H.
  - injection H as <-. constructor.
  - destruct (dlookup (d_name f) data) as [v|] eqn:El.
    + destruct (conv_value (value_attr (d_type f)) v) as [v'|e] eqn:Ec; [|discriminate].
      destruct (update data r) as [r'|e]; [|discriminate]. injection H as <-. constructor; [|now apply IH].
      unfold updated. cbn [d_name d_type d_other d_vals]. rewrite El. repeat split.
      exists v'. split; [exact Ec|]. split; [apply aget_aset_same|]. intros k Hk. now apply aget_aset_other.
    + destruct (update data r) as [r'|e]; [|discriminate]. injection H as <-. constructor; [|now apply IH].
      unfold updated. rewrite El. repeat split.
Qed.

(* listing the output returns the new values for the named fields and the old ones for the others,
   in the same order *)
Theorem list_after_update data ds ds' : update data ds = Ok ds' ->
  list_fields_and_values None ds' =
  map (fun f => match dlookup (d_name f) data with
                | Some v => match conv_value (value_attr (d_type f)) v with Ok v' => (d_name f, d_type f, Some v') | Raise _ => field_row f end
                | None => field_row f end) ds.
Proof.
  intros H. apply update_pointwise in H. unfold list_fields_and_values. cbn [filter].
  assert (E : forall l, filter (fun _ : decl => true) l = l) by (induction l as [|x l IH]; cbn; [reflexivity|now rewrite IH]).
  rewrite E. induction H as [|f g r r' Hu Hr IH]; [reflexivity|]. cbn [map]. rewrite IH. f_equal.
  destruct Hu as (Hn & Ht & _ & Hv). unfold field_row. rewrite Hn, Ht.
  destruct (dlookup (d_name f) data) as [v|]; [|now rewrite Hv].
  destruct Hv as (v' & Ec & Hg & _). now rewrite Ec, Hg.
Qed.

Theorem update_length data ds ds' : update data ds = Ok ds' -> List.length ds' = List.length ds.
Proof. intros H. apply update_pointwise in H. symmetry. induction H; cbn; congruence. Qed.

(* a refused value (boolean field) aborts the whole update: nothing is produced, nothing is saved *)
Theorem update_refused data ds e : update data ds = Raise e -> e = ValueErr.
Proof.
  induction ds as [|f r IH]; cbn [update]; [discriminate|].
  destruct (dlookup (d_name f) data) as [v|].
  - destruct (conv_value (value_attr (d_type f)) v) as [v'|e'] eqn:Ec.
    + destruct (update data r); [discriminate|]. intros H. injection H as <-. now apply IH.
    + intros H. injection H as <-. unfold conv_value in Ec. destruct (Nat.eqb _ A_BOOL); [|discriminate].
      destruct (_ || _); [discriminate|]. destruct (_ || _); [discriminate|]. now injection Ec.
  - destruct (update data r); [discriminate|]. intros H. injection H as <-. now apply IH.
Qed.

Open Scope nat_scope.
Example update_example :
  update [(s2l "d", s2l "2024-01-02"); (s2l "b", s2l "Yes"); (s2l "zz", s2l "unused")]
         [mkDecl (s2l "d") (s2l "date") [(A_DATE, s2l "2000-01-01")] []; mkDecl (s2l "s") (s2l "string") [(A_STRING, s2l "x")] [];
          mkDecl (s2l "b") (s2l "boolean") [(A_BOOL, s2l "false")] [(7, s2l "keep")]]
  = Ok [mkDecl (s2l "d") (s2l "date") [(A_DATE, s2l "2024-01-02")] []; mkDecl (s2l "s") (s2l "string") [(A_STRING, s2l "x")] [];
        mkDecl (s2l "b") (s2l "boolean") [(A_BOOL, s2l "true")] [(7, s2l "keep")]].
Proof. vm_compute. reflexivity. Qed.
