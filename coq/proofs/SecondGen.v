(* SecondGen.v — C04: the package saved from the loaded document is the first package again. *)
From Coq Require Import Lia.
From Odf Require Import model.Base model.Chars model.XmlPrint model.XmlLex model.XmlTree model.Doc model.Inst model.LoadStyles model.Load model.LoadInst
  gen.GenChars gen.GenNs gen.GenStyleRefs proofs.XmlResolveProofs proofs.DocProofs proofs.AutoStylesProofs proofs.AutoStylesExact proofs.DocInst
  proofs.LoadStylesProofs proofs.LoadProofs proofs.LoadRoundTrip.

(* every tree of the document is what a parser would deliver for it *)
Definition fixed (ks : list node) : Prop := map cn ks = ks.
Record canonical (d : odfdoc) : Prop := mkCan {
  cf_meta : fixed (kids_of (d_meta d)); cf_scripts : fixed (kids_of (d_scripts d)); cf_ffd : fixed (kids_of (d_ffd d));
  cf_settings : fixed (kids_of (d_settings d)); cf_styles : fixed (kids_of (d_styles d)); cf_auto : fixed (kids_of (d_auto d));
  cf_master : fixed (kids_of (d_master d)); cf_body : fixed (kids_of (d_body d)) }.

Lemma fixed_sub ks l : fixed ks -> (forall e, In e l -> In e ks) -> fixed l.
Proof.
  unfold fixed. intros H Hs. assert (P : forall e, In e ks -> cn e = e).
  { clear -H. induction ks as [|x r IH]; intros e He; [destruct He|]. cbn [map] in H. injection H as H1 H2. destruct He as [He|He]; [now subst|now apply IH]. }
  induction l as [|x r IH]; [reflexivity|]. cbn [map]. rewrite (P x) by (apply Hs; now left). f_equal. apply IH. intros e He. apply Hs. now right.
Qed.

(* no two named automatic styles with the same element type and name: the last step of the load drops nothing *)
Definition keys (ks : list node) : list (qname * str) := flat_map (fun t => match auto_key t with Some k => [k] | None => [] end) ks.
Lemma seen_get_none q n seen : (forall q' n' t, In (q', n', t) seen -> (q', n') <> (q, n)) -> seen_get q n seen = None.
Proof.
  induction seen as [|[[q' n'] t] r IH]; intros H; [reflexivity|]. cbn [seen_get].
  destruct (qname_eqb q' q && str_eqb n' n) eqn:E.
  - apply andb_prop in E as [E1 E2]. apply qname_eqb_eq in E1. apply str_eqb_eq in E2. subst. exfalso. apply (H q n t); [now left|reflexivity].
  - apply IH. intros q0 n0 t0 H0. apply (H q0 n0 t0). now right.
Qed.
Lemma dedupe_id ks : forall seen, NoDup (map (fun x => (fst (fst x), snd (fst x))) seen ++ keys ks) -> dedupe seen ks = ks.
Proof.
  induction ks as [|k r IH]; intros seen Hd; [reflexivity|]. unfold keys in Hd. cbn [flat_map] in Hd. fold (keys r) in Hd.
  destruct k as [q a kids|t|t]; cbn [dedupe]; try (cbn [auto_key app] in Hd; f_equal; now apply IH).
  cbn [auto_key] in Hd. destruct (get_att q_stylename a) as [n|] eqn:Ea; [|cbn [app] in Hd; f_equal; now apply IH].
  cbn [app] in Hd.
  assert (Hn : seen_get q n seen = None).
  { apply seen_get_none. intros q' n' t Hin E. injection E as -> ->. apply NoDup_remove_2 in Hd. apply Hd. apply in_or_app. left.
    apply in_map_iff. exists (q, n, t). split; [reflexivity|exact Hin]. }
  rewrite Hn. f_equal. apply IH. cbn [map fst snd].
  assert (P : forall (A : Type) (x : A) l1 l2, NoDup (l1 ++ x :: l2) -> NoDup (x :: l1 ++ l2)).
  { intros A x l1 l2 H. constructor; [now apply NoDup_remove_2 in H|now apply NoDup_remove_1 in H]. }
  apply (P _ (q, n)). exact Hd.
Qed.

Section SG.
Variable env : nsenv.
Variable d : odfdoc.
Hypothesis HS : sections_ok d.
Hypothesis HC : canonical d.
Hypothesis Hkeys : NoDup (keys (used_c d ++ used_s d)).
(* the two parts use automatic styles of different names *)
Hypothesis Hdis : forall e e', In e (used_c d) -> In e' (used_s d) -> style_name e = style_name e' -> style_name e = None.

Lemma used_c_sub e : In e (used_c d) -> In e (kids_of (d_auto d)).
Proof. apply (written_styles_are_the_documents RA). Qed.
Lemma used_s_sub e : In e (used_s d) -> In e (kids_of (d_auto d)).
Proof. apply (written_styles_are_the_documents RA). Qed.

(* the loaded document: d with its metadata normalised and the used automatic styles *)
Definition reloaded : odfdoc :=
  mkDoc (d_mime d) (d_meta (norm_gen tv d)) (d_scripts d) (d_ffd d) (d_settings d) (d_styles d)
        (Elem (q_off "automatic-styles") [] (used_c d ++ used_s d)) (d_master d) (d_body d).

Lemma csec_fixed t : fixed (kids_of t) -> csec t = t.
Proof. destruct t as [q a ks|s|s]; try reflexivity. unfold fixed. cbn [kids_of csec]. intros H. now rewrite H. Qed.

Lemma finish_expected : finish (expected d) = reloaded.
Proof.
  destruct HC as [C1 C2 C3 C4 C5 C6 C7 C8]. unfold expected, finish, reloaded. cbn [d_mime d_meta d_scripts d_ffd d_settings d_styles d_auto d_master d_body].
  rewrite (csec_fixed (d_scripts d) C2), (csec_fixed (d_ffd d) C3), (csec_fixed (d_settings d) C4), (csec_fixed (d_styles d) C5),
          (csec_fixed (d_master d) C7), (csec_fixed (d_body d) C8).
  assert (Eu1 : map cn (used_c d) = used_c d) by (apply (fixed_sub _ _ C6), used_c_sub).
  assert (Eu2 : map cn (used_s d) = used_s d) by (apply (fixed_sub _ _ C6), used_s_sub).
  rewrite Eu1, Eu2, (dedupe_id _ [] Hkeys).
  f_equal. destruct HS as [[kme [Eme Hme]] _ _ _ _ _ _ _]. unfold norm_gen. cbn [d_meta]. rewrite Eme. cbn [replace_generator csec].
  f_equal. unfold fixed in C1. rewrite Eme in C1. cbn [kids_of] in C1. rewrite map_app. cbn [map]. f_equal.
  all: try reflexivity. apply (fixed_sub kme); [exact C1|]. intros e He. now apply filter_In in He.
Qed.

(* selecting again selects the same *)
Lemma reselect_content : used_auto_styles RA [d_styles reloaded; d_body reloaded] (d_auto reloaded) = used_c d.
Proof.
  unfold reloaded. cbn [d_styles d_body d_auto].
  apply (reselect RA [d_styles d; d_body d] (d_auto d) (q_off "automatic-styles") [] [] (used_s d)).
  - intros e He. cbn [app] in He. now apply used_s_sub.
  - intros e e' He He' E. cbn [app] in He. fold (used_c d) in He'. rewrite E. apply (Hdis e' e He' He). now symmetry.
Qed.
Lemma reselect_styles : used_auto_styles RA [d_master reloaded] (d_auto reloaded) = used_s d.
Proof.
  unfold reloaded. cbn [d_master d_auto].
  pose proof (reselect RA [d_master d] (d_auto d) (q_off "automatic-styles") [] (used_c d) []) as R. fold (used_s d) in R.
  rewrite !app_nil_r in R. apply R.
  - intros e He. now apply used_c_sub.
  - intros e e' He He' E. now apply (Hdis e e' He He').
Qed.

(* the second package is the first, byte for byte *)
Theorem second_generation :
  i_contentxml env reloaded = i_contentxml env d /\ i_stylesxml env reloaded = i_stylesxml env d /\
  i_settingsxml env reloaded = i_settingsxml env d /\ snd (i_metaxml env reloaded) = snd (i_metaxml env d) /\
  has_kids (d_settings reloaded) = has_kids (d_settings d).
Proof.
  split; [|split; [|split; [|split]]].
  - unfold i_contentxml, contentxml. rewrite reselect_content. reflexivity.
  - unfold i_stylesxml, stylesxml. rewrite reselect_styles. reflexivity.
  - reflexivity.
  - unfold i_metaxml, metaxml. cbn [snd]. unfold reloaded, norm_gen. cbn [d_meta d_mime d_scripts d_ffd d_settings d_styles d_auto d_master d_body].
    now rewrite replace_generator_idem.
  - reflexivity.
Qed.
End SG.
