(* ConvInst.v — C15 obligations on the regenerated tables *)
From Odf Require Import model.Base model.Regex model.Convert gen.GenConv model.ConvInst proofs.RegexProofs proofs.ConvProofs model.Grammar.

Lemma O_compatible : forallb (fun x => memN (fst x) dev_accept || compatible (kind_of (fst (snd x))) (type_of (snd (snd x)))) numbered = true.
Proof. vm_compute. reflexivity. Qed.
Lemma O_strict : forallb (fun x => memN (fst x) dev_strict || negb (validating (kind_of (fst (snd x)))) ||
                                   strict (kind_of (fst (snd x))) (type_of (snd (snd x)))) numbered = true.
Proof. vm_compute. reflexivity. Qed.
Lemma O_kinds : forallb kind_ok conv_kinds = true.
Proof. vm_compute. reflexivity. Qed.
Lemma O_no_prefix_patterns : forallb (fun k => match k with KPatPrefix _ => false | _ => true end) conv_kinds = true.
Proof. vm_compute. reflexivity. Qed.

Lemma kind_of_ok f : kind_ok (kind_of f) = true.
Proof.
  unfold kind_of. destruct f as [i|]; [|reflexivity]. pose proof O_kinds as O. rewrite forallb_forall in O.
  destruct (nth_in_or_default (N.to_nat i) conv_kinds KId) as [H|H]; [now apply O|now rewrite H].
Qed.

(* every (element, attribute) instance of the schema, recorded deviations apart *)
Theorem inst_accepts i f j s : In (i, (f, j)) numbered -> memN i dev_accept = false -> i_valid j s = true -> i_convert f s = COk s.
Proof.
  intros Hin Hd Hv. pose proof O_compatible as O. rewrite forallb_forall in O. specialize (O _ Hin). cbn [fst snd] in O. rewrite Hd in O.
  now apply (accepted_unchanged (kind_of f) (type_of j)).
Qed.
Theorem inst_idempotent f s v : i_convert f s = COk v -> i_convert f v = COk v.
Proof. apply convert_idempotent, kind_of_ok. Qed.
Theorem inst_rejects i f j s : In (i, (f, j)) numbered -> memN i dev_strict = false -> validating (kind_of f) = true ->
  i_valid j s = false -> i_convert f s = CValueError.
Proof.
  intros Hin Hd Hval Hv. pose proof O_strict as O. rewrite forallb_forall in O. specialize (O _ Hin). cbn [fst snd] in O. rewrite Hd, Hval in O.
  now apply (rejected_outside (kind_of f) (type_of j)).
Qed.
Example domain_size : (3000 <=? N.of_nat (List.length instances)) && (3300 <=? N.of_nat (List.length (filter (fun x => negb (memN (fst x) dev_accept)) numbered))) = true.
Proof. vm_compute. reflexivity. Qed.
