(* ParseSitesProofs.v — C13: obligations on the regenerated site table, and the members load() reads. *)
From Odf Require Import model.Base model.XmlLex model.XmlTree model.NsTable model.Package model.ParseSites gen.GenSites.

(* every XML parser construction site of the package is a defusedxml one *)
Lemma all_sites_guarded : forallb site_guarded parser_sites = true.
Proof. vm_compute. reflexivity. Qed.

(* every function an entry point parses in does have a site (the table is not vacuous) *)
Lemma entry_points_have_sites :
  forallb (fun e => forallb (fun f => existsb (site_in f) parser_sites) (ep_functions e))
          [EPLoad; EPManifest; EPUserField; EPXhtml; EPMoinMoin] = true.
Proof. vm_compute. reflexivity. Qed.

Lemma ep_sites_guarded e : forallb site_guarded (ep_sites parser_sites e) = true.
Proof.
  unfold ep_sites. apply forallb_forall. intros s Hs. apply filter_In in Hs as [Hs _].
  pose proof all_sites_guarded as H. rewrite forallb_forall in H. now apply H.
Qed.

(* load() parses the manifest, and every root part and every part of every object folder the manifest lists *)
Lemma parts_under_in m folder n : In n part_names -> in_manifest m (folder ++ n) = true -> In (folder ++ n) (parts_under m folder).
Proof.
  intros Hn Hm. unfold parts_under. apply filter_In. split; [|exact Hm].
  apply (in_map (fun x => folder ++ x)). exact Hn.
Qed.

Theorem load_reads_root foreign m n : In n part_names -> in_manifest m n = true -> In n (load_reads foreign m).
Proof.
  intros Hn Hm. unfold load_reads. right. apply in_or_app. left.
  apply (parts_under_in m [] n Hn Hm).
Qed.

Theorem load_reads_object foreign m p mtv n : In (p, mtv) m -> classify foreign m p = IsObject -> In n part_names ->
  in_manifest m (p ++ n) = true -> In (p ++ n) (load_reads foreign m).
Proof.
  intros Hin Hc Hn Hm. unfold load_reads. right. apply in_or_app. right.
  apply in_flat_map. exists (p, mtv). split; [exact Hin|]. cbn [fst]. rewrite Hc. now apply parts_under_in.
Qed.

Theorem load_reads_manifest foreign m : In sMANIFEST (load_reads foreign m).
Proof. now left. Qed.
