(* DocInst.v — the document layer for the tables of the working tree. *)
From Odf Require Import model.Base model.Chars model.XmlPrint model.XmlLex model.XmlTree model.Doc model.Inst
  gen.GenChars gen.GenNs gen.GenStyleRefs
  proofs.XmlPrintProofs proofs.XmlTokProofs proofs.XmlResolveProofs proofs.XmlRoundTrip proofs.XmlInst
  proofs.DocProofs proofs.AutoStylesProofs.

(* every style reference attribute of the ODF 1.2 schema is scanned *)
Lemma schema_refs_scanned : forallb (fun a => existsb (qname_eqb a) scanned_refattrs) schema_refattrs = true.
Proof. vm_compute. reflexivity. Qed.

(* the parts parse back to the trees they serialise *)
Theorem content_roundtrip env d : doc_ok F env (content_tree RA d) = true ->
  xml_parse (i_contentxml env d) = Some (canon F (content_tree RA d)).
Proof. intros H. unfold i_contentxml. rewrite contentxml_is_tree. unfold content_tree in *. now apply roundtrip_doc. Qed.

Theorem styles_roundtrip env d : doc_ok F env (styles_tree RA d) = true ->
  xml_parse (i_stylesxml env d) = Some (canon F (styles_tree RA d)).
Proof. intros H. unfold i_stylesxml. rewrite stylesxml_is_tree. unfold styles_tree in *. now apply roundtrip_doc. Qed.

Theorem meta_roundtrip env d : doc_ok F env (meta_tree toolsversion d) = true ->
  xml_parse (snd (i_metaxml env d)) = Some (canon F (meta_tree toolsversion d)).
Proof. intros H. unfold i_metaxml. rewrite metaxml_is_tree. unfold meta_tree in *. now apply roundtrip_doc. Qed.

Theorem settings_roundtrip env d : doc_ok F env (settings_tree d) = true ->
  xml_parse (i_settingsxml env d) = Some (canon F (settings_tree d)).
Proof. intros H. unfold i_settingsxml. rewrite settingsxml_is_tree. unfold settings_tree in *. now apply roundtrip_doc. Qed.

Theorem flat_roundtrip env d : doc_ok F env (topnode (norm_gen toolsversion d)) = true ->
  xml_parse (snd (i_flatxml env d)) = Some (canon F (topnode (norm_gen toolsversion d))).
Proof. intros H. unfold i_flatxml, flatxml. cbn [snd]. unfold topnode in *. now apply roundtrip_doc. Qed.
