(* RegexProofs.v — the derivative matcher decides the language of a regular expression. *)
From Coq Require Import Lia.
From Odf Require Import model.Base model.Regex.

Inductive Lang : re -> str -> Prop :=
  | L_eps : Lang Eps []
  | L_cls n rs c : in_cls n rs c = true -> Lang (Cls n rs) [c]
  | L_cat a b s1 s2 : Lang a s1 -> Lang b s2 -> Lang (Cat a b) (s1 ++ s2)
  | L_altl a b s : Lang a s -> Lang (Alt a b) s
  | L_altr a b s : Lang b s -> Lang (Alt a b) s
  | L_star0 a : Lang (Star a) []
  | L_star1 a s1 s2 : Lang a s1 -> Lang (Star a) s2 -> Lang (Star a) (s1 ++ s2).

Lemma nullable_spec r : nullable r = true <-> Lang r [].
Proof.
  induction r as [| |n rs|a IHa b IHb|a IHa b IHb|a IHa]; cbn [nullable].
  - split; [discriminate|intros H; inversion H].
  - split; [intros _; constructor|reflexivity].
  - split; [discriminate|intros H; inversion H].
  - rewrite andb_true_iff, IHa, IHb. split.
    + intros [H1 H2]. exact (L_cat a b [] [] H1 H2).
    + intros H. inversion H as [| |a' b' s1 s2 H1 H2 E1 E2| | | |]; subst. apply app_eq_nil in E2 as [-> ->]. auto.
  - rewrite orb_true_iff, IHa, IHb. split.
    + intros [H|H]; [now apply L_altl|now apply L_altr].
    + intros H. inversion H; subst; auto.
  - split; [intros _; constructor|reflexivity].
Qed.

(* a non-empty word of a star starts with a non-empty word of the body *)
Lemma star_cons a c s : Lang (Star a) (c :: s) -> exists s1 s2, s = s1 ++ s2 /\ Lang a (c :: s1) /\ Lang (Star a) s2.
Proof.
  intros H. remember (Star a) as r eqn:Er. remember (c :: s) as w eqn:Ew. revert c s Ew.
  induction H as [| | | | | a'|a' s1 s2 H1 _ H2 IH2]; try discriminate; intros c s Ew.
  injection Er as ->. destruct s1 as [|x s1'].
  - cbn [app] in Ew. now apply IH2.
  - cbn [app] in Ew. injection Ew as E1 E2. subst. exists s1', s2. auto.
Qed.

Lemma deriv_spec r : forall c s, Lang (deriv c r) s <-> Lang r (c :: s).
Proof.
  induction r as [| |n rs|a IHa b IHb|a IHa b IHb|a IHa]; intros c s; cbn [deriv].
  - split; intros H; inversion H.
  - split; intros H; inversion H.
  - destruct (in_cls n rs c) eqn:E.
    + split; intros H; inversion H; subst; [now constructor|constructor].
    + split; intros H; inversion H; subst. congruence.
  - destruct (nullable a) eqn:Na.
    + split.
      * intros H. inversion H as [| | |a' b' s' H1| a' b' s' H1| |]; subst.
        -- inversion H1 as [| |a' b' s1 s2 Ha Hb| | | |]; subst. apply IHa in Ha. exact (L_cat a b (c :: s1) s2 Ha Hb).
        -- apply IHb in H1. apply nullable_spec in Na. exact (L_cat a b [] (c :: s) Na H1).
      * intros H. inversion H as [| |a' b' s1 s2 Ha Hb E1 E2| | | |]; subst. destruct s1 as [|x s1'].
        -- cbn [app] in E2. subst s2. apply L_altr. now apply IHb.
        -- cbn [app] in E2. injection E2 as E3 E4. subst. apply L_altl. apply L_cat; [now apply IHa|exact Hb].
    + split.
      * intros H. inversion H as [| |a' b' s1 s2 Ha Hb| | | |]; subst. apply IHa in Ha. exact (L_cat a b (c :: s1) s2 Ha Hb).
      * intros H. inversion H as [| |a' b' s1 s2 Ha Hb E1 E2| | | |]; subst. destruct s1 as [|x s1'].
        -- apply nullable_spec in Ha. congruence.
        -- cbn [app] in E2. injection E2 as E3 E4. subst. apply L_cat; [now apply IHa|exact Hb].
  - split.
    + intros H. inversion H; subst; [apply L_altl; now apply IHa|apply L_altr; now apply IHb].
    + intros H. inversion H; subst; [apply L_altl; now apply IHa|apply L_altr; now apply IHb].
  - split.
    + intros H. inversion H as [| |a' b' s1 s2 Ha Hb| | | |]; subst. apply IHa in Ha. exact (L_star1 a (c :: s1) s2 Ha Hb).
    + intros H. apply star_cons in H as (s1 & s2 & -> & H1 & H2). apply L_cat; [now apply IHa|exact H2].
Qed.

Lemma cat_emp_l b s : Lang (Cat Emp b) s <-> Lang Emp s.
Proof. split; intros H; inversion H as [| |a' b' s1 s2 Ha Hb| | | |]; subst; inversion Ha. Qed.
Lemma cat_emp_r a s : Lang (Cat a Emp) s <-> Lang Emp s.
Proof. split; intros H; inversion H as [| |a' b' s1 s2 Ha Hb| | | |]; subst; inversion Hb. Qed.
Lemma cat_eps_l b s : Lang (Cat Eps b) s <-> Lang b s.
Proof. split; [intros H; inversion H as [| |a' b' s1 s2 Ha Hb| | | |]; subst; inversion Ha; subst; exact Hb|intros H; exact (L_cat _ _ [] s L_eps H)]. Qed.
Lemma cat_eps_r a s : Lang (Cat a Eps) s <-> Lang a s.
Proof.
  split; [intros H; inversion H as [| |a' b' s1 s2 Ha Hb| | | |]; subst; inversion Hb; subst; now rewrite app_nil_r|].
  intros H. rewrite <- (app_nil_r s). exact (L_cat _ _ s [] H L_eps).
Qed.
Lemma alt_emp_l b s : Lang (Alt Emp b) s <-> Lang b s.
Proof. split; [intros H; inversion H as [| | |a' b' s' H1|a' b' s' H1| |]; subst; [inversion H1|exact H1]|intros H; now apply L_altr]. Qed.
Lemma alt_emp_r a s : Lang (Alt a Emp) s <-> Lang a s.
Proof. split; [intros H; inversion H as [| | |a' b' s' H1|a' b' s' H1| |]; subst; [exact H1|inversion H1]|intros H; now apply L_altl]. Qed.

Lemma simp_spec r : forall s, Lang (simp r) s <-> Lang r s.
Proof.
  induction r as [| |n rs|a IHa b IHb|a IHa b IHb|a IHa]; intros s; cbn [simp]; try apply iff_refl.
  - (* Cat *)
    assert (G : Lang (Cat (simp a) (simp b)) s <-> Lang (Cat a b) s).
    { split; intros H; inversion H as [| |a' b' s1 s2 Ha Hb| | | |]; subst; apply L_cat; (apply IHa || apply IHb); assumption. }
    rewrite <- G. clear G IHa IHb.
    destruct (simp a) as [| |n1 r1|a1 a2|a1 a2|a1]; destruct (simp b) as [| |n2 r2|b1 b2|b1 b2|b1]; symmetry;
      first [apply cat_emp_l|apply cat_emp_r|apply cat_eps_l|apply cat_eps_r|apply iff_refl].
  - (* Alt *)
    assert (G : Lang (Alt (simp a) (simp b)) s <-> Lang (Alt a b) s).
    { split; intros H; inversion H; subst; [apply L_altl; now apply IHa|apply L_altr; now apply IHb|apply L_altl; now apply IHa|apply L_altr; now apply IHb]. }
    rewrite <- G. clear G IHa IHb.
    destruct (simp a) as [| |n1 r1|a1 a2|a1 a2|a1]; destruct (simp b) as [| |n2 r2|b1 b2|b1 b2|b1]; symmetry;
      first [apply alt_emp_l|apply alt_emp_r|apply iff_refl].
Qed.

Theorem matches_spec s : forall r, matches r s = true <-> Lang r s.
Proof.
  unfold matches. induction s as [|c s IH]; intros r; cbn [fold_left].
  - apply nullable_spec.
  - rewrite IH, simp_spec. apply deriv_spec.
Qed.

(* ---- a sufficient inclusion test: equal, or the larger one only adds an optional prefix ---- *)
Fixpoint re_eqb (a b : re) : bool :=
  match a, b with
  | Emp, Emp | Eps, Eps => true
  | Cls n1 r1, Cls n2 r2 => Bool.eqb n1 n2 && (fix go (x y : list (N * N)) : bool :=
       match x, y with [], [] => true | (a1, b1) :: x', (a2, b2) :: y' => (a1 =? a2) && (b1 =? b2) && go x' y' | _, _ => false end) r1 r2
  | Cat a1 a2, Cat b1 b2 | Alt a1 a2, Alt b1 b2 => re_eqb a1 b1 && re_eqb a2 b2
  | Star a1, Star b1 => re_eqb a1 b1
  | _, _ => false
  end.
Lemma re_eqb_eq a : forall b, re_eqb a b = true -> a = b.
Proof.
  induction a as [| |n rs|a1 IH1 a2 IH2|a1 IH1 a2 IH2|a1 IH1]; intros [| |n2 rs2|b1 b2|b1 b2|b1]; cbn [re_eqb]; try discriminate; try reflexivity.
  - intros H. apply andb_prop in H as [H1 H2]. apply Bool.eqb_prop in H1. subst. f_equal.
    revert rs2 H2. induction rs as [|[x1 y1] rs IH]; intros [|[x2 y2] rs2]; try discriminate; [reflexivity|].
    intros H. apply andb_prop in H as [H H3]. apply andb_prop in H as [H1 H2]. apply N.eqb_eq in H1, H2. subst. f_equal. now apply IH.
  - intros H. apply andb_prop in H as [H1 H2]. now rewrite (IH1 _ H1), (IH2 _ H2).
  - intros H. apply andb_prop in H as [H1 H2]. now rewrite (IH1 _ H1), (IH2 _ H2).
  - intros H. now rewrite (IH1 _ H).
Qed.
Definition re_sub (q p : re) : bool :=
  re_eqb q p || match p with Cat (Alt _ Eps) b => re_eqb q b | _ => false end.
Theorem re_sub_sound q p s : re_sub q p = true -> matches q s = true -> matches p s = true.
Proof.
  unfold re_sub. intros H M. apply orb_prop in H as [H|H].
  - apply re_eqb_eq in H. now subst.
  - destruct p as [| | |[| | | |x [| | | | |]|] b| |]; try discriminate. apply re_eqb_eq in H. subst q.
    apply matches_spec. apply matches_spec in M. exact (L_cat _ _ [] s (L_altr _ _ _ L_eps) M).
Qed.
