(* ConvProofs.v — C15: schema-valid attribute values are accepted and kept; converting again changes nothing; the
   validating converters reject everything outside their type. *)
From Coq Require Import Lia.
From Odf Require Import model.Base model.Regex model.Convert proofs.XmlBuildProofs proofs.XmlResolveProofs proofs.RegexProofs.

Definition sFALSE := s2l "false".
Definition sTRUE := s2l "true".
Definition bool_val_ok (fs ts : list str) (v : str) : bool :=
  (str_eqb v sFALSE && in_strs (map lower v) fs) || (str_eqb v sTRUE && in_strs (map lower v) ts && negb (in_strs (map lower v) fs)).
Definition only_colon_space (cs : list N) : bool := forallb (fun c => (c =? 58) || (c =? 32)) cs.

(* a sufficient condition for "every value of the lexical space t is accepted and kept by k" *)
Fixpoint compatible (k : ckind) (t : stype) : bool :=
  match t with
  | SChoice a b => compatible k a && compatible k b
  | _ => match k, t with
         | KId, _ => true
         | KBool fs ts, SValues l => forallb (bool_val_ok fs ts) l
         | KEnum al, SValues l => forallb (fun v => in_strs v al) l
         | KPat p, SPat q => re_sub q p
         | KPat p, SValues l => forallb (matches p) l
         | KUnion p q, SPat x => re_sub x p || re_sub x q
         | KUnion p q, SValues l => forallb (fun v => matches p v || matches q v) l
         | KMangle cs, SNoColonSpace => only_colon_space cs
         | KMangle cs, SValues l => forallb (fun v => forallb (fun c => negb (existsb (N.eqb c) cs)) v) l
         | _, _ => false
         end
  end.

Lemma in_strs_In x l : in_strs x l = true <-> In x l.
Proof.
  unfold in_strs. rewrite existsb_exists. split.
  - intros [y [Hy E]]. apply str_eqb_eq in E. now subst.
  - intros H. exists x. split; [exact H|apply str_eqb_refl].
Qed.

Lemma mangle_id cs s : forallb (fun c => negb (existsb (N.eqb c) cs)) s = true -> mangle cs s = s.
Proof.
  induction s as [|c r IH]; cbn [forallb mangle flat_map]; intros H; [reflexivity|]. apply andb_prop in H as [H1 H2].
  apply Bool.negb_true_iff in H1. rewrite H1. cbn [app]. f_equal. now apply IH.
Qed.
Lemma no_colon_space_free cs s : only_colon_space cs = true -> no_colon_space s = true -> forallb (fun c => negb (existsb (N.eqb c) cs)) s = true.
Proof.
  intros Hc Hs. unfold no_colon_space in Hs. rewrite forallb_forall in *. intros c Hin. specialize (Hs c Hin).
  apply Bool.negb_true_iff. apply Bool.negb_true_iff in Hs. destruct (existsb (N.eqb c) cs) eqn:E; [|reflexivity].
  apply existsb_exists in E as [x [Hx Ex]]. apply N.eqb_eq in Ex. subst x. unfold only_colon_space in Hc. rewrite forallb_forall in Hc. now rewrite (Hc c Hx) in Hs.
Qed.

(* (A) a value of the schema's lexical space is accepted and stored as it is *)
Theorem accepted_unchanged k t s : compatible k t = true -> s_valid t s = true -> convert k s = COk s.
Proof.
  revert k. induction t as [|l|q| |a IHa b IHb]; intros k Hc Hv.
  - destruct k; try discriminate. reflexivity.
  - cbn [s_valid] in Hv. apply in_strs_In in Hv. destruct k as [|fs ts|al|p|p|p q|cs]; cbn [compatible] in Hc; try discriminate; try reflexivity.
    + rewrite forallb_forall in Hc. specialize (Hc s Hv). unfold bool_val_ok in Hc. cbn [convert]. apply orb_prop in Hc as [H|H].
      * apply andb_prop in H as [H1 H2]. apply str_eqb_eq in H1. rewrite H2. now subst.
      * apply andb_prop in H as [H H3]. apply andb_prop in H as [H1 H2]. apply str_eqb_eq in H1. apply Bool.negb_true_iff in H3. rewrite H3, H2. now subst.
    + rewrite forallb_forall in Hc. cbn [convert]. now rewrite (Hc s Hv).
    + rewrite forallb_forall in Hc. cbn [convert]. now rewrite (Hc s Hv).
    + rewrite forallb_forall in Hc. cbn [convert]. now rewrite (Hc s Hv).
    + rewrite forallb_forall in Hc. cbn [convert]. now rewrite (mangle_id cs s (Hc s Hv)).
  - cbn [s_valid] in Hv. destruct k as [|fs ts|al|p|p|p x|cs]; cbn [compatible] in Hc; try discriminate; try reflexivity.
    + cbn [convert]. now rewrite (re_sub_sound q p s Hc Hv).
    + cbn [convert]. apply orb_prop in Hc as [H|H]; [rewrite (re_sub_sound q p s H Hv)|rewrite (re_sub_sound q x s H Hv), orb_true_r]; reflexivity.
  - cbn [s_valid] in Hv. destruct k as [|fs ts|al|p|p|p q|cs]; cbn [compatible] in Hc; try discriminate; try reflexivity.
    cbn [convert]. now rewrite (mangle_id cs s (no_colon_space_free cs s Hc Hv)).
  - cbn [s_valid] in Hv. assert (Hc' : compatible k a = true /\ compatible k b = true).
    { destruct k; cbn [compatible] in Hc; apply andb_prop in Hc; exact Hc. }
    destruct Hc' as [Ca Cb]. apply orb_prop in Hv as [H|H]; [now apply IHa|now apply IHb].
Qed.

(* (B) converting a stored value again is a no-op *)
Definition kind_ok (k : ckind) : bool :=
  match k with
  | KBool fs ts => in_strs sFALSE fs && in_strs sTRUE ts && negb (in_strs sTRUE fs)
  | KMangle cs => only_colon_space cs
  | _ => true
  end.
Lemma hexdigit_plain d : d < 16 -> (hexdigit d =? 58) = false /\ (hexdigit d =? 32) = false.
Proof. intros H. unfold hexdigit. destruct (d <? 10) eqn:E; [apply N.ltb_lt in E|apply N.ltb_ge in E]; split; apply N.eqb_neq; lia. Qed.
Lemma hex_go_plain fuel : forall n acc, forallb (fun c => negb ((c =? 58) || (c =? 32))) acc = true ->
  forallb (fun c => negb ((c =? 58) || (c =? 32))) (hex_go fuel n acc) = true.
Proof.
  induction fuel as [|f IH]; intros n acc Ha; [exact Ha|]. cbn [hex_go].
  assert (Hd : forallb (fun c => negb ((c =? 58) || (c =? 32))) (hexdigit (n mod 16) :: acc) = true).
  { cbn [forallb]. destruct (hexdigit_plain (n mod 16)) as [A B]; [apply N.mod_lt; lia|]. now rewrite A, B, Ha. }
  destruct (n / 16 =? 0); [exact Hd|now apply IH].
Qed.
Lemma mangle_plain cs s : only_colon_space cs = true -> forallb (fun c => negb (existsb (N.eqb c) cs)) (mangle cs s) = true.
Proof.
  intros Hc. assert (P : forall l, forallb (fun c => negb ((c =? 58) || (c =? 32))) l = true -> forallb (fun c => negb (existsb (N.eqb c) cs)) l = true).
  { intros l Hl. now apply no_colon_space_free. }
  induction s as [|c r IH]; [reflexivity|]. cbn [mangle flat_map]. rewrite forallb_app. fold (mangle cs r). rewrite IH, andb_true_r.
  destruct (existsb (N.eqb c) cs) eqn:E.
  - apply P. cbn [forallb]. rewrite forallb_app. cbn [forallb]. unfold hex. rewrite hex_go_plain by reflexivity. reflexivity.
  - cbn [forallb]. now rewrite E.
Qed.

Theorem convert_idempotent k s v : kind_ok k = true -> convert k s = COk v -> convert k v = COk v.
Proof.
  intros Hk. destruct k as [|fs ts|al|p|p|p q|cs]; cbn [convert kind_ok] in *.
  - intros H. injection H as <-. reflexivity.
  - apply andb_prop in Hk as [Hk H3]. apply andb_prop in Hk as [H1 H2]. apply Bool.negb_true_iff in H3.
    destruct (in_strs (map lower s) fs); [intros H; injection H as <-; change (map lower (s2l "false")) with sFALSE; now rewrite H1|].
    destruct (in_strs (map lower s) ts); [|discriminate]. intros H. injection H as <-. change (map lower (s2l "true")) with sTRUE. now rewrite H3, H2.
  - destruct (in_strs s al) eqn:E; [|discriminate]. intros H. injection H as <-. now rewrite E.
  - destruct (matches p s) eqn:E; [|discriminate]. intros H. injection H as <-. now rewrite E.
  - destruct (prefix_matches p s) eqn:E; [|discriminate]. intros H. injection H as <-. now rewrite E.
  - destruct (matches p s || matches q s) eqn:E; [|discriminate]. intros H. injection H as <-. now rewrite E.
  - intros H. injection H as <-. now rewrite (mangle_id cs _ (mangle_plain cs s Hk)).
Qed.

(* (C) a validating converter accepts nothing outside its own lexical space, and that space is the schema's *)
Definition strict (k : ckind) (t : stype) : bool :=
  match k, t with
  | KEnum al, SValues l => forallb (fun v => in_strs v l) al
  | KPat p, SPat q => re_eqb p q
  | KUnion p q, SChoice (SPat x) (SPat y) => (re_eqb p x && re_eqb q y) || (re_eqb p y && re_eqb q x)
  | _, _ => false
  end.
Theorem rejected_outside k t s : strict k t = true -> s_valid t s = false -> convert k s = CValueError.
Proof.
  destruct k as [|fs ts|al|p|p|p q|cs], t as [|l|x| |a b]; cbn [strict]; try discriminate; intros Hs Hv; cbn [s_valid convert] in *.
  - destruct (in_strs s al) eqn:E; [|reflexivity]. apply in_strs_In in E. rewrite forallb_forall in Hs. specialize (Hs s E). congruence.
  - apply re_eqb_eq in Hs. subst. now rewrite Hv.
  - destruct a as [|?|x|?|? ?]; try discriminate. destruct b as [|?|y|?|? ?]; try discriminate. cbn [s_valid] in Hv.
    apply orb_false_elim in Hv as [V1 V2]. apply orb_prop in Hs as [H|H]; apply andb_prop in H as [H1 H2]; apply re_eqb_eq in H1, H2; subst; now rewrite ?V1, ?V2.
Qed.
