(* LoadStylesInst.v — obligations on the regenerated tables: the loader redirects exactly the references that,
   by the specification, can name a style:style. *)
From Odf Require Import model.Base model.XmlTree model.Doc model.LoadStyles gen.GenStyleRefs proofs.XmlResolveProofs.

(* every schema reference attribute that can name a style:style is consulted and not excluded *)
Lemma style_refs_redirected :
  forallb (fun a => qmem a spec_other_kind || (qmem a scanned_refattrs && negb (qmem a redirect_excluded))) schema_refattrs = true.
Proof. vm_compute. reflexivity. Qed.

(* the attributes that name something else are left alone, on every element *)
Lemma other_refs_left_alone : forallb (fun a => qmem a redirect_excluded || negb (qmem a scanned_refattrs)) spec_other_kind = true.
Proof. vm_compute. reflexivity. Qed.

(* the element-specific exceptions agree both ways *)
Lemma exceptions_agree :
  forallb (fun p => existsb (fun q => qname_eqb (fst p) (fst q) && qname_eqb (snd p) (snd q)) redirect_excluded_on) spec_other_kind_on = true /\
  forallb (fun p => existsb (fun q => qname_eqb (fst p) (fst q) && qname_eqb (snd p) (snd q)) spec_other_kind_on) redirect_excluded_on = true /\
  forallb (fun a => qmem a spec_other_kind) redirect_excluded = true.
Proof. vm_compute. repeat split. Qed.

(* hence: attribute a (of the schema's reference attributes) on element el is redirected iff, by the specification,
   it can name a style:style there - for every element name el *)
Definition on_match (el a : qname) (p : qname * qname) : bool := qname_eqb (fst p) el && qname_eqb (snd p) a.
Lemma on_match_In el a l : existsb (on_match el a) l = true <-> In (el, a) l.
Proof.
  rewrite existsb_exists. split.
  - intros [[e b] [Hin Hm]]. unfold on_match in Hm. cbn [fst snd] in Hm. apply andb_prop in Hm as [H1 H2].
    apply XmlResolveProofs.qname_eqb_eq in H1, H2. now subst.
  - intros Hin. exists (el, a). split; [exact Hin|]. unfold on_match. cbn [fst snd].
    rewrite (proj2 (XmlResolveProofs.qname_eqb_eq el el) eq_refl), (proj2 (XmlResolveProofs.qname_eqb_eq a a) eq_refl). reflexivity.
Qed.
Lemma pair_incl (l1 l2 : list (qname * qname)) :
  forallb (fun p => existsb (fun q => qname_eqb (fst p) (fst q) && qname_eqb (snd p) (snd q)) l2) l1 = true -> incl l1 l2.
Proof.
  intros H [e b] Hin. rewrite forallb_forall in H. specialize (H _ Hin). apply existsb_exists in H as [[e2 b2] [Hin2 Hm]].
  cbn [fst snd] in Hm. apply andb_prop in Hm as [H1 H2]. apply XmlResolveProofs.qname_eqb_eq in H1, H2. now subst.
Qed.
Lemma table_pointwise :
  forallb (fun a => Bool.eqb (qmem a scanned_refattrs && negb (qmem a redirect_excluded)) (negb (qmem a spec_other_kind))) schema_refattrs = true.
Proof. vm_compute. reflexivity. Qed.

Theorem redirected_iff_spec el a : In a schema_refattrs ->
  is_redirected scanned_refattrs redirect_excluded redirect_excluded_on el a = spec_style_ref schema_refattrs el a.
Proof.
  intros Hin. unfold is_redirected, spec_style_ref.
  assert (Hs : qmem a schema_refattrs = true).
  { unfold qmem. apply existsb_exists. exists a. split; [exact Hin|]. now apply XmlResolveProofs.qname_eqb_eq. }
  rewrite Hs. cbn [andb].
  pose proof table_pointwise as T. rewrite forallb_forall in T. specialize (T a Hin). apply Bool.eqb_prop in T. rewrite T. f_equal. f_equal.
  fold (on_match el a).
  destruct exceptions_agree as [A1 [A2 _]]. apply pair_incl in A1, A2.
  destruct (existsb (on_match el a) redirect_excluded_on) eqn:E1, (existsb (on_match el a) spec_other_kind_on) eqn:E2; try reflexivity.
  - apply on_match_In in E1. apply A2 in E1. apply on_match_In in E1. congruence.
  - apply on_match_In in E2. apply A1 in E2. apply on_match_In in E2. congruence.
Qed.
