(* XmlResolveProofs.v — namespace resolution of the raw tree gives back the
   canonical tree (last quarter of the round trip), and the round-trip theorem. *)
From Coq Require Import Lia.
From Odf Require Import model.Base model.Chars model.XmlPrint model.XmlLex model.XmlTree
  proofs.XmlPrintProofs proofs.XmlLexProofs proofs.XmlTokProofs proofs.XmlBuildProofs.

Lemma str_eqb_eq a b : str_eqb a b = true <-> a = b.
Proof.
  revert b. induction a as [|x a IH]; intros [|y b]; cbn; split; try discriminate; try reflexivity.
  - intros H. apply andb_true_iff in H as [H1 H2]. apply N.eqb_eq in H1. apply IH in H2. now subst.
  - intros H. injection H as -> ->. rewrite N.eqb_refl. now apply IH.
Qed.
Lemma str_eqb_neq a b : str_eqb a b = false <-> a <> b.
Proof.
  split; intros H.
  - intros E. apply str_eqb_eq in E. congruence.
  - destruct (str_eqb a b) eqn:E; [apply str_eqb_eq in E; contradiction|reflexivity].
Qed.
Lemma qname_eqb_eq a b : qname_eqb a b = true <-> a = b.
Proof.
  destruct a as [a1 a2], b as [b1 b2]. unfold qname_eqb. cbn [fst snd]. rewrite andb_true_iff, !str_eqb_eq.
  split; [intros [-> ->]; reflexivity|intros H; injection H as -> ->; split; reflexivity].
Qed.

(* nodup_by with a reflecting equality test is NoDup *)
Lemma nodup_by_NoDup {A} (eqb : A -> A -> bool) (l : list A) :
  (forall x y, eqb x y = true <-> x = y) -> (nodup_by eqb l = true <-> NoDup l).
Proof.
  intros Hr. induction l as [|x l IH]; cbn [nodup_by].
  - split; [constructor|reflexivity].
  - rewrite andb_true_iff, IH, negb_true_iff. split.
    + intros [H1 H2]. constructor; [|exact H2]. intros Hin.
      assert (existsb (eqb x) l = true) by (apply existsb_exists; exists x; split; [exact Hin|now apply Hr]).
      congruence.
    + intros H. inversion H as [|? ? Hn Hd]; subst. split; [|exact Hd].
      destruct (existsb (eqb x) l) eqn:E; [|reflexivity].
      apply existsb_exists in E as [y [Hy Hxy]]. apply Hr in Hxy. subst. contradiction.
Qed.

Lemma NoDup_app_intro {A} (a b : list A) :
  NoDup a -> NoDup b -> (forall x, In x a -> In x b -> False) -> NoDup (a ++ b).
Proof.
  induction a as [|x a IH]; intros Ha Hb Hd; [exact Hb|].
  inversion Ha as [|? ? Hn Ha']; subst. cbn. constructor.
  - intros Hin. apply in_app_or in Hin as [Hin|Hin]; [contradiction|]. apply (Hd x); [now left|exact Hin].
  - apply IH; try assumption. intros y H1 H2. apply (Hd y); [now right|exact H2].
Qed.

Lemma NoDup_map_inj {A B} (f : A -> B) (l : list A) :
  (forall x y, In x l -> In y l -> f x = f y -> x = y) -> NoDup l -> NoDup (map f l).
Proof.
  induction l as [|x l IH]; intros Hinj Hd; [constructor|].
  inversion Hd as [|? ? Hn Hd']; subst. cbn. constructor.
  - intros Hin. apply in_map_iff in Hin as [y [Hy Hin]].
    assert (y = x) by (apply Hinj; [now right|now left|exact Hy]). subst. contradiction.
  - apply IH; [|exact Hd']. intros a b Ha Hb. apply Hinj; now right.
Qed.

(* ---------------- colons ---------------- *)
Definition no_colon (s : str) : bool := negb (mem_cp cCOLON s).

Lemma ncname_no_colon s : is_ncname s = true -> no_colon s = true.
Proof.
  destruct s as [|c r]; [discriminate|]. cbn [is_ncname]. intros H. apply andb_true_iff in H as [H1 H2].
  unfold no_colon. apply negb_true_iff. cbn [mem_cp]. apply orb_false_iff. split.
  - apply N.eqb_neq. intros ->. vm_compute in H1. discriminate.
  - induction r as [|x r IH]; [reflexivity|]. cbn [forallb] in H2. apply andb_true_iff in H2 as [H2 H3].
    cbn [mem_cp]. apply orb_false_iff. split; [|now apply IH].
    apply N.eqb_neq. intros ->. vm_compute in H2. discriminate.
Qed.

Lemma split_colon_app p l : no_colon p = true -> forall acc,
  split_colon (p ++ cCOLON :: l) acc = (Some (acc ++ p), l).
Proof.
  unfold no_colon. induction p as [|c p IH]; intros H acc.
  - cbn. now rewrite app_nil_r.
  - apply negb_true_iff in H. cbn [mem_cp] in H. apply orb_false_iff in H as [H1 H2].
    cbn [app split_colon]. rewrite H1. rewrite IH by now apply negb_true_iff.
    now rewrite <- app_assoc.
Qed.

Lemma split_colon_none s : no_colon s = true -> forall acc, split_colon s acc = (None, acc ++ s).
Proof.
  unfold no_colon. induction s as [|c s IH]; intros H acc.
  - cbn. now rewrite app_nil_r.
  - apply negb_true_iff in H. cbn [mem_cp] in H. apply orb_false_iff in H as [H1 H2].
    cbn [split_colon]. rewrite H1, IH by now apply negb_true_iff. now rewrite <- app_assoc.
Qed.

Fixpoint resolve_list (e : nsbinds) (ks : list raw) : option (list node) :=
  match ks with
  | [] => Some []
  | k :: r => match resolve e k, resolve_list e r with
              | Some k', Some r' => Some (k' :: r')
              | _, _ => None
              end
  end.

Lemma resolve_elem_unfold e n atts kids :
  resolve e (RElem n atts kids) =
  match ns_decls atts with
  | None => None
  | Some ds =>
      let e' := ds ++ e in
      if negb (nodup_by str_eqb (map fst atts)) then None else
      match resolve_elem_name e' n, resolve_atts e' atts with
      | Some q, Some qa =>
          if negb (nodup_by qname_eqb (map fst qa)) then None else
          match resolve_list e' kids with
          | Some ks => Some (Elem q qa ks)
          | None => None
          end
      | _, _ => None
      end
  end.
Proof.
  cbn [resolve]. destruct (ns_decls atts) as [ds|]; [|reflexivity]. cbn zeta.
  destruct (negb (nodup_by str_eqb (map fst atts))); [reflexivity|].
  destruct (resolve_elem_name (ds ++ e) n) as [q|]; [|reflexivity].
  destruct (resolve_atts (ds ++ e) atts) as [qa|]; [|reflexivity].
  destruct (negb (nodup_by qname_eqb (map fst qa))); [reflexivity|].
  assert (H : forall l, (fix go (ks : list raw) : option (list node) :=
                 match ks with
                 | [] => Some []
                 | k :: r => match resolve (ds ++ e) k, go r with
                             | Some k', Some r' => Some (k' :: r')
                             | _, _ => None
                             end
                 end) l = resolve_list (ds ++ e) l).
  { induction l as [|k l IH]; [reflexivity|]. cbn [resolve_list]. now rewrite <- IH. }
  now rewrite H.
Qed.

Lemma resolve_list_app e a b :
  resolve_list e (a ++ b) =
  match resolve_list e a, resolve_list e b with
  | Some a', Some b' => Some (a' ++ b')
  | _, _ => None
  end.
Proof.
  induction a as [|x a IH]; cbn [app resolve_list].
  - destruct (resolve_list e b); reflexivity.
  - rewrite IH. destruct (resolve e x); [|reflexivity].
    destruct (resolve_list e a); [|reflexivity]. destruct (resolve_list e b); reflexivity.
Qed.

(* ---------------- merge_text ---------------- *)
Lemma merge_text_nil_text R : merge_text (TextN [] :: R) = merge_text R.
Proof. cbn [merge_text]. destruct (merge_text R) as [|[q a k|b|b] R']; reflexivity. Qed.

Lemma merge_text_join a b R :
  merge_text (TextN a :: TextN b :: R) = merge_text (TextN (a ++ b) :: R).
Proof.
  cbn [merge_text]. destruct (merge_text R) as [|[q at' k|c|c] R'].
  - destruct b; [now rewrite app_nil_r|]. destruct a; reflexivity.
  - destruct b; [now rewrite app_nil_r|]. destruct a; reflexivity.
  - now rewrite app_assoc.
  - destruct b; [now rewrite app_nil_r|]. destruct a; reflexivity.
Qed.

Section Resolve.
Variable filtered : list (N * N).
Variable env : nsenv.
Notation canon_str := (handle_unrepresentable filtered).
Notation raw_att := (raw_att filtered env).
Notation qname_ok := (qname_ok env).
Notation canon := (canon filtered).

Definition swap (e : str * str) : str * str := (snd e, fst e).
Definition renv : nsbinds := map swap env ++ init_env.

Definition entry_ok2 (e : str * str) : bool :=
  is_ncname (snd e) && negb (str_eqb (snd e) sXMLNS) && negb (str_eqb (fst e) []).
Definition env_ok2 : bool := forallb entry_ok2 env && nodup_by str_eqb (map snd env).

Hypothesis Henv : env_ok2 = true.

Lemma env_nodup : NoDup (map snd env).
Proof.
  unfold env_ok2 in Henv. apply andb_true_iff in Henv as [_ H].
  apply (nodup_by_NoDup str_eqb); [apply str_eqb_eq|exact H].
Qed.

Lemma env_entry e : In e env -> is_ncname (snd e) = true /\ snd e <> sXMLNS /\ fst e <> [].
Proof.
  unfold env_ok2 in Henv. apply andb_true_iff in Henv as [H _]. rewrite forallb_forall in H.
  intros Hin. specialize (H e Hin). unfold entry_ok2 in H.
  apply andb_true_iff in H as [H H3]. apply andb_true_iff in H as [H1 H2].
  apply negb_true_iff in H2, H3. apply str_eqb_neq in H2, H3. auto.
Qed.

Lemma lookup_in k l v : lookup_str k l = Some v -> In (k, v) l.
Proof.
  induction l as [|[a b] l IH]; [discriminate|]. cbn [lookup_str].
  destruct (str_eqb a k) eqn:E.
  - intros H. injection H as ->. apply str_eqb_eq in E. subst. now left.
  - intros H. right. now apply IH.
Qed.

Lemma lookup_app k a b : lookup_str k (a ++ b) = match lookup_str k a with Some v => Some v | None => lookup_str k b end.
Proof.
  induction a as [|[x y] a IH]; [reflexivity|]. cbn [app lookup_str]. destruct (str_eqb x k); [reflexivity|exact IH].
Qed.

Lemma lookup_swap_gen l : NoDup (map snd l) -> forall ns p,
  lookup_str ns l = Some p -> lookup_str p (map swap l) = Some ns.
Proof.
  induction l as [|[ns0 p0] l IH]; intros Hd ns p H; [discriminate|].
  cbn [map snd] in Hd. inversion Hd as [|? ? Hn Hd']; subst.
  cbn [lookup_str] in H. cbn [map swap fst snd lookup_str].
  destruct (str_eqb ns0 ns) eqn:E1.
  - injection H as ->. apply str_eqb_eq in E1. subst. now rewrite str_eqb_refl.
  - destruct (str_eqb p0 p) eqn:E2.
    + apply str_eqb_eq in E2. subst p0. exfalso. apply Hn.
      apply lookup_in in H. apply in_map_iff. exists (ns, p). split; [reflexivity|exact H].
    + now apply IH.
Qed.

Lemma lookup_renv ns p : lookup_str ns env = Some p -> lookup_str p renv = Some ns.
Proof.
  intros H. unfold renv. rewrite lookup_app, (lookup_swap_gen env env_nodup ns p H). reflexivity.
Qed.

Lemma lookup_default_none : lookup_str [] renv = None.
Proof.
  unfold renv. rewrite lookup_app.
  assert (H : forall l, (forall e, In e l -> In e env) -> lookup_str [] (map swap l) = None).
  { induction l as [|[ns p] l IH]; intros Hl; [reflexivity|].
    cbn [map swap fst snd lookup_str].
    destruct (env_entry (ns, p) (Hl _ (or_introl eq_refl))) as (Hp & _ & _). cbn [snd] in Hp.
    destruct p as [|c p']; [discriminate|]. cbn [str_eqb]. apply IH. intros e He. apply Hl. now right. }
  rewrite (H env (fun e He => He)). reflexivity.
Qed.

Lemma split_tag q : qname_ok q = true ->
  exists po, split_colon (tag_of env q) [] = (po, snd q) /\ po <> Some sXMLNS.
Proof.
  intros H. destruct (tag_cases env q H) as [(E & -> & Hn & _)|(_ & p & Hl & Hp & -> & Hn)].
  - exists None. split; [|discriminate]. now rewrite split_colon_none by now apply ncname_no_colon.
  - exists (Some p). split.
    + now rewrite split_colon_app by now apply ncname_no_colon.
    + apply lookup_in in Hl. destruct (env_entry _ Hl) as (_ & Hx & _). cbn [snd] in Hx. congruence.
Qed.

Lemma resolve_att_tag q : qname_ok q = true -> resolve_att_name renv (tag_of env q) = Some q.
Proof.
  intros H. destruct (tag_cases env q H) as [(E & -> & Hn & _)|(_ & p & Hl & Hp & -> & Hn)].
  - unfold resolve_att_name. rewrite split_colon_none by now apply ncname_no_colon.
    cbn [app]. rewrite Hn. destruct q as [ns l]. cbn [fst snd] in *. now subst.
  - unfold resolve_att_name. rewrite split_colon_app by now apply ncname_no_colon.
    cbn [app]. rewrite Hp, Hn. cbn [andb]. rewrite (lookup_renv _ _ Hl). now destruct q.
Qed.

Lemma resolve_elem_tag q : qname_ok q = true -> resolve_elem_name renv (tag_of env q) = Some q.
Proof.
  intros H. destruct (tag_cases env q H) as [(E & -> & Hn & _)|(_ & p & Hl & Hp & -> & Hn)].
  - unfold resolve_elem_name. rewrite split_colon_none by now apply ncname_no_colon.
    cbn [app]. rewrite Hn, lookup_default_none. destruct q as [ns l]. cbn [fst snd] in *. now subst.
  - unfold resolve_elem_name. rewrite split_colon_app by now apply ncname_no_colon.
    cbn [app]. rewrite Hp, Hn. cbn [andb]. rewrite (lookup_renv _ _ Hl). now destruct q.
Qed.

Lemma tag_not_decl q : qname_ok q = true -> is_decl (tag_of env q) = false.
Proof.
  intros H. destruct (tag_cases env q H) as [(E & -> & Hn & Hx)|(_ & p & Hl & Hp & -> & Hn)].
  - unfold is_decl. rewrite Hx, split_colon_none by now apply ncname_no_colon. reflexivity.
  - unfold is_decl. rewrite split_colon_app by now apply ncname_no_colon. cbn [app].
    apply orb_false_iff. split.
    + apply str_eqb_neq. intros E.
      assert (Hc : no_colon (p ++ cCOLON :: snd q) = true) by (rewrite E; reflexivity).
      unfold no_colon in Hc. rewrite mem_cp_app_gen in Hc. cbn [mem_cp] in Hc.
      change (cCOLON =? cCOLON) with true in Hc. cbn in Hc. now rewrite orb_true_r in Hc.
    + apply lookup_in in Hl. destruct (env_entry _ Hl) as (_ & Hx & _). cbn [snd] in Hx. now apply str_eqb_neq.
Qed.

Lemma tag_inj q1 q2 : qname_ok q1 = true -> qname_ok q2 = true -> tag_of env q1 = tag_of env q2 -> q1 = q2.
Proof.
  intros H1 H2 E. pose proof (resolve_att_tag q1 H1) as R1. pose proof (resolve_att_tag q2 H2) as R2.
  rewrite E in R1. congruence.
Qed.

Definition canon_att (a : qname * str) : qname * str := (fst a, canon_str (snd a)).
Notation att_ok := (att_ok env).
Notation raw_decl := XmlTokProofs.raw_decl.

Lemma att_ok_q a : att_ok a = true -> qname_ok (fst a) = true.
Proof. unfold XmlTokProofs.att_ok. intros H. now apply andb_true_iff in H as [H _]. Qed.

Lemma ns_decls_atts atts : forallb att_ok atts = true -> ns_decls (map raw_att atts) = Some [].
Proof.
  induction atts as [|a atts IH]; intros H; [reflexivity|].
  cbn [forallb] in H. apply andb_true_iff in H as [H1 H2].
  cbn [map ns_decls]. unfold XmlTokProofs.raw_att at 1. rewrite (IH H2).
  pose proof (tag_not_decl _ (att_ok_q a H1)) as Hd. unfold is_decl in Hd.
  apply orb_false_iff in Hd as [Hd1 Hd2]. rewrite Hd1.
  destruct (split_colon (tag_of env (fst a)) []) as [[p|] l]; [|reflexivity]. now rewrite Hd2.
Qed.

Lemma split_decl e : split_colon (fst (raw_decl e)) [] = (Some sXMLNS, snd e).
Proof. unfold XmlTokProofs.raw_decl. cbn [fst]. reflexivity. Qed.

Lemma decl_name_neq e : str_eqb (fst (raw_decl e)) sXMLNS = false.
Proof.
  apply str_eqb_neq. intros E. pose proof (split_decl e) as H. rewrite E in H. vm_compute in H. discriminate.
Qed.

Lemma ns_decls_decls l X ds : (forall e, In e l -> In e env) -> ns_decls X = Some ds ->
  ns_decls (map raw_decl l ++ X) = Some (map swap l ++ ds).
Proof.
  intros Hl HX. induction l as [|e l IH]; [exact HX|].
  cbn [map app ns_decls]. destruct (raw_decl e) as [n v] eqn:Er.
  rewrite IH by (intros x Hx; apply Hl; now right).
  pose proof (decl_name_neq e) as H1. pose proof (split_decl e) as H2. rewrite Er in H1, H2. cbn [fst] in H1, H2.
  rewrite H1, H2. change (str_eqb sXMLNS sXMLNS) with true. cbn iota.
  destruct (env_entry e (Hl e (or_introl eq_refl))) as (Hp & Hx & Hn).
  unfold XmlTokProofs.raw_decl in Er. injection Er as <- <-.
  rewrite Hp. apply str_eqb_neq in Hx, Hn. rewrite Hx, Hn. reflexivity.
Qed.

Lemma resolve_atts_atts atts : forallb att_ok atts = true ->
  resolve_atts renv (map raw_att atts) = Some (map canon_att atts).
Proof.
  induction atts as [|a atts IH]; intros H; [reflexivity|].
  cbn [forallb] in H. apply andb_true_iff in H as [H1 H2].
  cbn [map resolve_atts]. unfold XmlTokProofs.raw_att at 1.
  rewrite (tag_not_decl _ (att_ok_q a H1)), (resolve_att_tag _ (att_ok_q a H1)), (IH H2). reflexivity.
Qed.

Lemma resolve_atts_decls l X : resolve_atts renv (map raw_decl l ++ X) = resolve_atts renv X.
Proof.
  induction l as [|e l IH]; [reflexivity|].
  cbn [map app resolve_atts]. destruct (raw_decl e) as [n v] eqn:Er.
  assert (Hd : is_decl n = true).
  { unfold is_decl. pose proof (split_decl e) as H2. rewrite Er in H2. cbn [fst] in H2. rewrite H2.
    apply orb_true_r. }
  now rewrite Hd.
Qed.

Lemma raw_names_nodup atts : forallb att_ok atts = true -> NoDup (map fst atts) ->
  NoDup (map fst (map raw_att atts)).
Proof.
  intros Hok Hd. rewrite map_map. cbn [XmlTokProofs.raw_att fst].
  change (map (fun x => tag_of env (fst x)) atts) with (map (fun x => tag_of env (fst x)) atts).
  rewrite <- (map_map fst (tag_of env)). apply NoDup_map_inj; [|exact Hd].
  intros x y Hx Hy. rewrite forallb_forall in Hok.
  apply in_map_iff in Hx as [ax [<- Hax]]. apply in_map_iff in Hy as [ay [<- Hay]].
  apply tag_inj; apply att_ok_q; now apply Hok.
Qed.

Lemma root_names_nodup atts : forallb att_ok atts = true -> NoDup (map fst atts) ->
  NoDup (map fst (root_atts filtered env atts)).
Proof.
  intros Hok Hd. unfold root_atts. rewrite map_app. apply NoDup_app_intro.
  - rewrite map_map. cbn [XmlTokProofs.raw_decl fst].
    rewrite <- (map_map snd (fun p => XmlTokProofs.sXMLNS_C ++ p)).
    apply NoDup_map_inj; [|exact env_nodup]. intros x y _ _ E. now apply app_inv_head in E.
  - now apply raw_names_nodup.
  - intros x H1 H2. rewrite map_map in H1, H2.
    apply in_map_iff in H1 as [e [<- He]]. apply in_map_iff in H2 as [a [Ea Ha]].
    rewrite forallb_forall in Hok. pose proof (split_tag _ (att_ok_q a (Hok a Ha))) as (po & Hs & Hx).
    cbn [XmlTokProofs.raw_att fst] in Ea. rewrite Ea in Hs. rewrite split_decl in Hs. congruence.
Qed.

Fixpoint atts_distinct (t : node) : bool :=
  match t with
  | Elem q atts kids => nodup_by qname_eqb (map fst atts) && forallb atts_distinct kids
  | _ => true
  end.

Notation tree_ok := (tree_ok env).
Notation raw_of := (raw_of filtered env).
Notation kid_items := (kid_items filtered env).

Definition resolve_stmt (t : node) : Prop :=
  tree_ok t = true -> atts_distinct t = true -> resolve renv (raw_of t) = Some (canon t).

Lemma resolve_flushR acc :
  resolve_list renv (flushR acc) = Some (match acc with [] => [] | _ => [TextN acc] end).
Proof. destruct acc; reflexivity. Qed.

Lemma resolve_kids kids : Forall resolve_stmt kids ->
  forallb tree_ok kids = true -> forallb atts_distinct kids = true -> forall acc,
  resolve_list renv (kid_items kids acc) = Some (merge_text (TextN acc :: map canon kids)).
Proof.
  induction 1 as [|t kids Ht Hk IH]; intros Hok Hd acc.
  - cbn [XmlBuildProofs.kid_items map]. rewrite resolve_flushR. destruct acc; reflexivity.
  - cbn [forallb] in Hok, Hd. apply andb_true_iff in Hok as [Ho1 Ho2]. apply andb_true_iff in Hd as [Hd1 Hd2].
    destruct t as [q atts ks|s|s].
    + cbn [XmlBuildProofs.kid_items]. rewrite resolve_list_app, resolve_flushR.
      cbn [resolve_list]. rewrite (Ht Ho1 Hd1), (IH Ho2 Hd2 []).
      rewrite merge_text_nil_text. cbn [map XmlTree.canon merge_text].
      destruct acc; reflexivity.
    + cbn [XmlBuildProofs.kid_items]. rewrite (IH Ho2 Hd2). cbn [map XmlTree.canon].
      now rewrite merge_text_join.
    + cbn [XmlBuildProofs.kid_items]. rewrite (IH Ho2 Hd2). cbn [map XmlTree.canon].
      now rewrite merge_text_join.
Qed.

Lemma nodup_true {A} (eqb : A -> A -> bool) l :
  (forall x y, eqb x y = true <-> x = y) -> NoDup l -> negb (nodup_by eqb l) = false.
Proof. intros Hr Hd. apply negb_false_iff. now apply (nodup_by_NoDup eqb l Hr). Qed.

Lemma map_fst_canon_att atts : map fst (map canon_att atts) = map fst atts.
Proof. rewrite map_map. reflexivity. Qed.

Theorem resolve_node t : resolve_stmt t.
Proof.
  induction t as [s|s|q atts kids IH] using node_ind2; unfold resolve_stmt; intros Hok Hd.
  - reflexivity.
  - reflexivity.
  - rewrite raw_of_elem, resolve_elem_unfold.
    cbn [XmlTokProofs.tree_ok] in Hok. apply andb_true_iff in Hok as [Hok Hkids]. apply andb_true_iff in Hok as [Hq Ha].
    cbn [atts_distinct] in Hd. apply andb_true_iff in Hd as [Hnd Hdk].
    assert (HND : NoDup (map fst atts)) by (apply (nodup_by_NoDup qname_eqb); [apply qname_eqb_eq|exact Hnd]).
    rewrite (ns_decls_atts _ Ha). cbn zeta. cbn [app].
    rewrite (nodup_true str_eqb _ str_eqb_eq (raw_names_nodup _ Ha HND)).
    rewrite (resolve_elem_tag _ Hq), (resolve_atts_atts _ Ha).
    rewrite map_fst_canon_att, (nodup_true qname_eqb _ qname_eqb_eq HND).
    rewrite (resolve_kids kids IH Hkids Hdk []), merge_text_nil_text.
    reflexivity.
Qed.

Theorem resolve_root q atts kids :
  tree_ok (Elem q atts kids) = true -> atts_distinct (Elem q atts kids) = true ->
  resolve init_env (RElem (tag_of env q) (root_atts filtered env atts) (kid_items kids []))
  = Some (canon (Elem q atts kids)).
Proof.
  intros Hok Hd. rewrite resolve_elem_unfold.
  cbn [XmlTokProofs.tree_ok] in Hok. apply andb_true_iff in Hok as [Hok Hkids]. apply andb_true_iff in Hok as [Hq Ha].
  cbn [atts_distinct] in Hd. apply andb_true_iff in Hd as [Hnd Hdk].
  assert (HND : NoDup (map fst atts)) by (apply (nodup_by_NoDup qname_eqb); [apply qname_eqb_eq|exact Hnd]).
  unfold root_atts at 1.
  rewrite (ns_decls_decls env _ [] (fun e H => H) (ns_decls_atts _ Ha)). cbn zeta. rewrite app_nil_r.
  fold renv.
  rewrite (nodup_true str_eqb _ str_eqb_eq (root_names_nodup _ Ha HND)).
  unfold root_atts. rewrite resolve_atts_decls.
  rewrite (resolve_elem_tag _ Hq), (resolve_atts_atts _ Ha).
  rewrite map_fst_canon_att, (nodup_true qname_eqb _ qname_eqb_eq HND).
  assert (IH : Forall resolve_stmt kids) by (apply Forall_forall; intros t _; apply resolve_node).
  rewrite (resolve_kids kids IH Hkids Hdk []), merge_text_nil_text.
  reflexivity.
Qed.
End Resolve.
