(* AutoStylesExact.v — the names collected by _used_auto_styles are exactly the closure of the references. *)
From Coq Require Import Lia.
From Odf Require Import model.Base model.Chars model.XmlPrint model.XmlLex model.XmlTree model.Doc
  proofs.XmlTokProofs proofs.XmlBuildProofs proofs.XmlResolveProofs proofs.AutoStylesProofs.

Section ASX.
Variable refattrs : list qname.
Notation scan_one := (scan_one refattrs).
Notation parse_node := (parse_node refattrs).
Notation parse_kids := (parse_kids refattrs).
Notation parse_one := (parse_one refattrs).
Notation round := (round refattrs).
Notation rounds := (rounds refattrs).
Notation has_ref := (has_ref refattrs).
Notation refs_in := (refs_in refattrs).
Notation used := (used_auto_styles refattrs).

Lemma mem_str_In x l : mem_str x l = true <-> In x l.
Proof.
  unfold mem_str. rewrite existsb_exists. split.
  - intros [y [Hy E]]. apply str_eqb_eq in E. now subst.
  - intros H. exists x. split; [exact H|apply str_eqb_refl].
Qed.

(* ---- nothing else gets in ---- *)
Lemma mem_add_inv x names n : mem_str x (add_name names n) = true -> mem_str x names = true \/ x = n.
Proof.
  unfold add_name. destruct (mem_str n names); [now left|]. intros H. apply mem_str_In in H. apply in_app_or in H as [H|[H|[]]].
  - left. now apply mem_str_In.
  - right. now symmetry.
Qed.
Lemma fold_add_inv x l : forall names, mem_str x (fold_left add_name l names) = true -> mem_str x names = true \/ In x l.
Proof.
  induction l as [|n l IH]; intros names H; [now left|]. cbn [fold_left] in H. destruct (IH _ H) as [H1|H1]; [|right; now right].
  destruct (mem_add_inv _ _ _ H1) as [H2|H2]; [now left|right; left; now symmetry].
Qed.
Lemma scan_one_inv x atts : forall names, mem_str x (scan_one atts names) = true -> mem_str x names = true \/ has_ref atts x.
Proof.
  unfold Doc.scan_one. induction atts as [|a atts IH]; intros names H; [now left|]. cbn [fold_left] in H.
  destruct (IH _ H) as [H1|(a' & v & Hin & Hr & Ht)]; [|right; exists a', v; split; [now right|split; assumption]].
  destruct (existsb (qname_eqb (fst a)) refattrs && negb (str_eqb (snd a) [])) eqn:E; [|now left].
  apply andb_prop in E as [E1 _]. destruct (fold_add_inv _ _ _ H1) as [H2|H2]; [now left|].
  right. exists (fst a), (snd a). split; [left; now destruct a|split; assumption].
Qed.
Lemma parse_node_inv x t : forall names, mem_str x (parse_node t names) = true -> mem_str x names = true \/ refs_in t x.
Proof.
  induction t as [s|s|q a k IH] using node_ind2; intros names H; try (now left).
  rewrite parse_node_elem in H.
  assert (G : forall acc, mem_str x (fold_left (fun acc0 x0 => parse_node x0 acc0) k acc) = true -> mem_str x acc = true \/ exists c, In c k /\ refs_in c x).
  { clear H. induction IH as [|c k Hc Hk IHk]; intros acc H; [now left|]. cbn [fold_left] in H.
    destruct (IHk _ H) as [H1|(c' & Hin & Hr)]; [|right; exists c'; split; [now right|exact Hr]].
    destruct (Hc _ H1) as [H2|H2]; [now left|right; exists c; split; [now left|exact H2]]. }
  destruct (G _ H) as [H1|(c & Hin & Hr)]; [|right; now apply (ref_deep refattrs q a k c)].
  destruct (scan_one_inv _ _ _ H1) as [H2|H2]; [now left|right; now apply ref_here].
Qed.
Lemma parse_kids_inv x ks : forall names, mem_str x (parse_kids ks names) = true -> mem_str x names = true \/ exists c, In c ks /\ refs_in c x.
Proof.
  unfold Doc.parse_kids. induction ks as [|c ks IH]; intros names H; [now left|]. cbn [fold_left] in H.
  destruct (IH _ H) as [H1|(c' & Hin & Hr)]; [|right; exists c'; split; [now right|exact Hr]].
  destruct (parse_node_inv _ _ _ H1) as [H2|H2]; [now left|right; exists c; split; [now left|exact H2]].
Qed.
(* what selecting the element e adds: the names e itself refers to *)
Lemma select_inv x e names : is_element e = true ->
  mem_str x (parse_one e (scan_one (atts_of e) names)) = true -> mem_str x names = true \/ refs_in e x.
Proof.
  intros He H. destruct e as [q a k|s|s]; try discriminate. unfold Doc.parse_one in H. cbn [kids_of atts_of] in H.
  destruct (parse_kids_inv _ _ _ H) as [H1|(c & Hin & Hr)]; [|right; now apply (ref_deep refattrs q a k c)].
  destruct (scan_one_inv _ _ _ H1) as [H2|H2]; [now left|right; now apply ref_here].
Qed.

(* ---- the closure ---- *)
Inductive Reach (roots : list str) (autos : list node) : str -> Prop :=
  | R_root x : mem_str x roots = true -> Reach roots autos x
  | R_ref e n x : In e autos -> is_element e = true -> style_name e = Some n -> Reach roots autos n -> refs_in e x -> Reach roots autos x.

Lemma round_reach roots full autos : (forall e, In e autos -> In e full) -> forall sel names,
  (forall x, mem_str x names = true -> Reach roots full x) ->
  forall x, mem_str x (snd (fst (round autos sel names))) = true -> Reach roots full x.
Proof.
  induction autos as [|e r IH]; intros Hincl sel names HP x Hx.
  - destruct sel; cbn in Hx; now apply HP.
  - destruct sel as [|s sr]; [cbn in Hx; now apply HP|]. cbn [Doc.round] in Hx.
    assert (Hr : forall e0, In e0 r -> In e0 full) by (intros e0 H0; apply Hincl; now right).
    destruct (is_element e && negb s && named_in names e) eqn:Ec.
    + apply andb_prop in Ec as [Ec Hn]. apply andb_prop in Ec as [He _].
      set (names1 := parse_one e (scan_one (atts_of e) names)) in *.
      assert (HP1 : forall y, mem_str y names1 = true -> Reach roots full y).
      { intros y Hy. destruct (select_inv y e names He Hy) as [H1|H1]; [now apply HP|].
        unfold named_in in Hn. destruct (style_name e) as [n|] eqn:Sn; [|discriminate].
        apply (R_ref roots full e n y); [apply Hincl; now left|exact He|exact Sn|now apply HP|exact H1]. }
      specialize (IH Hr sr names1 HP1 x). destruct (round r sr names1) as [[sr' n2] f]. cbn [fst snd] in *. now apply IH.
    + specialize (IH Hr sr names HP x). destruct (round r sr names) as [[sr' n2] f]. cbn [fst snd] in *. now apply IH.
Qed.
Lemma rounds_reach roots autos : forall fuel sel names,
  (forall x, mem_str x names = true -> Reach roots autos x) ->
  forall x, mem_str x (snd (rounds fuel autos sel names)) = true -> Reach roots autos x.
Proof.
  induction fuel as [|f IH]; intros sel names HP x Hx; [cbn in Hx; now apply HP|]. cbn [Doc.rounds] in Hx.
  pose proof (round_reach roots autos autos (fun e H => H) sel names HP) as R.
  destruct (round autos sel names) as [[sel1 names1] found]. cbn [fst snd] in R. destruct found; [|cbn in Hx; now apply R].
  now apply (IH sel1 names1 R).
Qed.

(* the final state of the selection: the names are exactly the closure, the selection exactly the named elements *)
Definition roots_of (segs : list node) : list str := fold_left (fun acc seg => parse_one seg acc) segs [].
Theorem used_exact segs auto : exists sel names,
  used segs auto = pick (kids_of auto) sel /\ List.length sel = List.length (kids_of auto) /\
  (forall x, mem_str x names = true <-> Reach (roots_of segs) (kids_of auto) x) /\
  (forall i e, nth_error (kids_of auto) i = Some e -> (nth i sel false = true <-> is_element e = true /\ named_in names e = true)).
Proof.
  destruct (used_unfold refattrs segs auto) as (sel & names & E & Hu). exists sel, names. fold (roots_of segs) in E.
  pose proof (rounds_spec refattrs (kids_of auto) (S (List.length (kids_of auto))) (map (fun _ => false) (kids_of auto)) (roots_of segs)) as R.
  rewrite E in R. specialize (R (map_length _ _)). rewrite count_false_all_false in R. specialize (R ltac:(lia)).
  destruct R as (L & M & _ & T & N). rewrite map_length in L.
  assert (N' : forall i e, nth_error (kids_of auto) i = Some e -> nth i sel false = true ->
            is_element e = true /\ named_in names e = true /\ forall tok, refs_in e tok -> mem_str tok names = true).
  { intros i e Hn Hs. destruct (N i e Hn Hs) as [H|H]; [|exact H].
    exfalso. clear -H. revert i H. induction (kids_of auto) as [|x l IH]; intros [|i] H; cbn in H; try discriminate. now apply (IH i). }
  split; [exact Hu|]. split; [exact L|]. split.
  - intros x. split.
    + pose proof (rounds_reach (roots_of segs) (kids_of auto) (S (List.length (kids_of auto))) (map (fun _ => false) (kids_of auto)) (roots_of segs)
                    (fun y Hy => R_root _ _ y Hy) x) as RR. rewrite E in RR. exact RR.
    + induction 1 as [y Hy|e n y Hin He Sn _ IHn Hr]; [now apply M|].
      apply In_nth_error in Hin as [i Hi].
      assert (Hsel : nth i sel false = true) by (apply (T i e Hi He); unfold named_in; now rewrite Sn).
      destruct (N' i e Hi Hsel) as (_ & _ & Hrefs). now apply Hrefs.
  - intros i e Hi. split; [intros Hs; destruct (N' i e Hi Hs) as (A & B & _); now split|intros [A B]; now apply (T i e Hi)].
Qed.

(* ---- selecting again from what was selected (plus styles the closure does not name) selects the same ---- *)
Lemma Reach_sub roots A A' x : (forall e, In e A' -> In e A) -> Reach roots A' x -> Reach roots A x.
Proof. intros H. induction 1 as [y Hy|e n y Hin He Sn _ IHn Hr]; [now apply R_root|apply (R_ref roots A e n y); auto]. Qed.

Lemma pick_all_false {A} (b : list A) : forall sel, (forall i, nth i sel false = false) -> pick b sel = [].
Proof.
  induction b as [|y b IH]; intros sel Hf; [destruct sel as [|[|] ?]; reflexivity|].
  destruct sel as [|s sr]; [reflexivity|]. pose proof (Hf 0%nat) as H0. cbn in H0. subst s. cbn [pick]. apply IH. intros i. apply (Hf (S i)).
Qed.
Lemma pick_middle {A} (pre a post : list A) : forall sel, List.length sel = List.length (pre ++ a ++ post) ->
  (forall i, (i < List.length pre)%nat -> nth i sel false = false) ->
  (forall i, (List.length pre <= i < List.length pre + List.length a)%nat -> nth i sel false = true) ->
  (forall i, (List.length pre + List.length a <= i)%nat -> nth i sel false = false) -> pick (pre ++ a ++ post) sel = a.
Proof.
  induction pre as [|x pre IH]; intros sel Hl H1 H2 H3.
  - cbn [app List.length] in *. clear H1. revert sel Hl H2 H3. induction a as [|y a IHa]; intros sel Hl H2 H3.
    + cbn [app] in *. apply pick_all_false. intros i. apply H3. cbn. lia.
    + destruct sel as [|s sr]; [discriminate|]. cbn [app List.length] in *. injection Hl as Hl.
      pose proof (H2 0%nat ltac:(lia)) as H0. cbn in H0. subst s. cbn [pick]. f_equal. apply IHa; [exact Hl| |].
      * intros i Hi. apply (H2 (S i)). lia.
      * intros i Hi. apply (H3 (S i)). lia.
  - destruct sel as [|s sr]; [discriminate|]. cbn [app List.length] in *. injection Hl as Hl.
    pose proof (H1 0%nat ltac:(lia)) as H0. cbn in H0. subst s. cbn [pick]. apply IH; [exact Hl| | |].
    + intros i Hi. apply (H1 (S i)). lia.
    + intros i Hi. apply (H2 (S i)). lia.
    + intros i Hi. apply (H3 (S i)). lia.
Qed.

Theorem reselect segs auto q a pre post :
  (forall e, In e (pre ++ post) -> In e (kids_of auto)) ->
  (forall e e', In e (pre ++ post) -> In e' (used segs auto) -> style_name e = style_name e' -> style_name e = None) ->
  used segs (Elem q a (pre ++ used segs auto ++ post)) = used segs auto.
Proof.
  intros Hsub Hdis. set (uc := used segs auto).
  destruct (used_exact segs auto) as (sel & names & Hu & L & Hn & Hs). fold uc in Hu.
  destruct (used_exact segs (Elem q a (pre ++ uc ++ post))) as (sel' & names' & Hu' & L' & Hn' & Hs'). cbn [kids_of] in *.
  assert (Huc : forall e, In e uc -> In e (kids_of auto) /\ is_element e = true /\ named_in names e = true).
  { intros e He. rewrite Hu in He. split; [now apply (pick_sub _ sel)|]. destruct (pick_selected _ _ _ He) as (i & Hi & Hsi). now apply (Hs i e Hi). }
  assert (Hin' : forall e, In e (pre ++ uc ++ post) -> In e (kids_of auto)).
  { intros e He. apply in_app_or in He as [He|He]; [apply Hsub; apply in_or_app; now left|].
    apply in_app_or in He as [He|He]; [now apply Huc|apply Hsub; apply in_or_app; now right]. }
  assert (Hsame : forall x, mem_str x names' = true <-> mem_str x names = true).
  { intros x. rewrite Hn, Hn'. split.
    - now apply Reach_sub.
    - induction 1 as [y Hy|e n y Hin He Sn Hr IHn Hrf]; [now apply R_root|].
      apply (R_ref _ _ e n y); auto. apply in_or_app. right. apply in_or_app. left.
      apply In_nth_error in Hin as [i Hi]. rewrite Hu. apply (pick_in _ sel i e L Hi).
      apply (Hs i e Hi). split; [exact He|]. unfold named_in. rewrite Sn. now apply Hn. }
  assert (Hnamed : forall e, named_in names' e = named_in names e).
  { intros e. unfold named_in. destruct (style_name e) as [n|]; [|reflexivity].
    destruct (mem_str n names') eqn:E1, (mem_str n names) eqn:E2; try reflexivity.
    - apply Hsame in E1. congruence.
    - apply Hsame in E2. congruence. }
  (* an outsider is never selected *)
  assert (Hout : forall i e, nth_error (pre ++ uc ++ post) i = Some e -> In e (pre ++ post) -> nth i sel' false = false).
  { intros i e Ei Ho. destruct (nth i sel' false) eqn:Esel; [|reflexivity]. exfalso.
    destruct (Hs' i e Ei) as [Hd _]. destruct (Hd Esel) as [A1 A2]. rewrite Hnamed in A2.
    assert (Hc : In e uc).
    { pose proof (Hsub e Ho) as HA. apply In_nth_error in HA as [j Hj]. rewrite Hu. apply (pick_in _ sel j e L Hj). apply (Hs j e Hj). now split. }
    specialize (Hdis e e Ho Hc eq_refl). unfold named_in in A2. rewrite Hdis in A2. discriminate. }
  rewrite Hu'. apply pick_middle; [exact L'| | |].
  - intros i Hi. destruct (nth_error pre i) as [e|] eqn:Ei; [|apply nth_error_None in Ei; lia].
    apply (Hout i e); [rewrite nth_error_app1; assumption|apply in_or_app; left; now apply nth_error_In in Ei].
  - intros i Hi. destruct (nth_error uc (i - List.length pre)) as [e|] eqn:Ei; [|apply nth_error_None in Ei; lia].
    assert (Ei' : nth_error (pre ++ uc ++ post) i = Some e) by (rewrite nth_error_app2 by lia; rewrite nth_error_app1 by lia; exact Ei).
    apply (Hs' i e Ei'). destruct (Huc e (nth_error_In _ _ Ei)) as (_ & A1 & A2). split; [exact A1|]. now rewrite Hnamed.
  - intros i Hi. destruct (nth_error (pre ++ uc ++ post) i) as [e|] eqn:Ei.
    + apply (Hout i e Ei). rewrite nth_error_app2 in Ei by lia. rewrite nth_error_app2 in Ei by lia. apply in_or_app. right. now apply nth_error_In in Ei.
    + apply nth_error_None in Ei. apply nth_overflow. lia.
Qed.
End ASX.
