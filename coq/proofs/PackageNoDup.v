(* PackageNoDup.v — "no member name occurring twice" (C03).

   A member name is a folder path followed by a local name.  The documents of a package give
   (folder, local name) pairs; the theorem says that pairs which are distinct never collide as
   full member names, provided the folders have the shape addObject gives them (what follows a
   folder inside a longer one starts with 'O', as in "Object 1/") and no local name starts
   with 'O'.  Opaque extra files can be called anything, so for them the premise is said
   directly: their names are distinct and none of them is the name of another member. *)
From Odf Require Import model.Base model.XmlLex model.Package model.PackageCheck proofs.PackageProofs.
From Coq Require Import Permutation.

Lemma names_flat_xml kids :
  Forall (fun k => forall top path, (top = true -> path = []) ->
            names (fst (save_xml top path k)) = map cat (pairs_xml top path k)) kids ->
  names (flat_map fst (map (fun k => save_xml false (objfolder k) k) kids))
  = map cat (flat_map (fun k => pairs_xml false (objfolder k) k) kids).
Proof.
  induction 1 as [|k r Hk _ IH]; [reflexivity|].
  cbn [map flat_map]. rewrite names_app, map_app, IH, Hk; [reflexivity|discriminate].
Qed.

Lemma names_save_xml o : forall top path, (top = true -> path = []) ->
  names (fst (save_xml top path o)) = map cat (pairs_xml top path o).
Proof.
  induction o as [mt f hs pics kids IH] using odoc_ind2. intros top path Hp.
  cbn [save_xml pairs_xml fst]. rewrite !names_app, !map_app, (names_flat_xml kids IH).
  f_equal. destruct hs, top; try reflexivity.
Qed.

Lemma names_flat_pics kids :
  Forall (fun k => forall path, names (fst (save_pics path k)) = map cat (pairs_pics path k)) kids ->
  names (flat_map fst (map (fun k => save_pics (objfolder k) k) kids))
  = map cat (flat_map (fun k => pairs_pics (objfolder k) k) kids).
Proof.
  induction 1 as [|k r Hk _ IH]; [reflexivity|].
  cbn [map flat_map]. now rewrite names_app, map_app, IH, Hk.
Qed.

Lemma names_save_pics o : forall path,
  names (fst (save_pics path o)) = map cat (pairs_pics path o).
Proof.
  induction o as [mt f hs pics kids IH] using odoc_ind2. intros path.
  cbn [save_pics pairs_pics fst]. rewrite names_app, map_app, (names_flat_pics kids IH).
  f_equal. unfold names. rewrite !map_map. reflexivity.
Qed.

Lemma names_save_m t :
  Permutation (names (fst (save_m t))) (map cat (core t) ++ extra_names t).
Proof.
  unfold save_m, core.
  pose proof (names_save_xml (t_root t) true [] (fun _ => eq_refl)) as Hx.
  pose proof (names_save_pics (t_root t) []) as Hp.
  destruct (save_xml true [] (t_root t)) as [ex mx]. destruct (save_pics [] (t_root t)) as [ep mp].
  cbn [fst] in *. unfold names in *. cbn [map]. rewrite !map_app, Hx, Hp.
  change (cat ([], sMANIFEST)) with sMANIFEST. change (cat ([], sMIMETYPE)) with sMIMETYPE.
  cbn [map e_name].
  set (X := map cat (pairs_xml true [] (t_root t))). set (Pc := map cat (pairs_pics [] (t_root t))).
  assert (Ht : map e_name (match t_thumb t with Some b => [mkE sTHUMB false [] (DBytes (fst b))] | None => [] end)
               = map cat (thumb_pairs t)) by (unfold thumb_pairs; destruct (t_thumb t); reflexivity).
  rewrite Ht. set (T := map cat (thumb_pairs t)).
  assert (He : map e_name (flat_map (fun x => match snd x with Some b => [mkE (fst (fst x)) false [] (DBytes b)] | None => [] end)
                 (filter (fun x => negb (str_eqb (fst (fst x)) sSIG)) (t_extras t))) = extra_names t).
  { unfold extra_names. induction (filter _ (t_extras t)) as [|x l IH]; [reflexivity|].
    cbn [flat_map]. rewrite map_app, IH. destruct (snd x); reflexivity. }
  rewrite He. set (E := extra_names t).
  (* mime :: X ++ Pc ++ T ++ E ++ [manifest]   ~   manifest :: mime :: (X ++ Pc ++ T) ++ E *)
  replace (sMIMETYPE :: X ++ Pc ++ T ++ E ++ [sMANIFEST]) with ((sMIMETYPE :: X ++ Pc ++ T ++ E) ++ [sMANIFEST])
    by (cbn [app]; now rewrite <- !app_assoc).
  eapply Permutation_trans; [apply Permutation_sym, Permutation_cons_append|].
  cbn [app]. rewrite <- !app_assoc. apply Permutation_refl.
Qed.

(* ---- distinct pairs do not collide ---- *)
Lemma strip_prefix_app p r : strip_prefix p (p ++ r) = Some r.
Proof. induction p as [|a p IH]; [reflexivity|]. cbn [app strip_prefix]. now rewrite N.eqb_refl. Qed.

Lemma app_eq_app_cases {A} (a b c d : list A) : a ++ b = c ++ d ->
  exists l, (a = c ++ l /\ d = l ++ b) \/ (c = a ++ l /\ b = l ++ d).
Proof.
  revert c. induction a as [|x a IH]; intros c H.
  - exists c. right. split; [reflexivity|exact H].
  - destruct c as [|y c].
    + exists (x :: a). left. split; [reflexivity|symmetry; exact H].
    + cbn [app] in H. injection H as -> H. destruct (IH c H) as [l [[-> ->]|[-> ->]]]; exists l; [left|right]; split; reflexivity.
Qed.

Lemma cat_inj l x y : shape_ok l = true -> In x l -> In y l -> cat x = cat y -> x = y.
Proof.
  unfold shape_ok. intros H Hx Hy E. apply andb_true_iff in H as [Hl Hs].
  rewrite forallb_forall in Hl, Hs.
  assert (Hp : forall a b, In a l -> In b l -> forall r, fst b = fst a ++ r -> snd a = r ++ snd b -> r = []).
  { intros a b Ha Hb r E1 E2. destruct r as [|c r]; [reflexivity|exfalso].
    pose proof (Hs a Ha) as S. rewrite forallb_forall in S. specialize (S b Hb).
    unfold path_sep in S. rewrite E1, strip_prefix_app in S.
    pose proof (Hl a Ha) as La. rewrite E2 in La. cbn [app leaf_ok] in La. rewrite S in La. discriminate. }
  destruct x as [p n], y as [q m]. unfold cat in E. cbn [fst snd] in E.
  destruct (app_eq_app_cases _ _ _ _ E) as [r [[E1 E2]|[E1 E2]]].
  - pose proof (Hp (q, m) (p, n) Hy Hx r E1 E2) as ->. rewrite app_nil_r in E1. cbn [app] in E2. now subst.
  - pose proof (Hp (p, n) (q, m) Hx Hy r E1 E2) as ->. rewrite app_nil_r in E1. cbn [app] in E2. now subst.
Qed.

Lemma NoDup_app_intro {A} (a b : list A) :
  NoDup a -> NoDup b -> (forall x, In x b -> ~ In x a) -> NoDup (a ++ b).
Proof.
  induction 1 as [|x a Hx Ha IH]; intros Hb D; [exact Hb|].
  cbn [app]. constructor.
  - rewrite in_app_iff. intros [I|I]; [exact (Hx I)|exact (D x I (or_introl eq_refl))].
  - apply IH; [exact Hb|]. intros y Iy Ia. exact (D y Iy (or_intror Ia)).
Qed.

(* decidable forms of the premises *)
Lemma nodupb_sound {A} (eqb : A -> A -> bool) (l : list A) :
  (forall a b, a = b -> eqb a b = true) -> nodupb eqb l = true -> NoDup l.
Proof.
  intros R. induction l as [|x r IH]; intro H; [constructor|].
  cbn [nodupb] in H. apply andb_true_iff in H as [H1 H2]. constructor; [|exact (IH H2)].
  intro I. apply negb_true_iff in H1. assert (existsb (eqb x) r = true); [|congruence].
  apply existsb_exists. exists x. split; [exact I|now apply R].
Qed.

Theorem no_member_twice t :
  pairs_distinct t = true -> shape_ok (core t) = true -> extras_apart t = true ->
  NoDup (names (fst (save_m t))).
Proof.
  intros Hd Hs He. eapply Permutation_NoDup; [apply Permutation_sym, names_save_m|].
  unfold extras_apart in He. apply andb_true_iff in He as [He1 He2].
  apply NoDup_app_intro.
  - apply NoDup_map_inj_on'.
    + intros x y Ix Iy E. exact (cat_inj _ x y Hs Ix Iy E).
    + apply (nodupb_sound pair_eqb); [|exact Hd]. intros a b <-. unfold pair_eqb.
      now rewrite !(proj2 (str_eqb_true_iff _ _) eq_refl).
  - apply (nodupb_sound str_eqb); [|exact He1]. intros a b <-. now apply str_eqb_true_iff.
  - intros e Ie Ic. rewrite forallb_forall in He2. specialize (He2 e Ie). apply negb_true_iff in He2.
    assert (existsb (str_eqb e) (map cat (core t)) = true); [|congruence].
    apply existsb_exists. exists e. split; [exact Ic|now apply str_eqb_true_iff].
Qed.

(* the premises hold of a document built through the API: an object with a picture of its own inside
   the main document, a nested object, a thumbnail and an extra file *)
Definition example_doc : topdoc :=
  mkTop (ODoc (s2l "application/vnd.oasis.opendocument.text") [] true
              [mkPic (s2l "Pictures/a.png") (s2l "A") (s2l "image/png")]
              [ODoc (s2l "application/vnd.oasis.opendocument.chart") (s2l "/Object 1") false
                    [mkPic (s2l "Pictures/a.png") (s2l "B") (s2l "image/png")]
                    [ODoc (s2l "application/vnd.oasis.opendocument.chart") (s2l "/Object 1/Object 1") false [] []];
               ODoc (s2l "application/vnd.oasis.opendocument.chart") (s2l "/Object 2") true [] []])
        (Some (s2l "PNG", s2l "image/png"))
        [(s2l "Configurations2/x.xml", s2l "text/xml", Some (s2l "<x/>"))].
Example no_member_twice_premises :
  pairs_distinct example_doc = true /\ shape_ok (core example_doc) = true /\ extras_apart example_doc = true
  /\ List.length (names (fst (save_m example_doc))) = 17%nat.
Proof. vm_compute. repeat split. Qed.
(* and they are needed: a picture registered under the name of a part collides *)
Example collision_without_premise :
  let t := mkTop (ODoc [] [] false [mkPic (s2l "content.xml") [] []] []) None [] in
  pairs_distinct t = false /\ nodupb str_eqb (names (fst (save_m t))) = false.
Proof. vm_compute. split; reflexivity. Qed.
