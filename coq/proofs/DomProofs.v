(* DomProofs.v — structural consistency of the node heap is preserved by every
   DOM operation (C08). *)
From Coq Require Import Lia PeanoNat Arith.
From Odf Require Import model.Base model.Dom.

Definition hd_opt (l : list id) : option id := match l with x :: _ => Some x | [] => None end.
Definition last_or (pv : option id) (l : list id) : option id :=
  match last_opt l with Some x => Some x | None => pv end.

Definition hd_or (nx : option id) (l : list id) : option id := match l with x :: _ => Some x | [] => nx end.

(* sibling links along a segment of a child list: pv = the node before the segment,
   nx = the node after it *)
Fixpoint chain (f : id -> nrec) (pv : option id) (l : list id) (nx : option id) : Prop :=
  match l with
  | [] => True
  | c :: r => prev (f c) = pv /\ next (f c) = hd_or nx r /\ chain f (Some c) r nx
  end.

Record Consistent (f : id -> nrec) : Prop := {
  c_kids : forall p c, In c (kids (f p)) -> parent (f c) = Some p;
  c_par : forall p c, parent (f c) = Some p -> In c (kids (f p));
  c_nodup : forall p, NoDup (kids (f p));
  c_chain : forall p, chain f None (kids (f p)) None;
  c_free : forall c, parent (f c) = None -> prev (f c) = None /\ next (f c) = None;
  c_leaf : forall n, is_elem (f n) = false -> kids (f n) = [];
  c_noself : forall n, parent (f n) <> Some n
}.

(* ---------------- lists ---------------- *)
Lemma last_opt_snoc l x : last_opt (l ++ [x]) = Some x.
Proof. unfold last_opt. now rewrite rev_app_distr. Qed.

Lemma last_opt_cons x y l : last_opt (x :: y :: l) = last_opt (y :: l).
Proof.
  unfold last_opt. cbn [rev]. destruct (rev l ++ [y]) eqn:E.
  - destruct (rev l); discriminate.
  - reflexivity.
Qed.

Lemma last_or_nil pv : last_or pv [] = pv. Proof. reflexivity. Qed.
Lemma last_or_cons pv x l : last_or pv (x :: l) = last_or (Some x) l.
Proof.
  unfold last_or. destruct l as [|y l]; [reflexivity|]. rewrite last_opt_cons.
  destruct (last_opt (y :: l)) eqn:E; [reflexivity|].
  unfold last_opt in E. cbn [rev] in E. destruct (rev l ++ [y]) eqn:E2; [destruct (rev l); discriminate|discriminate].
Qed.

Lemma index_of_in x l : (exists i, index_of x l = Some i) <-> In x l.
Proof.
  induction l as [|y l IH]; cbn [index_of In].
  - split; [intros [i H]; discriminate|intros []].
  - destruct (Nat.eqb y x) eqn:E.
    + apply Nat.eqb_eq in E. subst. split; [now left|exists 0%nat; reflexivity].
    + apply Nat.eqb_neq in E. split.
      * intros [i H]. right. apply IH. destruct (index_of x l); [eexists; reflexivity|discriminate].
      * intros [H|H]; [contradiction|]. apply IH in H as [i H]. rewrite H. eexists; reflexivity.
Qed.

Lemma index_of_none x l : index_of x l = None <-> ~ In x l.
Proof.
  split; intros H.
  - intros Hin. apply index_of_in in Hin as [i Hi]. congruence.
  - destruct (index_of x l) eqn:E; [|reflexivity]. exfalso. apply H. apply index_of_in. now exists n.
Qed.

Lemma index_of_split x l i : index_of x l = Some i ->
  exists a b, l = a ++ x :: b /\ List.length a = i /\ ~ In x a.
Proof.
  revert i. induction l as [|y l IH]; intros i H; [discriminate|]. cbn [index_of] in H.
  destruct (Nat.eqb y x) eqn:E.
  - apply Nat.eqb_eq in E. subst. injection H as <-. exists [], l. repeat split. intros [].
  - destruct (index_of x l) as [j|] eqn:E2; [|discriminate]. injection H as <-.
    destruct (IH j eq_refl) as (a & b & -> & Hl & Hn). exists (y :: a), b. repeat split; cbn; [lia|].
    apply Nat.eqb_neq in E. intros [Hx|Hx]; [contradiction|now apply Hn].
Qed.

Lemma remove_first_split x a b : ~ In x a -> remove_first x (a ++ x :: b) = a ++ b.
Proof.
  induction a as [|y a IH]; intros H; cbn [app remove_first].
  - now rewrite Nat.eqb_refl.
  - destruct (Nat.eqb y x) eqn:E; [apply Nat.eqb_eq in E; subst; exfalso; apply H; now left|].
    f_equal. apply IH. intros Hx. apply H. now right.
Qed.

Lemma insert_at_split x a b : insert_at (List.length a) x (a ++ b) = a ++ x :: b.
Proof. induction a as [|y a IH]; cbn; [destruct b; reflexivity|now rewrite IH]. Qed.

(* ---------------- chains ---------------- *)
Lemma chain_ext f g pv l nx :
  (forall x, In x l -> prev (f x) = prev (g x) /\ next (f x) = next (g x)) -> chain f pv l nx -> chain g pv l nx.
Proof.
  revert pv. induction l as [|c r IH]; intros pv H Hc; [exact I|].
  destruct Hc as (H1 & H2 & H3). destruct (H c (or_introl eq_refl)) as [E1 E2].
  cbn [chain]. rewrite <- E1, <- E2. repeat split; try assumption.
  apply IH; [|exact H3]. intros x Hx. apply H. now right.
Qed.

Lemma chain_app f pv a b nx : chain f pv (a ++ b) nx <-> chain f pv a (hd_or nx b) /\ chain f (last_or pv a) b nx.
Proof.
  revert pv. induction a as [|x a IH]; intros pv; cbn [app].
  - rewrite last_or_nil. cbn [chain]. tauto.
  - cbn [chain]. rewrite last_or_cons, IH.
    assert (E : hd_or nx (a ++ b) = hd_or (hd_or nx b) a) by (destruct a; reflexivity).
    rewrite E. tauto.
Qed.

(* ---------------- field views ---------------- *)
Definition PAR (f : id -> nrec) j := parent (f j).
Definition KIDS (f : id -> nrec) j := kids (f j).
Definition PREV (f : id -> nrec) j := prev (f j).
Definition NEXT (f : id -> nrec) j := next (f j).
Definition ELEM (f : id -> nrec) j := is_elem (f j).

(* two heaps with the same link fields *)
Definition same_links (f g : id -> nrec) : Prop :=
  forall j, PAR f j = PAR g j /\ KIDS f j = KIDS g j /\ PREV f j = PREV g j /\ NEXT f j = NEXT g j /\ ELEM f j = ELEM g j.

Lemma same_links_refl f : same_links f f.
Proof. intros j. repeat split. Qed.

Lemma same_links_trans f g k : same_links f g -> same_links g k -> same_links f k.
Proof.
  intros H1 H2 j. destruct (H1 j) as (A1 & A2 & A3 & A4 & A5), (H2 j) as (B1 & B2 & B3 & B4 & B5).
  repeat split; congruence.
Qed.

Lemma chain_same f g pv l nx : same_links f g -> chain f pv l nx -> chain g pv l nx.
Proof.
  intros H. apply chain_ext. intros x _. destruct (H x) as (_ & _ & A & B & _). unfold PREV, NEXT in *. auto.
Qed.

Lemma Consistent_same f g : same_links f g -> Consistent f -> Consistent g.
Proof.
  intros H [C1 C2 C3 C4 C5 C6 C7].
  assert (P : forall j, parent (g j) = parent (f j)) by (intros j; destruct (H j) as (A & _); unfold PAR in A; auto).
  assert (K : forall j, kids (g j) = kids (f j)) by (intros j; destruct (H j) as (_ & A & _); unfold KIDS in A; auto).
  assert (PV : forall j, prev (g j) = prev (f j)) by (intros j; destruct (H j) as (_ & _ & A & _); unfold PREV in A; auto).
  assert (NX : forall j, next (g j) = next (f j)) by (intros j; destruct (H j) as (_ & _ & _ & A & _); unfold NEXT in A; auto).
  assert (E : forall j, is_elem (g j) = is_elem (f j)) by (intros j; destruct (H j) as (_ & _ & _ & _ & A); unfold ELEM in A; auto).
  constructor.
  - intros p c. rewrite K, P. apply C1.
  - intros p c. rewrite K, P. apply C2.
  - intros p. rewrite K. apply C3.
  - intros p. rewrite K. apply (chain_same f g); [exact H|apply C4].
  - intros c. rewrite P, PV, NX. apply C5.
  - intros n. rewrite E, K. apply C6.
  - intros n. rewrite P. apply C7.
Qed.

(* updates that do not touch link fields *)
Lemma same_links_owner_map f (sel : id -> bool) o :
  same_links f (fun j => if sel j then with_owner (f j) o else f j).
Proof. intros j. unfold PAR, KIDS, PREV, NEXT, ELEM. destruct (sel j); repeat split. Qed.

Lemma nodes_build_caches h n : nodes (build_caches h n) = nodes h.
Proof.
  unfold build_caches. destruct (kind (nodes h n)); try reflexivity.
  destruct (Nat.eqb q Q_STYLE); [|reflexivity]. destruct (sname (nodes h n)); [|reflexivity].
  destruct (style_parent_ok h n); reflexivity.
Qed.

Lemma nodes_fold (sel : id -> bool) (F : heap -> id -> heap) l :
  (forall h m, nodes (F h m) = nodes h) -> forall h0,
  nodes (fold_left (fun h' m => if sel m then F h' m else h') l h0) = nodes h0.
Proof.
  intros HF. induction l as [|m l IH]; intros h0; [reflexivity|].
  cbn [fold_left]. rewrite IH. destruct (sel m); [apply HF|reflexivity].
Qed.

Lemma nodes_rebuild_caches h n : nodes (rebuild_caches h n) = nodes h.
Proof. unfold rebuild_caches. apply (nodes_fold (fun m => is_elem (nodes h m)) build_caches). apply nodes_build_caches. Qed.

Lemma nodes_remove_one h n : nodes (remove_one h n) = nodes h.
Proof. unfold remove_one. destruct (kind (nodes h n)); reflexivity. Qed.

Lemma nodes_remove_from_caches h l : nodes (remove_from_caches h l) = nodes h.
Proof. unfold remove_from_caches. apply (nodes_fold (fun m => is_elem (nodes h m)) remove_one). apply nodes_remove_one. Qed.

Lemma same_links_adopt h p c : same_links (nodes h) (nodes (adopt h p c)).
Proof.
  unfold adopt. set (h1 := set_owner h c (owner (nodes h p))).
  assert (H1 : same_links (nodes h) (nodes h1)) by (unfold h1, set_owner, set_nodes; cbn [nodes]; apply same_links_owner_map).
  destruct (owner (nodes h p) && is_elem (nodes h1 c)); [rewrite nodes_rebuild_caches|]; exact H1.
Qed.

(* ---------------- removeChild ---------------- *)
Lemma upd_field {A} (phi : nrec -> A) f i r j : phi (upd f i r j) = if Nat.eqb j i then phi r else phi (f j).
Proof. unfold upd. destruct (Nat.eqb j i); reflexivity. Qed.

(* the link fields after removing c from p, in terms of the fields before *)
Record removed (F G : id -> nrec) (p c : id) : Prop := {
  rm_kids : forall j, KIDS G j = if Nat.eqb j p then remove_first c (KIDS F p) else KIDS F j;
  rm_par : forall j, PAR G j = if Nat.eqb j c then None else PAR F j;
  rm_prev : forall j, PREV G j = if Nat.eqb j c then None else
             match NEXT F c with Some nx => if Nat.eqb j nx then PREV F c else PREV F j | None => PREV F j end;
  rm_next : forall j, NEXT G j = if Nat.eqb j c then None else
             match PREV F c with Some pv => if Nat.eqb j pv then NEXT F c else NEXT F j | None => NEXT F j end;
  rm_elem : forall j, ELEM G j = ELEM F j
}.

Lemma kids_upd_same g i r j : kids r = kids (g i) -> kids (upd g i r j) = kids (g j).
Proof. intros H. unfold upd. destruct (Nat.eqb j i) eqn:E; [apply Nat.eqb_eq in E; now subst|reflexivity]. Qed.
Lemma parent_upd_same g i r j : parent r = parent (g i) -> parent (upd g i r j) = parent (g j).
Proof. intros H. unfold upd. destruct (Nat.eqb j i) eqn:E; [apply Nat.eqb_eq in E; now subst|reflexivity]. Qed.
Lemma prev_upd_same g i r j : prev r = prev (g i) -> prev (upd g i r j) = prev (g j).
Proof. intros H. unfold upd. destruct (Nat.eqb j i) eqn:E; [apply Nat.eqb_eq in E; now subst|reflexivity]. Qed.
Lemma next_upd_same g i r j : next r = next (g i) -> next (upd g i r j) = next (g j).
Proof. intros H. unfold upd. destruct (Nat.eqb j i) eqn:E; [apply Nat.eqb_eq in E; now subst|reflexivity]. Qed.
Lemma elem_upd_same g i r j : is_elem r = is_elem (g i) -> is_elem (upd g i r j) = is_elem (g j).
Proof. intros H. unfold upd. destruct (Nat.eqb j i) eqn:E; [apply Nat.eqb_eq in E; now subst|reflexivity]. Qed.

Lemma unlink_removed f p c : c <> p -> removed f (unlink f p c) p c.
Proof.
  intros Hcp. assert (Hc : Nat.eqb c p = false) by now apply Nat.eqb_neq.
  set (f1 := upd f p (with_kids (f p) (remove_first c (kids (f p))))).
  assert (E1 : f1 c = f c) by (unfold f1, upd; now rewrite Hc).
  assert (U : unlink f p c =
    let f2 := match next (f c) with Some nx => upd f1 nx (with_prev (f1 nx) (prev (f c))) | None => f1 end in
    let f3 := match prev (f c) with Some pv => upd f2 pv (with_next (f2 pv) (next (f c))) | None => f2 end in
    upd f3 c (with_parent (with_prev (with_next (f3 c) None) None) None)).
  { unfold unlink. cbv zeta. fold f1. now rewrite E1. }
  rewrite U. clear U. cbv zeta.
  set (f2 := match next (f c) with Some nx => upd f1 nx (with_prev (f1 nx) (prev (f c))) | None => f1 end).
  set (f3 := match prev (f c) with Some pv => upd f2 pv (with_next (f2 pv) (next (f c))) | None => f2 end).
  constructor; intros j; unfold PAR, KIDS, PREV, NEXT, ELEM.
  - (* kids: only the first update touches them *)
    rewrite kids_upd_same by reflexivity.
    assert (K3 : kids (f3 j) = kids (f2 j)) by (unfold f3; destruct (prev (f c)); [apply kids_upd_same|]; reflexivity).
    assert (K2 : kids (f2 j) = kids (f1 j)) by (unfold f2; destruct (next (f c)); [apply kids_upd_same|]; reflexivity).
    rewrite K3, K2. unfold f1. rewrite upd_field. reflexivity.
  - rewrite upd_field. cbn [parent with_parent]. destruct (Nat.eqb j c); [reflexivity|].
    assert (K3 : parent (f3 j) = parent (f2 j)) by (unfold f3; destruct (prev (f c)); [apply parent_upd_same|]; reflexivity).
    assert (K2 : parent (f2 j) = parent (f1 j)) by (unfold f2; destruct (next (f c)); [apply parent_upd_same|]; reflexivity).
    rewrite K3, K2. unfold f1. now apply parent_upd_same.
  - rewrite upd_field. cbn [prev with_parent with_prev]. destruct (Nat.eqb j c); [reflexivity|].
    assert (K3 : prev (f3 j) = prev (f2 j)) by (unfold f3; destruct (prev (f c)); [apply prev_upd_same|]; reflexivity).
    rewrite K3. unfold f2. destruct (next (f c)) as [nx|].
    + rewrite upd_field. cbn [prev with_prev]. destruct (Nat.eqb j nx); [reflexivity|].
      unfold f1. now apply prev_upd_same.
    + unfold f1. now apply prev_upd_same.
  - rewrite upd_field. cbn [next with_parent with_prev with_next]. destruct (Nat.eqb j c); [reflexivity|].
    unfold f3. destruct (prev (f c)) as [pv|].
    + rewrite upd_field. cbn [next with_next]. destruct (Nat.eqb j pv); [reflexivity|].
      assert (K2 : next (f2 j) = next (f1 j)) by (unfold f2; destruct (next (f c)); [apply next_upd_same|]; reflexivity).
      rewrite K2. unfold f1. now apply next_upd_same.
    + assert (K2 : next (f2 j) = next (f1 j)) by (unfold f2; destruct (next (f c)); [apply next_upd_same|]; reflexivity).
      rewrite K2. unfold f1. now apply next_upd_same.
  - rewrite elem_upd_same by reflexivity.
    assert (K3 : is_elem (f3 j) = is_elem (f2 j)) by (unfold f3; destruct (prev (f c)); [apply elem_upd_same|]; reflexivity).
    assert (K2 : is_elem (f2 j) = is_elem (f1 j)) by (unfold f2; destruct (next (f c)); [apply elem_upd_same|]; reflexivity).
    rewrite K3, K2. unfold f1. now apply elem_upd_same.
Qed.

Lemma hd_or_in nx l x : hd_or nx l = Some x -> l <> [] -> In x l.
Proof. destruct l; [contradiction|]. cbn. intros H _. injection H as ->. now left. Qed.
Lemma hd_or_none_in l x : hd_or None l = Some x -> In x l.
Proof. destruct l; [discriminate|]. cbn. intros H. injection H as ->. now left. Qed.
Lemma last_opt_in l x : last_opt l = Some x -> In x l.
Proof.
  unfold last_opt. intros H. apply in_rev. destruct (rev l); [discriminate|]. injection H as ->. now left.
Qed.
Lemma last_or_none_in l x : last_or None l = Some x -> In x l.
Proof. unfold last_or. destruct (last_opt l) eqn:E; [intros H; injection H as ->; now apply last_opt_in|discriminate]. Qed.

(* change what follows the segment: only the last element's next field matters *)
Lemma chain_relast f g pv a nx0 nx1 : NoDup a -> chain f pv a nx0 ->
  (forall x, In x a -> prev (g x) = prev (f x) /\ next (g x) = if match last_opt a with Some l => Nat.eqb x l | None => false end then nx1 else next (f x)) ->
  chain g pv a nx1.
Proof.
  revert pv. induction a as [|x a IH]; intros pv Hd Hc Hg; [exact I|].
  destruct Hc as (H1 & H2 & H3). apply NoDup_cons_iff in Hd as [Hn Hd'].
  destruct (Hg x (or_introl eq_refl)) as [G1 G2]. cbn [chain]. rewrite G1, G2.
  destruct a as [|y a'].
  - unfold last_opt. cbn. rewrite Nat.eqb_refl. repeat split; assumption.
  - rewrite last_opt_cons. split; [exact H1|]. split.
    + destruct (last_opt (y :: a')) as [l|] eqn:E; [|exact H2].
      destruct (Nat.eqb x l) eqn:E2; [|exact H2]. apply Nat.eqb_eq in E2. subst l.
      exfalso. apply Hn. now apply last_opt_in.
    + apply IH; [exact Hd'|exact H3|]. intros z Hz. destruct (Hg z (or_intror Hz)) as [Z1 Z2].
      rewrite last_opt_cons in Z2. now split.
Qed.

(* change what precedes the segment: only the first element's prev field matters *)
Lemma chain_rehead f g pv0 pv1 b nx : NoDup b -> chain f pv0 b nx ->
  (forall x, In x b -> next (g x) = next (f x) /\ prev (g x) = if match b with h :: _ => Nat.eqb x h | [] => false end then pv1 else prev (f x)) ->
  chain g pv1 b nx.
Proof.
  intros Hd Hc Hg. destruct b as [|y b]; [exact I|].
  destruct Hc as (H1 & H2 & H3). apply NoDup_cons_iff in Hd as [Hn Hd'].
  destruct (Hg y (or_introl eq_refl)) as [G1 G2]. rewrite Nat.eqb_refl in G2.
  cbn [chain]. rewrite G1, G2. repeat split; try assumption.
  apply (chain_ext f g); [|exact H3]. intros z Hz. destruct (Hg z (or_intror Hz)) as [Z1 Z2].
  destruct (Nat.eqb z y) eqn:E; [apply Nat.eqb_eq in E; subst; contradiction|]. now rewrite Z1, Z2.
Qed.

Lemma NoDup_app_l {A} (a b : list A) : NoDup (a ++ b) -> NoDup a.
Proof. induction a as [|x a IH]; intros H; [constructor|]. cbn in H. apply NoDup_cons_iff in H as [Hn H]. constructor; [intros Hx; apply Hn; apply in_or_app; now left|now apply IH]. Qed.
Lemma NoDup_app_r {A} (a b : list A) : NoDup (a ++ b) -> NoDup b.
Proof. induction a as [|x a IH]; intros H; [exact H|]. cbn in H. apply NoDup_cons_iff in H as [_ H]. now apply IH. Qed.

Theorem removed_consistent F G p c a b :
  Consistent F -> kids (F p) = a ++ c :: b -> removed F G p c -> Consistent G.
Proof.
  intros [C1 C2 C3 C4 C5 C6 C7] Hk [R1 R2 R3 R4 R5].
  unfold PAR, KIDS, PREV, NEXT, ELEM in *.
  pose proof (C3 p) as Hnd. rewrite Hk in Hnd.
  assert (Hca : ~ In c a) by (apply NoDup_remove_2 in Hnd; intros H; apply Hnd; apply in_or_app; now left).
  assert (Hcb : ~ In c b) by (apply NoDup_remove_2 in Hnd; intros H; apply Hnd; apply in_or_app; now right).
  assert (Hab : NoDup (a ++ b)) by now apply NoDup_remove_1 in Hnd.
  assert (Hrf : remove_first c (kids (F p)) = a ++ b) by (rewrite Hk; now apply remove_first_split).
  assert (Hpc : parent (F c) = Some p) by (apply C1; rewrite Hk; apply in_or_app; right; now left).
  pose proof (C4 p) as Hch. rewrite Hk in Hch. apply chain_app in Hch as [Hcha Hchb].
  cbn [hd_or] in Hcha. destruct Hchb as (Hprev & Hnext & Hchb).
  assert (Hcp : c <> p) by (intros ->; now apply (C7 p)).
  assert (KG : forall j, kids (G j) = if Nat.eqb j p then a ++ b else kids (F j)) by (intros j; rewrite R1, Hrf; reflexivity).
  assert (Hina : forall x, In x a -> parent (F x) = Some p /\ x <> c).
  { intros x Hx. split; [apply C1; rewrite Hk; apply in_or_app; now left|intros ->; contradiction]. }
  assert (Hinb : forall x, In x b -> parent (F x) = Some p /\ x <> c).
  { intros x Hx. split; [apply C1; rewrite Hk; apply in_or_app; right; now right|intros ->; contradiction]. }
  assert (Hdisj : forall x, In x a -> In x b -> False).
  { intros x Ha Hb. clear -Hab Ha Hb. induction a as [|y a IH]; [contradiction|].
    cbn in Hab. inversion Hab as [|? ? Hn Hd]; subst. destruct Ha as [->|Ha]; [apply Hn; apply in_or_app; now right|now apply IH]. }
  (* the neighbours whose fields change *)
  assert (Hnx : forall nx, next (F c) = Some nx -> In nx b) by (intros nx E; rewrite Hnext in E; now apply hd_or_none_in).
  assert (Hpv : forall pv, prev (F c) = Some pv -> In pv a) by (intros pv E; rewrite Hprev in E; now apply last_or_none_in).
  (* fields of a node that is neither c nor a neighbour are unchanged *)
  assert (Hsame : forall x, x <> c -> parent (F x) <> Some p -> prev (G x) = prev (F x) /\ next (G x) = next (F x)).
  { intros x Hxc Hxp. rewrite R3, R4. apply Nat.eqb_neq in Hxc. rewrite Hxc. split.
    - destruct (next (F c)) as [nx|] eqn:E; [|reflexivity]. destruct (Nat.eqb x nx) eqn:E2; [|reflexivity].
      apply Nat.eqb_eq in E2. subst. exfalso. apply Hxp. now apply (Hinb nx (Hnx nx eq_refl)).
    - destruct (prev (F c)) as [pv|] eqn:E; [|reflexivity]. destruct (Nat.eqb x pv) eqn:E2; [|reflexivity].
      apply Nat.eqb_eq in E2. subst. exfalso. apply Hxp. now apply (Hina pv (Hpv pv eq_refl)). }
  constructor.
  - (* c_kids *)
    intros q x. rewrite KG, R2. destruct (Nat.eqb q p) eqn:Eq.
    + apply Nat.eqb_eq in Eq. subst q. intros Hin. apply in_app_or in Hin as [Hin|Hin].
      * destruct (Hina x Hin) as [A B]. apply Nat.eqb_neq in B. now rewrite B.
      * destruct (Hinb x Hin) as [A B]. apply Nat.eqb_neq in B. now rewrite B.
    + intros Hin. pose proof (C1 q x Hin) as Hp. destruct (Nat.eqb x c) eqn:E; [|exact Hp].
      apply Nat.eqb_eq in E. subst x. rewrite Hpc in Hp. injection Hp as <-. now rewrite Nat.eqb_refl in Eq.
  - (* c_par *)
    intros q x. rewrite KG, R2. destruct (Nat.eqb x c) eqn:E; [discriminate|]. apply Nat.eqb_neq in E.
    intros Hp. pose proof (C2 q x Hp) as Hin. destruct (Nat.eqb q p) eqn:Eq; [|exact Hin].
    apply Nat.eqb_eq in Eq. subst q. rewrite Hk in Hin. apply in_app_or in Hin as [Hin|[Hin|Hin]].
    + apply in_or_app. now left.
    + congruence.
    + apply in_or_app. now right.
  - intros q. rewrite KG. destruct (Nat.eqb q p); [exact Hab|apply C3].
  - (* c_chain *)
    intros q. rewrite KG. destruct (Nat.eqb q p) eqn:Eq.
    + apply chain_app. split.
      * apply (chain_relast F G None a (Some c) (hd_or None b)); [now apply NoDup_app_l in Hab|exact Hcha|].
        intros x Hx. destruct (Hina x Hx) as [Hxp Hxc]. rewrite R3, R4. apply Nat.eqb_neq in Hxc. rewrite Hxc. split.
        -- destruct (next (F c)) as [nx|] eqn:E; [|reflexivity]. destruct (Nat.eqb x nx) eqn:E2; [|reflexivity].
           apply Nat.eqb_eq in E2. subst. exfalso. apply (Hdisj nx Hx). now apply Hnx.
        -- rewrite Hprev, Hnext. unfold last_or. destruct (last_opt a) as [l|] eqn:El; reflexivity.
      * apply (chain_rehead F G (Some c) (last_or None a) b None); [now apply NoDup_app_r in Hab|exact Hchb|].
        intros x Hx. destruct (Hinb x Hx) as [Hxp Hxc]. rewrite R3, R4. apply Nat.eqb_neq in Hxc. rewrite Hxc. split.
        -- destruct (prev (F c)) as [pv|] eqn:E; [|reflexivity]. destruct (Nat.eqb x pv) eqn:E2; [|reflexivity].
           apply Nat.eqb_eq in E2. subst. exfalso. apply (Hdisj pv); [now apply Hpv|exact Hx].
        -- rewrite Hnext, Hprev. destruct b as [|y b']; [contradiction|]. cbn [hd_or]. reflexivity.
    + apply (chain_ext F G); [|apply C4]. intros x Hx.
      assert (Hxq : parent (F x) = Some q) by now apply C1.
      assert (Hxc : x <> c) by (intros ->; rewrite Hpc in Hxq; injection Hxq as <-; now rewrite Nat.eqb_refl in Eq).
      assert (Hxp : parent (F x) <> Some p) by (rewrite Hxq; intros H; injection H as ->; now rewrite Nat.eqb_refl in Eq).
      destruct (Hsame x Hxc Hxp) as [A B]. now rewrite A, B.
  - (* c_free *)
    intros x. rewrite R2. destruct (Nat.eqb x c) eqn:E.
    + intros _. rewrite R3, R4, E. split; reflexivity.
    + intros Hp. apply Nat.eqb_neq in E. destruct (C5 x Hp) as [A B].
      assert (Hxp : parent (F x) <> Some p) by (rewrite Hp; discriminate).
      destruct (Hsame x E Hxp) as [A' B']. now rewrite A', B'.
  - intros n. rewrite R5, KG. intros He. destruct (Nat.eqb n p) eqn:E; [|now apply C6].
    apply Nat.eqb_eq in E. subst n. rewrite (C6 p He) in Hk. destruct a; discriminate.
  - intros n. rewrite R2. destruct (Nat.eqb n c); [discriminate|apply C7].
Qed.

Lemma nodes_if_remove (b : bool) h4 sub : nodes (if b then remove_from_caches h4 sub else h4) = nodes h4.
Proof. destruct b; [apply nodes_remove_from_caches|reflexivity]. Qed.

Theorem remove_child_consistent h p c : Consistent (nodes h) -> Consistent (nodes (heap_of (remove_child h p c))).
Proof.
  intros HC. unfold remove_child. destruct (is_childless (nodes h p)); [exact HC|].
  destruct (index_of c (kids (nodes h p))) as [i|] eqn:Hi; [|exact HC].
  cbn [heap_of]. destruct (index_of_split _ _ _ Hi) as (a & b & Hk & _ & _).
  assert (Hcp : c <> p).
  { intros ->. apply (c_noself _ HC p). apply (c_kids _ HC). rewrite Hk. apply in_or_app. right. now left. }
  cbv zeta. unfold set_nodes at 1. cbn [nodes]. rewrite nodes_if_remove. unfold set_nodes. cbn [nodes].
  eapply Consistent_same; [apply same_links_owner_map|].
  apply (removed_consistent (nodes h) _ p c a b HC Hk). now apply unlink_removed.
Qed.

(* after a successful removeChild the node is detached *)
Lemma remove_child_detached h p c h' : Consistent (nodes h) -> remove_child h p c = ROk h' ->
  parent (nodes h' c) = None /\ (forall j, is_elem (nodes h' j) = is_elem (nodes h j)).
Proof.
  intros HC. unfold remove_child. destruct (is_childless (nodes h p)); [discriminate|].
  destruct (index_of c (kids (nodes h p))) as [i|] eqn:Hi; [|discriminate].
  destruct (index_of_split _ _ _ Hi) as (a & b & Hk & _ & _).
  assert (Hcp : c <> p).
  { intros ->. apply (c_noself _ HC p). apply (c_kids _ HC). rewrite Hk. apply in_or_app. right. now left. }
  intros H. injection H as <-.
  pose proof (unlink_removed (nodes h) p c Hcp) as [R1 R2 R3 R4 R5].
  cbv zeta. unfold set_nodes at 1. cbn [nodes]. rewrite nodes_if_remove. unfold set_nodes. cbn [nodes].
  split.
  - specialize (R2 c). unfold PAR in R2. rewrite Nat.eqb_refl in R2.
    destruct (existsb _ _); cbn [parent with_owner]; exact R2.
  - intros j. specialize (R5 j). unfold ELEM in R5. destruct (existsb _ _); cbn [is_elem kind with_owner]; exact R5.
Qed.

Lemma NoDup_app_intro_local {A} (a b : list A) :
  NoDup a -> NoDup b -> (forall x, In x a -> In x b -> False) -> NoDup (a ++ b).
Proof.
  induction a as [|x a IH]; intros Ha Hb Hd; [exact Hb|].
  apply NoDup_cons_iff in Ha as [Hn Ha']. cbn. constructor.
  - intros Hin. apply in_app_or in Hin as [Hin|Hin]; [contradiction|]. apply (Hd x); [now left|exact Hin].
  - apply IH; try assumption. intros y H1 H2. apply (Hd y); [now right|exact H2].
Qed.

(* ---------------- appendChild ---------------- *)
Record appended (F G : id -> nrec) (p c : id) : Prop := {
  ap_kids : forall j, KIDS G j = if Nat.eqb j p then KIDS F p ++ [c] else KIDS F j;
  ap_par : forall j, PAR G j = if Nat.eqb j c then Some p else PAR F j;
  ap_prev : forall j, PREV G j = if Nat.eqb j c then match last_opt (KIDS F p) with Some l => Some l | None => PREV F c end else PREV F j;
  ap_next : forall j, NEXT G j = if Nat.eqb j c then None else
             match last_opt (KIDS F p) with Some l => if Nat.eqb j l then Some c else NEXT F j | None => NEXT F j end;
  ap_elem : forall j, ELEM G j = ELEM F j
}.

Lemma link_last_appended f p c : c <> p -> ~ In c (kids (f p)) -> appended f (link_last f p c) p c.
Proof.
  intros Hcp Hck. assert (Hc : Nat.eqb c p = false) by now apply Nat.eqb_neq.
  assert (Hpc : Nat.eqb p c = false) by (apply Nat.eqb_neq; congruence).
  unfold link_last. cbv zeta.
  set (f2 := match last_opt (kids (f p)) with
             | Some l => upd (upd f c (with_prev (f c) (Some l))) l (with_next (upd f c (with_prev (f c) (Some l)) l) (Some c))
             | None => f end).
  assert (K2 : forall j, kids (f2 j) = kids (f j)).
  { intros j. unfold f2. destruct (last_opt (kids (f p))); [|reflexivity]. rewrite kids_upd_same by reflexivity. now apply kids_upd_same. }
  assert (P2 : forall j, parent (f2 j) = parent (f j)).
  { intros j. unfold f2. destruct (last_opt (kids (f p))); [|reflexivity]. rewrite parent_upd_same by reflexivity. now apply parent_upd_same. }
  assert (E2 : forall j, is_elem (f2 j) = is_elem (f j)).
  { intros j. unfold f2. destruct (last_opt (kids (f p))); [|reflexivity]. rewrite elem_upd_same by reflexivity. now apply elem_upd_same. }
  assert (Hlc : forall l, last_opt (kids (f p)) = Some l -> Nat.eqb c l = false).
  { intros l Hl. apply Nat.eqb_neq. intros ->. apply Hck. now apply last_opt_in. }
  constructor; intros j; unfold PAR, KIDS, PREV, NEXT, ELEM.
  - rewrite kids_upd_same by reflexivity. rewrite upd_field. cbn [kids with_kids]. rewrite K2.
    destruct (Nat.eqb j p); [reflexivity|apply K2].
  - rewrite upd_field. cbn [parent with_parent with_next]. destruct (Nat.eqb j c); [reflexivity|].
    rewrite parent_upd_same by reflexivity. apply P2.
  - rewrite upd_field. cbn [prev with_parent with_next].
    rewrite (prev_upd_same f2 p) by reflexivity.
    destruct (Nat.eqb j c) eqn:Ej.
    + unfold f2. destruct (last_opt (kids (f p))) as [l|] eqn:El; [|reflexivity].
      rewrite prev_upd_same by reflexivity. rewrite upd_field, Nat.eqb_refl. reflexivity.
    + rewrite (prev_upd_same f2 p) by reflexivity.
      unfold f2. destruct (last_opt (kids (f p))) as [l|] eqn:El; [|reflexivity].
      rewrite prev_upd_same by reflexivity. rewrite upd_field, Ej. reflexivity.
  - rewrite upd_field. cbn [next with_parent with_next]. destruct (Nat.eqb j c) eqn:Ej; [reflexivity|].
    rewrite next_upd_same by reflexivity.
    unfold f2. destruct (last_opt (kids (f p))) as [l|] eqn:El; [|reflexivity].
    rewrite upd_field. cbn [next with_next]. destruct (Nat.eqb j l); [reflexivity|].
    rewrite next_upd_same by reflexivity. reflexivity.
  - rewrite elem_upd_same by reflexivity. rewrite elem_upd_same by reflexivity. apply E2.
Qed.

Theorem appended_consistent F G p c :
  Consistent F -> c <> p -> parent (F c) = None -> is_elem (F p) = true -> appended F G p c -> Consistent G.
Proof.
  intros [C1 C2 C3 C4 C5 C6 C7] Hcp Hdet Hel [A1 A2 A3 A4 A5].
  unfold PAR, KIDS, PREV, NEXT, ELEM in *.
  destruct (C5 c Hdet) as [Hpc Hnc].
  assert (Hnotkid : forall q, ~ In c (kids (F q))) by (intros q H; apply C1 in H; congruence).
  assert (Hl : forall l, last_opt (kids (F p)) = Some l -> parent (F l) = Some p /\ l <> c).
  { intros l E. apply last_opt_in in E. split; [now apply C1|]. intros ->. now apply (Hnotkid p). }
  constructor.
  - intros q x. rewrite A1, A2. destruct (Nat.eqb q p) eqn:Eq.
    + apply Nat.eqb_eq in Eq. subst q. intros Hin. apply in_app_or in Hin as [Hin|[<-|[]]].
      * destruct (Nat.eqb x c) eqn:E; [reflexivity|now apply C1].
      * now rewrite Nat.eqb_refl.
    + intros Hin. destruct (Nat.eqb x c) eqn:E; [apply Nat.eqb_eq in E; subst; exfalso; now apply (Hnotkid q)|now apply C1].
  - intros q x. rewrite A1, A2. destruct (Nat.eqb x c) eqn:E.
    + intros H. injection H as <-. rewrite Nat.eqb_refl. apply Nat.eqb_eq in E. subst. apply in_or_app. right. now left.
    + intros H. apply C2 in H. destruct (Nat.eqb q p) eqn:Eq; [apply Nat.eqb_eq in Eq; subst; apply in_or_app; now left|exact H].
  - intros q. rewrite A1. destruct (Nat.eqb q p); [|apply C3].
    apply NoDup_app_intro_local; [apply C3|repeat constructor; intros []|]. intros x Hx [<-|[]]. now apply (Hnotkid p).
  - intros q. rewrite A1. destruct (Nat.eqb q p) eqn:Eq.
    + apply chain_app. cbn [hd_or]. split.
      * apply (chain_relast F G None (kids (F p)) None (Some c)); [apply C3|apply C4|].
        intros x Hx. assert (Hxc : Nat.eqb x c = false) by (apply Nat.eqb_neq; intros ->; now apply (Hnotkid p)).
        rewrite A3, A4, Hxc. split; [reflexivity|]. destruct (last_opt (kids (F p))); reflexivity.
      * cbn [chain]. rewrite A3, A4, Nat.eqb_refl. unfold last_or. destruct (last_opt (kids (F p))); [|rewrite Hpc]; auto.
    + apply (chain_ext F G); [|apply C4]. intros x Hx.
      assert (Hxq : parent (F x) = Some q) by now apply C1.
      assert (Hxc : Nat.eqb x c = false) by (apply Nat.eqb_neq; intros ->; now apply (Hnotkid q)).
      rewrite A3, A4, Hxc. split; [reflexivity|].
      destruct (last_opt (kids (F p))) as [l|] eqn:El; [|reflexivity].
      destruct (Nat.eqb x l) eqn:E; [|reflexivity]. apply Nat.eqb_eq in E. subst.
      destruct (Hl l eq_refl) as [Hlp _]. rewrite Hlp in Hxq. injection Hxq as <-. now rewrite Nat.eqb_refl in Eq.
  - intros x. rewrite A2. destruct (Nat.eqb x c) eqn:E; [discriminate|]. intros Hp. destruct (C5 x Hp) as [Hx1 Hx2].
    rewrite A3, A4, E. split; [exact Hx1|].
    destruct (last_opt (kids (F p))) as [l|] eqn:El; [|exact Hx2].
    destruct (Nat.eqb x l) eqn:E2; [|exact Hx2]. apply Nat.eqb_eq in E2. subst. destruct (Hl l eq_refl) as [Hlp _]. congruence.
  - intros n. rewrite A5, A1. intros He. destruct (Nat.eqb n p) eqn:E; [apply Nat.eqb_eq in E; subst; congruence|now apply C6].
  - intros n. rewrite A2. destruct (Nat.eqb n c) eqn:E; [apply Nat.eqb_eq in E; subst; intros H; injection H as <-; contradiction|apply C7].
Qed.

Lemma adopt_consistent h p c : Consistent (nodes h) -> Consistent (nodes (adopt h p c)).
Proof. apply Consistent_same, same_links_adopt. Qed.

Lemma remove_child_raise_same h p c e h' : remove_child h p c = RRaise e h' -> h' = h.
Proof.
  unfold remove_child. destruct (is_childless (nodes h p)); [intros H; now injection H|].
  destruct (index_of c (kids (nodes h p))); [discriminate|intros H; now injection H].
Qed.

(* the optional detach that appendChild and insertBefore start with *)
Lemma detach_first h c r : Consistent (nodes h) ->
  (match parent (nodes h c) with Some op => remove_child h op c | None => ROk h end) = r ->
  match r with
  | ROk h1 => Consistent (nodes h1) /\ parent (nodes h1 c) = None /\ (forall j, is_elem (nodes h1 j) = is_elem (nodes h j))
  | RRaise _ h1 => h1 = h
  end.
Proof.
  intros HC. destruct (parent (nodes h c)) as [op|] eqn:Ep.
  - intros <-. destruct (remove_child h op c) as [h1|e h1] eqn:E.
    + pose proof (remove_child_consistent h op c HC) as H1. rewrite E in H1. cbn in H1.
      destruct (remove_child_detached h op c h1 HC E) as [A B]. auto.
    + now apply remove_child_raise_same in E.
  - intros <-. auto.
Qed.

Theorem append_child_consistent h p c : Consistent (nodes h) -> c <> p ->
  Consistent (nodes (heap_of (append_child h p c))).
Proof.
  intros HC Hcp. unfold append_child. destruct (is_childless (nodes h p)) eqn:Ecl; [exact HC|].
  pose proof (detach_first h c _ HC eq_refl) as Hd.
  destruct (match parent (nodes h c) with Some op => remove_child h op c | None => ROk h end) as [h1|e h1]; cbn [bind_res heap_of].
  - destruct Hd as (H1 & Hdet & Hel).
    apply adopt_consistent. unfold set_nodes. cbn [nodes].
    assert (Hnk : ~ In c (kids (nodes h1 p))) by (intros H; apply (c_kids _ H1) in H; congruence).
    apply (appended_consistent (nodes h1) _ p c H1 Hcp Hdet).
    + rewrite Hel. unfold is_childless in Ecl. now apply negb_false_iff in Ecl.
    + now apply link_last_appended.
  - now subst h1.
Qed.

(* ---------------- insertBefore ---------------- *)
Record inserted (F G : id -> nrec) (p c r : id) (a : list id) : Prop := {
  in_kids : forall j, KIDS G j = if Nat.eqb j p then insert_at (List.length a) c (KIDS F p) else KIDS F j;
  in_par : forall j, PAR G j = if Nat.eqb j c then Some p else PAR F j;
  in_prev : forall j, PREV G j = if Nat.eqb j c then last_opt a else if Nat.eqb j r then Some c else PREV F j;
  in_next : forall j, NEXT G j = if Nat.eqb j c then Some r else
             match last_opt a with Some pv => if Nat.eqb j pv then Some c else NEXT F j | None => NEXT F j end;
  in_elem : forall j, ELEM G j = ELEM F j
}.

Lemma nth_error_last a (rest : list id) i' : List.length a = S i' -> nth_error (a ++ rest) i' = last_opt a.
Proof.
  revert i'. induction a as [|x a IH]; intros i' H; [discriminate|].
  destruct a as [|y a'].
  - cbn in H. injection H as <-. reflexivity.
  - destruct i' as [|i'']; [cbn in H; discriminate|]. cbn [app nth_error]. rewrite last_opt_cons.
    apply (IH i''). cbn in *. lia.
Qed.

Lemma link_before_inserted f p c r a b :
  c <> p -> r <> c -> kids (f p) = a ++ r :: b -> ~ In c (kids (f p)) -> prev (f c) = None ->
  inserted f (link_before f p c r (List.length a)) p c r a.
Proof.
  intros Hcp Hrc Hk Hck Hpc.
  assert (Hc : Nat.eqb c p = false) by now apply Nat.eqb_neq.
  assert (Hcr : Nat.eqb c r = false) by (apply Nat.eqb_neq; congruence).
  unfold link_before. cbv zeta.
  set (f2 := upd f p (with_kids (f p) (insert_at (List.length a) c (kids (f p))))).
  set (f3 := upd f2 c (with_next (f2 c) (Some r))).
  set (f4 := upd f3 r (with_prev (f3 r) (Some c))).
  assert (Hpv : forall i', List.length a = S i' -> exists pv, nth_error (kids (f p)) i' = Some pv /\ last_opt a = Some pv /\ Nat.eqb c pv = false).
  { intros i' Hl. rewrite Hk, (nth_error_last a (r :: b) i' Hl).
    destruct (last_opt a) as [pv|] eqn:E.
    - exists pv. repeat split. apply Nat.eqb_neq. intros ->. apply Hck. rewrite Hk. apply in_or_app. left. now apply last_opt_in.
    - exfalso. unfold last_opt in E. destruct a as [|x a']; [discriminate|]. cbn in E. destruct (rev a' ++ [x]) eqn:E2; [destruct (rev a'); discriminate|discriminate]. }
  assert (K4 : forall j, kids (f4 j) = kids (f2 j)) by (intros j; unfold f4, f3; rewrite !kids_upd_same by reflexivity; reflexivity).
  assert (P4 : forall j, parent (f4 j) = parent (f j)) by (intros j; unfold f4, f3, f2; rewrite !parent_upd_same by reflexivity; reflexivity).
  assert (E4 : forall j, is_elem (f4 j) = is_elem (f j)) by (intros j; unfold f4, f3, f2; rewrite !elem_upd_same by reflexivity; reflexivity).
  assert (PV4 : forall j, prev (f4 j) = if Nat.eqb j r then Some c else prev (f j)).
  { intros j. unfold f4. rewrite upd_field. cbn [prev with_prev]. destruct (Nat.eqb j r); [reflexivity|].
    unfold f3, f2. rewrite !prev_upd_same by reflexivity. reflexivity. }
  assert (NX4 : forall j, next (f4 j) = if Nat.eqb j c then Some r else next (f j)).
  { intros j. unfold f4. rewrite next_upd_same by reflexivity. unfold f3. rewrite upd_field. cbn [next with_next].
    destruct (Nat.eqb j c); [reflexivity|]. unfold f2. now rewrite next_upd_same. }
  destruct (List.length a) as [|i'] eqn:El.
  - (* r is the first child *)
    assert (Ha : a = []) by (destruct a; [reflexivity|discriminate]). subst a.
    constructor; intros j; unfold PAR, KIDS, PREV, NEXT, ELEM.
    + rewrite !kids_upd_same by reflexivity. rewrite K4. unfold f2. rewrite upd_field. rewrite ?El. reflexivity.
    + rewrite upd_field. cbn [parent with_parent]. destruct (Nat.eqb j c); [reflexivity|].
      rewrite parent_upd_same by reflexivity. apply P4.
    + rewrite prev_upd_same by reflexivity. rewrite upd_field. cbn [prev with_prev].
      destruct (Nat.eqb j c); [reflexivity|]. apply PV4.
    + rewrite next_upd_same by reflexivity. rewrite next_upd_same by reflexivity. cbn [last_opt rev]. apply NX4.
    + rewrite !elem_upd_same by reflexivity. apply E4.
  - destruct (Hpv i' eq_refl) as (pv & Hn & Hl & Hcpv). rewrite Hn.
    constructor; intros j; unfold PAR, KIDS, PREV, NEXT, ELEM.
    + rewrite !kids_upd_same by reflexivity. rewrite K4. unfold f2. rewrite upd_field. rewrite ?El. reflexivity.
    + rewrite upd_field. cbn [parent with_parent]. destruct (Nat.eqb j c); [reflexivity|].
      rewrite !parent_upd_same by reflexivity. apply P4.
    + rewrite prev_upd_same by reflexivity. rewrite upd_field. cbn [prev with_prev]. rewrite Hl.
      destruct (Nat.eqb j c); [reflexivity|]. rewrite prev_upd_same by reflexivity. apply PV4.
    + rewrite next_upd_same by reflexivity. rewrite next_upd_same by reflexivity.
      rewrite upd_field. cbn [next with_next]. rewrite Hl.
      destruct (Nat.eqb j c) eqn:Ej.
      * apply Nat.eqb_eq in Ej. subst j. rewrite Hcpv. rewrite NX4, Nat.eqb_refl. reflexivity.
      * destruct (Nat.eqb j pv); [reflexivity|]. rewrite NX4, Ej. reflexivity.
    + rewrite !elem_upd_same by reflexivity. apply E4.
Qed.

Theorem inserted_consistent F G p c r a b :
  Consistent F -> c <> p -> r <> c -> parent (F c) = None -> is_elem (F p) = true ->
  kids (F p) = a ++ r :: b -> inserted F G p c r a -> Consistent G.
Proof.
  intros [C1 C2 C3 C4 C5 C6 C7] Hcp Hrc Hdet Hel Hk [I1 I2 I3 I4 I5].
  unfold PAR, KIDS, PREV, NEXT, ELEM in *.
  assert (Hnotkid : forall q, ~ In c (kids (F q))) by (intros q H; apply C1 in H; congruence).
  assert (KG : forall j, kids (G j) = if Nat.eqb j p then a ++ c :: r :: b else kids (F j)).
  { intros j. rewrite I1, Hk, insert_at_split. reflexivity. }
  pose proof (C3 p) as Hnd. rewrite Hk in Hnd.
  assert (Hra : ~ In r a) by (apply NoDup_remove_2 in Hnd; intros H; apply Hnd; apply in_or_app; now left).
  assert (Hinp : forall x, In x (a ++ r :: b) -> parent (F x) = Some p /\ Nat.eqb x c = false).
  { intros x Hx. rewrite <- Hk in Hx. split; [now apply C1|]. apply Nat.eqb_neq. intros ->. now apply (Hnotkid p). }
  pose proof (C4 p) as Hch. rewrite Hk in Hch. apply chain_app in Hch as [Hcha Hchb]. cbn [hd_or] in Hcha.
  assert (Hla : forall pv, last_opt a = Some pv -> In pv a) by (intros pv; apply last_opt_in).
  constructor.
  - intros q x. rewrite KG, I2. destruct (Nat.eqb q p) eqn:Eq.
    + apply Nat.eqb_eq in Eq. subst q. intros Hin. destruct (Nat.eqb x c) eqn:E; [reflexivity|].
      apply Nat.eqb_neq in E. apply (proj1 (Hinp x ltac:(apply in_app_or in Hin as [H|[H|H]]; [apply in_or_app; now left|congruence|apply in_or_app; now right]))).
    + intros Hin. destruct (Nat.eqb x c) eqn:E; [apply Nat.eqb_eq in E; subst; exfalso; now apply (Hnotkid q)|now apply C1].
  - intros q x. rewrite KG, I2. destruct (Nat.eqb x c) eqn:E.
    + intros H. injection H as <-. rewrite Nat.eqb_refl. apply Nat.eqb_eq in E. subst. apply in_or_app. right. now left.
    + intros H. apply C2 in H. destruct (Nat.eqb q p) eqn:Eq; [|exact H]. apply Nat.eqb_eq in Eq. subst q.
      rewrite Hk in H. apply in_app_or in H as [H|H]; apply in_or_app; [now left|right; now right].
  - intros q. rewrite KG. destruct (Nat.eqb q p); [|apply C3].
    apply NoDup_app_intro_local.
    + now apply NoDup_app_l in Hnd.
    + constructor; [|now apply NoDup_app_r in Hnd].
      intros H. apply (Hnotkid p). rewrite Hk. apply in_or_app. now right.
    + intros x Ha [<-|Hb]; [apply (Hnotkid p); rewrite Hk; apply in_or_app; now left|].
      clear -Hnd Ha Hb. induction a as [|y a IH]; [contradiction|].
      cbn in Hnd. apply NoDup_cons_iff in Hnd as [Hn Hd]. destruct Ha as [->|Ha]; [apply Hn; apply in_or_app; now right|now apply IH].
  - intros q. rewrite KG. destruct (Nat.eqb q p) eqn:Eq.
    + apply chain_app. cbn [hd_or]. split.
      * apply (chain_relast F G None a (Some r) (Some c)); [now apply NoDup_app_l in Hnd|exact Hcha|].
        intros x Hx. destruct (Hinp x (in_or_app _ _ _ (or_introl Hx))) as [_ Hxc]. rewrite I3, I4, Hxc.
        assert (Hxr : Nat.eqb x r = false) by (apply Nat.eqb_neq; intros ->; contradiction). rewrite Hxr.
        split; [reflexivity|]. destruct (last_opt a); reflexivity.
      * cbn [chain]. rewrite I3, I4, Nat.eqb_refl. cbn [hd_or]. split; [unfold last_or; destruct (last_opt a); reflexivity|]. split; [reflexivity|].
        apply (chain_rehead F G (last_or None a) (Some c) (r :: b) None); [now apply NoDup_app_r in Hnd|exact Hchb|].
        intros x Hx. destruct (Hinp x (in_or_app _ _ _ (or_intror Hx))) as [_ Hxc]. rewrite I3, I4, Hxc. split; [|reflexivity].
        destruct (last_opt a) as [pv|] eqn:El; [|reflexivity]. destruct (Nat.eqb x pv) eqn:E; [|reflexivity].
        apply Nat.eqb_eq in E. subst. exfalso. apply last_opt_in in El.
        clear -Hnd El Hx. induction a as [|y a IH]; [contradiction|].
        cbn in Hnd. apply NoDup_cons_iff in Hnd as [Hn Hd]. destruct El as [->|El]; [apply Hn; apply in_or_app; now right|now apply IH].
    + apply (chain_ext F G); [|apply C4]. intros x Hx.
      assert (Hxq : parent (F x) = Some q) by now apply C1.
      assert (Hxc : Nat.eqb x c = false) by (apply Nat.eqb_neq; intros ->; now apply (Hnotkid q)).
      assert (Hnp : forall y, In y (a ++ r :: b) -> Nat.eqb x y = false).
      { intros y Hy. apply Nat.eqb_neq. intros ->. destruct (Hinp y Hy) as [Hyp _]. rewrite Hyp in Hxq. injection Hxq as <-. now rewrite Nat.eqb_refl in Eq. }
      rewrite I3, I4, Hxc. rewrite (Hnp r) by (apply in_or_app; right; now left). split; [reflexivity|].
      destruct (last_opt a) as [pv|] eqn:El; [|reflexivity]. rewrite (Hnp pv); [reflexivity|]. apply in_or_app. left. now apply last_opt_in.
  - intros x. rewrite I2. destruct (Nat.eqb x c) eqn:E; [discriminate|]. intros Hp. destruct (C5 x Hp) as [Hx1 Hx2].
    assert (Hnp : forall y, In y (a ++ r :: b) -> Nat.eqb x y = false).
    { intros y Hy. apply Nat.eqb_neq. intros ->. destruct (Hinp y Hy) as [Hyp _]. congruence. }
    rewrite I3, I4, E. rewrite (Hnp r) by (apply in_or_app; right; now left). split; [exact Hx1|].
    destruct (last_opt a) as [pv|] eqn:El; [|exact Hx2]. rewrite (Hnp pv); [exact Hx2|]. apply in_or_app. left. now apply last_opt_in.
  - intros n. rewrite I5, KG. intros He. destruct (Nat.eqb n p) eqn:E; [apply Nat.eqb_eq in E; subst; congruence|now apply C6].
  - intros n. rewrite I2. destruct (Nat.eqb n c) eqn:E; [apply Nat.eqb_eq in E; subst; intros H; injection H as <-; contradiction|apply C7].
Qed.

Theorem insert_before_consistent h p c ref : Consistent (nodes h) -> c <> p ->
  Consistent (nodes (heap_of (insert_before h p c ref))).
Proof.
  intros HC Hcp. unfold insert_before. destruct (is_childless (nodes h p)) eqn:Ecl; [exact HC|].
  destruct ref as [r|]; [|now apply append_child_consistent].
  destruct (index_of r (kids (nodes h p))) as [i0|]; [|exact HC].
  destruct (Nat.eqb r c) eqn:Erc; [exact HC|]. apply Nat.eqb_neq in Erc.
  pose proof (detach_first h c _ HC eq_refl) as Hd.
  destruct (match parent (nodes h c) with Some op => remove_child h op c | None => ROk h end) as [h1|e h1]; cbn [bind_res heap_of].
  - destruct Hd as (H1 & Hdet & Hel).
    destruct (index_of r (kids (nodes h1 p))) as [i|] eqn:Hi; [|exact H1]. cbn [heap_of].
    destruct (index_of_split _ _ _ Hi) as (a & b & Hk & Hl & _). subst i.
    apply adopt_consistent. unfold set_nodes. cbn [nodes].
    assert (Hnk : ~ In c (kids (nodes h1 p))) by (intros H; apply (c_kids _ H1) in H; congruence).
    apply (inserted_consistent (nodes h1) _ p c r a b H1 Hcp Erc Hdet).
    + rewrite Hel. unfold is_childless in Ecl. now apply negb_false_iff in Ecl.
    + exact Hk.
    + apply (link_before_inserted (nodes h1) p c r a b); try assumption. now destruct (c_free _ H1 c Hdet).
  - now subst h1.
Qed.

(* ---------------- fresh nodes ---------------- *)
Definition Fresh (f : id -> nrec) (j : id) : Prop := parent (f j) = None /\ kids (f j) = [].
Definition WF (h : heap) : Prop := Consistent (nodes h) /\ forall j, (alloc h <= j)%nat -> Fresh (nodes h) j.

Lemma new_node_consistent h k : WF h -> WF (fst (new_node h k)) /\ snd (new_node h k) = alloc h.
Proof.
  intros [[C1 C2 C3 C4 C5 C6 C7] HF]. unfold new_node. cbn [fst snd nodes alloc]. split; [|reflexivity].
  remember (alloc h) as n eqn:En. destruct (HF n ltac:(lia)) as [Hp Hk]. destruct (C5 n Hp) as [Hpv Hnx].
  set (g := upd (nodes h) n (mkN k None [] None None false None)).
  assert (P : forall j, parent (g j) = parent (nodes h j)) by (intros j; unfold g; rewrite upd_field; cbn; destruct (Nat.eqb j n) eqn:E; [apply Nat.eqb_eq in E; now subst|reflexivity]).
  assert (K : forall j, kids (g j) = kids (nodes h j)) by (intros j; unfold g; rewrite upd_field; cbn; destruct (Nat.eqb j n) eqn:E; [apply Nat.eqb_eq in E; now subst|reflexivity]).
  assert (PV : forall j, prev (g j) = prev (nodes h j)) by (intros j; unfold g; rewrite upd_field; cbn; destruct (Nat.eqb j n) eqn:E; [apply Nat.eqb_eq in E; now subst|reflexivity]).
  assert (NX : forall j, next (g j) = next (nodes h j)) by (intros j; unfold g; rewrite upd_field; cbn; destruct (Nat.eqb j n) eqn:E; [apply Nat.eqb_eq in E; now subst|reflexivity]).
  split.
  - constructor.
    + intros p c. rewrite K, P. apply C1.
    + intros p c. rewrite K, P. apply C2.
    + intros p. rewrite K. apply C3.
    + intros p. rewrite K. apply (chain_ext (nodes h) g); [|apply C4]. intros x _. now rewrite PV, NX.
    + intros c. rewrite P, PV, NX. apply C5.
    + intros j He. rewrite K. destruct (Nat.eqb j n) eqn:E; [apply Nat.eqb_eq in E; now subst|].
      apply C6. simpl in He. unfold g, upd in He. rewrite E in He. exact He.
    + intros j. rewrite P. apply C7.
  - intros j Hj. simpl in Hj. unfold Fresh. rewrite P, K. apply HF. lia.
Qed.

(* operations over allocated nodes keep everything beyond alloc fresh *)
Lemma removed_fresh F G p c j : removed F G p c -> j <> p -> j <> c -> Fresh F j -> Fresh G j.
Proof.
  intros [R1 R2 _ _ _] Hp Hc [A B]. unfold Fresh, PAR, KIDS in *. rewrite R1, R2.
  apply Nat.eqb_neq in Hp, Hc. now rewrite Hp, Hc.
Qed.
Lemma appended_fresh F G p c j : appended F G p c -> j <> p -> j <> c -> Fresh F j -> Fresh G j.
Proof.
  intros [R1 R2 _ _ _] Hp Hc [A B]. unfold Fresh, PAR, KIDS in *. rewrite R1, R2.
  apply Nat.eqb_neq in Hp, Hc. now rewrite Hp, Hc.
Qed.
Lemma inserted_fresh F G p c r a j : inserted F G p c r a -> j <> p -> j <> c -> Fresh F j -> Fresh G j.
Proof.
  intros [R1 R2 _ _ _] Hp Hc [A B]. unfold Fresh, PAR, KIDS in *. rewrite R1, R2.
  apply Nat.eqb_neq in Hp, Hc. now rewrite Hp, Hc.
Qed.
Lemma fresh_same f g j : same_links f g -> Fresh f j -> Fresh g j.
Proof. intros H [A B]. destruct (H j) as (P & K & _). unfold Fresh, PAR, KIDS in *. now rewrite <- P, <- K. Qed.

Lemma remove_child_alloc h p c : alloc (heap_of (remove_child h p c)) = alloc h.
Proof.
  unfold remove_child. destruct (is_childless _); [reflexivity|]. destruct (index_of _ _); [|reflexivity].
  cbn [heap_of]. cbv zeta. unfold set_nodes at 1. cbn [alloc].
  match goal with |- alloc (if ?b then _ else _) = _ => destruct b end; [|reflexivity].
  unfold remove_from_caches. generalize (subtree_ids h c) as l.
  assert (G : forall l h0, alloc (fold_left (fun h' m => if is_elem (nodes (set_nodes h (unlink (nodes h) p c)) m) then remove_one h' m else h') l h0) = alloc h0).
  { induction l as [|m l IH]; intros h0; [reflexivity|]. cbn [fold_left]. rewrite IH.
    destruct (is_elem _); [|reflexivity]. unfold remove_one. destruct (kind (nodes h0 m)); reflexivity. }
  intros l. now rewrite G.
Qed.

Lemma adopt_alloc h p c : alloc (adopt h p c) = alloc h.
Proof.
  unfold adopt. set (h1 := set_owner h c (owner (nodes h p))).
  assert (A1 : alloc h1 = alloc h) by reflexivity.
  destruct (owner (nodes h p) && is_elem (nodes h1 c)); [|exact A1].
  unfold rebuild_caches. generalize (subtree_ids h1 c) as l.
  assert (G : forall l h0, alloc (fold_left (fun h' m => if is_elem (nodes h1 m) then build_caches h' m else h') l h0) = alloc h0).
  { induction l as [|m l IH]; intros h0; [reflexivity|]. cbn [fold_left]. rewrite IH.
    destruct (is_elem _); [|reflexivity]. unfold build_caches. destruct (kind (nodes h0 m)); try reflexivity.
    destruct (Nat.eqb q Q_STYLE); [|reflexivity]. destruct (sname (nodes h0 m)); [|reflexivity]. destruct (style_parent_ok h0 m); reflexivity. }
  intros l. now rewrite G.
Qed.

Lemma remove_child_fresh h p c j : Consistent (nodes h) -> j <> p -> j <> c -> Fresh (nodes h) j ->
  Fresh (nodes (heap_of (remove_child h p c))) j.
Proof.
  intros HC Hp Hc HF. unfold remove_child. destruct (is_childless _); [exact HF|].
  destruct (index_of c (kids (nodes h p))) as [i|] eqn:Hi; [|exact HF]. cbn [heap_of]. cbv zeta.
  destruct (index_of_split _ _ _ Hi) as (a & b & Hk & _ & _).
  assert (Hcp : c <> p).
  { intros ->. apply (c_noself _ HC p). apply (c_kids _ HC). rewrite Hk. apply in_or_app. right. now left. }
  unfold set_nodes at 1. cbn [nodes]. rewrite nodes_if_remove. unfold set_nodes. cbn [nodes].
  eapply fresh_same; [apply same_links_owner_map|].
  eapply removed_fresh; [now apply unlink_removed|assumption|assumption|exact HF].
Qed.

Lemma detach_fresh h c j : Consistent (nodes h) -> j <> c -> Fresh (nodes h) j ->
  Fresh (nodes (heap_of (match parent (nodes h c) with Some op => remove_child h op c | None => ROk h end))) j.
Proof.
  intros HC Hc HF. destruct (parent (nodes h c)) as [op|] eqn:Ep; [|exact HF].
  apply remove_child_fresh; try assumption.
  intros ->. destruct HF as [_ HK]. apply (c_par _ HC) in Ep. rewrite HK in Ep. contradiction.
Qed.

Lemma detach_alloc h c : alloc (heap_of (match parent (nodes h c) with Some op => remove_child h op c | None => ROk h end)) = alloc h.
Proof. destruct (parent (nodes h c)); [apply remove_child_alloc|reflexivity]. Qed.

Lemma append_child_wf h p c : WF h -> (p < alloc h)%nat -> (c < alloc h)%nat -> c <> p ->
  WF (heap_of (append_child h p c)) /\ alloc (heap_of (append_child h p c)) = alloc h.
Proof.
  intros [HC HF] Hp Hc Hcp. split; [split; [now apply append_child_consistent|]|].
  - intros j Hj. revert Hj. unfold append_child. destruct (is_childless (nodes h p)) eqn:Ecl; [cbn [heap_of]; apply HF|].
    pose proof (detach_first h c _ HC eq_refl) as Hd. pose proof (detach_fresh h c) as Hfr. pose proof (detach_alloc h c) as Hal.
    destruct (match parent (nodes h c) with Some op => remove_child h op c | None => ROk h end) as [h1|e h1]; cbn [bind_res heap_of] in *.
    + destruct Hd as (H1 & Hdet & Hel). rewrite adopt_alloc. cbn [alloc set_nodes]. rewrite Hal. intros Hj.
      eapply fresh_same; [apply same_links_adopt|]. unfold set_nodes. cbn [nodes].
      assert (Hnk : ~ In c (kids (nodes h1 p))) by (intros H; apply (c_kids _ H1) in H; congruence).
      eapply appended_fresh; [now apply link_last_appended| | |apply Hfr; [exact HC| |apply HF]]; lia.
    + rewrite Hal. subst h1. apply HF.
  - unfold append_child. destruct (is_childless (nodes h p)); [reflexivity|].
    pose proof (detach_alloc h c) as Hal.
    destruct (match parent (nodes h c) with Some op => remove_child h op c | None => ROk h end) as [h1|e h1]; cbn [bind_res heap_of] in *; [|exact Hal].
    now rewrite adopt_alloc.
Qed.

Lemma insert_before_wf h p c ref : WF h -> (p < alloc h)%nat -> (c < alloc h)%nat -> c <> p ->
  WF (heap_of (insert_before h p c ref)) /\ alloc (heap_of (insert_before h p c ref)) = alloc h.
Proof.
  intros [HC HF] Hp Hc Hcp.
  assert (Hal0 : alloc (heap_of (insert_before h p c ref)) = alloc h).
  { unfold insert_before. destruct (is_childless (nodes h p)); [reflexivity|].
    destruct ref as [r|]; [|now apply append_child_wf].
    destruct (index_of r (kids (nodes h p))); [|reflexivity]. destruct (Nat.eqb r c); [reflexivity|].
    pose proof (detach_alloc h c) as Hal.
    destruct (match parent (nodes h c) with Some op => remove_child h op c | None => ROk h end) as [h1|e h1]; cbn [bind_res heap_of] in *; [|exact Hal].
    destruct (index_of r (kids (nodes h1 p))); cbn [heap_of]; [now rewrite adopt_alloc|exact Hal]. }
  split; [split; [now apply insert_before_consistent|]|exact Hal0].
  rewrite Hal0. intros j Hj. unfold insert_before. destruct (is_childless (nodes h p)) eqn:Ecl; [now apply HF|].
  destruct ref as [r|]; [|destruct (append_child_wf h p c (conj HC HF) Hp Hc Hcp) as [[_ HF'] Ha]; apply HF'; lia].
  destruct (index_of r (kids (nodes h p))) as [i0|]; [|now apply HF].
  destruct (Nat.eqb r c) eqn:Erc; [now apply HF|]. apply Nat.eqb_neq in Erc.
  pose proof (detach_first h c _ HC eq_refl) as Hd. pose proof (detach_fresh h c) as Hfr.
  destruct (match parent (nodes h c) with Some op => remove_child h op c | None => ROk h end) as [h1|e h1]; cbn [bind_res heap_of] in *.
  - destruct Hd as (H1 & Hdet & Hel).
    assert (Hj1 : Fresh (nodes h1) j) by (apply Hfr; [exact HC|lia|now apply HF]).
    destruct (index_of r (kids (nodes h1 p))) as [i|] eqn:Hi; [|exact Hj1]. cbn [heap_of].
    destruct (index_of_split _ _ _ Hi) as (a & b & Hk & Hl & _). subst i.
    eapply fresh_same; [apply same_links_adopt|]. unfold set_nodes. cbn [nodes].
    assert (Hnk : ~ In c (kids (nodes h1 p))) by (intros H; apply (c_kids _ H1) in H; congruence).
    eapply (inserted_fresh (nodes h1) _ p c r a); [|lia|lia|exact Hj1].
    apply (link_before_inserted (nodes h1) p c r a b); try assumption. now destruct (c_free _ H1 c Hdet).
  - subst h1. now apply HF.
Qed.

Lemma remove_child_wf h p c : WF h -> (p < alloc h)%nat -> (c < alloc h)%nat ->
  WF (heap_of (remove_child h p c)) /\ alloc (heap_of (remove_child h p c)) = alloc h.
Proof.
  intros [HC HF] Hp Hc. split; [split; [now apply remove_child_consistent|]|apply remove_child_alloc].
  rewrite remove_child_alloc. intros j Hj. apply remove_child_fresh; [exact HC|lia|lia|now apply HF].
Qed.

(* ---------------- every operation, every history ---------------- *)
Definition op_ok (h : heap) (o : op) : Prop :=
  match o with
  | OAppend p c | OAddElement p c _ => (p < alloc h)%nat /\ (c < alloc h)%nat /\ c <> p
  | OInsert p c r => (p < alloc h)%nat /\ (c < alloc h)%nat /\ c <> p
  | ORemove p c => (p < alloc h)%nat /\ (c < alloc h)%nat
  | OAddText p _ _ _ => (p < alloc h)%nat
  end.

Theorem step_wf h o : WF h -> op_ok h o -> WF (heap_of (step h o)) /\ (alloc h <= alloc (heap_of (step h o)))%nat.
Proof.
  intros HW Ho. destruct o as [p c|p c r|p c|p c al|p al em cd]; cbn [step op_ok] in *.
  - destruct Ho as (A & B & C). destruct (append_child_wf h p c HW A B C) as [W E]. split; [exact W|lia].
  - destruct Ho as (A & B & C). destruct (insert_before_wf h p c r HW A B C) as [W E]. split; [exact W|lia].
  - destruct Ho as (A & B). destruct (remove_child_wf h p c HW A B) as [W E]. split; [exact W|lia].
  - destruct Ho as (A & B & C). unfold add_element. destruct (negb al); [split; [exact HW|cbn; lia]|].
    destruct (append_child_wf h p c HW A B C) as [W E]. split; [exact W|lia].
  - unfold add_text. destruct (negb (is_elem (nodes h p))); [split; [exact HW|cbn; lia]|].
    destruct (negb al); [split; [exact HW|cbn; lia]|].
    destruct (em && negb cd); [split; [exact HW|cbn; lia]|].
    destruct (new_node_consistent h (if cd then KCData else KText) HW) as [W1 E1].
    destruct (new_node h (if cd then KCData else KText)) as [h1 t] eqn:En. cbn [fst snd] in *. subst t.
    assert (A1 : alloc h1 = S (alloc h)) by (unfold new_node in En; injection En as <-; reflexivity).
    destruct (append_child_wf h1 p (alloc h) W1) as [W E]; try lia. split; [exact W|lia].
Qed.

Fixpoint run (h : heap) (ops : list op) : heap :=
  match ops with [] => h | o :: r => run (heap_of (step h o)) r end.

(* operations are judged against the heap they are applied to *)
Fixpoint ops_ok (h : heap) (ops : list op) : Prop :=
  match ops with [] => True | o :: r => op_ok h o /\ ops_ok (heap_of (step h o)) r end.

Theorem run_wf ops : forall h, WF h -> ops_ok h ops -> WF (run h ops).
Proof.
  induction ops as [|o r IH]; intros h HW Ho; [exact HW|].
  destruct Ho as [H1 H2]. cbn [run]. apply IH; [|exact H2]. now apply step_wf.
Qed.

(* removing or inserting relative to a node that is not a child raises the DOM not-found error,
   and changes nothing *)
Theorem remove_not_child h p c : ~ In c (kids (nodes h p)) -> remove_child h p c = RRaise NotFoundErr h.
Proof.
  intros H. unfold remove_child. destruct (is_childless (nodes h p)); [reflexivity|].
  apply index_of_none in H. now rewrite H.
Qed.

Theorem insert_ref_not_child h p c r : is_elem (nodes h p) = true -> ~ In r (kids (nodes h p)) ->
  insert_before h p c (Some r) = RRaise NotFoundErr h.
Proof.
  intros He H. unfold insert_before, is_childless. rewrite He. cbn [negb].
  apply index_of_none in H. now rewrite H.
Qed.

(* a node is listed by at most one parent, once *)
Theorem one_parent f q1 q2 c : Consistent f -> In c (kids (f q1)) -> In c (kids (f q2)) -> q1 = q2.
Proof. intros HC H1 H2. apply (c_kids _ HC) in H1, H2. congruence. Qed.

(* a successful appendChild leaves the node last among the parent's children *)
Theorem append_child_last h p c h' : Consistent (nodes h) -> c <> p ->
  append_child h p c = ROk h' -> exists ks, kids (nodes h' p) = ks ++ [c].
Proof.
  intros HC Hcp. unfold append_child. destruct (is_childless (nodes h p)); [discriminate|].
  pose proof (detach_first h c _ HC eq_refl) as Hd.
  destruct (match parent (nodes h c) with Some op => remove_child h op c | None => ROk h end) as [h1|e h1]; cbn [bind_res]; [|discriminate].
  destruct Hd as (H1 & Hdet & _). intros H. injection H as <-.
  assert (Hnk : ~ In c (kids (nodes h1 p))) by (intros H; apply (c_kids _ H1) in H; congruence).
  destruct (same_links_adopt (set_nodes h1 (link_last (nodes h1) p c)) p c p) as (_ & K & _). unfold KIDS in K. rewrite <- K.
  unfold set_nodes. cbn [nodes]. destruct (link_last_appended (nodes h1) p c Hcp Hnk) as [A _ _ _ _].
  specialize (A p). unfold KIDS in A. rewrite A, Nat.eqb_refl. eexists. reflexivity.
Qed.

(* ---------------- a starting point: nothing linked ---------------- *)
Definition blank (k : nkind) : nrec := mkN k None [] None None false None.
Definition heap0 (nelem ntext : nat) : heap :=
  mkH (fun j => if Nat.ltb j nelem then blank (KElem (3 + j)) else blank KText) (nelem + ntext) [] [].

Lemma heap0_wf a b : WF (heap0 a b).
Proof.
  assert (B : forall j, parent (nodes (heap0 a b) j) = None /\ kids (nodes (heap0 a b) j) = [] /\
                        prev (nodes (heap0 a b) j) = None /\ next (nodes (heap0 a b) j) = None).
  { intros j. cbn [heap0 nodes]. destruct (Nat.ltb j a); repeat split. }
  split; [constructor|].
  - intros p c. destruct (B p) as (_ & K & _). rewrite K. intros [].
  - intros p c. destruct (B c) as (P & _). rewrite P. discriminate.
  - intros p. destruct (B p) as (_ & K & _). rewrite K. constructor.
  - intros p. destruct (B p) as (_ & K & _). rewrite K. exact I.
  - intros c _. destruct (B c) as (_ & _ & A & C). auto.
  - intros n _. now destruct (B n) as (_ & K & _).
  - intros n. destruct (B n) as (P & _). rewrite P. discriminate.
  - intros j _. destruct (B j) as (P & K & _). split; assumption.
Qed.

Open Scope nat_scope.
Example run_example :
  let h := run (heap0 3 2) [OAppend 0 1; OAppend 0 3; OInsert 0 2 (Some 3); OAppend 1 4; OInsert 0 1 (Some 2); ORemove 0 3] in
  map (fun j => kids (nodes h j)) [0; 1; 2] = [[1; 2]; [4]; []] /\
  map (fun j => (prev (nodes h j), next (nodes h j))) [1; 2; 3] = [(None, Some 2); (Some 1, None); (None, None)].
Proof. vm_compute. split; reflexivity. Qed.

(* ---------------- a raising operation changes nothing (C07, DOM part) ---------------- *)
Lemma remove_keeps_other h op c r p : Consistent (nodes h) -> r <> c -> In r (kids (nodes h p)) ->
  In r (kids (nodes (heap_of (remove_child h op c)) p)).
Proof.
  intros HC Hrc Hin. unfold remove_child. destruct (is_childless (nodes h op)); [exact Hin|].
  destruct (index_of c (kids (nodes h op))) as [i|] eqn:Hi; [|exact Hin]. cbn [heap_of]. cbv zeta.
  destruct (index_of_split _ _ _ Hi) as (a & b & Hk & _ & Hna).
  assert (Hcp : c <> op).
  { intros ->. apply (c_noself _ HC op). apply (c_kids _ HC). rewrite Hk. apply in_or_app. right. now left. }
  unfold set_nodes at 1. cbn [nodes]. rewrite nodes_if_remove. unfold set_nodes. cbn [nodes].
  destruct (unlink_removed (nodes h) op c Hcp) as [R1 _ _ _ _]. specialize (R1 p). unfold KIDS in R1.
  assert (K : kids (if existsb (Nat.eqb p) (subtree_ids h c) then with_owner (unlink (nodes h) op c p) false else unlink (nodes h) op c p)
              = kids (unlink (nodes h) op c p)) by (destruct (existsb _ _); reflexivity).
  rewrite K, R1. destruct (Nat.eqb p op) eqn:E; [|exact Hin].
  apply Nat.eqb_eq in E. subst p. rewrite Hk, remove_first_split by exact Hna.
  rewrite Hk in Hin. apply in_app_or in Hin as [H|[H|H]]; apply in_or_app; [now left|congruence|now right].
Qed.

Theorem step_raise_unchanged h o e h' : Consistent (nodes h) -> op_ok h o -> step h o = RRaise e h' -> h' = h.
Proof.
  intros HC Hok.
  assert (HA : forall p c, append_child h p c = RRaise e h' -> h' = h).
  { intros p c. unfold append_child. destruct (is_childless (nodes h p)); [intros H; now injection H|].
    destruct (parent (nodes h c)) as [op|]; cbn [bind_res]; [|discriminate].
    destruct (remove_child h op c) as [h1|e1 h1] eqn:E; cbn [bind_res]; [discriminate|].
    intros H. injection H as _ <-. now apply remove_child_raise_same in E. }
  destruct o as [p c|p c r|p c|p c al|p al em cd]; cbn [step].
  - apply HA.
  - unfold insert_before. destruct (is_childless (nodes h p)); [intros H; now injection H|].
    destruct r as [r|]; [|apply HA].
    destruct (index_of r (kids (nodes h p))) as [i0|] eqn:Hi0; [|intros H; now injection H].
    destruct (Nat.eqb r c) eqn:Erc; [discriminate|]. apply Nat.eqb_neq in Erc.
    assert (Hin : In r (kids (nodes h p))) by (apply index_of_in; now exists i0).
    destruct (parent (nodes h c)) as [op|]; cbn [bind_res].
    + pose proof (remove_keeps_other h op c r p HC Erc Hin) as Hk.
      destruct (remove_child h op c) as [h1|e1 h1] eqn:E; cbn [bind_res heap_of] in *.
      * apply index_of_in in Hk as [i Hi]. rewrite Hi. discriminate.
      * intros H. injection H as _ <-. now apply remove_child_raise_same in E.
    + rewrite Hi0. discriminate.
  - intros H. now apply remove_child_raise_same in H.
  - unfold add_element. destruct (negb al); [intros H; now injection H|apply HA].
  - cbn [op_ok] in Hok. unfold add_text. destruct (negb (is_elem (nodes h p))) eqn:Eel; [intros H; now injection H|].
    destruct (negb al); [intros H; now injection H|].
    destruct (em && negb cd); [discriminate|].
    unfold new_node. unfold append_child. cbn [nodes].
    assert (Hpa : Nat.eqb p (alloc h) = false) by (apply Nat.eqb_neq; lia).
    unfold upd at 1. rewrite Hpa. unfold is_childless. rewrite Eel.
    unfold upd at 1. rewrite Nat.eqb_refl. cbn [parent bind_res]. discriminate.
Qed.
