(* NsTableProofs.v — every reachable state of the namespace bookkeeping yields a
   namespace table under which the printer's output is namespace-well-formed
   (env_ok, env_ok2 of the round trip), bindings are never changed, and a known
   prefix used inside an attribute value gets declared. *)
From Coq Require Import Lia DecimalN.
From Odf Require Import model.Base model.Chars model.XmlPrint model.XmlLex model.XmlTree model.NsTable
  proofs.XmlPrintProofs proofs.XmlLexProofs proofs.XmlTokProofs proofs.XmlBuildProofs proofs.XmlResolveProofs.

(* ---------------- decimal numerals ---------------- *)
Lemma uint_chars_inj u v : uint_chars u = uint_chars v -> u = v.
Proof.
  revert v. induction u; intros v H; destruct v; cbn in H; try discriminate; try reflexivity;
    injection H as H; f_equal; now apply IHu.
Qed.

Lemma dec_inj a b : dec a = dec b -> a = b.
Proof.
  unfold dec. intros H. apply uint_chars_inj in H.
  rewrite <- (DecimalN.Unsigned.of_to a), <- (DecimalN.Unsigned.of_to b). now rewrite H.
Qed.

Lemma gen_prefix_inj a b : gen_prefix a = gen_prefix b -> a = b.
Proof.
  unfold gen_prefix. intros H. apply app_inv_head in H. apply dec_inj in H. now apply Nat2N.inj.
Qed.

Lemma uint_chars_digits u : forallb is_digit (uint_chars u) = true.
Proof. induction u; cbn; try reflexivity; exact IHu. Qed.

Lemma to_uint_nonnil n : N.to_uint n <> Decimal.Nil.
Proof.
  intros H. assert (E : N.of_uint (N.to_uint n) = n) by apply DecimalN.Unsigned.of_to.
  destruct n as [|p]; [cbn in H; discriminate|].
  unfold N.to_uint in H. pose proof (DecimalPos.Unsigned.to_uint_nonnil p). contradiction.
Qed.

(* generated prefixes: "ns" followed by at least one digit *)
Definition is_gen (p : str) : bool :=
  match strip_prefix sNS p with
  | Some (c :: r) => forallb is_digit (c :: r)
  | _ => false
  end.

Lemma gen_is_gen k : is_gen (gen_prefix k) = true.
Proof.
  unfold is_gen, gen_prefix, dec.
  assert (Hs : forall x, strip_prefix sNS (sNS ++ x) = Some x) by (intros x; reflexivity).
  rewrite Hs. pose proof (uint_chars_digits (N.to_uint (N.of_nat k))) as Hd.
  pose proof (to_uint_nonnil (N.of_nat k)) as Hn.
  destruct (N.to_uint (N.of_nat k)); try contradiction; cbn [uint_chars] in *; exact Hd.
Qed.

Lemma digits_nc l : forallb is_digit l = true -> forallb nc_char l = true.
Proof.
  induction l as [|x l IH]; [reflexivity|]. cbn [forallb]. intros H. apply andb_true_iff in H as [H1 H2].
  rewrite (IH H2), andb_true_r. unfold nc_char. rewrite H1. now rewrite orb_true_r.
Qed.

Lemma gen_prefix_ncname k : is_ncname (gen_prefix k) = true.
Proof.
  pose proof (gen_is_gen k) as H. unfold is_gen, gen_prefix in *.
  assert (Hs : forall x, strip_prefix sNS (sNS ++ x) = Some x) by (intros x; reflexivity).
  rewrite Hs in H. destruct (dec (N.of_nat k)) as [|c r]; [discriminate|].
  change (sNS ++ c :: r) with (110 :: 115 :: c :: r). cbn [is_ncname].
  change (nc_start 110) with true. cbn [andb]. cbn [forallb]. change (nc_char 115) with true. cbn [andb].
  now apply (digits_nc (c :: r)).
Qed.

Lemma gen_prefix_not_xmlns k : gen_prefix k <> sXMLNS.
Proof. unfold gen_prefix. intros H. vm_compute in H. discriminate. Qed.

(* ---------------- the invariant ---------------- *)
Section Inv.
Variable filtered : list (N * N).
Variable init : nstab.                       (* namespaces.nsdict at import time *)

Definition key_ok (ns : str) : bool := negb (str_eqb ns []) && forallb (ns_char_ok filtered) ns.

(* obligations on the initial table (discharged by computation for GenNs.nsdict_init) *)
Definition init_ok : bool :=
  nodup_by str_eqb (map fst init) && nodup_by str_eqb (map snd init) &&
  forallb (fun e => key_ok (fst e) && is_ncname (snd e) && negb (str_eqb (snd e) sXMLNS) && negb (is_gen (snd e))) init.
Hypothesis Hinit : init_ok = true.

Record Inv (s : nsstate) : Prop := {
  i_keys : NoDup (map fst (nd s));
  i_prefs : NoDup (map snd (nd s));
  i_shape : forall ns p, In (ns, p) (nd s) ->
            key_ok ns = true /\ is_ncname p = true /\ p <> sXMLNS /\
            (is_gen p = true -> exists k, (k < List.length (nd s))%nat /\ p = gen_prefix k);
  i_sub : forall ns p, In (ns, p) (nsp s) -> lookup_str ns (nd s) = Some p;
  i_nspkeys : NoDup (map fst (nsp s))
}.

Definition ns_init : nsstate := mkNs init [].

Lemma lookup_some_in k l v : lookup_str k l = Some v -> In (k, v) l.
Proof.
  induction l as [|[a b] l IH]; [discriminate|]. cbn [lookup_str]. destruct (str_eqb a k) eqn:E.
  - intros H. injection H as ->. apply str_eqb_eq in E. subst. now left.
  - intros H. right. now apply IH.
Qed.

Lemma lookup_none_notin k l : lookup_str k l = None -> ~ In k (map fst l).
Proof.
  induction l as [|[a b] l IH]; [intros _ []|]. cbn [lookup_str]. destruct (str_eqb a k) eqn:E; [discriminate|].
  intros H [Hx|Hx]; [cbn in Hx; subst; now rewrite str_eqb_refl in E|now apply IH].
Qed.

Lemma lookup_in_nodup k v l : NoDup (map fst l) -> In (k, v) l -> lookup_str k l = Some v.
Proof.
  induction l as [|[a b] l IH]; intros Hd Hin; [contradiction|].
  cbn [map fst] in Hd. inversion Hd as [|? ? Hn Hd']; subst. cbn [lookup_str].
  destruct Hin as [Hin|Hin].
  - injection Hin as -> ->. now rewrite str_eqb_refl.
  - destruct (str_eqb a k) eqn:E; [|now apply IH].
    apply str_eqb_eq in E. subst. exfalso. apply Hn. apply in_map_iff. exists (k, v). now split.
Qed.

Lemma lookup_app_l k a b v : lookup_str k a = Some v -> lookup_str k (a ++ b) = Some v.
Proof.
  induction a as [|[x y] a IH]; [discriminate|]. cbn [app lookup_str]. destruct (str_eqb x k); [auto|apply IH].
Qed.

Lemma Inv_init : Inv ns_init.
Proof.
  unfold init_ok in Hinit. apply andb_true_iff in Hinit as [H H3]. apply andb_true_iff in H as [H1 H2].
  constructor; cbn [nd nsp ns_init].
  - apply (nodup_by_NoDup str_eqb); [apply str_eqb_eq|exact H1].
  - apply (nodup_by_NoDup str_eqb); [apply str_eqb_eq|exact H2].
  - intros ns p Hin. rewrite forallb_forall in H3. specialize (H3 _ Hin). cbn [fst snd] in H3.
    apply andb_true_iff in H3 as [H3 Hg]. apply andb_true_iff in H3 as [H3 Hx]. apply andb_true_iff in H3 as [Hk Hn].
    apply negb_true_iff in Hg, Hx.
    repeat split; try assumption.
    + now apply str_eqb_neq.
    + intros Hg'. congruence.
  - intros ns p [].
  - constructor.
Qed.

Lemma nsassign_spec d ns : fst (nsassign d ns) = d /\ lookup_str ns d = Some (snd (nsassign d ns))
  \/ lookup_str ns d = None /\ nsassign d ns = (d ++ [(ns, gen_prefix (List.length d))], gen_prefix (List.length d)).
Proof. unfold nsassign. destruct (lookup_str ns d) as [p|]; [left|right]; cbn; auto. Qed.

Lemma Inv_get_nsprefix s ns : Inv s -> (ns = [] \/ key_ok ns = true) -> Inv (fst (get_nsprefix s ns)).
Proof.
  intros I Hk. unfold get_nsprefix. destruct ns as [|c ns']; [exact I|]. set (n := c :: ns') in *.
  destruct Hk as [Hk|Hk]; [discriminate|].
  destruct (nsassign_spec (nd s) n) as [[Hd Hl]|[Hl Ha]].
  - (* namespace already known: nsdict unchanged *)
    destruct (nsassign (nd s) n) as [d' p] eqn:E. cbn [fst snd] in *. subst d'.
    destruct (lookup_str n (nsp s)) eqn:En; [destruct I; constructor; assumption|].
    destruct I as [I1 I2 I3 I4 I5]. constructor; cbn [nd nsp]; try assumption.
    + intros ns0 p0 Hin. apply in_app_or in Hin as [Hin|[Hin|[]]]; [now apply I4|]. injection Hin as <- <-. exact Hl.
    + rewrite map_app. apply NoDup_app_intro; [exact I5|repeat constructor; intros []|].
      intros x Hx [<-|[]]. now apply (lookup_none_notin _ _ En).
  - (* a new namespace: append a generated prefix *)
    rewrite Ha. cbn [fst snd].
    destruct I as [I1 I2 I3 I4 I5].
    assert (Hnew : ~ In (gen_prefix (List.length (nd s))) (map snd (nd s))).
    { intros Hin. apply in_map_iff in Hin as [[ns0 p0] [Hp Hin]]. cbn [snd] in Hp. subst p0.
      destruct (I3 _ _ Hin) as (_ & _ & _ & Hg). destruct (Hg (gen_is_gen _)) as [k [Hk1 Hk2]].
      apply gen_prefix_inj in Hk2. lia. }
    constructor; cbn [nd nsp].
    + rewrite map_app. apply NoDup_app_intro; [exact I1|repeat constructor; intros []|].
      intros x Hx [<-|[]]. now apply (lookup_none_notin _ _ Hl).
    + rewrite map_app. apply NoDup_app_intro; [exact I2|repeat constructor; intros []|].
      intros x Hx [<-|[]]. contradiction.
    + intros ns0 p0 Hin. rewrite app_length. cbn [List.length]. apply in_app_or in Hin as [Hin|[Hin|[]]].
      * destruct (I3 _ _ Hin) as (A & B & C & D). repeat split; try assumption.
        intros Hg. destruct (D Hg) as [k [Hk1 Hk2]]. exists k. split; [lia|exact Hk2].
      * injection Hin as <- <-. repeat split; try assumption.
        -- apply gen_prefix_ncname.
        -- apply gen_prefix_not_xmlns.
        -- intros _. exists (List.length (nd s)). split; [lia|reflexivity].
    + destruct (lookup_str n (nsp s)) eqn:En.
      * intros ns0 p0 Hin. apply lookup_app_l. now apply I4.
      * intros ns0 p0 Hin. apply in_app_or in Hin as [Hin|[Hin|[]]].
        -- apply lookup_app_l. now apply I4.
        -- injection Hin as <- <-. apply lookup_in_nodup.
           ++ rewrite map_app. apply NoDup_app_intro; [exact I1|repeat constructor; intros []|].
              intros x Hx [<-|[]]. now apply (lookup_none_notin _ _ Hl).
           ++ apply in_or_app. right. now left.
    + destruct (lookup_str n (nsp s)) eqn:En; [exact I5|].
      rewrite map_app. apply NoDup_app_intro; [exact I5|repeat constructor; intros []|].
      intros x Hx [<-|[]]. now apply (lookup_none_notin _ _ En).
Qed.

Lemma get_knownns_in d p ns : get_knownns d p = Some ns -> In (ns, p) d.
Proof.
  induction d as [|[a q] d IH]; [discriminate|]. cbn [get_knownns]. destruct (str_eqb q p) eqn:E.
  - intros H. injection H as ->. apply str_eqb_eq in E. subst. now left.
  - intros H. right. now apply IH.
Qed.

Definition op_ok (o : nsop) : Prop :=
  match o with OpPrefix ns => ns = [] \/ key_ok ns = true | OpSavePrefix _ => True end.

Lemma Inv_step s o : Inv s -> op_ok o -> Inv (ns_step s o).
Proof.
  intros I Ho. destruct o as [ns|a]; cbn [ns_step].
  - now apply Inv_get_nsprefix.
  - unfold save_prefix. destruct (split_colon a []) as [[p|] r]; [|exact I].
    destruct (get_knownns (nd s) p) as [ns|] eqn:E; [|exact I].
    apply Inv_get_nsprefix; [exact I|]. right.
    apply get_knownns_in in E. now destruct (i_shape s I _ _ E).
Qed.

Theorem Inv_reachable ops : Forall op_ok ops -> Inv (fold_left ns_step ops ns_init).
Proof.
  intros H. assert (G : forall s, Inv s -> Inv (fold_left ns_step ops s)).
  { induction H as [|o ops Ho H IH]; intros s I; [exact I|]. cbn [fold_left]. apply IH. now apply Inv_step. }
  apply G, Inv_init.
Qed.

(* ---- what the invariant gives the printer ---- *)
Lemma in_pair_snd_inj (l : nstab) a b p : NoDup (map snd l) -> In (a, p) l -> In (b, p) l -> a = b.
Proof.
  induction l as [|[x y] l IH]; intros Hd H1 H2; [contradiction|].
  cbn [map snd] in Hd. inversion Hd as [|? ? Hn Hd']; subst.
  destruct H1 as [H1|H1], H2 as [H2|H2].
  - congruence.
  - injection H1 as -> ->. exfalso. apply Hn. apply in_map_iff. exists (b, p). now split.
  - injection H2 as -> ->. exfalso. apply Hn. apply in_map_iff. exists (a, p). now split.
  - now apply IH.
Qed.

Theorem Inv_env_ok s : Inv s -> env_ok filtered (nsp s) = true /\ env_ok2 (nsp s) = true.
Proof.
  intros [I1 I2 I3 I4 I5]. split.
  - unfold env_ok. apply forallb_forall. intros [ns p] Hin.
    pose proof (lookup_some_in _ _ _ (I4 _ _ Hin)) as Hd. destruct (I3 _ _ Hd) as (A & B & _ & _).
    unfold ns_entry_ok. cbn [fst snd]. unfold key_ok in A. apply andb_true_iff in A as [_ A]. now rewrite A, B.
  - unfold env_ok2. apply andb_true_iff. split.
    + apply forallb_forall. intros [ns p] Hin.
      pose proof (lookup_some_in _ _ _ (I4 _ _ Hin)) as Hd. destruct (I3 _ _ Hd) as (A & B & C & _).
      unfold entry_ok2. cbn [fst snd]. unfold key_ok in A. apply andb_true_iff in A as [A _].
      apply str_eqb_neq in C. now rewrite A, B, C.
    + apply (nodup_by_NoDup str_eqb); [apply str_eqb_eq|].
      assert (G : forall l, (forall ns p, In (ns, p) l -> In (ns, p) (nd s)) -> NoDup (map fst l) -> NoDup (map snd l)).
      { induction l as [|[a p] l IH]; intros Hs Hd; [constructor|].
        cbn [map fst snd] in *. inversion Hd as [|? ? Hn Hd']; subst. constructor.
        - intros Hin. apply in_map_iff in Hin as [[b q] [Hq Hb]]. cbn [snd] in Hq. subst q.
          assert (a = b) by (apply (in_pair_snd_inj (nd s) a b p I2); apply Hs; [now left|now right]).
          subst b. apply Hn. apply in_map_iff. exists (a, p). now split.
        - apply IH; [|exact Hd']. intros ns q H. apply Hs. now right. }
      apply G; [|exact I5]. intros ns p Hin. apply lookup_some_in. now apply I4.
Qed.

(* bindings are only ever added *)
Theorem step_monotone s o ns p : Inv s ->
  (lookup_str ns (nd s) = Some p -> lookup_str ns (nd (ns_step s o)) = Some p) /\
  (lookup_str ns (nsp s) = Some p -> lookup_str ns (nsp (ns_step s o)) = Some p).
Proof.
  intros I.
  assert (G : forall n, (lookup_str ns (nd s) = Some p -> lookup_str ns (nd (fst (get_nsprefix s n))) = Some p) /\
                        (lookup_str ns (nsp s) = Some p -> lookup_str ns (nsp (fst (get_nsprefix s n))) = Some p)).
  { intros n. unfold get_nsprefix. destruct n as [|c n']; [split; auto|].
    unfold nsassign. destruct (lookup_str (c :: n') (nd s)); cbn [fst nd nsp];
      (split; [intros H; try exact H; now apply lookup_app_l|]);
      destruct (lookup_str (c :: n') (nsp s)); intros H; try exact H; now apply lookup_app_l. }
  destruct o as [n|a]; cbn [ns_step]; [apply G|].
  unfold save_prefix. destruct (split_colon a []) as [[q|] r]; [|split; auto].
  destruct (get_knownns (nd s) q); [apply G|split; auto].
Qed.

(* a value "p:rest" whose prefix p is known to the table gets its namespace declared *)
Theorem save_prefix_declares s p rest ns : Inv s -> no_colon p = true ->
  get_knownns (nd s) p = Some ns ->
  lookup_str ns (nsp (save_prefix s (p ++ cCOLON :: rest))) = Some p.
Proof.
  intros I Hp Hk. unfold save_prefix. rewrite split_colon_app by exact Hp. cbn [app]. rewrite Hk.
  pose proof (get_knownns_in _ _ _ Hk) as Hin.
  destruct (i_shape s I _ _ Hin) as (A & _).
  assert (Hne : ns <> []) by (unfold key_ok in A; apply andb_true_iff in A as [A _]; apply negb_true_iff in A; now apply str_eqb_neq).
  assert (Hl : lookup_str ns (nd s) = Some p) by (apply lookup_in_nodup; [apply (i_keys s I)|exact Hin]).
  unfold get_nsprefix. destruct ns as [|c n']; [contradiction|]. unfold nsassign. rewrite Hl. cbn [fst nsp].
  destruct (lookup_str (c :: n') (nsp s)) as [q|] eqn:E.
  - pose proof (i_sub s I _ _ (lookup_some_in _ _ _ E)) as H2. congruence.
  - assert (G : forall l, lookup_str (c :: n') l = None -> lookup_str (c :: n') (l ++ [(c :: n', p)]) = Some p).
    { induction l as [|[x y] l IH]; intros H; [cbn; now rewrite N.eqb_refl, str_eqb_refl|].
      cbn [app lookup_str] in *. destruct (str_eqb x (c :: n')); [discriminate|now apply IH]. }
    now apply G.
Qed.
End Inv.
