(* EasyListProofs.v — C20: one correct level definition per specification. *)
From Coq Require Import Lia.
From Odf Require Import model.Base model.EasyList.

Lemma first_format_spec s : forall pre,
  match first_format s pre with
  | Some (p, f, suf) => exists mid, p = pre ++ mid /\ s = mid ++ f :: suf /\ is_format f = true /\ forallb (fun c => negb (is_format c)) mid = true
  | None => forallb (fun c => negb (is_format c)) s = true
  end.
Proof.
  induction s as [|c r IH]; intros pre; cbn [first_format]; [reflexivity|].
  destruct (is_format c) eqn:E.
  - exists []. rewrite app_nil_r. repeat split; auto.
  - specialize (IH (pre ++ [c])). destruct (first_format r (pre ++ [c])) as [[[p f] suf]|].
    + destruct IH as (mid & -> & -> & Hf & Hm). exists (c :: mid). rewrite <- app_assoc. cbn [app forallb]. rewrite E. repeat split; auto.
    + cbn [forallb]. now rewrite E.
Qed.

(* a numbering specification: prefix ++ [format] ++ suffix is the specification, the prefix holds no format character *)
Theorem number_level_correct show_all i spec pre f suf :
  first_format spec [] = Some (pre, f, suf) ->
  make_level show_all i spec = Ok (mkLevel (S i) (LNumber f pre suf (if show_all then S i else 1%nat)) (S i)) /\
  spec = pre ++ f :: suf /\ is_format f = true /\ forallb (fun c => negb (is_format c)) pre = true.
Proof.
  intros H. unfold make_level. rewrite H. split; [reflexivity|].
  pose proof (first_format_spec spec []) as S. rewrite H in S. destruct S as (mid & -> & -> & Hf & Hm). auto.
Qed.

(* any other non-empty specification: a bullet level whose bullet is its first character *)
Theorem bullet_level_correct show_all i c r :
  forallb (fun x => negb (is_format x)) (c :: r) = true ->
  make_level show_all i (c :: r) = Ok (mkLevel (S i) (LBullet c) (S i)).
Proof.
  intros H. unfold make_level.
  pose proof (first_format_spec (c :: r) []) as S. destruct (first_format (c :: r) []) as [[[p f] suf]|]; [|reflexivity].
  destruct S as (mid & _ & E & Hf & Hm). exfalso.
  assert (Hin : In f (c :: r)) by (rewrite E; apply in_or_app; right; now left).
  rewrite forallb_forall in H. specialize (H f Hin). now rewrite Hf in H.
Qed.

Theorem format_or_bullet spec : (exists p f s, first_format spec [] = Some (p, f, s)) \/
  (first_format spec [] = None /\ forallb (fun x => negb (is_format x)) spec = true).
Proof.
  pose proof (first_format_spec spec []) as S. destruct (first_format spec []) as [[[p f] suf]|]; [left; eauto|right; auto].
Qed.

(* exactly one level per specification, numbered from the start index, factor = level *)
Theorem build_levels show_all specs : forall i ls,
  build_from show_all i specs = Ok ls ->
  map lv_level ls = seq (S i) (List.length specs) /\ map lv_factor ls = seq (S i) (List.length specs).
Proof.
  induction specs as [|s r IH]; intros i ls H; cbn [build_from] in H.
  - injection H as <-. split; reflexivity.
  - destruct (make_level show_all i s) as [l|e] eqn:E; [|discriminate].
    destruct (build_from show_all (S i) r) as [ls'|e] eqn:E2; [|discriminate]. injection H as <-.
    destruct (IH (S i) ls' E2) as [H1 H2]. cbn [map List.length seq]. rewrite H1, H2.
    unfold make_level in E. destruct (first_format s []) as [[[p f] suf]|]; [injection E as <-; split; reflexivity|].
    destruct s; [discriminate|]. injection E as <-. split; reflexivity.
Qed.

(* non-empty specifications never raise *)
Theorem build_total show_all specs : Forall (fun s => s <> []) specs -> forall i, exists ls, build_from show_all i specs = Ok ls.
Proof.
  induction 1 as [|s r Hs Hr IH]; intros i; [eexists; reflexivity|].
  cbn [build_from]. assert (exists l, make_level show_all i s = Ok l) as [l ->].
  { unfold make_level. destruct (first_format s []) as [[[p f] suf]|]; [eexists; reflexivity|]. destruct s; [contradiction|eexists; reflexivity]. }
  destruct (IH (S i)) as [ls ->]. eexists; reflexivity.
Qed.

Theorem style_from_list_levels specs show_all : Forall (fun s => s <> []) specs ->
  exists ls, style_from_list specs show_all = Ok ls /\
    map lv_level ls = seq 1 (List.length specs) /\ map lv_factor ls = seq 1 (List.length specs).
Proof.
  intros H. destruct (build_total show_all specs H 0%nat) as [ls E]. exists ls. split; [exact E|]. now apply (build_levels show_all specs 0%nat).
Qed.

(* the string form: splitting the joined specifications at a delimiter none of them contains gives them back *)
Fixpoint join1 (d : cp) (l : list str) : str :=
  match l with [] => [] | [s] => s | s :: r => s ++ d :: join1 d r end.

Lemma split1_app d s : mem_cp d s = false -> forall rest cur, split1 d (s ++ rest) cur = split1 d rest (cur ++ s).
Proof.
  induction s as [|c s IH]; intros H rest cur; [now rewrite app_nil_r|].
  cbn [mem_cp] in H. apply orb_false_iff in H as [H1 H2]. cbn [app split1]. rewrite H1.
  rewrite IH by exact H2. now rewrite <- app_assoc.
Qed.

Theorem split_join d specs : specs <> [] -> Forall (fun s => mem_cp d s = false) specs ->
  split1 d (join1 d specs) [] = specs.
Proof.
  intros Hne H. induction H as [|s r Hs Hr IH]; [contradiction|].
  destruct r as [|s2 r'].
  - cbn [join1]. rewrite <- (app_nil_r s) at 1. rewrite split1_app by exact Hs. reflexivity.
  - change (join1 d (s :: s2 :: r')) with (s ++ d :: join1 d (s2 :: r')).
    rewrite split1_app by exact Hs. cbn [split1 app]. rewrite N.eqb_refl. f_equal. apply IH. discriminate.
Qed.

Theorem style_from_string_eq d specs show_all : specs <> [] -> Forall (fun s => mem_cp d s = false) specs ->
  style_from_string (join1 d specs) d show_all = style_from_list specs show_all.
Proof. intros H1 H2. unfold style_from_string. now rewrite split_join. Qed.

(* the spacing: number and unit are consecutive pieces of the argument and the unit is made of letters *)
Lemma span_spec p s : fst (span p s) ++ snd (span p s) = s /\ forallb p (fst (span p s)) = true.
Proof.
  induction s as [|c r [IH1 IH2]]; [split; reflexivity|]. cbn [span]. destruct (p c) eqn:E; [|split; reflexivity].
  destruct (span p r) as [a b]. cbn [fst snd] in *. split; [cbn; now rewrite IH1|cbn; now rewrite E].
Qed.

Theorem css_split_spec spacing num unit : css_split spacing = Some (num, unit) ->
  exists pre post, spacing = pre ++ num ++ unit ++ post /\ forallb is_letter unit = true /\
                   forallb (fun c => negb (is_letter c)) num = true /\ forallb is_letter pre = true.
Proof.
  unfold css_split. pose proof (span_spec is_letter spacing) as [A1 A2].
  destruct (span is_letter spacing) as [pre s1]. cbn [fst snd] in *. destruct s1 as [|c s1']; [discriminate|].
  pose proof (span_spec (fun c => negb (is_letter c)) (c :: s1')) as [B1 B2].
  destruct (span (fun c0 => negb (is_letter c0)) (c :: s1')) as [nm s2] eqn:E2. cbn [fst snd] in *.
  pose proof (span_spec is_letter s2) as [C1 C2]. destruct (span is_letter s2) as [un post]. cbn [fst snd] in *.
  intros H. injection H as <- <-. exists pre, post. repeat split; auto.
  now rewrite C1, B1, A1.
Qed.

Example css_examples :
  css_split (s2l "0.5cm") = Some (s2l "0.5", s2l "cm") /\ css_split (s2l "12PT") = Some (s2l "12", s2l "PT") /\
  css_split (s2l "3") = Some (s2l "3", []) /\ css_split (s2l "cm") = None.
Proof. vm_compute. repeat split. Qed.

Example list_example :
  style_from_list [s2l "1."; s2l "(a)"; s2l "*"] true =
  Ok [mkLevel 1 (LNumber 49 [] (s2l ".") 1) 1; mkLevel 2 (LNumber 97 (s2l "(") (s2l ")") 2) 2; mkLevel 3 (LBullet 42) 3].
Proof. vm_compute. reflexivity. Qed.
