(* DomCheckProofs.v — the executable checkers of model/DomCheck.v are sound: true establishes the invariant. *)
From Coq Require Import Lia PeanoNat Arith.
From Odf Require Import model.Base model.Dom model.DomCheck proofs.DomProofs proofs.IndexProofs.

Lemma oid_eqb_eq a b : oid_eqb a b = true -> a = b.
Proof. destruct a, b; cbn; intros H; try discriminate; try reflexivity. apply Nat.eqb_eq in H. now subst. Qed.
Lemma kind_eqb_eq a b : kind_eqb a b = true -> a = b.
Proof. destruct a, b; cbn; intros H; try discriminate; try reflexivity. apply Nat.eqb_eq in H. now subst. Qed.
Lemma memb_in x l : memb x l = true -> In x l.
Proof. unfold memb. intros H. apply existsb_exists in H as [y [Hy E]]. apply Nat.eqb_eq in E. now subst. Qed.
Lemma in_memb x l : In x l -> memb x l = true.
Proof. intros H. unfold memb. apply existsb_exists. exists x. split; [exact H|apply Nat.eqb_refl]. Qed.
Lemma nodupb_nodup l : nodupb l = true -> NoDup l.
Proof.
  induction l as [|x r IH]; intros H; [constructor|]. cbn [nodupb] in H. apply andb_prop in H as [H1 H2].
  constructor; [|now apply IH]. intros Hi. apply in_memb in Hi. now rewrite Hi in H1.
Qed.
Lemma is_none_eq a : is_none a = true -> a = None.
Proof. now destruct a. Qed.
Lemma chainb_chain f : forall l pv nx, chainb f pv l nx = true -> chain f pv l nx.
Proof.
  induction l as [|c r IH]; intros pv nx H; [exact I|]. cbn [chainb] in H. apply andb_prop in H as [H H3]. apply andb_prop in H as [H1 H2].
  cbn [chain]. split; [now apply oid_eqb_eq|]. split; [|now apply IH]. apply oid_eqb_eq in H2. rewrite H2. now destruct r.
Qed.
Lemma upb_up f : forall k m, upb f m k = up f m k.
Proof. induction k as [|k IH]; intros m; [reflexivity|]. cbn [upb up]. destruct (parent (f m)); [apply IH|reflexivity]. Qed.
Lemma pokb_pok f n : pokb f n = pok f n.
Proof. reflexivity. Qed.
Lemma dict_get_in {A} k (d : list (nat * A)) v : dict_get k d = Some v -> In (k, v) d.
Proof.
  induction d as [|[k' v'] r IH]; intros H; [discriminate|]. cbn [dict_get] in H. destruct (Nat.eqb k' k) eqn:E.
  - apply Nat.eqb_eq in E. injection H as ->. subst. now left.
  - right. now apply IH.
Qed.
Lemma in_dict_get {A} k (d : list (nat * A)) v : NoDup (map fst d) -> In (k, v) d -> dict_get k d = Some v.
Proof.
  induction d as [|[k' v'] r IH]; intros Hn Hi; [destruct Hi|]. cbn [map fst] in Hn. cbn [dict_get]. destruct Hi as [Hi|Hi].
  - injection Hi as -> ->. now rewrite Nat.eqb_refl.
  - destruct (Nat.eqb k' k) eqn:E.
    + apply Nat.eqb_eq in E. subst. exfalso. apply NoDup_cons_iff in Hn as [Hn _]. apply Hn. apply in_map_iff. exists (k, v). now split.
    + apply IH; [now apply NoDup_cons_iff in Hn|exact Hi].
Qed.

Section L.
Variable l : list nrec.
Let f := fun j => nth j l dflt.
Let N := List.length l.

Lemma beyond j : N <= j -> f j = dflt.
Proof. intros H. unfold f. now apply nth_overflow. Qed.
(* a per-node check that the default record passes holds of every node *)
Lemma all_nodes (chk : id -> bool) : forallb chk (seq 0 N) = true -> forall j, j < N -> chk j = true.
Proof. intros H j Hj. rewrite forallb_forall in H. apply H. apply in_seq. lia. Qed.

Lemma wf_sound : wf_ok l = true -> WF (lheap l [] []) .
Proof.
  intros H. unfold wf_ok in H. fold f N in H. pose proof (all_nodes _ H) as A. clear H.
  assert (B : forall j, wf_node f j = true).
  { intros j. destruct (Nat.lt_ge_cases j N) as [Hj|Hj]; [now apply A|]. unfold wf_node. rewrite (beyond j Hj). reflexivity. }
  clear A. split.
  - change (nodes (lheap l [] [])) with f. constructor.
    + intros p c Hin. specialize (B p). unfold wf_node in B. repeat (apply andb_prop in B as [B ?]).
      rewrite forallb_forall in B. now apply oid_eqb_eq, B.
    + intros p c Hp. specialize (B c). unfold wf_node in B. repeat (apply andb_prop in B as [B ?]). rewrite Hp in *.
      match goal with X : memb c _ && _ = true |- _ => apply andb_prop in X as [X _]; now apply memb_in end.
    + intros p. specialize (B p). unfold wf_node in B. repeat (apply andb_prop in B as [B ?]). now apply nodupb_nodup.
    + intros p. specialize (B p). unfold wf_node in B. repeat (apply andb_prop in B as [B ?]). now apply chainb_chain.
    + intros c Hp. specialize (B c). unfold wf_node in B. repeat (apply andb_prop in B as [B ?]). rewrite Hp in *.
      match goal with X : is_none _ && is_none _ = true |- _ => apply andb_prop in X as [X1 X2]; split; now apply is_none_eq end.
    + intros n He. specialize (B n). unfold wf_node in B. repeat (apply andb_prop in B as [B ?]).
      match goal with X : is_elem _ || _ = true |- _ => rewrite He in X; cbn [orb] in X; now destruct (kids (f n)) end.
    + intros n Hp. specialize (B n). unfold wf_node in B. repeat (apply andb_prop in B as [B ?]). rewrite Hp in *.
      match goal with X : memb n _ && negb _ = true |- _ => apply andb_prop in X as [_ X]; now rewrite Nat.eqb_refl in X end.
  - intros j Hj. change (nodes (lheap l [] [])) with f. cbn [alloc lheap] in Hj. fold N in Hj. unfold Fresh. now rewrite (beyond j Hj).
Qed.
End L.

(* WF does not look at the dictionaries *)
Theorem wf_checked l ed sd : wf_ok l = true -> WF (lheap l ed sd).
Proof. intros H. exact (wf_sound l H). Qed.

Theorem idx_checked top l ed sd : idx_ok top l ed sd = true -> Idx top (lheap l ed sd).
Proof.
  intros H. unfold idx_ok in H. set (f := fun j => nth j l dflt) in *. set (N := List.length l) in *.
  apply andb_prop in H as [H H5]. apply andb_prop in H as [H H4]. apply andb_prop in H as [H H3]. apply andb_prop in H as [H1 H2].
  assert (Bd : forall j, N <= j -> f j = dflt) by (intros j Hj; unfold f; now apply nth_overflow).
  assert (B : forall j, idx_node top f N ed j = true).
  { intros j. destruct (Nat.lt_ge_cases j N) as [Hj|Hj]; [rewrite forallb_forall in H1; apply H1, in_seq; lia|].
    unfold idx_node. rewrite (Bd j Hj). reflexivity. }
  clear H1. rewrite forallb_forall in H2.
  constructor; change (nodes (lheap l ed sd)) with f.
  - intros q n. unfold indexed, get_elements_by_type. cbn [edict lheap]. split.
    + intros Hin. destruct (dict_get q ed) as [x|] eqn:Eg; [|destruct Hin]. apply dict_get_in in Eg. specialize (H2 _ Eg). cbn [fst snd] in H2.
      apply andb_prop in H2 as [H2 _]. rewrite forallb_forall in H2. specialize (H2 n Hin). apply andb_prop in H2 as [K O]. split; [now apply kind_eqb_eq|exact O].
    + intros [Hk Ho]. specialize (B n). unfold idx_node in B. rewrite Ho, Hk in B. apply andb_prop in B as [B _]. apply andb_prop in B as [B _]. now apply memb_in.
  - intros q. unfold indexed, get_elements_by_type. cbn [edict lheap]. destruct (dict_get q ed) as [x|] eqn:Eg; [|constructor].
    apply dict_get_in in Eg. specialize (H2 _ Eg). cbn [snd] in H2. apply andb_prop in H2 as [_ H2]. now apply nodupb_nodup.
  - intros c p Hp. specialize (B c). unfold idx_node in B. apply andb_prop in B as [_ B]. rewrite Hp in B. now apply Bool.eqb_prop.
  - intros j Hj. cbn [alloc lheap] in Hj. now rewrite (Bd j Hj).
  - apply andb_prop in H3 as [H3 Hc]. apply andb_prop in H3 as [Ha Hb]. cbn [alloc lheap]. split; [now apply Nat.ltb_lt|]. split; [exact Hb|now apply is_none_eq].
  - intros n Ho. specialize (B n). unfold idx_node in B. rewrite Ho in B. apply andb_prop in B as [B _]. apply andb_prop in B as [_ B].
    apply existsb_exists in B as [k [_ Hk]]. exists k. rewrite <- upb_up. now apply oid_eqb_eq.
  - cbn [sdict lheap]. split; [now apply nodupb_nodup|]. intros nm n Hg. apply dict_get_in in Hg. rewrite forallb_forall in H5. specialize (H5 _ Hg). cbn [fst snd] in H5.
    apply andb_prop in H5 as [H5 P]. apply andb_prop in H5 as [H5 O]. apply andb_prop in H5 as [K S]. repeat split; [now apply kind_eqb_eq|now apply oid_eqb_eq|exact O|exact P].
Qed.

Theorem comp_checked l ed sd : comp_ok l sd = true -> Comp (lheap l ed sd).
Proof.
  intros H n nm (R1 & R2 & R3 & R4). change (nodes (lheap l ed sd)) with (fun j => nth j l dflt) in *. cbn [sdict lheap].
  unfold comp_ok in H. set (f := fun j => nth j l dflt) in *. cbv beta in R1, R2, R3, R4.
  assert (Hn : n < List.length l).
  { destruct (Nat.lt_ge_cases n (List.length l)) as [Hj|Hj]; [exact Hj|]. unfold f in R3. rewrite nth_overflow in R3 by exact Hj. discriminate. }
  rewrite forallb_forall in H. specialize (H n ltac:(apply in_seq; lia)). unfold comp_node in H.
  fold (f n) in R1, R2, R3. rewrite R1, R3, R2 in H. rewrite pokb_pok, R4 in H. cbn in H. now apply oid_eqb_eq.
Qed.


Lemma op_okb_ok h o : op_okb h o = true -> op_ok h o.
Proof.
  destruct o as [p c|p c r|p c|p c al|p al em cd]; cbn [op_okb op_ok]; intros H;
    repeat match goal with X : _ && _ = true |- _ => apply andb_prop in X as [X ?] end;
    repeat match goal with X : Nat.ltb _ _ = true |- _ => apply Nat.ltb_lt in X end;
    repeat match goal with X : negb (Nat.eqb _ _) = true |- _ => apply Bool.negb_true_iff, Nat.eqb_neq in X end; auto.
Qed.
Lemma keeps_topb_ok top o : keeps_topb top o = true -> op_keeps_top top o.
Proof. destruct o; cbn [keeps_topb op_keeps_top]; intros H; try exact I; now apply Bool.negb_true_iff, Nat.eqb_neq in H. Qed.

(* one checked step from a state that satisfies the invariants *)
Theorem checked_step top h o : WF h -> Idx top h -> op_okb h o = true -> keeps_topb top o = true ->
  WF (heap_of (step h o)) /\ Idx top (heap_of (step h o)).
Proof.
  intros HW HI Ho Ht. apply op_okb_ok in Ho. apply keeps_topb_ok in Ht. split; [now apply step_wf|now apply step_idx].
Qed.

(* a history that starts from a checked snapshot *)
Theorem checked_history top l ed sd ops :
  wf_ok l = true -> idx_ok top l ed sd = true -> ops_ok (lheap l ed sd) ops -> ops_keep_top top ops ->
  WF (run (lheap l ed sd) ops) /\ Idx top (run (lheap l ed sd) ops).
Proof. intros Hw Hi. apply run_idx; [now apply wf_checked|now apply idx_checked]. Qed.

(* the checkers are not vacuous: the starting heap of IndexProofs as a list passes them *)
Example checked_example :
  let l := [mkN (KElem 3) None [1; 2] None None true None; mkN (KElem 1) (Some 0) [3] None (Some 2) true None;
            mkN KText (Some 0) [] (Some 1) None true None; mkN (KElem 0) (Some 1) [] None None true (Some 7); mkN (KElem 5) None [] None None false None] in
  wf_ok l = true /\ idx_ok 0 l [(3, [0]); (1, [1]); (0, [3])] [(7, 3)] = true /\ comp_ok l [(7, 3)] = true /\
  idx_ok 0 l [(3, [0]); (1, [1])] [(7, 3)] = false /\ comp_ok l [] = false.
Proof. vm_compute. repeat split. Qed.
