(* XmlTokProofs.v — the printed form of an element tree lexes to the token
   stream [emit] describes (second quarter of the round trip). *)
From Coq Require Import Lia.
From Odf Require Import model.Base model.Chars model.XmlPrint model.XmlLex model.XmlTree
  proofs.XmlPrintProofs proofs.XmlLexProofs.

(* induction principle for rose trees *)
Section NodeInd.
  Variable P : node -> Prop.
  Hypothesis HT : forall s, P (TextN s).
  Hypothesis HC : forall s, P (CDataN s).
  Hypothesis HE : forall q atts kids, Forall P kids -> P (Elem q atts kids).
  Fixpoint node_ind2 (t : node) : P t :=
    match t with
    | TextN s => HT s
    | CDataN s => HC s
    | Elem q atts kids =>
        HE q atts kids ((fix go (l : list node) : Forall P l :=
                           match l with
                           | [] => Forall_nil P
                           | x :: r => Forall_cons x (node_ind2 x) (go r)
                           end) kids)
    end.
End NodeInd.

Section Tok.
Variable filtered : list (N * N).
Hypothesis Hcov : filter_covers filtered.
(* the filter leaves ASCII name characters alone (table obligation on GenChars) *)
Hypothesis Hnames : forall c, name_char c = true -> in_ranges filtered c = false.

Notation canon_str := (handle_unrepresentable filtered).

(* ---------------- names ---------------- *)
Lemma nc_name_char c : nc_char c = true -> name_char c = true.
Proof. unfold name_char. intros ->. reflexivity. Qed.
Lemma nc_start_name_start c : nc_start c = true -> name_start c = true.
Proof. unfold name_start. intros ->. reflexivity. Qed.
Lemma nc_start_nc_char c : nc_start c = true -> nc_char c = true.
Proof. unfold nc_char. intros ->. reflexivity. Qed.
Lemma name_start_name_char c : name_start c = true -> name_char c = true.
Proof.
  unfold name_start, name_char. intros H. apply orb_true_iff in H as [H|H].
  - now rewrite (nc_start_nc_char c H).
  - rewrite H. apply orb_true_r.
Qed.

Definition all_name (s : str) : bool := forallb name_char s.

Lemma ncname_all_name s : is_ncname s = true -> all_name s = true.
Proof.
  destruct s as [|c r]; [discriminate|]. cbn [is_ncname all_name forallb]. intros H.
  apply andb_true_iff in H as [H1 H2]. rewrite (nc_name_char c (nc_start_nc_char c H1)). cbn [andb].
  induction r as [|x r IH]; [reflexivity|]. cbn [forallb] in *.
  apply andb_true_iff in H2 as [H2 H3]. now rewrite (nc_name_char x H2), IH.
Qed.

Lemma all_name_app a b : all_name (a ++ b) = all_name a && all_name b.
Proof. apply forallb_app. Qed.

(* a name character is none of the characters the state machine treats specially *)
Lemma name_char_facts c : name_char c = true ->
  is_ws c = false /\ (c =? cGT) = false /\ (c =? cSLASH) = false /\ (c =? cEQ) = false /\
  (c =? cAMP) = false /\ (c =? cLT) = false.
Proof.
  intros H. unfold name_char, nc_char, nc_start, is_alpha, is_digit in H.
  unfold is_ws, cGT, cSLASH, cEQ, cAMP, cLT.
  repeat match goal with |- _ /\ _ => split end;
  repeat (apply orb_false_iff; split); apply N.eqb_neq; intros ->; vm_compute in H; discriminate.
Qed.

Definition tag_states (n : str) (st : lstate) : Prop := True.

Lemma run_tagname ts s : all_name s = true -> forall pre,
  run s (mkL ts (MTagName pre)) = mkL ts (MTagName (pre ++ s)).
Proof.
  induction s as [|c s IH]; intros H pre; [now rewrite app_nil_r|].
  cbn [all_name forallb] in H. apply andb_true_iff in H as [H1 H2].
  rewrite run_cons. unfold lstep. cbn [md toks]. rewrite H1.
  rewrite IH by exact H2. now rewrite <- app_assoc.
Qed.

Lemma run_attname ts n atts s : all_name s = true -> forall pre,
  run s (mkL ts (MAttName n atts pre)) = mkL ts (MAttName n atts (pre ++ s)).
Proof.
  induction s as [|c s IH]; intros H pre; [now rewrite app_nil_r|].
  cbn [all_name forallb] in H. apply andb_true_iff in H as [H1 H2].
  rewrite run_cons. unfold lstep. cbn [md toks]. rewrite H1.
  rewrite IH by exact H2. now rewrite <- app_assoc.
Qed.

Lemma run_endname ts s : all_name s = true -> forall c pre,
  run s (mkL ts (MEndName (c :: pre))) = mkL ts (MEndName ((c :: pre) ++ s)).
Proof.
  induction s as [|x s IH]; intros H c pre; [now rewrite app_nil_r|].
  cbn [all_name forallb] in H. apply andb_true_iff in H as [H1 H2].
  rewrite run_cons. unfold lstep. cbn [md toks]. rewrite H1.
  change ((c :: pre) ++ [x]) with (c :: (pre ++ [x])).
  rewrite IH by exact H2. cbn [app]. now rewrite <- app_assoc.
Qed.

(* sanitising a name leaves it alone *)
Lemma sanitize_name s : all_name s = true -> sanitize filtered [] s = s.
Proof.
  intros H. rewrite sanitize_plain_pointwise.
  induction s as [|c s IH]; [reflexivity|].
  cbn [all_name forallb] in H. apply andb_true_iff in H as [H1 H2].
  cbn [handle_unrepresentable map flat_map]. unfold filter_char at 1. rewrite (Hnames c H1).
  destruct (name_char_facts c H1) as (_ & Eg & _ & _ & Ea & El).
  unfold esc_plain at 1. rewrite Ea, El, Eg. cbn [app]. f_equal. apply IH, H2.
Qed.

(* ---------------- start tags ---------------- *)
Variable env : nsenv.

Definition env_has (ns : str) : bool :=
  match lookup_str ns env with Some p => is_ncname p | None => false end.

Definition codespace (s : str) : bool := forallb (fun c => c <=? 1114111) s.
Lemma codespace_in s : codespace s = true -> in_codespace s.
Proof.
  unfold codespace, in_codespace. intros H. apply Forall_forall. intros c Hc.
  rewrite forallb_forall in H. apply N.leb_le. now apply H.
Qed.

Definition qname_ok (q : qname) : bool :=
  match fst q with
  | [] => is_ncname (snd q) && negb (str_eqb (snd q) sXMLNS)      (* a name in no namespace *)
  | _ => env_has (fst q) && is_ncname (snd q)
  end.
Definition att_ok (a : qname * str) : bool := qname_ok (fst a) && codespace (snd a).

Definition raw_att (a : qname * str) : str * str := (tag_of env (fst a), canon_str (snd a)).

Lemma tag_cases q : qname_ok q = true ->
  (fst q = [] /\ tag_of env q = snd q /\ is_ncname (snd q) = true /\ str_eqb (snd q) sXMLNS = false) \/
  (fst q <> [] /\ exists p, lookup_str (fst q) env = Some p /\ is_ncname p = true /\
                 tag_of env q = p ++ cCOLON :: snd q /\ is_ncname (snd q) = true).
Proof.
  unfold qname_ok, tag_of, nsprefix, env_has, prefix_of. destruct (fst q) as [|c ns] eqn:E; intros H.
  - left. apply andb_true_iff in H as [H1 H2]. apply negb_true_iff in H2. auto.
  - right. split; [discriminate|]. apply andb_true_iff in H as [H1 H2].
    destruct (lookup_str (c :: ns) env) as [p|]; [|discriminate]. exists p.
    destruct p as [|x p']; [discriminate|]. auto.
Qed.

Lemma tag_shape q : qname_ok q = true ->
  all_name (tag_of env q) = true /\ exists c r, tag_of env q = c :: r /\ name_start c = true.
Proof.
  intros H. destruct (tag_cases q H) as [(E & -> & Hn & _)|(_ & p & Hl & Hp & -> & Hn)].
  - split; [now apply ncname_all_name|].
    destruct (snd q) as [|c r]; [discriminate|]. exists c, r. split; [reflexivity|].
    cbn [is_ncname] in Hn. apply andb_true_iff in Hn as [Hn _]. now apply nc_start_name_start.
  - split.
    + change (p ++ cCOLON :: snd q) with (p ++ [cCOLON] ++ snd q).
      rewrite !all_name_app, (ncname_all_name _ Hp), (ncname_all_name _ Hn). reflexivity.
    + destruct p as [|c r]; [discriminate|]. exists c, (r ++ cCOLON :: snd q). split; [reflexivity|].
      cbn [is_ncname] in Hp. apply andb_true_iff in Hp as [Hp _]. now apply nc_start_name_start.
Qed.

(* "inside the start tag of n, attributes pre read so far" *)
Definition intag (ts : list tok) (n : str) (pre : attlist) (st : lstate) : Prop :=
  toks st = ts /\ ((md st = MTagName n /\ pre = []) \/ exists ws, md st = MAttrs n pre ws).

Lemma intag_space ts n pre st : intag ts n pre st ->
  lstep st cSP = mkL ts (MAttrs n pre true).
Proof.
  intros [Ht [[Hm Hp]|[ws Hm]]]; destruct st as [ts0 m]; cbn in Ht, Hm; subst; reflexivity.
Qed.

Lemma intag_gt ts n pre st : intag ts n pre st ->
  lstep st cGT = mkL (ts ++ [TkStart n pre]) (MText [] 0).
Proof.
  intros [Ht [[Hm Hp]|[ws Hm]]]; destruct st as [ts0 m]; cbn in Ht, Hm; subst; reflexivity.
Qed.

Lemma intag_slash_gt ts n pre st : intag ts n pre st ->
  run [cSLASH; cGT] st = mkL (ts ++ [TkEmpty n pre]) (MText [] 0).
Proof.
  intros [Ht [[Hm Hp]|[ws Hm]]]; destruct st as [ts0 m]; cbn in Ht, Hm; subst; reflexivity.
Qed.

Lemma lex_attname_start ts n pre c r rest : name_start c = true -> all_name r = true ->
  run (c :: r ++ cEQ :: rest) (mkL ts (MAttrs n pre true)) = run rest (mkL ts (MAttEq n pre (c :: r))).
Proof.
  intros Hc Hr. rewrite run_cons.
  destruct (name_char_facts c (name_start_name_char c Hc)) as (Ew & Eg & Es & _).
  unfold lstep at 1. cbn [md toks]. rewrite Ew, Eg, Es, Hc.
  rewrite run_app, run_attname by exact Hr. rewrite run_cons. reflexivity.
Qed.

Lemma lex_att ts n pre st a : att_ok a = true -> intag ts n pre st ->
  intag ts n (pre ++ [raw_att a]) (run (att_toXml filtered env a) st).
Proof.
  intros Ha Hin. unfold att_ok in Ha. apply andb_true_iff in Ha as [Hq Hv].
  destruct (tag_shape _ Hq) as [Hall (c & r & Etag & Hc)].
  unfold att_toXml. rewrite (sanitize_name _ Hall), Etag.
  cbn [app]. rewrite run_cons, (intag_space _ _ _ _ Hin).
  assert (Hr : all_name r = true).
  { rewrite Etag in Hall. cbn [all_name forallb] in Hall. now apply andb_true_iff in Hall as [_ Hall]. }
  rewrite lex_attname_start by assumption.
  rewrite lex_quoteattr by (first [exact Hcov | now apply codespace_in]).
  split; [reflexivity|]. right. exists false. unfold raw_att. now rewrite Etag.
Qed.

Lemma lex_atts ts n atts : forallb att_ok atts = true -> forall pre st, intag ts n pre st ->
  intag ts n (pre ++ map raw_att atts) (run (flat_map (att_toXml filtered env) atts) st).
Proof.
  induction atts as [|a atts IH]; intros H pre st Hin.
  - cbn. now rewrite app_nil_r.
  - cbn [forallb] in H. apply andb_true_iff in H as [H1 H2].
    cbn [flat_map map]. rewrite run_app.
    specialize (IH H2 _ _ (lex_att _ _ _ _ _ H1 Hin)).
    now rewrite <- app_assoc in IH.
Qed.

(* the namespace dump of a root element *)
Definition ns_char_ok (c : cp) : bool := (c <=? 1114111) && negb (in_ranges filtered c).
Definition ns_entry_ok (e : str * str) : bool :=
  forallb ns_char_ok (fst e) && is_ncname (snd e).

Lemma ns_chars_unfiltered d : forallb ns_char_ok d = true -> canon_str d = d /\ in_codespace d.
Proof.
  induction d as [|c d IH]; intros H; [split; [reflexivity|constructor]|].
  cbn [forallb] in H. apply andb_true_iff in H as [H1 H2]. destruct (IH H2) as [E C].
  unfold ns_char_ok in H1. apply andb_true_iff in H1 as [Hm Hf]. apply negb_true_iff in Hf.
  split.
  - cbn [handle_unrepresentable map]. unfold filter_char at 1. rewrite Hf. f_equal. exact E.
  - constructor; [now apply N.leb_le|exact C].
Qed.

Definition sXMLNS_C := s2l "xmlns:".
Definition raw_decl (e : str * str) : str * str := (sXMLNS_C ++ snd e, fst e).

Lemma lex_ns_entry ts n pre st e : ns_entry_ok e = true -> intag ts n pre st ->
  intag ts n (pre ++ [raw_decl e])
    (run (sXMLNSCOLON ++ snd e ++ [cEQ] ++ quoteattr filtered (fst e)) st).
Proof.
  intros He Hin. unfold ns_entry_ok in He. apply andb_true_iff in He as [Hns Hp].
  destruct (ns_chars_unfiltered _ Hns) as [Hcanon Hcs].
  change sXMLNSCOLON with (cSP :: 120 :: s2l "mlns:"). cbn [app].
  rewrite run_cons, (intag_space _ _ _ _ Hin).
  rewrite (app_assoc (s2l "mlns:") (snd e)).
  rewrite lex_attname_start; [|reflexivity|rewrite all_name_app, (ncname_all_name _ Hp); reflexivity].
  rewrite lex_quoteattr by assumption. rewrite Hcanon.
  split; [reflexivity|]. right. exists false. reflexivity.
Qed.

Lemma lex_ns_dump ts n : forallb ns_entry_ok env = true -> forall pre st, intag ts n pre st ->
  intag ts n (pre ++ map raw_decl env) (run (ns_dump filtered env) st).
Proof.
  unfold ns_dump. generalize env as l.
  induction l as [|e l IH]; intros H pre st Hin.
  - cbn. now rewrite app_nil_r.
  - cbn [forallb] in H. apply andb_true_iff in H as [H1 H2].
    cbn [flat_map map]. rewrite run_app.
    specialize (IH H2 _ _ (lex_ns_entry _ _ _ _ _ H1 Hin)).
    now rewrite <- app_assoc in IH.
Qed.

(* ---------------- whole trees ---------------- *)
Definition flushT (acc : str) : list tok := match acc with [] => [] | _ => [TkChars acc] end.

Lemma flush_text_flushT ts acc : flush_text ts acc = ts ++ flushT acc.
Proof. destruct acc; cbn; [now rewrite app_nil_r|reflexivity]. Qed.

(* tokens produced by a node given the pending character data, and the
   character data left pending afterwards *)
Fixpoint emit (t : node) (acc : str) : list tok * str :=
  match t with
  | TextN s => ([], acc ++ canon_str s)
  | CDataN s => ([], acc ++ canon_str s)
  | Elem q atts kids =>
      let n := tag_of env q in
      let ra := map raw_att atts in
      match kids with
      | [] => (flushT acc ++ [TkEmpty n ra], [])
      | _ =>
          let r := fold_left (fun st k => let '(ts, a) := emit k (snd st) in (fst st ++ ts, a)) kids ([], []) in
          (flushT acc ++ [TkStart n ra] ++ fst r ++ flushT (snd r) ++ [TkEnd n], [])
      end
  end.

Definition emit_list (kids : list node) (st : list tok * str) : list tok * str :=
  fold_left (fun st k => let '(ts, a) := emit k (snd st) in (fst st ++ ts, a)) kids st.

Fixpoint tree_ok (t : node) : bool :=
  match t with
  | TextN s => codespace s
  | CDataN s => codespace s
  | Elem q atts kids => qname_ok q && forallb att_ok atts && forallb tree_ok kids
  end.

Lemma lex_open ts acc k q c r : tag_of env q = c :: r -> name_start c = true -> all_name r = true ->
  intag (ts ++ flushT acc) (tag_of env q) [] (run (cLT :: tag_of env q) (mkL ts (MText acc k))).
Proof.
  intros Etag Hc Hr. rewrite Etag, run_cons.
  change (lstep (mkL ts (MText acc k)) cLT) with (mkL ts (MLt acc)).
  rewrite run_cons.
  assert (Es : (c =? cSLASH) = false) by (apply (name_char_facts c (name_start_name_char c Hc))).
  assert (Eb : (c =? cBANG) = false).
  { apply N.eqb_neq. intros ->. vm_compute in Hc. discriminate. }
  unfold lstep at 1. cbn [md toks]. rewrite Es, Eb, Hc.
  rewrite run_tagname by exact Hr. rewrite flush_text_flushT.
  split; [reflexivity|]. left. split; reflexivity.
Qed.

Lemma lex_close ts q : qname_ok q = true -> forall acc k,
  run ([cLT; cSLASH] ++ tag_of env q ++ [cGT]) (mkL ts (MText acc k))
  = mkL (ts ++ flushT acc ++ [TkEnd (tag_of env q)]) (MText [] 0).
Proof.
  intros Hq acc k. destruct (tag_shape _ Hq) as [Hall (c & r & Etag & Hc)].
  rewrite Etag. cbn [app]. rewrite !run_cons.
  change (lstep (lstep (mkL ts (MText acc k)) cLT) cSLASH) with (mkL (flush_text ts acc) (MEndName [])).
  unfold lstep at 1. cbn [md toks]. rewrite Hc.
  assert (Hr : all_name r = true).
  { rewrite Etag in Hall. cbn [all_name forallb] in Hall. now apply andb_true_iff in Hall as [_ Hall]. }
  rewrite run_app, run_endname by exact Hr. rewrite run_cons, run_nil.
  cbn [app]. unfold lstep. cbn [md toks].
  change (name_char cGT) with false. change (is_ws cGT) with false. change (cGT =? cGT) with true.
  cbn iota. rewrite flush_text_flushT, <- app_assoc. reflexivity.
Qed.

Lemma emit_list_shift kids : forall pre a,
  emit_list kids (pre, a) = (pre ++ fst (emit_list kids ([], a)), snd (emit_list kids ([], a))).
Proof.
  unfold emit_list. induction kids as [|k kids IH]; intros pre a.
  - cbn. now rewrite app_nil_r.
  - cbn [fold_left fst snd]. destruct (emit k a) as [t1 a1]. cbn [app].
    rewrite (IH (pre ++ t1) a1), (IH t1 a1). cbn [fst snd]. now rewrite app_assoc.
Qed.

Lemma emit_list_cons k kids a :
  emit_list (k :: kids) ([], a) =
  (fst (emit k a) ++ fst (emit_list kids ([], snd (emit k a))), snd (emit_list kids ([], snd (emit k a)))).
Proof.
  unfold emit_list at 1. cbn [fold_left fst snd]. destruct (emit k a) as [t1 a1]. cbn [app fst snd].
  apply emit_list_shift.
Qed.

Definition lex_node_stmt (t : node) : Prop :=
  tree_ok t = true -> forall ts acc k, exists k',
    run (node_toXml filtered env false t) (mkL ts (MText acc k))
    = mkL (ts ++ fst (emit t acc)) (MText (snd (emit t acc)) k').

Lemma lex_kids kids : Forall lex_node_stmt kids -> forallb tree_ok kids = true ->
  forall ts acc k, exists k',
    run (flat_map (node_toXml filtered env false) kids) (mkL ts (MText acc k))
    = mkL (ts ++ fst (emit_list kids ([], acc))) (MText (snd (emit_list kids ([], acc))) k').
Proof.
  induction 1 as [|t kids Ht Hk IH]; intros Hok ts acc k.
  - exists k. cbn. now rewrite app_nil_r.
  - cbn [forallb] in Hok. apply andb_true_iff in Hok as [H1 H2].
    cbn [flat_map]. rewrite run_app.
    destruct (Ht H1 ts acc k) as [k1 ->].
    destruct (IH H2 (ts ++ fst (emit t acc)) (snd (emit t acc)) k1) as [k2 ->].
    exists k2. rewrite emit_list_cons. cbn [fst snd]. now rewrite app_assoc.
Qed.

Lemma lex_open_tag q atts ts acc k : qname_ok q = true -> forallb att_ok atts = true ->
  intag (ts ++ flushT acc) (tag_of env q) (map raw_att atts)
    (run (open_tag filtered env false q atts) (mkL ts (MText acc k))).
Proof.
  intros Hq Ha. destruct (tag_shape _ Hq) as [Hall (c & r & Etag & Hc)].
  assert (Hr : all_name r = true).
  { rewrite Etag in Hall. cbn [all_name forallb] in Hall. now apply andb_true_iff in Hall as [_ Hall]. }
  unfold open_tag. cbn [app].
  change (cLT :: tag_of env q ++ flat_map (att_toXml filtered env) atts)
    with ((cLT :: tag_of env q) ++ flat_map (att_toXml filtered env) atts).
  rewrite run_app.
  apply (lex_atts _ _ _ Ha [] _ (lex_open ts acc k q c r Etag Hc Hr)).
Qed.

Theorem lex_node t : lex_node_stmt t.
Proof.
  induction t as [s|s|q atts kids IH] using node_ind2; unfold lex_node_stmt; intros Hok ts acc k.
  - cbn [tree_ok] in Hok. cbn [node_toXml emit fst snd]. rewrite app_nil_r.
    unfold textnode_toXml. destruct s as [|c s].
    + exists k. cbn. now rewrite app_nil_r.
    + apply lex_text_toXml; [exact Hcov|now apply codespace_in].
  - cbn [tree_ok] in Hok. cbn [node_toXml emit fst snd]. rewrite app_nil_r.
    apply lex_cdata_toXml; [exact Hcov|now apply codespace_in].
  - cbn [tree_ok] in Hok. apply andb_true_iff in Hok as [Hok Hkids]. apply andb_true_iff in Hok as [Hq Ha].
    pose proof (lex_open_tag q atts ts acc k Hq Ha) as Hin.
    destruct kids as [|k0 kids].
    + exists 0%nat. cbn [node_toXml]. rewrite run_app.
      rewrite (intag_slash_gt _ _ _ _ Hin). cbn [emit fst snd]. now rewrite <- app_assoc.
    + remember (k0 :: kids) as ks eqn:Eks.
      assert (Hnode : node_toXml filtered env false (Elem q atts ks) =
                open_tag filtered env false q atts ++ [cGT] ++ flat_map (node_toXml filtered env false) ks
                  ++ ([cLT; cSLASH] ++ tag_of env q ++ [cGT])).
      { subst ks. reflexivity. }
      assert (Hemit : emit (Elem q atts ks) acc =
                (flushT acc ++ [TkStart (tag_of env q) (map raw_att atts)] ++ fst (emit_list ks ([], []))
                   ++ flushT (snd (emit_list ks ([], []))) ++ [TkEnd (tag_of env q)], [])).
      { subst ks. reflexivity. }
      rewrite Hnode, Hemit. clear Hnode Hemit.
      rewrite run_app, run_app. rewrite run_cons, run_nil, (intag_gt _ _ _ _ Hin). rewrite run_app.
      destruct (lex_kids ks IH Hkids ((ts ++ flushT acc) ++ [TkStart (tag_of env q) (map raw_att atts)]) [] 0%nat) as [k1 ->].
      rewrite (lex_close _ q Hq). exists 0%nat. cbn [fst snd].
      rewrite <- !app_assoc. reflexivity.
Qed.

(* ---------------- the root element (level 0: namespace dump) ---------------- *)
Definition root_atts (atts : list (qname * str)) : attlist := map raw_decl env ++ map raw_att atts.

Definition emit_root (q : qname) (atts : list (qname * str)) (kids : list node) : list tok :=
  let n := tag_of env q in
  match kids with
  | [] => [TkEmpty n (root_atts atts)]
  | _ => let r := emit_list kids ([], []) in
         [TkStart n (root_atts atts)] ++ fst r ++ flushT (snd r) ++ [TkEnd n]
  end.

Definition env_ok : bool := forallb ns_entry_ok env.

Lemma lex_open_tag_root q atts ts acc k : env_ok = true -> qname_ok q = true -> forallb att_ok atts = true ->
  intag (ts ++ flushT acc) (tag_of env q) (root_atts atts)
    (run (open_tag filtered env true q atts) (mkL ts (MText acc k))).
Proof.
  intros He Hq Ha. destruct (tag_shape _ Hq) as [Hall (c & r & Etag & Hc)].
  assert (Hr : all_name r = true).
  { rewrite Etag in Hall. cbn [all_name forallb] in Hall. now apply andb_true_iff in Hall as [_ Hall]. }
  unfold open_tag. cbn [app].
  change (cLT :: tag_of env q ++ ns_dump filtered env ++ flat_map (att_toXml filtered env) atts)
    with ((cLT :: tag_of env q) ++ ns_dump filtered env ++ flat_map (att_toXml filtered env) atts).
  rewrite run_app, run_app. unfold root_atts.
  apply (lex_atts _ _ _ Ha).
  apply (lex_ns_dump _ _ He [] _ (lex_open ts acc k q c r Etag Hc Hr)).
Qed.

Theorem lex_root q atts kids ts acc k :
  env_ok = true -> tree_ok (Elem q atts kids) = true ->
  run (node_toXml filtered env true (Elem q atts kids)) (mkL ts (MText acc k))
  = mkL (ts ++ flushT acc ++ emit_root q atts kids) (MText [] 0).
Proof.
  intros He Hok. cbn [tree_ok] in Hok. apply andb_true_iff in Hok as [Hok Hkids]. apply andb_true_iff in Hok as [Hq Ha].
  pose proof (lex_open_tag_root q atts ts acc k He Hq Ha) as Hin.
  destruct kids as [|k0 kids].
  - cbn [node_toXml]. rewrite run_app.
    rewrite (intag_slash_gt _ _ _ _ Hin). cbn [emit_root]. now rewrite <- app_assoc.
  - remember (k0 :: kids) as ks eqn:Eks.
    assert (Hnode : node_toXml filtered env true (Elem q atts ks) =
              open_tag filtered env true q atts ++ [cGT] ++ flat_map (node_toXml filtered env false) ks
                ++ ([cLT; cSLASH] ++ tag_of env q ++ [cGT])).
    { subst ks. reflexivity. }
    assert (Hemit : emit_root q atts ks =
              [TkStart (tag_of env q) (root_atts atts)] ++ fst (emit_list ks ([], []))
                 ++ flushT (snd (emit_list ks ([], []))) ++ [TkEnd (tag_of env q)]).
    { subst ks. reflexivity. }
    rewrite Hnode, Hemit. clear Hnode Hemit.
    rewrite run_app, run_app. rewrite run_cons, run_nil, (intag_gt _ _ _ _ Hin). rewrite run_app.
    assert (IH : Forall lex_node_stmt ks) by (apply Forall_forall; intros t _; apply lex_node).
    destruct (lex_kids ks IH Hkids ((ts ++ flushT acc) ++ [TkStart (tag_of env q) (root_atts atts)]) [] 0%nat) as [k1 ->].
    rewrite (lex_close _ q Hq). rewrite <- !app_assoc. reflexivity.
Qed.
End Tok.
