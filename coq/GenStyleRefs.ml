open BinNums

(** val scanned_refattrs : (coq_N list * coq_N list) list **)

let scanned_refattrs =
  (((Npos (Coq_xI (Coq_xO (Coq_xI (Coq_xO (Coq_xI (Coq_xI
    Coq_xH))))))) :: ((Npos (Coq_xO (Coq_xI (Coq_xO (Coq_xO (Coq_xI (Coq_xI
    Coq_xH))))))) :: ((Npos (Coq_xO (Coq_xI (Coq_xI (Coq_xI (Coq_xO (Coq_xI
    Coq_xH))))))) :: ((Npos (Coq_xO (Coq_xI (Coq_xO (Coq_xI (Coq_xI
    Coq_xH)))))) :: ((Npos (Coq_xI (Coq_xI (Coq_xI (Coq_xI (Coq_xO (Coq_xI
    Coq_xH))))))) :: ((Npos (Coq_xI (Coq_xO (Coq_xO (Coq_xO (Coq_xO (Coq_xI
    Coq_xH))))))) :: ((Npos (Coq_xI (Coq_xI (Coq_xO (Coq_xO (Coq_xI (Coq_xI
    Coq_xH))))))) :: ((Npos (Coq_xI (Coq_xO (Coq_xO (Coq_xI (Coq_xO (Coq_xI
    Coq_xH))))))) :: ((Npos (Coq_xI (Coq_xI (Coq_xO (Coq_xO (Coq_xI (Coq_xI
    Coq_xH))))))) :: ((Npos (Coq_xO (Coq_xI (Coq_xO (Coq_xI (Coq_xI
    Coq_xH)))))) :: ((Npos (Coq_xO (Coq_xI (Coq_xI (Coq_xI (Coq_xO (Coq_xI
    Coq_xH))))))) :: ((Npos (Coq_xI (Coq_xO (Coq_xO (Coq_xO (Coq_xO (Coq_xI
    Coq_xH))))))) :: ((Npos (Coq_xI (Coq_xO (Coq_xI (Coq_xI (Coq_xO (Coq_xI
    Coq_xH))))))) :: ((Npos (Coq_xI (Coq_xO (Coq_xI (Coq_xO (Coq_xO (Coq_xI
    Coq_xH))))))) :: ((Npos (Coq_xI (Coq_xI (Coq_xO (Coq_xO (Coq_xI (Coq_xI
    Coq_xH))))))) :: ((Npos (Coq_xO (Coq_xI (Coq_xO (Coq_xI (Coq_xI
    Coq_xH)))))) :: ((Npos (Coq_xO (Coq_xO (Coq_xI (Coq_xO (Coq_xI (Coq_xI
    Coq_xH))))))) :: ((Npos (Coq_xI (Coq_xI (Coq_xO (Coq_xO (Coq_xO (Coq_xI
    Coq_xH))))))) :: ((Npos (Coq_xO (Coq_xI (Coq_xO (Coq_xI (Coq_xI
    Coq_xH)))))) :: ((Npos (Coq_xI (Coq_xI (Coq_xI (Coq_xI (Coq_xO (Coq_xI
    Coq_xH))))))) :: ((Npos (Coq_xO (Coq_xO (Coq_xO (Coq_xO (Coq_xI (Coq_xI
    Coq_xH))))))) :: ((Npos (Coq_xI (Coq_xO (Coq_xI (Coq_xO (Coq_xO (Coq_xI
    Coq_xH))))))) :: ((Npos (Coq_xO (Coq_xI (Coq_xI (Coq_xI (Coq_xO (Coq_xI
    Coq_xH))))))) :: ((Npos (Coq_xO (Coq_xO (Coq_xI (Coq_xO (Coq_xO (Coq_xI
    Coq_xH))))))) :: ((Npos (Coq_xI (Coq_xI (Coq_xI (Coq_xI (Coq_xO (Coq_xI
    Coq_xH))))))) :: ((Npos (Coq_xI (Coq_xI (Coq_xO (Coq_xO (Coq_xO (Coq_xI
    Coq_xH))))))) :: ((Npos (Coq_xI (Coq_xO (Coq_xI (Coq_xO (Coq_xI (Coq_xI
    Coq_xH))))))) :: ((Npos (Coq_xI (Coq_xO (Coq_xI (Coq_xI (Coq_xO (Coq_xI
    Coq_xH))))))) :: ((Npos (Coq_xI (Coq_xO (Coq_xI (Coq_xO (Coq_xO (Coq_xI
    Coq_xH))))))) :: ((Npos (Coq_xO (Coq_xI (Coq_xI (Coq_xI (Coq_xO (Coq_xI
    Coq_xH))))))) :: ((Npos (Coq_xO (Coq_xO (Coq_xI (Coq_xO (Coq_xI (Coq_xI
    Coq_xH))))))) :: ((Npos (Coq_xO (Coq_xI (Coq_xO (Coq_xI (Coq_xI
    Coq_xH)))))) :: ((Npos (Coq_xO (Coq_xO (Coq_xO (Coq_xI (Coq_xI (Coq_xI
    Coq_xH))))))) :: ((Npos (Coq_xI (Coq_xO (Coq_xI (Coq_xI (Coq_xO (Coq_xI
    Coq_xH))))))) :: ((Npos (Coq_xO (Coq_xO (Coq_xI (Coq_xI (Coq_xO (Coq_xI
    Coq_xH))))))) :: ((Npos (Coq_xO (Coq_xI (Coq_xI (Coq_xI (Coq_xO (Coq_xI
    Coq_xH))))))) :: ((Npos (Coq_xI (Coq_xI (Coq_xO (Coq_xO (Coq_xI (Coq_xI
    Coq_xH))))))) :: ((Npos (Coq_xO (Coq_xI (Coq_xO (Coq_xI (Coq_xI
    Coq_xH)))))) :: ((Npos (Coq_xI (Coq_xI (Coq_xO (Coq_xO (Coq_xO (Coq_xI
    Coq_xH))))))) :: ((Npos (Coq_xO (Coq_xO (Coq_xO (Coq_xI (Coq_xO (Coq_xI
    Coq_xH))))))) :: ((Npos (Coq_xI (Coq_xO (Coq_xO (Coq_xO (Coq_xO (Coq_xI
    Coq_xH))))))) :: ((Npos (Coq_xO (Coq_xI (Coq_xO (Coq_xO (Coq_xI (Coq_xI
    Coq_xH))))))) :: ((Npos (Coq_xO (Coq_xO (Coq_xI (Coq_xO (Coq_xI (Coq_xI
    Coq_xH))))))) :: ((Npos (Coq_xO (Coq_xI (Coq_xO (Coq_xI (Coq_xI
    Coq_xH)))))) :: ((Npos (Coq_xI (Coq_xO (Coq_xO (Coq_xO (Coq_xI
    Coq_xH)))))) :: ((Npos (Coq_xO (Coq_xI (Coq_xI (Coq_xI (Coq_xO
    Coq_xH)))))) :: ((Npos (Coq_xO (Coq_xO (Coq_xO (Coq_xO (Coq_xI
    Coq_xH)))))) :: []))))))))))))))))))))))))))))))))))))))))))))))), ((Npos
    (Coq_xI (Coq_xI (Coq_xO (Coq_xO (Coq_xI (Coq_xI Coq_xH))))))) :: ((Npos
    (Coq_xO (Coq_xO (Coq_xI (Coq_xO (Coq_xI (Coq_xI Coq_xH))))))) :: ((Npos
    (Coq_xI (Coq_xO (Coq_xO (Coq_xI (Coq_xI (Coq_xI Coq_xH))))))) :: ((Npos
    (Coq_xO (Coq_xO (Coq_xI (Coq_xI (Coq_xO (Coq_xI Coq_xH))))))) :: ((Npos
    (Coq_xI (Coq_xO (Coq_xI (Coq_xO (Coq_xO (Coq_xI Coq_xH))))))) :: ((Npos
    (Coq_xI (Coq_xO (Coq_xI (Coq_xI (Coq_xO Coq_xH)))))) :: ((Npos (Coq_xO
    (Coq_xI (Coq_xI (Coq_xI (Coq_xO (Coq_xI Coq_xH))))))) :: ((Npos (Coq_xI
    (Coq_xO (Coq_xO (Coq_xO (Coq_xO (Coq_xI Coq_xH))))))) :: ((Npos (Coq_xI
    (Coq_xO (Coq_xI (Coq_xI (Coq_xO (Coq_xI Coq_xH))))))) :: ((Npos (Coq_xI
    (Coq_xO (Coq_xI (Coq_xO (Coq_xO (Coq_xI
    Coq_xH))))))) :: []))))))))))) :: ((((Npos (Coq_xI (Coq_xO (Coq_xI
    (Coq_xO (Coq_xI (Coq_xI Coq_xH))))))) :: ((Npos (Coq_xO (Coq_xI (Coq_xO
    (Coq_xO (Coq_xI (Coq_xI Coq_xH))))))) :: ((Npos (Coq_xO (Coq_xI (Coq_xI
    (Coq_xI (Coq_xO (Coq_xI Coq_xH))))))) :: ((Npos (Coq_xO (Coq_xI (Coq_xO
    (Coq_xI (Coq_xI Coq_xH)))))) :: ((Npos (Coq_xI (Coq_xI (Coq_xI (Coq_xI
    (Coq_xO (Coq_xI Coq_xH))))))) :: ((Npos (Coq_xI (Coq_xO (Coq_xO (Coq_xO
    (Coq_xO (Coq_xI Coq_xH))))))) :: ((Npos (Coq_xI (Coq_xI (Coq_xO (Coq_xO
    (Coq_xI (Coq_xI Coq_xH))))))) :: ((Npos (Coq_xI (Coq_xO (Coq_xO (Coq_xI
    (Coq_xO (Coq_xI Coq_xH))))))) :: ((Npos (Coq_xI (Coq_xI (Coq_xO (Coq_xO
    (Coq_xI (Coq_xI Coq_xH))))))) :: ((Npos (Coq_xO (Coq_xI (Coq_xO (Coq_xI
    (Coq_xI Coq_xH)))))) :: ((Npos (Coq_xO (Coq_xI (Coq_xI (Coq_xI (Coq_xO
    (Coq_xI Coq_xH))))))) :: ((Npos (Coq_xI (Coq_xO (Coq_xO (Coq_xO (Coq_xO
    (Coq_xI Coq_xH))))))) :: ((Npos (Coq_xI (Coq_xO (Coq_xI (Coq_xI (Coq_xO
    (Coq_xI Coq_xH))))))) :: ((Npos (Coq_xI (Coq_xO (Coq_xI (Coq_xO (Coq_xO
    (Coq_xI Coq_xH))))))) :: ((Npos (Coq_xI (Coq_xI (Coq_xO (Coq_xO (Coq_xI
    (Coq_xI Coq_xH))))))) :: ((Npos (Coq_xO (Coq_xI (Coq_xO (Coq_xI (Coq_xI
    Coq_xH)))))) :: ((Npos (Coq_xO (Coq_xO (Coq_xI (Coq_xO (Coq_xI (Coq_xI
    Coq_xH))))))) :: ((Npos (Coq_xI (Coq_xI (Coq_xO (Coq_xO (Coq_xO (Coq_xI
    Coq_xH))))))) :: ((Npos (Coq_xO (Coq_xI (Coq_xO (Coq_xI (Coq_xI
    Coq_xH)))))) :: ((Npos (Coq_xI (Coq_xI (Coq_xI (Coq_xI (Coq_xO (Coq_xI
    Coq_xH))))))) :: ((Npos (Coq_xO (Coq_xO (Coq_xO (Coq_xO (Coq_xI (Coq_xI
    Coq_xH))))))) :: ((Npos (Coq_xI (Coq_xO (Coq_xI (Coq_xO (Coq_xO (Coq_xI
    Coq_xH))))))) :: ((Npos (Coq_xO (Coq_xI (Coq_xI (Coq_xI (Coq_xO (Coq_xI
    Coq_xH))))))) :: ((Npos (Coq_xO (Coq_xO (Coq_xI (Coq_xO (Coq_xO (Coq_xI
    Coq_xH))))))) :: ((Npos (Coq_xI (Coq_xI (Coq_xI (Coq_xI (Coq_xO (Coq_xI
    Coq_xH))))))) :: ((Npos (Coq_xI (Coq_xI (Coq_xO (Coq_xO (Coq_xO (Coq_xI
    Coq_xH))))))) :: ((Npos (Coq_xI (Coq_xO (Coq_xI (Coq_xO (Coq_xI (Coq_xI
    Coq_xH))))))) :: ((Npos (Coq_xI (Coq_xO (Coq_xI (Coq_xI (Coq_xO (Coq_xI
    Coq_xH))))))) :: ((Npos (Coq_xI (Coq_xO (Coq_xI (Coq_xO (Coq_xO (Coq_xI
    Coq_xH))))))) :: ((Npos (Coq_xO (Coq_xI (Coq_xI (Coq_xI (Coq_xO (Coq_xI
    Coq_xH))))))) :: ((Npos (Coq_xO (Coq_xO (Coq_xI (Coq_xO (Coq_xI (Coq_xI
    Coq_xH))))))) :: ((Npos (Coq_xO (Coq_xI (Coq_xO (Coq_xI (Coq_xI
    Coq_xH)))))) :: ((Npos (Coq_xO (Coq_xO (Coq_xO (Coq_xI (Coq_xI (Coq_xI
    Coq_xH))))))) :: ((Npos (Coq_xI (Coq_xO (Coq_xI (Coq_xI (Coq_xO (Coq_xI
    Coq_xH))))))) :: ((Npos (Coq_xO (Coq_xO (Coq_xI (Coq_xI (Coq_xO (Coq_xI
    Coq_xH))))))) :: ((Npos (Coq_xO (Coq_xI (Coq_xI (Coq_xI (Coq_xO (Coq_xI
    Coq_xH))))))) :: ((Npos (Coq_xI (Coq_xI (Coq_xO (Coq_xO (Coq_xI (Coq_xI
    Coq_xH))))))) :: ((Npos (Coq_xO (Coq_xI (Coq_xO (Coq_xI (Coq_xI
    Coq_xH)))))) :: ((Npos (Coq_xO (Coq_xO (Coq_xI (Coq_xO (Coq_xO (Coq_xI
    Coq_xH))))))) :: ((Npos (Coq_xI (Coq_xO (Coq_xO (Coq_xO (Coq_xO (Coq_xI
    Coq_xH))))))) :: ((Npos (Coq_xO (Coq_xO (Coq_xI (Coq_xO (Coq_xI (Coq_xI
    Coq_xH))))))) :: ((Npos (Coq_xI (Coq_xO (Coq_xO (Coq_xO (Coq_xO (Coq_xI
    Coq_xH))))))) :: ((Npos (Coq_xO (Coq_xI (Coq_xO (Coq_xO (Coq_xO (Coq_xI
    Coq_xH))))))) :: ((Npos (Coq_xI (Coq_xO (Coq_xO (Coq_xO (Coq_xO (Coq_xI
    Coq_xH))))))) :: ((Npos (Coq_xI (Coq_xI (Coq_xO (Coq_xO (Coq_xI (Coq_xI
    Coq_xH))))))) :: ((Npos (Coq_xI (Coq_xO (Coq_xI (Coq_xO (Coq_xO (Coq_xI
    Coq_xH))))))) :: ((Npos (Coq_xO (Coq_xI (Coq_xO (Coq_xI (Coq_xI
    Coq_xH)))))) :: ((Npos (Coq_xI (Coq_xO (Coq_xO (Coq_xO (Coq_xI
    Coq_xH)))))) :: ((Npos (Coq_xO (Coq_xI (Coq_xI (Coq_xI (Coq_xO
    Coq_xH)))))) :: ((Npos (Coq_xO (Coq_xO (Coq_xO (Coq_xO (Coq_xI
    Coq_xH)))))) :: [])))))))))))))))))))))))))))))))))))))))))))))))))),
    ((Npos (Coq_xO (Coq_xO (Coq_xI (Coq_xO (Coq_xO (Coq_xI
    Coq_xH))))))) :: ((Npos (Coq_xI (Coq_xO (Coq_xI (Coq_xO (Coq_xO (Coq_xI
    Coq_xH))))))) :: ((Npos (Coq_xO (Coq_xI (Coq_xI (Coq_xO (Coq_xO (Coq_xI
    Coq_xH))))))) :: ((Npos (Coq_xI (Coq_xO (Coq_xO (Coq_xO (Coq_xO (Coq_xI
    Coq_xH))))))) :: ((Npos (Coq_xI (Coq_xO (Coq_xI (Coq_xO (Coq_xI (Coq_xI
    Coq_xH))))))) :: ((Npos (Coq_xO (Coq_xO (Coq_xI (Coq_xI (Coq_xO (Coq_xI
    Coq_xH))))))) :: ((Npos (Coq_xO (Coq_xO (Coq_xI (Coq_xO (Coq_xI (Coq_xI
    Coq_xH))))))) :: ((Npos (Coq_xI (Coq_xO (Coq_xI (Coq_xI (Coq_xO
    Coq_xH)))))) :: ((Npos (Coq_xI (Coq_xI (Coq_xO (Coq_xO (Coq_xO (Coq_xI
    Coq_xH))))))) :: ((Npos (Coq_xI (Coq_xO (Coq_xI (Coq_xO (Coq_xO (Coq_xI
    Coq_xH))))))) :: ((Npos (Coq_xO (Coq_xO (Coq_xI (Coq_xI (Coq_xO (Coq_xI
    Coq_xH))))))) :: ((Npos (Coq_xO (Coq_xO (Coq_xI (Coq_xI (Coq_xO (Coq_xI
    Coq_xH))))))) :: ((Npos (Coq_xI (Coq_xO (Coq_xI (Coq_xI (Coq_xO
    Coq_xH)))))) :: ((Npos (Coq_xI (Coq_xI (Coq_xO (Coq_xO (Coq_xI (Coq_xI
    Coq_xH))))))) :: ((Npos (Coq_xO (Coq_xO (Coq_xI (Coq_xO (Coq_xI (Coq_xI
    Coq_xH))))))) :: ((Npos (Coq_xI (Coq_xO (Coq_xO (Coq_xI (Coq_xI (Coq_xI
    Coq_xH))))))) :: ((Npos (Coq_xO (Coq_xO (Coq_xI (Coq_xI (Coq_xO (Coq_xI
    Coq_xH))))))) :: ((Npos (Coq_xI (Coq_xO (Coq_xI (Coq_xO (Coq_xO (Coq_xI
    Coq_xH))))))) :: ((Npos (Coq_xI (Coq_xO (Coq_xI (Coq_xI (Coq_xO
    Coq_xH)))))) :: ((Npos (Coq_xO (Coq_xI (Coq_xI (Coq_xI (Coq_xO (Coq_xI
    Coq_xH))))))) :: ((Npos (Coq_xI (Coq_xO (Coq_xO (Coq_xO (Coq_xO (Coq_xI
    Coq_xH))))))) :: ((Npos (Coq_xI (Coq_xO (Coq_xI (Coq_xI (Coq_xO (Coq_xI
    Coq_xH))))))) :: ((Npos (Coq_xI (Coq_xO (Coq_xI (Coq_xO (Coq_xO (Coq_xI
    Coq_xH))))))) :: [])))))))))))))))))))))))) :: ((((Npos (Coq_xI (Coq_xO
    (Coq_xI (Coq_xO (Coq_xI (Coq_xI Coq_xH))))))) :: ((Npos (Coq_xO (Coq_xI
    (Coq_xO (Coq_xO (Coq_xI (Coq_xI Coq_xH))))))) :: ((Npos (Coq_xO (Coq_xI
    (Coq_xI (Coq_xI (Coq_xO (Coq_xI Coq_xH))))))) :: ((Npos (Coq_xO (Coq_xI
    (Coq_xO (Coq_xI (Coq_xI Coq_xH)))))) :: ((Npos (Coq_xI (Coq_xI (Coq_xI
    (Coq_xI (Coq_xO (Coq_xI Coq_xH))))))) :: ((Npos (Coq_xI (Coq_xO (Coq_xO
    (Coq_xO (Coq_xO (Coq_xI Coq_xH))))))) :: ((Npos (Coq_xI (Coq_xI (Coq_xO
    (Coq_xO (Coq_xI (Coq_xI Coq_xH))))))) :: ((Npos (Coq_xI (Coq_xO (Coq_xO
    (Coq_xI (Coq_xO (Coq_xI Coq_xH))))))) :: ((Npos (Coq_xI (Coq_xI (Coq_xO
    (Coq_xO (Coq_xI (Coq_xI Coq_xH))))))) :: ((Npos (Coq_xO (Coq_xI (Coq_xO
    (Coq_xI (Coq_xI Coq_xH)))))) :: ((Npos (Coq_xO (Coq_xI (Coq_xI (Coq_xI
    (Coq_xO (Coq_xI Coq_xH))))))) :: ((Npos (Coq_xI (Coq_xO (Coq_xO (Coq_xO
    (Coq_xO (Coq_xI Coq_xH))))))) :: ((Npos (Coq_xI (Coq_xO (Coq_xI (Coq_xI
    (Coq_xO (Coq_xI Coq_xH))))))) :: ((Npos (Coq_xI (Coq_xO (Coq_xI (Coq_xO
    (Coq_xO (Coq_xI Coq_xH))))))) :: ((Npos (Coq_xI (Coq_xI (Coq_xO (Coq_xO
    (Coq_xI (Coq_xI Coq_xH))))))) :: ((Npos (Coq_xO (Coq_xI (Coq_xO (Coq_xI
    (Coq_xI Coq_xH)))))) :: ((Npos (Coq_xO (Coq_xO (Coq_xI (Coq_xO (Coq_xI
    (Coq_xI Coq_xH))))))) :: ((Npos (Coq_xI (Coq_xI (Coq_xO (Coq_xO (Coq_xO
    (Coq_xI Coq_xH))))))) :: ((Npos (Coq_xO (Coq_xI (Coq_xO (Coq_xI (Coq_xI
    Coq_xH)))))) :: ((Npos (Coq_xI (Coq_xI (Coq_xI (Coq_xI (Coq_xO (Coq_xI
    Coq_xH))))))) :: ((Npos (Coq_xO (Coq_xO (Coq_xO (Coq_xO (Coq_xI (Coq_xI
    Coq_xH))))))) :: ((Npos (Coq_xI (Coq_xO (Coq_xI (Coq_xO (Coq_xO (Coq_xI
    Coq_xH))))))) :: ((Npos (Coq_xO (Coq_xI (Coq_xI (Coq_xI (Coq_xO (Coq_xI
    Coq_xH))))))) :: ((Npos (Coq_xO (Coq_xO (Coq_xI (Coq_xO (Coq_xO (Coq_xI
    Coq_xH))))))) :: ((Npos (Coq_xI (Coq_xI (Coq_xI (Coq_xI (Coq_xO (Coq_xI
    Coq_xH))))))) :: ((Npos (Coq_xI (Coq_xI (Coq_xO (Coq_xO (Coq_xO (Coq_xI
    Coq_xH))))))) :: ((Npos (Coq_xI (Coq_xO (Coq_xI (Coq_xO (Coq_xI (Coq_xI
    Coq_xH))))))) :: ((Npos (Coq_xI (Coq_xO (Coq_xI (Coq_xI (Coq_xO (Coq_xI
    Coq_xH))))))) :: ((Npos (Coq_xI (Coq_xO (Coq_xI (Coq_xO (Coq_xO (Coq_xI
    Coq_xH))))))) :: ((Npos (Coq_xO (Coq_xI (Coq_xI (Coq_xI (Coq_xO (Coq_xI
    Coq_xH))))))) :: ((Npos (Coq_xO (Coq_xO (Coq_xI (Coq_xO (Coq_xI (Coq_xI
    Coq_xH))))))) :: ((Npos (Coq_xO (Coq_xI (Coq_xO (Coq_xI (Coq_xI
    Coq_xH)))))) :: ((Npos (Coq_xO (Coq_xO (Coq_xO (Coq_xI (Coq_xI (Coq_xI
    Coq_xH))))))) :: ((Npos (Coq_xI (Coq_xO (Coq_xI (Coq_xI (Coq_xO (Coq_xI
    Coq_xH))))))) :: ((Npos (Coq_xO (Coq_xO (Coq_xI (Coq_xI (Coq_xO (Coq_xI
    Coq_xH))))))) :: ((Npos (Coq_xO (Coq_xI (Coq_xI (Coq_xI (Coq_xO (Coq_xI
    Coq_xH))))))) :: ((Npos (Coq_xI (Coq_xI (Coq_xO (Coq_xO (Coq_xI (Coq_xI
    Coq_xH))))))) :: ((Npos (Coq_xO (Coq_xI (Coq_xO (Coq_xI (Coq_xI
    Coq_xH)))))) :: ((Npos (Coq_xO (Coq_xO (Coq_xI (Coq_xO (Coq_xO (Coq_xI
    Coq_xH))))))) :: ((Npos (Coq_xI (Coq_xO (Coq_xO (Coq_xO (Coq_xO (Coq_xI
    Coq_xH))))))) :: ((Npos (Coq_xO (Coq_xO (Coq_xI (Coq_xO (Coq_xI (Coq_xI
    Coq_xH))))))) :: ((Npos (Coq_xI (Coq_xO (Coq_xO (Coq_xO (Coq_xO (Coq_xI
    Coq_xH))))))) :: ((Npos (Coq_xO (Coq_xI (Coq_xO (Coq_xO (Coq_xO (Coq_xI
    Coq_xH))))))) :: ((Npos (Coq_xI (Coq_xO (Coq_xO (Coq_xO (Coq_xO (Coq_xI
    Coq_xH))))))) :: ((Npos (Coq_xI (Coq_xI (Coq_xO (Coq_xO (Coq_xI (Coq_xI
    Coq_xH))))))) :: ((Npos (Coq_xI (Coq_xO (Coq_xI (Coq_xO (Coq_xO (Coq_xI
    Coq_xH))))))) :: ((Npos (Coq_xO (Coq_xI (Coq_xO (Coq_xI (Coq_xI
    Coq_xH)))))) :: ((Npos (Coq_xI (Coq_xO (Coq_xO (Coq_xO (Coq_xI
    Coq_xH)))))) :: ((Npos (Coq_xO (Coq_xI (Coq_xI (Coq_xI (Coq_xO
    Coq_xH)))))) :: ((Npos (Coq_xO (Coq_xO (Coq_xO (Coq_xO (Coq_xI
    Coq_xH)))))) :: [])))))))))))))))))))))))))))))))))))))))))))))))))),
    ((Npos (Coq_xO (Coq_xO (Coq_xI (Coq_xO (Coq_xO (Coq_xI
    Coq_xH))))))) :: ((Npos (Coq_xI (Coq_xO (Coq_xI (Coq_xO (Coq_xO (Coq_xI
    Coq_xH))))))) :: ((Npos (Coq_xO (Coq_xI (Coq_xI (Coq_xO (Coq_xO (Coq_xI
    Coq_xH))))))) :: ((Npos (Coq_xI (Coq_xO (Coq_xO (Coq_xO (Coq_xO (Coq_xI
    Coq_xH))))))) :: ((Npos (Coq_xI (Coq_xO (Coq_xI (Coq_xO (Coq_xI (Coq_xI
    Coq_xH))))))) :: ((Npos (Coq_xO (Coq_xO (Coq_xI (Coq_xI (Coq_xO (Coq_xI
    Coq_xH))))))) :: ((Npos (Coq_xO (Coq_xO (Coq_xI (Coq_xO (Coq_xI (Coq_xI
    Coq_xH))))))) :: ((Npos (Coq_xI (Coq_xO (Coq_xI (Coq_xI (Coq_xO
    Coq_xH)))))) :: ((Npos (Coq_xO (Coq_xI (Coq_xO (Coq_xO (Coq_xI (Coq_xI
    Coq_xH))))))) :: ((Npos (Coq_xI (Coq_xI (Coq_xI (Coq_xI (Coq_xO (Coq_xI
    Coq_xH))))))) :: ((Npos (Coq_xI (Coq_xI (Coq_xI (Coq_xO (Coq_xI (Coq_xI
    Coq_xH))))))) :: ((Npos (Coq_xI (Coq_xO (Coq_xI (Coq_xI (Coq_xO
    Coq_xH)))))) :: ((Npos (Coq_xI (Coq_xI (Coq_xO (Coq_xO (Coq_xI (Coq_xI
    Coq_xH))))))) :: ((Npos (Coq_xO (Coq_xO (Coq_xI (Coq_xO (Coq_xI (Coq_xI
    Coq_xH))))))) :: ((Npos (Coq_xI (Coq_xO (Coq_xO (Coq_xI (Coq_xI (Coq_xI
    Coq_xH))))))) :: ((Npos (Coq_xO (Coq_xO (Coq_xI (Coq_xI (Coq_xO (Coq_xI
    Coq_xH))))))) :: ((Npos (Coq_xI (Coq_xO (Coq_xI (Coq_xO (Coq_xO (Coq_xI
    Coq_xH))))))) :: ((Npos (Coq_xI (Coq_xO (Coq_xI (Coq_xI (Coq_xO
    Coq_xH)))))) :: ((Npos (Coq_xO (Coq_xI (Coq_xI (Coq_xI (Coq_xO (Coq_xI
    Coq_xH))))))) :: ((Npos (Coq_xI (Coq_xO (Coq_xO (Coq_xO (Coq_xO (Coq_xI
    Coq_xH))))))) :: ((Npos (Coq_xI (Coq_xO (Coq_xI (Coq_xI (Coq_xO (Coq_xI
    Coq_xH))))))) :: ((Npos (Coq_xI (Coq_xO (Coq_xI (Coq_xO (Coq_xO (Coq_xI
    Coq_xH))))))) :: []))))))))))))))))))))))) :: ((((Npos (Coq_xI (Coq_xO
    (Coq_xI (Coq_xO (Coq_xI (Coq_xI Coq_xH))))))) :: ((Npos (Coq_xO (Coq_xI
    (Coq_xO (Coq_xO (Coq_xI (Coq_xI Coq_xH))))))) :: ((Npos (Coq_xO (Coq_xI
    (Coq_xI (Coq_xI (Coq_xO (Coq_xI Coq_xH))))))) :: ((Npos (Coq_xO (Coq_xI
    (Coq_xO (Coq_xI (Coq_xI Coq_xH)))))) :: ((Npos (Coq_xI (Coq_xI (Coq_xI
    (Coq_xI (Coq_xO (Coq_xI Coq_xH))))))) :: ((Npos (Coq_xI (Coq_xO (Coq_xO
    (Coq_xO (Coq_xO (Coq_xI Coq_xH))))))) :: ((Npos (Coq_xI (Coq_xI (Coq_xO
    (Coq_xO (Coq_xI (Coq_xI Coq_xH))))))) :: ((Npos (Coq_xI (Coq_xO (Coq_xO
    (Coq_xI (Coq_xO (Coq_xI Coq_xH))))))) :: ((Npos (Coq_xI (Coq_xI (Coq_xO
    (Coq_xO (Coq_xI (Coq_xI Coq_xH))))))) :: ((Npos (Coq_xO (Coq_xI (Coq_xO
    (Coq_xI (Coq_xI Coq_xH)))))) :: ((Npos (Coq_xO (Coq_xI (Coq_xI (Coq_xI
    (Coq_xO (Coq_xI Coq_xH))))))) :: ((Npos (Coq_xI (Coq_xO (Coq_xO (Coq_xO
    (Coq_xO (Coq_xI Coq_xH))))))) :: ((Npos (Coq_xI (Coq_xO (Coq_xI (Coq_xI
    (Coq_xO (Coq_xI Coq_xH))))))) :: ((Npos (Coq_xI (Coq_xO (Coq_xI (Coq_xO
    (Coq_xO (Coq_xI Coq_xH))))))) :: ((Npos (Coq_xI (Coq_xI (Coq_xO (Coq_xO
    (Coq_xI (Coq_xI Coq_xH))))))) :: ((Npos (Coq_xO (Coq_xI (Coq_xO (Coq_xI
    (Coq_xI Coq_xH)))))) :: ((Npos (Coq_xO (Coq_xO (Coq_xI (Coq_xO (Coq_xI
    (Coq_xI Coq_xH))))))) :: ((Npos (Coq_xI (Coq_xI (Coq_xO (Coq_xO (Coq_xO
    (Coq_xI Coq_xH))))))) :: ((Npos (Coq_xO (Coq_xI (Coq_xO (Coq_xI (Coq_xI
    Coq_xH)))))) :: ((Npos (Coq_xI (Coq_xI (Coq_xI (Coq_xI (Coq_xO (Coq_xI
    Coq_xH))))))) :: ((Npos (Coq_xO (Coq_xO (Coq_xO (Coq_xO (Coq_xI (Coq_xI
    Coq_xH))))))) :: ((Npos (Coq_xI (Coq_xO (Coq_xI (Coq_xO (Coq_xO (Coq_xI
    Coq_xH))))))) :: ((Npos (Coq_xO (Coq_xI (Coq_xI (Coq_xI (Coq_xO (Coq_xI
    Coq_xH))))))) :: ((Npos (Coq_xO (Coq_xO (Coq_xI (Coq_xO (Coq_xO (Coq_xI
    Coq_xH))))))) :: ((Npos (Coq_xI (Coq_xI (Coq_xI (Coq_xI (Coq_xO (Coq_xI
    Coq_xH))))))) :: ((Npos (Coq_xI (Coq_xI (Coq_xO (Coq_xO (Coq_xO (Coq_xI
    Coq_xH))))))) :: ((Npos (Coq_xI (Coq_xO (Coq_xI (Coq_xO (Coq_xI (Coq_xI
    Coq_xH))))))) :: ((Npos (Coq_xI (Coq_xO (Coq_xI (Coq_xI (Coq_xO (Coq_xI
    Coq_xH))))))) :: ((Npos (Coq_xI (Coq_xO (Coq_xI (Coq_xO (Coq_xO (Coq_xI
    Coq_xH))))))) :: ((Npos (Coq_xO (Coq_xI (Coq_xI (Coq_xI (Coq_xO (Coq_xI
    Coq_xH))))))) :: ((Npos (Coq_xO (Coq_xO (Coq_xI (Coq_xO (Coq_xI (Coq_xI
    Coq_xH))))))) :: ((Npos (Coq_xO (Coq_xI (Coq_xO (Coq_xI (Coq_xI
    Coq_xH)))))) :: ((Npos (Coq_xO (Coq_xO (Coq_xO (Coq_xI (Coq_xI (Coq_xI
    Coq_xH))))))) :: ((Npos (Coq_xI (Coq_xO (Coq_xI (Coq_xI (Coq_xO (Coq_xI
    Coq_xH))))))) :: ((Npos (Coq_xO (Coq_xO (Coq_xI (Coq_xI (Coq_xO (Coq_xI
    Coq_xH))))))) :: ((Npos (Coq_xO (Coq_xI (Coq_xI (Coq_xI (Coq_xO (Coq_xI
    Coq_xH))))))) :: ((Npos (Coq_xI (Coq_xI (Coq_xO (Coq_xO (Coq_xI (Coq_xI
    Coq_xH))))))) :: ((Npos (Coq_xO (Coq_xI (Coq_xO (Coq_xI (Coq_xI
    Coq_xH)))))) :: ((Npos (Coq_xO (Coq_xO (Coq_xI (Coq_xO (Coq_xO (Coq_xI
    Coq_xH))))))) :: ((Npos (Coq_xI (Coq_xO (Coq_xO (Coq_xO (Coq_xO (Coq_xI
    Coq_xH))))))) :: ((Npos (Coq_xO (Coq_xO (Coq_xI (Coq_xO (Coq_xI (Coq_xI
    Coq_xH))))))) :: ((Npos (Coq_xI (Coq_xO (Coq_xO (Coq_xO (Coq_xO (Coq_xI
    Coq_xH))))))) :: ((Npos (Coq_xO (Coq_xI (Coq_xO (Coq_xO (Coq_xO (Coq_xI
    Coq_xH))))))) :: ((Npos (Coq_xI (Coq_xO (Coq_xO (Coq_xO (Coq_xO (Coq_xI
    Coq_xH))))))) :: ((Npos (Coq_xI (Coq_xI (Coq_xO (Coq_xO (Coq_xI (Coq_xI
    Coq_xH))))))) :: ((Npos (Coq_xI (Coq_xO (Coq_xI (Coq_xO (Coq_xO (Coq_xI
    Coq_xH))))))) :: ((Npos (Coq_xO (Coq_xI (Coq_xO (Coq_xI (Coq_xI
    Coq_xH)))))) :: ((Npos (Coq_xI (Coq_xO (Coq_xO (Coq_xO (Coq_xI
    Coq_xH)))))) :: ((Npos (Coq_xO (Coq_xI (Coq_xI (Coq_xI (Coq_xO
    Coq_xH)))))) :: ((Npos (Coq_xO (Coq_xO (Coq_xO (Coq_xO (Coq_xI
    Coq_xH)))))) :: [])))))))))))))))))))))))))))))))))))))))))))))))))),
    ((Npos (Coq_xI (Coq_xI (Coq_xO (Coq_xO (Coq_xI (Coq_xI
    Coq_xH))))))) :: ((Npos (Coq_xO (Coq_xO (Coq_xI (Coq_xO (Coq_xI (Coq_xI
    Coq_xH))))))) :: ((Npos (Coq_xI (Coq_xO (Coq_xO (Coq_xI (Coq_xI (Coq_xI
    Coq_xH))))))) :: ((Npos (Coq_xO (Coq_xO (Coq_xI (Coq_xI (Coq_xO (Coq_xI
    Coq_xH))))))) :: ((Npos (Coq_xI (Coq_xO (Coq_xI (Coq_xO (Coq_xO (Coq_xI
    Coq_xH))))))) :: ((Npos (Coq_xI (Coq_xO (Coq_xI (Coq_xI (Coq_xO
    Coq_xH)))))) :: ((Npos (Coq_xO (Coq_xI (Coq_xI (Coq_xI (Coq_xO (Coq_xI
    Coq_xH))))))) :: ((Npos (Coq_xI (Coq_xO (Coq_xO (Coq_xO (Coq_xO (Coq_xI
    Coq_xH))))))) :: ((Npos (Coq_xI (Coq_xO (Coq_xI (Coq_xI (Coq_xO (Coq_xI
    Coq_xH))))))) :: ((Npos (Coq_xI (Coq_xO (Coq_xI (Coq_xO (Coq_xO (Coq_xI
    Coq_xH))))))) :: []))))))))))) :: ((((Npos (Coq_xI (Coq_xO (Coq_xI
    (Coq_xO (Coq_xI (Coq_xI Coq_xH))))))) :: ((Npos (Coq_xO (Coq_xI (Coq_xO
    (Coq_xO (Coq_xI (Coq_xI Coq_xH))))))) :: ((Npos (Coq_xO (Coq_xI (Coq_xI
    (Coq_xI (Coq_xO (Coq_xI Coq_xH))))))) :: ((Npos (Coq_xO (Coq_xI (Coq_xO
    (Coq_xI (Coq_xI Coq_xH)))))) :: ((Npos (Coq_xI (Coq_xI (Coq_xI (Coq_xI
    (Coq_xO (Coq_xI Coq_xH))))))) :: ((Npos (Coq_xI (Coq_xO (Coq_xO (Coq_xO
    (Coq_xO (Coq_xI Coq_xH))))))) :: ((Npos (Coq_xI (Coq_xI (Coq_xO (Coq_xO
    (Coq_xI (Coq_xI Coq_xH))))))) :: ((Npos (Coq_xI (Coq_xO (Coq_xO (Coq_xI
    (Coq_xO (Coq_xI Coq_xH))))))) :: ((Npos (Coq_xI (Coq_xI (Coq_xO (Coq_xO
    (Coq_xI (Coq_xI Coq_xH))))))) :: ((Npos (Coq_xO (Coq_xI (Coq_xO (Coq_xI
    (Coq_xI Coq_xH)))))) :: ((Npos (Coq_xO (Coq_xI (Coq_xI (Coq_xI (Coq_xO
    (Coq_xI Coq_xH))))))) :: ((Npos (Coq_xI (Coq_xO (Coq_xO (Coq_xO (Coq_xO
    (Coq_xI Coq_xH))))))) :: ((Npos (Coq_xI (Coq_xO (Coq_xI (Coq_xI (Coq_xO
    (Coq_xI Coq_xH))))))) :: ((Npos (Coq_xI (Coq_xO (Coq_xI (Coq_xO (Coq_xO
    (Coq_xI Coq_xH))))))) :: ((Npos (Coq_xI (Coq_xI (Coq_xO (Coq_xO (Coq_xI
    (Coq_xI Coq_xH))))))) :: ((Npos (Coq_xO (Coq_xI (Coq_xO (Coq_xI (Coq_xI
    Coq_xH)))))) :: ((Npos (Coq_xO (Coq_xO (Coq_xI (Coq_xO (Coq_xI (Coq_xI
    Coq_xH))))))) :: ((Npos (Coq_xI (Coq_xI (Coq_xO (Coq_xO (Coq_xO (Coq_xI
    Coq_xH))))))) :: ((Npos (Coq_xO (Coq_xI (Coq_xO (Coq_xI (Coq_xI
    Coq_xH)))))) :: ((Npos (Coq_xI (Coq_xI (Coq_xI (Coq_xI (Coq_xO (Coq_xI
    Coq_xH))))))) :: ((Npos (Coq_xO (Coq_xO (Coq_xO (Coq_xO (Coq_xI (Coq_xI
    Coq_xH))))))) :: ((Npos (Coq_xI (Coq_xO (Coq_xI (Coq_xO (Coq_xO (Coq_xI
    Coq_xH))))))) :: ((Npos (Coq_xO (Coq_xI (Coq_xI (Coq_xI (Coq_xO (Coq_xI
    Coq_xH))))))) :: ((Npos (Coq_xO (Coq_xO (Coq_xI (Coq_xO (Coq_xO (Coq_xI
    Coq_xH))))))) :: ((Npos (Coq_xI (Coq_xI (Coq_xI (Coq_xI (Coq_xO (Coq_xI
    Coq_xH))))))) :: ((Npos (Coq_xI (Coq_xI (Coq_xO (Coq_xO (Coq_xO (Coq_xI
    Coq_xH))))))) :: ((Npos (Coq_xI (Coq_xO (Coq_xI (Coq_xO (Coq_xI (Coq_xI
    Coq_xH))))))) :: ((Npos (Coq_xI (Coq_xO (Coq_xI (Coq_xI (Coq_xO (Coq_xI
    Coq_xH))))))) :: ((Npos (Coq_xI (Coq_xO (Coq_xI (Coq_xO (Coq_xO (Coq_xI
    Coq_xH))))))) :: ((Npos (Coq_xO (Coq_xI (Coq_xI (Coq_xI (Coq_xO (Coq_xI
    Coq_xH))))))) :: ((Npos (Coq_xO (Coq_xO (Coq_xI (Coq_xO (Coq_xI (Coq_xI
    Coq_xH))))))) :: ((Npos (Coq_xO (Coq_xI (Coq_xO (Coq_xI (Coq_xI
    Coq_xH)))))) :: ((Npos (Coq_xO (Coq_xO (Coq_xO (Coq_xI (Coq_xI (Coq_xI
    Coq_xH))))))) :: ((Npos (Coq_xI (Coq_xO (Coq_xI (Coq_xI (Coq_xO (Coq_xI
    Coq_xH))))))) :: ((Npos (Coq_xO (Coq_xO (Coq_xI (Coq_xI (Coq_xO (Coq_xI
    Coq_xH))))))) :: ((Npos (Coq_xO (Coq_xI (Coq_xI (Coq_xI (Coq_xO (Coq_xI
    Coq_xH))))))) :: ((Npos (Coq_xI (Coq_xI (Coq_xO (Coq_xO (Coq_xI (Coq_xI
    Coq_xH))))))) :: ((Npos (Coq_xO (Coq_xI (Coq_xO (Coq_xI (Coq_xI
    Coq_xH)))))) :: ((Npos (Coq_xO (Coq_xO (Coq_xI (Coq_xO (Coq_xO (Coq_xI
    Coq_xH))))))) :: ((Npos (Coq_xO (Coq_xI (Coq_xO (Coq_xO (Coq_xI (Coq_xI
    Coq_xH))))))) :: ((Npos (Coq_xI (Coq_xO (Coq_xO (Coq_xO (Coq_xO (Coq_xI
    Coq_xH))))))) :: ((Npos (Coq_xI (Coq_xI (Coq_xI (Coq_xO (Coq_xI (Coq_xI
    Coq_xH))))))) :: ((Npos (Coq_xI (Coq_xO (Coq_xO (Coq_xI (Coq_xO (Coq_xI
    Coq_xH))))))) :: ((Npos (Coq_xO (Coq_xI (Coq_xI (Coq_xI (Coq_xO (Coq_xI
    Coq_xH))))))) :: ((Npos (Coq_xI (Coq_xI (Coq_xI (Coq_xO (Coq_xO (Coq_xI
    Coq_xH))))))) :: ((Npos (Coq_xO (Coq_xI (Coq_xO (Coq_xI (Coq_xI
    Coq_xH)))))) :: ((Npos (Coq_xI (Coq_xO (Coq_xO (Coq_xO (Coq_xI
    Coq_xH)))))) :: ((Npos (Coq_xO (Coq_xI (Coq_xI (Coq_xI (Coq_xO
    Coq_xH)))))) :: ((Npos (Coq_xO (Coq_xO (Coq_xO (Coq_xO (Coq_xI
    Coq_xH)))))) :: []))))))))))))))))))))))))))))))))))))))))))))))))),
    ((Npos (Coq_xI (Coq_xI (Coq_xO (Coq_xO (Coq_xO (Coq_xI
    Coq_xH))))))) :: ((Npos (Coq_xO (Coq_xO (Coq_xI (Coq_xI (Coq_xO (Coq_xI
    Coq_xH))))))) :: ((Npos (Coq_xI (Coq_xO (Coq_xO (Coq_xO (Coq_xO (Coq_xI
    Coq_xH))))))) :: ((Npos (Coq_xI (Coq_xI (Coq_xO (Coq_xO (Coq_xI (Coq_xI
    Coq_xH))))))) :: ((Npos (Coq_xI (Coq_xI (Coq_xO (Coq_xO (Coq_xI (Coq_xI
    Coq_xH))))))) :: ((Npos (Coq_xI (Coq_xO (Coq_xI (Coq_xI (Coq_xO
    Coq_xH)))))) :: ((Npos (Coq_xO (Coq_xI (Coq_xI (Coq_xI (Coq_xO (Coq_xI
    Coq_xH))))))) :: ((Npos (Coq_xI (Coq_xO (Coq_xO (Coq_xO (Coq_xO (Coq_xI
    Coq_xH))))))) :: ((Npos (Coq_xI (Coq_xO (Coq_xI (Coq_xI (Coq_xO (Coq_xI
    Coq_xH))))))) :: ((Npos (Coq_xI (Coq_xO (Coq_xI (Coq_xO (Coq_xO (Coq_xI
    Coq_xH))))))) :: ((Npos (Coq_xI (Coq_xI (Coq_xO (Coq_xO (Coq_xI (Coq_xI
    Coq_xH))))))) :: [])))))))))))) :: ((((Npos (Coq_xI (Coq_xO (Coq_xI
    (Coq_xO (Coq_xI (Coq_xI Coq_xH))))))) :: ((Npos (Coq_xO (Coq_xI (Coq_xO
    (Coq_xO (Coq_xI (Coq_xI Coq_xH))))))) :: ((Npos (Coq_xO (Coq_xI (Coq_xI
    (Coq_xI (Coq_xO (Coq_xI Coq_xH))))))) :: ((Npos (Coq_xO (Coq_xI (Coq_xO
    (Coq_xI (Coq_xI Coq_xH)))))) :: ((Npos (Coq_xI (Coq_xI (Coq_xI (Coq_xI
    (Coq_xO (Coq_xI Coq_xH))))))) :: ((Npos (Coq_xI (Coq_xO (Coq_xO (Coq_xO
    (Coq_xO (Coq_xI Coq_xH))))))) :: ((Npos (Coq_xI (Coq_xI (Coq_xO (Coq_xO
    (Coq_xI (Coq_xI Coq_xH))))))) :: ((Npos (Coq_xI (Coq_xO (Coq_xO (Coq_xI
    (Coq_xO (Coq_xI Coq_xH))))))) :: ((Npos (Coq_xI (Coq_xI (Coq_xO (Coq_xO
    (Coq_xI (Coq_xI Coq_xH))))))) :: ((Npos (Coq_xO (Coq_xI (Coq_xO (Coq_xI
    (Coq_xI Coq_xH)))))) :: ((Npos (Coq_xO (Coq_xI (Coq_xI (Coq_xI (Coq_xO
    (Coq_xI Coq_xH))))))) :: ((Npos (Coq_xI (Coq_xO (Coq_xO (Coq_xO (Coq_xO
    (Coq_xI Coq_xH))))))) :: ((Npos (Coq_xI (Coq_xO (Coq_xI (Coq_xI (Coq_xO
    (Coq_xI Coq_xH))))))) :: ((Npos (Coq_xI (Coq_xO (Coq_xI (Coq_xO (Coq_xO
    (Coq_xI Coq_xH))))))) :: ((Npos (Coq_xI (Coq_xI (Coq_xO (Coq_xO (Coq_xI
    (Coq_xI Coq_xH))))))) :: ((Npos (Coq_xO (Coq_xI (Coq_xO (Coq_xI (Coq_xI
    Coq_xH)))))) :: ((Npos (Coq_xO (Coq_xO (Coq_xI (Coq_xO (Coq_xI (Coq_xI
    Coq_xH))))))) :: ((Npos (Coq_xI (Coq_xI (Coq_xO (Coq_xO (Coq_xO (Coq_xI
    Coq_xH))))))) :: ((Npos (Coq_xO (Coq_xI (Coq_xO (Coq_xI (Coq_xI
    Coq_xH)))))) :: ((Npos (Coq_xI (Coq_xI (Coq_xI (Coq_xI (Coq_xO (Coq_xI
    Coq_xH))))))) :: ((Npos (Coq_xO (Coq_xO (Coq_xO (Coq_xO (Coq_xI (Coq_xI
    Coq_xH))))))) :: ((Npos (Coq_xI (Coq_xO (Coq_xI (Coq_xO (Coq_xO (Coq_xI
    Coq_xH))))))) :: ((Npos (Coq_xO (Coq_xI (Coq_xI (Coq_xI (Coq_xO (Coq_xI
    Coq_xH))))))) :: ((Npos (Coq_xO (Coq_xO (Coq_xI (Coq_xO (Coq_xO (Coq_xI
    Coq_xH))))))) :: ((Npos (Coq_xI (Coq_xI (Coq_xI (Coq_xI (Coq_xO (Coq_xI
    Coq_xH))))))) :: ((Npos (Coq_xI (Coq_xI (Coq_xO (Coq_xO (Coq_xO (Coq_xI
    Coq_xH))))))) :: ((Npos (Coq_xI (Coq_xO (Coq_xI (Coq_xO (Coq_xI (Coq_xI
    Coq_xH))))))) :: ((Npos (Coq_xI (Coq_xO (Coq_xI (Coq_xI (Coq_xO (Coq_xI
    Coq_xH))))))) :: ((Npos (Coq_xI (Coq_xO (Coq_xI (Coq_xO (Coq_xO (Coq_xI
    Coq_xH))))))) :: ((Npos (Coq_xO (Coq_xI (Coq_xI (Coq_xI (Coq_xO (Coq_xI
    Coq_xH))))))) :: ((Npos (Coq_xO (Coq_xO (Coq_xI (Coq_xO (Coq_xI (Coq_xI
    Coq_xH))))))) :: ((Npos (Coq_xO (Coq_xI (Coq_xO (Coq_xI (Coq_xI
    Coq_xH)))))) :: ((Npos (Coq_xO (Coq_xO (Coq_xO (Coq_xI (Coq_xI (Coq_xI
    Coq_xH))))))) :: ((Npos (Coq_xI (Coq_xO (Coq_xI (Coq_xI (Coq_xO (Coq_xI
    Coq_xH))))))) :: ((Npos (Coq_xO (Coq_xO (Coq_xI (Coq_xI (Coq_xO (Coq_xI
    Coq_xH))))))) :: ((Npos (Coq_xO (Coq_xI (Coq_xI (Coq_xI (Coq_xO (Coq_xI
    Coq_xH))))))) :: ((Npos (Coq_xI (Coq_xI (Coq_xO (Coq_xO (Coq_xI (Coq_xI
    Coq_xH))))))) :: ((Npos (Coq_xO (Coq_xI (Coq_xO (Coq_xI (Coq_xI
    Coq_xH)))))) :: ((Npos (Coq_xO (Coq_xO (Coq_xI (Coq_xO (Coq_xO (Coq_xI
    Coq_xH))))))) :: ((Npos (Coq_xO (Coq_xI (Coq_xO (Coq_xO (Coq_xI (Coq_xI
    Coq_xH))))))) :: ((Npos (Coq_xI (Coq_xO (Coq_xO (Coq_xO (Coq_xO (Coq_xI
    Coq_xH))))))) :: ((Npos (Coq_xI (Coq_xI (Coq_xI (Coq_xO (Coq_xI (Coq_xI
    Coq_xH))))))) :: ((Npos (Coq_xI (Coq_xO (Coq_xO (Coq_xI (Coq_xO (Coq_xI
    Coq_xH))))))) :: ((Npos (Coq_xO (Coq_xI (Coq_xI (Coq_xI (Coq_xO (Coq_xI
    Coq_xH))))))) :: ((Npos (Coq_xI (Coq_xI (Coq_xI (Coq_xO (Coq_xO (Coq_xI
    Coq_xH))))))) :: ((Npos (Coq_xO (Coq_xI (Coq_xO (Coq_xI (Coq_xI
    Coq_xH)))))) :: ((Npos (Coq_xI (Coq_xO (Coq_xO (Coq_xO (Coq_xI
    Coq_xH)))))) :: ((Npos (Coq_xO (Coq_xI (Coq_xI (Coq_xI (Coq_xO
    Coq_xH)))))) :: ((Npos (Coq_xO (Coq_xO (Coq_xO (Coq_xO (Coq_xI
    Coq_xH)))))) :: []))))))))))))))))))))))))))))))))))))))))))))))))),
    ((Npos (Coq_xO (Coq_xI (Coq_xI (Coq_xO (Coq_xO (Coq_xI
    Coq_xH))))))) :: ((Npos (Coq_xI (Coq_xO (Coq_xO (Coq_xI (Coq_xO (Coq_xI
    Coq_xH))))))) :: ((Npos (Coq_xO (Coq_xO (Coq_xI (Coq_xI (Coq_xO (Coq_xI
    Coq_xH))))))) :: ((Npos (Coq_xO (Coq_xO (Coq_xI (Coq_xI (Coq_xO (Coq_xI
    Coq_xH))))))) :: ((Npos (Coq_xI (Coq_xO (Coq_xI (Coq_xI (Coq_xO
    Coq_xH)))))) :: ((Npos (Coq_xI (Coq_xI (Coq_xI (Coq_xO (Coq_xO (Coq_xI
    Coq_xH))))))) :: ((Npos (Coq_xO (Coq_xI (Coq_xO (Coq_xO (Coq_xI (Coq_xI
    Coq_xH))))))) :: ((Npos (Coq_xI (Coq_xO (Coq_xO (Coq_xO (Coq_xO (Coq_xI
    Coq_xH))))))) :: ((Npos (Coq_xO (Coq_xO (Coq_xI (Coq_xO (Coq_xO (Coq_xI
    Coq_xH))))))) :: ((Npos (Coq_xI (Coq_xO (Coq_xO (Coq_xI (Coq_xO (Coq_xI
    Coq_xH))))))) :: ((Npos (Coq_xI (Coq_xO (Coq_xI (Coq_xO (Coq_xO (Coq_xI
    Coq_xH))))))) :: ((Npos (Coq_xO (Coq_xI (Coq_xI (Coq_xI (Coq_xO (Coq_xI
    Coq_xH))))))) :: ((Npos (Coq_xO (Coq_xO (Coq_xI (Coq_xO (Coq_xI (Coq_xI
    Coq_xH))))))) :: ((Npos (Coq_xI (Coq_xO (Coq_xI (Coq_xI (Coq_xO
    Coq_xH)))))) :: ((Npos (Coq_xO (Coq_xI (Coq_xI (Coq_xI (Coq_xO (Coq_xI
    Coq_xH))))))) :: ((Npos (Coq_xI (Coq_xO (Coq_xO (Coq_xO (Coq_xO (Coq_xI
    Coq_xH))))))) :: ((Npos (Coq_xI (Coq_xO (Coq_xI (Coq_xI (Coq_xO (Coq_xI
    Coq_xH))))))) :: ((Npos (Coq_xI (Coq_xO (Coq_xI (Coq_xO (Coq_xO (Coq_xI
    Coq_xH))))))) :: []))))))))))))))))))) :: ((((Npos (Coq_xI (Coq_xO
    (Coq_xI (Coq_xO (Coq_xI (Coq_xI Coq_xH))))))) :: ((Npos (Coq_xO (Coq_xI
    (Coq_xO (Coq_xO (Coq_xI (Coq_xI Coq_xH))))))) :: ((Npos (Coq_xO (Coq_xI
    (Coq_xI (Coq_xI (Coq_xO (Coq_xI Coq_xH))))))) :: ((Npos (Coq_xO (Coq_xI
    (Coq_xO (Coq_xI (Coq_xI Coq_xH)))))) :: ((Npos (Coq_xI (Coq_xI (Coq_xI
    (Coq_xI (Coq_xO (Coq_xI Coq_xH))))))) :: ((Npos (Coq_xI (Coq_xO (Coq_xO
    (Coq_xO (Coq_xO (Coq_xI Coq_xH))))))) :: ((Npos (Coq_xI (Coq_xI (Coq_xO
    (Coq_xO (Coq_xI (Coq_xI Coq_xH))))))) :: ((Npos (Coq_xI (Coq_xO (Coq_xO
    (Coq_xI (Coq_xO (Coq_xI Coq_xH))))))) :: ((Npos (Coq_xI (Coq_xI (Coq_xO
    (Coq_xO (Coq_xI (Coq_xI Coq_xH))))))) :: ((Npos (Coq_xO (Coq_xI (Coq_xO
    (Coq_xI (Coq_xI Coq_xH)))))) :: ((Npos (Coq_xO (Coq_xI (Coq_xI (Coq_xI
    (Coq_xO (Coq_xI Coq_xH))))))) :: ((Npos (Coq_xI (Coq_xO (Coq_xO (Coq_xO
    (Coq_xO (Coq_xI Coq_xH))))))) :: ((Npos (Coq_xI (Coq_xO (Coq_xI (Coq_xI
    (Coq_xO (Coq_xI Coq_xH))))))) :: ((Npos (Coq_xI (Coq_xO (Coq_xI (Coq_xO
    (Coq_xO (Coq_xI Coq_xH))))))) :: ((Npos (Coq_xI (Coq_xI (Coq_xO (Coq_xO
    (Coq_xI (Coq_xI Coq_xH))))))) :: ((Npos (Coq_xO (Coq_xI (Coq_xO (Coq_xI
    (Coq_xI Coq_xH)))))) :: ((Npos (Coq_xO (Coq_xO (Coq_xI (Coq_xO (Coq_xI
    (Coq_xI Coq_xH))))))) :: ((Npos (Coq_xI (Coq_xI (Coq_xO (Coq_xO (Coq_xO
    (Coq_xI Coq_xH))))))) :: ((Npos (Coq_xO (Coq_xI (Coq_xO (Coq_xI (Coq_xI
    Coq_xH)))))) :: ((Npos (Coq_xI (Coq_xI (Coq_xI (Coq_xI (Coq_xO (Coq_xI
    Coq_xH))))))) :: ((Npos (Coq_xO (Coq_xO (Coq_xO (Coq_xO (Coq_xI (Coq_xI
    Coq_xH))))))) :: ((Npos (Coq_xI (Coq_xO (Coq_xI (Coq_xO (Coq_xO (Coq_xI
    Coq_xH))))))) :: ((Npos (Coq_xO (Coq_xI (Coq_xI (Coq_xI (Coq_xO (Coq_xI
    Coq_xH))))))) :: ((Npos (Coq_xO (Coq_xO (Coq_xI (Coq_xO (Coq_xO (Coq_xI
    Coq_xH))))))) :: ((Npos (Coq_xI (Coq_xI (Coq_xI (Coq_xI (Coq_xO (Coq_xI
    Coq_xH))))))) :: ((Npos (Coq_xI (Coq_xI (Coq_xO (Coq_xO (Coq_xO (Coq_xI
    Coq_xH))))))) :: ((Npos (Coq_xI (Coq_xO (Coq_xI (Coq_xO (Coq_xI (Coq_xI
    Coq_xH))))))) :: ((Npos (Coq_xI (Coq_xO (Coq_xI (Coq_xI (Coq_xO (Coq_xI
    Coq_xH))))))) :: ((Npos (Coq_xI (Coq_xO (Coq_xI (Coq_xO (Coq_xO (Coq_xI
    Coq_xH))))))) :: ((Npos (Coq_xO (Coq_xI (Coq_xI (Coq_xI (Coq_xO (Coq_xI
    Coq_xH))))))) :: ((Npos (Coq_xO (Coq_xO (Coq_xI (Coq_xO (Coq_xI (Coq_xI
    Coq_xH))))))) :: ((Npos (Coq_xO (Coq_xI (Coq_xO (Coq_xI (Coq_xI
    Coq_xH)))))) :: ((Npos (Coq_xO (Coq_xO (Coq_xO (Coq_xI (Coq_xI (Coq_xI
    Coq_xH))))))) :: ((Npos (Coq_xI (Coq_xO (Coq_xI (Coq_xI (Coq_xO (Coq_xI
    Coq_xH))))))) :: ((Npos (Coq_xO (Coq_xO (Coq_xI (Coq_xI (Coq_xO (Coq_xI
    Coq_xH))))))) :: ((Npos (Coq_xO (Coq_xI (Coq_xI (Coq_xI (Coq_xO (Coq_xI
    Coq_xH))))))) :: ((Npos (Coq_xI (Coq_xI (Coq_xO (Coq_xO (Coq_xI (Coq_xI
    Coq_xH))))))) :: ((Npos (Coq_xO (Coq_xI (Coq_xO (Coq_xI (Coq_xI
    Coq_xH)))))) :: ((Npos (Coq_xO (Coq_xO (Coq_xI (Coq_xO (Coq_xO (Coq_xI
    Coq_xH))))))) :: ((Npos (Coq_xO (Coq_xI (Coq_xO (Coq_xO (Coq_xI (Coq_xI
    Coq_xH))))))) :: ((Npos (Coq_xI (Coq_xO (Coq_xO (Coq_xO (Coq_xO (Coq_xI
    Coq_xH))))))) :: ((Npos (Coq_xI (Coq_xI (Coq_xI (Coq_xO (Coq_xI (Coq_xI
    Coq_xH))))))) :: ((Npos (Coq_xI (Coq_xO (Coq_xO (Coq_xI (Coq_xO (Coq_xI
    Coq_xH))))))) :: ((Npos (Coq_xO (Coq_xI (Coq_xI (Coq_xI (Coq_xO (Coq_xI
    Coq_xH))))))) :: ((Npos (Coq_xI (Coq_xI (Coq_xI (Coq_xO (Coq_xO (Coq_xI
    Coq_xH))))))) :: ((Npos (Coq_xO (Coq_xI (Coq_xO (Coq_xI (Coq_xI
    Coq_xH)))))) :: ((Npos (Coq_xI (Coq_xO (Coq_xO (Coq_xO (Coq_xI
    Coq_xH)))))) :: ((Npos (Coq_xO (Coq_xI (Coq_xI (Coq_xI (Coq_xO
    Coq_xH)))))) :: ((Npos (Coq_xO (Coq_xO (Coq_xO (Coq_xO (Coq_xI
    Coq_xH)))))) :: []))))))))))))))))))))))))))))))))))))))))))))))))),
    ((Npos (Coq_xO (Coq_xI (Coq_xI (Coq_xO (Coq_xO (Coq_xI
    Coq_xH))))))) :: ((Npos (Coq_xI (Coq_xO (Coq_xO (Coq_xI (Coq_xO (Coq_xI
    Coq_xH))))))) :: ((Npos (Coq_xO (Coq_xO (Coq_xI (Coq_xI (Coq_xO (Coq_xI
    Coq_xH))))))) :: ((Npos (Coq_xO (Coq_xO (Coq_xI (Coq_xI (Coq_xO (Coq_xI
    Coq_xH))))))) :: ((Npos (Coq_xI (Coq_xO (Coq_xI (Coq_xI (Coq_xO
    Coq_xH)))))) :: ((Npos (Coq_xO (Coq_xO (Coq_xO (Coq_xI (Coq_xO (Coq_xI
    Coq_xH))))))) :: ((Npos (Coq_xI (Coq_xO (Coq_xO (Coq_xO (Coq_xO (Coq_xI
    Coq_xH))))))) :: ((Npos (Coq_xO (Coq_xO (Coq_xI (Coq_xO (Coq_xI (Coq_xI
    Coq_xH))))))) :: ((Npos (Coq_xI (Coq_xI (Coq_xO (Coq_xO (Coq_xO (Coq_xI
    Coq_xH))))))) :: ((Npos (Coq_xO (Coq_xO (Coq_xO (Coq_xI (Coq_xO (Coq_xI
    Coq_xH))))))) :: ((Npos (Coq_xI (Coq_xO (Coq_xI (Coq_xI (Coq_xO
    Coq_xH)))))) :: ((Npos (Coq_xO (Coq_xI (Coq_xI (Coq_xI (Coq_xO (Coq_xI
    Coq_xH))))))) :: ((Npos (Coq_xI (Coq_xO (Coq_xO (Coq_xO (Coq_xO (Coq_xI
    Coq_xH))))))) :: ((Npos (Coq_xI (Coq_xO (Coq_xI (Coq_xI (Coq_xO (Coq_xI
    Coq_xH))))))) :: ((Npos (Coq_xI (Coq_xO (Coq_xI (Coq_xO (Coq_xO (Coq_xI
    Coq_xH))))))) :: [])))))))))))))))) :: ((((Npos (Coq_xI (Coq_xO (Coq_xI
    (Coq_xO (Coq_xI (Coq_xI Coq_xH))))))) :: ((Npos (Coq_xO (Coq_xI (Coq_xO
    (Coq_xO (Coq_xI (Coq_xI Coq_xH))))))) :: ((Npos (Coq_xO (Coq_xI (Coq_xI
    (Coq_xI (Coq_xO (Coq_xI Coq_xH))))))) :: ((Npos (Coq_xO (Coq_xI (Coq_xO
    (Coq_xI (Coq_xI Coq_xH)))))) :: ((Npos (Coq_xI (Coq_xI (Coq_xI (Coq_xI
    (Coq_xO (Coq_xI Coq_xH))))))) :: ((Npos (Coq_xI (Coq_xO (Coq_xO (Coq_xO
    (Coq_xO (Coq_xI Coq_xH))))))) :: ((Npos (Coq_xI (Coq_xI (Coq_xO (Coq_xO
    (Coq_xI (Coq_xI Coq_xH))))))) :: ((Npos (Coq_xI (Coq_xO (Coq_xO (Coq_xI
    (Coq_xO (Coq_xI Coq_xH))))))) :: ((Npos (Coq_xI (Coq_xI (Coq_xO (Coq_xO
    (Coq_xI (Coq_xI Coq_xH))))))) :: ((Npos (Coq_xO (Coq_xI (Coq_xO (Coq_xI
    (Coq_xI Coq_xH)))))) :: ((Npos (Coq_xO (Coq_xI (Coq_xI (Coq_xI (Coq_xO
    (Coq_xI Coq_xH))))))) :: ((Npos (Coq_xI (Coq_xO (Coq_xO (Coq_xO (Coq_xO
    (Coq_xI Coq_xH))))))) :: ((Npos (Coq_xI (Coq_xO (Coq_xI (Coq_xI (Coq_xO
    (Coq_xI Coq_xH))))))) :: ((Npos (Coq_xI (Coq_xO (Coq_xI (Coq_xO (Coq_xO
    (Coq_xI Coq_xH))))))) :: ((Npos (Coq_xI (Coq_xI (Coq_xO (Coq_xO (Coq_xI
    (Coq_xI Coq_xH))))))) :: ((Npos (Coq_xO (Coq_xI (Coq_xO (Coq_xI (Coq_xI
    Coq_xH)))))) :: ((Npos (Coq_xO (Coq_xO (Coq_xI (Coq_xO (Coq_xI (Coq_xI
    Coq_xH))))))) :: ((Npos (Coq_xI (Coq_xI (Coq_xO (Coq_xO (Coq_xO (Coq_xI
    Coq_xH))))))) :: ((Npos (Coq_xO (Coq_xI (Coq_xO (Coq_xI (Coq_xI
    Coq_xH)))))) :: ((Npos (Coq_xI (Coq_xI (Coq_xI (Coq_xI (Coq_xO (Coq_xI
    Coq_xH))))))) :: ((Npos (Coq_xO (Coq_xO (Coq_xO (Coq_xO (Coq_xI (Coq_xI
    Coq_xH))))))) :: ((Npos (Coq_xI (Coq_xO (Coq_xI (Coq_xO (Coq_xO (Coq_xI
    Coq_xH))))))) :: ((Npos (Coq_xO (Coq_xI (Coq_xI (Coq_xI (Coq_xO (Coq_xI
    Coq_xH))))))) :: ((Npos (Coq_xO (Coq_xO (Coq_xI (Coq_xO (Coq_xO (Coq_xI
    Coq_xH))))))) :: ((Npos (Coq_xI (Coq_xI (Coq_xI (Coq_xI (Coq_xO (Coq_xI
    Coq_xH))))))) :: ((Npos (Coq_xI (Coq_xI (Coq_xO (Coq_xO (Coq_xO (Coq_xI
    Coq_xH))))))) :: ((Npos (Coq_xI (Coq_xO (Coq_xI (Coq_xO (Coq_xI (Coq_xI
    Coq_xH))))))) :: ((Npos (Coq_xI (Coq_xO (Coq_xI (Coq_xI (Coq_xO (Coq_xI
    Coq_xH))))))) :: ((Npos (Coq_xI (Coq_xO (Coq_xI (Coq_xO (Coq_xO (Coq_xI
    Coq_xH))))))) :: ((Npos (Coq_xO (Coq_xI (Coq_xI (Coq_xI (Coq_xO (Coq_xI
    Coq_xH))))))) :: ((Npos (Coq_xO (Coq_xO (Coq_xI (Coq_xO (Coq_xI (Coq_xI
    Coq_xH))))))) :: ((Npos (Coq_xO (Coq_xI (Coq_xO (Coq_xI (Coq_xI
    Coq_xH)))))) :: ((Npos (Coq_xO (Coq_xO (Coq_xO (Coq_xI (Coq_xI (Coq_xI
    Coq_xH))))))) :: ((Npos (Coq_xI (Coq_xO (Coq_xI (Coq_xI (Coq_xO (Coq_xI
    Coq_xH))))))) :: ((Npos (Coq_xO (Coq_xO (Coq_xI (Coq_xI (Coq_xO (Coq_xI
    Coq_xH))))))) :: ((Npos (Coq_xO (Coq_xI (Coq_xI (Coq_xI (Coq_xO (Coq_xI
    Coq_xH))))))) :: ((Npos (Coq_xI (Coq_xI (Coq_xO (Coq_xO (Coq_xI (Coq_xI
    Coq_xH))))))) :: ((Npos (Coq_xO (Coq_xI (Coq_xO (Coq_xI (Coq_xI
    Coq_xH)))))) :: ((Npos (Coq_xO (Coq_xO (Coq_xI (Coq_xO (Coq_xO (Coq_xI
    Coq_xH))))))) :: ((Npos (Coq_xO (Coq_xI (Coq_xO (Coq_xO (Coq_xI (Coq_xI
    Coq_xH))))))) :: ((Npos (Coq_xI (Coq_xO (Coq_xO (Coq_xO (Coq_xO (Coq_xI
    Coq_xH))))))) :: ((Npos (Coq_xI (Coq_xI (Coq_xI (Coq_xO (Coq_xI (Coq_xI
    Coq_xH))))))) :: ((Npos (Coq_xI (Coq_xO (Coq_xO (Coq_xI (Coq_xO (Coq_xI
    Coq_xH))))))) :: ((Npos (Coq_xO (Coq_xI (Coq_xI (Coq_xI (Coq_xO (Coq_xI
    Coq_xH))))))) :: ((Npos (Coq_xI (Coq_xI (Coq_xI (Coq_xO (Coq_xO (Coq_xI
    Coq_xH))))))) :: ((Npos (Coq_xO (Coq_xI (Coq_xO (Coq_xI (Coq_xI
    Coq_xH)))))) :: ((Npos (Coq_xI (Coq_xO (Coq_xO (Coq_xO (Coq_xI
    Coq_xH)))))) :: ((Npos (Coq_xO (Coq_xI (Coq_xI (Coq_xI (Coq_xO
    Coq_xH)))))) :: ((Npos (Coq_xO (Coq_xO (Coq_xO (Coq_xO (Coq_xI
    Coq_xH)))))) :: []))))))))))))))))))))))))))))))))))))))))))))))))),
    ((Npos (Coq_xO (Coq_xI (Coq_xI (Coq_xO (Coq_xO (Coq_xI
    Coq_xH))))))) :: ((Npos (Coq_xI (Coq_xO (Coq_xO (Coq_xI (Coq_xO (Coq_xI
    Coq_xH))))))) :: ((Npos (Coq_xO (Coq_xO (Coq_xI (Coq_xI (Coq_xO (Coq_xI
    Coq_xH))))))) :: ((Npos (Coq_xO (Coq_xO (Coq_xI (Coq_xI (Coq_xO (Coq_xI
    Coq_xH))))))) :: ((Npos (Coq_xI (Coq_xO (Coq_xI (Coq_xI (Coq_xO
    Coq_xH)))))) :: ((Npos (Coq_xI (Coq_xO (Coq_xO (Coq_xI (Coq_xO (Coq_xI
    Coq_xH))))))) :: ((Npos (Coq_xI (Coq_xO (Coq_xI (Coq_xI (Coq_xO (Coq_xI
    Coq_xH))))))) :: ((Npos (Coq_xI (Coq_xO (Coq_xO (Coq_xO (Coq_xO (Coq_xI
    Coq_xH))))))) :: ((Npos (Coq_xI (Coq_xI (Coq_xI (Coq_xO (Coq_xO (Coq_xI
    Coq_xH))))))) :: ((Npos (Coq_xI (Coq_xO (Coq_xI (Coq_xO (Coq_xO (Coq_xI
    Coq_xH))))))) :: ((Npos (Coq_xI (Coq_xO (Coq_xI (Coq_xI (Coq_xO
    Coq_xH)))))) :: ((Npos (Coq_xO (Coq_xI (Coq_xI (Coq_xI (Coq_xO (Coq_xI
    Coq_xH))))))) :: ((Npos (Coq_xI (Coq_xO (Coq_xO (Coq_xO (Coq_xO (Coq_xI
    Coq_xH))))))) :: ((Npos (Coq_xI (Coq_xO (Coq_xI (Coq_xI (Coq_xO (Coq_xI
    Coq_xH))))))) :: ((Npos (Coq_xI (Coq_xO (Coq_xI (Coq_xO (Coq_xO (Coq_xI
    Coq_xH))))))) :: [])))))))))))))))) :: ((((Npos (Coq_xI (Coq_xO (Coq_xI
    (Coq_xO (Coq_xI (Coq_xI Coq_xH))))))) :: ((Npos (Coq_xO (Coq_xI (Coq_xO
    (Coq_xO (Coq_xI (Coq_xI Coq_xH))))))) :: ((Npos (Coq_xO (Coq_xI (Coq_xI
    (Coq_xI (Coq_xO (Coq_xI Coq_xH))))))) :: ((Npos (Coq_xO (Coq_xI (Coq_xO
    (Coq_xI (Coq_xI Coq_xH)))))) :: ((Npos (Coq_xI (Coq_xI (Coq_xI (Coq_xI
    (Coq_xO (Coq_xI Coq_xH))))))) :: ((Npos (Coq_xI (Coq_xO (Coq_xO (Coq_xO
    (Coq_xO (Coq_xI Coq_xH))))))) :: ((Npos (Coq_xI (Coq_xI (Coq_xO (Coq_xO
    (Coq_xI (Coq_xI Coq_xH))))))) :: ((Npos (Coq_xI (Coq_xO (Coq_xO (Coq_xI
    (Coq_xO (Coq_xI Coq_xH))))))) :: ((Npos (Coq_xI (Coq_xI (Coq_xO (Coq_xO
    (Coq_xI (Coq_xI Coq_xH))))))) :: ((Npos (Coq_xO (Coq_xI (Coq_xO (Coq_xI
    (Coq_xI Coq_xH)))))) :: ((Npos (Coq_xO (Coq_xI (Coq_xI (Coq_xI (Coq_xO
    (Coq_xI Coq_xH))))))) :: ((Npos (Coq_xI (Coq_xO (Coq_xO (Coq_xO (Coq_xO
    (Coq_xI Coq_xH))))))) :: ((Npos (Coq_xI (Coq_xO (Coq_xI (Coq_xI (Coq_xO
    (Coq_xI Coq_xH))))))) :: ((Npos (Coq_xI (Coq_xO (Coq_xI (Coq_xO (Coq_xO
    (Coq_xI Coq_xH))))))) :: ((Npos (Coq_xI (Coq_xI (Coq_xO (Coq_xO (Coq_xI
    (Coq_xI Coq_xH))))))) :: ((Npos (Coq_xO (Coq_xI (Coq_xO (Coq_xI (Coq_xI
    Coq_xH)))))) :: ((Npos (Coq_xO (Coq_xO (Coq_xI (Coq_xO (Coq_xI (Coq_xI
    Coq_xH))))))) :: ((Npos (Coq_xI (Coq_xI (Coq_xO (Coq_xO (Coq_xO (Coq_xI
    Coq_xH))))))) :: ((Npos (Coq_xO (Coq_xI (Coq_xO (Coq_xI (Coq_xI
    Coq_xH)))))) :: ((Npos (Coq_xI (Coq_xI (Coq_xI (Coq_xI (Coq_xO (Coq_xI
    Coq_xH))))))) :: ((Npos (Coq_xO (Coq_xO (Coq_xO (Coq_xO (Coq_xI (Coq_xI
    Coq_xH))))))) :: ((Npos (Coq_xI (Coq_xO (Coq_xI (Coq_xO (Coq_xO (Coq_xI
    Coq_xH))))))) :: ((Npos (Coq_xO (Coq_xI (Coq_xI (Coq_xI (Coq_xO (Coq_xI
    Coq_xH))))))) :: ((Npos (Coq_xO (Coq_xO (Coq_xI (Coq_xO (Coq_xO (Coq_xI
    Coq_xH))))))) :: ((Npos (Coq_xI (Coq_xI (Coq_xI (Coq_xI (Coq_xO (Coq_xI
    Coq_xH))))))) :: ((Npos (Coq_xI (Coq_xI (Coq_xO (Coq_xO (Coq_xO (Coq_xI
    Coq_xH))))))) :: ((Npos (Coq_xI (Coq_xO (Coq_xI (Coq_xO (Coq_xI (Coq_xI
    Coq_xH))))))) :: ((Npos (Coq_xI (Coq_xO (Coq_xI (Coq_xI (Coq_xO (Coq_xI
    Coq_xH))))))) :: ((Npos (Coq_xI (Coq_xO (Coq_xI (Coq_xO (Coq_xO (Coq_xI
    Coq_xH))))))) :: ((Npos (Coq_xO (Coq_xI (Coq_xI (Coq_xI (Coq_xO (Coq_xI
    Coq_xH))))))) :: ((Npos (Coq_xO (Coq_xO (Coq_xI (Coq_xO (Coq_xI (Coq_xI
    Coq_xH))))))) :: ((Npos (Coq_xO (Coq_xI (Coq_xO (Coq_xI (Coq_xI
    Coq_xH)))))) :: ((Npos (Coq_xO (Coq_xO (Coq_xO (Coq_xI (Coq_xI (Coq_xI
    Coq_xH))))))) :: ((Npos (Coq_xI (Coq_xO (Coq_xI (Coq_xI (Coq_xO (Coq_xI
    Coq_xH))))))) :: ((Npos (Coq_xO (Coq_xO (Coq_xI (Coq_xI (Coq_xO (Coq_xI
    Coq_xH))))))) :: ((Npos (Coq_xO (Coq_xI (Coq_xI (Coq_xI (Coq_xO (Coq_xI
    Coq_xH))))))) :: ((Npos (Coq_xI (Coq_xI (Coq_xO (Coq_xO (Coq_xI (Coq_xI
    Coq_xH))))))) :: ((Npos (Coq_xO (Coq_xI (Coq_xO (Coq_xI (Coq_xI
    Coq_xH)))))) :: ((Npos (Coq_xO (Coq_xO (Coq_xI (Coq_xO (Coq_xO (Coq_xI
    Coq_xH))))))) :: ((Npos (Coq_xO (Coq_xI (Coq_xO (Coq_xO (Coq_xI (Coq_xI
    Coq_xH))))))) :: ((Npos (Coq_xI (Coq_xO (Coq_xO (Coq_xO (Coq_xO (Coq_xI
    Coq_xH))))))) :: ((Npos (Coq_xI (Coq_xI (Coq_xI (Coq_xO (Coq_xI (Coq_xI
    Coq_xH))))))) :: ((Npos (Coq_xI (Coq_xO (Coq_xO (Coq_xI (Coq_xO (Coq_xI
    Coq_xH))))))) :: ((Npos (Coq_xO (Coq_xI (Coq_xI (Coq_xI (Coq_xO (Coq_xI
    Coq_xH))))))) :: ((Npos (Coq_xI (Coq_xI (Coq_xI (Coq_xO (Coq_xO (Coq_xI
    Coq_xH))))))) :: ((Npos (Coq_xO (Coq_xI (Coq_xO (Coq_xI (Coq_xI
    Coq_xH)))))) :: ((Npos (Coq_xI (Coq_xO (Coq_xO (Coq_xO (Coq_xI
    Coq_xH)))))) :: ((Npos (Coq_xO (Coq_xI (Coq_xI (Coq_xI (Coq_xO
    Coq_xH)))))) :: ((Npos (Coq_xO (Coq_xO (Coq_xO (Coq_xO (Coq_xI
    Coq_xH)))))) :: []))))))))))))))))))))))))))))))))))))))))))))))))),
    ((Npos (Coq_xI (Coq_xO (Coq_xI (Coq_xI (Coq_xO (Coq_xI
    Coq_xH))))))) :: ((Npos (Coq_xI (Coq_xO (Coq_xO (Coq_xO (Coq_xO (Coq_xI
    Coq_xH))))))) :: ((Npos (Coq_xO (Coq_xI (Coq_xO (Coq_xO (Coq_xI (Coq_xI
    Coq_xH))))))) :: ((Npos (Coq_xI (Coq_xI (Coq_xO (Coq_xI (Coq_xO (Coq_xI
    Coq_xH))))))) :: ((Npos (Coq_xI (Coq_xO (Coq_xI (Coq_xO (Coq_xO (Coq_xI
    Coq_xH))))))) :: ((Npos (Coq_xO (Coq_xI (Coq_xO (Coq_xO (Coq_xI (Coq_xI
    Coq_xH))))))) :: ((Npos (Coq_xI (Coq_xO (Coq_xI (Coq_xI (Coq_xO
    Coq_xH)))))) :: ((Npos (Coq_xI (Coq_xO (Coq_xI (Coq_xO (Coq_xO (Coq_xI
    Coq_xH))))))) :: ((Npos (Coq_xO (Coq_xI (Coq_xI (Coq_xI (Coq_xO (Coq_xI
    Coq_xH))))))) :: ((Npos (Coq_xO (Coq_xO (Coq_xI (Coq_xO (Coq_xO (Coq_xI
    Coq_xH))))))) :: []))))))))))) :: ((((Npos (Coq_xI (Coq_xO (Coq_xI
    (Coq_xO (Coq_xI (Coq_xI Coq_xH))))))) :: ((Npos (Coq_xO (Coq_xI (Coq_xO
    (Coq_xO (Coq_xI (Coq_xI Coq_xH))))))) :: ((Npos (Coq_xO (Coq_xI (Coq_xI
    (Coq_xI (Coq_xO (Coq_xI Coq_xH))))))) :: ((Npos (Coq_xO (Coq_xI (Coq_xO
    (Coq_xI (Coq_xI Coq_xH)))))) :: ((Npos (Coq_xI (Coq_xI (Coq_xI (Coq_xI
    (Coq_xO (Coq_xI Coq_xH))))))) :: ((Npos (Coq_xI (Coq_xO (Coq_xO (Coq_xO
    (Coq_xO (Coq_xI Coq_xH))))))) :: ((Npos (Coq_xI (Coq_xI (Coq_xO (Coq_xO
    (Coq_xI (Coq_xI Coq_xH))))))) :: ((Npos (Coq_xI (Coq_xO (Coq_xO (Coq_xI
    (Coq_xO (Coq_xI Coq_xH))))))) :: ((Npos (Coq_xI (Coq_xI (Coq_xO (Coq_xO
    (Coq_xI (Coq_xI Coq_xH))))))) :: ((Npos (Coq_xO (Coq_xI (Coq_xO (Coq_xI
    (Coq_xI Coq_xH)))))) :: ((Npos (Coq_xO (Coq_xI (Coq_xI (Coq_xI (Coq_xO
    (Coq_xI Coq_xH))))))) :: ((Npos (Coq_xI (Coq_xO (Coq_xO (Coq_xO (Coq_xO
    (Coq_xI Coq_xH))))))) :: ((Npos (Coq_xI (Coq_xO (Coq_xI (Coq_xI (Coq_xO
    (Coq_xI Coq_xH))))))) :: ((Npos (Coq_xI (Coq_xO (Coq_xI (Coq_xO (Coq_xO
    (Coq_xI Coq_xH))))))) :: ((Npos (Coq_xI (Coq_xI (Coq_xO (Coq_xO (Coq_xI
    (Coq_xI Coq_xH))))))) :: ((Npos (Coq_xO (Coq_xI (Coq_xO (Coq_xI (Coq_xI
    Coq_xH)))))) :: ((Npos (Coq_xO (Coq_xO (Coq_xI (Coq_xO (Coq_xI (Coq_xI
    Coq_xH))))))) :: ((Npos (Coq_xI (Coq_xI (Coq_xO (Coq_xO (Coq_xO (Coq_xI
    Coq_xH))))))) :: ((Npos (Coq_xO (Coq_xI (Coq_xO (Coq_xI (Coq_xI
    Coq_xH)))))) :: ((Npos (Coq_xI (Coq_xI (Coq_xI (Coq_xI (Coq_xO (Coq_xI
    Coq_xH))))))) :: ((Npos (Coq_xO (Coq_xO (Coq_xO (Coq_xO (Coq_xI (Coq_xI
    Coq_xH))))))) :: ((Npos (Coq_xI (Coq_xO (Coq_xI (Coq_xO (Coq_xO (Coq_xI
    Coq_xH))))))) :: ((Npos (Coq_xO (Coq_xI (Coq_xI (Coq_xI (Coq_xO (Coq_xI
    Coq_xH))))))) :: ((Npos (Coq_xO (Coq_xO (Coq_xI (Coq_xO (Coq_xO (Coq_xI
    Coq_xH))))))) :: ((Npos (Coq_xI (Coq_xI (Coq_xI (Coq_xI (Coq_xO (Coq_xI
    Coq_xH))))))) :: ((Npos (Coq_xI (Coq_xI (Coq_xO (Coq_xO (Coq_xO (Coq_xI
    Coq_xH))))))) :: ((Npos (Coq_xI (Coq_xO (Coq_xI (Coq_xO (Coq_xI (Coq_xI
    Coq_xH))))))) :: ((Npos (Coq_xI (Coq_xO (Coq_xI (Coq_xI (Coq_xO (Coq_xI
    Coq_xH))))))) :: ((Npos (Coq_xI (Coq_xO (Coq_xI (Coq_xO (Coq_xO (Coq_xI
    Coq_xH))))))) :: ((Npos (Coq_xO (Coq_xI (Coq_xI (Coq_xI (Coq_xO (Coq_xI
    Coq_xH))))))) :: ((Npos (Coq_xO (Coq_xO (Coq_xI (Coq_xO (Coq_xI (Coq_xI
    Coq_xH))))))) :: ((Npos (Coq_xO (Coq_xI (Coq_xO (Coq_xI (Coq_xI
    Coq_xH)))))) :: ((Npos (Coq_xO (Coq_xO (Coq_xO (Coq_xI (Coq_xI (Coq_xI
    Coq_xH))))))) :: ((Npos (Coq_xI (Coq_xO (Coq_xI (Coq_xI (Coq_xO (Coq_xI
    Coq_xH))))))) :: ((Npos (Coq_xO (Coq_xO (Coq_xI (Coq_xI (Coq_xO (Coq_xI
    Coq_xH))))))) :: ((Npos (Coq_xO (Coq_xI (Coq_xI (Coq_xI (Coq_xO (Coq_xI
    Coq_xH))))))) :: ((Npos (Coq_xI (Coq_xI (Coq_xO (Coq_xO (Coq_xI (Coq_xI
    Coq_xH))))))) :: ((Npos (Coq_xO (Coq_xI (Coq_xO (Coq_xI (Coq_xI
    Coq_xH)))))) :: ((Npos (Coq_xO (Coq_xO (Coq_xI (Coq_xO (Coq_xO (Coq_xI
    Coq_xH))))))) :: ((Npos (Coq_xO (Coq_xI (Coq_xO (Coq_xO (Coq_xI (Coq_xI
    Coq_xH))))))) :: ((Npos (Coq_xI (Coq_xO (Coq_xO (Coq_xO (Coq_xO (Coq_xI
    Coq_xH))))))) :: ((Npos (Coq_xI (Coq_xI (Coq_xI (Coq_xO (Coq_xI (Coq_xI
    Coq_xH))))))) :: ((Npos (Coq_xI (Coq_xO (Coq_xO (Coq_xI (Coq_xO (Coq_xI
    Coq_xH))))))) :: ((Npos (Coq_xO (Coq_xI (Coq_xI (Coq_xI (Coq_xO (Coq_xI
    Coq_xH))))))) :: ((Npos (Coq_xI (Coq_xI (Coq_xI (Coq_xO (Coq_xO (Coq_xI
    Coq_xH))))))) :: ((Npos (Coq_xO (Coq_xI (Coq_xO (Coq_xI (Coq_xI
    Coq_xH)))))) :: ((Npos (Coq_xI (Coq_xO (Coq_xO (Coq_xO (Coq_xI
    Coq_xH)))))) :: ((Npos (Coq_xO (Coq_xI (Coq_xI (Coq_xI (Coq_xO
    Coq_xH)))))) :: ((Npos (Coq_xO (Coq_xO (Coq_xO (Coq_xO (Coq_xI
    Coq_xH)))))) :: []))))))))))))))))))))))))))))))))))))))))))))))))),
    ((Npos (Coq_xI (Coq_xO (Coq_xI (Coq_xI (Coq_xO (Coq_xI
    Coq_xH))))))) :: ((Npos (Coq_xI (Coq_xO (Coq_xO (Coq_xO (Coq_xO (Coq_xI
    Coq_xH))))))) :: ((Npos (Coq_xO (Coq_xI (Coq_xO (Coq_xO (Coq_xI (Coq_xI
    Coq_xH))))))) :: ((Npos (Coq_xI (Coq_xI (Coq_xO (Coq_xI (Coq_xO (Coq_xI
    Coq_xH))))))) :: ((Npos (Coq_xI (Coq_xO (Coq_xI (Coq_xO (Coq_xO (Coq_xI
    Coq_xH))))))) :: ((Npos (Coq_xO (Coq_xI (Coq_xO (Coq_xO (Coq_xI (Coq_xI
    Coq_xH))))))) :: ((Npos (Coq_xI (Coq_xO (Coq_xI (Coq_xI (Coq_xO
    Coq_xH)))))) :: ((Npos (Coq_xI (Coq_xI (Coq_xO (Coq_xO (Coq_xI (Coq_xI
    Coq_xH))))))) :: ((Npos (Coq_xO (Coq_xO (Coq_xI (Coq_xO (Coq_xI (Coq_xI
    Coq_xH))))))) :: ((Npos (Coq_xI (Coq_xO (Coq_xO (Coq_xO (Coq_xO (Coq_xI
    Coq_xH))))))) :: ((Npos (Coq_xO (Coq_xI (Coq_xO (Coq_xO (Coq_xI (Coq_xI
    Coq_xH))))))) :: ((Npos (Coq_xO (Coq_xO (Coq_xI (Coq_xO (Coq_xI (Coq_xI
    Coq_xH))))))) :: []))))))))))))) :: ((((Npos (Coq_xI (Coq_xO (Coq_xI
    (Coq_xO (Coq_xI (Coq_xI Coq_xH))))))) :: ((Npos (Coq_xO (Coq_xI (Coq_xO
    (Coq_xO (Coq_xI (Coq_xI Coq_xH))))))) :: ((Npos (Coq_xO (Coq_xI (Coq_xI
    (Coq_xI (Coq_xO (Coq_xI Coq_xH))))))) :: ((Npos (Coq_xO (Coq_xI (Coq_xO
    (Coq_xI (Coq_xI Coq_xH)))))) :: ((Npos (Coq_xI (Coq_xI (Coq_xI (Coq_xI
    (Coq_xO (Coq_xI Coq_xH))))))) :: ((Npos (Coq_xI (Coq_xO (Coq_xO (Coq_xO
    (Coq_xO (Coq_xI Coq_xH))))))) :: ((Npos (Coq_xI (Coq_xI (Coq_xO (Coq_xO
    (Coq_xI (Coq_xI Coq_xH))))))) :: ((Npos (Coq_xI (Coq_xO (Coq_xO (Coq_xI
    (Coq_xO (Coq_xI Coq_xH))))))) :: ((Npos (Coq_xI (Coq_xI (Coq_xO (Coq_xO
    (Coq_xI (Coq_xI Coq_xH))))))) :: ((Npos (Coq_xO (Coq_xI (Coq_xO (Coq_xI
    (Coq_xI Coq_xH)))))) :: ((Npos (Coq_xO (Coq_xI (Coq_xI (Coq_xI (Coq_xO
    (Coq_xI Coq_xH))))))) :: ((Npos (Coq_xI (Coq_xO (Coq_xO (Coq_xO (Coq_xO
    (Coq_xI Coq_xH))))))) :: ((Npos (Coq_xI (Coq_xO (Coq_xI (Coq_xI (Coq_xO
    (Coq_xI Coq_xH))))))) :: ((Npos (Coq_xI (Coq_xO (Coq_xI (Coq_xO (Coq_xO
    (Coq_xI Coq_xH))))))) :: ((Npos (Coq_xI (Coq_xI (Coq_xO (Coq_xO (Coq_xI
    (Coq_xI Coq_xH))))))) :: ((Npos (Coq_xO (Coq_xI (Coq_xO (Coq_xI (Coq_xI
    Coq_xH)))))) :: ((Npos (Coq_xO (Coq_xO (Coq_xI (Coq_xO (Coq_xI (Coq_xI
    Coq_xH))))))) :: ((Npos (Coq_xI (Coq_xI (Coq_xO (Coq_xO (Coq_xO (Coq_xI
    Coq_xH))))))) :: ((Npos (Coq_xO (Coq_xI (Coq_xO (Coq_xI (Coq_xI
    Coq_xH)))))) :: ((Npos (Coq_xI (Coq_xI (Coq_xI (Coq_xI (Coq_xO (Coq_xI
    Coq_xH))))))) :: ((Npos (Coq_xO (Coq_xO (Coq_xO (Coq_xO (Coq_xI (Coq_xI
    Coq_xH))))))) :: ((Npos (Coq_xI (Coq_xO (Coq_xI (Coq_xO (Coq_xO (Coq_xI
    Coq_xH))))))) :: ((Npos (Coq_xO (Coq_xI (Coq_xI (Coq_xI (Coq_xO (Coq_xI
    Coq_xH))))))) :: ((Npos (Coq_xO (Coq_xO (Coq_xI (Coq_xO (Coq_xO (Coq_xI
    Coq_xH))))))) :: ((Npos (Coq_xI (Coq_xI (Coq_xI (Coq_xI (Coq_xO (Coq_xI
    Coq_xH))))))) :: ((Npos (Coq_xI (Coq_xI (Coq_xO (Coq_xO (Coq_xO (Coq_xI
    Coq_xH))))))) :: ((Npos (Coq_xI (Coq_xO (Coq_xI (Coq_xO (Coq_xI (Coq_xI
    Coq_xH))))))) :: ((Npos (Coq_xI (Coq_xO (Coq_xI (Coq_xI (Coq_xO (Coq_xI
    Coq_xH))))))) :: ((Npos (Coq_xI (Coq_xO (Coq_xI (Coq_xO (Coq_xO (Coq_xI
    Coq_xH))))))) :: ((Npos (Coq_xO (Coq_xI (Coq_xI (Coq_xI (Coq_xO (Coq_xI
    Coq_xH))))))) :: ((Npos (Coq_xO (Coq_xO (Coq_xI (Coq_xO (Coq_xI (Coq_xI
    Coq_xH))))))) :: ((Npos (Coq_xO (Coq_xI (Coq_xO (Coq_xI (Coq_xI
    Coq_xH)))))) :: ((Npos (Coq_xO (Coq_xO (Coq_xO (Coq_xI (Coq_xI (Coq_xI
    Coq_xH))))))) :: ((Npos (Coq_xI (Coq_xO (Coq_xI (Coq_xI (Coq_xO (Coq_xI
    Coq_xH))))))) :: ((Npos (Coq_xO (Coq_xO (Coq_xI (Coq_xI (Coq_xO (Coq_xI
    Coq_xH))))))) :: ((Npos (Coq_xO (Coq_xI (Coq_xI (Coq_xI (Coq_xO (Coq_xI
    Coq_xH))))))) :: ((Npos (Coq_xI (Coq_xI (Coq_xO (Coq_xO (Coq_xI (Coq_xI
    Coq_xH))))))) :: ((Npos (Coq_xO (Coq_xI (Coq_xO (Coq_xI (Coq_xI
    Coq_xH)))))) :: ((Npos (Coq_xO (Coq_xO (Coq_xI (Coq_xO (Coq_xO (Coq_xI
    Coq_xH))))))) :: ((Npos (Coq_xO (Coq_xI (Coq_xO (Coq_xO (Coq_xI (Coq_xI
    Coq_xH))))))) :: ((Npos (Coq_xI (Coq_xO (Coq_xO (Coq_xO (Coq_xO (Coq_xI
    Coq_xH))))))) :: ((Npos (Coq_xI (Coq_xI (Coq_xI (Coq_xO (Coq_xI (Coq_xI
    Coq_xH))))))) :: ((Npos (Coq_xI (Coq_xO (Coq_xO (Coq_xI (Coq_xO (Coq_xI
    Coq_xH))))))) :: ((Npos (Coq_xO (Coq_xI (Coq_xI (Coq_xI (Coq_xO (Coq_xI
    Coq_xH))))))) :: ((Npos (Coq_xI (Coq_xI (Coq_xI (Coq_xO (Coq_xO (Coq_xI
    Coq_xH))))))) :: ((Npos (Coq_xO (Coq_xI (Coq_xO (Coq_xI (Coq_xI
    Coq_xH)))))) :: ((Npos (Coq_xI (Coq_xO (Coq_xO (Coq_xO (Coq_xI
    Coq_xH)))))) :: ((Npos (Coq_xO (Coq_xI (Coq_xI (Coq_xI (Coq_xO
    Coq_xH)))))) :: ((Npos (Coq_xO (Coq_xO (Coq_xO (Coq_xO (Coq_xI
    Coq_xH)))))) :: []))))))))))))))))))))))))))))))))))))))))))))))))),
    ((Npos (Coq_xI (Coq_xO (Coq_xI (Coq_xI (Coq_xO (Coq_xI
    Coq_xH))))))) :: ((Npos (Coq_xI (Coq_xO (Coq_xO (Coq_xO (Coq_xO (Coq_xI
    Coq_xH))))))) :: ((Npos (Coq_xI (Coq_xI (Coq_xO (Coq_xO (Coq_xI (Coq_xI
    Coq_xH))))))) :: ((Npos (Coq_xO (Coq_xO (Coq_xI (Coq_xO (Coq_xI (Coq_xI
    Coq_xH))))))) :: ((Npos (Coq_xI (Coq_xO (Coq_xI (Coq_xO (Coq_xO (Coq_xI
    Coq_xH))))))) :: ((Npos (Coq_xO (Coq_xI (Coq_xO (Coq_xO (Coq_xI (Coq_xI
    Coq_xH))))))) :: ((Npos (Coq_xI (Coq_xO (Coq_xI (Coq_xI (Coq_xO
    Coq_xH)))))) :: ((Npos (Coq_xO (Coq_xO (Coq_xO (Coq_xO (Coq_xI (Coq_xI
    Coq_xH))))))) :: ((Npos (Coq_xI (Coq_xO (Coq_xO (Coq_xO (Coq_xO (Coq_xI
    Coq_xH))))))) :: ((Npos (Coq_xI (Coq_xI (Coq_xI (Coq_xO (Coq_xO (Coq_xI
    Coq_xH))))))) :: ((Npos (Coq_xI (Coq_xO (Coq_xI (Coq_xO (Coq_xO (Coq_xI
    Coq_xH))))))) :: ((Npos (Coq_xI (Coq_xO (Coq_xI (Coq_xI (Coq_xO
    Coq_xH)))))) :: ((Npos (Coq_xO (Coq_xI (Coq_xI (Coq_xI (Coq_xO (Coq_xI
    Coq_xH))))))) :: ((Npos (Coq_xI (Coq_xO (Coq_xO (Coq_xO (Coq_xO (Coq_xI
    Coq_xH))))))) :: ((Npos (Coq_xI (Coq_xO (Coq_xI (Coq_xI (Coq_xO (Coq_xI
    Coq_xH))))))) :: ((Npos (Coq_xI (Coq_xO (Coq_xI (Coq_xO (Coq_xO (Coq_xI
    Coq_xH))))))) :: []))))))))))))))))) :: ((((Npos (Coq_xI (Coq_xO (Coq_xI
    (Coq_xO (Coq_xI (Coq_xI Coq_xH))))))) :: ((Npos (Coq_xO (Coq_xI (Coq_xO
    (Coq_xO (Coq_xI (Coq_xI Coq_xH))))))) :: ((Npos (Coq_xO (Coq_xI (Coq_xI
    (Coq_xI (Coq_xO (Coq_xI Coq_xH))))))) :: ((Npos (Coq_xO (Coq_xI (Coq_xO
    (Coq_xI (Coq_xI Coq_xH)))))) :: ((Npos (Coq_xI (Coq_xI (Coq_xI (Coq_xI
    (Coq_xO (Coq_xI Coq_xH))))))) :: ((Npos (Coq_xI (Coq_xO (Coq_xO (Coq_xO
    (Coq_xO (Coq_xI Coq_xH))))))) :: ((Npos (Coq_xI (Coq_xI (Coq_xO (Coq_xO
    (Coq_xI (Coq_xI Coq_xH))))))) :: ((Npos (Coq_xI (Coq_xO (Coq_xO (Coq_xI
    (Coq_xO (Coq_xI Coq_xH))))))) :: ((Npos (Coq_xI (Coq_xI (Coq_xO (Coq_xO
    (Coq_xI (Coq_xI Coq_xH))))))) :: ((Npos (Coq_xO (Coq_xI (Coq_xO (Coq_xI
    (Coq_xI Coq_xH)))))) :: ((Npos (Coq_xO (Coq_xI (Coq_xI (Coq_xI (Coq_xO
    (Coq_xI Coq_xH))))))) :: ((Npos (Coq_xI (Coq_xO (Coq_xO (Coq_xO (Coq_xO
    (Coq_xI Coq_xH))))))) :: ((Npos (Coq_xI (Coq_xO (Coq_xI (Coq_xI (Coq_xO
    (Coq_xI Coq_xH))))))) :: ((Npos (Coq_xI (Coq_xO (Coq_xI (Coq_xO (Coq_xO
    (Coq_xI Coq_xH))))))) :: ((Npos (Coq_xI (Coq_xI (Coq_xO (Coq_xO (Coq_xI
    (Coq_xI Coq_xH))))))) :: ((Npos (Coq_xO (Coq_xI (Coq_xO (Coq_xI (Coq_xI
    Coq_xH)))))) :: ((Npos (Coq_xO (Coq_xO (Coq_xI (Coq_xO (Coq_xI (Coq_xI
    Coq_xH))))))) :: ((Npos (Coq_xI (Coq_xI (Coq_xO (Coq_xO (Coq_xO (Coq_xI
    Coq_xH))))))) :: ((Npos (Coq_xO (Coq_xI (Coq_xO (Coq_xI (Coq_xI
    Coq_xH)))))) :: ((Npos (Coq_xI (Coq_xI (Coq_xI (Coq_xI (Coq_xO (Coq_xI
    Coq_xH))))))) :: ((Npos (Coq_xO (Coq_xO (Coq_xO (Coq_xO (Coq_xI (Coq_xI
    Coq_xH))))))) :: ((Npos (Coq_xI (Coq_xO (Coq_xI (Coq_xO (Coq_xO (Coq_xI
    Coq_xH))))))) :: ((Npos (Coq_xO (Coq_xI (Coq_xI (Coq_xI (Coq_xO (Coq_xI
    Coq_xH))))))) :: ((Npos (Coq_xO (Coq_xO (Coq_xI (Coq_xO (Coq_xO (Coq_xI
    Coq_xH))))))) :: ((Npos (Coq_xI (Coq_xI (Coq_xI (Coq_xI (Coq_xO (Coq_xI
    Coq_xH))))))) :: ((Npos (Coq_xI (Coq_xI (Coq_xO (Coq_xO (Coq_xO (Coq_xI
    Coq_xH))))))) :: ((Npos (Coq_xI (Coq_xO (Coq_xI (Coq_xO (Coq_xI (Coq_xI
    Coq_xH))))))) :: ((Npos (Coq_xI (Coq_xO (Coq_xI (Coq_xI (Coq_xO (Coq_xI
    Coq_xH))))))) :: ((Npos (Coq_xI (Coq_xO (Coq_xI (Coq_xO (Coq_xO (Coq_xI
    Coq_xH))))))) :: ((Npos (Coq_xO (Coq_xI (Coq_xI (Coq_xI (Coq_xO (Coq_xI
    Coq_xH))))))) :: ((Npos (Coq_xO (Coq_xO (Coq_xI (Coq_xO (Coq_xI (Coq_xI
    Coq_xH))))))) :: ((Npos (Coq_xO (Coq_xI (Coq_xO (Coq_xI (Coq_xI
    Coq_xH)))))) :: ((Npos (Coq_xO (Coq_xO (Coq_xO (Coq_xI (Coq_xI (Coq_xI
    Coq_xH))))))) :: ((Npos (Coq_xI (Coq_xO (Coq_xI (Coq_xI (Coq_xO (Coq_xI
    Coq_xH))))))) :: ((Npos (Coq_xO (Coq_xO (Coq_xI (Coq_xI (Coq_xO (Coq_xI
    Coq_xH))))))) :: ((Npos (Coq_xO (Coq_xI (Coq_xI (Coq_xI (Coq_xO (Coq_xI
    Coq_xH))))))) :: ((Npos (Coq_xI (Coq_xI (Coq_xO (Coq_xO (Coq_xI (Coq_xI
    Coq_xH))))))) :: ((Npos (Coq_xO (Coq_xI (Coq_xO (Coq_xI (Coq_xI
    Coq_xH)))))) :: ((Npos (Coq_xO (Coq_xO (Coq_xI (Coq_xO (Coq_xO (Coq_xI
    Coq_xH))))))) :: ((Npos (Coq_xO (Coq_xI (Coq_xO (Coq_xO (Coq_xI (Coq_xI
    Coq_xH))))))) :: ((Npos (Coq_xI (Coq_xO (Coq_xO (Coq_xO (Coq_xO (Coq_xI
    Coq_xH))))))) :: ((Npos (Coq_xI (Coq_xI (Coq_xI (Coq_xO (Coq_xI (Coq_xI
    Coq_xH))))))) :: ((Npos (Coq_xI (Coq_xO (Coq_xO (Coq_xI (Coq_xO (Coq_xI
    Coq_xH))))))) :: ((Npos (Coq_xO (Coq_xI (Coq_xI (Coq_xI (Coq_xO (Coq_xI
    Coq_xH))))))) :: ((Npos (Coq_xI (Coq_xI (Coq_xI (Coq_xO (Coq_xO (Coq_xI
    Coq_xH))))))) :: ((Npos (Coq_xO (Coq_xI (Coq_xO (Coq_xI (Coq_xI
    Coq_xH)))))) :: ((Npos (Coq_xI (Coq_xO (Coq_xO (Coq_xO (Coq_xI
    Coq_xH)))))) :: ((Npos (Coq_xO (Coq_xI (Coq_xI (Coq_xI (Coq_xO
    Coq_xH)))))) :: ((Npos (Coq_xO (Coq_xO (Coq_xO (Coq_xO (Coq_xI
    Coq_xH)))))) :: []))))))))))))))))))))))))))))))))))))))))))))))))),
    ((Npos (Coq_xI (Coq_xI (Coq_xI (Coq_xI (Coq_xO (Coq_xI
    Coq_xH))))))) :: ((Npos (Coq_xO (Coq_xO (Coq_xO (Coq_xO (Coq_xI (Coq_xI
    Coq_xH))))))) :: ((Npos (Coq_xI (Coq_xO (Coq_xO (Coq_xO (Coq_xO (Coq_xI
    Coq_xH))))))) :: ((Npos (Coq_xI (Coq_xI (Coq_xO (Coq_xO (Coq_xO (Coq_xI
    Coq_xH))))))) :: ((Npos (Coq_xI (Coq_xO (Coq_xO (Coq_xI (Coq_xO (Coq_xI
    Coq_xH))))))) :: ((Npos (Coq_xO (Coq_xO (Coq_xI (Coq_xO (Coq_xI (Coq_xI
    Coq_xH))))))) :: ((Npos (Coq_xI (Coq_xO (Coq_xO (Coq_xI (Coq_xI (Coq_xI
    Coq_xH))))))) :: ((Npos (Coq_xI (Coq_xO (Coq_xI (Coq_xI (Coq_xO
    Coq_xH)))))) :: ((Npos (Coq_xO (Coq_xI (Coq_xI (Coq_xI (Coq_xO (Coq_xI
    Coq_xH))))))) :: ((Npos (Coq_xI (Coq_xO (Coq_xO (Coq_xO (Coq_xO (Coq_xI
    Coq_xH))))))) :: ((Npos (Coq_xI (Coq_xO (Coq_xI (Coq_xI (Coq_xO (Coq_xI
    Coq_xH))))))) :: ((Npos (Coq_xI (Coq_xO (Coq_xI (Coq_xO (Coq_xO (Coq_xI
    Coq_xH))))))) :: []))))))))))))) :: ((((Npos (Coq_xI (Coq_xO (Coq_xI
    (Coq_xO (Coq_xI (Coq_xI Coq_xH))))))) :: ((Npos (Coq_xO (Coq_xI (Coq_xO
    (Coq_xO (Coq_xI (Coq_xI Coq_xH))))))) :: ((Npos (Coq_xO (Coq_xI (Coq_xI
    (Coq_xI (Coq_xO (Coq_xI Coq_xH))))))) :: ((Npos (Coq_xO (Coq_xI (Coq_xO
    (Coq_xI (Coq_xI Coq_xH)))))) :: ((Npos (Coq_xI (Coq_xI (Coq_xI (Coq_xI
    (Coq_xO (Coq_xI Coq_xH))))))) :: ((Npos (Coq_xI (Coq_xO (Coq_xO (Coq_xO
    (Coq_xO (Coq_xI Coq_xH))))))) :: ((Npos (Coq_xI (Coq_xI (Coq_xO (Coq_xO
    (Coq_xI (Coq_xI Coq_xH))))))) :: ((Npos (Coq_xI (Coq_xO (Coq_xO (Coq_xI
    (Coq_xO (Coq_xI Coq_xH))))))) :: ((Npos (Coq_xI (Coq_xI (Coq_xO (Coq_xO
    (Coq_xI (Coq_xI Coq_xH))))))) :: ((Npos (Coq_xO (Coq_xI (Coq_xO (Coq_xI
    (Coq_xI Coq_xH)))))) :: ((Npos (Coq_xO (Coq_xI (Coq_xI (Coq_xI (Coq_xO
    (Coq_xI Coq_xH))))))) :: ((Npos (Coq_xI (Coq_xO (Coq_xO (Coq_xO (Coq_xO
    (Coq_xI Coq_xH))))))) :: ((Npos (Coq_xI (Coq_xO (Coq_xI (Coq_xI (Coq_xO
    (Coq_xI Coq_xH))))))) :: ((Npos (Coq_xI (Coq_xO (Coq_xI (Coq_xO (Coq_xO
    (Coq_xI Coq_xH))))))) :: ((Npos (Coq_xI (Coq_xI (Coq_xO (Coq_xO (Coq_xI
    (Coq_xI Coq_xH))))))) :: ((Npos (Coq_xO (Coq_xI (Coq_xO (Coq_xI (Coq_xI
    Coq_xH)))))) :: ((Npos (Coq_xO (Coq_xO (Coq_xI (Coq_xO (Coq_xI (Coq_xI
    Coq_xH))))))) :: ((Npos (Coq_xI (Coq_xI (Coq_xO (Coq_xO (Coq_xO (Coq_xI
    Coq_xH))))))) :: ((Npos (Coq_xO (Coq_xI (Coq_xO (Coq_xI (Coq_xI
    Coq_xH)))))) :: ((Npos (Coq_xI (Coq_xI (Coq_xI (Coq_xI (Coq_xO (Coq_xI
    Coq_xH))))))) :: ((Npos (Coq_xO (Coq_xO (Coq_xO (Coq_xO (Coq_xI (Coq_xI
    Coq_xH))))))) :: ((Npos (Coq_xI (Coq_xO (Coq_xI (Coq_xO (Coq_xO (Coq_xI
    Coq_xH))))))) :: ((Npos (Coq_xO (Coq_xI (Coq_xI (Coq_xI (Coq_xO (Coq_xI
    Coq_xH))))))) :: ((Npos (Coq_xO (Coq_xO (Coq_xI (Coq_xO (Coq_xO (Coq_xI
    Coq_xH))))))) :: ((Npos (Coq_xI (Coq_xI (Coq_xI (Coq_xI (Coq_xO (Coq_xI
    Coq_xH))))))) :: ((Npos (Coq_xI (Coq_xI (Coq_xO (Coq_xO (Coq_xO (Coq_xI
    Coq_xH))))))) :: ((Npos (Coq_xI (Coq_xO (Coq_xI (Coq_xO (Coq_xI (Coq_xI
    Coq_xH))))))) :: ((Npos (Coq_xI (Coq_xO (Coq_xI (Coq_xI (Coq_xO (Coq_xI
    Coq_xH))))))) :: ((Npos (Coq_xI (Coq_xO (Coq_xI (Coq_xO (Coq_xO (Coq_xI
    Coq_xH))))))) :: ((Npos (Coq_xO (Coq_xI (Coq_xI (Coq_xI (Coq_xO (Coq_xI
    Coq_xH))))))) :: ((Npos (Coq_xO (Coq_xO (Coq_xI (Coq_xO (Coq_xI (Coq_xI
    Coq_xH))))))) :: ((Npos (Coq_xO (Coq_xI (Coq_xO (Coq_xI (Coq_xI
    Coq_xH)))))) :: ((Npos (Coq_xO (Coq_xO (Coq_xO (Coq_xI (Coq_xI (Coq_xI
    Coq_xH))))))) :: ((Npos (Coq_xI (Coq_xO (Coq_xI (Coq_xI (Coq_xO (Coq_xI
    Coq_xH))))))) :: ((Npos (Coq_xO (Coq_xO (Coq_xI (Coq_xI (Coq_xO (Coq_xI
    Coq_xH))))))) :: ((Npos (Coq_xO (Coq_xI (Coq_xI (Coq_xI (Coq_xO (Coq_xI
    Coq_xH))))))) :: ((Npos (Coq_xI (Coq_xI (Coq_xO (Coq_xO (Coq_xI (Coq_xI
    Coq_xH))))))) :: ((Npos (Coq_xO (Coq_xI (Coq_xO (Coq_xI (Coq_xI
    Coq_xH)))))) :: ((Npos (Coq_xO (Coq_xO (Coq_xI (Coq_xO (Coq_xO (Coq_xI
    Coq_xH))))))) :: ((Npos (Coq_xO (Coq_xI (Coq_xO (Coq_xO (Coq_xI (Coq_xI
    Coq_xH))))))) :: ((Npos (Coq_xI (Coq_xO (Coq_xO (Coq_xO (Coq_xO (Coq_xI
    Coq_xH))))))) :: ((Npos (Coq_xI (Coq_xI (Coq_xI (Coq_xO (Coq_xI (Coq_xI
    Coq_xH))))))) :: ((Npos (Coq_xI (Coq_xO (Coq_xO (Coq_xI (Coq_xO (Coq_xI
    Coq_xH))))))) :: ((Npos (Coq_xO (Coq_xI (Coq_xI (Coq_xI (Coq_xO (Coq_xI
    Coq_xH))))))) :: ((Npos (Coq_xI (Coq_xI (Coq_xI (Coq_xO (Coq_xO (Coq_xI
    Coq_xH))))))) :: ((Npos (Coq_xO (Coq_xI (Coq_xO (Coq_xI (Coq_xI
    Coq_xH)))))) :: ((Npos (Coq_xI (Coq_xO (Coq_xO (Coq_xO (Coq_xI
    Coq_xH)))))) :: ((Npos (Coq_xO (Coq_xI (Coq_xI (Coq_xI (Coq_xO
    Coq_xH)))))) :: ((Npos (Coq_xO (Coq_xO (Coq_xO (Coq_xO (Coq_xI
    Coq_xH)))))) :: []))))))))))))))))))))))))))))))))))))))))))))))))),
    ((Npos (Coq_xI (Coq_xI (Coq_xO (Coq_xO (Coq_xI (Coq_xI
    Coq_xH))))))) :: ((Npos (Coq_xO (Coq_xO (Coq_xI (Coq_xO (Coq_xI (Coq_xI
    Coq_xH))))))) :: ((Npos (Coq_xO (Coq_xI (Coq_xO (Coq_xO (Coq_xI (Coq_xI
    Coq_xH))))))) :: ((Npos (Coq_xI (Coq_xI (Coq_xI (Coq_xI (Coq_xO (Coq_xI
    Coq_xH))))))) :: ((Npos (Coq_xI (Coq_xI (Coq_xO (Coq_xI (Coq_xO (Coq_xI
    Coq_xH))))))) :: ((Npos (Coq_xI (Coq_xO (Coq_xI (Coq_xO (Coq_xO (Coq_xI
    Coq_xH))))))) :: ((Npos (Coq_xI (Coq_xO (Coq_xI (Coq_xI (Coq_xO
    Coq_xH)))))) :: ((Npos (Coq_xO (Coq_xO (Coq_xI (Coq_xO (Coq_xO (Coq_xI
    Coq_xH))))))) :: ((Npos (Coq_xI (Coq_xO (Coq_xO (Coq_xO (Coq_xO (Coq_xI
    Coq_xH))))))) :: ((Npos (Coq_xI (Coq_xI (Coq_xO (Coq_xO (Coq_xI (Coq_xI
    Coq_xH))))))) :: ((Npos (Coq_xO (Coq_xO (Coq_xO (Coq_xI (Coq_xO (Coq_xI
    Coq_xH))))))) :: [])))))))))))) :: ((((Npos (Coq_xI (Coq_xO (Coq_xI
    (Coq_xO (Coq_xI (Coq_xI Coq_xH))))))) :: ((Npos (Coq_xO (Coq_xI (Coq_xO
    (Coq_xO (Coq_xI (Coq_xI Coq_xH))))))) :: ((Npos (Coq_xO (Coq_xI (Coq_xI
    (Coq_xI (Coq_xO (Coq_xI Coq_xH))))))) :: ((Npos (Coq_xO (Coq_xI (Coq_xO
    (Coq_xI (Coq_xI Coq_xH)))))) :: ((Npos (Coq_xI (Coq_xI (Coq_xI (Coq_xI
    (Coq_xO (Coq_xI Coq_xH))))))) :: ((Npos (Coq_xI (Coq_xO (Coq_xO (Coq_xO
    (Coq_xO (Coq_xI Coq_xH))))))) :: ((Npos (Coq_xI (Coq_xI (Coq_xO (Coq_xO
    (Coq_xI (Coq_xI Coq_xH))))))) :: ((Npos (Coq_xI (Coq_xO (Coq_xO (Coq_xI
    (Coq_xO (Coq_xI Coq_xH))))))) :: ((Npos (Coq_xI (Coq_xI (Coq_xO (Coq_xO
    (Coq_xI (Coq_xI Coq_xH))))))) :: ((Npos (Coq_xO (Coq_xI (Coq_xO (Coq_xI
    (Coq_xI Coq_xH)))))) :: ((Npos (Coq_xO (Coq_xI (Coq_xI (Coq_xI (Coq_xO
    (Coq_xI Coq_xH))))))) :: ((Npos (Coq_xI (Coq_xO (Coq_xO (Coq_xO (Coq_xO
    (Coq_xI Coq_xH))))))) :: ((Npos (Coq_xI (Coq_xO (Coq_xI (Coq_xI (Coq_xO
    (Coq_xI Coq_xH))))))) :: ((Npos (Coq_xI (Coq_xO (Coq_xI (Coq_xO (Coq_xO
    (Coq_xI Coq_xH))))))) :: ((Npos (Coq_xI (Coq_xI (Coq_xO (Coq_xO (Coq_xI
    (Coq_xI Coq_xH))))))) :: ((Npos (Coq_xO (Coq_xI (Coq_xO (Coq_xI (Coq_xI
    Coq_xH)))))) :: ((Npos (Coq_xO (Coq_xO (Coq_xI (Coq_xO (Coq_xI (Coq_xI
    Coq_xH))))))) :: ((Npos (Coq_xI (Coq_xI (Coq_xO (Coq_xO (Coq_xO (Coq_xI
    Coq_xH))))))) :: ((Npos (Coq_xO (Coq_xI (Coq_xO (Coq_xI (Coq_xI
    Coq_xH)))))) :: ((Npos (Coq_xI (Coq_xI (Coq_xI (Coq_xI (Coq_xO (Coq_xI
    Coq_xH))))))) :: ((Npos (Coq_xO (Coq_xO (Coq_xO (Coq_xO (Coq_xI (Coq_xI
    Coq_xH))))))) :: ((Npos (Coq_xI (Coq_xO (Coq_xI (Coq_xO (Coq_xO (Coq_xI
    Coq_xH))))))) :: ((Npos (Coq_xO (Coq_xI (Coq_xI (Coq_xI (Coq_xO (Coq_xI
    Coq_xH))))))) :: ((Npos (Coq_xO (Coq_xO (Coq_xI (Coq_xO (Coq_xO (Coq_xI
    Coq_xH))))))) :: ((Npos (Coq_xI (Coq_xI (Coq_xI (Coq_xI (Coq_xO (Coq_xI
    Coq_xH))))))) :: ((Npos (Coq_xI (Coq_xI (Coq_xO (Coq_xO (Coq_xO (Coq_xI
    Coq_xH))))))) :: ((Npos (Coq_xI (Coq_xO (Coq_xI (Coq_xO (Coq_xI (Coq_xI
    Coq_xH))))))) :: ((Npos (Coq_xI (Coq_xO (Coq_xI (Coq_xI (Coq_xO (Coq_xI
    Coq_xH))))))) :: ((Npos (Coq_xI (Coq_xO (Coq_xI (Coq_xO (Coq_xO (Coq_xI
    Coq_xH))))))) :: ((Npos (Coq_xO (Coq_xI (Coq_xI (Coq_xI (Coq_xO (Coq_xI
    Coq_xH))))))) :: ((Npos (Coq_xO (Coq_xO (Coq_xI (Coq_xO (Coq_xI (Coq_xI
    Coq_xH))))))) :: ((Npos (Coq_xO (Coq_xI (Coq_xO (Coq_xI (Coq_xI
    Coq_xH)))))) :: ((Npos (Coq_xO (Coq_xO (Coq_xO (Coq_xI (Coq_xI (Coq_xI
    Coq_xH))))))) :: ((Npos (Coq_xI (Coq_xO (Coq_xI (Coq_xI (Coq_xO (Coq_xI
    Coq_xH))))))) :: ((Npos (Coq_xO (Coq_xO (Coq_xI (Coq_xI (Coq_xO (Coq_xI
    Coq_xH))))))) :: ((Npos (Coq_xO (Coq_xI (Coq_xI (Coq_xI (Coq_xO (Coq_xI
    Coq_xH))))))) :: ((Npos (Coq_xI (Coq_xI (Coq_xO (Coq_xO (Coq_xI (Coq_xI
    Coq_xH))))))) :: ((Npos (Coq_xO (Coq_xI (Coq_xO (Coq_xI (Coq_xI
    Coq_xH)))))) :: ((Npos (Coq_xO (Coq_xO (Coq_xI (Coq_xO (Coq_xO (Coq_xI
    Coq_xH))))))) :: ((Npos (Coq_xO (Coq_xI (Coq_xO (Coq_xO (Coq_xI (Coq_xI
    Coq_xH))))))) :: ((Npos (Coq_xI (Coq_xO (Coq_xO (Coq_xO (Coq_xO (Coq_xI
    Coq_xH))))))) :: ((Npos (Coq_xI (Coq_xI (Coq_xI (Coq_xO (Coq_xI (Coq_xI
    Coq_xH))))))) :: ((Npos (Coq_xI (Coq_xO (Coq_xO (Coq_xI (Coq_xO (Coq_xI
    Coq_xH))))))) :: ((Npos (Coq_xO (Coq_xI (Coq_xI (Coq_xI (Coq_xO (Coq_xI
    Coq_xH))))))) :: ((Npos (Coq_xI (Coq_xI (Coq_xI (Coq_xO (Coq_xO (Coq_xI
    Coq_xH))))))) :: ((Npos (Coq_xO (Coq_xI (Coq_xO (Coq_xI (Coq_xI
    Coq_xH)))))) :: ((Npos (Coq_xI (Coq_xO (Coq_xO (Coq_xO (Coq_xI
    Coq_xH)))))) :: ((Npos (Coq_xO (Coq_xI (Coq_xI (Coq_xI (Coq_xO
    Coq_xH)))))) :: ((Npos (Coq_xO (Coq_xO (Coq_xO (Coq_xO (Coq_xI
    Coq_xH)))))) :: []))))))))))))))))))))))))))))))))))))))))))))))))),
    ((Npos (Coq_xI (Coq_xI (Coq_xO (Coq_xO (Coq_xI (Coq_xI
    Coq_xH))))))) :: ((Npos (Coq_xO (Coq_xO (Coq_xI (Coq_xO (Coq_xI (Coq_xI
    Coq_xH))))))) :: ((Npos (Coq_xO (Coq_xI (Coq_xO (Coq_xO (Coq_xI (Coq_xI
    Coq_xH))))))) :: ((Npos (Coq_xI (Coq_xI (Coq_xI (Coq_xI (Coq_xO (Coq_xI
    Coq_xH))))))) :: ((Npos (Coq_xI (Coq_xI (Coq_xO (Coq_xI (Coq_xO (Coq_xI
    Coq_xH))))))) :: ((Npos (Coq_xI (Coq_xO (Coq_xI (Coq_xO (Coq_xO (Coq_xI
    Coq_xH))))))) :: ((Npos (Coq_xI (Coq_xO (Coq_xI (Coq_xI (Coq_xO
    Coq_xH)))))) :: ((Npos (Coq_xO (Coq_xO (Coq_xI (Coq_xO (Coq_xO (Coq_xI
    Coq_xH))))))) :: ((Npos (Coq_xI (Coq_xO (Coq_xO (Coq_xO (Coq_xO (Coq_xI
    Coq_xH))))))) :: ((Npos (Coq_xI (Coq_xI (Coq_xO (Coq_xO (Coq_xI (Coq_xI
    Coq_xH))))))) :: ((Npos (Coq_xO (Coq_xO (Coq_xO (Coq_xI (Coq_xO (Coq_xI
    Coq_xH))))))) :: ((Npos (Coq_xI (Coq_xO (Coq_xI (Coq_xI (Coq_xO
    Coq_xH)))))) :: ((Npos (Coq_xO (Coq_xI (Coq_xI (Coq_xI (Coq_xO (Coq_xI
    Coq_xH))))))) :: ((Npos (Coq_xI (Coq_xO (Coq_xO (Coq_xO (Coq_xO (Coq_xI
    Coq_xH))))))) :: ((Npos (Coq_xI (Coq_xO (Coq_xI (Coq_xI (Coq_xO (Coq_xI
    Coq_xH))))))) :: ((Npos (Coq_xI (Coq_xO (Coq_xI (Coq_xO (Coq_xO (Coq_xI
    Coq_xH))))))) :: ((Npos (Coq_xI (Coq_xI (Coq_xO (Coq_xO (Coq_xI (Coq_xI
    Coq_xH))))))) :: [])))))))))))))))))) :: ((((Npos (Coq_xI (Coq_xO (Coq_xI
    (Coq_xO (Coq_xI (Coq_xI Coq_xH))))))) :: ((Npos (Coq_xO (Coq_xI (Coq_xO
    (Coq_xO (Coq_xI (Coq_xI Coq_xH))))))) :: ((Npos (Coq_xO (Coq_xI (Coq_xI
    (Coq_xI (Coq_xO (Coq_xI Coq_xH))))))) :: ((Npos (Coq_xO (Coq_xI (Coq_xO
    (Coq_xI (Coq_xI Coq_xH)))))) :: ((Npos (Coq_xI (Coq_xI (Coq_xI (Coq_xI
    (Coq_xO (Coq_xI Coq_xH))))))) :: ((Npos (Coq_xI (Coq_xO (Coq_xO (Coq_xO
    (Coq_xO (Coq_xI Coq_xH))))))) :: ((Npos (Coq_xI (Coq_xI (Coq_xO (Coq_xO
    (Coq_xI (Coq_xI Coq_xH))))))) :: ((Npos (Coq_xI (Coq_xO (Coq_xO (Coq_xI
    (Coq_xO (Coq_xI Coq_xH))))))) :: ((Npos (Coq_xI (Coq_xI (Coq_xO (Coq_xO
    (Coq_xI (Coq_xI Coq_xH))))))) :: ((Npos (Coq_xO (Coq_xI (Coq_xO (Coq_xI
    (Coq_xI Coq_xH)))))) :: ((Npos (Coq_xO (Coq_xI (Coq_xI (Coq_xI (Coq_xO
    (Coq_xI Coq_xH))))))) :: ((Npos (Coq_xI (Coq_xO (Coq_xO (Coq_xO (Coq_xO
    (Coq_xI Coq_xH))))))) :: ((Npos (Coq_xI (Coq_xO (Coq_xI (Coq_xI (Coq_xO
    (Coq_xI Coq_xH))))))) :: ((Npos (Coq_xI (Coq_xO (Coq_xI (Coq_xO (Coq_xO
    (Coq_xI Coq_xH))))))) :: ((Npos (Coq_xI (Coq_xI (Coq_xO (Coq_xO (Coq_xI
    (Coq_xI Coq_xH))))))) :: ((Npos (Coq_xO (Coq_xI (Coq_xO (Coq_xI (Coq_xI
    Coq_xH)))))) :: ((Npos (Coq_xO (Coq_xO (Coq_xI (Coq_xO (Coq_xI (Coq_xI
    Coq_xH))))))) :: ((Npos (Coq_xI (Coq_xI (Coq_xO (Coq_xO (Coq_xO (Coq_xI
    Coq_xH))))))) :: ((Npos (Coq_xO (Coq_xI (Coq_xO (Coq_xI (Coq_xI
    Coq_xH)))))) :: ((Npos (Coq_xI (Coq_xI (Coq_xI (Coq_xI (Coq_xO (Coq_xI
    Coq_xH))))))) :: ((Npos (Coq_xO (Coq_xO (Coq_xO (Coq_xO (Coq_xI (Coq_xI
    Coq_xH))))))) :: ((Npos (Coq_xI (Coq_xO (Coq_xI (Coq_xO (Coq_xO (Coq_xI
    Coq_xH))))))) :: ((Npos (Coq_xO (Coq_xI (Coq_xI (Coq_xI (Coq_xO (Coq_xI
    Coq_xH))))))) :: ((Npos (Coq_xO (Coq_xO (Coq_xI (Coq_xO (Coq_xO (Coq_xI
    Coq_xH))))))) :: ((Npos (Coq_xI (Coq_xI (Coq_xI (Coq_xI (Coq_xO (Coq_xI
    Coq_xH))))))) :: ((Npos (Coq_xI (Coq_xI (Coq_xO (Coq_xO (Coq_xO (Coq_xI
    Coq_xH))))))) :: ((Npos (Coq_xI (Coq_xO (Coq_xI (Coq_xO (Coq_xI (Coq_xI
    Coq_xH))))))) :: ((Npos (Coq_xI (Coq_xO (Coq_xI (Coq_xI (Coq_xO (Coq_xI
    Coq_xH))))))) :: ((Npos (Coq_xI (Coq_xO (Coq_xI (Coq_xO (Coq_xO (Coq_xI
    Coq_xH))))))) :: ((Npos (Coq_xO (Coq_xI (Coq_xI (Coq_xI (Coq_xO (Coq_xI
    Coq_xH))))))) :: ((Npos (Coq_xO (Coq_xO (Coq_xI (Coq_xO (Coq_xI (Coq_xI
    Coq_xH))))))) :: ((Npos (Coq_xO (Coq_xI (Coq_xO (Coq_xI (Coq_xI
    Coq_xH)))))) :: ((Npos (Coq_xO (Coq_xO (Coq_xO (Coq_xI (Coq_xI (Coq_xI
    Coq_xH))))))) :: ((Npos (Coq_xI (Coq_xO (Coq_xI (Coq_xI (Coq_xO (Coq_xI
    Coq_xH))))))) :: ((Npos (Coq_xO (Coq_xO (Coq_xI (Coq_xI (Coq_xO (Coq_xI
    Coq_xH))))))) :: ((Npos (Coq_xO (Coq_xI (Coq_xI (Coq_xI (Coq_xO (Coq_xI
    Coq_xH))))))) :: ((Npos (Coq_xI (Coq_xI (Coq_xO (Coq_xO (Coq_xI (Coq_xI
    Coq_xH))))))) :: ((Npos (Coq_xO (Coq_xI (Coq_xO (Coq_xI (Coq_xI
    Coq_xH)))))) :: ((Npos (Coq_xO (Coq_xO (Coq_xI (Coq_xO (Coq_xO (Coq_xI
    Coq_xH))))))) :: ((Npos (Coq_xO (Coq_xI (Coq_xO (Coq_xO (Coq_xI (Coq_xI
    Coq_xH))))))) :: ((Npos (Coq_xI (Coq_xO (Coq_xO (Coq_xO (Coq_xO (Coq_xI
    Coq_xH))))))) :: ((Npos (Coq_xI (Coq_xI (Coq_xI (Coq_xO (Coq_xI (Coq_xI
    Coq_xH))))))) :: ((Npos (Coq_xI (Coq_xO (Coq_xO (Coq_xI (Coq_xO (Coq_xI
    Coq_xH))))))) :: ((Npos (Coq_xO (Coq_xI (Coq_xI (Coq_xI (Coq_xO (Coq_xI
    Coq_xH))))))) :: ((Npos (Coq_xI (Coq_xI (Coq_xI (Coq_xO (Coq_xO (Coq_xI
    Coq_xH))))))) :: ((Npos (Coq_xO (Coq_xI (Coq_xO (Coq_xI (Coq_xI
    Coq_xH)))))) :: ((Npos (Coq_xI (Coq_xO (Coq_xO (Coq_xO (Coq_xI
    Coq_xH)))))) :: ((Npos (Coq_xO (Coq_xI (Coq_xI (Coq_xI (Coq_xO
    Coq_xH)))))) :: ((Npos (Coq_xO (Coq_xO (Coq_xO (Coq_xO (Coq_xI
    Coq_xH)))))) :: []))))))))))))))))))))))))))))))))))))))))))))))))),
    ((Npos (Coq_xI (Coq_xI (Coq_xO (Coq_xO (Coq_xI (Coq_xI
    Coq_xH))))))) :: ((Npos (Coq_xO (Coq_xO (Coq_xI (Coq_xO (Coq_xI (Coq_xI
    Coq_xH))))))) :: ((Npos (Coq_xI (Coq_xO (Coq_xO (Coq_xI (Coq_xI (Coq_xI
    Coq_xH))))))) :: ((Npos (Coq_xO (Coq_xO (Coq_xI (Coq_xI (Coq_xO (Coq_xI
    Coq_xH))))))) :: ((Npos (Coq_xI (Coq_xO (Coq_xI (Coq_xO (Coq_xO (Coq_xI
    Coq_xH))))))) :: ((Npos (Coq_xI (Coq_xO (Coq_xI (Coq_xI (Coq_xO
    Coq_xH)))))) :: ((Npos (Coq_xO (Coq_xI (Coq_xI (Coq_xI (Coq_xO (Coq_xI
    Coq_xH))))))) :: ((Npos (Coq_xI (Coq_xO (Coq_xO (Coq_xO (Coq_xO (Coq_xI
    Coq_xH))))))) :: ((Npos (Coq_xI (Coq_xO (Coq_xI (Coq_xI (Coq_xO (Coq_xI
    Coq_xH))))))) :: ((Npos (Coq_xI (Coq_xO (Coq_xI (Coq_xO (Coq_xO (Coq_xI
    Coq_xH))))))) :: []))))))))))) :: ((((Npos (Coq_xI (Coq_xO (Coq_xI
    (Coq_xO (Coq_xI (Coq_xI Coq_xH))))))) :: ((Npos (Coq_xO (Coq_xI (Coq_xO
    (Coq_xO (Coq_xI (Coq_xI Coq_xH))))))) :: ((Npos (Coq_xO (Coq_xI (Coq_xI
    (Coq_xI (Coq_xO (Coq_xI Coq_xH))))))) :: ((Npos (Coq_xO (Coq_xI (Coq_xO
    (Coq_xI (Coq_xI Coq_xH)))))) :: ((Npos (Coq_xI (Coq_xI (Coq_xI (Coq_xI
    (Coq_xO (Coq_xI Coq_xH))))))) :: ((Npos (Coq_xI (Coq_xO (Coq_xO (Coq_xO
    (Coq_xO (Coq_xI Coq_xH))))))) :: ((Npos (Coq_xI (Coq_xI (Coq_xO (Coq_xO
    (Coq_xI (Coq_xI Coq_xH))))))) :: ((Npos (Coq_xI (Coq_xO (Coq_xO (Coq_xI
    (Coq_xO (Coq_xI Coq_xH))))))) :: ((Npos (Coq_xI (Coq_xI (Coq_xO (Coq_xO
    (Coq_xI (Coq_xI Coq_xH))))))) :: ((Npos (Coq_xO (Coq_xI (Coq_xO (Coq_xI
    (Coq_xI Coq_xH)))))) :: ((Npos (Coq_xO (Coq_xI (Coq_xI (Coq_xI (Coq_xO
    (Coq_xI Coq_xH))))))) :: ((Npos (Coq_xI (Coq_xO (Coq_xO (Coq_xO (Coq_xO
    (Coq_xI Coq_xH))))))) :: ((Npos (Coq_xI (Coq_xO (Coq_xI (Coq_xI (Coq_xO
    (Coq_xI Coq_xH))))))) :: ((Npos (Coq_xI (Coq_xO (Coq_xI (Coq_xO (Coq_xO
    (Coq_xI Coq_xH))))))) :: ((Npos (Coq_xI (Coq_xI (Coq_xO (Coq_xO (Coq_xI
    (Coq_xI Coq_xH))))))) :: ((Npos (Coq_xO (Coq_xI (Coq_xO (Coq_xI (Coq_xI
    Coq_xH)))))) :: ((Npos (Coq_xO (Coq_xO (Coq_xI (Coq_xO (Coq_xI (Coq_xI
    Coq_xH))))))) :: ((Npos (Coq_xI (Coq_xI (Coq_xO (Coq_xO (Coq_xO (Coq_xI
    Coq_xH))))))) :: ((Npos (Coq_xO (Coq_xI (Coq_xO (Coq_xI (Coq_xI
    Coq_xH)))))) :: ((Npos (Coq_xI (Coq_xI (Coq_xI (Coq_xI (Coq_xO (Coq_xI
    Coq_xH))))))) :: ((Npos (Coq_xO (Coq_xO (Coq_xO (Coq_xO (Coq_xI (Coq_xI
    Coq_xH))))))) :: ((Npos (Coq_xI (Coq_xO (Coq_xI (Coq_xO (Coq_xO (Coq_xI
    Coq_xH))))))) :: ((Npos (Coq_xO (Coq_xI (Coq_xI (Coq_xI (Coq_xO (Coq_xI
    Coq_xH))))))) :: ((Npos (Coq_xO (Coq_xO (Coq_xI (Coq_xO (Coq_xO (Coq_xI
    Coq_xH))))))) :: ((Npos (Coq_xI (Coq_xI (Coq_xI (Coq_xI (Coq_xO (Coq_xI
    Coq_xH))))))) :: ((Npos (Coq_xI (Coq_xI (Coq_xO (Coq_xO (Coq_xO (Coq_xI
    Coq_xH))))))) :: ((Npos (Coq_xI (Coq_xO (Coq_xI (Coq_xO (Coq_xI (Coq_xI
    Coq_xH))))))) :: ((Npos (Coq_xI (Coq_xO (Coq_xI (Coq_xI (Coq_xO (Coq_xI
    Coq_xH))))))) :: ((Npos (Coq_xI (Coq_xO (Coq_xI (Coq_xO (Coq_xO (Coq_xI
    Coq_xH))))))) :: ((Npos (Coq_xO (Coq_xI (Coq_xI (Coq_xI (Coq_xO (Coq_xI
    Coq_xH))))))) :: ((Npos (Coq_xO (Coq_xO (Coq_xI (Coq_xO (Coq_xI (Coq_xI
    Coq_xH))))))) :: ((Npos (Coq_xO (Coq_xI (Coq_xO (Coq_xI (Coq_xI
    Coq_xH)))))) :: ((Npos (Coq_xO (Coq_xO (Coq_xO (Coq_xI (Coq_xI (Coq_xI
    Coq_xH))))))) :: ((Npos (Coq_xI (Coq_xO (Coq_xI (Coq_xI (Coq_xO (Coq_xI
    Coq_xH))))))) :: ((Npos (Coq_xO (Coq_xO (Coq_xI (Coq_xI (Coq_xO (Coq_xI
    Coq_xH))))))) :: ((Npos (Coq_xO (Coq_xI (Coq_xI (Coq_xI (Coq_xO (Coq_xI
    Coq_xH))))))) :: ((Npos (Coq_xI (Coq_xI (Coq_xO (Coq_xO (Coq_xI (Coq_xI
    Coq_xH))))))) :: ((Npos (Coq_xO (Coq_xI (Coq_xO (Coq_xI (Coq_xI
    Coq_xH)))))) :: ((Npos (Coq_xO (Coq_xO (Coq_xI (Coq_xO (Coq_xO (Coq_xI
    Coq_xH))))))) :: ((Npos (Coq_xO (Coq_xI (Coq_xO (Coq_xO (Coq_xI (Coq_xI
    Coq_xH))))))) :: ((Npos (Coq_xI (Coq_xO (Coq_xO (Coq_xO (Coq_xO (Coq_xI
    Coq_xH))))))) :: ((Npos (Coq_xI (Coq_xI (Coq_xI (Coq_xO (Coq_xI (Coq_xI
    Coq_xH))))))) :: ((Npos (Coq_xI (Coq_xO (Coq_xO (Coq_xI (Coq_xO (Coq_xI
    Coq_xH))))))) :: ((Npos (Coq_xO (Coq_xI (Coq_xI (Coq_xI (Coq_xO (Coq_xI
    Coq_xH))))))) :: ((Npos (Coq_xI (Coq_xI (Coq_xI (Coq_xO (Coq_xO (Coq_xI
    Coq_xH))))))) :: ((Npos (Coq_xO (Coq_xI (Coq_xO (Coq_xI (Coq_xI
    Coq_xH)))))) :: ((Npos (Coq_xI (Coq_xO (Coq_xO (Coq_xO (Coq_xI
    Coq_xH)))))) :: ((Npos (Coq_xO (Coq_xI (Coq_xI (Coq_xI (Coq_xO
    Coq_xH)))))) :: ((Npos (Coq_xO (Coq_xO (Coq_xO (Coq_xO (Coq_xI
    Coq_xH)))))) :: []))))))))))))))))))))))))))))))))))))))))))))))))),
    ((Npos (Coq_xO (Coq_xO (Coq_xI (Coq_xO (Coq_xI (Coq_xI
    Coq_xH))))))) :: ((Npos (Coq_xI (Coq_xO (Coq_xI (Coq_xO (Coq_xO (Coq_xI
    Coq_xH))))))) :: ((Npos (Coq_xO (Coq_xO (Coq_xO (Coq_xI (Coq_xI (Coq_xI
    Coq_xH))))))) :: ((Npos (Coq_xO (Coq_xO (Coq_xI (Coq_xO (Coq_xI (Coq_xI
    Coq_xH))))))) :: ((Npos (Coq_xI (Coq_xO (Coq_xI (Coq_xI (Coq_xO
    Coq_xH)))))) :: ((Npos (Coq_xI (Coq_xI (Coq_xO (Coq_xO (Coq_xI (Coq_xI
    Coq_xH))))))) :: ((Npos (Coq_xO (Coq_xO (Coq_xI (Coq_xO (Coq_xI (Coq_xI
    Coq_xH))))))) :: ((Npos (Coq_xI (Coq_xO (Coq_xO (Coq_xI (Coq_xI (Coq_xI
    Coq_xH))))))) :: ((Npos (Coq_xO (Coq_xO (Coq_xI (Coq_xI (Coq_xO (Coq_xI
    Coq_xH))))))) :: ((Npos (Coq_xI (Coq_xO (Coq_xI (Coq_xO (Coq_xO (Coq_xI
    Coq_xH))))))) :: ((Npos (Coq_xI (Coq_xO (Coq_xI (Coq_xI (Coq_xO
    Coq_xH)))))) :: ((Npos (Coq_xO (Coq_xI (Coq_xI (Coq_xI (Coq_xO (Coq_xI
    Coq_xH))))))) :: ((Npos (Coq_xI (Coq_xO (Coq_xO (Coq_xO (Coq_xO (Coq_xI
    Coq_xH))))))) :: ((Npos (Coq_xI (Coq_xO (Coq_xI (Coq_xI (Coq_xO (Coq_xI
    Coq_xH))))))) :: ((Npos (Coq_xI (Coq_xO (Coq_xI (Coq_xO (Coq_xO (Coq_xI
    Coq_xH))))))) :: [])))))))))))))))) :: ((((Npos (Coq_xI (Coq_xO (Coq_xI
    (Coq_xO (Coq_xI (Coq_xI Coq_xH))))))) :: ((Npos (Coq_xO (Coq_xI (Coq_xO
    (Coq_xO (Coq_xI (Coq_xI Coq_xH))))))) :: ((Npos (Coq_xO (Coq_xI (Coq_xI
    (Coq_xI (Coq_xO (Coq_xI Coq_xH))))))) :: ((Npos (Coq_xO (Coq_xI (Coq_xO
    (Coq_xI (Coq_xI Coq_xH)))))) :: ((Npos (Coq_xI (Coq_xI (Coq_xI (Coq_xI
    (Coq_xO (Coq_xI Coq_xH))))))) :: ((Npos (Coq_xI (Coq_xO (Coq_xO (Coq_xO
    (Coq_xO (Coq_xI Coq_xH))))))) :: ((Npos (Coq_xI (Coq_xI (Coq_xO (Coq_xO
    (Coq_xI (Coq_xI Coq_xH))))))) :: ((Npos (Coq_xI (Coq_xO (Coq_xO (Coq_xI
    (Coq_xO (Coq_xI Coq_xH))))))) :: ((Npos (Coq_xI (Coq_xI (Coq_xO (Coq_xO
    (Coq_xI (Coq_xI Coq_xH))))))) :: ((Npos (Coq_xO (Coq_xI (Coq_xO (Coq_xI
    (Coq_xI Coq_xH)))))) :: ((Npos (Coq_xO (Coq_xI (Coq_xI (Coq_xI (Coq_xO
    (Coq_xI Coq_xH))))))) :: ((Npos (Coq_xI (Coq_xO (Coq_xO (Coq_xO (Coq_xO
    (Coq_xI Coq_xH))))))) :: ((Npos (Coq_xI (Coq_xO (Coq_xI (Coq_xI (Coq_xO
    (Coq_xI Coq_xH))))))) :: ((Npos (Coq_xI (Coq_xO (Coq_xI (Coq_xO (Coq_xO
    (Coq_xI Coq_xH))))))) :: ((Npos (Coq_xI (Coq_xI (Coq_xO (Coq_xO (Coq_xI
    (Coq_xI Coq_xH))))))) :: ((Npos (Coq_xO (Coq_xI (Coq_xO (Coq_xI (Coq_xI
    Coq_xH)))))) :: ((Npos (Coq_xO (Coq_xO (Coq_xI (Coq_xO (Coq_xI (Coq_xI
    Coq_xH))))))) :: ((Npos (Coq_xI (Coq_xI (Coq_xO (Coq_xO (Coq_xO (Coq_xI
    Coq_xH))))))) :: ((Npos (Coq_xO (Coq_xI (Coq_xO (Coq_xI (Coq_xI
    Coq_xH)))))) :: ((Npos (Coq_xI (Coq_xI (Coq_xI (Coq_xI (Coq_xO (Coq_xI
    Coq_xH))))))) :: ((Npos (Coq_xO (Coq_xO (Coq_xO (Coq_xO (Coq_xI (Coq_xI
    Coq_xH))))))) :: ((Npos (Coq_xI (Coq_xO (Coq_xI (Coq_xO (Coq_xO (Coq_xI
    Coq_xH))))))) :: ((Npos (Coq_xO (Coq_xI (Coq_xI (Coq_xI (Coq_xO (Coq_xI
    Coq_xH))))))) :: ((Npos (Coq_xO (Coq_xO (Coq_xI (Coq_xO (Coq_xO (Coq_xI
    Coq_xH))))))) :: ((Npos (Coq_xI (Coq_xI (Coq_xI (Coq_xI (Coq_xO (Coq_xI
    Coq_xH))))))) :: ((Npos (Coq_xI (Coq_xI (Coq_xO (Coq_xO (Coq_xO (Coq_xI
    Coq_xH))))))) :: ((Npos (Coq_xI (Coq_xO (Coq_xI (Coq_xO (Coq_xI (Coq_xI
    Coq_xH))))))) :: ((Npos (Coq_xI (Coq_xO (Coq_xI (Coq_xI (Coq_xO (Coq_xI
    Coq_xH))))))) :: ((Npos (Coq_xI (Coq_xO (Coq_xI (Coq_xO (Coq_xO (Coq_xI
    Coq_xH))))))) :: ((Npos (Coq_xO (Coq_xI (Coq_xI (Coq_xI (Coq_xO (Coq_xI
    Coq_xH))))))) :: ((Npos (Coq_xO (Coq_xO (Coq_xI (Coq_xO (Coq_xI (Coq_xI
    Coq_xH))))))) :: ((Npos (Coq_xO (Coq_xI (Coq_xO (Coq_xI (Coq_xI
    Coq_xH)))))) :: ((Npos (Coq_xO (Coq_xO (Coq_xO (Coq_xI (Coq_xI (Coq_xI
    Coq_xH))))))) :: ((Npos (Coq_xI (Coq_xO (Coq_xI (Coq_xI (Coq_xO (Coq_xI
    Coq_xH))))))) :: ((Npos (Coq_xO (Coq_xO (Coq_xI (Coq_xI (Coq_xO (Coq_xI
    Coq_xH))))))) :: ((Npos (Coq_xO (Coq_xI (Coq_xI (Coq_xI (Coq_xO (Coq_xI
    Coq_xH))))))) :: ((Npos (Coq_xI (Coq_xI (Coq_xO (Coq_xO (Coq_xI (Coq_xI
    Coq_xH))))))) :: ((Npos (Coq_xO (Coq_xI (Coq_xO (Coq_xI (Coq_xI
    Coq_xH)))))) :: ((Npos (Coq_xO (Coq_xI (Coq_xI (Coq_xO (Coq_xO (Coq_xI
    Coq_xH))))))) :: ((Npos (Coq_xI (Coq_xI (Coq_xI (Coq_xI (Coq_xO (Coq_xI
    Coq_xH))))))) :: ((Npos (Coq_xO (Coq_xI (Coq_xO (Coq_xO (Coq_xI (Coq_xI
    Coq_xH))))))) :: ((Npos (Coq_xI (Coq_xO (Coq_xI (Coq_xI (Coq_xO (Coq_xI
    Coq_xH))))))) :: ((Npos (Coq_xO (Coq_xI (Coq_xO (Coq_xI (Coq_xI
    Coq_xH)))))) :: ((Npos (Coq_xI (Coq_xO (Coq_xO (Coq_xO (Coq_xI
    Coq_xH)))))) :: ((Npos (Coq_xO (Coq_xI (Coq_xI (Coq_xI (Coq_xO
    Coq_xH)))))) :: ((Npos (Coq_xO (Coq_xO (Coq_xO (Coq_xO (Coq_xI
    Coq_xH)))))) :: [])))))))))))))))))))))))))))))))))))))))))))))), ((Npos
    (Coq_xO (Coq_xO (Coq_xI (Coq_xO (Coq_xI (Coq_xI Coq_xH))))))) :: ((Npos
    (Coq_xI (Coq_xO (Coq_xI (Coq_xO (Coq_xO (Coq_xI Coq_xH))))))) :: ((Npos
    (Coq_xO (Coq_xO (Coq_xO (Coq_xI (Coq_xI (Coq_xI Coq_xH))))))) :: ((Npos
    (Coq_xO (Coq_xO (Coq_xI (Coq_xO (Coq_xI (Coq_xI Coq_xH))))))) :: ((Npos
    (Coq_xI (Coq_xO (Coq_xI (Coq_xI (Coq_xO Coq_xH)))))) :: ((Npos (Coq_xI
    (Coq_xI (Coq_xO (Coq_xO (Coq_xI (Coq_xI Coq_xH))))))) :: ((Npos (Coq_xO
    (Coq_xO (Coq_xI (Coq_xO (Coq_xI (Coq_xI Coq_xH))))))) :: ((Npos (Coq_xI
    (Coq_xO (Coq_xO (Coq_xI (Coq_xI (Coq_xI Coq_xH))))))) :: ((Npos (Coq_xO
    (Coq_xO (Coq_xI (Coq_xI (Coq_xO (Coq_xI Coq_xH))))))) :: ((Npos (Coq_xI
    (Coq_xO (Coq_xI (Coq_xO (Coq_xO (Coq_xI Coq_xH))))))) :: ((Npos (Coq_xI
    (Coq_xO (Coq_xI (Coq_xI (Coq_xO Coq_xH)))))) :: ((Npos (Coq_xO (Coq_xI
    (Coq_xI (Coq_xI (Coq_xO (Coq_xI Coq_xH))))))) :: ((Npos (Coq_xI (Coq_xO
    (Coq_xO (Coq_xO (Coq_xO (Coq_xI Coq_xH))))))) :: ((Npos (Coq_xI (Coq_xO
    (Coq_xI (Coq_xI (Coq_xO (Coq_xI Coq_xH))))))) :: ((Npos (Coq_xI (Coq_xO
    (Coq_xI (Coq_xO (Coq_xO (Coq_xI
    Coq_xH))))))) :: [])))))))))))))))) :: ((((Npos (Coq_xI (Coq_xO (Coq_xI
    (Coq_xO (Coq_xI (Coq_xI Coq_xH))))))) :: ((Npos (Coq_xO (Coq_xI (Coq_xO
    (Coq_xO (Coq_xI (Coq_xI Coq_xH))))))) :: ((Npos (Coq_xO (Coq_xI (Coq_xI
    (Coq_xI (Coq_xO (Coq_xI Coq_xH))))))) :: ((Npos (Coq_xO (Coq_xI (Coq_xO
    (Coq_xI (Coq_xI Coq_xH)))))) :: ((Npos (Coq_xI (Coq_xI (Coq_xI (Coq_xI
    (Coq_xO (Coq_xI Coq_xH))))))) :: ((Npos (Coq_xI (Coq_xO (Coq_xO (Coq_xO
    (Coq_xO (Coq_xI Coq_xH))))))) :: ((Npos (Coq_xI (Coq_xI (Coq_xO (Coq_xO
    (Coq_xI (Coq_xI Coq_xH))))))) :: ((Npos (Coq_xI (Coq_xO (Coq_xO (Coq_xI
    (Coq_xO (Coq_xI Coq_xH))))))) :: ((Npos (Coq_xI (Coq_xI (Coq_xO (Coq_xO
    (Coq_xI (Coq_xI Coq_xH))))))) :: ((Npos (Coq_xO (Coq_xI (Coq_xO (Coq_xI
    (Coq_xI Coq_xH)))))) :: ((Npos (Coq_xO (Coq_xI (Coq_xI (Coq_xI (Coq_xO
    (Coq_xI Coq_xH))))))) :: ((Npos (Coq_xI (Coq_xO (Coq_xO (Coq_xO (Coq_xO
    (Coq_xI Coq_xH))))))) :: ((Npos (Coq_xI (Coq_xO (Coq_xI (Coq_xI (Coq_xO
    (Coq_xI Coq_xH))))))) :: ((Npos (Coq_xI (Coq_xO (Coq_xI (Coq_xO (Coq_xO
    (Coq_xI Coq_xH))))))) :: ((Npos (Coq_xI (Coq_xI (Coq_xO (Coq_xO (Coq_xI
    (Coq_xI Coq_xH))))))) :: ((Npos (Coq_xO (Coq_xI (Coq_xO (Coq_xI (Coq_xI
    Coq_xH)))))) :: ((Npos (Coq_xO (Coq_xO (Coq_xI (Coq_xO (Coq_xI (Coq_xI
    Coq_xH))))))) :: ((Npos (Coq_xI (Coq_xI (Coq_xO (Coq_xO (Coq_xO (Coq_xI
    Coq_xH))))))) :: ((Npos (Coq_xO (Coq_xI (Coq_xO (Coq_xI (Coq_xI
    Coq_xH)))))) :: ((Npos (Coq_xI (Coq_xI (Coq_xI (Coq_xI (Coq_xO (Coq_xI
    Coq_xH))))))) :: ((Npos (Coq_xO (Coq_xO (Coq_xO (Coq_xO (Coq_xI (Coq_xI
    Coq_xH))))))) :: ((Npos (Coq_xI (Coq_xO (Coq_xI (Coq_xO (Coq_xO (Coq_xI
    Coq_xH))))))) :: ((Npos (Coq_xO (Coq_xI (Coq_xI (Coq_xI (Coq_xO (Coq_xI
    Coq_xH))))))) :: ((Npos (Coq_xO (Coq_xO (Coq_xI (Coq_xO (Coq_xO (Coq_xI
    Coq_xH))))))) :: ((Npos (Coq_xI (Coq_xI (Coq_xI (Coq_xI (Coq_xO (Coq_xI
    Coq_xH))))))) :: ((Npos (Coq_xI (Coq_xI (Coq_xO (Coq_xO (Coq_xO (Coq_xI
    Coq_xH))))))) :: ((Npos (Coq_xI (Coq_xO (Coq_xI (Coq_xO (Coq_xI (Coq_xI
    Coq_xH))))))) :: ((Npos (Coq_xI (Coq_xO (Coq_xI (Coq_xI (Coq_xO (Coq_xI
    Coq_xH))))))) :: ((Npos (Coq_xI (Coq_xO (Coq_xI (Coq_xO (Coq_xO (Coq_xI
    Coq_xH))))))) :: ((Npos (Coq_xO (Coq_xI (Coq_xI (Coq_xI (Coq_xO (Coq_xI
    Coq_xH))))))) :: ((Npos (Coq_xO (Coq_xO (Coq_xI (Coq_xO (Coq_xI (Coq_xI
    Coq_xH))))))) :: ((Npos (Coq_xO (Coq_xI (Coq_xO (Coq_xI (Coq_xI
    Coq_xH)))))) :: ((Npos (Coq_xO (Coq_xO (Coq_xO (Coq_xI (Coq_xI (Coq_xI
    Coq_xH))))))) :: ((Npos (Coq_xI (Coq_xO (Coq_xI (Coq_xI (Coq_xO (Coq_xI
    Coq_xH))))))) :: ((Npos (Coq_xO (Coq_xO (Coq_xI (Coq_xI (Coq_xO (Coq_xI
    Coq_xH))))))) :: ((Npos (Coq_xO (Coq_xI (Coq_xI (Coq_xI (Coq_xO (Coq_xI
    Coq_xH))))))) :: ((Npos (Coq_xI (Coq_xI (Coq_xO (Coq_xO (Coq_xI (Coq_xI
    Coq_xH))))))) :: ((Npos (Coq_xO (Coq_xI (Coq_xO (Coq_xI (Coq_xI
    Coq_xH)))))) :: ((Npos (Coq_xO (Coq_xO (Coq_xO (Coq_xO (Coq_xI (Coq_xI
    Coq_xH))))))) :: ((Npos (Coq_xO (Coq_xI (Coq_xO (Coq_xO (Coq_xI (Coq_xI
    Coq_xH))))))) :: ((Npos (Coq_xI (Coq_xO (Coq_xI (Coq_xO (Coq_xO (Coq_xI
    Coq_xH))))))) :: ((Npos (Coq_xI (Coq_xI (Coq_xO (Coq_xO (Coq_xI (Coq_xI
    Coq_xH))))))) :: ((Npos (Coq_xI (Coq_xO (Coq_xI (Coq_xO (Coq_xO (Coq_xI
    Coq_xH))))))) :: ((Npos (Coq_xO (Coq_xI (Coq_xI (Coq_xI (Coq_xO (Coq_xI
    Coq_xH))))))) :: ((Npos (Coq_xO (Coq_xO (Coq_xI (Coq_xO (Coq_xI (Coq_xI
    Coq_xH))))))) :: ((Npos (Coq_xI (Coq_xO (Coq_xO (Coq_xO (Coq_xO (Coq_xI
    Coq_xH))))))) :: ((Npos (Coq_xO (Coq_xO (Coq_xI (Coq_xO (Coq_xI (Coq_xI
    Coq_xH))))))) :: ((Npos (Coq_xI (Coq_xO (Coq_xO (Coq_xI (Coq_xO (Coq_xI
    Coq_xH))))))) :: ((Npos (Coq_xI (Coq_xI (Coq_xI (Coq_xI (Coq_xO (Coq_xI
    Coq_xH))))))) :: ((Npos (Coq_xO (Coq_xI (Coq_xI (Coq_xI (Coq_xO (Coq_xI
    Coq_xH))))))) :: ((Npos (Coq_xO (Coq_xI (Coq_xO (Coq_xI (Coq_xI
    Coq_xH)))))) :: ((Npos (Coq_xI (Coq_xO (Coq_xO (Coq_xO (Coq_xI
    Coq_xH)))))) :: ((Npos (Coq_xO (Coq_xI (Coq_xI (Coq_xI (Coq_xO
    Coq_xH)))))) :: ((Npos (Coq_xO (Coq_xO (Coq_xO (Coq_xO (Coq_xI
    Coq_xH)))))) :: [])))))))))))))))))))))))))))))))))))))))))))))))))))))),
    ((Npos (Coq_xI (Coq_xI (Coq_xO (Coq_xO (Coq_xO (Coq_xI
    Coq_xH))))))) :: ((Npos (Coq_xO (Coq_xO (Coq_xI (Coq_xI (Coq_xO (Coq_xI
    Coq_xH))))))) :: ((Npos (Coq_xI (Coq_xO (Coq_xO (Coq_xO (Coq_xO (Coq_xI
    Coq_xH))))))) :: ((Npos (Coq_xI (Coq_xI (Coq_xO (Coq_xO (Coq_xI (Coq_xI
    Coq_xH))))))) :: ((Npos (Coq_xI (Coq_xI (Coq_xO (Coq_xO (Coq_xI (Coq_xI
    Coq_xH))))))) :: ((Npos (Coq_xI (Coq_xO (Coq_xI (Coq_xI (Coq_xO
    Coq_xH)))))) :: ((Npos (Coq_xO (Coq_xI (Coq_xI (Coq_xI (Coq_xO (Coq_xI
    Coq_xH))))))) :: ((Npos (Coq_xI (Coq_xO (Coq_xO (Coq_xO (Coq_xO (Coq_xI
    Coq_xH))))))) :: ((Npos (Coq_xI (Coq_xO (Coq_xI (Coq_xI (Coq_xO (Coq_xI
    Coq_xH))))))) :: ((Npos (Coq_xI (Coq_xO (Coq_xI (Coq_xO (Coq_xO (Coq_xI
    Coq_xH))))))) :: ((Npos (Coq_xI (Coq_xI (Coq_xO (Coq_xO (Coq_xI (Coq_xI
    Coq_xH))))))) :: [])))))))))))) :: ((((Npos (Coq_xI (Coq_xO (Coq_xI
    (Coq_xO (Coq_xI (Coq_xI Coq_xH))))))) :: ((Npos (Coq_xO (Coq_xI (Coq_xO
    (Coq_xO (Coq_xI (Coq_xI Coq_xH))))))) :: ((Npos (Coq_xO (Coq_xI (Coq_xI
    (Coq_xI (Coq_xO (Coq_xI Coq_xH))))))) :: ((Npos (Coq_xO (Coq_xI (Coq_xO
    (Coq_xI (Coq_xI Coq_xH)))))) :: ((Npos (Coq_xI (Coq_xI (Coq_xI (Coq_xI
    (Coq_xO (Coq_xI Coq_xH))))))) :: ((Npos (Coq_xI (Coq_xO (Coq_xO (Coq_xO
    (Coq_xO (Coq_xI Coq_xH))))))) :: ((Npos (Coq_xI (Coq_xI (Coq_xO (Coq_xO
    (Coq_xI (Coq_xI Coq_xH))))))) :: ((Npos (Coq_xI (Coq_xO (Coq_xO (Coq_xI
    (Coq_xO (Coq_xI Coq_xH))))))) :: ((Npos (Coq_xI (Coq_xI (Coq_xO (Coq_xO
    (Coq_xI (Coq_xI Coq_xH))))))) :: ((Npos (Coq_xO (Coq_xI (Coq_xO (Coq_xI
    (Coq_xI Coq_xH)))))) :: ((Npos (Coq_xO (Coq_xI (Coq_xI (Coq_xI (Coq_xO
    (Coq_xI Coq_xH))))))) :: ((Npos (Coq_xI (Coq_xO (Coq_xO (Coq_xO (Coq_xO
    (Coq_xI Coq_xH))))))) :: ((Npos (Coq_xI (Coq_xO (Coq_xI (Coq_xI (Coq_xO
    (Coq_xI Coq_xH))))))) :: ((Npos (Coq_xI (Coq_xO (Coq_xI (Coq_xO (Coq_xO
    (Coq_xI Coq_xH))))))) :: ((Npos (Coq_xI (Coq_xI (Coq_xO (Coq_xO (Coq_xI
    (Coq_xI Coq_xH))))))) :: ((Npos (Coq_xO (Coq_xI (Coq_xO (Coq_xI (Coq_xI
    Coq_xH)))))) :: ((Npos (Coq_xO (Coq_xO (Coq_xI (Coq_xO (Coq_xI (Coq_xI
    Coq_xH))))))) :: ((Npos (Coq_xI (Coq_xI (Coq_xO (Coq_xO (Coq_xO (Coq_xI
    Coq_xH))))))) :: ((Npos (Coq_xO (Coq_xI (Coq_xO (Coq_xI (Coq_xI
    Coq_xH)))))) :: ((Npos (Coq_xI (Coq_xI (Coq_xI (Coq_xI (Coq_xO (Coq_xI
    Coq_xH))))))) :: ((Npos (Coq_xO (Coq_xO (Coq_xO (Coq_xO (Coq_xI (Coq_xI
    Coq_xH))))))) :: ((Npos (Coq_xI (Coq_xO (Coq_xI (Coq_xO (Coq_xO (Coq_xI
    Coq_xH))))))) :: ((Npos (Coq_xO (Coq_xI (Coq_xI (Coq_xI (Coq_xO (Coq_xI
    Coq_xH))))))) :: ((Npos (Coq_xO (Coq_xO (Coq_xI (Coq_xO (Coq_xO (Coq_xI
    Coq_xH))))))) :: ((Npos (Coq_xI (Coq_xI (Coq_xI (Coq_xI (Coq_xO (Coq_xI
    Coq_xH))))))) :: ((Npos (Coq_xI (Coq_xI (Coq_xO (Coq_xO (Coq_xO (Coq_xI
    Coq_xH))))))) :: ((Npos (Coq_xI (Coq_xO (Coq_xI (Coq_xO (Coq_xI (Coq_xI
    Coq_xH))))))) :: ((Npos (Coq_xI (Coq_xO (Coq_xI (Coq_xI (Coq_xO (Coq_xI
    Coq_xH))))))) :: ((Npos (Coq_xI (Coq_xO (Coq_xI (Coq_xO (Coq_xO (Coq_xI
    Coq_xH))))))) :: ((Npos (Coq_xO (Coq_xI (Coq_xI (Coq_xI (Coq_xO (Coq_xI
    Coq_xH))))))) :: ((Npos (Coq_xO (Coq_xO (Coq_xI (Coq_xO (Coq_xI (Coq_xI
    Coq_xH))))))) :: ((Npos (Coq_xO (Coq_xI (Coq_xO (Coq_xI (Coq_xI
    Coq_xH)))))) :: ((Npos (Coq_xO (Coq_xO (Coq_xO (Coq_xI (Coq_xI (Coq_xI
    Coq_xH))))))) :: ((Npos (Coq_xI (Coq_xO (Coq_xI (Coq_xI (Coq_xO (Coq_xI
    Coq_xH))))))) :: ((Npos (Coq_xO (Coq_xO (Coq_xI (Coq_xI (Coq_xO (Coq_xI
    Coq_xH))))))) :: ((Npos (Coq_xO (Coq_xI (Coq_xI (Coq_xI (Coq_xO (Coq_xI
    Coq_xH))))))) :: ((Npos (Coq_xI (Coq_xI (Coq_xO (Coq_xO (Coq_xI (Coq_xI
    Coq_xH))))))) :: ((Npos (Coq_xO (Coq_xI (Coq_xO (Coq_xI (Coq_xI
    Coq_xH)))))) :: ((Npos (Coq_xO (Coq_xO (Coq_xO (Coq_xO (Coq_xI (Coq_xI
    Coq_xH))))))) :: ((Npos (Coq_xO (Coq_xI (Coq_xO (Coq_xO (Coq_xI (Coq_xI
    Coq_xH))))))) :: ((Npos (Coq_xI (Coq_xO (Coq_xI (Coq_xO (Coq_xO (Coq_xI
    Coq_xH))))))) :: ((Npos (Coq_xI (Coq_xI (Coq_xO (Coq_xO (Coq_xI (Coq_xI
    Coq_xH))))))) :: ((Npos (Coq_xI (Coq_xO (Coq_xI (Coq_xO (Coq_xO (Coq_xI
    Coq_xH))))))) :: ((Npos (Coq_xO (Coq_xI (Coq_xI (Coq_xI (Coq_xO (Coq_xI
    Coq_xH))))))) :: ((Npos (Coq_xO (Coq_xO (Coq_xI (Coq_xO (Coq_xI (Coq_xI
    Coq_xH))))))) :: ((Npos (Coq_xI (Coq_xO (Coq_xO (Coq_xO (Coq_xO (Coq_xI
    Coq_xH))))))) :: ((Npos (Coq_xO (Coq_xO (Coq_xI (Coq_xO (Coq_xI (Coq_xI
    Coq_xH))))))) :: ((Npos (Coq_xI (Coq_xO (Coq_xO (Coq_xI (Coq_xO (Coq_xI
    Coq_xH))))))) :: ((Npos (Coq_xI (Coq_xI (Coq_xI (Coq_xI (Coq_xO (Coq_xI
    Coq_xH))))))) :: ((Npos (Coq_xO (Coq_xI (Coq_xI (Coq_xI (Coq_xO (Coq_xI
    Coq_xH))))))) :: ((Npos (Coq_xO (Coq_xI (Coq_xO (Coq_xI (Coq_xI
    Coq_xH)))))) :: ((Npos (Coq_xI (Coq_xO (Coq_xO (Coq_xO (Coq_xI
    Coq_xH)))))) :: ((Npos (Coq_xO (Coq_xI (Coq_xI (Coq_xI (Coq_xO
    Coq_xH)))))) :: ((Npos (Coq_xO (Coq_xO (Coq_xO (Coq_xO (Coq_xI
    Coq_xH)))))) :: [])))))))))))))))))))))))))))))))))))))))))))))))))))))),
    ((Npos (Coq_xO (Coq_xO (Coq_xO (Coq_xO (Coq_xI (Coq_xI
    Coq_xH))))))) :: ((Npos (Coq_xO (Coq_xI (Coq_xO (Coq_xO (Coq_xI (Coq_xI
    Coq_xH))))))) :: ((Npos (Coq_xI (Coq_xO (Coq_xI (Coq_xO (Coq_xO (Coq_xI
    Coq_xH))))))) :: ((Npos (Coq_xI (Coq_xI (Coq_xO (Coq_xO (Coq_xI (Coq_xI
    Coq_xH))))))) :: ((Npos (Coq_xI (Coq_xO (Coq_xI (Coq_xO (Coq_xO (Coq_xI
    Coq_xH))))))) :: ((Npos (Coq_xO (Coq_xI (Coq_xI (Coq_xI (Coq_xO (Coq_xI
    Coq_xH))))))) :: ((Npos (Coq_xO (Coq_xO (Coq_xI (Coq_xO (Coq_xI (Coq_xI
    Coq_xH))))))) :: ((Npos (Coq_xI (Coq_xO (Coq_xO (Coq_xO (Coq_xO (Coq_xI
    Coq_xH))))))) :: ((Npos (Coq_xO (Coq_xO (Coq_xI (Coq_xO (Coq_xI (Coq_xI
    Coq_xH))))))) :: ((Npos (Coq_xI (Coq_xO (Coq_xO (Coq_xI (Coq_xO (Coq_xI
    Coq_xH))))))) :: ((Npos (Coq_xI (Coq_xI (Coq_xI (Coq_xI (Coq_xO (Coq_xI
    Coq_xH))))))) :: ((Npos (Coq_xO (Coq_xI (Coq_xI (Coq_xI (Coq_xO (Coq_xI
    Coq_xH))))))) :: ((Npos (Coq_xI (Coq_xO (Coq_xI (Coq_xI (Coq_xO
    Coq_xH)))))) :: ((Npos (Coq_xO (Coq_xO (Coq_xO (Coq_xO (Coq_xI (Coq_xI
    Coq_xH))))))) :: ((Npos (Coq_xI (Coq_xO (Coq_xO (Coq_xO (Coq_xO (Coq_xI
    Coq_xH))))))) :: ((Npos (Coq_xI (Coq_xI (Coq_xI (Coq_xO (Coq_xO (Coq_xI
    Coq_xH))))))) :: ((Npos (Coq_xI (Coq_xO (Coq_xI (Coq_xO (Coq_xO (Coq_xI
    Coq_xH))))))) :: ((Npos (Coq_xI (Coq_xO (Coq_xI (Coq_xI (Coq_xO
    Coq_xH)))))) :: ((Npos (Coq_xO (Coq_xO (Coq_xI (Coq_xI (Coq_xO (Coq_xI
    Coq_xH))))))) :: ((Npos (Coq_xI (Coq_xO (Coq_xO (Coq_xO (Coq_xO (Coq_xI
    Coq_xH))))))) :: ((Npos (Coq_xI (Coq_xO (Coq_xO (Coq_xI (Coq_xI (Coq_xI
    Coq_xH))))))) :: ((Npos (Coq_xI (Coq_xI (Coq_xI (Coq_xI (Coq_xO (Coq_xI
    Coq_xH))))))) :: ((Npos (Coq_xI (Coq_xO (Coq_xI (Coq_xO (Coq_xI (Coq_xI
    Coq_xH))))))) :: ((Npos (Coq_xO (Coq_xO (Coq_xI (Coq_xO (Coq_xI (Coq_xI
    Coq_xH))))))) :: ((Npos (Coq_xI (Coq_xO (Coq_xI (Coq_xI (Coq_xO
    Coq_xH)))))) :: ((Npos (Coq_xO (Coq_xI (Coq_xI (Coq_xI (Coq_xO (Coq_xI
    Coq_xH))))))) :: ((Npos (Coq_xI (Coq_xO (Coq_xO (Coq_xO (Coq_xO (Coq_xI
    Coq_xH))))))) :: ((Npos (Coq_xI (Coq_xO (Coq_xI (Coq_xI (Coq_xO (Coq_xI
    Coq_xH))))))) :: ((Npos (Coq_xI (Coq_xO (Coq_xI (Coq_xO (Coq_xO (Coq_xI
    Coq_xH))))))) :: [])))))))))))))))))))))))))))))) :: ((((Npos (Coq_xI
    (Coq_xO (Coq_xI (Coq_xO (Coq_xI (Coq_xI Coq_xH))))))) :: ((Npos (Coq_xO
    (Coq_xI (Coq_xO (Coq_xO (Coq_xI (Coq_xI Coq_xH))))))) :: ((Npos (Coq_xO
    (Coq_xI (Coq_xI (Coq_xI (Coq_xO (Coq_xI Coq_xH))))))) :: ((Npos (Coq_xO
    (Coq_xI (Coq_xO (Coq_xI (Coq_xI Coq_xH)))))) :: ((Npos (Coq_xI (Coq_xI
    (Coq_xI (Coq_xI (Coq_xO (Coq_xI Coq_xH))))))) :: ((Npos (Coq_xI (Coq_xO
    (Coq_xO (Coq_xO (Coq_xO (Coq_xI Coq_xH))))))) :: ((Npos (Coq_xI (Coq_xI
    (Coq_xO (Coq_xO (Coq_xI (Coq_xI Coq_xH))))))) :: ((Npos (Coq_xI (Coq_xO
    (Coq_xO (Coq_xI (Coq_xO (Coq_xI Coq_xH))))))) :: ((Npos (Coq_xI (Coq_xI
    (Coq_xO (Coq_xO (Coq_xI (Coq_xI Coq_xH))))))) :: ((Npos (Coq_xO (Coq_xI
    (Coq_xO (Coq_xI (Coq_xI Coq_xH)))))) :: ((Npos (Coq_xO (Coq_xI (Coq_xI
    (Coq_xI (Coq_xO (Coq_xI Coq_xH))))))) :: ((Npos (Coq_xI (Coq_xO (Coq_xO
    (Coq_xO (Coq_xO (Coq_xI Coq_xH))))))) :: ((Npos (Coq_xI (Coq_xO (Coq_xI
    (Coq_xI (Coq_xO (Coq_xI Coq_xH))))))) :: ((Npos (Coq_xI (Coq_xO (Coq_xI
    (Coq_xO (Coq_xO (Coq_xI Coq_xH))))))) :: ((Npos (Coq_xI (Coq_xI (Coq_xO
    (Coq_xO (Coq_xI (Coq_xI Coq_xH))))))) :: ((Npos (Coq_xO (Coq_xI (Coq_xO
    (Coq_xI (Coq_xI Coq_xH)))))) :: ((Npos (Coq_xO (Coq_xO (Coq_xI (Coq_xO
    (Coq_xI (Coq_xI Coq_xH))))))) :: ((Npos (Coq_xI (Coq_xI (Coq_xO (Coq_xO
    (Coq_xO (Coq_xI Coq_xH))))))) :: ((Npos (Coq_xO (Coq_xI (Coq_xO (Coq_xI
    (Coq_xI Coq_xH)))))) :: ((Npos (Coq_xI (Coq_xI (Coq_xI (Coq_xI (Coq_xO
    (Coq_xI Coq_xH))))))) :: ((Npos (Coq_xO (Coq_xO (Coq_xO (Coq_xO (Coq_xI
    (Coq_xI Coq_xH))))))) :: ((Npos (Coq_xI (Coq_xO (Coq_xI (Coq_xO (Coq_xO
    (Coq_xI Coq_xH))))))) :: ((Npos (Coq_xO (Coq_xI (Coq_xI (Coq_xI (Coq_xO
    (Coq_xI Coq_xH))))))) :: ((Npos (Coq_xO (Coq_xO (Coq_xI (Coq_xO (Coq_xO
    (Coq_xI Coq_xH))))))) :: ((Npos (Coq_xI (Coq_xI (Coq_xI (Coq_xI (Coq_xO
    (Coq_xI Coq_xH))))))) :: ((Npos (Coq_xI (Coq_xI (Coq_xO (Coq_xO (Coq_xO
    (Coq_xI Coq_xH))))))) :: ((Npos (Coq_xI (Coq_xO (Coq_xI (Coq_xO (Coq_xI
    (Coq_xI Coq_xH))))))) :: ((Npos (Coq_xI (Coq_xO (Coq_xI (Coq_xI (Coq_xO
    (Coq_xI Coq_xH))))))) :: ((Npos (Coq_xI (Coq_xO (Coq_xI (Coq_xO (Coq_xO
    (Coq_xI Coq_xH))))))) :: ((Npos (Coq_xO (Coq_xI (Coq_xI (Coq_xI (Coq_xO
    (Coq_xI Coq_xH))))))) :: ((Npos (Coq_xO (Coq_xO (Coq_xI (Coq_xO (Coq_xI
    (Coq_xI Coq_xH))))))) :: ((Npos (Coq_xO (Coq_xI (Coq_xO (Coq_xI (Coq_xI
    Coq_xH)))))) :: ((Npos (Coq_xO (Coq_xO (Coq_xO (Coq_xI (Coq_xI (Coq_xI
    Coq_xH))))))) :: ((Npos (Coq_xI (Coq_xO (Coq_xI (Coq_xI (Coq_xO (Coq_xI
    Coq_xH))))))) :: ((Npos (Coq_xO (Coq_xO (Coq_xI (Coq_xI (Coq_xO (Coq_xI
    Coq_xH))))))) :: ((Npos (Coq_xO (Coq_xI (Coq_xI (Coq_xI (Coq_xO (Coq_xI
    Coq_xH))))))) :: ((Npos (Coq_xI (Coq_xI (Coq_xO (Coq_xO (Coq_xI (Coq_xI
    Coq_xH))))))) :: ((Npos (Coq_xO (Coq_xI (Coq_xO (Coq_xI (Coq_xI
    Coq_xH)))))) :: ((Npos (Coq_xO (Coq_xO (Coq_xO (Coq_xO (Coq_xI (Coq_xI
    Coq_xH))))))) :: ((Npos (Coq_xO (Coq_xI (Coq_xO (Coq_xO (Coq_xI (Coq_xI
    Coq_xH))))))) :: ((Npos (Coq_xI (Coq_xO (Coq_xI (Coq_xO (Coq_xO (Coq_xI
    Coq_xH))))))) :: ((Npos (Coq_xI (Coq_xI (Coq_xO (Coq_xO (Coq_xI (Coq_xI
    Coq_xH))))))) :: ((Npos (Coq_xI (Coq_xO (Coq_xI (Coq_xO (Coq_xO (Coq_xI
    Coq_xH))))))) :: ((Npos (Coq_xO (Coq_xI (Coq_xI (Coq_xI (Coq_xO (Coq_xI
    Coq_xH))))))) :: ((Npos (Coq_xO (Coq_xO (Coq_xI (Coq_xO (Coq_xI (Coq_xI
    Coq_xH))))))) :: ((Npos (Coq_xI (Coq_xO (Coq_xO (Coq_xO (Coq_xO (Coq_xI
    Coq_xH))))))) :: ((Npos (Coq_xO (Coq_xO (Coq_xI (Coq_xO (Coq_xI (Coq_xI
    Coq_xH))))))) :: ((Npos (Coq_xI (Coq_xO (Coq_xO (Coq_xI (Coq_xO (Coq_xI
    Coq_xH))))))) :: ((Npos (Coq_xI (Coq_xI (Coq_xI (Coq_xI (Coq_xO (Coq_xI
    Coq_xH))))))) :: ((Npos (Coq_xO (Coq_xI (Coq_xI (Coq_xI (Coq_xO (Coq_xI
    Coq_xH))))))) :: ((Npos (Coq_xO (Coq_xI (Coq_xO (Coq_xI (Coq_xI
    Coq_xH)))))) :: ((Npos (Coq_xI (Coq_xO (Coq_xO (Coq_xO (Coq_xI
    Coq_xH)))))) :: ((Npos (Coq_xO (Coq_xI (Coq_xI (Coq_xI (Coq_xO
    Coq_xH)))))) :: ((Npos (Coq_xO (Coq_xO (Coq_xO (Coq_xO (Coq_xI
    Coq_xH)))))) :: [])))))))))))))))))))))))))))))))))))))))))))))))))))))),
    ((Npos (Coq_xI (Coq_xI (Coq_xO (Coq_xO (Coq_xI (Coq_xI
    Coq_xH))))))) :: ((Npos (Coq_xO (Coq_xO (Coq_xI (Coq_xO (Coq_xI (Coq_xI
    Coq_xH))))))) :: ((Npos (Coq_xI (Coq_xO (Coq_xO (Coq_xI (Coq_xI (Coq_xI
    Coq_xH))))))) :: ((Npos (Coq_xO (Coq_xO (Coq_xI (Coq_xI (Coq_xO (Coq_xI
    Coq_xH))))))) :: ((Npos (Coq_xI (Coq_xO (Coq_xI (Coq_xO (Coq_xO (Coq_xI
    Coq_xH))))))) :: ((Npos (Coq_xI (Coq_xO (Coq_xI (Coq_xI (Coq_xO
    Coq_xH)))))) :: ((Npos (Coq_xO (Coq_xI (Coq_xI (Coq_xI (Coq_xO (Coq_xI
    Coq_xH))))))) :: ((Npos (Coq_xI (Coq_xO (Coq_xO (Coq_xO (Coq_xO (Coq_xI
    Coq_xH))))))) :: ((Npos (Coq_xI (Coq_xO (Coq_xI (Coq_xI (Coq_xO (Coq_xI
    Coq_xH))))))) :: ((Npos (Coq_xI (Coq_xO (Coq_xI (Coq_xO (Coq_xO (Coq_xI
    Coq_xH))))))) :: []))))))))))) :: ((((Npos (Coq_xI (Coq_xO (Coq_xI
    (Coq_xO (Coq_xI (Coq_xI Coq_xH))))))) :: ((Npos (Coq_xO (Coq_xI (Coq_xO
    (Coq_xO (Coq_xI (Coq_xI Coq_xH))))))) :: ((Npos (Coq_xO (Coq_xI (Coq_xI
    (Coq_xI (Coq_xO (Coq_xI Coq_xH))))))) :: ((Npos (Coq_xO (Coq_xI (Coq_xO
    (Coq_xI (Coq_xI Coq_xH)))))) :: ((Npos (Coq_xI (Coq_xI (Coq_xI (Coq_xI
    (Coq_xO (Coq_xI Coq_xH))))))) :: ((Npos (Coq_xI (Coq_xO (Coq_xO (Coq_xO
    (Coq_xO (Coq_xI Coq_xH))))))) :: ((Npos (Coq_xI (Coq_xI (Coq_xO (Coq_xO
    (Coq_xI (Coq_xI Coq_xH))))))) :: ((Npos (Coq_xI (Coq_xO (Coq_xO (Coq_xI
    (Coq_xO (Coq_xI Coq_xH))))))) :: ((Npos (Coq_xI (Coq_xI (Coq_xO (Coq_xO
    (Coq_xI (Coq_xI Coq_xH))))))) :: ((Npos (Coq_xO (Coq_xI (Coq_xO (Coq_xI
    (Coq_xI Coq_xH)))))) :: ((Npos (Coq_xO (Coq_xI (Coq_xI (Coq_xI (Coq_xO
    (Coq_xI Coq_xH))))))) :: ((Npos (Coq_xI (Coq_xO (Coq_xO (Coq_xO (Coq_xO
    (Coq_xI Coq_xH))))))) :: ((Npos (Coq_xI (Coq_xO (Coq_xI (Coq_xI (Coq_xO
    (Coq_xI Coq_xH))))))) :: ((Npos (Coq_xI (Coq_xO (Coq_xI (Coq_xO (Coq_xO
    (Coq_xI Coq_xH))))))) :: ((Npos (Coq_xI (Coq_xI (Coq_xO (Coq_xO (Coq_xI
    (Coq_xI Coq_xH))))))) :: ((Npos (Coq_xO (Coq_xI (Coq_xO (Coq_xI (Coq_xI
    Coq_xH)))))) :: ((Npos (Coq_xO (Coq_xO (Coq_xI (Coq_xO (Coq_xI (Coq_xI
    Coq_xH))))))) :: ((Npos (Coq_xI (Coq_xI (Coq_xO (Coq_xO (Coq_xO (Coq_xI
    Coq_xH))))))) :: ((Npos (Coq_xO (Coq_xI (Coq_xO (Coq_xI (Coq_xI
    Coq_xH)))))) :: ((Npos (Coq_xI (Coq_xI (Coq_xI (Coq_xI (Coq_xO (Coq_xI
    Coq_xH))))))) :: ((Npos (Coq_xO (Coq_xO (Coq_xO (Coq_xO (Coq_xI (Coq_xI
    Coq_xH))))))) :: ((Npos (Coq_xI (Coq_xO (Coq_xI (Coq_xO (Coq_xO (Coq_xI
    Coq_xH))))))) :: ((Npos (Coq_xO (Coq_xI (Coq_xI (Coq_xI (Coq_xO (Coq_xI
    Coq_xH))))))) :: ((Npos (Coq_xO (Coq_xO (Coq_xI (Coq_xO (Coq_xO (Coq_xI
    Coq_xH))))))) :: ((Npos (Coq_xI (Coq_xI (Coq_xI (Coq_xI (Coq_xO (Coq_xI
    Coq_xH))))))) :: ((Npos (Coq_xI (Coq_xI (Coq_xO (Coq_xO (Coq_xO (Coq_xI
    Coq_xH))))))) :: ((Npos (Coq_xI (Coq_xO (Coq_xI (Coq_xO (Coq_xI (Coq_xI
    Coq_xH))))))) :: ((Npos (Coq_xI (Coq_xO (Coq_xI (Coq_xI (Coq_xO (Coq_xI
    Coq_xH))))))) :: ((Npos (Coq_xI (Coq_xO (Coq_xI (Coq_xO (Coq_xO (Coq_xI
    Coq_xH))))))) :: ((Npos (Coq_xO (Coq_xI (Coq_xI (Coq_xI (Coq_xO (Coq_xI
    Coq_xH))))))) :: ((Npos (Coq_xO (Coq_xO (Coq_xI (Coq_xO (Coq_xI (Coq_xI
    Coq_xH))))))) :: ((Npos (Coq_xO (Coq_xI (Coq_xO (Coq_xI (Coq_xI
    Coq_xH)))))) :: ((Npos (Coq_xO (Coq_xO (Coq_xO (Coq_xI (Coq_xI (Coq_xI
    Coq_xH))))))) :: ((Npos (Coq_xI (Coq_xO (Coq_xI (Coq_xI (Coq_xO (Coq_xI
    Coq_xH))))))) :: ((Npos (Coq_xO (Coq_xO (Coq_xI (Coq_xI (Coq_xO (Coq_xI
    Coq_xH))))))) :: ((Npos (Coq_xO (Coq_xI (Coq_xI (Coq_xI (Coq_xO (Coq_xI
    Coq_xH))))))) :: ((Npos (Coq_xI (Coq_xI (Coq_xO (Coq_xO (Coq_xI (Coq_xI
    Coq_xH))))))) :: ((Npos (Coq_xO (Coq_xI (Coq_xO (Coq_xI (Coq_xI
    Coq_xH)))))) :: ((Npos (Coq_xI (Coq_xI (Coq_xO (Coq_xO (Coq_xI (Coq_xI
    Coq_xH))))))) :: ((Npos (Coq_xO (Coq_xO (Coq_xI (Coq_xO (Coq_xI (Coq_xI
    Coq_xH))))))) :: ((Npos (Coq_xI (Coq_xO (Coq_xO (Coq_xI (Coq_xI (Coq_xI
    Coq_xH))))))) :: ((Npos (Coq_xO (Coq_xO (Coq_xI (Coq_xI (Coq_xO (Coq_xI
    Coq_xH))))))) :: ((Npos (Coq_xI (Coq_xO (Coq_xI (Coq_xO (Coq_xO (Coq_xI
    Coq_xH))))))) :: ((Npos (Coq_xO (Coq_xI (Coq_xO (Coq_xI (Coq_xI
    Coq_xH)))))) :: ((Npos (Coq_xI (Coq_xO (Coq_xO (Coq_xO (Coq_xI
    Coq_xH)))))) :: ((Npos (Coq_xO (Coq_xI (Coq_xI (Coq_xI (Coq_xO
    Coq_xH)))))) :: ((Npos (Coq_xO (Coq_xO (Coq_xO (Coq_xO (Coq_xI
    Coq_xH)))))) :: []))))))))))))))))))))))))))))))))))))))))))))))), ((Npos
    (Coq_xI (Coq_xO (Coq_xO (Coq_xO (Coq_xO (Coq_xI Coq_xH))))))) :: ((Npos
    (Coq_xO (Coq_xO (Coq_xO (Coq_xO (Coq_xI (Coq_xI Coq_xH))))))) :: ((Npos
    (Coq_xO (Coq_xO (Coq_xO (Coq_xO (Coq_xI (Coq_xI Coq_xH))))))) :: ((Npos
    (Coq_xO (Coq_xO (Coq_xI (Coq_xI (Coq_xO (Coq_xI Coq_xH))))))) :: ((Npos
    (Coq_xI (Coq_xO (Coq_xO (Coq_xI (Coq_xI (Coq_xI Coq_xH))))))) :: ((Npos
    (Coq_xI (Coq_xO (Coq_xI (Coq_xI (Coq_xO Coq_xH)))))) :: ((Npos (Coq_xI
    (Coq_xI (Coq_xO (Coq_xO (Coq_xI (Coq_xI Coq_xH))))))) :: ((Npos (Coq_xO
    (Coq_xO (Coq_xI (Coq_xO (Coq_xI (Coq_xI Coq_xH))))))) :: ((Npos (Coq_xI
    (Coq_xO (Coq_xO (Coq_xI (Coq_xI (Coq_xI Coq_xH))))))) :: ((Npos (Coq_xO
    (Coq_xO (Coq_xI (Coq_xI (Coq_xO (Coq_xI Coq_xH))))))) :: ((Npos (Coq_xI
    (Coq_xO (Coq_xI (Coq_xO (Coq_xO (Coq_xI Coq_xH))))))) :: ((Npos (Coq_xI
    (Coq_xO (Coq_xI (Coq_xI (Coq_xO Coq_xH)))))) :: ((Npos (Coq_xO (Coq_xI
    (Coq_xI (Coq_xI (Coq_xO (Coq_xI Coq_xH))))))) :: ((Npos (Coq_xI (Coq_xO
    (Coq_xO (Coq_xO (Coq_xO (Coq_xI Coq_xH))))))) :: ((Npos (Coq_xI (Coq_xO
    (Coq_xI (Coq_xI (Coq_xO (Coq_xI Coq_xH))))))) :: ((Npos (Coq_xI (Coq_xO
    (Coq_xI (Coq_xO (Coq_xO (Coq_xI
    Coq_xH))))))) :: []))))))))))))))))) :: ((((Npos (Coq_xI (Coq_xO (Coq_xI
    (Coq_xO (Coq_xI (Coq_xI Coq_xH))))))) :: ((Npos (Coq_xO (Coq_xI (Coq_xO
    (Coq_xO (Coq_xI (Coq_xI Coq_xH))))))) :: ((Npos (Coq_xO (Coq_xI (Coq_xI
    (Coq_xI (Coq_xO (Coq_xI Coq_xH))))))) :: ((Npos (Coq_xO (Coq_xI (Coq_xO
    (Coq_xI (Coq_xI Coq_xH)))))) :: ((Npos (Coq_xI (Coq_xI (Coq_xI (Coq_xI
    (Coq_xO (Coq_xI Coq_xH))))))) :: ((Npos (Coq_xI (Coq_xO (Coq_xO (Coq_xO
    (Coq_xO (Coq_xI Coq_xH))))))) :: ((Npos (Coq_xI (Coq_xI (Coq_xO (Coq_xO
    (Coq_xI (Coq_xI Coq_xH))))))) :: ((Npos (Coq_xI (Coq_xO (Coq_xO (Coq_xI
    (Coq_xO (Coq_xI Coq_xH))))))) :: ((Npos (Coq_xI (Coq_xI (Coq_xO (Coq_xO
    (Coq_xI (Coq_xI Coq_xH))))))) :: ((Npos (Coq_xO (Coq_xI (Coq_xO (Coq_xI
    (Coq_xI Coq_xH)))))) :: ((Npos (Coq_xO (Coq_xI (Coq_xI (Coq_xI (Coq_xO
    (Coq_xI Coq_xH))))))) :: ((Npos (Coq_xI (Coq_xO (Coq_xO (Coq_xO (Coq_xO
    (Coq_xI Coq_xH))))))) :: ((Npos (Coq_xI (Coq_xO (Coq_xI (Coq_xI (Coq_xO
    (Coq_xI Coq_xH))))))) :: ((Npos (Coq_xI (Coq_xO (Coq_xI (Coq_xO (Coq_xO
    (Coq_xI Coq_xH))))))) :: ((Npos (Coq_xI (Coq_xI (Coq_xO (Coq_xO (Coq_xI
    (Coq_xI Coq_xH))))))) :: ((Npos (Coq_xO (Coq_xI (Coq_xO (Coq_xI (Coq_xI
    Coq_xH)))))) :: ((Npos (Coq_xO (Coq_xO (Coq_xI (Coq_xO (Coq_xI (Coq_xI
    Coq_xH))))))) :: ((Npos (Coq_xI (Coq_xI (Coq_xO (Coq_xO (Coq_xO (Coq_xI
    Coq_xH))))))) :: ((Npos (Coq_xO (Coq_xI (Coq_xO (Coq_xI (Coq_xI
    Coq_xH)))))) :: ((Npos (Coq_xI (Coq_xI (Coq_xI (Coq_xI (Coq_xO (Coq_xI
    Coq_xH))))))) :: ((Npos (Coq_xO (Coq_xO (Coq_xO (Coq_xO (Coq_xI (Coq_xI
    Coq_xH))))))) :: ((Npos (Coq_xI (Coq_xO (Coq_xI (Coq_xO (Coq_xO (Coq_xI
    Coq_xH))))))) :: ((Npos (Coq_xO (Coq_xI (Coq_xI (Coq_xI (Coq_xO (Coq_xI
    Coq_xH))))))) :: ((Npos (Coq_xO (Coq_xO (Coq_xI (Coq_xO (Coq_xO (Coq_xI
    Coq_xH))))))) :: ((Npos (Coq_xI (Coq_xI (Coq_xI (Coq_xI (Coq_xO (Coq_xI
    Coq_xH))))))) :: ((Npos (Coq_xI (Coq_xI (Coq_xO (Coq_xO (Coq_xO (Coq_xI
    Coq_xH))))))) :: ((Npos (Coq_xI (Coq_xO (Coq_xI (Coq_xO (Coq_xI (Coq_xI
    Coq_xH))))))) :: ((Npos (Coq_xI (Coq_xO (Coq_xI (Coq_xI (Coq_xO (Coq_xI
    Coq_xH))))))) :: ((Npos (Coq_xI (Coq_xO (Coq_xI (Coq_xO (Coq_xO (Coq_xI
    Coq_xH))))))) :: ((Npos (Coq_xO (Coq_xI (Coq_xI (Coq_xI (Coq_xO (Coq_xI
    Coq_xH))))))) :: ((Npos (Coq_xO (Coq_xO (Coq_xI (Coq_xO (Coq_xI (Coq_xI
    Coq_xH))))))) :: ((Npos (Coq_xO (Coq_xI (Coq_xO (Coq_xI (Coq_xI
    Coq_xH)))))) :: ((Npos (Coq_xO (Coq_xO (Coq_xO (Coq_xI (Coq_xI (Coq_xI
    Coq_xH))))))) :: ((Npos (Coq_xI (Coq_xO (Coq_xI (Coq_xI (Coq_xO (Coq_xI
    Coq_xH))))))) :: ((Npos (Coq_xO (Coq_xO (Coq_xI (Coq_xI (Coq_xO (Coq_xI
    Coq_xH))))))) :: ((Npos (Coq_xO (Coq_xI (Coq_xI (Coq_xI (Coq_xO (Coq_xI
    Coq_xH))))))) :: ((Npos (Coq_xI (Coq_xI (Coq_xO (Coq_xO (Coq_xI (Coq_xI
    Coq_xH))))))) :: ((Npos (Coq_xO (Coq_xI (Coq_xO (Coq_xI (Coq_xI
    Coq_xH)))))) :: ((Npos (Coq_xI (Coq_xI (Coq_xO (Coq_xO (Coq_xI (Coq_xI
    Coq_xH))))))) :: ((Npos (Coq_xO (Coq_xO (Coq_xI (Coq_xO (Coq_xI (Coq_xI
    Coq_xH))))))) :: ((Npos (Coq_xI (Coq_xO (Coq_xO (Coq_xI (Coq_xI (Coq_xI
    Coq_xH))))))) :: ((Npos (Coq_xO (Coq_xO (Coq_xI (Coq_xI (Coq_xO (Coq_xI
    Coq_xH))))))) :: ((Npos (Coq_xI (Coq_xO (Coq_xI (Coq_xO (Coq_xO (Coq_xI
    Coq_xH))))))) :: ((Npos (Coq_xO (Coq_xI (Coq_xO (Coq_xI (Coq_xI
    Coq_xH)))))) :: ((Npos (Coq_xI (Coq_xO (Coq_xO (Coq_xO (Coq_xI
    Coq_xH)))))) :: ((Npos (Coq_xO (Coq_xI (Coq_xI (Coq_xI (Coq_xO
    Coq_xH)))))) :: ((Npos (Coq_xO (Coq_xO (Coq_xO (Coq_xO (Coq_xI
    Coq_xH)))))) :: []))))))))))))))))))))))))))))))))))))))))))))))), ((Npos
    (Coq_xO (Coq_xO (Coq_xI (Coq_xO (Coq_xO (Coq_xI Coq_xH))))))) :: ((Npos
    (Coq_xI (Coq_xO (Coq_xO (Coq_xO (Coq_xO (Coq_xI Coq_xH))))))) :: ((Npos
    (Coq_xO (Coq_xO (Coq_xI (Coq_xO (Coq_xI (Coq_xI Coq_xH))))))) :: ((Npos
    (Coq_xI (Coq_xO (Coq_xO (Coq_xO (Coq_xO (Coq_xI Coq_xH))))))) :: ((Npos
    (Coq_xI (Coq_xO (Coq_xI (Coq_xI (Coq_xO Coq_xH)))))) :: ((Npos (Coq_xI
    (Coq_xI (Coq_xO (Coq_xO (Coq_xI (Coq_xI Coq_xH))))))) :: ((Npos (Coq_xO
    (Coq_xO (Coq_xI (Coq_xO (Coq_xI (Coq_xI Coq_xH))))))) :: ((Npos (Coq_xI
    (Coq_xO (Coq_xO (Coq_xI (Coq_xI (Coq_xI Coq_xH))))))) :: ((Npos (Coq_xO
    (Coq_xO (Coq_xI (Coq_xI (Coq_xO (Coq_xI Coq_xH))))))) :: ((Npos (Coq_xI
    (Coq_xO (Coq_xI (Coq_xO (Coq_xO (Coq_xI Coq_xH))))))) :: ((Npos (Coq_xI
    (Coq_xO (Coq_xI (Coq_xI (Coq_xO Coq_xH)))))) :: ((Npos (Coq_xO (Coq_xI
    (Coq_xI (Coq_xI (Coq_xO (Coq_xI Coq_xH))))))) :: ((Npos (Coq_xI (Coq_xO
    (Coq_xO (Coq_xO (Coq_xO (Coq_xI Coq_xH))))))) :: ((Npos (Coq_xI (Coq_xO
    (Coq_xI (Coq_xI (Coq_xO (Coq_xI Coq_xH))))))) :: ((Npos (Coq_xI (Coq_xO
    (Coq_xI (Coq_xO (Coq_xO (Coq_xI
    Coq_xH))))))) :: [])))))))))))))))) :: ((((Npos (Coq_xI (Coq_xO (Coq_xI
    (Coq_xO (Coq_xI (Coq_xI Coq_xH))))))) :: ((Npos (Coq_xO (Coq_xI (Coq_xO
    (Coq_xO (Coq_xI (Coq_xI Coq_xH))))))) :: ((Npos (Coq_xO (Coq_xI (Coq_xI
    (Coq_xI (Coq_xO (Coq_xI Coq_xH))))))) :: ((Npos (Coq_xO (Coq_xI (Coq_xO
    (Coq_xI (Coq_xI Coq_xH)))))) :: ((Npos (Coq_xI (Coq_xI (Coq_xI (Coq_xI
    (Coq_xO (Coq_xI Coq_xH))))))) :: ((Npos (Coq_xI (Coq_xO (Coq_xO (Coq_xO
    (Coq_xO (Coq_xI Coq_xH))))))) :: ((Npos (Coq_xI (Coq_xI (Coq_xO (Coq_xO
    (Coq_xI (Coq_xI Coq_xH))))))) :: ((Npos (Coq_xI (Coq_xO (Coq_xO (Coq_xI
    (Coq_xO (Coq_xI Coq_xH))))))) :: ((Npos (Coq_xI (Coq_xI (Coq_xO (Coq_xO
    (Coq_xI (Coq_xI Coq_xH))))))) :: ((Npos (Coq_xO (Coq_xI (Coq_xO (Coq_xI
    (Coq_xI Coq_xH)))))) :: ((Npos (Coq_xO (Coq_xI (Coq_xI (Coq_xI (Coq_xO
    (Coq_xI Coq_xH))))))) :: ((Npos (Coq_xI (Coq_xO (Coq_xO (Coq_xO (Coq_xO
    (Coq_xI Coq_xH))))))) :: ((Npos (Coq_xI (Coq_xO (Coq_xI (Coq_xI (Coq_xO
    (Coq_xI Coq_xH))))))) :: ((Npos (Coq_xI (Coq_xO (Coq_xI (Coq_xO (Coq_xO
    (Coq_xI Coq_xH))))))) :: ((Npos (Coq_xI (Coq_xI (Coq_xO (Coq_xO (Coq_xI
    (Coq_xI Coq_xH))))))) :: ((Npos (Coq_xO (Coq_xI (Coq_xO (Coq_xI (Coq_xI
    Coq_xH)))))) :: ((Npos (Coq_xO (Coq_xO (Coq_xI (Coq_xO (Coq_xI (Coq_xI
    Coq_xH))))))) :: ((Npos (Coq_xI (Coq_xI (Coq_xO (Coq_xO (Coq_xO (Coq_xI
    Coq_xH))))))) :: ((Npos (Coq_xO (Coq_xI (Coq_xO (Coq_xI (Coq_xI
    Coq_xH)))))) :: ((Npos (Coq_xI (Coq_xI (Coq_xI (Coq_xI (Coq_xO (Coq_xI
    Coq_xH))))))) :: ((Npos (Coq_xO (Coq_xO (Coq_xO (Coq_xO (Coq_xI (Coq_xI
    Coq_xH))))))) :: ((Npos (Coq_xI (Coq_xO (Coq_xI (Coq_xO (Coq_xO (Coq_xI
    Coq_xH))))))) :: ((Npos (Coq_xO (Coq_xI (Coq_xI (Coq_xI (Coq_xO (Coq_xI
    Coq_xH))))))) :: ((Npos (Coq_xO (Coq_xO (Coq_xI (Coq_xO (Coq_xO (Coq_xI
    Coq_xH))))))) :: ((Npos (Coq_xI (Coq_xI (Coq_xI (Coq_xI (Coq_xO (Coq_xI
    Coq_xH))))))) :: ((Npos (Coq_xI (Coq_xI (Coq_xO (Coq_xO (Coq_xO (Coq_xI
    Coq_xH))))))) :: ((Npos (Coq_xI (Coq_xO (Coq_xI (Coq_xO (Coq_xI (Coq_xI
    Coq_xH))))))) :: ((Npos (Coq_xI (Coq_xO (Coq_xI (Coq_xI (Coq_xO (Coq_xI
    Coq_xH))))))) :: ((Npos (Coq_xI (Coq_xO (Coq_xI (Coq_xO (Coq_xO (Coq_xI
    Coq_xH))))))) :: ((Npos (Coq_xO (Coq_xI (Coq_xI (Coq_xI (Coq_xO (Coq_xI
    Coq_xH))))))) :: ((Npos (Coq_xO (Coq_xO (Coq_xI (Coq_xO (Coq_xI (Coq_xI
    Coq_xH))))))) :: ((Npos (Coq_xO (Coq_xI (Coq_xO (Coq_xI (Coq_xI
    Coq_xH)))))) :: ((Npos (Coq_xO (Coq_xO (Coq_xO (Coq_xI (Coq_xI (Coq_xI
    Coq_xH))))))) :: ((Npos (Coq_xI (Coq_xO (Coq_xI (Coq_xI (Coq_xO (Coq_xI
    Coq_xH))))))) :: ((Npos (Coq_xO (Coq_xO (Coq_xI (Coq_xI (Coq_xO (Coq_xI
    Coq_xH))))))) :: ((Npos (Coq_xO (Coq_xI (Coq_xI (Coq_xI (Coq_xO (Coq_xI
    Coq_xH))))))) :: ((Npos (Coq_xI (Coq_xI (Coq_xO (Coq_xO (Coq_xI (Coq_xI
    Coq_xH))))))) :: ((Npos (Coq_xO (Coq_xI (Coq_xO (Coq_xI (Coq_xI
    Coq_xH)))))) :: ((Npos (Coq_xI (Coq_xI (Coq_xO (Coq_xO (Coq_xI (Coq_xI
    Coq_xH))))))) :: ((Npos (Coq_xO (Coq_xO (Coq_xI (Coq_xO (Coq_xI (Coq_xI
    Coq_xH))))))) :: ((Npos (Coq_xI (Coq_xO (Coq_xO (Coq_xI (Coq_xI (Coq_xI
    Coq_xH))))))) :: ((Npos (Coq_xO (Coq_xO (Coq_xI (Coq_xI (Coq_xO (Coq_xI
    Coq_xH))))))) :: ((Npos (Coq_xI (Coq_xO (Coq_xI (Coq_xO (Coq_xO (Coq_xI
    Coq_xH))))))) :: ((Npos (Coq_xO (Coq_xI (Coq_xO (Coq_xI (Coq_xI
    Coq_xH)))))) :: ((Npos (Coq_xI (Coq_xO (Coq_xO (Coq_xO (Coq_xI
    Coq_xH)))))) :: ((Npos (Coq_xO (Coq_xI (Coq_xI (Coq_xI (Coq_xO
    Coq_xH)))))) :: ((Npos (Coq_xO (Coq_xO (Coq_xO (Coq_xO (Coq_xI
    Coq_xH)))))) :: []))))))))))))))))))))))))))))))))))))))))))))))), ((Npos
    (Coq_xO (Coq_xO (Coq_xI (Coq_xI (Coq_xO (Coq_xI Coq_xH))))))) :: ((Npos
    (Coq_xI (Coq_xO (Coq_xI (Coq_xO (Coq_xO (Coq_xI Coq_xH))))))) :: ((Npos
    (Coq_xI (Coq_xO (Coq_xO (Coq_xO (Coq_xO (Coq_xI Coq_xH))))))) :: ((Npos
    (Coq_xO (Coq_xO (Coq_xI (Coq_xO (Coq_xO (Coq_xI Coq_xH))))))) :: ((Npos
    (Coq_xI (Coq_xO (Coq_xI (Coq_xO (Coq_xO (Coq_xI Coq_xH))))))) :: ((Npos
    (Coq_xO (Coq_xI (Coq_xO (Coq_xO (Coq_xI (Coq_xI Coq_xH))))))) :: ((Npos
    (Coq_xI (Coq_xO (Coq_xI (Coq_xI (Coq_xO Coq_xH)))))) :: ((Npos (Coq_xO
    (Coq_xO (Coq_xI (Coq_xO (Coq_xI (Coq_xI Coq_xH))))))) :: ((Npos (Coq_xI
    (Coq_xO (Coq_xI (Coq_xO (Coq_xO (Coq_xI Coq_xH))))))) :: ((Npos (Coq_xO
    (Coq_xO (Coq_xO (Coq_xI (Coq_xI (Coq_xI Coq_xH))))))) :: ((Npos (Coq_xO
    (Coq_xO (Coq_xI (Coq_xO (Coq_xI (Coq_xI Coq_xH))))))) :: ((Npos (Coq_xI
    (Coq_xO (Coq_xI (Coq_xI (Coq_xO Coq_xH)))))) :: ((Npos (Coq_xI (Coq_xI
    (Coq_xO (Coq_xO (Coq_xI (Coq_xI Coq_xH))))))) :: ((Npos (Coq_xO (Coq_xO
    (Coq_xI (Coq_xO (Coq_xI (Coq_xI Coq_xH))))))) :: ((Npos (Coq_xI (Coq_xO
    (Coq_xO (Coq_xI (Coq_xI (Coq_xI Coq_xH))))))) :: ((Npos (Coq_xO (Coq_xO
    (Coq_xI (Coq_xI (Coq_xO (Coq_xI Coq_xH))))))) :: ((Npos (Coq_xI (Coq_xO
    (Coq_xI (Coq_xO (Coq_xO (Coq_xI
    Coq_xH))))))) :: [])))))))))))))))))) :: ((((Npos (Coq_xI (Coq_xO (Coq_xI
    (Coq_xO (Coq_xI (Coq_xI Coq_xH))))))) :: ((Npos (Coq_xO (Coq_xI (Coq_xO
    (Coq_xO (Coq_xI (Coq_xI Coq_xH))))))) :: ((Npos (Coq_xO (Coq_xI (Coq_xI
    (Coq_xI (Coq_xO (Coq_xI Coq_xH))))))) :: ((Npos (Coq_xO (Coq_xI (Coq_xO
    (Coq_xI (Coq_xI Coq_xH)))))) :: ((Npos (Coq_xI (Coq_xI (Coq_xI (Coq_xI
    (Coq_xO (Coq_xI Coq_xH))))))) :: ((Npos (Coq_xI (Coq_xO (Coq_xO (Coq_xO
    (Coq_xO (Coq_xI Coq_xH))))))) :: ((Npos (Coq_xI (Coq_xI (Coq_xO (Coq_xO
    (Coq_xI (Coq_xI Coq_xH))))))) :: ((Npos (Coq_xI (Coq_xO (Coq_xO (Coq_xI
    (Coq_xO (Coq_xI Coq_xH))))))) :: ((Npos (Coq_xI (Coq_xI (Coq_xO (Coq_xO
    (Coq_xI (Coq_xI Coq_xH))))))) :: ((Npos (Coq_xO (Coq_xI (Coq_xO (Coq_xI
    (Coq_xI Coq_xH)))))) :: ((Npos (Coq_xO (Coq_xI (Coq_xI (Coq_xI (Coq_xO
    (Coq_xI Coq_xH))))))) :: ((Npos (Coq_xI (Coq_xO (Coq_xO (Coq_xO (Coq_xO
    (Coq_xI Coq_xH))))))) :: ((Npos (Coq_xI (Coq_xO (Coq_xI (Coq_xI (Coq_xO
    (Coq_xI Coq_xH))))))) :: ((Npos (Coq_xI (Coq_xO (Coq_xI (Coq_xO (Coq_xO
    (Coq_xI Coq_xH))))))) :: ((Npos (Coq_xI (Coq_xI (Coq_xO (Coq_xO (Coq_xI
    (Coq_xI Coq_xH))))))) :: ((Npos (Coq_xO (Coq_xI (Coq_xO (Coq_xI (Coq_xI
    Coq_xH)))))) :: ((Npos (Coq_xO (Coq_xO (Coq_xI (Coq_xO (Coq_xI (Coq_xI
    Coq_xH))))))) :: ((Npos (Coq_xI (Coq_xI (Coq_xO (Coq_xO (Coq_xO (Coq_xI
    Coq_xH))))))) :: ((Npos (Coq_xO (Coq_xI (Coq_xO (Coq_xI (Coq_xI
    Coq_xH)))))) :: ((Npos (Coq_xI (Coq_xI (Coq_xI (Coq_xI (Coq_xO (Coq_xI
    Coq_xH))))))) :: ((Npos (Coq_xO (Coq_xO (Coq_xO (Coq_xO (Coq_xI (Coq_xI
    Coq_xH))))))) :: ((Npos (Coq_xI (Coq_xO (Coq_xI (Coq_xO (Coq_xO (Coq_xI
    Coq_xH))))))) :: ((Npos (Coq_xO (Coq_xI (Coq_xI (Coq_xI (Coq_xO (Coq_xI
    Coq_xH))))))) :: ((Npos (Coq_xO (Coq_xO (Coq_xI (Coq_xO (Coq_xO (Coq_xI
    Coq_xH))))))) :: ((Npos (Coq_xI (Coq_xI (Coq_xI (Coq_xI (Coq_xO (Coq_xI
    Coq_xH))))))) :: ((Npos (Coq_xI (Coq_xI (Coq_xO (Coq_xO (Coq_xO (Coq_xI
    Coq_xH))))))) :: ((Npos (Coq_xI (Coq_xO (Coq_xI (Coq_xO (Coq_xI (Coq_xI
    Coq_xH))))))) :: ((Npos (Coq_xI (Coq_xO (Coq_xI (Coq_xI (Coq_xO (Coq_xI
    Coq_xH))))))) :: ((Npos (Coq_xI (Coq_xO (Coq_xI (Coq_xO (Coq_xO (Coq_xI
    Coq_xH))))))) :: ((Npos (Coq_xO (Coq_xI (Coq_xI (Coq_xI (Coq_xO (Coq_xI
    Coq_xH))))))) :: ((Npos (Coq_xO (Coq_xO (Coq_xI (Coq_xO (Coq_xI (Coq_xI
    Coq_xH))))))) :: ((Npos (Coq_xO (Coq_xI (Coq_xO (Coq_xI (Coq_xI
    Coq_xH)))))) :: ((Npos (Coq_xO (Coq_xO (Coq_xO (Coq_xI (Coq_xI (Coq_xI
    Coq_xH))))))) :: ((Npos (Coq_xI (Coq_xO (Coq_xI (Coq_xI (Coq_xO (Coq_xI
    Coq_xH))))))) :: ((Npos (Coq_xO (Coq_xO (Coq_xI (Coq_xI (Coq_xO (Coq_xI
    Coq_xH))))))) :: ((Npos (Coq_xO (Coq_xI (Coq_xI (Coq_xI (Coq_xO (Coq_xI
    Coq_xH))))))) :: ((Npos (Coq_xI (Coq_xI (Coq_xO (Coq_xO (Coq_xI (Coq_xI
    Coq_xH))))))) :: ((Npos (Coq_xO (Coq_xI (Coq_xO (Coq_xI (Coq_xI
    Coq_xH)))))) :: ((Npos (Coq_xI (Coq_xI (Coq_xO (Coq_xO (Coq_xI (Coq_xI
    Coq_xH))))))) :: ((Npos (Coq_xO (Coq_xO (Coq_xI (Coq_xO (Coq_xI (Coq_xI
    Coq_xH))))))) :: ((Npos (Coq_xI (Coq_xO (Coq_xO (Coq_xI (Coq_xI (Coq_xI
    Coq_xH))))))) :: ((Npos (Coq_xO (Coq_xO (Coq_xI (Coq_xI (Coq_xO (Coq_xI
    Coq_xH))))))) :: ((Npos (Coq_xI (Coq_xO (Coq_xI (Coq_xO (Coq_xO (Coq_xI
    Coq_xH))))))) :: ((Npos (Coq_xO (Coq_xI (Coq_xO (Coq_xI (Coq_xI
    Coq_xH)))))) :: ((Npos (Coq_xI (Coq_xO (Coq_xO (Coq_xO (Coq_xI
    Coq_xH)))))) :: ((Npos (Coq_xO (Coq_xI (Coq_xI (Coq_xI (Coq_xO
    Coq_xH)))))) :: ((Npos (Coq_xO (Coq_xO (Coq_xO (Coq_xO (Coq_xI
    Coq_xH)))))) :: []))))))))))))))))))))))))))))))))))))))))))))))), ((Npos
    (Coq_xO (Coq_xO (Coq_xI (Coq_xI (Coq_xO (Coq_xI Coq_xH))))))) :: ((Npos
    (Coq_xI (Coq_xO (Coq_xO (Coq_xI (Coq_xO (Coq_xI Coq_xH))))))) :: ((Npos
    (Coq_xI (Coq_xI (Coq_xO (Coq_xO (Coq_xI (Coq_xI Coq_xH))))))) :: ((Npos
    (Coq_xO (Coq_xO (Coq_xI (Coq_xO (Coq_xI (Coq_xI Coq_xH))))))) :: ((Npos
    (Coq_xI (Coq_xO (Coq_xI (Coq_xI (Coq_xO Coq_xH)))))) :: ((Npos (Coq_xI
    (Coq_xI (Coq_xO (Coq_xO (Coq_xI (Coq_xI Coq_xH))))))) :: ((Npos (Coq_xO
    (Coq_xO (Coq_xI (Coq_xO (Coq_xI (Coq_xI Coq_xH))))))) :: ((Npos (Coq_xI
    (Coq_xO (Coq_xO (Coq_xI (Coq_xI (Coq_xI Coq_xH))))))) :: ((Npos (Coq_xO
    (Coq_xO (Coq_xI (Coq_xI (Coq_xO (Coq_xI Coq_xH))))))) :: ((Npos (Coq_xI
    (Coq_xO (Coq_xI (Coq_xO (Coq_xO (Coq_xI Coq_xH))))))) :: ((Npos (Coq_xI
    (Coq_xO (Coq_xI (Coq_xI (Coq_xO Coq_xH)))))) :: ((Npos (Coq_xO (Coq_xI
    (Coq_xI (Coq_xI (Coq_xO (Coq_xI Coq_xH))))))) :: ((Npos (Coq_xI (Coq_xO
    (Coq_xO (Coq_xO (Coq_xO (Coq_xI Coq_xH))))))) :: ((Npos (Coq_xI (Coq_xO
    (Coq_xI (Coq_xI (Coq_xO (Coq_xI Coq_xH))))))) :: ((Npos (Coq_xI (Coq_xO
    (Coq_xI (Coq_xO (Coq_xO (Coq_xI
    Coq_xH))))))) :: [])))))))))))))))) :: ((((Npos (Coq_xI (Coq_xO (Coq_xI
    (Coq_xO (Coq_xI (Coq_xI Coq_xH))))))) :: ((Npos (Coq_xO (Coq_xI (Coq_xO
    (Coq_xO (Coq_xI (Coq_xI Coq_xH))))))) :: ((Npos (Coq_xO (Coq_xI (Coq_xI
    (Coq_xI (Coq_xO (Coq_xI Coq_xH))))))) :: ((Npos (Coq_xO (Coq_xI (Coq_xO
    (Coq_xI (Coq_xI Coq_xH)))))) :: ((Npos (Coq_xI (Coq_xI (Coq_xI (Coq_xI
    (Coq_xO (Coq_xI Coq_xH))))))) :: ((Npos (Coq_xI (Coq_xO (Coq_xO (Coq_xO
    (Coq_xO (Coq_xI Coq_xH))))))) :: ((Npos (Coq_xI (Coq_xI (Coq_xO (Coq_xO
    (Coq_xI (Coq_xI Coq_xH))))))) :: ((Npos (Coq_xI (Coq_xO (Coq_xO (Coq_xI
    (Coq_xO (Coq_xI Coq_xH))))))) :: ((Npos (Coq_xI (Coq_xI (Coq_xO (Coq_xO
    (Coq_xI (Coq_xI Coq_xH))))))) :: ((Npos (Coq_xO (Coq_xI (Coq_xO (Coq_xI
    (Coq_xI Coq_xH)))))) :: ((Npos (Coq_xO (Coq_xI (Coq_xI (Coq_xI (Coq_xO
    (Coq_xI Coq_xH))))))) :: ((Npos (Coq_xI (Coq_xO (Coq_xO (Coq_xO (Coq_xO
    (Coq_xI Coq_xH))))))) :: ((Npos (Coq_xI (Coq_xO (Coq_xI (Coq_xI (Coq_xO
    (Coq_xI Coq_xH))))))) :: ((Npos (Coq_xI (Coq_xO (Coq_xI (Coq_xO (Coq_xO
    (Coq_xI Coq_xH))))))) :: ((Npos (Coq_xI (Coq_xI (Coq_xO (Coq_xO (Coq_xI
    (Coq_xI Coq_xH))))))) :: ((Npos (Coq_xO (Coq_xI (Coq_xO (Coq_xI (Coq_xI
    Coq_xH)))))) :: ((Npos (Coq_xO (Coq_xO (Coq_xI (Coq_xO (Coq_xI (Coq_xI
    Coq_xH))))))) :: ((Npos (Coq_xI (Coq_xI (Coq_xO (Coq_xO (Coq_xO (Coq_xI
    Coq_xH))))))) :: ((Npos (Coq_xO (Coq_xI (Coq_xO (Coq_xI (Coq_xI
    Coq_xH)))))) :: ((Npos (Coq_xI (Coq_xI (Coq_xI (Coq_xI (Coq_xO (Coq_xI
    Coq_xH))))))) :: ((Npos (Coq_xO (Coq_xO (Coq_xO (Coq_xO (Coq_xI (Coq_xI
    Coq_xH))))))) :: ((Npos (Coq_xI (Coq_xO (Coq_xI (Coq_xO (Coq_xO (Coq_xI
    Coq_xH))))))) :: ((Npos (Coq_xO (Coq_xI (Coq_xI (Coq_xI (Coq_xO (Coq_xI
    Coq_xH))))))) :: ((Npos (Coq_xO (Coq_xO (Coq_xI (Coq_xO (Coq_xO (Coq_xI
    Coq_xH))))))) :: ((Npos (Coq_xI (Coq_xI (Coq_xI (Coq_xI (Coq_xO (Coq_xI
    Coq_xH))))))) :: ((Npos (Coq_xI (Coq_xI (Coq_xO (Coq_xO (Coq_xO (Coq_xI
    Coq_xH))))))) :: ((Npos (Coq_xI (Coq_xO (Coq_xI (Coq_xO (Coq_xI (Coq_xI
    Coq_xH))))))) :: ((Npos (Coq_xI (Coq_xO (Coq_xI (Coq_xI (Coq_xO (Coq_xI
    Coq_xH))))))) :: ((Npos (Coq_xI (Coq_xO (Coq_xI (Coq_xO (Coq_xO (Coq_xI
    Coq_xH))))))) :: ((Npos (Coq_xO (Coq_xI (Coq_xI (Coq_xI (Coq_xO (Coq_xI
    Coq_xH))))))) :: ((Npos (Coq_xO (Coq_xO (Coq_xI (Coq_xO (Coq_xI (Coq_xI
    Coq_xH))))))) :: ((Npos (Coq_xO (Coq_xI (Coq_xO (Coq_xI (Coq_xI
    Coq_xH)))))) :: ((Npos (Coq_xO (Coq_xO (Coq_xO (Coq_xI (Coq_xI (Coq_xI
    Coq_xH))))))) :: ((Npos (Coq_xI (Coq_xO (Coq_xI (Coq_xI (Coq_xO (Coq_xI
    Coq_xH))))))) :: ((Npos (Coq_xO (Coq_xO (Coq_xI (Coq_xI (Coq_xO (Coq_xI
    Coq_xH))))))) :: ((Npos (Coq_xO (Coq_xI (Coq_xI (Coq_xI (Coq_xO (Coq_xI
    Coq_xH))))))) :: ((Npos (Coq_xI (Coq_xI (Coq_xO (Coq_xO (Coq_xI (Coq_xI
    Coq_xH))))))) :: ((Npos (Coq_xO (Coq_xI (Coq_xO (Coq_xI (Coq_xI
    Coq_xH)))))) :: ((Npos (Coq_xI (Coq_xI (Coq_xO (Coq_xO (Coq_xI (Coq_xI
    Coq_xH))))))) :: ((Npos (Coq_xO (Coq_xO (Coq_xI (Coq_xO (Coq_xI (Coq_xI
    Coq_xH))))))) :: ((Npos (Coq_xI (Coq_xO (Coq_xO (Coq_xI (Coq_xI (Coq_xI
    Coq_xH))))))) :: ((Npos (Coq_xO (Coq_xO (Coq_xI (Coq_xI (Coq_xO (Coq_xI
    Coq_xH))))))) :: ((Npos (Coq_xI (Coq_xO (Coq_xI (Coq_xO (Coq_xO (Coq_xI
    Coq_xH))))))) :: ((Npos (Coq_xO (Coq_xI (Coq_xO (Coq_xI (Coq_xI
    Coq_xH)))))) :: ((Npos (Coq_xI (Coq_xO (Coq_xO (Coq_xO (Coq_xI
    Coq_xH)))))) :: ((Npos (Coq_xO (Coq_xI (Coq_xI (Coq_xI (Coq_xO
    Coq_xH)))))) :: ((Npos (Coq_xO (Coq_xO (Coq_xO (Coq_xO (Coq_xI
    Coq_xH)))))) :: []))))))))))))))))))))))))))))))))))))))))))))))), ((Npos
    (Coq_xI (Coq_xO (Coq_xI (Coq_xI (Coq_xO (Coq_xI Coq_xH))))))) :: ((Npos
    (Coq_xI (Coq_xO (Coq_xO (Coq_xO (Coq_xO (Coq_xI Coq_xH))))))) :: ((Npos
    (Coq_xI (Coq_xI (Coq_xO (Coq_xO (Coq_xI (Coq_xI Coq_xH))))))) :: ((Npos
    (Coq_xO (Coq_xO (Coq_xI (Coq_xO (Coq_xI (Coq_xI Coq_xH))))))) :: ((Npos
    (Coq_xI (Coq_xO (Coq_xI (Coq_xO (Coq_xO (Coq_xI Coq_xH))))))) :: ((Npos
    (Coq_xO (Coq_xI (Coq_xO (Coq_xO (Coq_xI (Coq_xI Coq_xH))))))) :: ((Npos
    (Coq_xI (Coq_xO (Coq_xI (Coq_xI (Coq_xO Coq_xH)))))) :: ((Npos (Coq_xO
    (Coq_xO (Coq_xO (Coq_xO (Coq_xI (Coq_xI Coq_xH))))))) :: ((Npos (Coq_xI
    (Coq_xO (Coq_xO (Coq_xO (Coq_xO (Coq_xI Coq_xH))))))) :: ((Npos (Coq_xI
    (Coq_xI (Coq_xI (Coq_xO (Coq_xO (Coq_xI Coq_xH))))))) :: ((Npos (Coq_xI
    (Coq_xO (Coq_xI (Coq_xO (Coq_xO (Coq_xI Coq_xH))))))) :: ((Npos (Coq_xI
    (Coq_xO (Coq_xI (Coq_xI (Coq_xO Coq_xH)))))) :: ((Npos (Coq_xO (Coq_xI
    (Coq_xI (Coq_xI (Coq_xO (Coq_xI Coq_xH))))))) :: ((Npos (Coq_xI (Coq_xO
    (Coq_xO (Coq_xO (Coq_xO (Coq_xI Coq_xH))))))) :: ((Npos (Coq_xI (Coq_xO
    (Coq_xI (Coq_xI (Coq_xO (Coq_xI Coq_xH))))))) :: ((Npos (Coq_xI (Coq_xO
    (Coq_xI (Coq_xO (Coq_xO (Coq_xI
    Coq_xH))))))) :: []))))))))))))))))) :: ((((Npos (Coq_xI (Coq_xO (Coq_xI
    (Coq_xO (Coq_xI (Coq_xI Coq_xH))))))) :: ((Npos (Coq_xO (Coq_xI (Coq_xO
    (Coq_xO (Coq_xI (Coq_xI Coq_xH))))))) :: ((Npos (Coq_xO (Coq_xI (Coq_xI
    (Coq_xI (Coq_xO (Coq_xI Coq_xH))))))) :: ((Npos (Coq_xO (Coq_xI (Coq_xO
    (Coq_xI (Coq_xI Coq_xH)))))) :: ((Npos (Coq_xI (Coq_xI (Coq_xI (Coq_xI
    (Coq_xO (Coq_xI Coq_xH))))))) :: ((Npos (Coq_xI (Coq_xO (Coq_xO (Coq_xO
    (Coq_xO (Coq_xI Coq_xH))))))) :: ((Npos (Coq_xI (Coq_xI (Coq_xO (Coq_xO
    (Coq_xI (Coq_xI Coq_xH))))))) :: ((Npos (Coq_xI (Coq_xO (Coq_xO (Coq_xI
    (Coq_xO (Coq_xI Coq_xH))))))) :: ((Npos (Coq_xI (Coq_xI (Coq_xO (Coq_xO
    (Coq_xI (Coq_xI Coq_xH))))))) :: ((Npos (Coq_xO (Coq_xI (Coq_xO (Coq_xI
    (Coq_xI Coq_xH)))))) :: ((Npos (Coq_xO (Coq_xI (Coq_xI (Coq_xI (Coq_xO
    (Coq_xI Coq_xH))))))) :: ((Npos (Coq_xI (Coq_xO (Coq_xO (Coq_xO (Coq_xO
    (Coq_xI Coq_xH))))))) :: ((Npos (Coq_xI (Coq_xO (Coq_xI (Coq_xI (Coq_xO
    (Coq_xI Coq_xH))))))) :: ((Npos (Coq_xI (Coq_xO (Coq_xI (Coq_xO (Coq_xO
    (Coq_xI Coq_xH))))))) :: ((Npos (Coq_xI (Coq_xI (Coq_xO (Coq_xO (Coq_xI
    (Coq_xI Coq_xH))))))) :: ((Npos (Coq_xO (Coq_xI (Coq_xO (Coq_xI (Coq_xI
    Coq_xH)))))) :: ((Npos (Coq_xO (Coq_xO (Coq_xI (Coq_xO (Coq_xI (Coq_xI
    Coq_xH))))))) :: ((Npos (Coq_xI (Coq_xI (Coq_xO (Coq_xO (Coq_xO (Coq_xI
    Coq_xH))))))) :: ((Npos (Coq_xO (Coq_xI (Coq_xO (Coq_xI (Coq_xI
    Coq_xH)))))) :: ((Npos (Coq_xI (Coq_xI (Coq_xI (Coq_xI (Coq_xO (Coq_xI
    Coq_xH))))))) :: ((Npos (Coq_xO (Coq_xO (Coq_xO (Coq_xO (Coq_xI (Coq_xI
    Coq_xH))))))) :: ((Npos (Coq_xI (Coq_xO (Coq_xI (Coq_xO (Coq_xO (Coq_xI
    Coq_xH))))))) :: ((Npos (Coq_xO (Coq_xI (Coq_xI (Coq_xI (Coq_xO (Coq_xI
    Coq_xH))))))) :: ((Npos (Coq_xO (Coq_xO (Coq_xI (Coq_xO (Coq_xO (Coq_xI
    Coq_xH))))))) :: ((Npos (Coq_xI (Coq_xI (Coq_xI (Coq_xI (Coq_xO (Coq_xI
    Coq_xH))))))) :: ((Npos (Coq_xI (Coq_xI (Coq_xO (Coq_xO (Coq_xO (Coq_xI
    Coq_xH))))))) :: ((Npos (Coq_xI (Coq_xO (Coq_xI (Coq_xO (Coq_xI (Coq_xI
    Coq_xH))))))) :: ((Npos (Coq_xI (Coq_xO (Coq_xI (Coq_xI (Coq_xO (Coq_xI
    Coq_xH))))))) :: ((Npos (Coq_xI (Coq_xO (Coq_xI (Coq_xO (Coq_xO (Coq_xI
    Coq_xH))))))) :: ((Npos (Coq_xO (Coq_xI (Coq_xI (Coq_xI (Coq_xO (Coq_xI
    Coq_xH))))))) :: ((Npos (Coq_xO (Coq_xO (Coq_xI (Coq_xO (Coq_xI (Coq_xI
    Coq_xH))))))) :: ((Npos (Coq_xO (Coq_xI (Coq_xO (Coq_xI (Coq_xI
    Coq_xH)))))) :: ((Npos (Coq_xO (Coq_xO (Coq_xO (Coq_xI (Coq_xI (Coq_xI
    Coq_xH))))))) :: ((Npos (Coq_xI (Coq_xO (Coq_xI (Coq_xI (Coq_xO (Coq_xI
    Coq_xH))))))) :: ((Npos (Coq_xO (Coq_xO (Coq_xI (Coq_xI (Coq_xO (Coq_xI
    Coq_xH))))))) :: ((Npos (Coq_xO (Coq_xI (Coq_xI (Coq_xI (Coq_xO (Coq_xI
    Coq_xH))))))) :: ((Npos (Coq_xI (Coq_xI (Coq_xO (Coq_xO (Coq_xI (Coq_xI
    Coq_xH))))))) :: ((Npos (Coq_xO (Coq_xI (Coq_xO (Coq_xI (Coq_xI
    Coq_xH)))))) :: ((Npos (Coq_xI (Coq_xI (Coq_xO (Coq_xO (Coq_xI (Coq_xI
    Coq_xH))))))) :: ((Npos (Coq_xO (Coq_xO (Coq_xI (Coq_xO (Coq_xI (Coq_xI
    Coq_xH))))))) :: ((Npos (Coq_xI (Coq_xO (Coq_xO (Coq_xI (Coq_xI (Coq_xI
    Coq_xH))))))) :: ((Npos (Coq_xO (Coq_xO (Coq_xI (Coq_xI (Coq_xO (Coq_xI
    Coq_xH))))))) :: ((Npos (Coq_xI (Coq_xO (Coq_xI (Coq_xO (Coq_xO (Coq_xI
    Coq_xH))))))) :: ((Npos (Coq_xO (Coq_xI (Coq_xO (Coq_xI (Coq_xI
    Coq_xH)))))) :: ((Npos (Coq_xI (Coq_xO (Coq_xO (Coq_xO (Coq_xI
    Coq_xH)))))) :: ((Npos (Coq_xO (Coq_xI (Coq_xI (Coq_xI (Coq_xO
    Coq_xH)))))) :: ((Npos (Coq_xO (Coq_xO (Coq_xO (Coq_xO (Coq_xI
    Coq_xH)))))) :: []))))))))))))))))))))))))))))))))))))))))))))))), ((Npos
    (Coq_xO (Coq_xI (Coq_xI (Coq_xI (Coq_xO (Coq_xI Coq_xH))))))) :: ((Npos
    (Coq_xI (Coq_xO (Coq_xI (Coq_xO (Coq_xO (Coq_xI Coq_xH))))))) :: ((Npos
    (Coq_xO (Coq_xO (Coq_xO (Coq_xI (Coq_xI (Coq_xI Coq_xH))))))) :: ((Npos
    (Coq_xO (Coq_xO (Coq_xI (Coq_xO (Coq_xI (Coq_xI Coq_xH))))))) :: ((Npos
    (Coq_xI (Coq_xO (Coq_xI (Coq_xI (Coq_xO Coq_xH)))))) :: ((Npos (Coq_xI
    (Coq_xI (Coq_xO (Coq_xO (Coq_xI (Coq_xI Coq_xH))))))) :: ((Npos (Coq_xO
    (Coq_xO (Coq_xI (Coq_xO (Coq_xI (Coq_xI Coq_xH))))))) :: ((Npos (Coq_xI
    (Coq_xO (Coq_xO (Coq_xI (Coq_xI (Coq_xI Coq_xH))))))) :: ((Npos (Coq_xO
    (Coq_xO (Coq_xI (Coq_xI (Coq_xO (Coq_xI Coq_xH))))))) :: ((Npos (Coq_xI
    (Coq_xO (Coq_xI (Coq_xO (Coq_xO (Coq_xI Coq_xH))))))) :: ((Npos (Coq_xI
    (Coq_xO (Coq_xI (Coq_xI (Coq_xO Coq_xH)))))) :: ((Npos (Coq_xO (Coq_xI
    (Coq_xI (Coq_xI (Coq_xO (Coq_xI Coq_xH))))))) :: ((Npos (Coq_xI (Coq_xO
    (Coq_xO (Coq_xO (Coq_xO (Coq_xI Coq_xH))))))) :: ((Npos (Coq_xI (Coq_xO
    (Coq_xI (Coq_xI (Coq_xO (Coq_xI Coq_xH))))))) :: ((Npos (Coq_xI (Coq_xO
    (Coq_xI (Coq_xO (Coq_xO (Coq_xI
    Coq_xH))))))) :: [])))))))))))))))) :: ((((Npos (Coq_xI (Coq_xO (Coq_xI
    (Coq_xO (Coq_xI (Coq_xI Coq_xH))))))) :: ((Npos (Coq_xO (Coq_xI (Coq_xO
    (Coq_xO (Coq_xI (Coq_xI Coq_xH))))))) :: ((Npos (Coq_xO (Coq_xI (Coq_xI
    (Coq_xI (Coq_xO (Coq_xI Coq_xH))))))) :: ((Npos (Coq_xO (Coq_xI (Coq_xO
    (Coq_xI (Coq_xI Coq_xH)))))) :: ((Npos (Coq_xI (Coq_xI (Coq_xI (Coq_xI
    (Coq_xO (Coq_xI Coq_xH))))))) :: ((Npos (Coq_xI (Coq_xO (Coq_xO (Coq_xO
    (Coq_xO (Coq_xI Coq_xH))))))) :: ((Npos (Coq_xI (Coq_xI (Coq_xO (Coq_xO
    (Coq_xI (Coq_xI Coq_xH))))))) :: ((Npos (Coq_xI (Coq_xO (Coq_xO (Coq_xI
    (Coq_xO (Coq_xI Coq_xH))))))) :: ((Npos (Coq_xI (Coq_xI (Coq_xO (Coq_xO
    (Coq_xI (Coq_xI Coq_xH))))))) :: ((Npos (Coq_xO (Coq_xI (Coq_xO (Coq_xI
    (Coq_xI Coq_xH)))))) :: ((Npos (Coq_xO (Coq_xI (Coq_xI (Coq_xI (Coq_xO
    (Coq_xI Coq_xH))))))) :: ((Npos (Coq_xI (Coq_xO (Coq_xO (Coq_xO (Coq_xO
    (Coq_xI Coq_xH))))))) :: ((Npos (Coq_xI (Coq_xO (Coq_xI (Coq_xI (Coq_xO
    (Coq_xI Coq_xH))))))) :: ((Npos (Coq_xI (Coq_xO (Coq_xI (Coq_xO (Coq_xO
    (Coq_xI Coq_xH))))))) :: ((Npos (Coq_xI (Coq_xI (Coq_xO (Coq_xO (Coq_xI
    (Coq_xI Coq_xH))))))) :: ((Npos (Coq_xO (Coq_xI (Coq_xO (Coq_xI (Coq_xI
    Coq_xH)))))) :: ((Npos (Coq_xO (Coq_xO (Coq_xI (Coq_xO (Coq_xI (Coq_xI
    Coq_xH))))))) :: ((Npos (Coq_xI (Coq_xI (Coq_xO (Coq_xO (Coq_xO (Coq_xI
    Coq_xH))))))) :: ((Npos (Coq_xO (Coq_xI (Coq_xO (Coq_xI (Coq_xI
    Coq_xH)))))) :: ((Npos (Coq_xI (Coq_xI (Coq_xI (Coq_xI (Coq_xO (Coq_xI
    Coq_xH))))))) :: ((Npos (Coq_xO (Coq_xO (Coq_xO (Coq_xO (Coq_xI (Coq_xI
    Coq_xH))))))) :: ((Npos (Coq_xI (Coq_xO (Coq_xI (Coq_xO (Coq_xO (Coq_xI
    Coq_xH))))))) :: ((Npos (Coq_xO (Coq_xI (Coq_xI (Coq_xI (Coq_xO (Coq_xI
    Coq_xH))))))) :: ((Npos (Coq_xO (Coq_xO (Coq_xI (Coq_xO (Coq_xO (Coq_xI
    Coq_xH))))))) :: ((Npos (Coq_xI (Coq_xI (Coq_xI (Coq_xI (Coq_xO (Coq_xI
    Coq_xH))))))) :: ((Npos (Coq_xI (Coq_xI (Coq_xO (Coq_xO (Coq_xO (Coq_xI
    Coq_xH))))))) :: ((Npos (Coq_xI (Coq_xO (Coq_xI (Coq_xO (Coq_xI (Coq_xI
    Coq_xH))))))) :: ((Npos (Coq_xI (Coq_xO (Coq_xI (Coq_xI (Coq_xO (Coq_xI
    Coq_xH))))))) :: ((Npos (Coq_xI (Coq_xO (Coq_xI (Coq_xO (Coq_xO (Coq_xI
    Coq_xH))))))) :: ((Npos (Coq_xO (Coq_xI (Coq_xI (Coq_xI (Coq_xO (Coq_xI
    Coq_xH))))))) :: ((Npos (Coq_xO (Coq_xO (Coq_xI (Coq_xO (Coq_xI (Coq_xI
    Coq_xH))))))) :: ((Npos (Coq_xO (Coq_xI (Coq_xO (Coq_xI (Coq_xI
    Coq_xH)))))) :: ((Npos (Coq_xO (Coq_xO (Coq_xO (Coq_xI (Coq_xI (Coq_xI
    Coq_xH))))))) :: ((Npos (Coq_xI (Coq_xO (Coq_xI (Coq_xI (Coq_xO (Coq_xI
    Coq_xH))))))) :: ((Npos (Coq_xO (Coq_xO (Coq_xI (Coq_xI (Coq_xO (Coq_xI
    Coq_xH))))))) :: ((Npos (Coq_xO (Coq_xI (Coq_xI (Coq_xI (Coq_xO (Coq_xI
    Coq_xH))))))) :: ((Npos (Coq_xI (Coq_xI (Coq_xO (Coq_xO (Coq_xI (Coq_xI
    Coq_xH))))))) :: ((Npos (Coq_xO (Coq_xI (Coq_xO (Coq_xI (Coq_xI
    Coq_xH)))))) :: ((Npos (Coq_xI (Coq_xI (Coq_xO (Coq_xO (Coq_xI (Coq_xI
    Coq_xH))))))) :: ((Npos (Coq_xO (Coq_xO (Coq_xI (Coq_xO (Coq_xI (Coq_xI
    Coq_xH))))))) :: ((Npos (Coq_xI (Coq_xO (Coq_xO (Coq_xI (Coq_xI (Coq_xI
    Coq_xH))))))) :: ((Npos (Coq_xO (Coq_xO (Coq_xI (Coq_xI (Coq_xO (Coq_xI
    Coq_xH))))))) :: ((Npos (Coq_xI (Coq_xO (Coq_xI (Coq_xO (Coq_xO (Coq_xI
    Coq_xH))))))) :: ((Npos (Coq_xO (Coq_xI (Coq_xO (Coq_xI (Coq_xI
    Coq_xH)))))) :: ((Npos (Coq_xI (Coq_xO (Coq_xO (Coq_xO (Coq_xI
    Coq_xH)))))) :: ((Npos (Coq_xO (Coq_xI (Coq_xI (Coq_xI (Coq_xO
    Coq_xH)))))) :: ((Npos (Coq_xO (Coq_xO (Coq_xO (Coq_xO (Coq_xI
    Coq_xH)))))) :: []))))))))))))))))))))))))))))))))))))))))))))))), ((Npos
    (Coq_xO (Coq_xO (Coq_xO (Coq_xO (Coq_xI (Coq_xI Coq_xH))))))) :: ((Npos
    (Coq_xI (Coq_xO (Coq_xO (Coq_xO (Coq_xO (Coq_xI Coq_xH))))))) :: ((Npos
    (Coq_xI (Coq_xI (Coq_xI (Coq_xO (Coq_xO (Coq_xI Coq_xH))))))) :: ((Npos
    (Coq_xI (Coq_xO (Coq_xI (Coq_xO (Coq_xO (Coq_xI Coq_xH))))))) :: ((Npos
    (Coq_xI (Coq_xO (Coq_xI (Coq_xI (Coq_xO Coq_xH)))))) :: ((Npos (Coq_xO
    (Coq_xO (Coq_xI (Coq_xI (Coq_xO (Coq_xI Coq_xH))))))) :: ((Npos (Coq_xI
    (Coq_xO (Coq_xO (Coq_xO (Coq_xO (Coq_xI Coq_xH))))))) :: ((Npos (Coq_xI
    (Coq_xO (Coq_xO (Coq_xI (Coq_xI (Coq_xI Coq_xH))))))) :: ((Npos (Coq_xI
    (Coq_xI (Coq_xI (Coq_xI (Coq_xO (Coq_xI Coq_xH))))))) :: ((Npos (Coq_xI
    (Coq_xO (Coq_xI (Coq_xO (Coq_xI (Coq_xI Coq_xH))))))) :: ((Npos (Coq_xO
    (Coq_xO (Coq_xI (Coq_xO (Coq_xI (Coq_xI Coq_xH))))))) :: ((Npos (Coq_xI
    (Coq_xO (Coq_xI (Coq_xI (Coq_xO Coq_xH)))))) :: ((Npos (Coq_xO (Coq_xI
    (Coq_xI (Coq_xI (Coq_xO (Coq_xI Coq_xH))))))) :: ((Npos (Coq_xI (Coq_xO
    (Coq_xO (Coq_xO (Coq_xO (Coq_xI Coq_xH))))))) :: ((Npos (Coq_xI (Coq_xO
    (Coq_xI (Coq_xI (Coq_xO (Coq_xI Coq_xH))))))) :: ((Npos (Coq_xI (Coq_xO
    (Coq_xI (Coq_xO (Coq_xO (Coq_xI
    Coq_xH))))))) :: []))))))))))))))))) :: ((((Npos (Coq_xI (Coq_xO (Coq_xI
    (Coq_xO (Coq_xI (Coq_xI Coq_xH))))))) :: ((Npos (Coq_xO (Coq_xI (Coq_xO
    (Coq_xO (Coq_xI (Coq_xI Coq_xH))))))) :: ((Npos (Coq_xO (Coq_xI (Coq_xI
    (Coq_xI (Coq_xO (Coq_xI Coq_xH))))))) :: ((Npos (Coq_xO (Coq_xI (Coq_xO
    (Coq_xI (Coq_xI Coq_xH)))))) :: ((Npos (Coq_xI (Coq_xI (Coq_xI (Coq_xI
    (Coq_xO (Coq_xI Coq_xH))))))) :: ((Npos (Coq_xI (Coq_xO (Coq_xO (Coq_xO
    (Coq_xO (Coq_xI Coq_xH))))))) :: ((Npos (Coq_xI (Coq_xI (Coq_xO (Coq_xO
    (Coq_xI (Coq_xI Coq_xH))))))) :: ((Npos (Coq_xI (Coq_xO (Coq_xO (Coq_xI
    (Coq_xO (Coq_xI Coq_xH))))))) :: ((Npos (Coq_xI (Coq_xI (Coq_xO (Coq_xO
    (Coq_xI (Coq_xI Coq_xH))))))) :: ((Npos (Coq_xO (Coq_xI (Coq_xO (Coq_xI
    (Coq_xI Coq_xH)))))) :: ((Npos (Coq_xO (Coq_xI (Coq_xI (Coq_xI (Coq_xO
    (Coq_xI Coq_xH))))))) :: ((Npos (Coq_xI (Coq_xO (Coq_xO (Coq_xO (Coq_xO
    (Coq_xI Coq_xH))))))) :: ((Npos (Coq_xI (Coq_xO (Coq_xI (Coq_xI (Coq_xO
    (Coq_xI Coq_xH))))))) :: ((Npos (Coq_xI (Coq_xO (Coq_xI (Coq_xO (Coq_xO
    (Coq_xI Coq_xH))))))) :: ((Npos (Coq_xI (Coq_xI (Coq_xO (Coq_xO (Coq_xI
    (Coq_xI Coq_xH))))))) :: ((Npos (Coq_xO (Coq_xI (Coq_xO (Coq_xI (Coq_xI
    Coq_xH)))))) :: ((Npos (Coq_xO (Coq_xO (Coq_xI (Coq_xO (Coq_xI (Coq_xI
    Coq_xH))))))) :: ((Npos (Coq_xI (Coq_xI (Coq_xO (Coq_xO (Coq_xO (Coq_xI
    Coq_xH))))))) :: ((Npos (Coq_xO (Coq_xI (Coq_xO (Coq_xI (Coq_xI
    Coq_xH)))))) :: ((Npos (Coq_xI (Coq_xI (Coq_xI (Coq_xI (Coq_xO (Coq_xI
    Coq_xH))))))) :: ((Npos (Coq_xO (Coq_xO (Coq_xO (Coq_xO (Coq_xI (Coq_xI
    Coq_xH))))))) :: ((Npos (Coq_xI (Coq_xO (Coq_xI (Coq_xO (Coq_xO (Coq_xI
    Coq_xH))))))) :: ((Npos (Coq_xO (Coq_xI (Coq_xI (Coq_xI (Coq_xO (Coq_xI
    Coq_xH))))))) :: ((Npos (Coq_xO (Coq_xO (Coq_xI (Coq_xO (Coq_xO (Coq_xI
    Coq_xH))))))) :: ((Npos (Coq_xI (Coq_xI (Coq_xI (Coq_xI (Coq_xO (Coq_xI
    Coq_xH))))))) :: ((Npos (Coq_xI (Coq_xI (Coq_xO (Coq_xO (Coq_xO (Coq_xI
    Coq_xH))))))) :: ((Npos (Coq_xI (Coq_xO (Coq_xI (Coq_xO (Coq_xI (Coq_xI
    Coq_xH))))))) :: ((Npos (Coq_xI (Coq_xO (Coq_xI (Coq_xI (Coq_xO (Coq_xI
    Coq_xH))))))) :: ((Npos (Coq_xI (Coq_xO (Coq_xI (Coq_xO (Coq_xO (Coq_xI
    Coq_xH))))))) :: ((Npos (Coq_xO (Coq_xI (Coq_xI (Coq_xI (Coq_xO (Coq_xI
    Coq_xH))))))) :: ((Npos (Coq_xO (Coq_xO (Coq_xI (Coq_xO (Coq_xI (Coq_xI
    Coq_xH))))))) :: ((Npos (Coq_xO (Coq_xI (Coq_xO (Coq_xI (Coq_xI
    Coq_xH)))))) :: ((Npos (Coq_xO (Coq_xO (Coq_xO (Coq_xI (Coq_xI (Coq_xI
    Coq_xH))))))) :: ((Npos (Coq_xI (Coq_xO (Coq_xI (Coq_xI (Coq_xO (Coq_xI
    Coq_xH))))))) :: ((Npos (Coq_xO (Coq_xO (Coq_xI (Coq_xI (Coq_xO (Coq_xI
    Coq_xH))))))) :: ((Npos (Coq_xO (Coq_xI (Coq_xI (Coq_xI (Coq_xO (Coq_xI
    Coq_xH))))))) :: ((Npos (Coq_xI (Coq_xI (Coq_xO (Coq_xO (Coq_xI (Coq_xI
    Coq_xH))))))) :: ((Npos (Coq_xO (Coq_xI (Coq_xO (Coq_xI (Coq_xI
    Coq_xH)))))) :: ((Npos (Coq_xI (Coq_xI (Coq_xO (Coq_xO (Coq_xI (Coq_xI
    Coq_xH))))))) :: ((Npos (Coq_xO (Coq_xO (Coq_xI (Coq_xO (Coq_xI (Coq_xI
    Coq_xH))))))) :: ((Npos (Coq_xI (Coq_xO (Coq_xO (Coq_xI (Coq_xI (Coq_xI
    Coq_xH))))))) :: ((Npos (Coq_xO (Coq_xO (Coq_xI (Coq_xI (Coq_xO (Coq_xI
    Coq_xH))))))) :: ((Npos (Coq_xI (Coq_xO (Coq_xI (Coq_xO (Coq_xO (Coq_xI
    Coq_xH))))))) :: ((Npos (Coq_xO (Coq_xI (Coq_xO (Coq_xI (Coq_xI
    Coq_xH)))))) :: ((Npos (Coq_xI (Coq_xO (Coq_xO (Coq_xO (Coq_xI
    Coq_xH)))))) :: ((Npos (Coq_xO (Coq_xI (Coq_xI (Coq_xI (Coq_xO
    Coq_xH)))))) :: ((Npos (Coq_xO (Coq_xO (Coq_xO (Coq_xO (Coq_xI
    Coq_xH)))))) :: []))))))))))))))))))))))))))))))))))))))))))))))), ((Npos
    (Coq_xO (Coq_xO (Coq_xO (Coq_xO (Coq_xI (Coq_xI Coq_xH))))))) :: ((Npos
    (Coq_xI (Coq_xO (Coq_xO (Coq_xO (Coq_xO (Coq_xI Coq_xH))))))) :: ((Npos
    (Coq_xO (Coq_xI (Coq_xO (Coq_xO (Coq_xI (Coq_xI Coq_xH))))))) :: ((Npos
    (Coq_xI (Coq_xO (Coq_xI (Coq_xO (Coq_xO (Coq_xI Coq_xH))))))) :: ((Npos
    (Coq_xO (Coq_xI (Coq_xI (Coq_xI (Coq_xO (Coq_xI Coq_xH))))))) :: ((Npos
    (Coq_xO (Coq_xO (Coq_xI (Coq_xO (Coq_xI (Coq_xI Coq_xH))))))) :: ((Npos
    (Coq_xI (Coq_xO (Coq_xI (Coq_xI (Coq_xO Coq_xH)))))) :: ((Npos (Coq_xI
    (Coq_xI (Coq_xO (Coq_xO (Coq_xI (Coq_xI Coq_xH))))))) :: ((Npos (Coq_xO
    (Coq_xO (Coq_xI (Coq_xO (Coq_xI (Coq_xI Coq_xH))))))) :: ((Npos (Coq_xI
    (Coq_xO (Coq_xO (Coq_xI (Coq_xI (Coq_xI Coq_xH))))))) :: ((Npos (Coq_xO
    (Coq_xO (Coq_xI (Coq_xI (Coq_xO (Coq_xI Coq_xH))))))) :: ((Npos (Coq_xI
    (Coq_xO (Coq_xI (Coq_xO (Coq_xO (Coq_xI Coq_xH))))))) :: ((Npos (Coq_xI
    (Coq_xO (Coq_xI (Coq_xI (Coq_xO Coq_xH)))))) :: ((Npos (Coq_xO (Coq_xI
    (Coq_xI (Coq_xI (Coq_xO (Coq_xI Coq_xH))))))) :: ((Npos (Coq_xI (Coq_xO
    (Coq_xO (Coq_xO (Coq_xO (Coq_xI Coq_xH))))))) :: ((Npos (Coq_xI (Coq_xO
    (Coq_xI (Coq_xI (Coq_xO (Coq_xI Coq_xH))))))) :: ((Npos (Coq_xI (Coq_xO
    (Coq_xI (Coq_xO (Coq_xO (Coq_xI
    Coq_xH))))))) :: [])))))))))))))))))) :: ((((Npos (Coq_xI (Coq_xO (Coq_xI
    (Coq_xO (Coq_xI (Coq_xI Coq_xH))))))) :: ((Npos (Coq_xO (Coq_xI (Coq_xO
    (Coq_xO (Coq_xI (Coq_xI Coq_xH))))))) :: ((Npos (Coq_xO (Coq_xI (Coq_xI
    (Coq_xI (Coq_xO (Coq_xI Coq_xH))))))) :: ((Npos (Coq_xO (Coq_xI (Coq_xO
    (Coq_xI (Coq_xI Coq_xH)))))) :: ((Npos (Coq_xI (Coq_xI (Coq_xI (Coq_xI
    (Coq_xO (Coq_xI Coq_xH))))))) :: ((Npos (Coq_xI (Coq_xO (Coq_xO (Coq_xO
    (Coq_xO (Coq_xI Coq_xH))))))) :: ((Npos (Coq_xI (Coq_xI (Coq_xO (Coq_xO
    (Coq_xI (Coq_xI Coq_xH))))))) :: ((Npos (Coq_xI (Coq_xO (Coq_xO (Coq_xI
    (Coq_xO (Coq_xI Coq_xH))))))) :: ((Npos (Coq_xI (Coq_xI (Coq_xO (Coq_xO
    (Coq_xI (Coq_xI Coq_xH))))))) :: ((Npos (Coq_xO (Coq_xI (Coq_xO (Coq_xI
    (Coq_xI Coq_xH)))))) :: ((Npos (Coq_xO (Coq_xI (Coq_xI (Coq_xI (Coq_xO
    (Coq_xI Coq_xH))))))) :: ((Npos (Coq_xI (Coq_xO (Coq_xO (Coq_xO (Coq_xO
    (Coq_xI Coq_xH))))))) :: ((Npos (Coq_xI (Coq_xO (Coq_xI (Coq_xI (Coq_xO
    (Coq_xI Coq_xH))))))) :: ((Npos (Coq_xI (Coq_xO (Coq_xI (Coq_xO (Coq_xO
    (Coq_xI Coq_xH))))))) :: ((Npos (Coq_xI (Coq_xI (Coq_xO (Coq_xO (Coq_xI
    (Coq_xI Coq_xH))))))) :: ((Npos (Coq_xO (Coq_xI (Coq_xO (Coq_xI (Coq_xI
    Coq_xH)))))) :: ((Npos (Coq_xO (Coq_xO (Coq_xI (Coq_xO (Coq_xI (Coq_xI
    Coq_xH))))))) :: ((Npos (Coq_xI (Coq_xI (Coq_xO (Coq_xO (Coq_xO (Coq_xI
    Coq_xH))))))) :: ((Npos (Coq_xO (Coq_xI (Coq_xO (Coq_xI (Coq_xI
    Coq_xH)))))) :: ((Npos (Coq_xI (Coq_xI (Coq_xI (Coq_xI (Coq_xO (Coq_xI
    Coq_xH))))))) :: ((Npos (Coq_xO (Coq_xO (Coq_xO (Coq_xO (Coq_xI (Coq_xI
    Coq_xH))))))) :: ((Npos (Coq_xI (Coq_xO (Coq_xI (Coq_xO (Coq_xO (Coq_xI
    Coq_xH))))))) :: ((Npos (Coq_xO (Coq_xI (Coq_xI (Coq_xI (Coq_xO (Coq_xI
    Coq_xH))))))) :: ((Npos (Coq_xO (Coq_xO (Coq_xI (Coq_xO (Coq_xO (Coq_xI
    Coq_xH))))))) :: ((Npos (Coq_xI (Coq_xI (Coq_xI (Coq_xI (Coq_xO (Coq_xI
    Coq_xH))))))) :: ((Npos (Coq_xI (Coq_xI (Coq_xO (Coq_xO (Coq_xO (Coq_xI
    Coq_xH))))))) :: ((Npos (Coq_xI (Coq_xO (Coq_xI (Coq_xO (Coq_xI (Coq_xI
    Coq_xH))))))) :: ((Npos (Coq_xI (Coq_xO (Coq_xI (Coq_xI (Coq_xO (Coq_xI
    Coq_xH))))))) :: ((Npos (Coq_xI (Coq_xO (Coq_xI (Coq_xO (Coq_xO (Coq_xI
    Coq_xH))))))) :: ((Npos (Coq_xO (Coq_xI (Coq_xI (Coq_xI (Coq_xO (Coq_xI
    Coq_xH))))))) :: ((Npos (Coq_xO (Coq_xO (Coq_xI (Coq_xO (Coq_xI (Coq_xI
    Coq_xH))))))) :: ((Npos (Coq_xO (Coq_xI (Coq_xO (Coq_xI (Coq_xI
    Coq_xH)))))) :: ((Npos (Coq_xO (Coq_xO (Coq_xO (Coq_xI (Coq_xI (Coq_xI
    Coq_xH))))))) :: ((Npos (Coq_xI (Coq_xO (Coq_xI (Coq_xI (Coq_xO (Coq_xI
    Coq_xH))))))) :: ((Npos (Coq_xO (Coq_xO (Coq_xI (Coq_xI (Coq_xO (Coq_xI
    Coq_xH))))))) :: ((Npos (Coq_xO (Coq_xI (Coq_xI (Coq_xI (Coq_xO (Coq_xI
    Coq_xH))))))) :: ((Npos (Coq_xI (Coq_xI (Coq_xO (Coq_xO (Coq_xI (Coq_xI
    Coq_xH))))))) :: ((Npos (Coq_xO (Coq_xI (Coq_xO (Coq_xI (Coq_xI
    Coq_xH)))))) :: ((Npos (Coq_xI (Coq_xI (Coq_xO (Coq_xO (Coq_xI (Coq_xI
    Coq_xH))))))) :: ((Npos (Coq_xO (Coq_xO (Coq_xI (Coq_xO (Coq_xI (Coq_xI
    Coq_xH))))))) :: ((Npos (Coq_xI (Coq_xO (Coq_xO (Coq_xI (Coq_xI (Coq_xI
    Coq_xH))))))) :: ((Npos (Coq_xO (Coq_xO (Coq_xI (Coq_xI (Coq_xO (Coq_xI
    Coq_xH))))))) :: ((Npos (Coq_xI (Coq_xO (Coq_xI (Coq_xO (Coq_xO (Coq_xI
    Coq_xH))))))) :: ((Npos (Coq_xO (Coq_xI (Coq_xO (Coq_xI (Coq_xI
    Coq_xH)))))) :: ((Npos (Coq_xI (Coq_xO (Coq_xO (Coq_xO (Coq_xI
    Coq_xH)))))) :: ((Npos (Coq_xO (Coq_xI (Coq_xI (Coq_xI (Coq_xO
    Coq_xH)))))) :: ((Npos (Coq_xO (Coq_xO (Coq_xO (Coq_xO (Coq_xI
    Coq_xH)))))) :: []))))))))))))))))))))))))))))))))))))))))))))))), ((Npos
    (Coq_xO (Coq_xO (Coq_xO (Coq_xO (Coq_xI (Coq_xI Coq_xH))))))) :: ((Npos
    (Coq_xI (Coq_xO (Coq_xI (Coq_xO (Coq_xO (Coq_xI Coq_xH))))))) :: ((Npos
    (Coq_xO (Coq_xI (Coq_xO (Coq_xO (Coq_xI (Coq_xI Coq_xH))))))) :: ((Npos
    (Coq_xI (Coq_xI (Coq_xO (Coq_xO (Coq_xO (Coq_xI Coq_xH))))))) :: ((Npos
    (Coq_xI (Coq_xO (Coq_xI (Coq_xO (Coq_xO (Coq_xI Coq_xH))))))) :: ((Npos
    (Coq_xO (Coq_xI (Coq_xI (Coq_xI (Coq_xO (Coq_xI Coq_xH))))))) :: ((Npos
    (Coq_xO (Coq_xO (Coq_xI (Coq_xO (Coq_xI (Coq_xI Coq_xH))))))) :: ((Npos
    (Coq_xI (Coq_xO (Coq_xO (Coq_xO (Coq_xO (Coq_xI Coq_xH))))))) :: ((Npos
    (Coq_xI (Coq_xI (Coq_xI (Coq_xO (Coq_xO (Coq_xI Coq_xH))))))) :: ((Npos
    (Coq_xI (Coq_xO (Coq_xI (Coq_xO (Coq_xO (Coq_xI Coq_xH))))))) :: ((Npos
    (Coq_xI (Coq_xO (Coq_xI (Coq_xI (Coq_xO Coq_xH)))))) :: ((Npos (Coq_xO
    (Coq_xO (Coq_xI (Coq_xO (Coq_xO (Coq_xI Coq_xH))))))) :: ((Npos (Coq_xI
    (Coq_xO (Coq_xO (Coq_xO (Coq_xO (Coq_xI Coq_xH))))))) :: ((Npos (Coq_xO
    (Coq_xO (Coq_xI (Coq_xO (Coq_xI (Coq_xI Coq_xH))))))) :: ((Npos (Coq_xI
    (Coq_xO (Coq_xO (Coq_xO (Coq_xO (Coq_xI Coq_xH))))))) :: ((Npos (Coq_xI
    (Coq_xO (Coq_xI (Coq_xI (Coq_xO Coq_xH)))))) :: ((Npos (Coq_xI (Coq_xI
    (Coq_xO (Coq_xO (Coq_xI (Coq_xI Coq_xH))))))) :: ((Npos (Coq_xO (Coq_xO
    (Coq_xI (Coq_xO (Coq_xI (Coq_xI Coq_xH))))))) :: ((Npos (Coq_xI (Coq_xO
    (Coq_xO (Coq_xI (Coq_xI (Coq_xI Coq_xH))))))) :: ((Npos (Coq_xO (Coq_xO
    (Coq_xI (Coq_xI (Coq_xO (Coq_xI Coq_xH))))))) :: ((Npos (Coq_xI (Coq_xO
    (Coq_xI (Coq_xO (Coq_xO (Coq_xI Coq_xH))))))) :: ((Npos (Coq_xI (Coq_xO
    (Coq_xI (Coq_xI (Coq_xO Coq_xH)))))) :: ((Npos (Coq_xO (Coq_xI (Coq_xI
    (Coq_xI (Coq_xO (Coq_xI Coq_xH))))))) :: ((Npos (Coq_xI (Coq_xO (Coq_xO
    (Coq_xO (Coq_xO (Coq_xI Coq_xH))))))) :: ((Npos (Coq_xI (Coq_xO (Coq_xI
    (Coq_xI (Coq_xO (Coq_xI Coq_xH))))))) :: ((Npos (Coq_xI (Coq_xO (Coq_xI
    (Coq_xO (Coq_xO (Coq_xI
    Coq_xH))))))) :: []))))))))))))))))))))))))))) :: ((((Npos (Coq_xI
    (Coq_xO (Coq_xI (Coq_xO (Coq_xI (Coq_xI Coq_xH))))))) :: ((Npos (Coq_xO
    (Coq_xI (Coq_xO (Coq_xO (Coq_xI (Coq_xI Coq_xH))))))) :: ((Npos (Coq_xO
    (Coq_xI (Coq_xI (Coq_xI (Coq_xO (Coq_xI Coq_xH))))))) :: ((Npos (Coq_xO
    (Coq_xI (Coq_xO (Coq_xI (Coq_xI Coq_xH)))))) :: ((Npos (Coq_xI (Coq_xI
    (Coq_xI (Coq_xI (Coq_xO (Coq_xI Coq_xH))))))) :: ((Npos (Coq_xI (Coq_xO
    (Coq_xO (Coq_xO (Coq_xO (Coq_xI Coq_xH))))))) :: ((Npos (Coq_xI (Coq_xI
    (Coq_xO (Coq_xO (Coq_xI (Coq_xI Coq_xH))))))) :: ((Npos (Coq_xI (Coq_xO
    (Coq_xO (Coq_xI (Coq_xO (Coq_xI Coq_xH))))))) :: ((Npos (Coq_xI (Coq_xI
    (Coq_xO (Coq_xO (Coq_xI (Coq_xI Coq_xH))))))) :: ((Npos (Coq_xO (Coq_xI
    (Coq_xO (Coq_xI (Coq_xI Coq_xH)))))) :: ((Npos (Coq_xO (Coq_xI (Coq_xI
    (Coq_xI (Coq_xO (Coq_xI Coq_xH))))))) :: ((Npos (Coq_xI (Coq_xO (Coq_xO
    (Coq_xO (Coq_xO (Coq_xI Coq_xH))))))) :: ((Npos (Coq_xI (Coq_xO (Coq_xI
    (Coq_xI (Coq_xO (Coq_xI Coq_xH))))))) :: ((Npos (Coq_xI (Coq_xO (Coq_xI
    (Coq_xO (Coq_xO (Coq_xI Coq_xH))))))) :: ((Npos (Coq_xI (Coq_xI (Coq_xO
    (Coq_xO (Coq_xI (Coq_xI Coq_xH))))))) :: ((Npos (Coq_xO (Coq_xI (Coq_xO
    (Coq_xI (Coq_xI Coq_xH)))))) :: ((Npos (Coq_xO (Coq_xO (Coq_xI (Coq_xO
    (Coq_xI (Coq_xI Coq_xH))))))) :: ((Npos (Coq_xI (Coq_xI (Coq_xO (Coq_xO
    (Coq_xO (Coq_xI Coq_xH))))))) :: ((Npos (Coq_xO (Coq_xI (Coq_xO (Coq_xI
    (Coq_xI Coq_xH)))))) :: ((Npos (Coq_xI (Coq_xI (Coq_xI (Coq_xI (Coq_xO
    (Coq_xI Coq_xH))))))) :: ((Npos (Coq_xO (Coq_xO (Coq_xO (Coq_xO (Coq_xI
    (Coq_xI Coq_xH))))))) :: ((Npos (Coq_xI (Coq_xO (Coq_xI (Coq_xO (Coq_xO
    (Coq_xI Coq_xH))))))) :: ((Npos (Coq_xO (Coq_xI (Coq_xI (Coq_xI (Coq_xO
    (Coq_xI Coq_xH))))))) :: ((Npos (Coq_xO (Coq_xO (Coq_xI (Coq_xO (Coq_xO
    (Coq_xI Coq_xH))))))) :: ((Npos (Coq_xI (Coq_xI (Coq_xI (Coq_xI (Coq_xO
    (Coq_xI Coq_xH))))))) :: ((Npos (Coq_xI (Coq_xI (Coq_xO (Coq_xO (Coq_xO
    (Coq_xI Coq_xH))))))) :: ((Npos (Coq_xI (Coq_xO (Coq_xI (Coq_xO (Coq_xI
    (Coq_xI Coq_xH))))))) :: ((Npos (Coq_xI (Coq_xO (Coq_xI (Coq_xI (Coq_xO
    (Coq_xI Coq_xH))))))) :: ((Npos (Coq_xI (Coq_xO (Coq_xI (Coq_xO (Coq_xO
    (Coq_xI Coq_xH))))))) :: ((Npos (Coq_xO (Coq_xI (Coq_xI (Coq_xI (Coq_xO
    (Coq_xI Coq_xH))))))) :: ((Npos (Coq_xO (Coq_xO (Coq_xI (Coq_xO (Coq_xI
    (Coq_xI Coq_xH))))))) :: ((Npos (Coq_xO (Coq_xI (Coq_xO (Coq_xI (Coq_xI
    Coq_xH)))))) :: ((Npos (Coq_xO (Coq_xO (Coq_xO (Coq_xI (Coq_xI (Coq_xI
    Coq_xH))))))) :: ((Npos (Coq_xI (Coq_xO (Coq_xI (Coq_xI (Coq_xO (Coq_xI
    Coq_xH))))))) :: ((Npos (Coq_xO (Coq_xO (Coq_xI (Coq_xI (Coq_xO (Coq_xI
    Coq_xH))))))) :: ((Npos (Coq_xO (Coq_xI (Coq_xI (Coq_xI (Coq_xO (Coq_xI
    Coq_xH))))))) :: ((Npos (Coq_xI (Coq_xI (Coq_xO (Coq_xO (Coq_xI (Coq_xI
    Coq_xH))))))) :: ((Npos (Coq_xO (Coq_xI (Coq_xO (Coq_xI (Coq_xI
    Coq_xH)))))) :: ((Npos (Coq_xI (Coq_xI (Coq_xO (Coq_xO (Coq_xI (Coq_xI
    Coq_xH))))))) :: ((Npos (Coq_xO (Coq_xO (Coq_xI (Coq_xO (Coq_xI (Coq_xI
    Coq_xH))))))) :: ((Npos (Coq_xI (Coq_xO (Coq_xO (Coq_xI (Coq_xI (Coq_xI
    Coq_xH))))))) :: ((Npos (Coq_xO (Coq_xO (Coq_xI (Coq_xI (Coq_xO (Coq_xI
    Coq_xH))))))) :: ((Npos (Coq_xI (Coq_xO (Coq_xI (Coq_xO (Coq_xO (Coq_xI
    Coq_xH))))))) :: ((Npos (Coq_xO (Coq_xI (Coq_xO (Coq_xI (Coq_xI
    Coq_xH)))))) :: ((Npos (Coq_xI (Coq_xO (Coq_xO (Coq_xO (Coq_xI
    Coq_xH)))))) :: ((Npos (Coq_xO (Coq_xI (Coq_xI (Coq_xI (Coq_xO
    Coq_xH)))))) :: ((Npos (Coq_xO (Coq_xO (Coq_xO (Coq_xO (Coq_xI
    Coq_xH)))))) :: []))))))))))))))))))))))))))))))))))))))))))))))), ((Npos
    (Coq_xO (Coq_xI (Coq_xO (Coq_xO (Coq_xI (Coq_xI Coq_xH))))))) :: ((Npos
    (Coq_xI (Coq_xO (Coq_xI (Coq_xO (Coq_xO (Coq_xI Coq_xH))))))) :: ((Npos
    (Coq_xI (Coq_xI (Coq_xI (Coq_xO (Coq_xO (Coq_xI Coq_xH))))))) :: ((Npos
    (Coq_xI (Coq_xO (Coq_xO (Coq_xI (Coq_xO (Coq_xI Coq_xH))))))) :: ((Npos
    (Coq_xI (Coq_xI (Coq_xO (Coq_xO (Coq_xI (Coq_xI Coq_xH))))))) :: ((Npos
    (Coq_xO (Coq_xO (Coq_xI (Coq_xO (Coq_xI (Coq_xI Coq_xH))))))) :: ((Npos
    (Coq_xI (Coq_xO (Coq_xI (Coq_xO (Coq_xO (Coq_xI Coq_xH))))))) :: ((Npos
    (Coq_xO (Coq_xI (Coq_xO (Coq_xO (Coq_xI (Coq_xI Coq_xH))))))) :: ((Npos
    (Coq_xI (Coq_xO (Coq_xI (Coq_xI (Coq_xO Coq_xH)))))) :: ((Npos (Coq_xO
    (Coq_xO (Coq_xI (Coq_xO (Coq_xI (Coq_xI Coq_xH))))))) :: ((Npos (Coq_xO
    (Coq_xI (Coq_xO (Coq_xO (Coq_xI (Coq_xI Coq_xH))))))) :: ((Npos (Coq_xI
    (Coq_xO (Coq_xI (Coq_xO (Coq_xI (Coq_xI Coq_xH))))))) :: ((Npos (Coq_xO
    (Coq_xO (Coq_xI (Coq_xO (Coq_xI (Coq_xI Coq_xH))))))) :: ((Npos (Coq_xO
    (Coq_xO (Coq_xO (Coq_xI (Coq_xO (Coq_xI Coq_xH))))))) :: ((Npos (Coq_xI
    (Coq_xO (Coq_xI (Coq_xI (Coq_xO Coq_xH)))))) :: ((Npos (Coq_xO (Coq_xI
    (Coq_xO (Coq_xO (Coq_xI (Coq_xI Coq_xH))))))) :: ((Npos (Coq_xI (Coq_xO
    (Coq_xI (Coq_xO (Coq_xO (Coq_xI Coq_xH))))))) :: ((Npos (Coq_xO (Coq_xI
    (Coq_xI (Coq_xO (Coq_xO (Coq_xI Coq_xH))))))) :: ((Npos (Coq_xI (Coq_xO
    (Coq_xI (Coq_xI (Coq_xO Coq_xH)))))) :: ((Npos (Coq_xI (Coq_xI (Coq_xO
    (Coq_xO (Coq_xI (Coq_xI Coq_xH))))))) :: ((Npos (Coq_xO (Coq_xO (Coq_xI
    (Coq_xO (Coq_xI (Coq_xI Coq_xH))))))) :: ((Npos (Coq_xI (Coq_xO (Coq_xO
    (Coq_xI (Coq_xI (Coq_xI Coq_xH))))))) :: ((Npos (Coq_xO (Coq_xO (Coq_xI
    (Coq_xI (Coq_xO (Coq_xI Coq_xH))))))) :: ((Npos (Coq_xI (Coq_xO (Coq_xI
    (Coq_xO (Coq_xO (Coq_xI Coq_xH))))))) :: ((Npos (Coq_xI (Coq_xO (Coq_xI
    (Coq_xI (Coq_xO Coq_xH)))))) :: ((Npos (Coq_xO (Coq_xI (Coq_xI (Coq_xI
    (Coq_xO (Coq_xI Coq_xH))))))) :: ((Npos (Coq_xI (Coq_xO (Coq_xO (Coq_xO
    (Coq_xO (Coq_xI Coq_xH))))))) :: ((Npos (Coq_xI (Coq_xO (Coq_xI (Coq_xI
    (Coq_xO (Coq_xI Coq_xH))))))) :: ((Npos (Coq_xI (Coq_xO (Coq_xI (Coq_xO
    (Coq_xO (Coq_xI
    Coq_xH))))))) :: [])))))))))))))))))))))))))))))) :: ((((Npos (Coq_xI
    (Coq_xO (Coq_xI (Coq_xO (Coq_xI (Coq_xI Coq_xH))))))) :: ((Npos (Coq_xO
    (Coq_xI (Coq_xO (Coq_xO (Coq_xI (Coq_xI Coq_xH))))))) :: ((Npos (Coq_xO
    (Coq_xI (Coq_xI (Coq_xI (Coq_xO (Coq_xI Coq_xH))))))) :: ((Npos (Coq_xO
    (Coq_xI (Coq_xO (Coq_xI (Coq_xI Coq_xH)))))) :: ((Npos (Coq_xI (Coq_xI
    (Coq_xI (Coq_xI (Coq_xO (Coq_xI Coq_xH))))))) :: ((Npos (Coq_xI (Coq_xO
    (Coq_xO (Coq_xO (Coq_xO (Coq_xI Coq_xH))))))) :: ((Npos (Coq_xI (Coq_xI
    (Coq_xO (Coq_xO (Coq_xI (Coq_xI Coq_xH))))))) :: ((Npos (Coq_xI (Coq_xO
    (Coq_xO (Coq_xI (Coq_xO (Coq_xI Coq_xH))))))) :: ((Npos (Coq_xI (Coq_xI
    (Coq_xO (Coq_xO (Coq_xI (Coq_xI Coq_xH))))))) :: ((Npos (Coq_xO (Coq_xI
    (Coq_xO (Coq_xI (Coq_xI Coq_xH)))))) :: ((Npos (Coq_xO (Coq_xI (Coq_xI
    (Coq_xI (Coq_xO (Coq_xI Coq_xH))))))) :: ((Npos (Coq_xI (Coq_xO (Coq_xO
    (Coq_xO (Coq_xO (Coq_xI Coq_xH))))))) :: ((Npos (Coq_xI (Coq_xO (Coq_xI
    (Coq_xI (Coq_xO (Coq_xI Coq_xH))))))) :: ((Npos (Coq_xI (Coq_xO (Coq_xI
    (Coq_xO (Coq_xO (Coq_xI Coq_xH))))))) :: ((Npos (Coq_xI (Coq_xI (Coq_xO
    (Coq_xO (Coq_xI (Coq_xI Coq_xH))))))) :: ((Npos (Coq_xO (Coq_xI (Coq_xO
    (Coq_xI (Coq_xI Coq_xH)))))) :: ((Npos (Coq_xO (Coq_xO (Coq_xI (Coq_xO
    (Coq_xI (Coq_xI Coq_xH))))))) :: ((Npos (Coq_xI (Coq_xI (Coq_xO (Coq_xO
    (Coq_xO (Coq_xI Coq_xH))))))) :: ((Npos (Coq_xO (Coq_xI (Coq_xO (Coq_xI
    (Coq_xI Coq_xH)))))) :: ((Npos (Coq_xI (Coq_xI (Coq_xI (Coq_xI (Coq_xO
    (Coq_xI Coq_xH))))))) :: ((Npos (Coq_xO (Coq_xO (Coq_xO (Coq_xO (Coq_xI
    (Coq_xI Coq_xH))))))) :: ((Npos (Coq_xI (Coq_xO (Coq_xI (Coq_xO (Coq_xO
    (Coq_xI Coq_xH))))))) :: ((Npos (Coq_xO (Coq_xI (Coq_xI (Coq_xI (Coq_xO
    (Coq_xI Coq_xH))))))) :: ((Npos (Coq_xO (Coq_xO (Coq_xI (Coq_xO (Coq_xO
    (Coq_xI Coq_xH))))))) :: ((Npos (Coq_xI (Coq_xI (Coq_xI (Coq_xI (Coq_xO
    (Coq_xI Coq_xH))))))) :: ((Npos (Coq_xI (Coq_xI (Coq_xO (Coq_xO (Coq_xO
    (Coq_xI Coq_xH))))))) :: ((Npos (Coq_xI (Coq_xO (Coq_xI (Coq_xO (Coq_xI
    (Coq_xI Coq_xH))))))) :: ((Npos (Coq_xI (Coq_xO (Coq_xI (Coq_xI (Coq_xO
    (Coq_xI Coq_xH))))))) :: ((Npos (Coq_xI (Coq_xO (Coq_xI (Coq_xO (Coq_xO
    (Coq_xI Coq_xH))))))) :: ((Npos (Coq_xO (Coq_xI (Coq_xI (Coq_xI (Coq_xO
    (Coq_xI Coq_xH))))))) :: ((Npos (Coq_xO (Coq_xO (Coq_xI (Coq_xO (Coq_xI
    (Coq_xI Coq_xH))))))) :: ((Npos (Coq_xO (Coq_xI (Coq_xO (Coq_xI (Coq_xI
    Coq_xH)))))) :: ((Npos (Coq_xO (Coq_xO (Coq_xO (Coq_xI (Coq_xI (Coq_xI
    Coq_xH))))))) :: ((Npos (Coq_xI (Coq_xO (Coq_xI (Coq_xI (Coq_xO (Coq_xI
    Coq_xH))))))) :: ((Npos (Coq_xO (Coq_xO (Coq_xI (Coq_xI (Coq_xO (Coq_xI
    Coq_xH))))))) :: ((Npos (Coq_xO (Coq_xI (Coq_xI (Coq_xI (Coq_xO (Coq_xI
    Coq_xH))))))) :: ((Npos (Coq_xI (Coq_xI (Coq_xO (Coq_xO (Coq_xI (Coq_xI
    Coq_xH))))))) :: ((Npos (Coq_xO (Coq_xI (Coq_xO (Coq_xI (Coq_xI
    Coq_xH)))))) :: ((Npos (Coq_xI (Coq_xI (Coq_xO (Coq_xO (Coq_xI (Coq_xI
    Coq_xH))))))) :: ((Npos (Coq_xO (Coq_xO (Coq_xI (Coq_xO (Coq_xI (Coq_xI
    Coq_xH))))))) :: ((Npos (Coq_xI (Coq_xO (Coq_xO (Coq_xI (Coq_xI (Coq_xI
    Coq_xH))))))) :: ((Npos (Coq_xO (Coq_xO (Coq_xI (Coq_xI (Coq_xO (Coq_xI
    Coq_xH))))))) :: ((Npos (Coq_xI (Coq_xO (Coq_xI (Coq_xO (Coq_xO (Coq_xI
    Coq_xH))))))) :: ((Npos (Coq_xO (Coq_xI (Coq_xO (Coq_xI (Coq_xI
    Coq_xH)))))) :: ((Npos (Coq_xI (Coq_xO (Coq_xO (Coq_xO (Coq_xI
    Coq_xH)))))) :: ((Npos (Coq_xO (Coq_xI (Coq_xI (Coq_xI (Coq_xO
    Coq_xH)))))) :: ((Npos (Coq_xO (Coq_xO (Coq_xO (Coq_xO (Coq_xI
    Coq_xH)))))) :: []))))))))))))))))))))))))))))))))))))))))))))))), ((Npos
    (Coq_xI (Coq_xI (Coq_xO (Coq_xO (Coq_xI (Coq_xI Coq_xH))))))) :: ((Npos
    (Coq_xO (Coq_xO (Coq_xI (Coq_xO (Coq_xI (Coq_xI Coq_xH))))))) :: ((Npos
    (Coq_xI (Coq_xO (Coq_xO (Coq_xI (Coq_xI (Coq_xI Coq_xH))))))) :: ((Npos
    (Coq_xO (Coq_xO (Coq_xI (Coq_xI (Coq_xO (Coq_xI Coq_xH))))))) :: ((Npos
    (Coq_xI (Coq_xO (Coq_xI (Coq_xO (Coq_xO (Coq_xI Coq_xH))))))) :: ((Npos
    (Coq_xI (Coq_xO (Coq_xI (Coq_xI (Coq_xO Coq_xH)))))) :: ((Npos (Coq_xO
    (Coq_xI (Coq_xI (Coq_xI (Coq_xO (Coq_xI Coq_xH))))))) :: ((Npos (Coq_xI
    (Coq_xO (Coq_xO (Coq_xO (Coq_xO (Coq_xI Coq_xH))))))) :: ((Npos (Coq_xI
    (Coq_xO (Coq_xI (Coq_xI (Coq_xO (Coq_xI Coq_xH))))))) :: ((Npos (Coq_xI
    (Coq_xO (Coq_xI (Coq_xO (Coq_xO (Coq_xI
    Coq_xH))))))) :: []))))))))))) :: ((((Npos (Coq_xI (Coq_xO (Coq_xI
    (Coq_xO (Coq_xI (Coq_xI Coq_xH))))))) :: ((Npos (Coq_xO (Coq_xI (Coq_xO
    (Coq_xO (Coq_xI (Coq_xI Coq_xH))))))) :: ((Npos (Coq_xO (Coq_xI (Coq_xI
    (Coq_xI (Coq_xO (Coq_xI Coq_xH))))))) :: ((Npos (Coq_xO (Coq_xI (Coq_xO
    (Coq_xI (Coq_xI Coq_xH)))))) :: ((Npos (Coq_xI (Coq_xI (Coq_xI (Coq_xI
    (Coq_xO (Coq_xI Coq_xH))))))) :: ((Npos (Coq_xI (Coq_xO (Coq_xO (Coq_xO
    (Coq_xO (Coq_xI Coq_xH))))))) :: ((Npos (Coq_xI (Coq_xI (Coq_xO (Coq_xO
    (Coq_xI (Coq_xI Coq_xH))))))) :: ((Npos (Coq_xI (Coq_xO (Coq_xO (Coq_xI
    (Coq_xO (Coq_xI Coq_xH))))))) :: ((Npos (Coq_xI (Coq_xI (Coq_xO (Coq_xO
    (Coq_xI (Coq_xI Coq_xH))))))) :: ((Npos (Coq_xO (Coq_xI (Coq_xO (Coq_xI
    (Coq_xI Coq_xH)))))) :: ((Npos (Coq_xO (Coq_xI (Coq_xI (Coq_xI (Coq_xO
    (Coq_xI Coq_xH))))))) :: ((Npos (Coq_xI (Coq_xO (Coq_xO (Coq_xO (Coq_xO
    (Coq_xI Coq_xH))))))) :: ((Npos (Coq_xI (Coq_xO (Coq_xI (Coq_xI (Coq_xO
    (Coq_xI Coq_xH))))))) :: ((Npos (Coq_xI (Coq_xO (Coq_xI (Coq_xO (Coq_xO
    (Coq_xI Coq_xH))))))) :: ((Npos (Coq_xI (Coq_xI (Coq_xO (Coq_xO (Coq_xI
    (Coq_xI Coq_xH))))))) :: ((Npos (Coq_xO (Coq_xI (Coq_xO (Coq_xI (Coq_xI
    Coq_xH)))))) :: ((Npos (Coq_xO (Coq_xO (Coq_xI (Coq_xO (Coq_xI (Coq_xI
    Coq_xH))))))) :: ((Npos (Coq_xI (Coq_xI (Coq_xO (Coq_xO (Coq_xO (Coq_xI
    Coq_xH))))))) :: ((Npos (Coq_xO (Coq_xI (Coq_xO (Coq_xI (Coq_xI
    Coq_xH)))))) :: ((Npos (Coq_xI (Coq_xI (Coq_xI (Coq_xI (Coq_xO (Coq_xI
    Coq_xH))))))) :: ((Npos (Coq_xO (Coq_xO (Coq_xO (Coq_xO (Coq_xI (Coq_xI
    Coq_xH))))))) :: ((Npos (Coq_xI (Coq_xO (Coq_xI (Coq_xO (Coq_xO (Coq_xI
    Coq_xH))))))) :: ((Npos (Coq_xO (Coq_xI (Coq_xI (Coq_xI (Coq_xO (Coq_xI
    Coq_xH))))))) :: ((Npos (Coq_xO (Coq_xO (Coq_xI (Coq_xO (Coq_xO (Coq_xI
    Coq_xH))))))) :: ((Npos (Coq_xI (Coq_xI (Coq_xI (Coq_xI (Coq_xO (Coq_xI
    Coq_xH))))))) :: ((Npos (Coq_xI (Coq_xI (Coq_xO (Coq_xO (Coq_xO (Coq_xI
    Coq_xH))))))) :: ((Npos (Coq_xI (Coq_xO (Coq_xI (Coq_xO (Coq_xI (Coq_xI
    Coq_xH))))))) :: ((Npos (Coq_xI (Coq_xO (Coq_xI (Coq_xI (Coq_xO (Coq_xI
    Coq_xH))))))) :: ((Npos (Coq_xI (Coq_xO (Coq_xI (Coq_xO (Coq_xO (Coq_xI
    Coq_xH))))))) :: ((Npos (Coq_xO (Coq_xI (Coq_xI (Coq_xI (Coq_xO (Coq_xI
    Coq_xH))))))) :: ((Npos (Coq_xO (Coq_xO (Coq_xI (Coq_xO (Coq_xI (Coq_xI
    Coq_xH))))))) :: ((Npos (Coq_xO (Coq_xI (Coq_xO (Coq_xI (Coq_xI
    Coq_xH)))))) :: ((Npos (Coq_xO (Coq_xO (Coq_xO (Coq_xI (Coq_xI (Coq_xI
    Coq_xH))))))) :: ((Npos (Coq_xI (Coq_xO (Coq_xI (Coq_xI (Coq_xO (Coq_xI
    Coq_xH))))))) :: ((Npos (Coq_xO (Coq_xO (Coq_xI (Coq_xI (Coq_xO (Coq_xI
    Coq_xH))))))) :: ((Npos (Coq_xO (Coq_xI (Coq_xI (Coq_xI (Coq_xO (Coq_xI
    Coq_xH))))))) :: ((Npos (Coq_xI (Coq_xI (Coq_xO (Coq_xO (Coq_xI (Coq_xI
    Coq_xH))))))) :: ((Npos (Coq_xO (Coq_xI (Coq_xO (Coq_xI (Coq_xI
    Coq_xH)))))) :: ((Npos (Coq_xI (Coq_xI (Coq_xO (Coq_xO (Coq_xI (Coq_xI
    Coq_xH))))))) :: ((Npos (Coq_xO (Coq_xO (Coq_xI (Coq_xO (Coq_xI (Coq_xI
    Coq_xH))))))) :: ((Npos (Coq_xI (Coq_xO (Coq_xO (Coq_xI (Coq_xI (Coq_xI
    Coq_xH))))))) :: ((Npos (Coq_xO (Coq_xO (Coq_xI (Coq_xI (Coq_xO (Coq_xI
    Coq_xH))))))) :: ((Npos (Coq_xI (Coq_xO (Coq_xI (Coq_xO (Coq_xO (Coq_xI
    Coq_xH))))))) :: ((Npos (Coq_xO (Coq_xI (Coq_xO (Coq_xI (Coq_xI
    Coq_xH)))))) :: ((Npos (Coq_xI (Coq_xO (Coq_xO (Coq_xO (Coq_xI
    Coq_xH)))))) :: ((Npos (Coq_xO (Coq_xI (Coq_xI (Coq_xI (Coq_xO
    Coq_xH)))))) :: ((Npos (Coq_xO (Coq_xO (Coq_xO (Coq_xO (Coq_xI
    Coq_xH)))))) :: []))))))))))))))))))))))))))))))))))))))))))))))), ((Npos
    (Coq_xO (Coq_xO (Coq_xI (Coq_xO (Coq_xI (Coq_xI Coq_xH))))))) :: ((Npos
    (Coq_xI (Coq_xO (Coq_xI (Coq_xO (Coq_xO (Coq_xI Coq_xH))))))) :: ((Npos
    (Coq_xO (Coq_xO (Coq_xO (Coq_xI (Coq_xI (Coq_xI Coq_xH))))))) :: ((Npos
    (Coq_xO (Coq_xO (Coq_xI (Coq_xO (Coq_xI (Coq_xI Coq_xH))))))) :: ((Npos
    (Coq_xI (Coq_xO (Coq_xI (Coq_xI (Coq_xO Coq_xH)))))) :: ((Npos (Coq_xO
    (Coq_xO (Coq_xI (Coq_xI (Coq_xO (Coq_xI Coq_xH))))))) :: ((Npos (Coq_xI
    (Coq_xO (Coq_xO (Coq_xI (Coq_xO (Coq_xI Coq_xH))))))) :: ((Npos (Coq_xO
    (Coq_xI (Coq_xI (Coq_xI (Coq_xO (Coq_xI Coq_xH))))))) :: ((Npos (Coq_xI
    (Coq_xO (Coq_xI (Coq_xO (Coq_xO (Coq_xI Coq_xH))))))) :: ((Npos (Coq_xI
    (Coq_xO (Coq_xI (Coq_xI (Coq_xO Coq_xH)))))) :: ((Npos (Coq_xO (Coq_xO
    (Coq_xI (Coq_xO (Coq_xI (Coq_xI Coq_xH))))))) :: ((Npos (Coq_xO (Coq_xO
    (Coq_xO (Coq_xI (Coq_xO (Coq_xI Coq_xH))))))) :: ((Npos (Coq_xO (Coq_xI
    (Coq_xO (Coq_xO (Coq_xI (Coq_xI Coq_xH))))))) :: ((Npos (Coq_xI (Coq_xI
    (Coq_xI (Coq_xI (Coq_xO (Coq_xI Coq_xH))))))) :: ((Npos (Coq_xI (Coq_xO
    (Coq_xI (Coq_xO (Coq_xI (Coq_xI Coq_xH))))))) :: ((Npos (Coq_xI (Coq_xI
    (Coq_xI (Coq_xO (Coq_xO (Coq_xI Coq_xH))))))) :: ((Npos (Coq_xO (Coq_xO
    (Coq_xO (Coq_xI (Coq_xO (Coq_xI Coq_xH))))))) :: ((Npos (Coq_xI (Coq_xO
    (Coq_xI (Coq_xI (Coq_xO Coq_xH)))))) :: ((Npos (Coq_xO (Coq_xO (Coq_xI
    (Coq_xO (Coq_xI (Coq_xI Coq_xH))))))) :: ((Npos (Coq_xI (Coq_xO (Coq_xI
    (Coq_xO (Coq_xO (Coq_xI Coq_xH))))))) :: ((Npos (Coq_xO (Coq_xO (Coq_xO
    (Coq_xI (Coq_xI (Coq_xI Coq_xH))))))) :: ((Npos (Coq_xO (Coq_xO (Coq_xI
    (Coq_xO (Coq_xI (Coq_xI Coq_xH))))))) :: ((Npos (Coq_xI (Coq_xO (Coq_xI
    (Coq_xI (Coq_xO Coq_xH)))))) :: ((Npos (Coq_xI (Coq_xI (Coq_xO (Coq_xO
    (Coq_xI (Coq_xI Coq_xH))))))) :: ((Npos (Coq_xO (Coq_xO (Coq_xI (Coq_xO
    (Coq_xI (Coq_xI Coq_xH))))))) :: ((Npos (Coq_xI (Coq_xO (Coq_xO (Coq_xI
    (Coq_xI (Coq_xI Coq_xH))))))) :: ((Npos (Coq_xO (Coq_xO (Coq_xI (Coq_xI
    (Coq_xO (Coq_xI Coq_xH))))))) :: ((Npos (Coq_xI (Coq_xO (Coq_xI (Coq_xO
    (Coq_xO (Coq_xI
    Coq_xH))))))) :: []))))))))))))))))))))))))))))) :: ((((Npos (Coq_xI
    (Coq_xO (Coq_xI (Coq_xO (Coq_xI (Coq_xI Coq_xH))))))) :: ((Npos (Coq_xO
    (Coq_xI (Coq_xO (Coq_xO (Coq_xI (Coq_xI Coq_xH))))))) :: ((Npos (Coq_xO
    (Coq_xI (Coq_xI (Coq_xI (Coq_xO (Coq_xI Coq_xH))))))) :: ((Npos (Coq_xO
    (Coq_xI (Coq_xO (Coq_xI (Coq_xI Coq_xH)))))) :: ((Npos (Coq_xI (Coq_xI
    (Coq_xI (Coq_xI (Coq_xO (Coq_xI Coq_xH))))))) :: ((Npos (Coq_xI (Coq_xO
    (Coq_xO (Coq_xO (Coq_xO (Coq_xI Coq_xH))))))) :: ((Npos (Coq_xI (Coq_xI
    (Coq_xO (Coq_xO (Coq_xI (Coq_xI Coq_xH))))))) :: ((Npos (Coq_xI (Coq_xO
    (Coq_xO (Coq_xI (Coq_xO (Coq_xI Coq_xH))))))) :: ((Npos (Coq_xI (Coq_xI
    (Coq_xO (Coq_xO (Coq_xI (Coq_xI Coq_xH))))))) :: ((Npos (Coq_xO (Coq_xI
    (Coq_xO (Coq_xI (Coq_xI Coq_xH)))))) :: ((Npos (Coq_xO (Coq_xI (Coq_xI
    (Coq_xI (Coq_xO (Coq_xI Coq_xH))))))) :: ((Npos (Coq_xI (Coq_xO (Coq_xO
    (Coq_xO (Coq_xO (Coq_xI Coq_xH))))))) :: ((Npos (Coq_xI (Coq_xO (Coq_xI
    (Coq_xI (Coq_xO (Coq_xI Coq_xH))))))) :: ((Npos (Coq_xI (Coq_xO (Coq_xI
    (Coq_xO (Coq_xO (Coq_xI Coq_xH))))))) :: ((Npos (Coq_xI (Coq_xI (Coq_xO
    (Coq_xO (Coq_xI (Coq_xI Coq_xH))))))) :: ((Npos (Coq_xO (Coq_xI (Coq_xO
    (Coq_xI (Coq_xI Coq_xH)))))) :: ((Npos (Coq_xO (Coq_xO (Coq_xI (Coq_xO
    (Coq_xI (Coq_xI Coq_xH))))))) :: ((Npos (Coq_xI (Coq_xI (Coq_xO (Coq_xO
    (Coq_xO (Coq_xI Coq_xH))))))) :: ((Npos (Coq_xO (Coq_xI (Coq_xO (Coq_xI
    (Coq_xI Coq_xH)))))) :: ((Npos (Coq_xI (Coq_xI (Coq_xI (Coq_xI (Coq_xO
    (Coq_xI Coq_xH))))))) :: ((Npos (Coq_xO (Coq_xO (Coq_xO (Coq_xO (Coq_xI
    (Coq_xI Coq_xH))))))) :: ((Npos (Coq_xI (Coq_xO (Coq_xI (Coq_xO (Coq_xO
    (Coq_xI Coq_xH))))))) :: ((Npos (Coq_xO (Coq_xI (Coq_xI (Coq_xI (Coq_xO
    (Coq_xI Coq_xH))))))) :: ((Npos (Coq_xO (Coq_xO (Coq_xI (Coq_xO (Coq_xO
    (Coq_xI Coq_xH))))))) :: ((Npos (Coq_xI (Coq_xI (Coq_xI (Coq_xI (Coq_xO
    (Coq_xI Coq_xH))))))) :: ((Npos (Coq_xI (Coq_xI (Coq_xO (Coq_xO (Coq_xO
    (Coq_xI Coq_xH))))))) :: ((Npos (Coq_xI (Coq_xO (Coq_xI (Coq_xO (Coq_xI
    (Coq_xI Coq_xH))))))) :: ((Npos (Coq_xI (Coq_xO (Coq_xI (Coq_xI (Coq_xO
    (Coq_xI Coq_xH))))))) :: ((Npos (Coq_xI (Coq_xO (Coq_xI (Coq_xO (Coq_xO
    (Coq_xI Coq_xH))))))) :: ((Npos (Coq_xO (Coq_xI (Coq_xI (Coq_xI (Coq_xO
    (Coq_xI Coq_xH))))))) :: ((Npos (Coq_xO (Coq_xO (Coq_xI (Coq_xO (Coq_xI
    (Coq_xI Coq_xH))))))) :: ((Npos (Coq_xO (Coq_xI (Coq_xO (Coq_xI (Coq_xI
    Coq_xH)))))) :: ((Npos (Coq_xO (Coq_xO (Coq_xO (Coq_xI (Coq_xI (Coq_xI
    Coq_xH))))))) :: ((Npos (Coq_xI (Coq_xO (Coq_xI (Coq_xI (Coq_xO (Coq_xI
    Coq_xH))))))) :: ((Npos (Coq_xO (Coq_xO (Coq_xI (Coq_xI (Coq_xO (Coq_xI
    Coq_xH))))))) :: ((Npos (Coq_xO (Coq_xI (Coq_xI (Coq_xI (Coq_xO (Coq_xI
    Coq_xH))))))) :: ((Npos (Coq_xI (Coq_xI (Coq_xO (Coq_xO (Coq_xI (Coq_xI
    Coq_xH))))))) :: ((Npos (Coq_xO (Coq_xI (Coq_xO (Coq_xI (Coq_xI
    Coq_xH)))))) :: ((Npos (Coq_xO (Coq_xO (Coq_xI (Coq_xO (Coq_xI (Coq_xI
    Coq_xH))))))) :: ((Npos (Coq_xI (Coq_xO (Coq_xO (Coq_xO (Coq_xO (Coq_xI
    Coq_xH))))))) :: ((Npos (Coq_xO (Coq_xI (Coq_xO (Coq_xO (Coq_xO (Coq_xI
    Coq_xH))))))) :: ((Npos (Coq_xO (Coq_xO (Coq_xI (Coq_xI (Coq_xO (Coq_xI
    Coq_xH))))))) :: ((Npos (Coq_xI (Coq_xO (Coq_xI (Coq_xO (Coq_xO (Coq_xI
    Coq_xH))))))) :: ((Npos (Coq_xO (Coq_xI (Coq_xO (Coq_xI (Coq_xI
    Coq_xH)))))) :: ((Npos (Coq_xI (Coq_xO (Coq_xO (Coq_xO (Coq_xI
    Coq_xH)))))) :: ((Npos (Coq_xO (Coq_xI (Coq_xI (Coq_xI (Coq_xO
    Coq_xH)))))) :: ((Npos (Coq_xO (Coq_xO (Coq_xO (Coq_xO (Coq_xI
    Coq_xH)))))) :: []))))))))))))))))))))))))))))))))))))))))))))))), ((Npos
    (Coq_xO (Coq_xO (Coq_xI (Coq_xO (Coq_xO (Coq_xI Coq_xH))))))) :: ((Npos
    (Coq_xI (Coq_xO (Coq_xI (Coq_xO (Coq_xO (Coq_xI Coq_xH))))))) :: ((Npos
    (Coq_xO (Coq_xI (Coq_xI (Coq_xO (Coq_xO (Coq_xI Coq_xH))))))) :: ((Npos
    (Coq_xI (Coq_xO (Coq_xO (Coq_xO (Coq_xO (Coq_xI Coq_xH))))))) :: ((Npos
    (Coq_xI (Coq_xO (Coq_xI (Coq_xO (Coq_xI (Coq_xI Coq_xH))))))) :: ((Npos
    (Coq_xO (Coq_xO (Coq_xI (Coq_xI (Coq_xO (Coq_xI Coq_xH))))))) :: ((Npos
    (Coq_xO (Coq_xO (Coq_xI (Coq_xO (Coq_xI (Coq_xI Coq_xH))))))) :: ((Npos
    (Coq_xI (Coq_xO (Coq_xI (Coq_xI (Coq_xO Coq_xH)))))) :: ((Npos (Coq_xI
    (Coq_xI (Coq_xO (Coq_xO (Coq_xO (Coq_xI Coq_xH))))))) :: ((Npos (Coq_xI
    (Coq_xO (Coq_xI (Coq_xO (Coq_xO (Coq_xI Coq_xH))))))) :: ((Npos (Coq_xO
    (Coq_xO (Coq_xI (Coq_xI (Coq_xO (Coq_xI Coq_xH))))))) :: ((Npos (Coq_xO
    (Coq_xO (Coq_xI (Coq_xI (Coq_xO (Coq_xI Coq_xH))))))) :: ((Npos (Coq_xI
    (Coq_xO (Coq_xI (Coq_xI (Coq_xO Coq_xH)))))) :: ((Npos (Coq_xI (Coq_xI
    (Coq_xO (Coq_xO (Coq_xI (Coq_xI Coq_xH))))))) :: ((Npos (Coq_xO (Coq_xO
    (Coq_xI (Coq_xO (Coq_xI (Coq_xI Coq_xH))))))) :: ((Npos (Coq_xI (Coq_xO
    (Coq_xO (Coq_xI (Coq_xI (Coq_xI Coq_xH))))))) :: ((Npos (Coq_xO (Coq_xO
    (Coq_xI (Coq_xI (Coq_xO (Coq_xI Coq_xH))))))) :: ((Npos (Coq_xI (Coq_xO
    (Coq_xI (Coq_xO (Coq_xO (Coq_xI Coq_xH))))))) :: ((Npos (Coq_xI (Coq_xO
    (Coq_xI (Coq_xI (Coq_xO Coq_xH)))))) :: ((Npos (Coq_xO (Coq_xI (Coq_xI
    (Coq_xI (Coq_xO (Coq_xI Coq_xH))))))) :: ((Npos (Coq_xI (Coq_xO (Coq_xO
    (Coq_xO (Coq_xO (Coq_xI Coq_xH))))))) :: ((Npos (Coq_xI (Coq_xO (Coq_xI
    (Coq_xI (Coq_xO (Coq_xI Coq_xH))))))) :: ((Npos (Coq_xI (Coq_xO (Coq_xI
    (Coq_xO (Coq_xO (Coq_xI
    Coq_xH))))))) :: [])))))))))))))))))))))))) :: ((((Npos (Coq_xI (Coq_xO
    (Coq_xI (Coq_xO (Coq_xI (Coq_xI Coq_xH))))))) :: ((Npos (Coq_xO (Coq_xI
    (Coq_xO (Coq_xO (Coq_xI (Coq_xI Coq_xH))))))) :: ((Npos (Coq_xO (Coq_xI
    (Coq_xI (Coq_xI (Coq_xO (Coq_xI Coq_xH))))))) :: ((Npos (Coq_xO (Coq_xI
    (Coq_xO (Coq_xI (Coq_xI Coq_xH)))))) :: ((Npos (Coq_xI (Coq_xI (Coq_xI
    (Coq_xI (Coq_xO (Coq_xI Coq_xH))))))) :: ((Npos (Coq_xI (Coq_xO (Coq_xO
    (Coq_xO (Coq_xO (Coq_xI Coq_xH))))))) :: ((Npos (Coq_xI (Coq_xI (Coq_xO
    (Coq_xO (Coq_xI (Coq_xI Coq_xH))))))) :: ((Npos (Coq_xI (Coq_xO (Coq_xO
    (Coq_xI (Coq_xO (Coq_xI Coq_xH))))))) :: ((Npos (Coq_xI (Coq_xI (Coq_xO
    (Coq_xO (Coq_xI (Coq_xI Coq_xH))))))) :: ((Npos (Coq_xO (Coq_xI (Coq_xO
    (Coq_xI (Coq_xI Coq_xH)))))) :: ((Npos (Coq_xO (Coq_xI (Coq_xI (Coq_xI
    (Coq_xO (Coq_xI Coq_xH))))))) :: ((Npos (Coq_xI (Coq_xO (Coq_xO (Coq_xO
    (Coq_xO (Coq_xI Coq_xH))))))) :: ((Npos (Coq_xI (Coq_xO (Coq_xI (Coq_xI
    (Coq_xO (Coq_xI Coq_xH))))))) :: ((Npos (Coq_xI (Coq_xO (Coq_xI (Coq_xO
    (Coq_xO (Coq_xI Coq_xH))))))) :: ((Npos (Coq_xI (Coq_xI (Coq_xO (Coq_xO
    (Coq_xI (Coq_xI Coq_xH))))))) :: ((Npos (Coq_xO (Coq_xI (Coq_xO (Coq_xI
    (Coq_xI Coq_xH)))))) :: ((Npos (Coq_xO (Coq_xO (Coq_xI (Coq_xO (Coq_xI
    (Coq_xI Coq_xH))))))) :: ((Npos (Coq_xI (Coq_xI (Coq_xO (Coq_xO (Coq_xO
    (Coq_xI Coq_xH))))))) :: ((Npos (Coq_xO (Coq_xI (Coq_xO (Coq_xI (Coq_xI
    Coq_xH)))))) :: ((Npos (Coq_xI (Coq_xI (Coq_xI (Coq_xI (Coq_xO (Coq_xI
    Coq_xH))))))) :: ((Npos (Coq_xO (Coq_xO (Coq_xO (Coq_xO (Coq_xI (Coq_xI
    Coq_xH))))))) :: ((Npos (Coq_xI (Coq_xO (Coq_xI (Coq_xO (Coq_xO (Coq_xI
    Coq_xH))))))) :: ((Npos (Coq_xO (Coq_xI (Coq_xI (Coq_xI (Coq_xO (Coq_xI
    Coq_xH))))))) :: ((Npos (Coq_xO (Coq_xO (Coq_xI (Coq_xO (Coq_xO (Coq_xI
    Coq_xH))))))) :: ((Npos (Coq_xI (Coq_xI (Coq_xI (Coq_xI (Coq_xO (Coq_xI
    Coq_xH))))))) :: ((Npos (Coq_xI (Coq_xI (Coq_xO (Coq_xO (Coq_xO (Coq_xI
    Coq_xH))))))) :: ((Npos (Coq_xI (Coq_xO (Coq_xI (Coq_xO (Coq_xI (Coq_xI
    Coq_xH))))))) :: ((Npos (Coq_xI (Coq_xO (Coq_xI (Coq_xI (Coq_xO (Coq_xI
    Coq_xH))))))) :: ((Npos (Coq_xI (Coq_xO (Coq_xI (Coq_xO (Coq_xO (Coq_xI
    Coq_xH))))))) :: ((Npos (Coq_xO (Coq_xI (Coq_xI (Coq_xI (Coq_xO (Coq_xI
    Coq_xH))))))) :: ((Npos (Coq_xO (Coq_xO (Coq_xI (Coq_xO (Coq_xI (Coq_xI
    Coq_xH))))))) :: ((Npos (Coq_xO (Coq_xI (Coq_xO (Coq_xI (Coq_xI
    Coq_xH)))))) :: ((Npos (Coq_xO (Coq_xO (Coq_xO (Coq_xI (Coq_xI (Coq_xI
    Coq_xH))))))) :: ((Npos (Coq_xI (Coq_xO (Coq_xI (Coq_xI (Coq_xO (Coq_xI
    Coq_xH))))))) :: ((Npos (Coq_xO (Coq_xO (Coq_xI (Coq_xI (Coq_xO (Coq_xI
    Coq_xH))))))) :: ((Npos (Coq_xO (Coq_xI (Coq_xI (Coq_xI (Coq_xO (Coq_xI
    Coq_xH))))))) :: ((Npos (Coq_xI (Coq_xI (Coq_xO (Coq_xO (Coq_xI (Coq_xI
    Coq_xH))))))) :: ((Npos (Coq_xO (Coq_xI (Coq_xO (Coq_xI (Coq_xI
    Coq_xH)))))) :: ((Npos (Coq_xO (Coq_xO (Coq_xI (Coq_xO (Coq_xI (Coq_xI
    Coq_xH))))))) :: ((Npos (Coq_xI (Coq_xO (Coq_xO (Coq_xO (Coq_xO (Coq_xI
    Coq_xH))))))) :: ((Npos (Coq_xO (Coq_xI (Coq_xO (Coq_xO (Coq_xO (Coq_xI
    Coq_xH))))))) :: ((Npos (Coq_xO (Coq_xO (Coq_xI (Coq_xI (Coq_xO (Coq_xI
    Coq_xH))))))) :: ((Npos (Coq_xI (Coq_xO (Coq_xI (Coq_xO (Coq_xO (Coq_xI
    Coq_xH))))))) :: ((Npos (Coq_xO (Coq_xI (Coq_xO (Coq_xI (Coq_xI
    Coq_xH)))))) :: ((Npos (Coq_xI (Coq_xO (Coq_xO (Coq_xO (Coq_xI
    Coq_xH)))))) :: ((Npos (Coq_xO (Coq_xI (Coq_xI (Coq_xI (Coq_xO
    Coq_xH)))))) :: ((Npos (Coq_xO (Coq_xO (Coq_xO (Coq_xO (Coq_xI
    Coq_xH)))))) :: []))))))))))))))))))))))))))))))))))))))))))))))), ((Npos
    (Coq_xO (Coq_xO (Coq_xO (Coq_xO (Coq_xI (Coq_xI Coq_xH))))))) :: ((Npos
    (Coq_xI (Coq_xO (Coq_xO (Coq_xO (Coq_xO (Coq_xI Coq_xH))))))) :: ((Npos
    (Coq_xO (Coq_xI (Coq_xO (Coq_xO (Coq_xI (Coq_xI Coq_xH))))))) :: ((Npos
    (Coq_xI (Coq_xO (Coq_xO (Coq_xO (Coq_xO (Coq_xI Coq_xH))))))) :: ((Npos
    (Coq_xI (Coq_xI (Coq_xI (Coq_xO (Coq_xO (Coq_xI Coq_xH))))))) :: ((Npos
    (Coq_xO (Coq_xI (Coq_xO (Coq_xO (Coq_xI (Coq_xI Coq_xH))))))) :: ((Npos
    (Coq_xI (Coq_xO (Coq_xO (Coq_xO (Coq_xO (Coq_xI Coq_xH))))))) :: ((Npos
    (Coq_xO (Coq_xO (Coq_xO (Coq_xO (Coq_xI (Coq_xI Coq_xH))))))) :: ((Npos
    (Coq_xO (Coq_xO (Coq_xO (Coq_xI (Coq_xO (Coq_xI Coq_xH))))))) :: ((Npos
    (Coq_xI (Coq_xO (Coq_xI (Coq_xI (Coq_xO Coq_xH)))))) :: ((Npos (Coq_xI
    (Coq_xI (Coq_xO (Coq_xO (Coq_xI (Coq_xI Coq_xH))))))) :: ((Npos (Coq_xO
    (Coq_xO (Coq_xI (Coq_xO (Coq_xI (Coq_xI Coq_xH))))))) :: ((Npos (Coq_xI
    (Coq_xO (Coq_xO (Coq_xI (Coq_xI (Coq_xI Coq_xH))))))) :: ((Npos (Coq_xO
    (Coq_xO (Coq_xI (Coq_xI (Coq_xO (Coq_xI Coq_xH))))))) :: ((Npos (Coq_xI
    (Coq_xO (Coq_xI (Coq_xO (Coq_xO (Coq_xI Coq_xH))))))) :: ((Npos (Coq_xI
    (Coq_xO (Coq_xI (Coq_xI (Coq_xO Coq_xH)))))) :: ((Npos (Coq_xO (Coq_xI
    (Coq_xI (Coq_xI (Coq_xO (Coq_xI Coq_xH))))))) :: ((Npos (Coq_xI (Coq_xO
    (Coq_xO (Coq_xO (Coq_xO (Coq_xI Coq_xH))))))) :: ((Npos (Coq_xI (Coq_xO
    (Coq_xI (Coq_xI (Coq_xO (Coq_xI Coq_xH))))))) :: ((Npos (Coq_xI (Coq_xO
    (Coq_xI (Coq_xO (Coq_xO (Coq_xI
    Coq_xH))))))) :: []))))))))))))))))))))) :: ((((Npos (Coq_xI (Coq_xO
    (Coq_xI (Coq_xO (Coq_xI (Coq_xI Coq_xH))))))) :: ((Npos (Coq_xO (Coq_xI
    (Coq_xO (Coq_xO (Coq_xI (Coq_xI Coq_xH))))))) :: ((Npos (Coq_xO (Coq_xI
    (Coq_xI (Coq_xI (Coq_xO (Coq_xI Coq_xH))))))) :: ((Npos (Coq_xO (Coq_xI
    (Coq_xO (Coq_xI (Coq_xI Coq_xH)))))) :: ((Npos (Coq_xI (Coq_xI (Coq_xI
    (Coq_xI (Coq_xO (Coq_xI Coq_xH))))))) :: ((Npos (Coq_xI (Coq_xO (Coq_xO
    (Coq_xO (Coq_xO (Coq_xI Coq_xH))))))) :: ((Npos (Coq_xI (Coq_xI (Coq_xO
    (Coq_xO (Coq_xI (Coq_xI Coq_xH))))))) :: ((Npos (Coq_xI (Coq_xO (Coq_xO
    (Coq_xI (Coq_xO (Coq_xI Coq_xH))))))) :: ((Npos (Coq_xI (Coq_xI (Coq_xO
    (Coq_xO (Coq_xI (Coq_xI Coq_xH))))))) :: ((Npos (Coq_xO (Coq_xI (Coq_xO
    (Coq_xI (Coq_xI Coq_xH)))))) :: ((Npos (Coq_xO (Coq_xI (Coq_xI (Coq_xI
    (Coq_xO (Coq_xI Coq_xH))))))) :: ((Npos (Coq_xI (Coq_xO (Coq_xO (Coq_xO
    (Coq_xO (Coq_xI Coq_xH))))))) :: ((Npos (Coq_xI (Coq_xO (Coq_xI (Coq_xI
    (Coq_xO (Coq_xI Coq_xH))))))) :: ((Npos (Coq_xI (Coq_xO (Coq_xI (Coq_xO
    (Coq_xO (Coq_xI Coq_xH))))))) :: ((Npos (Coq_xI (Coq_xI (Coq_xO (Coq_xO
    (Coq_xI (Coq_xI Coq_xH))))))) :: ((Npos (Coq_xO (Coq_xI (Coq_xO (Coq_xI
    (Coq_xI Coq_xH)))))) :: ((Npos (Coq_xO (Coq_xO (Coq_xI (Coq_xO (Coq_xI
    (Coq_xI Coq_xH))))))) :: ((Npos (Coq_xI (Coq_xI (Coq_xO (Coq_xO (Coq_xO
    (Coq_xI Coq_xH))))))) :: ((Npos (Coq_xO (Coq_xI (Coq_xO (Coq_xI (Coq_xI
    Coq_xH)))))) :: ((Npos (Coq_xI (Coq_xI (Coq_xI (Coq_xI (Coq_xO (Coq_xI
    Coq_xH))))))) :: ((Npos (Coq_xO (Coq_xO (Coq_xO (Coq_xO (Coq_xI (Coq_xI
    Coq_xH))))))) :: ((Npos (Coq_xI (Coq_xO (Coq_xI (Coq_xO (Coq_xO (Coq_xI
    Coq_xH))))))) :: ((Npos (Coq_xO (Coq_xI (Coq_xI (Coq_xI (Coq_xO (Coq_xI
    Coq_xH))))))) :: ((Npos (Coq_xO (Coq_xO (Coq_xI (Coq_xO (Coq_xO (Coq_xI
    Coq_xH))))))) :: ((Npos (Coq_xI (Coq_xI (Coq_xI (Coq_xI (Coq_xO (Coq_xI
    Coq_xH))))))) :: ((Npos (Coq_xI (Coq_xI (Coq_xO (Coq_xO (Coq_xO (Coq_xI
    Coq_xH))))))) :: ((Npos (Coq_xI (Coq_xO (Coq_xI (Coq_xO (Coq_xI (Coq_xI
    Coq_xH))))))) :: ((Npos (Coq_xI (Coq_xO (Coq_xI (Coq_xI (Coq_xO (Coq_xI
    Coq_xH))))))) :: ((Npos (Coq_xI (Coq_xO (Coq_xI (Coq_xO (Coq_xO (Coq_xI
    Coq_xH))))))) :: ((Npos (Coq_xO (Coq_xI (Coq_xI (Coq_xI (Coq_xO (Coq_xI
    Coq_xH))))))) :: ((Npos (Coq_xO (Coq_xO (Coq_xI (Coq_xO (Coq_xI (Coq_xI
    Coq_xH))))))) :: ((Npos (Coq_xO (Coq_xI (Coq_xO (Coq_xI (Coq_xI
    Coq_xH)))))) :: ((Npos (Coq_xO (Coq_xO (Coq_xO (Coq_xI (Coq_xI (Coq_xI
    Coq_xH))))))) :: ((Npos (Coq_xI (Coq_xO (Coq_xI (Coq_xI (Coq_xO (Coq_xI
    Coq_xH))))))) :: ((Npos (Coq_xO (Coq_xO (Coq_xI (Coq_xI (Coq_xO (Coq_xI
    Coq_xH))))))) :: ((Npos (Coq_xO (Coq_xI (Coq_xI (Coq_xI (Coq_xO (Coq_xI
    Coq_xH))))))) :: ((Npos (Coq_xI (Coq_xI (Coq_xO (Coq_xO (Coq_xI (Coq_xI
    Coq_xH))))))) :: ((Npos (Coq_xO (Coq_xI (Coq_xO (Coq_xI (Coq_xI
    Coq_xH)))))) :: ((Npos (Coq_xO (Coq_xO (Coq_xI (Coq_xO (Coq_xI (Coq_xI
    Coq_xH))))))) :: ((Npos (Coq_xI (Coq_xO (Coq_xO (Coq_xO (Coq_xO (Coq_xI
    Coq_xH))))))) :: ((Npos (Coq_xO (Coq_xI (Coq_xO (Coq_xO (Coq_xO (Coq_xI
    Coq_xH))))))) :: ((Npos (Coq_xO (Coq_xO (Coq_xI (Coq_xI (Coq_xO (Coq_xI
    Coq_xH))))))) :: ((Npos (Coq_xI (Coq_xO (Coq_xI (Coq_xO (Coq_xO (Coq_xI
    Coq_xH))))))) :: ((Npos (Coq_xO (Coq_xI (Coq_xO (Coq_xI (Coq_xI
    Coq_xH)))))) :: ((Npos (Coq_xI (Coq_xO (Coq_xO (Coq_xO (Coq_xI
    Coq_xH)))))) :: ((Npos (Coq_xO (Coq_xI (Coq_xI (Coq_xI (Coq_xO
    Coq_xH)))))) :: ((Npos (Coq_xO (Coq_xO (Coq_xO (Coq_xO (Coq_xI
    Coq_xH)))))) :: []))))))))))))))))))))))))))))))))))))))))))))))), ((Npos
    (Coq_xI (Coq_xI (Coq_xO (Coq_xO (Coq_xI (Coq_xI Coq_xH))))))) :: ((Npos
    (Coq_xO (Coq_xO (Coq_xI (Coq_xO (Coq_xI (Coq_xI Coq_xH))))))) :: ((Npos
    (Coq_xI (Coq_xO (Coq_xO (Coq_xI (Coq_xI (Coq_xI Coq_xH))))))) :: ((Npos
    (Coq_xO (Coq_xO (Coq_xI (Coq_xI (Coq_xO (Coq_xI Coq_xH))))))) :: ((Npos
    (Coq_xI (Coq_xO (Coq_xI (Coq_xO (Coq_xO (Coq_xI Coq_xH))))))) :: ((Npos
    (Coq_xI (Coq_xO (Coq_xI (Coq_xI (Coq_xO Coq_xH)))))) :: ((Npos (Coq_xO
    (Coq_xI (Coq_xI (Coq_xI (Coq_xO (Coq_xI Coq_xH))))))) :: ((Npos (Coq_xI
    (Coq_xO (Coq_xO (Coq_xO (Coq_xO (Coq_xI Coq_xH))))))) :: ((Npos (Coq_xI
    (Coq_xO (Coq_xI (Coq_xI (Coq_xO (Coq_xI Coq_xH))))))) :: ((Npos (Coq_xI
    (Coq_xO (Coq_xI (Coq_xO (Coq_xO (Coq_xI
    Coq_xH))))))) :: []))))))))))) :: ((((Npos (Coq_xI (Coq_xO (Coq_xI
    (Coq_xO (Coq_xI (Coq_xI Coq_xH))))))) :: ((Npos (Coq_xO (Coq_xI (Coq_xO
    (Coq_xO (Coq_xI (Coq_xI Coq_xH))))))) :: ((Npos (Coq_xO (Coq_xI (Coq_xI
    (Coq_xI (Coq_xO (Coq_xI Coq_xH))))))) :: ((Npos (Coq_xO (Coq_xI (Coq_xO
    (Coq_xI (Coq_xI Coq_xH)))))) :: ((Npos (Coq_xI (Coq_xI (Coq_xI (Coq_xI
    (Coq_xO (Coq_xI Coq_xH))))))) :: ((Npos (Coq_xI (Coq_xO (Coq_xO (Coq_xO
    (Coq_xO (Coq_xI Coq_xH))))))) :: ((Npos (Coq_xI (Coq_xI (Coq_xO (Coq_xO
    (Coq_xI (Coq_xI Coq_xH))))))) :: ((Npos (Coq_xI (Coq_xO (Coq_xO (Coq_xI
    (Coq_xO (Coq_xI Coq_xH))))))) :: ((Npos (Coq_xI (Coq_xI (Coq_xO (Coq_xO
    (Coq_xI (Coq_xI Coq_xH))))))) :: ((Npos (Coq_xO (Coq_xI (Coq_xO (Coq_xI
    (Coq_xI Coq_xH)))))) :: ((Npos (Coq_xO (Coq_xI (Coq_xI (Coq_xI (Coq_xO
    (Coq_xI Coq_xH))))))) :: ((Npos (Coq_xI (Coq_xO (Coq_xO (Coq_xO (Coq_xO
    (Coq_xI Coq_xH))))))) :: ((Npos (Coq_xI (Coq_xO (Coq_xI (Coq_xI (Coq_xO
    (Coq_xI Coq_xH))))))) :: ((Npos (Coq_xI (Coq_xO (Coq_xI (Coq_xO (Coq_xO
    (Coq_xI Coq_xH))))))) :: ((Npos (Coq_xI (Coq_xI (Coq_xO (Coq_xO (Coq_xI
    (Coq_xI Coq_xH))))))) :: ((Npos (Coq_xO (Coq_xI (Coq_xO (Coq_xI (Coq_xI
    Coq_xH)))))) :: ((Npos (Coq_xO (Coq_xO (Coq_xI (Coq_xO (Coq_xI (Coq_xI
    Coq_xH))))))) :: ((Npos (Coq_xI (Coq_xI (Coq_xO (Coq_xO (Coq_xO (Coq_xI
    Coq_xH))))))) :: ((Npos (Coq_xO (Coq_xI (Coq_xO (Coq_xI (Coq_xI
    Coq_xH)))))) :: ((Npos (Coq_xI (Coq_xI (Coq_xI (Coq_xI (Coq_xO (Coq_xI
    Coq_xH))))))) :: ((Npos (Coq_xO (Coq_xO (Coq_xO (Coq_xO (Coq_xI (Coq_xI
    Coq_xH))))))) :: ((Npos (Coq_xI (Coq_xO (Coq_xI (Coq_xO (Coq_xO (Coq_xI
    Coq_xH))))))) :: ((Npos (Coq_xO (Coq_xI (Coq_xI (Coq_xI (Coq_xO (Coq_xI
    Coq_xH))))))) :: ((Npos (Coq_xO (Coq_xO (Coq_xI (Coq_xO (Coq_xO (Coq_xI
    Coq_xH))))))) :: ((Npos (Coq_xI (Coq_xI (Coq_xI (Coq_xI (Coq_xO (Coq_xI
    Coq_xH))))))) :: ((Npos (Coq_xI (Coq_xI (Coq_xO (Coq_xO (Coq_xO (Coq_xI
    Coq_xH))))))) :: ((Npos (Coq_xI (Coq_xO (Coq_xI (Coq_xO (Coq_xI (Coq_xI
    Coq_xH))))))) :: ((Npos (Coq_xI (Coq_xO (Coq_xI (Coq_xI (Coq_xO (Coq_xI
    Coq_xH))))))) :: ((Npos (Coq_xI (Coq_xO (Coq_xI (Coq_xO (Coq_xO (Coq_xI
    Coq_xH))))))) :: ((Npos (Coq_xO (Coq_xI (Coq_xI (Coq_xI (Coq_xO (Coq_xI
    Coq_xH))))))) :: ((Npos (Coq_xO (Coq_xO (Coq_xI (Coq_xO (Coq_xI (Coq_xI
    Coq_xH))))))) :: ((Npos (Coq_xO (Coq_xI (Coq_xO (Coq_xI (Coq_xI
    Coq_xH)))))) :: ((Npos (Coq_xO (Coq_xO (Coq_xO (Coq_xI (Coq_xI (Coq_xI
    Coq_xH))))))) :: ((Npos (Coq_xI (Coq_xO (Coq_xI (Coq_xI (Coq_xO (Coq_xI
    Coq_xH))))))) :: ((Npos (Coq_xO (Coq_xO (Coq_xI (Coq_xI (Coq_xO (Coq_xI
    Coq_xH))))))) :: ((Npos (Coq_xO (Coq_xI (Coq_xI (Coq_xI (Coq_xO (Coq_xI
    Coq_xH))))))) :: ((Npos (Coq_xI (Coq_xI (Coq_xO (Coq_xO (Coq_xI (Coq_xI
    Coq_xH))))))) :: ((Npos (Coq_xO (Coq_xI (Coq_xO (Coq_xI (Coq_xI
    Coq_xH)))))) :: ((Npos (Coq_xO (Coq_xO (Coq_xI (Coq_xO (Coq_xI (Coq_xI
    Coq_xH))))))) :: ((Npos (Coq_xI (Coq_xO (Coq_xI (Coq_xO (Coq_xO (Coq_xI
    Coq_xH))))))) :: ((Npos (Coq_xO (Coq_xO (Coq_xO (Coq_xI (Coq_xI (Coq_xI
    Coq_xH))))))) :: ((Npos (Coq_xO (Coq_xO (Coq_xI (Coq_xO (Coq_xI (Coq_xI
    Coq_xH))))))) :: ((Npos (Coq_xO (Coq_xI (Coq_xO (Coq_xI (Coq_xI
    Coq_xH)))))) :: ((Npos (Coq_xI (Coq_xO (Coq_xO (Coq_xO (Coq_xI
    Coq_xH)))))) :: ((Npos (Coq_xO (Coq_xI (Coq_xI (Coq_xI (Coq_xO
    Coq_xH)))))) :: ((Npos (Coq_xO (Coq_xO (Coq_xO (Coq_xO (Coq_xI
    Coq_xH)))))) :: [])))))))))))))))))))))))))))))))))))))))))))))), ((Npos
    (Coq_xI (Coq_xI (Coq_xO (Coq_xO (Coq_xO (Coq_xI Coq_xH))))))) :: ((Npos
    (Coq_xI (Coq_xO (Coq_xO (Coq_xI (Coq_xO (Coq_xI Coq_xH))))))) :: ((Npos
    (Coq_xO (Coq_xO (Coq_xI (Coq_xO (Coq_xI (Coq_xI Coq_xH))))))) :: ((Npos
    (Coq_xI (Coq_xO (Coq_xO (Coq_xO (Coq_xO (Coq_xI Coq_xH))))))) :: ((Npos
    (Coq_xO (Coq_xO (Coq_xI (Coq_xO (Coq_xI (Coq_xI Coq_xH))))))) :: ((Npos
    (Coq_xI (Coq_xO (Coq_xO (Coq_xI (Coq_xO (Coq_xI Coq_xH))))))) :: ((Npos
    (Coq_xI (Coq_xI (Coq_xI (Coq_xI (Coq_xO (Coq_xI Coq_xH))))))) :: ((Npos
    (Coq_xO (Coq_xI (Coq_xI (Coq_xI (Coq_xO (Coq_xI Coq_xH))))))) :: ((Npos
    (Coq_xI (Coq_xO (Coq_xI (Coq_xI (Coq_xO Coq_xH)))))) :: ((Npos (Coq_xO
    (Coq_xI (Coq_xO (Coq_xO (Coq_xO (Coq_xI Coq_xH))))))) :: ((Npos (Coq_xI
    (Coq_xI (Coq_xI (Coq_xI (Coq_xO (Coq_xI Coq_xH))))))) :: ((Npos (Coq_xO
    (Coq_xO (Coq_xI (Coq_xO (Coq_xO (Coq_xI Coq_xH))))))) :: ((Npos (Coq_xI
    (Coq_xO (Coq_xO (Coq_xI (Coq_xI (Coq_xI Coq_xH))))))) :: ((Npos (Coq_xI
    (Coq_xO (Coq_xI (Coq_xI (Coq_xO Coq_xH)))))) :: ((Npos (Coq_xI (Coq_xI
    (Coq_xO (Coq_xO (Coq_xI (Coq_xI Coq_xH))))))) :: ((Npos (Coq_xO (Coq_xO
    (Coq_xI (Coq_xO (Coq_xI (Coq_xI Coq_xH))))))) :: ((Npos (Coq_xI (Coq_xO
    (Coq_xO (Coq_xI (Coq_xI (Coq_xI Coq_xH))))))) :: ((Npos (Coq_xO (Coq_xO
    (Coq_xI (Coq_xI (Coq_xO (Coq_xI Coq_xH))))))) :: ((Npos (Coq_xI (Coq_xO
    (Coq_xI (Coq_xO (Coq_xO (Coq_xI Coq_xH))))))) :: ((Npos (Coq_xI (Coq_xO
    (Coq_xI (Coq_xI (Coq_xO Coq_xH)))))) :: ((Npos (Coq_xO (Coq_xI (Coq_xI
    (Coq_xI (Coq_xO (Coq_xI Coq_xH))))))) :: ((Npos (Coq_xI (Coq_xO (Coq_xO
    (Coq_xO (Coq_xO (Coq_xI Coq_xH))))))) :: ((Npos (Coq_xI (Coq_xO (Coq_xI
    (Coq_xI (Coq_xO (Coq_xI Coq_xH))))))) :: ((Npos (Coq_xI (Coq_xO (Coq_xI
    (Coq_xO (Coq_xO (Coq_xI
    Coq_xH))))))) :: []))))))))))))))))))))))))) :: ((((Npos (Coq_xI (Coq_xO
    (Coq_xI (Coq_xO (Coq_xI (Coq_xI Coq_xH))))))) :: ((Npos (Coq_xO (Coq_xI
    (Coq_xO (Coq_xO (Coq_xI (Coq_xI Coq_xH))))))) :: ((Npos (Coq_xO (Coq_xI
    (Coq_xI (Coq_xI (Coq_xO (Coq_xI Coq_xH))))))) :: ((Npos (Coq_xO (Coq_xI
    (Coq_xO (Coq_xI (Coq_xI Coq_xH)))))) :: ((Npos (Coq_xI (Coq_xI (Coq_xI
    (Coq_xI (Coq_xO (Coq_xI Coq_xH))))))) :: ((Npos (Coq_xI (Coq_xO (Coq_xO
    (Coq_xO (Coq_xO (Coq_xI Coq_xH))))))) :: ((Npos (Coq_xI (Coq_xI (Coq_xO
    (Coq_xO (Coq_xI (Coq_xI Coq_xH))))))) :: ((Npos (Coq_xI (Coq_xO (Coq_xO
    (Coq_xI (Coq_xO (Coq_xI Coq_xH))))))) :: ((Npos (Coq_xI (Coq_xI (Coq_xO
    (Coq_xO (Coq_xI (Coq_xI Coq_xH))))))) :: ((Npos (Coq_xO (Coq_xI (Coq_xO
    (Coq_xI (Coq_xI Coq_xH)))))) :: ((Npos (Coq_xO (Coq_xI (Coq_xI (Coq_xI
    (Coq_xO (Coq_xI Coq_xH))))))) :: ((Npos (Coq_xI (Coq_xO (Coq_xO (Coq_xO
    (Coq_xO (Coq_xI Coq_xH))))))) :: ((Npos (Coq_xI (Coq_xO (Coq_xI (Coq_xI
    (Coq_xO (Coq_xI Coq_xH))))))) :: ((Npos (Coq_xI (Coq_xO (Coq_xI (Coq_xO
    (Coq_xO (Coq_xI Coq_xH))))))) :: ((Npos (Coq_xI (Coq_xI (Coq_xO (Coq_xO
    (Coq_xI (Coq_xI Coq_xH))))))) :: ((Npos (Coq_xO (Coq_xI (Coq_xO (Coq_xI
    (Coq_xI Coq_xH)))))) :: ((Npos (Coq_xO (Coq_xO (Coq_xI (Coq_xO (Coq_xI
    (Coq_xI Coq_xH))))))) :: ((Npos (Coq_xI (Coq_xI (Coq_xO (Coq_xO (Coq_xO
    (Coq_xI Coq_xH))))))) :: ((Npos (Coq_xO (Coq_xI (Coq_xO (Coq_xI (Coq_xI
    Coq_xH)))))) :: ((Npos (Coq_xI (Coq_xI (Coq_xI (Coq_xI (Coq_xO (Coq_xI
    Coq_xH))))))) :: ((Npos (Coq_xO (Coq_xO (Coq_xO (Coq_xO (Coq_xI (Coq_xI
    Coq_xH))))))) :: ((Npos (Coq_xI (Coq_xO (Coq_xI (Coq_xO (Coq_xO (Coq_xI
    Coq_xH))))))) :: ((Npos (Coq_xO (Coq_xI (Coq_xI (Coq_xI (Coq_xO (Coq_xI
    Coq_xH))))))) :: ((Npos (Coq_xO (Coq_xO (Coq_xI (Coq_xO (Coq_xO (Coq_xI
    Coq_xH))))))) :: ((Npos (Coq_xI (Coq_xI (Coq_xI (Coq_xI (Coq_xO (Coq_xI
    Coq_xH))))))) :: ((Npos (Coq_xI (Coq_xI (Coq_xO (Coq_xO (Coq_xO (Coq_xI
    Coq_xH))))))) :: ((Npos (Coq_xI (Coq_xO (Coq_xI (Coq_xO (Coq_xI (Coq_xI
    Coq_xH))))))) :: ((Npos (Coq_xI (Coq_xO (Coq_xI (Coq_xI (Coq_xO (Coq_xI
    Coq_xH))))))) :: ((Npos (Coq_xI (Coq_xO (Coq_xI (Coq_xO (Coq_xO (Coq_xI
    Coq_xH))))))) :: ((Npos (Coq_xO (Coq_xI (Coq_xI (Coq_xI (Coq_xO (Coq_xI
    Coq_xH))))))) :: ((Npos (Coq_xO (Coq_xO (Coq_xI (Coq_xO (Coq_xI (Coq_xI
    Coq_xH))))))) :: ((Npos (Coq_xO (Coq_xI (Coq_xO (Coq_xI (Coq_xI
    Coq_xH)))))) :: ((Npos (Coq_xO (Coq_xO (Coq_xO (Coq_xI (Coq_xI (Coq_xI
    Coq_xH))))))) :: ((Npos (Coq_xI (Coq_xO (Coq_xI (Coq_xI (Coq_xO (Coq_xI
    Coq_xH))))))) :: ((Npos (Coq_xO (Coq_xO (Coq_xI (Coq_xI (Coq_xO (Coq_xI
    Coq_xH))))))) :: ((Npos (Coq_xO (Coq_xI (Coq_xI (Coq_xI (Coq_xO (Coq_xI
    Coq_xH))))))) :: ((Npos (Coq_xI (Coq_xI (Coq_xO (Coq_xO (Coq_xI (Coq_xI
    Coq_xH))))))) :: ((Npos (Coq_xO (Coq_xI (Coq_xO (Coq_xI (Coq_xI
    Coq_xH)))))) :: ((Npos (Coq_xO (Coq_xO (Coq_xI (Coq_xO (Coq_xI (Coq_xI
    Coq_xH))))))) :: ((Npos (Coq_xI (Coq_xO (Coq_xI (Coq_xO (Coq_xO (Coq_xI
    Coq_xH))))))) :: ((Npos (Coq_xO (Coq_xO (Coq_xO (Coq_xI (Coq_xI (Coq_xI
    Coq_xH))))))) :: ((Npos (Coq_xO (Coq_xO (Coq_xI (Coq_xO (Coq_xI (Coq_xI
    Coq_xH))))))) :: ((Npos (Coq_xO (Coq_xI (Coq_xO (Coq_xI (Coq_xI
    Coq_xH)))))) :: ((Npos (Coq_xI (Coq_xO (Coq_xO (Coq_xO (Coq_xI
    Coq_xH)))))) :: ((Npos (Coq_xO (Coq_xI (Coq_xI (Coq_xI (Coq_xO
    Coq_xH)))))) :: ((Npos (Coq_xO (Coq_xO (Coq_xO (Coq_xO (Coq_xI
    Coq_xH)))))) :: [])))))))))))))))))))))))))))))))))))))))))))))), ((Npos
    (Coq_xI (Coq_xI (Coq_xO (Coq_xO (Coq_xO (Coq_xI Coq_xH))))))) :: ((Npos
    (Coq_xI (Coq_xO (Coq_xO (Coq_xI (Coq_xO (Coq_xI Coq_xH))))))) :: ((Npos
    (Coq_xO (Coq_xO (Coq_xI (Coq_xO (Coq_xI (Coq_xI Coq_xH))))))) :: ((Npos
    (Coq_xI (Coq_xO (Coq_xO (Coq_xO (Coq_xO (Coq_xI Coq_xH))))))) :: ((Npos
    (Coq_xO (Coq_xO (Coq_xI (Coq_xO (Coq_xI (Coq_xI Coq_xH))))))) :: ((Npos
    (Coq_xI (Coq_xO (Coq_xO (Coq_xI (Coq_xO (Coq_xI Coq_xH))))))) :: ((Npos
    (Coq_xI (Coq_xI (Coq_xI (Coq_xI (Coq_xO (Coq_xI Coq_xH))))))) :: ((Npos
    (Coq_xO (Coq_xI (Coq_xI (Coq_xI (Coq_xO (Coq_xI Coq_xH))))))) :: ((Npos
    (Coq_xI (Coq_xO (Coq_xI (Coq_xI (Coq_xO Coq_xH)))))) :: ((Npos (Coq_xI
    (Coq_xI (Coq_xO (Coq_xO (Coq_xI (Coq_xI Coq_xH))))))) :: ((Npos (Coq_xO
    (Coq_xO (Coq_xI (Coq_xO (Coq_xI (Coq_xI Coq_xH))))))) :: ((Npos (Coq_xI
    (Coq_xO (Coq_xO (Coq_xI (Coq_xI (Coq_xI Coq_xH))))))) :: ((Npos (Coq_xO
    (Coq_xO (Coq_xI (Coq_xI (Coq_xO (Coq_xI Coq_xH))))))) :: ((Npos (Coq_xI
    (Coq_xO (Coq_xI (Coq_xO (Coq_xO (Coq_xI Coq_xH))))))) :: ((Npos (Coq_xI
    (Coq_xO (Coq_xI (Coq_xI (Coq_xO Coq_xH)))))) :: ((Npos (Coq_xO (Coq_xI
    (Coq_xI (Coq_xI (Coq_xO (Coq_xI Coq_xH))))))) :: ((Npos (Coq_xI (Coq_xO
    (Coq_xO (Coq_xO (Coq_xO (Coq_xI Coq_xH))))))) :: ((Npos (Coq_xI (Coq_xO
    (Coq_xI (Coq_xI (Coq_xO (Coq_xI Coq_xH))))))) :: ((Npos (Coq_xI (Coq_xO
    (Coq_xI (Coq_xO (Coq_xO (Coq_xI
    Coq_xH))))))) :: [])))))))))))))))))))) :: ((((Npos (Coq_xI (Coq_xO
    (Coq_xI (Coq_xO (Coq_xI (Coq_xI Coq_xH))))))) :: ((Npos (Coq_xO (Coq_xI
    (Coq_xO (Coq_xO (Coq_xI (Coq_xI Coq_xH))))))) :: ((Npos (Coq_xO (Coq_xI
    (Coq_xI (Coq_xI (Coq_xO (Coq_xI Coq_xH))))))) :: ((Npos (Coq_xO (Coq_xI
    (Coq_xO (Coq_xI (Coq_xI Coq_xH)))))) :: ((Npos (Coq_xI (Coq_xI (Coq_xI
    (Coq_xI (Coq_xO (Coq_xI Coq_xH))))))) :: ((Npos (Coq_xI (Coq_xO (Coq_xO
    (Coq_xO (Coq_xO (Coq_xI Coq_xH))))))) :: ((Npos (Coq_xI (Coq_xI (Coq_xO
    (Coq_xO (Coq_xI (Coq_xI Coq_xH))))))) :: ((Npos (Coq_xI (Coq_xO (Coq_xO
    (Coq_xI (Coq_xO (Coq_xI Coq_xH))))))) :: ((Npos (Coq_xI (Coq_xI (Coq_xO
    (Coq_xO (Coq_xI (Coq_xI Coq_xH))))))) :: ((Npos (Coq_xO (Coq_xI (Coq_xO
    (Coq_xI (Coq_xI Coq_xH)))))) :: ((Npos (Coq_xO (Coq_xI (Coq_xI (Coq_xI
    (Coq_xO (Coq_xI Coq_xH))))))) :: ((Npos (Coq_xI (Coq_xO (Coq_xO (Coq_xO
    (Coq_xO (Coq_xI Coq_xH))))))) :: ((Npos (Coq_xI (Coq_xO (Coq_xI (Coq_xI
    (Coq_xO (Coq_xI Coq_xH))))))) :: ((Npos (Coq_xI (Coq_xO (Coq_xI (Coq_xO
    (Coq_xO (Coq_xI Coq_xH))))))) :: ((Npos (Coq_xI (Coq_xI (Coq_xO (Coq_xO
    (Coq_xI (Coq_xI Coq_xH))))))) :: ((Npos (Coq_xO (Coq_xI (Coq_xO (Coq_xI
    (Coq_xI Coq_xH)))))) :: ((Npos (Coq_xO (Coq_xO (Coq_xI (Coq_xO (Coq_xI
    (Coq_xI Coq_xH))))))) :: ((Npos (Coq_xI (Coq_xI (Coq_xO (Coq_xO (Coq_xO
    (Coq_xI Coq_xH))))))) :: ((Npos (Coq_xO (Coq_xI (Coq_xO (Coq_xI (Coq_xI
    Coq_xH)))))) :: ((Npos (Coq_xI (Coq_xI (Coq_xI (Coq_xI (Coq_xO (Coq_xI
    Coq_xH))))))) :: ((Npos (Coq_xO (Coq_xO (Coq_xO (Coq_xO (Coq_xI (Coq_xI
    Coq_xH))))))) :: ((Npos (Coq_xI (Coq_xO (Coq_xI (Coq_xO (Coq_xO (Coq_xI
    Coq_xH))))))) :: ((Npos (Coq_xO (Coq_xI (Coq_xI (Coq_xI (Coq_xO (Coq_xI
    Coq_xH))))))) :: ((Npos (Coq_xO (Coq_xO (Coq_xI (Coq_xO (Coq_xO (Coq_xI
    Coq_xH))))))) :: ((Npos (Coq_xI (Coq_xI (Coq_xI (Coq_xI (Coq_xO (Coq_xI
    Coq_xH))))))) :: ((Npos (Coq_xI (Coq_xI (Coq_xO (Coq_xO (Coq_xO (Coq_xI
    Coq_xH))))))) :: ((Npos (Coq_xI (Coq_xO (Coq_xI (Coq_xO (Coq_xI (Coq_xI
    Coq_xH))))))) :: ((Npos (Coq_xI (Coq_xO (Coq_xI (Coq_xI (Coq_xO (Coq_xI
    Coq_xH))))))) :: ((Npos (Coq_xI (Coq_xO (Coq_xI (Coq_xO (Coq_xO (Coq_xI
    Coq_xH))))))) :: ((Npos (Coq_xO (Coq_xI (Coq_xI (Coq_xI (Coq_xO (Coq_xI
    Coq_xH))))))) :: ((Npos (Coq_xO (Coq_xO (Coq_xI (Coq_xO (Coq_xI (Coq_xI
    Coq_xH))))))) :: ((Npos (Coq_xO (Coq_xI (Coq_xO (Coq_xI (Coq_xI
    Coq_xH)))))) :: ((Npos (Coq_xO (Coq_xO (Coq_xO (Coq_xI (Coq_xI (Coq_xI
    Coq_xH))))))) :: ((Npos (Coq_xI (Coq_xO (Coq_xI (Coq_xI (Coq_xO (Coq_xI
    Coq_xH))))))) :: ((Npos (Coq_xO (Coq_xO (Coq_xI (Coq_xI (Coq_xO (Coq_xI
    Coq_xH))))))) :: ((Npos (Coq_xO (Coq_xI (Coq_xI (Coq_xI (Coq_xO (Coq_xI
    Coq_xH))))))) :: ((Npos (Coq_xI (Coq_xI (Coq_xO (Coq_xO (Coq_xI (Coq_xI
    Coq_xH))))))) :: ((Npos (Coq_xO (Coq_xI (Coq_xO (Coq_xI (Coq_xI
    Coq_xH)))))) :: ((Npos (Coq_xO (Coq_xO (Coq_xI (Coq_xO (Coq_xI (Coq_xI
    Coq_xH))))))) :: ((Npos (Coq_xI (Coq_xO (Coq_xI (Coq_xO (Coq_xO (Coq_xI
    Coq_xH))))))) :: ((Npos (Coq_xO (Coq_xO (Coq_xO (Coq_xI (Coq_xI (Coq_xI
    Coq_xH))))))) :: ((Npos (Coq_xO (Coq_xO (Coq_xI (Coq_xO (Coq_xI (Coq_xI
    Coq_xH))))))) :: ((Npos (Coq_xO (Coq_xI (Coq_xO (Coq_xI (Coq_xI
    Coq_xH)))))) :: ((Npos (Coq_xI (Coq_xO (Coq_xO (Coq_xO (Coq_xI
    Coq_xH)))))) :: ((Npos (Coq_xO (Coq_xI (Coq_xI (Coq_xI (Coq_xO
    Coq_xH)))))) :: ((Npos (Coq_xO (Coq_xO (Coq_xO (Coq_xO (Coq_xI
    Coq_xH)))))) :: [])))))))))))))))))))))))))))))))))))))))))))))), ((Npos
    (Coq_xI (Coq_xI (Coq_xO (Coq_xO (Coq_xO (Coq_xI Coq_xH))))))) :: ((Npos
    (Coq_xO (Coq_xO (Coq_xI (Coq_xI (Coq_xO (Coq_xI Coq_xH))))))) :: ((Npos
    (Coq_xI (Coq_xO (Coq_xO (Coq_xO (Coq_xO (Coq_xI Coq_xH))))))) :: ((Npos
    (Coq_xI (Coq_xI (Coq_xO (Coq_xO (Coq_xI (Coq_xI Coq_xH))))))) :: ((Npos
    (Coq_xI (Coq_xI (Coq_xO (Coq_xO (Coq_xI (Coq_xI Coq_xH))))))) :: ((Npos
    (Coq_xI (Coq_xO (Coq_xI (Coq_xI (Coq_xO Coq_xH)))))) :: ((Npos (Coq_xO
    (Coq_xI (Coq_xI (Coq_xI (Coq_xO (Coq_xI Coq_xH))))))) :: ((Npos (Coq_xI
    (Coq_xO (Coq_xO (Coq_xO (Coq_xO (Coq_xI Coq_xH))))))) :: ((Npos (Coq_xI
    (Coq_xO (Coq_xI (Coq_xI (Coq_xO (Coq_xI Coq_xH))))))) :: ((Npos (Coq_xI
    (Coq_xO (Coq_xI (Coq_xO (Coq_xO (Coq_xI Coq_xH))))))) :: ((Npos (Coq_xI
    (Coq_xI (Coq_xO (Coq_xO (Coq_xI (Coq_xI
    Coq_xH))))))) :: [])))))))))))) :: ((((Npos (Coq_xI (Coq_xO (Coq_xI
    (Coq_xO (Coq_xI (Coq_xI Coq_xH))))))) :: ((Npos (Coq_xO (Coq_xI (Coq_xO
    (Coq_xO (Coq_xI (Coq_xI Coq_xH))))))) :: ((Npos (Coq_xO (Coq_xI (Coq_xI
    (Coq_xI (Coq_xO (Coq_xI Coq_xH))))))) :: ((Npos (Coq_xO (Coq_xI (Coq_xO
    (Coq_xI (Coq_xI Coq_xH)))))) :: ((Npos (Coq_xI (Coq_xI (Coq_xI (Coq_xI
    (Coq_xO (Coq_xI Coq_xH))))))) :: ((Npos (Coq_xI (Coq_xO (Coq_xO (Coq_xO
    (Coq_xO (Coq_xI Coq_xH))))))) :: ((Npos (Coq_xI (Coq_xI (Coq_xO (Coq_xO
    (Coq_xI (Coq_xI Coq_xH))))))) :: ((Npos (Coq_xI (Coq_xO (Coq_xO (Coq_xI
    (Coq_xO (Coq_xI Coq_xH))))))) :: ((Npos (Coq_xI (Coq_xI (Coq_xO (Coq_xO
    (Coq_xI (Coq_xI Coq_xH))))))) :: ((Npos (Coq_xO (Coq_xI (Coq_xO (Coq_xI
    (Coq_xI Coq_xH)))))) :: ((Npos (Coq_xO (Coq_xI (Coq_xI (Coq_xI (Coq_xO
    (Coq_xI Coq_xH))))))) :: ((Npos (Coq_xI (Coq_xO (Coq_xO (Coq_xO (Coq_xO
    (Coq_xI Coq_xH))))))) :: ((Npos (Coq_xI (Coq_xO (Coq_xI (Coq_xI (Coq_xO
    (Coq_xI Coq_xH))))))) :: ((Npos (Coq_xI (Coq_xO (Coq_xI (Coq_xO (Coq_xO
    (Coq_xI Coq_xH))))))) :: ((Npos (Coq_xI (Coq_xI (Coq_xO (Coq_xO (Coq_xI
    (Coq_xI Coq_xH))))))) :: ((Npos (Coq_xO (Coq_xI (Coq_xO (Coq_xI (Coq_xI
    Coq_xH)))))) :: ((Npos (Coq_xO (Coq_xO (Coq_xI (Coq_xO (Coq_xI (Coq_xI
    Coq_xH))))))) :: ((Npos (Coq_xI (Coq_xI (Coq_xO (Coq_xO (Coq_xO (Coq_xI
    Coq_xH))))))) :: ((Npos (Coq_xO (Coq_xI (Coq_xO (Coq_xI (Coq_xI
    Coq_xH)))))) :: ((Npos (Coq_xI (Coq_xI (Coq_xI (Coq_xI (Coq_xO (Coq_xI
    Coq_xH))))))) :: ((Npos (Coq_xO (Coq_xO (Coq_xO (Coq_xO (Coq_xI (Coq_xI
    Coq_xH))))))) :: ((Npos (Coq_xI (Coq_xO (Coq_xI (Coq_xO (Coq_xO (Coq_xI
    Coq_xH))))))) :: ((Npos (Coq_xO (Coq_xI (Coq_xI (Coq_xI (Coq_xO (Coq_xI
    Coq_xH))))))) :: ((Npos (Coq_xO (Coq_xO (Coq_xI (Coq_xO (Coq_xO (Coq_xI
    Coq_xH))))))) :: ((Npos (Coq_xI (Coq_xI (Coq_xI (Coq_xI (Coq_xO (Coq_xI
    Coq_xH))))))) :: ((Npos (Coq_xI (Coq_xI (Coq_xO (Coq_xO (Coq_xO (Coq_xI
    Coq_xH))))))) :: ((Npos (Coq_xI (Coq_xO (Coq_xI (Coq_xO (Coq_xI (Coq_xI
    Coq_xH))))))) :: ((Npos (Coq_xI (Coq_xO (Coq_xI (Coq_xI (Coq_xO (Coq_xI
    Coq_xH))))))) :: ((Npos (Coq_xI (Coq_xO (Coq_xI (Coq_xO (Coq_xO (Coq_xI
    Coq_xH))))))) :: ((Npos (Coq_xO (Coq_xI (Coq_xI (Coq_xI (Coq_xO (Coq_xI
    Coq_xH))))))) :: ((Npos (Coq_xO (Coq_xO (Coq_xI (Coq_xO (Coq_xI (Coq_xI
    Coq_xH))))))) :: ((Npos (Coq_xO (Coq_xI (Coq_xO (Coq_xI (Coq_xI
    Coq_xH)))))) :: ((Npos (Coq_xO (Coq_xO (Coq_xO (Coq_xI (Coq_xI (Coq_xI
    Coq_xH))))))) :: ((Npos (Coq_xI (Coq_xO (Coq_xI (Coq_xI (Coq_xO (Coq_xI
    Coq_xH))))))) :: ((Npos (Coq_xO (Coq_xO (Coq_xI (Coq_xI (Coq_xO (Coq_xI
    Coq_xH))))))) :: ((Npos (Coq_xO (Coq_xI (Coq_xI (Coq_xI (Coq_xO (Coq_xI
    Coq_xH))))))) :: ((Npos (Coq_xI (Coq_xI (Coq_xO (Coq_xO (Coq_xI (Coq_xI
    Coq_xH))))))) :: ((Npos (Coq_xO (Coq_xI (Coq_xO (Coq_xI (Coq_xI
    Coq_xH)))))) :: ((Npos (Coq_xO (Coq_xO (Coq_xI (Coq_xO (Coq_xI (Coq_xI
    Coq_xH))))))) :: ((Npos (Coq_xI (Coq_xO (Coq_xI (Coq_xO (Coq_xO (Coq_xI
    Coq_xH))))))) :: ((Npos (Coq_xO (Coq_xO (Coq_xO (Coq_xI (Coq_xI (Coq_xI
    Coq_xH))))))) :: ((Npos (Coq_xO (Coq_xO (Coq_xI (Coq_xO (Coq_xI (Coq_xI
    Coq_xH))))))) :: ((Npos (Coq_xO (Coq_xI (Coq_xO (Coq_xI (Coq_xI
    Coq_xH)))))) :: ((Npos (Coq_xI (Coq_xO (Coq_xO (Coq_xO (Coq_xI
    Coq_xH)))))) :: ((Npos (Coq_xO (Coq_xI (Coq_xI (Coq_xI (Coq_xO
    Coq_xH)))))) :: ((Npos (Coq_xO (Coq_xO (Coq_xO (Coq_xO (Coq_xI
    Coq_xH)))))) :: [])))))))))))))))))))))))))))))))))))))))))))))), ((Npos
    (Coq_xI (Coq_xI (Coq_xO (Coq_xO (Coq_xO (Coq_xI Coq_xH))))))) :: ((Npos
    (Coq_xI (Coq_xI (Coq_xI (Coq_xI (Coq_xO (Coq_xI Coq_xH))))))) :: ((Npos
    (Coq_xO (Coq_xI (Coq_xI (Coq_xI (Coq_xO (Coq_xI Coq_xH))))))) :: ((Npos
    (Coq_xO (Coq_xO (Coq_xI (Coq_xO (Coq_xO (Coq_xI Coq_xH))))))) :: ((Npos
    (Coq_xI (Coq_xO (Coq_xI (Coq_xI (Coq_xO Coq_xH)))))) :: ((Npos (Coq_xI
    (Coq_xI (Coq_xO (Coq_xO (Coq_xI (Coq_xI Coq_xH))))))) :: ((Npos (Coq_xO
    (Coq_xO (Coq_xI (Coq_xO (Coq_xI (Coq_xI Coq_xH))))))) :: ((Npos (Coq_xI
    (Coq_xO (Coq_xO (Coq_xI (Coq_xI (Coq_xI Coq_xH))))))) :: ((Npos (Coq_xO
    (Coq_xO (Coq_xI (Coq_xI (Coq_xO (Coq_xI Coq_xH))))))) :: ((Npos (Coq_xI
    (Coq_xO (Coq_xI (Coq_xO (Coq_xO (Coq_xI Coq_xH))))))) :: ((Npos (Coq_xI
    (Coq_xO (Coq_xI (Coq_xI (Coq_xO Coq_xH)))))) :: ((Npos (Coq_xO (Coq_xI
    (Coq_xI (Coq_xI (Coq_xO (Coq_xI Coq_xH))))))) :: ((Npos (Coq_xI (Coq_xO
    (Coq_xO (Coq_xO (Coq_xO (Coq_xI Coq_xH))))))) :: ((Npos (Coq_xI (Coq_xO
    (Coq_xI (Coq_xI (Coq_xO (Coq_xI Coq_xH))))))) :: ((Npos (Coq_xI (Coq_xO
    (Coq_xI (Coq_xO (Coq_xO (Coq_xI
    Coq_xH))))))) :: [])))))))))))))))) :: ((((Npos (Coq_xI (Coq_xO (Coq_xI
    (Coq_xO (Coq_xI (Coq_xI Coq_xH))))))) :: ((Npos (Coq_xO (Coq_xI (Coq_xO
    (Coq_xO (Coq_xI (Coq_xI Coq_xH))))))) :: ((Npos (Coq_xO (Coq_xI (Coq_xI
    (Coq_xI (Coq_xO (Coq_xI Coq_xH))))))) :: ((Npos (Coq_xO (Coq_xI (Coq_xO
    (Coq_xI (Coq_xI Coq_xH)))))) :: ((Npos (Coq_xI (Coq_xI (Coq_xI (Coq_xI
    (Coq_xO (Coq_xI Coq_xH))))))) :: ((Npos (Coq_xI (Coq_xO (Coq_xO (Coq_xO
    (Coq_xO (Coq_xI Coq_xH))))))) :: ((Npos (Coq_xI (Coq_xI (Coq_xO (Coq_xO
    (Coq_xI (Coq_xI Coq_xH))))))) :: ((Npos (Coq_xI (Coq_xO (Coq_xO (Coq_xI
    (Coq_xO (Coq_xI Coq_xH))))))) :: ((Npos (Coq_xI (Coq_xI (Coq_xO (Coq_xO
    (Coq_xI (Coq_xI Coq_xH))))))) :: ((Npos (Coq_xO (Coq_xI (Coq_xO (Coq_xI
    (Coq_xI Coq_xH)))))) :: ((Npos (Coq_xO (Coq_xI (Coq_xI (Coq_xI (Coq_xO
    (Coq_xI Coq_xH))))))) :: ((Npos (Coq_xI (Coq_xO (Coq_xO (Coq_xO (Coq_xO
    (Coq_xI Coq_xH))))))) :: ((Npos (Coq_xI (Coq_xO (Coq_xI (Coq_xI (Coq_xO
    (Coq_xI Coq_xH))))))) :: ((Npos (Coq_xI (Coq_xO (Coq_xI (Coq_xO (Coq_xO
    (Coq_xI Coq_xH))))))) :: ((Npos (Coq_xI (Coq_xI (Coq_xO (Coq_xO (Coq_xI
    (Coq_xI Coq_xH))))))) :: ((Npos (Coq_xO (Coq_xI (Coq_xO (Coq_xI (Coq_xI
    Coq_xH)))))) :: ((Npos (Coq_xO (Coq_xO (Coq_xI (Coq_xO (Coq_xI (Coq_xI
    Coq_xH))))))) :: ((Npos (Coq_xI (Coq_xI (Coq_xO (Coq_xO (Coq_xO (Coq_xI
    Coq_xH))))))) :: ((Npos (Coq_xO (Coq_xI (Coq_xO (Coq_xI (Coq_xI
    Coq_xH)))))) :: ((Npos (Coq_xI (Coq_xI (Coq_xI (Coq_xI (Coq_xO (Coq_xI
    Coq_xH))))))) :: ((Npos (Coq_xO (Coq_xO (Coq_xO (Coq_xO (Coq_xI (Coq_xI
    Coq_xH))))))) :: ((Npos (Coq_xI (Coq_xO (Coq_xI (Coq_xO (Coq_xO (Coq_xI
    Coq_xH))))))) :: ((Npos (Coq_xO (Coq_xI (Coq_xI (Coq_xI (Coq_xO (Coq_xI
    Coq_xH))))))) :: ((Npos (Coq_xO (Coq_xO (Coq_xI (Coq_xO (Coq_xO (Coq_xI
    Coq_xH))))))) :: ((Npos (Coq_xI (Coq_xI (Coq_xI (Coq_xI (Coq_xO (Coq_xI
    Coq_xH))))))) :: ((Npos (Coq_xI (Coq_xI (Coq_xO (Coq_xO (Coq_xO (Coq_xI
    Coq_xH))))))) :: ((Npos (Coq_xI (Coq_xO (Coq_xI (Coq_xO (Coq_xI (Coq_xI
    Coq_xH))))))) :: ((Npos (Coq_xI (Coq_xO (Coq_xI (Coq_xI (Coq_xO (Coq_xI
    Coq_xH))))))) :: ((Npos (Coq_xI (Coq_xO (Coq_xI (Coq_xO (Coq_xO (Coq_xI
    Coq_xH))))))) :: ((Npos (Coq_xO (Coq_xI (Coq_xI (Coq_xI (Coq_xO (Coq_xI
    Coq_xH))))))) :: ((Npos (Coq_xO (Coq_xO (Coq_xI (Coq_xO (Coq_xI (Coq_xI
    Coq_xH))))))) :: ((Npos (Coq_xO (Coq_xI (Coq_xO (Coq_xI (Coq_xI
    Coq_xH)))))) :: ((Npos (Coq_xO (Coq_xO (Coq_xO (Coq_xI (Coq_xI (Coq_xI
    Coq_xH))))))) :: ((Npos (Coq_xI (Coq_xO (Coq_xI (Coq_xI (Coq_xO (Coq_xI
    Coq_xH))))))) :: ((Npos (Coq_xO (Coq_xO (Coq_xI (Coq_xI (Coq_xO (Coq_xI
    Coq_xH))))))) :: ((Npos (Coq_xO (Coq_xI (Coq_xI (Coq_xI (Coq_xO (Coq_xI
    Coq_xH))))))) :: ((Npos (Coq_xI (Coq_xI (Coq_xO (Coq_xO (Coq_xI (Coq_xI
    Coq_xH))))))) :: ((Npos (Coq_xO (Coq_xI (Coq_xO (Coq_xI (Coq_xI
    Coq_xH)))))) :: ((Npos (Coq_xO (Coq_xO (Coq_xI (Coq_xO (Coq_xI (Coq_xI
    Coq_xH))))))) :: ((Npos (Coq_xI (Coq_xO (Coq_xI (Coq_xO (Coq_xO (Coq_xI
    Coq_xH))))))) :: ((Npos (Coq_xO (Coq_xO (Coq_xO (Coq_xI (Coq_xI (Coq_xI
    Coq_xH))))))) :: ((Npos (Coq_xO (Coq_xO (Coq_xI (Coq_xO (Coq_xI (Coq_xI
    Coq_xH))))))) :: ((Npos (Coq_xO (Coq_xI (Coq_xO (Coq_xI (Coq_xI
    Coq_xH)))))) :: ((Npos (Coq_xI (Coq_xO (Coq_xO (Coq_xO (Coq_xI
    Coq_xH)))))) :: ((Npos (Coq_xO (Coq_xI (Coq_xI (Coq_xI (Coq_xO
    Coq_xH)))))) :: ((Npos (Coq_xO (Coq_xO (Coq_xO (Coq_xO (Coq_xI
    Coq_xH)))))) :: [])))))))))))))))))))))))))))))))))))))))))))))), ((Npos
    (Coq_xO (Coq_xO (Coq_xI (Coq_xO (Coq_xO (Coq_xI Coq_xH))))))) :: ((Npos
    (Coq_xI (Coq_xO (Coq_xI (Coq_xO (Coq_xO (Coq_xI Coq_xH))))))) :: ((Npos
    (Coq_xO (Coq_xI (Coq_xI (Coq_xO (Coq_xO (Coq_xI Coq_xH))))))) :: ((Npos
    (Coq_xI (Coq_xO (Coq_xO (Coq_xO (Coq_xO (Coq_xI Coq_xH))))))) :: ((Npos
    (Coq_xI (Coq_xO (Coq_xI (Coq_xO (Coq_xI (Coq_xI Coq_xH))))))) :: ((Npos
    (Coq_xO (Coq_xO (Coq_xI (Coq_xI (Coq_xO (Coq_xI Coq_xH))))))) :: ((Npos
    (Coq_xO (Coq_xO (Coq_xI (Coq_xO (Coq_xI (Coq_xI Coq_xH))))))) :: ((Npos
    (Coq_xI (Coq_xO (Coq_xI (Coq_xI (Coq_xO Coq_xH)))))) :: ((Npos (Coq_xI
    (Coq_xI (Coq_xO (Coq_xO (Coq_xI (Coq_xI Coq_xH))))))) :: ((Npos (Coq_xO
    (Coq_xO (Coq_xI (Coq_xO (Coq_xI (Coq_xI Coq_xH))))))) :: ((Npos (Coq_xI
    (Coq_xO (Coq_xO (Coq_xI (Coq_xI (Coq_xI Coq_xH))))))) :: ((Npos (Coq_xO
    (Coq_xO (Coq_xI (Coq_xI (Coq_xO (Coq_xI Coq_xH))))))) :: ((Npos (Coq_xI
    (Coq_xO (Coq_xI (Coq_xO (Coq_xO (Coq_xI Coq_xH))))))) :: ((Npos (Coq_xI
    (Coq_xO (Coq_xI (Coq_xI (Coq_xO Coq_xH)))))) :: ((Npos (Coq_xO (Coq_xI
    (Coq_xI (Coq_xI (Coq_xO (Coq_xI Coq_xH))))))) :: ((Npos (Coq_xI (Coq_xO
    (Coq_xO (Coq_xO (Coq_xO (Coq_xI Coq_xH))))))) :: ((Npos (Coq_xI (Coq_xO
    (Coq_xI (Coq_xI (Coq_xO (Coq_xI Coq_xH))))))) :: ((Npos (Coq_xI (Coq_xO
    (Coq_xI (Coq_xO (Coq_xO (Coq_xI
    Coq_xH))))))) :: []))))))))))))))))))) :: ((((Npos (Coq_xI (Coq_xO
    (Coq_xI (Coq_xO (Coq_xI (Coq_xI Coq_xH))))))) :: ((Npos (Coq_xO (Coq_xI
    (Coq_xO (Coq_xO (Coq_xI (Coq_xI Coq_xH))))))) :: ((Npos (Coq_xO (Coq_xI
    (Coq_xI (Coq_xI (Coq_xO (Coq_xI Coq_xH))))))) :: ((Npos (Coq_xO (Coq_xI
    (Coq_xO (Coq_xI (Coq_xI Coq_xH)))))) :: ((Npos (Coq_xI (Coq_xI (Coq_xI
    (Coq_xI (Coq_xO (Coq_xI Coq_xH))))))) :: ((Npos (Coq_xI (Coq_xO (Coq_xO
    (Coq_xO (Coq_xO (Coq_xI Coq_xH))))))) :: ((Npos (Coq_xI (Coq_xI (Coq_xO
    (Coq_xO (Coq_xI (Coq_xI Coq_xH))))))) :: ((Npos (Coq_xI (Coq_xO (Coq_xO
    (Coq_xI (Coq_xO (Coq_xI Coq_xH))))))) :: ((Npos (Coq_xI (Coq_xI (Coq_xO
    (Coq_xO (Coq_xI (Coq_xI Coq_xH))))))) :: ((Npos (Coq_xO (Coq_xI (Coq_xO
    (Coq_xI (Coq_xI Coq_xH)))))) :: ((Npos (Coq_xO (Coq_xI (Coq_xI (Coq_xI
    (Coq_xO (Coq_xI Coq_xH))))))) :: ((Npos (Coq_xI (Coq_xO (Coq_xO (Coq_xO
    (Coq_xO (Coq_xI Coq_xH))))))) :: ((Npos (Coq_xI (Coq_xO (Coq_xI (Coq_xI
    (Coq_xO (Coq_xI Coq_xH))))))) :: ((Npos (Coq_xI (Coq_xO (Coq_xI (Coq_xO
    (Coq_xO (Coq_xI Coq_xH))))))) :: ((Npos (Coq_xI (Coq_xI (Coq_xO (Coq_xO
    (Coq_xI (Coq_xI Coq_xH))))))) :: ((Npos (Coq_xO (Coq_xI (Coq_xO (Coq_xI
    (Coq_xI Coq_xH)))))) :: ((Npos (Coq_xO (Coq_xO (Coq_xI (Coq_xO (Coq_xI
    (Coq_xI Coq_xH))))))) :: ((Npos (Coq_xI (Coq_xI (Coq_xO (Coq_xO (Coq_xO
    (Coq_xI Coq_xH))))))) :: ((Npos (Coq_xO (Coq_xI (Coq_xO (Coq_xI (Coq_xI
    Coq_xH)))))) :: ((Npos (Coq_xI (Coq_xI (Coq_xI (Coq_xI (Coq_xO (Coq_xI
    Coq_xH))))))) :: ((Npos (Coq_xO (Coq_xO (Coq_xO (Coq_xO (Coq_xI (Coq_xI
    Coq_xH))))))) :: ((Npos (Coq_xI (Coq_xO (Coq_xI (Coq_xO (Coq_xO (Coq_xI
    Coq_xH))))))) :: ((Npos (Coq_xO (Coq_xI (Coq_xI (Coq_xI (Coq_xO (Coq_xI
    Coq_xH))))))) :: ((Npos (Coq_xO (Coq_xO (Coq_xI (Coq_xO (Coq_xO (Coq_xI
    Coq_xH))))))) :: ((Npos (Coq_xI (Coq_xI (Coq_xI (Coq_xI (Coq_xO (Coq_xI
    Coq_xH))))))) :: ((Npos (Coq_xI (Coq_xI (Coq_xO (Coq_xO (Coq_xO (Coq_xI
    Coq_xH))))))) :: ((Npos (Coq_xI (Coq_xO (Coq_xI (Coq_xO (Coq_xI (Coq_xI
    Coq_xH))))))) :: ((Npos (Coq_xI (Coq_xO (Coq_xI (Coq_xI (Coq_xO (Coq_xI
    Coq_xH))))))) :: ((Npos (Coq_xI (Coq_xO (Coq_xI (Coq_xO (Coq_xO (Coq_xI
    Coq_xH))))))) :: ((Npos (Coq_xO (Coq_xI (Coq_xI (Coq_xI (Coq_xO (Coq_xI
    Coq_xH))))))) :: ((Npos (Coq_xO (Coq_xO (Coq_xI (Coq_xO (Coq_xI (Coq_xI
    Coq_xH))))))) :: ((Npos (Coq_xO (Coq_xI (Coq_xO (Coq_xI (Coq_xI
    Coq_xH)))))) :: ((Npos (Coq_xO (Coq_xO (Coq_xO (Coq_xI (Coq_xI (Coq_xI
    Coq_xH))))))) :: ((Npos (Coq_xI (Coq_xO (Coq_xI (Coq_xI (Coq_xO (Coq_xI
    Coq_xH))))))) :: ((Npos (Coq_xO (Coq_xO (Coq_xI (Coq_xI (Coq_xO (Coq_xI
    Coq_xH))))))) :: ((Npos (Coq_xO (Coq_xI (Coq_xI (Coq_xI (Coq_xO (Coq_xI
    Coq_xH))))))) :: ((Npos (Coq_xI (Coq_xI (Coq_xO (Coq_xO (Coq_xI (Coq_xI
    Coq_xH))))))) :: ((Npos (Coq_xO (Coq_xI (Coq_xO (Coq_xI (Coq_xI
    Coq_xH)))))) :: ((Npos (Coq_xO (Coq_xO (Coq_xI (Coq_xO (Coq_xI (Coq_xI
    Coq_xH))))))) :: ((Npos (Coq_xI (Coq_xO (Coq_xI (Coq_xO (Coq_xO (Coq_xI
    Coq_xH))))))) :: ((Npos (Coq_xO (Coq_xO (Coq_xO (Coq_xI (Coq_xI (Coq_xI
    Coq_xH))))))) :: ((Npos (Coq_xO (Coq_xO (Coq_xI (Coq_xO (Coq_xI (Coq_xI
    Coq_xH))))))) :: ((Npos (Coq_xO (Coq_xI (Coq_xO (Coq_xI (Coq_xI
    Coq_xH)))))) :: ((Npos (Coq_xI (Coq_xO (Coq_xO (Coq_xO (Coq_xI
    Coq_xH)))))) :: ((Npos (Coq_xO (Coq_xI (Coq_xI (Coq_xI (Coq_xO
    Coq_xH)))))) :: ((Npos (Coq_xO (Coq_xO (Coq_xO (Coq_xO (Coq_xI
    Coq_xH)))))) :: [])))))))))))))))))))))))))))))))))))))))))))))), ((Npos
    (Coq_xI (Coq_xO (Coq_xI (Coq_xI (Coq_xO (Coq_xI Coq_xH))))))) :: ((Npos
    (Coq_xI (Coq_xO (Coq_xO (Coq_xO (Coq_xO (Coq_xI Coq_xH))))))) :: ((Npos
    (Coq_xI (Coq_xO (Coq_xO (Coq_xI (Coq_xO (Coq_xI Coq_xH))))))) :: ((Npos
    (Coq_xO (Coq_xI (Coq_xI (Coq_xI (Coq_xO (Coq_xI Coq_xH))))))) :: ((Npos
    (Coq_xI (Coq_xO (Coq_xI (Coq_xI (Coq_xO Coq_xH)))))) :: ((Npos (Coq_xI
    (Coq_xO (Coq_xI (Coq_xO (Coq_xO (Coq_xI Coq_xH))))))) :: ((Npos (Coq_xO
    (Coq_xI (Coq_xI (Coq_xI (Coq_xO (Coq_xI Coq_xH))))))) :: ((Npos (Coq_xO
    (Coq_xO (Coq_xI (Coq_xO (Coq_xI (Coq_xI Coq_xH))))))) :: ((Npos (Coq_xO
    (Coq_xI (Coq_xO (Coq_xO (Coq_xI (Coq_xI Coq_xH))))))) :: ((Npos (Coq_xI
    (Coq_xO (Coq_xO (Coq_xI (Coq_xI (Coq_xI Coq_xH))))))) :: ((Npos (Coq_xI
    (Coq_xO (Coq_xI (Coq_xI (Coq_xO Coq_xH)))))) :: ((Npos (Coq_xI (Coq_xI
    (Coq_xO (Coq_xO (Coq_xI (Coq_xI Coq_xH))))))) :: ((Npos (Coq_xO (Coq_xO
    (Coq_xI (Coq_xO (Coq_xI (Coq_xI Coq_xH))))))) :: ((Npos (Coq_xI (Coq_xO
    (Coq_xO (Coq_xI (Coq_xI (Coq_xI Coq_xH))))))) :: ((Npos (Coq_xO (Coq_xO
    (Coq_xI (Coq_xI (Coq_xO (Coq_xI Coq_xH))))))) :: ((Npos (Coq_xI (Coq_xO
    (Coq_xI (Coq_xO (Coq_xO (Coq_xI Coq_xH))))))) :: ((Npos (Coq_xI (Coq_xO
    (Coq_xI (Coq_xI (Coq_xO Coq_xH)))))) :: ((Npos (Coq_xO (Coq_xI (Coq_xI
    (Coq_xI (Coq_xO (Coq_xI Coq_xH))))))) :: ((Npos (Coq_xI (Coq_xO (Coq_xO
    (Coq_xO (Coq_xO (Coq_xI Coq_xH))))))) :: ((Npos (Coq_xI (Coq_xO (Coq_xI
    (Coq_xI (Coq_xO (Coq_xI Coq_xH))))))) :: ((Npos (Coq_xI (Coq_xO (Coq_xI
    (Coq_xO (Coq_xO (Coq_xI
    Coq_xH))))))) :: [])))))))))))))))))))))) :: ((((Npos (Coq_xI (Coq_xO
    (Coq_xI (Coq_xO (Coq_xI (Coq_xI Coq_xH))))))) :: ((Npos (Coq_xO (Coq_xI
    (Coq_xO (Coq_xO (Coq_xI (Coq_xI Coq_xH))))))) :: ((Npos (Coq_xO (Coq_xI
    (Coq_xI (Coq_xI (Coq_xO (Coq_xI Coq_xH))))))) :: ((Npos (Coq_xO (Coq_xI
    (Coq_xO (Coq_xI (Coq_xI Coq_xH)))))) :: ((Npos (Coq_xI (Coq_xI (Coq_xI
    (Coq_xI (Coq_xO (Coq_xI Coq_xH))))))) :: ((Npos (Coq_xI (Coq_xO (Coq_xO
    (Coq_xO (Coq_xO (Coq_xI Coq_xH))))))) :: ((Npos (Coq_xI (Coq_xI (Coq_xO
    (Coq_xO (Coq_xI (Coq_xI Coq_xH))))))) :: ((Npos (Coq_xI (Coq_xO (Coq_xO
    (Coq_xI (Coq_xO (Coq_xI Coq_xH))))))) :: ((Npos (Coq_xI (Coq_xI (Coq_xO
    (Coq_xO (Coq_xI (Coq_xI Coq_xH))))))) :: ((Npos (Coq_xO (Coq_xI (Coq_xO
    (Coq_xI (Coq_xI Coq_xH)))))) :: ((Npos (Coq_xO (Coq_xI (Coq_xI (Coq_xI
    (Coq_xO (Coq_xI Coq_xH))))))) :: ((Npos (Coq_xI (Coq_xO (Coq_xO (Coq_xO
    (Coq_xO (Coq_xI Coq_xH))))))) :: ((Npos (Coq_xI (Coq_xO (Coq_xI (Coq_xI
    (Coq_xO (Coq_xI Coq_xH))))))) :: ((Npos (Coq_xI (Coq_xO (Coq_xI (Coq_xO
    (Coq_xO (Coq_xI Coq_xH))))))) :: ((Npos (Coq_xI (Coq_xI (Coq_xO (Coq_xO
    (Coq_xI (Coq_xI Coq_xH))))))) :: ((Npos (Coq_xO (Coq_xI (Coq_xO (Coq_xI
    (Coq_xI Coq_xH)))))) :: ((Npos (Coq_xO (Coq_xO (Coq_xI (Coq_xO (Coq_xI
    (Coq_xI Coq_xH))))))) :: ((Npos (Coq_xI (Coq_xI (Coq_xO (Coq_xO (Coq_xO
    (Coq_xI Coq_xH))))))) :: ((Npos (Coq_xO (Coq_xI (Coq_xO (Coq_xI (Coq_xI
    Coq_xH)))))) :: ((Npos (Coq_xI (Coq_xI (Coq_xI (Coq_xI (Coq_xO (Coq_xI
    Coq_xH))))))) :: ((Npos (Coq_xO (Coq_xO (Coq_xO (Coq_xO (Coq_xI (Coq_xI
    Coq_xH))))))) :: ((Npos (Coq_xI (Coq_xO (Coq_xI (Coq_xO (Coq_xO (Coq_xI
    Coq_xH))))))) :: ((Npos (Coq_xO (Coq_xI (Coq_xI (Coq_xI (Coq_xO (Coq_xI
    Coq_xH))))))) :: ((Npos (Coq_xO (Coq_xO (Coq_xI (Coq_xO (Coq_xO (Coq_xI
    Coq_xH))))))) :: ((Npos (Coq_xI (Coq_xI (Coq_xI (Coq_xI (Coq_xO (Coq_xI
    Coq_xH))))))) :: ((Npos (Coq_xI (Coq_xI (Coq_xO (Coq_xO (Coq_xO (Coq_xI
    Coq_xH))))))) :: ((Npos (Coq_xI (Coq_xO (Coq_xI (Coq_xO (Coq_xI (Coq_xI
    Coq_xH))))))) :: ((Npos (Coq_xI (Coq_xO (Coq_xI (Coq_xI (Coq_xO (Coq_xI
    Coq_xH))))))) :: ((Npos (Coq_xI (Coq_xO (Coq_xI (Coq_xO (Coq_xO (Coq_xI
    Coq_xH))))))) :: ((Npos (Coq_xO (Coq_xI (Coq_xI (Coq_xI (Coq_xO (Coq_xI
    Coq_xH))))))) :: ((Npos (Coq_xO (Coq_xO (Coq_xI (Coq_xO (Coq_xI (Coq_xI
    Coq_xH))))))) :: ((Npos (Coq_xO (Coq_xI (Coq_xO (Coq_xI (Coq_xI
    Coq_xH)))))) :: ((Npos (Coq_xO (Coq_xO (Coq_xO (Coq_xI (Coq_xI (Coq_xI
    Coq_xH))))))) :: ((Npos (Coq_xI (Coq_xO (Coq_xI (Coq_xI (Coq_xO (Coq_xI
    Coq_xH))))))) :: ((Npos (Coq_xO (Coq_xO (Coq_xI (Coq_xI (Coq_xO (Coq_xI
    Coq_xH))))))) :: ((Npos (Coq_xO (Coq_xI (Coq_xI (Coq_xI (Coq_xO (Coq_xI
    Coq_xH))))))) :: ((Npos (Coq_xI (Coq_xI (Coq_xO (Coq_xO (Coq_xI (Coq_xI
    Coq_xH))))))) :: ((Npos (Coq_xO (Coq_xI (Coq_xO (Coq_xI (Coq_xI
    Coq_xH)))))) :: ((Npos (Coq_xO (Coq_xO (Coq_xI (Coq_xO (Coq_xI (Coq_xI
    Coq_xH))))))) :: ((Npos (Coq_xI (Coq_xO (Coq_xI (Coq_xO (Coq_xO (Coq_xI
    Coq_xH))))))) :: ((Npos (Coq_xO (Coq_xO (Coq_xO (Coq_xI (Coq_xI (Coq_xI
    Coq_xH))))))) :: ((Npos (Coq_xO (Coq_xO (Coq_xI (Coq_xO (Coq_xI (Coq_xI
    Coq_xH))))))) :: ((Npos (Coq_xO (Coq_xI (Coq_xO (Coq_xI (Coq_xI
    Coq_xH)))))) :: ((Npos (Coq_xI (Coq_xO (Coq_xO (Coq_xO (Coq_xI
    Coq_xH)))))) :: ((Npos (Coq_xO (Coq_xI (Coq_xI (Coq_xI (Coq_xO
    Coq_xH)))))) :: ((Npos (Coq_xO (Coq_xO (Coq_xO (Coq_xO (Coq_xI
    Coq_xH)))))) :: [])))))))))))))))))))))))))))))))))))))))))))))), ((Npos
    (Coq_xI (Coq_xO (Coq_xI (Coq_xI (Coq_xO (Coq_xI Coq_xH))))))) :: ((Npos
    (Coq_xI (Coq_xO (Coq_xO (Coq_xO (Coq_xO (Coq_xI Coq_xH))))))) :: ((Npos
    (Coq_xI (Coq_xI (Coq_xO (Coq_xO (Coq_xI (Coq_xI Coq_xH))))))) :: ((Npos
    (Coq_xO (Coq_xO (Coq_xI (Coq_xO (Coq_xI (Coq_xI Coq_xH))))))) :: ((Npos
    (Coq_xI (Coq_xO (Coq_xI (Coq_xO (Coq_xO (Coq_xI Coq_xH))))))) :: ((Npos
    (Coq_xO (Coq_xI (Coq_xO (Coq_xO (Coq_xI (Coq_xI Coq_xH))))))) :: ((Npos
    (Coq_xI (Coq_xO (Coq_xI (Coq_xI (Coq_xO Coq_xH)))))) :: ((Npos (Coq_xO
    (Coq_xO (Coq_xO (Coq_xO (Coq_xI (Coq_xI Coq_xH))))))) :: ((Npos (Coq_xI
    (Coq_xO (Coq_xO (Coq_xO (Coq_xO (Coq_xI Coq_xH))))))) :: ((Npos (Coq_xI
    (Coq_xI (Coq_xI (Coq_xO (Coq_xO (Coq_xI Coq_xH))))))) :: ((Npos (Coq_xI
    (Coq_xO (Coq_xI (Coq_xO (Coq_xO (Coq_xI Coq_xH))))))) :: ((Npos (Coq_xI
    (Coq_xO (Coq_xI (Coq_xI (Coq_xO Coq_xH)))))) :: ((Npos (Coq_xO (Coq_xI
    (Coq_xI (Coq_xI (Coq_xO (Coq_xI Coq_xH))))))) :: ((Npos (Coq_xI (Coq_xO
    (Coq_xO (Coq_xO (Coq_xO (Coq_xI Coq_xH))))))) :: ((Npos (Coq_xI (Coq_xO
    (Coq_xI (Coq_xI (Coq_xO (Coq_xI Coq_xH))))))) :: ((Npos (Coq_xI (Coq_xO
    (Coq_xI (Coq_xO (Coq_xO (Coq_xI
    Coq_xH))))))) :: []))))))))))))))))) :: ((((Npos (Coq_xI (Coq_xO (Coq_xI
    (Coq_xO (Coq_xI (Coq_xI Coq_xH))))))) :: ((Npos (Coq_xO (Coq_xI (Coq_xO
    (Coq_xO (Coq_xI (Coq_xI Coq_xH))))))) :: ((Npos (Coq_xO (Coq_xI (Coq_xI
    (Coq_xI (Coq_xO (Coq_xI Coq_xH))))))) :: ((Npos (Coq_xO (Coq_xI (Coq_xO
    (Coq_xI (Coq_xI Coq_xH)))))) :: ((Npos (Coq_xI (Coq_xI (Coq_xI (Coq_xI
    (Coq_xO (Coq_xI Coq_xH))))))) :: ((Npos (Coq_xI (Coq_xO (Coq_xO (Coq_xO
    (Coq_xO (Coq_xI Coq_xH))))))) :: ((Npos (Coq_xI (Coq_xI (Coq_xO (Coq_xO
    (Coq_xI (Coq_xI Coq_xH))))))) :: ((Npos (Coq_xI (Coq_xO (Coq_xO (Coq_xI
    (Coq_xO (Coq_xI Coq_xH))))))) :: ((Npos (Coq_xI (Coq_xI (Coq_xO (Coq_xO
    (Coq_xI (Coq_xI Coq_xH))))))) :: ((Npos (Coq_xO (Coq_xI (Coq_xO (Coq_xI
    (Coq_xI Coq_xH)))))) :: ((Npos (Coq_xO (Coq_xI (Coq_xI (Coq_xI (Coq_xO
    (Coq_xI Coq_xH))))))) :: ((Npos (Coq_xI (Coq_xO (Coq_xO (Coq_xO (Coq_xO
    (Coq_xI Coq_xH))))))) :: ((Npos (Coq_xI (Coq_xO (Coq_xI (Coq_xI (Coq_xO
    (Coq_xI Coq_xH))))))) :: ((Npos (Coq_xI (Coq_xO (Coq_xI (Coq_xO (Coq_xO
    (Coq_xI Coq_xH))))))) :: ((Npos (Coq_xI (Coq_xI (Coq_xO (Coq_xO (Coq_xI
    (Coq_xI Coq_xH))))))) :: ((Npos (Coq_xO (Coq_xI (Coq_xO (Coq_xI (Coq_xI
    Coq_xH)))))) :: ((Npos (Coq_xO (Coq_xO (Coq_xI (Coq_xO (Coq_xI (Coq_xI
    Coq_xH))))))) :: ((Npos (Coq_xI (Coq_xI (Coq_xO (Coq_xO (Coq_xO (Coq_xI
    Coq_xH))))))) :: ((Npos (Coq_xO (Coq_xI (Coq_xO (Coq_xI (Coq_xI
    Coq_xH)))))) :: ((Npos (Coq_xI (Coq_xI (Coq_xI (Coq_xI (Coq_xO (Coq_xI
    Coq_xH))))))) :: ((Npos (Coq_xO (Coq_xO (Coq_xO (Coq_xO (Coq_xI (Coq_xI
    Coq_xH))))))) :: ((Npos (Coq_xI (Coq_xO (Coq_xI (Coq_xO (Coq_xO (Coq_xI
    Coq_xH))))))) :: ((Npos (Coq_xO (Coq_xI (Coq_xI (Coq_xI (Coq_xO (Coq_xI
    Coq_xH))))))) :: ((Npos (Coq_xO (Coq_xO (Coq_xI (Coq_xO (Coq_xO (Coq_xI
    Coq_xH))))))) :: ((Npos (Coq_xI (Coq_xI (Coq_xI (Coq_xI (Coq_xO (Coq_xI
    Coq_xH))))))) :: ((Npos (Coq_xI (Coq_xI (Coq_xO (Coq_xO (Coq_xO (Coq_xI
    Coq_xH))))))) :: ((Npos (Coq_xI (Coq_xO (Coq_xI (Coq_xO (Coq_xI (Coq_xI
    Coq_xH))))))) :: ((Npos (Coq_xI (Coq_xO (Coq_xI (Coq_xI (Coq_xO (Coq_xI
    Coq_xH))))))) :: ((Npos (Coq_xI (Coq_xO (Coq_xI (Coq_xO (Coq_xO (Coq_xI
    Coq_xH))))))) :: ((Npos (Coq_xO (Coq_xI (Coq_xI (Coq_xI (Coq_xO (Coq_xI
    Coq_xH))))))) :: ((Npos (Coq_xO (Coq_xO (Coq_xI (Coq_xO (Coq_xI (Coq_xI
    Coq_xH))))))) :: ((Npos (Coq_xO (Coq_xI (Coq_xO (Coq_xI (Coq_xI
    Coq_xH)))))) :: ((Npos (Coq_xO (Coq_xO (Coq_xO (Coq_xI (Coq_xI (Coq_xI
    Coq_xH))))))) :: ((Npos (Coq_xI (Coq_xO (Coq_xI (Coq_xI (Coq_xO (Coq_xI
    Coq_xH))))))) :: ((Npos (Coq_xO (Coq_xO (Coq_xI (Coq_xI (Coq_xO (Coq_xI
    Coq_xH))))))) :: ((Npos (Coq_xO (Coq_xI (Coq_xI (Coq_xI (Coq_xO (Coq_xI
    Coq_xH))))))) :: ((Npos (Coq_xI (Coq_xI (Coq_xO (Coq_xO (Coq_xI (Coq_xI
    Coq_xH))))))) :: ((Npos (Coq_xO (Coq_xI (Coq_xO (Coq_xI (Coq_xI
    Coq_xH)))))) :: ((Npos (Coq_xO (Coq_xO (Coq_xI (Coq_xO (Coq_xI (Coq_xI
    Coq_xH))))))) :: ((Npos (Coq_xI (Coq_xO (Coq_xI (Coq_xO (Coq_xO (Coq_xI
    Coq_xH))))))) :: ((Npos (Coq_xO (Coq_xO (Coq_xO (Coq_xI (Coq_xI (Coq_xI
    Coq_xH))))))) :: ((Npos (Coq_xO (Coq_xO (Coq_xI (Coq_xO (Coq_xI (Coq_xI
    Coq_xH))))))) :: ((Npos (Coq_xO (Coq_xI (Coq_xO (Coq_xI (Coq_xI
    Coq_xH)))))) :: ((Npos (Coq_xI (Coq_xO (Coq_xO (Coq_xO (Coq_xI
    Coq_xH)))))) :: ((Npos (Coq_xO (Coq_xI (Coq_xI (Coq_xI (Coq_xO
    Coq_xH)))))) :: ((Npos (Coq_xO (Coq_xO (Coq_xO (Coq_xO (Coq_xI
    Coq_xH)))))) :: [])))))))))))))))))))))))))))))))))))))))))))))), ((Npos
    (Coq_xI (Coq_xI (Coq_xO (Coq_xO (Coq_xI (Coq_xI Coq_xH))))))) :: ((Npos
    (Coq_xO (Coq_xO (Coq_xI (Coq_xO (Coq_xI (Coq_xI Coq_xH))))))) :: ((Npos
    (Coq_xI (Coq_xO (Coq_xO (Coq_xI (Coq_xI (Coq_xI Coq_xH))))))) :: ((Npos
    (Coq_xO (Coq_xO (Coq_xI (Coq_xI (Coq_xO (Coq_xI Coq_xH))))))) :: ((Npos
    (Coq_xI (Coq_xO (Coq_xI (Coq_xO (Coq_xO (Coq_xI Coq_xH))))))) :: ((Npos
    (Coq_xI (Coq_xO (Coq_xI (Coq_xI (Coq_xO Coq_xH)))))) :: ((Npos (Coq_xO
    (Coq_xI (Coq_xI (Coq_xI (Coq_xO (Coq_xI Coq_xH))))))) :: ((Npos (Coq_xI
    (Coq_xO (Coq_xO (Coq_xO (Coq_xO (Coq_xI Coq_xH))))))) :: ((Npos (Coq_xI
    (Coq_xO (Coq_xI (Coq_xI (Coq_xO (Coq_xI Coq_xH))))))) :: ((Npos (Coq_xI
    (Coq_xO (Coq_xI (Coq_xO (Coq_xO (Coq_xI
    Coq_xH))))))) :: []))))))))))) :: ((((Npos (Coq_xI (Coq_xO (Coq_xI
    (Coq_xO (Coq_xI (Coq_xI Coq_xH))))))) :: ((Npos (Coq_xO (Coq_xI (Coq_xO
    (Coq_xO (Coq_xI (Coq_xI Coq_xH))))))) :: ((Npos (Coq_xO (Coq_xI (Coq_xI
    (Coq_xI (Coq_xO (Coq_xI Coq_xH))))))) :: ((Npos (Coq_xO (Coq_xI (Coq_xO
    (Coq_xI (Coq_xI Coq_xH)))))) :: ((Npos (Coq_xI (Coq_xI (Coq_xI (Coq_xI
    (Coq_xO (Coq_xI Coq_xH))))))) :: ((Npos (Coq_xI (Coq_xO (Coq_xO (Coq_xO
    (Coq_xO (Coq_xI Coq_xH))))))) :: ((Npos (Coq_xI (Coq_xI (Coq_xO (Coq_xO
    (Coq_xI (Coq_xI Coq_xH))))))) :: ((Npos (Coq_xI (Coq_xO (Coq_xO (Coq_xI
    (Coq_xO (Coq_xI Coq_xH))))))) :: ((Npos (Coq_xI (Coq_xI (Coq_xO (Coq_xO
    (Coq_xI (Coq_xI Coq_xH))))))) :: ((Npos (Coq_xO (Coq_xI (Coq_xO (Coq_xI
    (Coq_xI Coq_xH)))))) :: ((Npos (Coq_xO (Coq_xI (Coq_xI (Coq_xI (Coq_xO
    (Coq_xI Coq_xH))))))) :: ((Npos (Coq_xI (Coq_xO (Coq_xO (Coq_xO (Coq_xO
    (Coq_xI Coq_xH))))))) :: ((Npos (Coq_xI (Coq_xO (Coq_xI (Coq_xI (Coq_xO
    (Coq_xI Coq_xH))))))) :: ((Npos (Coq_xI (Coq_xO (Coq_xI (Coq_xO (Coq_xO
    (Coq_xI Coq_xH))))))) :: ((Npos (Coq_xI (Coq_xI (Coq_xO (Coq_xO (Coq_xI
    (Coq_xI Coq_xH))))))) :: ((Npos (Coq_xO (Coq_xI (Coq_xO (Coq_xI (Coq_xI
    Coq_xH)))))) :: ((Npos (Coq_xO (Coq_xO (Coq_xI (Coq_xO (Coq_xI (Coq_xI
    Coq_xH))))))) :: ((Npos (Coq_xI (Coq_xI (Coq_xO (Coq_xO (Coq_xO (Coq_xI
    Coq_xH))))))) :: ((Npos (Coq_xO (Coq_xI (Coq_xO (Coq_xI (Coq_xI
    Coq_xH)))))) :: ((Npos (Coq_xI (Coq_xI (Coq_xI (Coq_xI (Coq_xO (Coq_xI
    Coq_xH))))))) :: ((Npos (Coq_xO (Coq_xO (Coq_xO (Coq_xO (Coq_xI (Coq_xI
    Coq_xH))))))) :: ((Npos (Coq_xI (Coq_xO (Coq_xI (Coq_xO (Coq_xO (Coq_xI
    Coq_xH))))))) :: ((Npos (Coq_xO (Coq_xI (Coq_xI (Coq_xI (Coq_xO (Coq_xI
    Coq_xH))))))) :: ((Npos (Coq_xO (Coq_xO (Coq_xI (Coq_xO (Coq_xO (Coq_xI
    Coq_xH))))))) :: ((Npos (Coq_xI (Coq_xI (Coq_xI (Coq_xI (Coq_xO (Coq_xI
    Coq_xH))))))) :: ((Npos (Coq_xI (Coq_xI (Coq_xO (Coq_xO (Coq_xO (Coq_xI
    Coq_xH))))))) :: ((Npos (Coq_xI (Coq_xO (Coq_xI (Coq_xO (Coq_xI (Coq_xI
    Coq_xH))))))) :: ((Npos (Coq_xI (Coq_xO (Coq_xI (Coq_xI (Coq_xO (Coq_xI
    Coq_xH))))))) :: ((Npos (Coq_xI (Coq_xO (Coq_xI (Coq_xO (Coq_xO (Coq_xI
    Coq_xH))))))) :: ((Npos (Coq_xO (Coq_xI (Coq_xI (Coq_xI (Coq_xO (Coq_xI
    Coq_xH))))))) :: ((Npos (Coq_xO (Coq_xO (Coq_xI (Coq_xO (Coq_xI (Coq_xI
    Coq_xH))))))) :: ((Npos (Coq_xO (Coq_xI (Coq_xO (Coq_xI (Coq_xI
    Coq_xH)))))) :: ((Npos (Coq_xO (Coq_xO (Coq_xO (Coq_xI (Coq_xI (Coq_xI
    Coq_xH))))))) :: ((Npos (Coq_xI (Coq_xO (Coq_xI (Coq_xI (Coq_xO (Coq_xI
    Coq_xH))))))) :: ((Npos (Coq_xO (Coq_xO (Coq_xI (Coq_xI (Coq_xO (Coq_xI
    Coq_xH))))))) :: ((Npos (Coq_xO (Coq_xI (Coq_xI (Coq_xI (Coq_xO (Coq_xI
    Coq_xH))))))) :: ((Npos (Coq_xI (Coq_xI (Coq_xO (Coq_xO (Coq_xI (Coq_xI
    Coq_xH))))))) :: ((Npos (Coq_xO (Coq_xI (Coq_xO (Coq_xI (Coq_xI
    Coq_xH)))))) :: ((Npos (Coq_xO (Coq_xO (Coq_xI (Coq_xO (Coq_xI (Coq_xI
    Coq_xH))))))) :: ((Npos (Coq_xI (Coq_xO (Coq_xI (Coq_xO (Coq_xO (Coq_xI
    Coq_xH))))))) :: ((Npos (Coq_xO (Coq_xO (Coq_xO (Coq_xI (Coq_xI (Coq_xI
    Coq_xH))))))) :: ((Npos (Coq_xO (Coq_xO (Coq_xI (Coq_xO (Coq_xI (Coq_xI
    Coq_xH))))))) :: ((Npos (Coq_xO (Coq_xI (Coq_xO (Coq_xI (Coq_xI
    Coq_xH)))))) :: ((Npos (Coq_xI (Coq_xO (Coq_xO (Coq_xO (Coq_xI
    Coq_xH)))))) :: ((Npos (Coq_xO (Coq_xI (Coq_xI (Coq_xI (Coq_xO
    Coq_xH)))))) :: ((Npos (Coq_xO (Coq_xO (Coq_xO (Coq_xO (Coq_xI
    Coq_xH)))))) :: [])))))))))))))))))))))))))))))))))))))))))))))), ((Npos
    (Coq_xI (Coq_xI (Coq_xO (Coq_xO (Coq_xI (Coq_xI Coq_xH))))))) :: ((Npos
    (Coq_xO (Coq_xO (Coq_xI (Coq_xO (Coq_xI (Coq_xI Coq_xH))))))) :: ((Npos
    (Coq_xI (Coq_xO (Coq_xO (Coq_xI (Coq_xI (Coq_xI Coq_xH))))))) :: ((Npos
    (Coq_xO (Coq_xO (Coq_xI (Coq_xI (Coq_xO (Coq_xI Coq_xH))))))) :: ((Npos
    (Coq_xI (Coq_xO (Coq_xI (Coq_xO (Coq_xO (Coq_xI Coq_xH))))))) :: ((Npos
    (Coq_xI (Coq_xO (Coq_xI (Coq_xI (Coq_xO Coq_xH)))))) :: ((Npos (Coq_xI
    (Coq_xI (Coq_xI (Coq_xI (Coq_xO (Coq_xI Coq_xH))))))) :: ((Npos (Coq_xO
    (Coq_xI (Coq_xI (Coq_xO (Coq_xI (Coq_xI Coq_xH))))))) :: ((Npos (Coq_xI
    (Coq_xO (Coq_xI (Coq_xO (Coq_xO (Coq_xI Coq_xH))))))) :: ((Npos (Coq_xO
    (Coq_xI (Coq_xO (Coq_xO (Coq_xI (Coq_xI Coq_xH))))))) :: ((Npos (Coq_xO
    (Coq_xI (Coq_xO (Coq_xO (Coq_xI (Coq_xI Coq_xH))))))) :: ((Npos (Coq_xI
    (Coq_xO (Coq_xO (Coq_xI (Coq_xO (Coq_xI Coq_xH))))))) :: ((Npos (Coq_xO
    (Coq_xO (Coq_xI (Coq_xO (Coq_xO (Coq_xI Coq_xH))))))) :: ((Npos (Coq_xI
    (Coq_xO (Coq_xI (Coq_xO (Coq_xO (Coq_xI
    Coq_xH))))))) :: []))))))))))))))) :: ((((Npos (Coq_xI (Coq_xO (Coq_xI
    (Coq_xO (Coq_xI (Coq_xI Coq_xH))))))) :: ((Npos (Coq_xO (Coq_xI (Coq_xO
    (Coq_xO (Coq_xI (Coq_xI Coq_xH))))))) :: ((Npos (Coq_xO (Coq_xI (Coq_xI
    (Coq_xI (Coq_xO (Coq_xI Coq_xH))))))) :: ((Npos (Coq_xO (Coq_xI (Coq_xO
    (Coq_xI (Coq_xI Coq_xH)))))) :: ((Npos (Coq_xI (Coq_xI (Coq_xI (Coq_xI
    (Coq_xO (Coq_xI Coq_xH))))))) :: ((Npos (Coq_xI (Coq_xO (Coq_xO (Coq_xO
    (Coq_xO (Coq_xI Coq_xH))))))) :: ((Npos (Coq_xI (Coq_xI (Coq_xO (Coq_xO
    (Coq_xI (Coq_xI Coq_xH))))))) :: ((Npos (Coq_xI (Coq_xO (Coq_xO (Coq_xI
    (Coq_xO (Coq_xI Coq_xH))))))) :: ((Npos (Coq_xI (Coq_xI (Coq_xO (Coq_xO
    (Coq_xI (Coq_xI Coq_xH))))))) :: ((Npos (Coq_xO (Coq_xI (Coq_xO (Coq_xI
    (Coq_xI Coq_xH)))))) :: ((Npos (Coq_xO (Coq_xI (Coq_xI (Coq_xI (Coq_xO
    (Coq_xI Coq_xH))))))) :: ((Npos (Coq_xI (Coq_xO (Coq_xO (Coq_xO (Coq_xO
    (Coq_xI Coq_xH))))))) :: ((Npos (Coq_xI (Coq_xO (Coq_xI (Coq_xI (Coq_xO
    (Coq_xI Coq_xH))))))) :: ((Npos (Coq_xI (Coq_xO (Coq_xI (Coq_xO (Coq_xO
    (Coq_xI Coq_xH))))))) :: ((Npos (Coq_xI (Coq_xI (Coq_xO (Coq_xO (Coq_xI
    (Coq_xI Coq_xH))))))) :: ((Npos (Coq_xO (Coq_xI (Coq_xO (Coq_xI (Coq_xI
    Coq_xH)))))) :: ((Npos (Coq_xO (Coq_xO (Coq_xI (Coq_xO (Coq_xI (Coq_xI
    Coq_xH))))))) :: ((Npos (Coq_xI (Coq_xI (Coq_xO (Coq_xO (Coq_xO (Coq_xI
    Coq_xH))))))) :: ((Npos (Coq_xO (Coq_xI (Coq_xO (Coq_xI (Coq_xI
    Coq_xH)))))) :: ((Npos (Coq_xI (Coq_xI (Coq_xI (Coq_xI (Coq_xO (Coq_xI
    Coq_xH))))))) :: ((Npos (Coq_xO (Coq_xO (Coq_xO (Coq_xO (Coq_xI (Coq_xI
    Coq_xH))))))) :: ((Npos (Coq_xI (Coq_xO (Coq_xI (Coq_xO (Coq_xO (Coq_xI
    Coq_xH))))))) :: ((Npos (Coq_xO (Coq_xI (Coq_xI (Coq_xI (Coq_xO (Coq_xI
    Coq_xH))))))) :: ((Npos (Coq_xO (Coq_xO (Coq_xI (Coq_xO (Coq_xO (Coq_xI
    Coq_xH))))))) :: ((Npos (Coq_xI (Coq_xI (Coq_xI (Coq_xI (Coq_xO (Coq_xI
    Coq_xH))))))) :: ((Npos (Coq_xI (Coq_xI (Coq_xO (Coq_xO (Coq_xO (Coq_xI
    Coq_xH))))))) :: ((Npos (Coq_xI (Coq_xO (Coq_xI (Coq_xO (Coq_xI (Coq_xI
    Coq_xH))))))) :: ((Npos (Coq_xI (Coq_xO (Coq_xI (Coq_xI (Coq_xO (Coq_xI
    Coq_xH))))))) :: ((Npos (Coq_xI (Coq_xO (Coq_xI (Coq_xO (Coq_xO (Coq_xI
    Coq_xH))))))) :: ((Npos (Coq_xO (Coq_xI (Coq_xI (Coq_xI (Coq_xO (Coq_xI
    Coq_xH))))))) :: ((Npos (Coq_xO (Coq_xO (Coq_xI (Coq_xO (Coq_xI (Coq_xI
    Coq_xH))))))) :: ((Npos (Coq_xO (Coq_xI (Coq_xO (Coq_xI (Coq_xI
    Coq_xH)))))) :: ((Npos (Coq_xO (Coq_xO (Coq_xO (Coq_xI (Coq_xI (Coq_xI
    Coq_xH))))))) :: ((Npos (Coq_xI (Coq_xO (Coq_xI (Coq_xI (Coq_xO (Coq_xI
    Coq_xH))))))) :: ((Npos (Coq_xO (Coq_xO (Coq_xI (Coq_xI (Coq_xO (Coq_xI
    Coq_xH))))))) :: ((Npos (Coq_xO (Coq_xI (Coq_xI (Coq_xI (Coq_xO (Coq_xI
    Coq_xH))))))) :: ((Npos (Coq_xI (Coq_xI (Coq_xO (Coq_xO (Coq_xI (Coq_xI
    Coq_xH))))))) :: ((Npos (Coq_xO (Coq_xI (Coq_xO (Coq_xI (Coq_xI
    Coq_xH)))))) :: ((Npos (Coq_xO (Coq_xO (Coq_xI (Coq_xO (Coq_xI (Coq_xI
    Coq_xH))))))) :: ((Npos (Coq_xI (Coq_xO (Coq_xI (Coq_xO (Coq_xO (Coq_xI
    Coq_xH))))))) :: ((Npos (Coq_xO (Coq_xO (Coq_xO (Coq_xI (Coq_xI (Coq_xI
    Coq_xH))))))) :: ((Npos (Coq_xO (Coq_xO (Coq_xI (Coq_xO (Coq_xI (Coq_xI
    Coq_xH))))))) :: ((Npos (Coq_xO (Coq_xI (Coq_xO (Coq_xI (Coq_xI
    Coq_xH)))))) :: ((Npos (Coq_xI (Coq_xO (Coq_xO (Coq_xO (Coq_xI
    Coq_xH)))))) :: ((Npos (Coq_xO (Coq_xI (Coq_xI (Coq_xI (Coq_xO
    Coq_xH)))))) :: ((Npos (Coq_xO (Coq_xO (Coq_xO (Coq_xO (Coq_xI
    Coq_xH)))))) :: [])))))))))))))))))))))))))))))))))))))))))))))), ((Npos
    (Coq_xO (Coq_xI (Coq_xI (Coq_xO (Coq_xI (Coq_xI Coq_xH))))))) :: ((Npos
    (Coq_xI (Coq_xO (Coq_xO (Coq_xI (Coq_xO (Coq_xI Coq_xH))))))) :: ((Npos
    (Coq_xI (Coq_xI (Coq_xO (Coq_xO (Coq_xI (Coq_xI Coq_xH))))))) :: ((Npos
    (Coq_xI (Coq_xO (Coq_xO (Coq_xI (Coq_xO (Coq_xI Coq_xH))))))) :: ((Npos
    (Coq_xO (Coq_xO (Coq_xI (Coq_xO (Coq_xI (Coq_xI Coq_xH))))))) :: ((Npos
    (Coq_xI (Coq_xO (Coq_xI (Coq_xO (Coq_xO (Coq_xI Coq_xH))))))) :: ((Npos
    (Coq_xO (Coq_xO (Coq_xI (Coq_xO (Coq_xO (Coq_xI Coq_xH))))))) :: ((Npos
    (Coq_xI (Coq_xO (Coq_xI (Coq_xI (Coq_xO Coq_xH)))))) :: ((Npos (Coq_xI
    (Coq_xI (Coq_xO (Coq_xO (Coq_xI (Coq_xI Coq_xH))))))) :: ((Npos (Coq_xO
    (Coq_xO (Coq_xI (Coq_xO (Coq_xI (Coq_xI Coq_xH))))))) :: ((Npos (Coq_xI
    (Coq_xO (Coq_xO (Coq_xI (Coq_xI (Coq_xI Coq_xH))))))) :: ((Npos (Coq_xO
    (Coq_xO (Coq_xI (Coq_xI (Coq_xO (Coq_xI Coq_xH))))))) :: ((Npos (Coq_xI
    (Coq_xO (Coq_xI (Coq_xO (Coq_xO (Coq_xI Coq_xH))))))) :: ((Npos (Coq_xI
    (Coq_xO (Coq_xI (Coq_xI (Coq_xO Coq_xH)))))) :: ((Npos (Coq_xO (Coq_xI
    (Coq_xI (Coq_xI (Coq_xO (Coq_xI Coq_xH))))))) :: ((Npos (Coq_xI (Coq_xO
    (Coq_xO (Coq_xO (Coq_xO (Coq_xI Coq_xH))))))) :: ((Npos (Coq_xI (Coq_xO
    (Coq_xI (Coq_xI (Coq_xO (Coq_xI Coq_xH))))))) :: ((Npos (Coq_xI (Coq_xO
    (Coq_xI (Coq_xO (Coq_xO (Coq_xI
    Coq_xH))))))) :: []))))))))))))))))))) :: []))))))))))))))))))))))))))))))))))))))))))))

(** val redirect_excluded : (coq_N list * coq_N list) list **)

let redirect_excluded =
  (((Npos (Coq_xI (Coq_xO (Coq_xI (Coq_xO (Coq_xI (Coq_xI
    Coq_xH))))))) :: ((Npos (Coq_xO (Coq_xI (Coq_xO (Coq_xO (Coq_xI (Coq_xI
    Coq_xH))))))) :: ((Npos (Coq_xO (Coq_xI (Coq_xI (Coq_xI (Coq_xO (Coq_xI
    Coq_xH))))))) :: ((Npos (Coq_xO (Coq_xI (Coq_xO (Coq_xI (Coq_xI
    Coq_xH)))))) :: ((Npos (Coq_xI (Coq_xI (Coq_xI (Coq_xI (Coq_xO (Coq_xI
    Coq_xH))))))) :: ((Npos (Coq_xI (Coq_xO (Coq_xO (Coq_xO (Coq_xO (Coq_xI
    Coq_xH))))))) :: ((Npos (Coq_xI (Coq_xI (Coq_xO (Coq_xO (Coq_xI (Coq_xI
    Coq_xH))))))) :: ((Npos (Coq_xI (Coq_xO (Coq_xO (Coq_xI (Coq_xO (Coq_xI
    Coq_xH))))))) :: ((Npos (Coq_xI (Coq_xI (Coq_xO (Coq_xO (Coq_xI (Coq_xI
    Coq_xH))))))) :: ((Npos (Coq_xO (Coq_xI (Coq_xO (Coq_xI (Coq_xI
    Coq_xH)))))) :: ((Npos (Coq_xO (Coq_xI (Coq_xI (Coq_xI (Coq_xO (Coq_xI
    Coq_xH))))))) :: ((Npos (Coq_xI (Coq_xO (Coq_xO (Coq_xO (Coq_xO (Coq_xI
    Coq_xH))))))) :: ((Npos (Coq_xI (Coq_xO (Coq_xI (Coq_xI (Coq_xO (Coq_xI
    Coq_xH))))))) :: ((Npos (Coq_xI (Coq_xO (Coq_xI (Coq_xO (Coq_xO (Coq_xI
    Coq_xH))))))) :: ((Npos (Coq_xI (Coq_xI (Coq_xO (Coq_xO (Coq_xI (Coq_xI
    Coq_xH))))))) :: ((Npos (Coq_xO (Coq_xI (Coq_xO (Coq_xI (Coq_xI
    Coq_xH)))))) :: ((Npos (Coq_xO (Coq_xO (Coq_xI (Coq_xO (Coq_xI (Coq_xI
    Coq_xH))))))) :: ((Npos (Coq_xI (Coq_xI (Coq_xO (Coq_xO (Coq_xO (Coq_xI
    Coq_xH))))))) :: ((Npos (Coq_xO (Coq_xI (Coq_xO (Coq_xI (Coq_xI
    Coq_xH)))))) :: ((Npos (Coq_xI (Coq_xI (Coq_xI (Coq_xI (Coq_xO (Coq_xI
    Coq_xH))))))) :: ((Npos (Coq_xO (Coq_xO (Coq_xO (Coq_xO (Coq_xI (Coq_xI
    Coq_xH))))))) :: ((Npos (Coq_xI (Coq_xO (Coq_xI (Coq_xO (Coq_xO (Coq_xI
    Coq_xH))))))) :: ((Npos (Coq_xO (Coq_xI (Coq_xI (Coq_xI (Coq_xO (Coq_xI
    Coq_xH))))))) :: ((Npos (Coq_xO (Coq_xO (Coq_xI (Coq_xO (Coq_xO (Coq_xI
    Coq_xH))))))) :: ((Npos (Coq_xI (Coq_xI (Coq_xI (Coq_xI (Coq_xO (Coq_xI
    Coq_xH))))))) :: ((Npos (Coq_xI (Coq_xI (Coq_xO (Coq_xO (Coq_xO (Coq_xI
    Coq_xH))))))) :: ((Npos (Coq_xI (Coq_xO (Coq_xI (Coq_xO (Coq_xI (Coq_xI
    Coq_xH))))))) :: ((Npos (Coq_xI (Coq_xO (Coq_xI (Coq_xI (Coq_xO (Coq_xI
    Coq_xH))))))) :: ((Npos (Coq_xI (Coq_xO (Coq_xI (Coq_xO (Coq_xO (Coq_xI
    Coq_xH))))))) :: ((Npos (Coq_xO (Coq_xI (Coq_xI (Coq_xI (Coq_xO (Coq_xI
    Coq_xH))))))) :: ((Npos (Coq_xO (Coq_xO (Coq_xI (Coq_xO (Coq_xI (Coq_xI
    Coq_xH))))))) :: ((Npos (Coq_xO (Coq_xI (Coq_xO (Coq_xI (Coq_xI
    Coq_xH)))))) :: ((Npos (Coq_xO (Coq_xO (Coq_xO (Coq_xI (Coq_xI (Coq_xI
    Coq_xH))))))) :: ((Npos (Coq_xI (Coq_xO (Coq_xI (Coq_xI (Coq_xO (Coq_xI
    Coq_xH))))))) :: ((Npos (Coq_xO (Coq_xO (Coq_xI (Coq_xI (Coq_xO (Coq_xI
    Coq_xH))))))) :: ((Npos (Coq_xO (Coq_xI (Coq_xI (Coq_xI (Coq_xO (Coq_xI
    Coq_xH))))))) :: ((Npos (Coq_xI (Coq_xI (Coq_xO (Coq_xO (Coq_xI (Coq_xI
    Coq_xH))))))) :: ((Npos (Coq_xO (Coq_xI (Coq_xO (Coq_xI (Coq_xI
    Coq_xH)))))) :: ((Npos (Coq_xO (Coq_xO (Coq_xI (Coq_xO (Coq_xO (Coq_xI
    Coq_xH))))))) :: ((Npos (Coq_xO (Coq_xI (Coq_xO (Coq_xO (Coq_xI (Coq_xI
    Coq_xH))))))) :: ((Npos (Coq_xI (Coq_xO (Coq_xO (Coq_xO (Coq_xO (Coq_xI
    Coq_xH))))))) :: ((Npos (Coq_xI (Coq_xI (Coq_xI (Coq_xO (Coq_xI (Coq_xI
    Coq_xH))))))) :: ((Npos (Coq_xI (Coq_xO (Coq_xO (Coq_xI (Coq_xO (Coq_xI
    Coq_xH))))))) :: ((Npos (Coq_xO (Coq_xI (Coq_xI (Coq_xI (Coq_xO (Coq_xI
    Coq_xH))))))) :: ((Npos (Coq_xI (Coq_xI (Coq_xI (Coq_xO (Coq_xO (Coq_xI
    Coq_xH))))))) :: ((Npos (Coq_xO (Coq_xI (Coq_xO (Coq_xI (Coq_xI
    Coq_xH)))))) :: ((Npos (Coq_xI (Coq_xO (Coq_xO (Coq_xO (Coq_xI
    Coq_xH)))))) :: ((Npos (Coq_xO (Coq_xI (Coq_xI (Coq_xI (Coq_xO
    Coq_xH)))))) :: ((Npos (Coq_xO (Coq_xO (Coq_xO (Coq_xO (Coq_xI
    Coq_xH)))))) :: []))))))))))))))))))))))))))))))))))))))))))))))))),
    ((Npos (Coq_xO (Coq_xI (Coq_xI (Coq_xO (Coq_xO (Coq_xI
    Coq_xH))))))) :: ((Npos (Coq_xI (Coq_xO (Coq_xO (Coq_xI (Coq_xO (Coq_xI
    Coq_xH))))))) :: ((Npos (Coq_xO (Coq_xO (Coq_xI (Coq_xI (Coq_xO (Coq_xI
    Coq_xH))))))) :: ((Npos (Coq_xO (Coq_xO (Coq_xI (Coq_xI (Coq_xO (Coq_xI
    Coq_xH))))))) :: ((Npos (Coq_xI (Coq_xO (Coq_xI (Coq_xI (Coq_xO
    Coq_xH)))))) :: ((Npos (Coq_xI (Coq_xI (Coq_xI (Coq_xO (Coq_xO (Coq_xI
    Coq_xH))))))) :: ((Npos (Coq_xO (Coq_xI (Coq_xO (Coq_xO (Coq_xI (Coq_xI
    Coq_xH))))))) :: ((Npos (Coq_xI (Coq_xO (Coq_xO (Coq_xO (Coq_xO (Coq_xI
    Coq_xH))))))) :: ((Npos (Coq_xO (Coq_xO (Coq_xI (Coq_xO (Coq_xO (Coq_xI
    Coq_xH))))))) :: ((Npos (Coq_xI (Coq_xO (Coq_xO (Coq_xI (Coq_xO (Coq_xI
    Coq_xH))))))) :: ((Npos (Coq_xI (Coq_xO (Coq_xI (Coq_xO (Coq_xO (Coq_xI
    Coq_xH))))))) :: ((Npos (Coq_xO (Coq_xI (Coq_xI (Coq_xI (Coq_xO (Coq_xI
    Coq_xH))))))) :: ((Npos (Coq_xO (Coq_xO (Coq_xI (Coq_xO (Coq_xI (Coq_xI
    Coq_xH))))))) :: ((Npos (Coq_xI (Coq_xO (Coq_xI (Coq_xI (Coq_xO
    Coq_xH)))))) :: ((Npos (Coq_xO (Coq_xI (Coq_xI (Coq_xI (Coq_xO (Coq_xI
    Coq_xH))))))) :: ((Npos (Coq_xI (Coq_xO (Coq_xO (Coq_xO (Coq_xO (Coq_xI
    Coq_xH))))))) :: ((Npos (Coq_xI (Coq_xO (Coq_xI (Coq_xI (Coq_xO (Coq_xI
    Coq_xH))))))) :: ((Npos (Coq_xI (Coq_xO (Coq_xI (Coq_xO (Coq_xO (Coq_xI
    Coq_xH))))))) :: []))))))))))))))))))) :: ((((Npos (Coq_xI (Coq_xO
    (Coq_xI (Coq_xO (Coq_xI (Coq_xI Coq_xH))))))) :: ((Npos (Coq_xO (Coq_xI
    (Coq_xO (Coq_xO (Coq_xI (Coq_xI Coq_xH))))))) :: ((Npos (Coq_xO (Coq_xI
    (Coq_xI (Coq_xI (Coq_xO (Coq_xI Coq_xH))))))) :: ((Npos (Coq_xO (Coq_xI
    (Coq_xO (Coq_xI (Coq_xI Coq_xH)))))) :: ((Npos (Coq_xI (Coq_xI (Coq_xI
    (Coq_xI (Coq_xO (Coq_xI Coq_xH))))))) :: ((Npos (Coq_xI (Coq_xO (Coq_xO
    (Coq_xO (Coq_xO (Coq_xI Coq_xH))))))) :: ((Npos (Coq_xI (Coq_xI (Coq_xO
    (Coq_xO (Coq_xI (Coq_xI Coq_xH))))))) :: ((Npos (Coq_xI (Coq_xO (Coq_xO
    (Coq_xI (Coq_xO (Coq_xI Coq_xH))))))) :: ((Npos (Coq_xI (Coq_xI (Coq_xO
    (Coq_xO (Coq_xI (Coq_xI Coq_xH))))))) :: ((Npos (Coq_xO (Coq_xI (Coq_xO
    (Coq_xI (Coq_xI Coq_xH)))))) :: ((Npos (Coq_xO (Coq_xI (Coq_xI (Coq_xI
    (Coq_xO (Coq_xI Coq_xH))))))) :: ((Npos (Coq_xI (Coq_xO (Coq_xO (Coq_xO
    (Coq_xO (Coq_xI Coq_xH))))))) :: ((Npos (Coq_xI (Coq_xO (Coq_xI (Coq_xI
    (Coq_xO (Coq_xI Coq_xH))))))) :: ((Npos (Coq_xI (Coq_xO (Coq_xI (Coq_xO
    (Coq_xO (Coq_xI Coq_xH))))))) :: ((Npos (Coq_xI (Coq_xI (Coq_xO (Coq_xO
    (Coq_xI (Coq_xI Coq_xH))))))) :: ((Npos (Coq_xO (Coq_xI (Coq_xO (Coq_xI
    (Coq_xI Coq_xH)))))) :: ((Npos (Coq_xO (Coq_xO (Coq_xI (Coq_xO (Coq_xI
    (Coq_xI Coq_xH))))))) :: ((Npos (Coq_xI (Coq_xI (Coq_xO (Coq_xO (Coq_xO
    (Coq_xI Coq_xH))))))) :: ((Npos (Coq_xO (Coq_xI (Coq_xO (Coq_xI (Coq_xI
    Coq_xH)))))) :: ((Npos (Coq_xI (Coq_xI (Coq_xI (Coq_xI (Coq_xO (Coq_xI
    Coq_xH))))))) :: ((Npos (Coq_xO (Coq_xO (Coq_xO (Coq_xO (Coq_xI (Coq_xI
    Coq_xH))))))) :: ((Npos (Coq_xI (Coq_xO (Coq_xI (Coq_xO (Coq_xO (Coq_xI
    Coq_xH))))))) :: ((Npos (Coq_xO (Coq_xI (Coq_xI (Coq_xI (Coq_xO (Coq_xI
    Coq_xH))))))) :: ((Npos (Coq_xO (Coq_xO (Coq_xI (Coq_xO (Coq_xO (Coq_xI
    Coq_xH))))))) :: ((Npos (Coq_xI (Coq_xI (Coq_xI (Coq_xI (Coq_xO (Coq_xI
    Coq_xH))))))) :: ((Npos (Coq_xI (Coq_xI (Coq_xO (Coq_xO (Coq_xO (Coq_xI
    Coq_xH))))))) :: ((Npos (Coq_xI (Coq_xO (Coq_xI (Coq_xO (Coq_xI (Coq_xI
    Coq_xH))))))) :: ((Npos (Coq_xI (Coq_xO (Coq_xI (Coq_xI (Coq_xO (Coq_xI
    Coq_xH))))))) :: ((Npos (Coq_xI (Coq_xO (Coq_xI (Coq_xO (Coq_xO (Coq_xI
    Coq_xH))))))) :: ((Npos (Coq_xO (Coq_xI (Coq_xI (Coq_xI (Coq_xO (Coq_xI
    Coq_xH))))))) :: ((Npos (Coq_xO (Coq_xO (Coq_xI (Coq_xO (Coq_xI (Coq_xI
    Coq_xH))))))) :: ((Npos (Coq_xO (Coq_xI (Coq_xO (Coq_xI (Coq_xI
    Coq_xH)))))) :: ((Npos (Coq_xO (Coq_xO (Coq_xO (Coq_xI (Coq_xI (Coq_xI
    Coq_xH))))))) :: ((Npos (Coq_xI (Coq_xO (Coq_xI (Coq_xI (Coq_xO (Coq_xI
    Coq_xH))))))) :: ((Npos (Coq_xO (Coq_xO (Coq_xI (Coq_xI (Coq_xO (Coq_xI
    Coq_xH))))))) :: ((Npos (Coq_xO (Coq_xI (Coq_xI (Coq_xI (Coq_xO (Coq_xI
    Coq_xH))))))) :: ((Npos (Coq_xI (Coq_xI (Coq_xO (Coq_xO (Coq_xI (Coq_xI
    Coq_xH))))))) :: ((Npos (Coq_xO (Coq_xI (Coq_xO (Coq_xI (Coq_xI
    Coq_xH)))))) :: ((Npos (Coq_xO (Coq_xO (Coq_xI (Coq_xO (Coq_xO (Coq_xI
    Coq_xH))))))) :: ((Npos (Coq_xO (Coq_xI (Coq_xO (Coq_xO (Coq_xI (Coq_xI
    Coq_xH))))))) :: ((Npos (Coq_xI (Coq_xO (Coq_xO (Coq_xO (Coq_xO (Coq_xI
    Coq_xH))))))) :: ((Npos (Coq_xI (Coq_xI (Coq_xI (Coq_xO (Coq_xI (Coq_xI
    Coq_xH))))))) :: ((Npos (Coq_xI (Coq_xO (Coq_xO (Coq_xI (Coq_xO (Coq_xI
    Coq_xH))))))) :: ((Npos (Coq_xO (Coq_xI (Coq_xI (Coq_xI (Coq_xO (Coq_xI
    Coq_xH))))))) :: ((Npos (Coq_xI (Coq_xI (Coq_xI (Coq_xO (Coq_xO (Coq_xI
    Coq_xH))))))) :: ((Npos (Coq_xO (Coq_xI (Coq_xO (Coq_xI (Coq_xI
    Coq_xH)))))) :: ((Npos (Coq_xI (Coq_xO (Coq_xO (Coq_xO (Coq_xI
    Coq_xH)))))) :: ((Npos (Coq_xO (Coq_xI (Coq_xI (Coq_xI (Coq_xO
    Coq_xH)))))) :: ((Npos (Coq_xO (Coq_xO (Coq_xO (Coq_xO (Coq_xI
    Coq_xH)))))) :: []))))))))))))))))))))))))))))))))))))))))))))))))),
    ((Npos (Coq_xO (Coq_xI (Coq_xI (Coq_xO (Coq_xO (Coq_xI
    Coq_xH))))))) :: ((Npos (Coq_xI (Coq_xO (Coq_xO (Coq_xI (Coq_xO (Coq_xI
    Coq_xH))))))) :: ((Npos (Coq_xO (Coq_xO (Coq_xI (Coq_xI (Coq_xO (Coq_xI
    Coq_xH))))))) :: ((Npos (Coq_xO (Coq_xO (Coq_xI (Coq_xI (Coq_xO (Coq_xI
    Coq_xH))))))) :: ((Npos (Coq_xI (Coq_xO (Coq_xI (Coq_xI (Coq_xO
    Coq_xH)))))) :: ((Npos (Coq_xO (Coq_xO (Coq_xO (Coq_xI (Coq_xO (Coq_xI
    Coq_xH))))))) :: ((Npos (Coq_xI (Coq_xO (Coq_xO (Coq_xO (Coq_xO (Coq_xI
    Coq_xH))))))) :: ((Npos (Coq_xO (Coq_xO (Coq_xI (Coq_xO (Coq_xI (Coq_xI
    Coq_xH))))))) :: ((Npos (Coq_xI (Coq_xI (Coq_xO (Coq_xO (Coq_xO (Coq_xI
    Coq_xH))))))) :: ((Npos (Coq_xO (Coq_xO (Coq_xO (Coq_xI (Coq_xO (Coq_xI
    Coq_xH))))))) :: ((Npos (Coq_xI (Coq_xO (Coq_xI (Coq_xI (Coq_xO
    Coq_xH)))))) :: ((Npos (Coq_xO (Coq_xI (Coq_xI (Coq_xI (Coq_xO (Coq_xI
    Coq_xH))))))) :: ((Npos (Coq_xI (Coq_xO (Coq_xO (Coq_xO (Coq_xO (Coq_xI
    Coq_xH))))))) :: ((Npos (Coq_xI (Coq_xO (Coq_xI (Coq_xI (Coq_xO (Coq_xI
    Coq_xH))))))) :: ((Npos (Coq_xI (Coq_xO (Coq_xI (Coq_xO (Coq_xO (Coq_xI
    Coq_xH))))))) :: [])))))))))))))))) :: ((((Npos (Coq_xI (Coq_xO (Coq_xI
    (Coq_xO (Coq_xI (Coq_xI Coq_xH))))))) :: ((Npos (Coq_xO (Coq_xI (Coq_xO
    (Coq_xO (Coq_xI (Coq_xI Coq_xH))))))) :: ((Npos (Coq_xO (Coq_xI (Coq_xI
    (Coq_xI (Coq_xO (Coq_xI Coq_xH))))))) :: ((Npos (Coq_xO (Coq_xI (Coq_xO
    (Coq_xI (Coq_xI Coq_xH)))))) :: ((Npos (Coq_xI (Coq_xI (Coq_xI (Coq_xI
    (Coq_xO (Coq_xI Coq_xH))))))) :: ((Npos (Coq_xI (Coq_xO (Coq_xO (Coq_xO
    (Coq_xO (Coq_xI Coq_xH))))))) :: ((Npos (Coq_xI (Coq_xI (Coq_xO (Coq_xO
    (Coq_xI (Coq_xI Coq_xH))))))) :: ((Npos (Coq_xI (Coq_xO (Coq_xO (Coq_xI
    (Coq_xO (Coq_xI Coq_xH))))))) :: ((Npos (Coq_xI (Coq_xI (Coq_xO (Coq_xO
    (Coq_xI (Coq_xI Coq_xH))))))) :: ((Npos (Coq_xO (Coq_xI (Coq_xO (Coq_xI
    (Coq_xI Coq_xH)))))) :: ((Npos (Coq_xO (Coq_xI (Coq_xI (Coq_xI (Coq_xO
    (Coq_xI Coq_xH))))))) :: ((Npos (Coq_xI (Coq_xO (Coq_xO (Coq_xO (Coq_xO
    (Coq_xI Coq_xH))))))) :: ((Npos (Coq_xI (Coq_xO (Coq_xI (Coq_xI (Coq_xO
    (Coq_xI Coq_xH))))))) :: ((Npos (Coq_xI (Coq_xO (Coq_xI (Coq_xO (Coq_xO
    (Coq_xI Coq_xH))))))) :: ((Npos (Coq_xI (Coq_xI (Coq_xO (Coq_xO (Coq_xI
    (Coq_xI Coq_xH))))))) :: ((Npos (Coq_xO (Coq_xI (Coq_xO (Coq_xI (Coq_xI
    Coq_xH)))))) :: ((Npos (Coq_xO (Coq_xO (Coq_xI (Coq_xO (Coq_xI (Coq_xI
    Coq_xH))))))) :: ((Npos (Coq_xI (Coq_xI (Coq_xO (Coq_xO (Coq_xO (Coq_xI
    Coq_xH))))))) :: ((Npos (Coq_xO (Coq_xI (Coq_xO (Coq_xI (Coq_xI
    Coq_xH)))))) :: ((Npos (Coq_xI (Coq_xI (Coq_xI (Coq_xI (Coq_xO (Coq_xI
    Coq_xH))))))) :: ((Npos (Coq_xO (Coq_xO (Coq_xO (Coq_xO (Coq_xI (Coq_xI
    Coq_xH))))))) :: ((Npos (Coq_xI (Coq_xO (Coq_xI (Coq_xO (Coq_xO (Coq_xI
    Coq_xH))))))) :: ((Npos (Coq_xO (Coq_xI (Coq_xI (Coq_xI (Coq_xO (Coq_xI
    Coq_xH))))))) :: ((Npos (Coq_xO (Coq_xO (Coq_xI (Coq_xO (Coq_xO (Coq_xI
    Coq_xH))))))) :: ((Npos (Coq_xI (Coq_xI (Coq_xI (Coq_xI (Coq_xO (Coq_xI
    Coq_xH))))))) :: ((Npos (Coq_xI (Coq_xI (Coq_xO (Coq_xO (Coq_xO (Coq_xI
    Coq_xH))))))) :: ((Npos (Coq_xI (Coq_xO (Coq_xI (Coq_xO (Coq_xI (Coq_xI
    Coq_xH))))))) :: ((Npos (Coq_xI (Coq_xO (Coq_xI (Coq_xI (Coq_xO (Coq_xI
    Coq_xH))))))) :: ((Npos (Coq_xI (Coq_xO (Coq_xI (Coq_xO (Coq_xO (Coq_xI
    Coq_xH))))))) :: ((Npos (Coq_xO (Coq_xI (Coq_xI (Coq_xI (Coq_xO (Coq_xI
    Coq_xH))))))) :: ((Npos (Coq_xO (Coq_xO (Coq_xI (Coq_xO (Coq_xI (Coq_xI
    Coq_xH))))))) :: ((Npos (Coq_xO (Coq_xI (Coq_xO (Coq_xI (Coq_xI
    Coq_xH)))))) :: ((Npos (Coq_xO (Coq_xO (Coq_xO (Coq_xI (Coq_xI (Coq_xI
    Coq_xH))))))) :: ((Npos (Coq_xI (Coq_xO (Coq_xI (Coq_xI (Coq_xO (Coq_xI
    Coq_xH))))))) :: ((Npos (Coq_xO (Coq_xO (Coq_xI (Coq_xI (Coq_xO (Coq_xI
    Coq_xH))))))) :: ((Npos (Coq_xO (Coq_xI (Coq_xI (Coq_xI (Coq_xO (Coq_xI
    Coq_xH))))))) :: ((Npos (Coq_xI (Coq_xI (Coq_xO (Coq_xO (Coq_xI (Coq_xI
    Coq_xH))))))) :: ((Npos (Coq_xO (Coq_xI (Coq_xO (Coq_xI (Coq_xI
    Coq_xH)))))) :: ((Npos (Coq_xO (Coq_xO (Coq_xI (Coq_xO (Coq_xO (Coq_xI
    Coq_xH))))))) :: ((Npos (Coq_xO (Coq_xI (Coq_xO (Coq_xO (Coq_xI (Coq_xI
    Coq_xH))))))) :: ((Npos (Coq_xI (Coq_xO (Coq_xO (Coq_xO (Coq_xO (Coq_xI
    Coq_xH))))))) :: ((Npos (Coq_xI (Coq_xI (Coq_xI (Coq_xO (Coq_xI (Coq_xI
    Coq_xH))))))) :: ((Npos (Coq_xI (Coq_xO (Coq_xO (Coq_xI (Coq_xO (Coq_xI
    Coq_xH))))))) :: ((Npos (Coq_xO (Coq_xI (Coq_xI (Coq_xI (Coq_xO (Coq_xI
    Coq_xH))))))) :: ((Npos (Coq_xI (Coq_xI (Coq_xI (Coq_xO (Coq_xO (Coq_xI
    Coq_xH))))))) :: ((Npos (Coq_xO (Coq_xI (Coq_xO (Coq_xI (Coq_xI
    Coq_xH)))))) :: ((Npos (Coq_xI (Coq_xO (Coq_xO (Coq_xO (Coq_xI
    Coq_xH)))))) :: ((Npos (Coq_xO (Coq_xI (Coq_xI (Coq_xI (Coq_xO
    Coq_xH)))))) :: ((Npos (Coq_xO (Coq_xO (Coq_xO (Coq_xO (Coq_xI
    Coq_xH)))))) :: []))))))))))))))))))))))))))))))))))))))))))))))))),
    ((Npos (Coq_xO (Coq_xI (Coq_xI (Coq_xO (Coq_xO (Coq_xI
    Coq_xH))))))) :: ((Npos (Coq_xI (Coq_xO (Coq_xO (Coq_xI (Coq_xO (Coq_xI
    Coq_xH))))))) :: ((Npos (Coq_xO (Coq_xO (Coq_xI (Coq_xI (Coq_xO (Coq_xI
    Coq_xH))))))) :: ((Npos (Coq_xO (Coq_xO (Coq_xI (Coq_xI (Coq_xO (Coq_xI
    Coq_xH))))))) :: ((Npos (Coq_xI (Coq_xO (Coq_xI (Coq_xI (Coq_xO
    Coq_xH)))))) :: ((Npos (Coq_xI (Coq_xO (Coq_xO (Coq_xI (Coq_xO (Coq_xI
    Coq_xH))))))) :: ((Npos (Coq_xI (Coq_xO (Coq_xI (Coq_xI (Coq_xO (Coq_xI
    Coq_xH))))))) :: ((Npos (Coq_xI (Coq_xO (Coq_xO (Coq_xO (Coq_xO (Coq_xI
    Coq_xH))))))) :: ((Npos (Coq_xI (Coq_xI (Coq_xI (Coq_xO (Coq_xO (Coq_xI
    Coq_xH))))))) :: ((Npos (Coq_xI (Coq_xO (Coq_xI (Coq_xO (Coq_xO (Coq_xI
    Coq_xH))))))) :: ((Npos (Coq_xI (Coq_xO (Coq_xI (Coq_xI (Coq_xO
    Coq_xH)))))) :: ((Npos (Coq_xO (Coq_xI (Coq_xI (Coq_xI (Coq_xO (Coq_xI
    Coq_xH))))))) :: ((Npos (Coq_xI (Coq_xO (Coq_xO (Coq_xO (Coq_xO (Coq_xI
    Coq_xH))))))) :: ((Npos (Coq_xI (Coq_xO (Coq_xI (Coq_xI (Coq_xO (Coq_xI
    Coq_xH))))))) :: ((Npos (Coq_xI (Coq_xO (Coq_xI (Coq_xO (Coq_xO (Coq_xI
    Coq_xH))))))) :: [])))))))))))))))) :: ((((Npos (Coq_xI (Coq_xO (Coq_xI
    (Coq_xO (Coq_xI (Coq_xI Coq_xH))))))) :: ((Npos (Coq_xO (Coq_xI (Coq_xO
    (Coq_xO (Coq_xI (Coq_xI Coq_xH))))))) :: ((Npos (Coq_xO (Coq_xI (Coq_xI
    (Coq_xI (Coq_xO (Coq_xI Coq_xH))))))) :: ((Npos (Coq_xO (Coq_xI (Coq_xO
    (Coq_xI (Coq_xI Coq_xH)))))) :: ((Npos (Coq_xI (Coq_xI (Coq_xI (Coq_xI
    (Coq_xO (Coq_xI Coq_xH))))))) :: ((Npos (Coq_xI (Coq_xO (Coq_xO (Coq_xO
    (Coq_xO (Coq_xI Coq_xH))))))) :: ((Npos (Coq_xI (Coq_xI (Coq_xO (Coq_xO
    (Coq_xI (Coq_xI Coq_xH))))))) :: ((Npos (Coq_xI (Coq_xO (Coq_xO (Coq_xI
    (Coq_xO (Coq_xI Coq_xH))))))) :: ((Npos (Coq_xI (Coq_xI (Coq_xO (Coq_xO
    (Coq_xI (Coq_xI Coq_xH))))))) :: ((Npos (Coq_xO (Coq_xI (Coq_xO (Coq_xI
    (Coq_xI Coq_xH)))))) :: ((Npos (Coq_xO (Coq_xI (Coq_xI (Coq_xI (Coq_xO
    (Coq_xI Coq_xH))))))) :: ((Npos (Coq_xI (Coq_xO (Coq_xO (Coq_xO (Coq_xO
    (Coq_xI Coq_xH))))))) :: ((Npos (Coq_xI (Coq_xO (Coq_xI (Coq_xI (Coq_xO
    (Coq_xI Coq_xH))))))) :: ((Npos (Coq_xI (Coq_xO (Coq_xI (Coq_xO (Coq_xO
    (Coq_xI Coq_xH))))))) :: ((Npos (Coq_xI (Coq_xI (Coq_xO (Coq_xO (Coq_xI
    (Coq_xI Coq_xH))))))) :: ((Npos (Coq_xO (Coq_xI (Coq_xO (Coq_xI (Coq_xI
    Coq_xH)))))) :: ((Npos (Coq_xO (Coq_xO (Coq_xI (Coq_xO (Coq_xI (Coq_xI
    Coq_xH))))))) :: ((Npos (Coq_xI (Coq_xI (Coq_xO (Coq_xO (Coq_xO (Coq_xI
    Coq_xH))))))) :: ((Npos (Coq_xO (Coq_xI (Coq_xO (Coq_xI (Coq_xI
    Coq_xH)))))) :: ((Npos (Coq_xI (Coq_xI (Coq_xI (Coq_xI (Coq_xO (Coq_xI
    Coq_xH))))))) :: ((Npos (Coq_xO (Coq_xO (Coq_xO (Coq_xO (Coq_xI (Coq_xI
    Coq_xH))))))) :: ((Npos (Coq_xI (Coq_xO (Coq_xI (Coq_xO (Coq_xO (Coq_xI
    Coq_xH))))))) :: ((Npos (Coq_xO (Coq_xI (Coq_xI (Coq_xI (Coq_xO (Coq_xI
    Coq_xH))))))) :: ((Npos (Coq_xO (Coq_xO (Coq_xI (Coq_xO (Coq_xO (Coq_xI
    Coq_xH))))))) :: ((Npos (Coq_xI (Coq_xI (Coq_xI (Coq_xI (Coq_xO (Coq_xI
    Coq_xH))))))) :: ((Npos (Coq_xI (Coq_xI (Coq_xO (Coq_xO (Coq_xO (Coq_xI
    Coq_xH))))))) :: ((Npos (Coq_xI (Coq_xO (Coq_xI (Coq_xO (Coq_xI (Coq_xI
    Coq_xH))))))) :: ((Npos (Coq_xI (Coq_xO (Coq_xI (Coq_xI (Coq_xO (Coq_xI
    Coq_xH))))))) :: ((Npos (Coq_xI (Coq_xO (Coq_xI (Coq_xO (Coq_xO (Coq_xI
    Coq_xH))))))) :: ((Npos (Coq_xO (Coq_xI (Coq_xI (Coq_xI (Coq_xO (Coq_xI
    Coq_xH))))))) :: ((Npos (Coq_xO (Coq_xO (Coq_xI (Coq_xO (Coq_xI (Coq_xI
    Coq_xH))))))) :: ((Npos (Coq_xO (Coq_xI (Coq_xO (Coq_xI (Coq_xI
    Coq_xH)))))) :: ((Npos (Coq_xO (Coq_xO (Coq_xO (Coq_xI (Coq_xI (Coq_xI
    Coq_xH))))))) :: ((Npos (Coq_xI (Coq_xO (Coq_xI (Coq_xI (Coq_xO (Coq_xI
    Coq_xH))))))) :: ((Npos (Coq_xO (Coq_xO (Coq_xI (Coq_xI (Coq_xO (Coq_xI
    Coq_xH))))))) :: ((Npos (Coq_xO (Coq_xI (Coq_xI (Coq_xI (Coq_xO (Coq_xI
    Coq_xH))))))) :: ((Npos (Coq_xI (Coq_xI (Coq_xO (Coq_xO (Coq_xI (Coq_xI
    Coq_xH))))))) :: ((Npos (Coq_xO (Coq_xI (Coq_xO (Coq_xI (Coq_xI
    Coq_xH)))))) :: ((Npos (Coq_xO (Coq_xO (Coq_xI (Coq_xO (Coq_xO (Coq_xI
    Coq_xH))))))) :: ((Npos (Coq_xO (Coq_xI (Coq_xO (Coq_xO (Coq_xI (Coq_xI
    Coq_xH))))))) :: ((Npos (Coq_xI (Coq_xO (Coq_xO (Coq_xO (Coq_xO (Coq_xI
    Coq_xH))))))) :: ((Npos (Coq_xI (Coq_xI (Coq_xI (Coq_xO (Coq_xI (Coq_xI
    Coq_xH))))))) :: ((Npos (Coq_xI (Coq_xO (Coq_xO (Coq_xI (Coq_xO (Coq_xI
    Coq_xH))))))) :: ((Npos (Coq_xO (Coq_xI (Coq_xI (Coq_xI (Coq_xO (Coq_xI
    Coq_xH))))))) :: ((Npos (Coq_xI (Coq_xI (Coq_xI (Coq_xO (Coq_xO (Coq_xI
    Coq_xH))))))) :: ((Npos (Coq_xO (Coq_xI (Coq_xO (Coq_xI (Coq_xI
    Coq_xH)))))) :: ((Npos (Coq_xI (Coq_xO (Coq_xO (Coq_xO (Coq_xI
    Coq_xH)))))) :: ((Npos (Coq_xO (Coq_xI (Coq_xI (Coq_xI (Coq_xO
    Coq_xH)))))) :: ((Npos (Coq_xO (Coq_xO (Coq_xO (Coq_xO (Coq_xI
    Coq_xH)))))) :: []))))))))))))))))))))))))))))))))))))))))))))))))),
    ((Npos (Coq_xI (Coq_xO (Coq_xI (Coq_xI (Coq_xO (Coq_xI
    Coq_xH))))))) :: ((Npos (Coq_xI (Coq_xO (Coq_xO (Coq_xO (Coq_xO (Coq_xI
    Coq_xH))))))) :: ((Npos (Coq_xO (Coq_xI (Coq_xO (Coq_xO (Coq_xI (Coq_xI
    Coq_xH))))))) :: ((Npos (Coq_xI (Coq_xI (Coq_xO (Coq_xI (Coq_xO (Coq_xI
    Coq_xH))))))) :: ((Npos (Coq_xI (Coq_xO (Coq_xI (Coq_xO (Coq_xO (Coq_xI
    Coq_xH))))))) :: ((Npos (Coq_xO (Coq_xI (Coq_xO (Coq_xO (Coq_xI (Coq_xI
    Coq_xH))))))) :: ((Npos (Coq_xI (Coq_xO (Coq_xI (Coq_xI (Coq_xO
    Coq_xH)))))) :: ((Npos (Coq_xI (Coq_xO (Coq_xI (Coq_xO (Coq_xO (Coq_xI
    Coq_xH))))))) :: ((Npos (Coq_xO (Coq_xI (Coq_xI (Coq_xI (Coq_xO (Coq_xI
    Coq_xH))))))) :: ((Npos (Coq_xO (Coq_xO (Coq_xI (Coq_xO (Coq_xO (Coq_xI
    Coq_xH))))))) :: []))))))))))) :: ((((Npos (Coq_xI (Coq_xO (Coq_xI
    (Coq_xO (Coq_xI (Coq_xI Coq_xH))))))) :: ((Npos (Coq_xO (Coq_xI (Coq_xO
    (Coq_xO (Coq_xI (Coq_xI Coq_xH))))))) :: ((Npos (Coq_xO (Coq_xI (Coq_xI
    (Coq_xI (Coq_xO (Coq_xI Coq_xH))))))) :: ((Npos (Coq_xO (Coq_xI (Coq_xO
    (Coq_xI (Coq_xI Coq_xH)))))) :: ((Npos (Coq_xI (Coq_xI (Coq_xI (Coq_xI
    (Coq_xO (Coq_xI Coq_xH))))))) :: ((Npos (Coq_xI (Coq_xO (Coq_xO (Coq_xO
    (Coq_xO (Coq_xI Coq_xH))))))) :: ((Npos (Coq_xI (Coq_xI (Coq_xO (Coq_xO
    (Coq_xI (Coq_xI Coq_xH))))))) :: ((Npos (Coq_xI (Coq_xO (Coq_xO (Coq_xI
    (Coq_xO (Coq_xI Coq_xH))))))) :: ((Npos (Coq_xI (Coq_xI (Coq_xO (Coq_xO
    (Coq_xI (Coq_xI Coq_xH))))))) :: ((Npos (Coq_xO (Coq_xI (Coq_xO (Coq_xI
    (Coq_xI Coq_xH)))))) :: ((Npos (Coq_xO (Coq_xI (Coq_xI (Coq_xI (Coq_xO
    (Coq_xI Coq_xH))))))) :: ((Npos (Coq_xI (Coq_xO (Coq_xO (Coq_xO (Coq_xO
    (Coq_xI Coq_xH))))))) :: ((Npos (Coq_xI (Coq_xO (Coq_xI (Coq_xI (Coq_xO
    (Coq_xI Coq_xH))))))) :: ((Npos (Coq_xI (Coq_xO (Coq_xI (Coq_xO (Coq_xO
    (Coq_xI Coq_xH))))))) :: ((Npos (Coq_xI (Coq_xI (Coq_xO (Coq_xO (Coq_xI
    (Coq_xI Coq_xH))))))) :: ((Npos (Coq_xO (Coq_xI (Coq_xO (Coq_xI (Coq_xI
    Coq_xH)))))) :: ((Npos (Coq_xO (Coq_xO (Coq_xI (Coq_xO (Coq_xI (Coq_xI
    Coq_xH))))))) :: ((Npos (Coq_xI (Coq_xI (Coq_xO (Coq_xO (Coq_xO (Coq_xI
    Coq_xH))))))) :: ((Npos (Coq_xO (Coq_xI (Coq_xO (Coq_xI (Coq_xI
    Coq_xH)))))) :: ((Npos (Coq_xI (Coq_xI (Coq_xI (Coq_xI (Coq_xO (Coq_xI
    Coq_xH))))))) :: ((Npos (Coq_xO (Coq_xO (Coq_xO (Coq_xO (Coq_xI (Coq_xI
    Coq_xH))))))) :: ((Npos (Coq_xI (Coq_xO (Coq_xI (Coq_xO (Coq_xO (Coq_xI
    Coq_xH))))))) :: ((Npos (Coq_xO (Coq_xI (Coq_xI (Coq_xI (Coq_xO (Coq_xI
    Coq_xH))))))) :: ((Npos (Coq_xO (Coq_xO (Coq_xI (Coq_xO (Coq_xO (Coq_xI
    Coq_xH))))))) :: ((Npos (Coq_xI (Coq_xI (Coq_xI (Coq_xI (Coq_xO (Coq_xI
    Coq_xH))))))) :: ((Npos (Coq_xI (Coq_xI (Coq_xO (Coq_xO (Coq_xO (Coq_xI
    Coq_xH))))))) :: ((Npos (Coq_xI (Coq_xO (Coq_xI (Coq_xO (Coq_xI (Coq_xI
    Coq_xH))))))) :: ((Npos (Coq_xI (Coq_xO (Coq_xI (Coq_xI (Coq_xO (Coq_xI
    Coq_xH))))))) :: ((Npos (Coq_xI (Coq_xO (Coq_xI (Coq_xO (Coq_xO (Coq_xI
    Coq_xH))))))) :: ((Npos (Coq_xO (Coq_xI (Coq_xI (Coq_xI (Coq_xO (Coq_xI
    Coq_xH))))))) :: ((Npos (Coq_xO (Coq_xO (Coq_xI (Coq_xO (Coq_xI (Coq_xI
    Coq_xH))))))) :: ((Npos (Coq_xO (Coq_xI (Coq_xO (Coq_xI (Coq_xI
    Coq_xH)))))) :: ((Npos (Coq_xO (Coq_xO (Coq_xO (Coq_xI (Coq_xI (Coq_xI
    Coq_xH))))))) :: ((Npos (Coq_xI (Coq_xO (Coq_xI (Coq_xI (Coq_xO (Coq_xI
    Coq_xH))))))) :: ((Npos (Coq_xO (Coq_xO (Coq_xI (Coq_xI (Coq_xO (Coq_xI
    Coq_xH))))))) :: ((Npos (Coq_xO (Coq_xI (Coq_xI (Coq_xI (Coq_xO (Coq_xI
    Coq_xH))))))) :: ((Npos (Coq_xI (Coq_xI (Coq_xO (Coq_xO (Coq_xI (Coq_xI
    Coq_xH))))))) :: ((Npos (Coq_xO (Coq_xI (Coq_xO (Coq_xI (Coq_xI
    Coq_xH)))))) :: ((Npos (Coq_xO (Coq_xO (Coq_xI (Coq_xO (Coq_xO (Coq_xI
    Coq_xH))))))) :: ((Npos (Coq_xO (Coq_xI (Coq_xO (Coq_xO (Coq_xI (Coq_xI
    Coq_xH))))))) :: ((Npos (Coq_xI (Coq_xO (Coq_xO (Coq_xO (Coq_xO (Coq_xI
    Coq_xH))))))) :: ((Npos (Coq_xI (Coq_xI (Coq_xI (Coq_xO (Coq_xI (Coq_xI
    Coq_xH))))))) :: ((Npos (Coq_xI (Coq_xO (Coq_xO (Coq_xI (Coq_xO (Coq_xI
    Coq_xH))))))) :: ((Npos (Coq_xO (Coq_xI (Coq_xI (Coq_xI (Coq_xO (Coq_xI
    Coq_xH))))))) :: ((Npos (Coq_xI (Coq_xI (Coq_xI (Coq_xO (Coq_xO (Coq_xI
    Coq_xH))))))) :: ((Npos (Coq_xO (Coq_xI (Coq_xO (Coq_xI (Coq_xI
    Coq_xH)))))) :: ((Npos (Coq_xI (Coq_xO (Coq_xO (Coq_xO (Coq_xI
    Coq_xH)))))) :: ((Npos (Coq_xO (Coq_xI (Coq_xI (Coq_xI (Coq_xO
    Coq_xH)))))) :: ((Npos (Coq_xO (Coq_xO (Coq_xO (Coq_xO (Coq_xI
    Coq_xH)))))) :: []))))))))))))))))))))))))))))))))))))))))))))))))),
    ((Npos (Coq_xI (Coq_xO (Coq_xI (Coq_xI (Coq_xO (Coq_xI
    Coq_xH))))))) :: ((Npos (Coq_xI (Coq_xO (Coq_xO (Coq_xO (Coq_xO (Coq_xI
    Coq_xH))))))) :: ((Npos (Coq_xO (Coq_xI (Coq_xO (Coq_xO (Coq_xI (Coq_xI
    Coq_xH))))))) :: ((Npos (Coq_xI (Coq_xI (Coq_xO (Coq_xI (Coq_xO (Coq_xI
    Coq_xH))))))) :: ((Npos (Coq_xI (Coq_xO (Coq_xI (Coq_xO (Coq_xO (Coq_xI
    Coq_xH))))))) :: ((Npos (Coq_xO (Coq_xI (Coq_xO (Coq_xO (Coq_xI (Coq_xI
    Coq_xH))))))) :: ((Npos (Coq_xI (Coq_xO (Coq_xI (Coq_xI (Coq_xO
    Coq_xH)))))) :: ((Npos (Coq_xI (Coq_xI (Coq_xO (Coq_xO (Coq_xI (Coq_xI
    Coq_xH))))))) :: ((Npos (Coq_xO (Coq_xO (Coq_xI (Coq_xO (Coq_xI (Coq_xI
    Coq_xH))))))) :: ((Npos (Coq_xI (Coq_xO (Coq_xO (Coq_xO (Coq_xO (Coq_xI
    Coq_xH))))))) :: ((Npos (Coq_xO (Coq_xI (Coq_xO (Coq_xO (Coq_xI (Coq_xI
    Coq_xH))))))) :: ((Npos (Coq_xO (Coq_xO (Coq_xI (Coq_xO (Coq_xI (Coq_xI
    Coq_xH))))))) :: []))))))))))))) :: ((((Npos (Coq_xI (Coq_xO (Coq_xI
    (Coq_xO (Coq_xI (Coq_xI Coq_xH))))))) :: ((Npos (Coq_xO (Coq_xI (Coq_xO
    (Coq_xO (Coq_xI (Coq_xI Coq_xH))))))) :: ((Npos (Coq_xO (Coq_xI (Coq_xI
    (Coq_xI (Coq_xO (Coq_xI Coq_xH))))))) :: ((Npos (Coq_xO (Coq_xI (Coq_xO
    (Coq_xI (Coq_xI Coq_xH)))))) :: ((Npos (Coq_xI (Coq_xI (Coq_xI (Coq_xI
    (Coq_xO (Coq_xI Coq_xH))))))) :: ((Npos (Coq_xI (Coq_xO (Coq_xO (Coq_xO
    (Coq_xO (Coq_xI Coq_xH))))))) :: ((Npos (Coq_xI (Coq_xI (Coq_xO (Coq_xO
    (Coq_xI (Coq_xI Coq_xH))))))) :: ((Npos (Coq_xI (Coq_xO (Coq_xO (Coq_xI
    (Coq_xO (Coq_xI Coq_xH))))))) :: ((Npos (Coq_xI (Coq_xI (Coq_xO (Coq_xO
    (Coq_xI (Coq_xI Coq_xH))))))) :: ((Npos (Coq_xO (Coq_xI (Coq_xO (Coq_xI
    (Coq_xI Coq_xH)))))) :: ((Npos (Coq_xO (Coq_xI (Coq_xI (Coq_xI (Coq_xO
    (Coq_xI Coq_xH))))))) :: ((Npos (Coq_xI (Coq_xO (Coq_xO (Coq_xO (Coq_xO
    (Coq_xI Coq_xH))))))) :: ((Npos (Coq_xI (Coq_xO (Coq_xI (Coq_xI (Coq_xO
    (Coq_xI Coq_xH))))))) :: ((Npos (Coq_xI (Coq_xO (Coq_xI (Coq_xO (Coq_xO
    (Coq_xI Coq_xH))))))) :: ((Npos (Coq_xI (Coq_xI (Coq_xO (Coq_xO (Coq_xI
    (Coq_xI Coq_xH))))))) :: ((Npos (Coq_xO (Coq_xI (Coq_xO (Coq_xI (Coq_xI
    Coq_xH)))))) :: ((Npos (Coq_xO (Coq_xO (Coq_xI (Coq_xO (Coq_xI (Coq_xI
    Coq_xH))))))) :: ((Npos (Coq_xI (Coq_xI (Coq_xO (Coq_xO (Coq_xO (Coq_xI
    Coq_xH))))))) :: ((Npos (Coq_xO (Coq_xI (Coq_xO (Coq_xI (Coq_xI
    Coq_xH)))))) :: ((Npos (Coq_xI (Coq_xI (Coq_xI (Coq_xI (Coq_xO (Coq_xI
    Coq_xH))))))) :: ((Npos (Coq_xO (Coq_xO (Coq_xO (Coq_xO (Coq_xI (Coq_xI
    Coq_xH))))))) :: ((Npos (Coq_xI (Coq_xO (Coq_xI (Coq_xO (Coq_xO (Coq_xI
    Coq_xH))))))) :: ((Npos (Coq_xO (Coq_xI (Coq_xI (Coq_xI (Coq_xO (Coq_xI
    Coq_xH))))))) :: ((Npos (Coq_xO (Coq_xO (Coq_xI (Coq_xO (Coq_xO (Coq_xI
    Coq_xH))))))) :: ((Npos (Coq_xI (Coq_xI (Coq_xI (Coq_xI (Coq_xO (Coq_xI
    Coq_xH))))))) :: ((Npos (Coq_xI (Coq_xI (Coq_xO (Coq_xO (Coq_xO (Coq_xI
    Coq_xH))))))) :: ((Npos (Coq_xI (Coq_xO (Coq_xI (Coq_xO (Coq_xI (Coq_xI
    Coq_xH))))))) :: ((Npos (Coq_xI (Coq_xO (Coq_xI (Coq_xI (Coq_xO (Coq_xI
    Coq_xH))))))) :: ((Npos (Coq_xI (Coq_xO (Coq_xI (Coq_xO (Coq_xO (Coq_xI
    Coq_xH))))))) :: ((Npos (Coq_xO (Coq_xI (Coq_xI (Coq_xI (Coq_xO (Coq_xI
    Coq_xH))))))) :: ((Npos (Coq_xO (Coq_xO (Coq_xI (Coq_xO (Coq_xI (Coq_xI
    Coq_xH))))))) :: ((Npos (Coq_xO (Coq_xI (Coq_xO (Coq_xI (Coq_xI
    Coq_xH)))))) :: ((Npos (Coq_xO (Coq_xO (Coq_xO (Coq_xI (Coq_xI (Coq_xI
    Coq_xH))))))) :: ((Npos (Coq_xI (Coq_xO (Coq_xI (Coq_xI (Coq_xO (Coq_xI
    Coq_xH))))))) :: ((Npos (Coq_xO (Coq_xO (Coq_xI (Coq_xI (Coq_xO (Coq_xI
    Coq_xH))))))) :: ((Npos (Coq_xO (Coq_xI (Coq_xI (Coq_xI (Coq_xO (Coq_xI
    Coq_xH))))))) :: ((Npos (Coq_xI (Coq_xI (Coq_xO (Coq_xO (Coq_xI (Coq_xI
    Coq_xH))))))) :: ((Npos (Coq_xO (Coq_xI (Coq_xO (Coq_xI (Coq_xI
    Coq_xH)))))) :: ((Npos (Coq_xO (Coq_xO (Coq_xI (Coq_xO (Coq_xO (Coq_xI
    Coq_xH))))))) :: ((Npos (Coq_xO (Coq_xI (Coq_xO (Coq_xO (Coq_xI (Coq_xI
    Coq_xH))))))) :: ((Npos (Coq_xI (Coq_xO (Coq_xO (Coq_xO (Coq_xO (Coq_xI
    Coq_xH))))))) :: ((Npos (Coq_xI (Coq_xI (Coq_xI (Coq_xO (Coq_xI (Coq_xI
    Coq_xH))))))) :: ((Npos (Coq_xI (Coq_xO (Coq_xO (Coq_xI (Coq_xO (Coq_xI
    Coq_xH))))))) :: ((Npos (Coq_xO (Coq_xI (Coq_xI (Coq_xI (Coq_xO (Coq_xI
    Coq_xH))))))) :: ((Npos (Coq_xI (Coq_xI (Coq_xI (Coq_xO (Coq_xO (Coq_xI
    Coq_xH))))))) :: ((Npos (Coq_xO (Coq_xI (Coq_xO (Coq_xI (Coq_xI
    Coq_xH)))))) :: ((Npos (Coq_xI (Coq_xO (Coq_xO (Coq_xO (Coq_xI
    Coq_xH)))))) :: ((Npos (Coq_xO (Coq_xI (Coq_xI (Coq_xI (Coq_xO
    Coq_xH)))))) :: ((Npos (Coq_xO (Coq_xO (Coq_xO (Coq_xO (Coq_xI
    Coq_xH)))))) :: []))))))))))))))))))))))))))))))))))))))))))))))))),
    ((Npos (Coq_xI (Coq_xO (Coq_xI (Coq_xI (Coq_xO (Coq_xI
    Coq_xH))))))) :: ((Npos (Coq_xI (Coq_xO (Coq_xO (Coq_xO (Coq_xO (Coq_xI
    Coq_xH))))))) :: ((Npos (Coq_xI (Coq_xI (Coq_xO (Coq_xO (Coq_xI (Coq_xI
    Coq_xH))))))) :: ((Npos (Coq_xO (Coq_xO (Coq_xI (Coq_xO (Coq_xI (Coq_xI
    Coq_xH))))))) :: ((Npos (Coq_xI (Coq_xO (Coq_xI (Coq_xO (Coq_xO (Coq_xI
    Coq_xH))))))) :: ((Npos (Coq_xO (Coq_xI (Coq_xO (Coq_xO (Coq_xI (Coq_xI
    Coq_xH))))))) :: ((Npos (Coq_xI (Coq_xO (Coq_xI (Coq_xI (Coq_xO
    Coq_xH)))))) :: ((Npos (Coq_xO (Coq_xO (Coq_xO (Coq_xO (Coq_xI (Coq_xI
    Coq_xH))))))) :: ((Npos (Coq_xI (Coq_xO (Coq_xO (Coq_xO (Coq_xO (Coq_xI
    Coq_xH))))))) :: ((Npos (Coq_xI (Coq_xI (Coq_xI (Coq_xO (Coq_xO (Coq_xI
    Coq_xH))))))) :: ((Npos (Coq_xI (Coq_xO (Coq_xI (Coq_xO (Coq_xO (Coq_xI
    Coq_xH))))))) :: ((Npos (Coq_xI (Coq_xO (Coq_xI (Coq_xI (Coq_xO
    Coq_xH)))))) :: ((Npos (Coq_xO (Coq_xI (Coq_xI (Coq_xI (Coq_xO (Coq_xI
    Coq_xH))))))) :: ((Npos (Coq_xI (Coq_xO (Coq_xO (Coq_xO (Coq_xO (Coq_xI
    Coq_xH))))))) :: ((Npos (Coq_xI (Coq_xO (Coq_xI (Coq_xI (Coq_xO (Coq_xI
    Coq_xH))))))) :: ((Npos (Coq_xI (Coq_xO (Coq_xI (Coq_xO (Coq_xO (Coq_xI
    Coq_xH))))))) :: []))))))))))))))))) :: ((((Npos (Coq_xI (Coq_xO (Coq_xI
    (Coq_xO (Coq_xI (Coq_xI Coq_xH))))))) :: ((Npos (Coq_xO (Coq_xI (Coq_xO
    (Coq_xO (Coq_xI (Coq_xI Coq_xH))))))) :: ((Npos (Coq_xO (Coq_xI (Coq_xI
    (Coq_xI (Coq_xO (Coq_xI Coq_xH))))))) :: ((Npos (Coq_xO (Coq_xI (Coq_xO
    (Coq_xI (Coq_xI Coq_xH)))))) :: ((Npos (Coq_xI (Coq_xI (Coq_xI (Coq_xI
    (Coq_xO (Coq_xI Coq_xH))))))) :: ((Npos (Coq_xI (Coq_xO (Coq_xO (Coq_xO
    (Coq_xO (Coq_xI Coq_xH))))))) :: ((Npos (Coq_xI (Coq_xI (Coq_xO (Coq_xO
    (Coq_xI (Coq_xI Coq_xH))))))) :: ((Npos (Coq_xI (Coq_xO (Coq_xO (Coq_xI
    (Coq_xO (Coq_xI Coq_xH))))))) :: ((Npos (Coq_xI (Coq_xI (Coq_xO (Coq_xO
    (Coq_xI (Coq_xI Coq_xH))))))) :: ((Npos (Coq_xO (Coq_xI (Coq_xO (Coq_xI
    (Coq_xI Coq_xH)))))) :: ((Npos (Coq_xO (Coq_xI (Coq_xI (Coq_xI (Coq_xO
    (Coq_xI Coq_xH))))))) :: ((Npos (Coq_xI (Coq_xO (Coq_xO (Coq_xO (Coq_xO
    (Coq_xI Coq_xH))))))) :: ((Npos (Coq_xI (Coq_xO (Coq_xI (Coq_xI (Coq_xO
    (Coq_xI Coq_xH))))))) :: ((Npos (Coq_xI (Coq_xO (Coq_xI (Coq_xO (Coq_xO
    (Coq_xI Coq_xH))))))) :: ((Npos (Coq_xI (Coq_xI (Coq_xO (Coq_xO (Coq_xI
    (Coq_xI Coq_xH))))))) :: ((Npos (Coq_xO (Coq_xI (Coq_xO (Coq_xI (Coq_xI
    Coq_xH)))))) :: ((Npos (Coq_xO (Coq_xO (Coq_xI (Coq_xO (Coq_xI (Coq_xI
    Coq_xH))))))) :: ((Npos (Coq_xI (Coq_xI (Coq_xO (Coq_xO (Coq_xO (Coq_xI
    Coq_xH))))))) :: ((Npos (Coq_xO (Coq_xI (Coq_xO (Coq_xI (Coq_xI
    Coq_xH)))))) :: ((Npos (Coq_xI (Coq_xI (Coq_xI (Coq_xI (Coq_xO (Coq_xI
    Coq_xH))))))) :: ((Npos (Coq_xO (Coq_xO (Coq_xO (Coq_xO (Coq_xI (Coq_xI
    Coq_xH))))))) :: ((Npos (Coq_xI (Coq_xO (Coq_xI (Coq_xO (Coq_xO (Coq_xI
    Coq_xH))))))) :: ((Npos (Coq_xO (Coq_xI (Coq_xI (Coq_xI (Coq_xO (Coq_xI
    Coq_xH))))))) :: ((Npos (Coq_xO (Coq_xO (Coq_xI (Coq_xO (Coq_xO (Coq_xI
    Coq_xH))))))) :: ((Npos (Coq_xI (Coq_xI (Coq_xI (Coq_xI (Coq_xO (Coq_xI
    Coq_xH))))))) :: ((Npos (Coq_xI (Coq_xI (Coq_xO (Coq_xO (Coq_xO (Coq_xI
    Coq_xH))))))) :: ((Npos (Coq_xI (Coq_xO (Coq_xI (Coq_xO (Coq_xI (Coq_xI
    Coq_xH))))))) :: ((Npos (Coq_xI (Coq_xO (Coq_xI (Coq_xI (Coq_xO (Coq_xI
    Coq_xH))))))) :: ((Npos (Coq_xI (Coq_xO (Coq_xI (Coq_xO (Coq_xO (Coq_xI
    Coq_xH))))))) :: ((Npos (Coq_xO (Coq_xI (Coq_xI (Coq_xI (Coq_xO (Coq_xI
    Coq_xH))))))) :: ((Npos (Coq_xO (Coq_xO (Coq_xI (Coq_xO (Coq_xI (Coq_xI
    Coq_xH))))))) :: ((Npos (Coq_xO (Coq_xI (Coq_xO (Coq_xI (Coq_xI
    Coq_xH)))))) :: ((Npos (Coq_xO (Coq_xO (Coq_xO (Coq_xI (Coq_xI (Coq_xI
    Coq_xH))))))) :: ((Npos (Coq_xI (Coq_xO (Coq_xI (Coq_xI (Coq_xO (Coq_xI
    Coq_xH))))))) :: ((Npos (Coq_xO (Coq_xO (Coq_xI (Coq_xI (Coq_xO (Coq_xI
    Coq_xH))))))) :: ((Npos (Coq_xO (Coq_xI (Coq_xI (Coq_xI (Coq_xO (Coq_xI
    Coq_xH))))))) :: ((Npos (Coq_xI (Coq_xI (Coq_xO (Coq_xO (Coq_xI (Coq_xI
    Coq_xH))))))) :: ((Npos (Coq_xO (Coq_xI (Coq_xO (Coq_xI (Coq_xI
    Coq_xH)))))) :: ((Npos (Coq_xO (Coq_xO (Coq_xI (Coq_xO (Coq_xO (Coq_xI
    Coq_xH))))))) :: ((Npos (Coq_xO (Coq_xI (Coq_xO (Coq_xO (Coq_xI (Coq_xI
    Coq_xH))))))) :: ((Npos (Coq_xI (Coq_xO (Coq_xO (Coq_xO (Coq_xO (Coq_xI
    Coq_xH))))))) :: ((Npos (Coq_xI (Coq_xI (Coq_xI (Coq_xO (Coq_xI (Coq_xI
    Coq_xH))))))) :: ((Npos (Coq_xI (Coq_xO (Coq_xO (Coq_xI (Coq_xO (Coq_xI
    Coq_xH))))))) :: ((Npos (Coq_xO (Coq_xI (Coq_xI (Coq_xI (Coq_xO (Coq_xI
    Coq_xH))))))) :: ((Npos (Coq_xI (Coq_xI (Coq_xI (Coq_xO (Coq_xO (Coq_xI
    Coq_xH))))))) :: ((Npos (Coq_xO (Coq_xI (Coq_xO (Coq_xI (Coq_xI
    Coq_xH)))))) :: ((Npos (Coq_xI (Coq_xO (Coq_xO (Coq_xO (Coq_xI
    Coq_xH)))))) :: ((Npos (Coq_xO (Coq_xI (Coq_xI (Coq_xI (Coq_xO
    Coq_xH)))))) :: ((Npos (Coq_xO (Coq_xO (Coq_xO (Coq_xO (Coq_xI
    Coq_xH)))))) :: []))))))))))))))))))))))))))))))))))))))))))))))))),
    ((Npos (Coq_xI (Coq_xI (Coq_xI (Coq_xI (Coq_xO (Coq_xI
    Coq_xH))))))) :: ((Npos (Coq_xO (Coq_xO (Coq_xO (Coq_xO (Coq_xI (Coq_xI
    Coq_xH))))))) :: ((Npos (Coq_xI (Coq_xO (Coq_xO (Coq_xO (Coq_xO (Coq_xI
    Coq_xH))))))) :: ((Npos (Coq_xI (Coq_xI (Coq_xO (Coq_xO (Coq_xO (Coq_xI
    Coq_xH))))))) :: ((Npos (Coq_xI (Coq_xO (Coq_xO (Coq_xI (Coq_xO (Coq_xI
    Coq_xH))))))) :: ((Npos (Coq_xO (Coq_xO (Coq_xI (Coq_xO (Coq_xI (Coq_xI
    Coq_xH))))))) :: ((Npos (Coq_xI (Coq_xO (Coq_xO (Coq_xI (Coq_xI (Coq_xI
    Coq_xH))))))) :: ((Npos (Coq_xI (Coq_xO (Coq_xI (Coq_xI (Coq_xO
    Coq_xH)))))) :: ((Npos (Coq_xO (Coq_xI (Coq_xI (Coq_xI (Coq_xO (Coq_xI
    Coq_xH))))))) :: ((Npos (Coq_xI (Coq_xO (Coq_xO (Coq_xO (Coq_xO (Coq_xI
    Coq_xH))))))) :: ((Npos (Coq_xI (Coq_xO (Coq_xI (Coq_xI (Coq_xO (Coq_xI
    Coq_xH))))))) :: ((Npos (Coq_xI (Coq_xO (Coq_xI (Coq_xO (Coq_xO (Coq_xI
    Coq_xH))))))) :: []))))))))))))) :: ((((Npos (Coq_xI (Coq_xO (Coq_xI
    (Coq_xO (Coq_xI (Coq_xI Coq_xH))))))) :: ((Npos (Coq_xO (Coq_xI (Coq_xO
    (Coq_xO (Coq_xI (Coq_xI Coq_xH))))))) :: ((Npos (Coq_xO (Coq_xI (Coq_xI
    (Coq_xI (Coq_xO (Coq_xI Coq_xH))))))) :: ((Npos (Coq_xO (Coq_xI (Coq_xO
    (Coq_xI (Coq_xI Coq_xH)))))) :: ((Npos (Coq_xI (Coq_xI (Coq_xI (Coq_xI
    (Coq_xO (Coq_xI Coq_xH))))))) :: ((Npos (Coq_xI (Coq_xO (Coq_xO (Coq_xO
    (Coq_xO (Coq_xI Coq_xH))))))) :: ((Npos (Coq_xI (Coq_xI (Coq_xO (Coq_xO
    (Coq_xI (Coq_xI Coq_xH))))))) :: ((Npos (Coq_xI (Coq_xO (Coq_xO (Coq_xI
    (Coq_xO (Coq_xI Coq_xH))))))) :: ((Npos (Coq_xI (Coq_xI (Coq_xO (Coq_xO
    (Coq_xI (Coq_xI Coq_xH))))))) :: ((Npos (Coq_xO (Coq_xI (Coq_xO (Coq_xI
    (Coq_xI Coq_xH)))))) :: ((Npos (Coq_xO (Coq_xI (Coq_xI (Coq_xI (Coq_xO
    (Coq_xI Coq_xH))))))) :: ((Npos (Coq_xI (Coq_xO (Coq_xO (Coq_xO (Coq_xO
    (Coq_xI Coq_xH))))))) :: ((Npos (Coq_xI (Coq_xO (Coq_xI (Coq_xI (Coq_xO
    (Coq_xI Coq_xH))))))) :: ((Npos (Coq_xI (Coq_xO (Coq_xI (Coq_xO (Coq_xO
    (Coq_xI Coq_xH))))))) :: ((Npos (Coq_xI (Coq_xI (Coq_xO (Coq_xO (Coq_xI
    (Coq_xI Coq_xH))))))) :: ((Npos (Coq_xO (Coq_xI (Coq_xO (Coq_xI (Coq_xI
    Coq_xH)))))) :: ((Npos (Coq_xO (Coq_xO (Coq_xI (Coq_xO (Coq_xI (Coq_xI
    Coq_xH))))))) :: ((Npos (Coq_xI (Coq_xI (Coq_xO (Coq_xO (Coq_xO (Coq_xI
    Coq_xH))))))) :: ((Npos (Coq_xO (Coq_xI (Coq_xO (Coq_xI (Coq_xI
    Coq_xH)))))) :: ((Npos (Coq_xI (Coq_xI (Coq_xI (Coq_xI (Coq_xO (Coq_xI
    Coq_xH))))))) :: ((Npos (Coq_xO (Coq_xO (Coq_xO (Coq_xO (Coq_xI (Coq_xI
    Coq_xH))))))) :: ((Npos (Coq_xI (Coq_xO (Coq_xI (Coq_xO (Coq_xO (Coq_xI
    Coq_xH))))))) :: ((Npos (Coq_xO (Coq_xI (Coq_xI (Coq_xI (Coq_xO (Coq_xI
    Coq_xH))))))) :: ((Npos (Coq_xO (Coq_xO (Coq_xI (Coq_xO (Coq_xO (Coq_xI
    Coq_xH))))))) :: ((Npos (Coq_xI (Coq_xI (Coq_xI (Coq_xI (Coq_xO (Coq_xI
    Coq_xH))))))) :: ((Npos (Coq_xI (Coq_xI (Coq_xO (Coq_xO (Coq_xO (Coq_xI
    Coq_xH))))))) :: ((Npos (Coq_xI (Coq_xO (Coq_xI (Coq_xO (Coq_xI (Coq_xI
    Coq_xH))))))) :: ((Npos (Coq_xI (Coq_xO (Coq_xI (Coq_xI (Coq_xO (Coq_xI
    Coq_xH))))))) :: ((Npos (Coq_xI (Coq_xO (Coq_xI (Coq_xO (Coq_xO (Coq_xI
    Coq_xH))))))) :: ((Npos (Coq_xO (Coq_xI (Coq_xI (Coq_xI (Coq_xO (Coq_xI
    Coq_xH))))))) :: ((Npos (Coq_xO (Coq_xO (Coq_xI (Coq_xO (Coq_xI (Coq_xI
    Coq_xH))))))) :: ((Npos (Coq_xO (Coq_xI (Coq_xO (Coq_xI (Coq_xI
    Coq_xH)))))) :: ((Npos (Coq_xO (Coq_xO (Coq_xO (Coq_xI (Coq_xI (Coq_xI
    Coq_xH))))))) :: ((Npos (Coq_xI (Coq_xO (Coq_xI (Coq_xI (Coq_xO (Coq_xI
    Coq_xH))))))) :: ((Npos (Coq_xO (Coq_xO (Coq_xI (Coq_xI (Coq_xO (Coq_xI
    Coq_xH))))))) :: ((Npos (Coq_xO (Coq_xI (Coq_xI (Coq_xI (Coq_xO (Coq_xI
    Coq_xH))))))) :: ((Npos (Coq_xI (Coq_xI (Coq_xO (Coq_xO (Coq_xI (Coq_xI
    Coq_xH))))))) :: ((Npos (Coq_xO (Coq_xI (Coq_xO (Coq_xI (Coq_xI
    Coq_xH)))))) :: ((Npos (Coq_xO (Coq_xO (Coq_xI (Coq_xO (Coq_xO (Coq_xI
    Coq_xH))))))) :: ((Npos (Coq_xO (Coq_xI (Coq_xO (Coq_xO (Coq_xI (Coq_xI
    Coq_xH))))))) :: ((Npos (Coq_xI (Coq_xO (Coq_xO (Coq_xO (Coq_xO (Coq_xI
    Coq_xH))))))) :: ((Npos (Coq_xI (Coq_xI (Coq_xI (Coq_xO (Coq_xI (Coq_xI
    Coq_xH))))))) :: ((Npos (Coq_xI (Coq_xO (Coq_xO (Coq_xI (Coq_xO (Coq_xI
    Coq_xH))))))) :: ((Npos (Coq_xO (Coq_xI (Coq_xI (Coq_xI (Coq_xO (Coq_xI
    Coq_xH))))))) :: ((Npos (Coq_xI (Coq_xI (Coq_xI (Coq_xO (Coq_xO (Coq_xI
    Coq_xH))))))) :: ((Npos (Coq_xO (Coq_xI (Coq_xO (Coq_xI (Coq_xI
    Coq_xH)))))) :: ((Npos (Coq_xI (Coq_xO (Coq_xO (Coq_xO (Coq_xI
    Coq_xH)))))) :: ((Npos (Coq_xO (Coq_xI (Coq_xI (Coq_xI (Coq_xO
    Coq_xH)))))) :: ((Npos (Coq_xO (Coq_xO (Coq_xO (Coq_xO (Coq_xI
    Coq_xH)))))) :: []))))))))))))))))))))))))))))))))))))))))))))))))),
    ((Npos (Coq_xI (Coq_xI (Coq_xO (Coq_xO (Coq_xI (Coq_xI
    Coq_xH))))))) :: ((Npos (Coq_xO (Coq_xO (Coq_xI (Coq_xO (Coq_xI (Coq_xI
    Coq_xH))))))) :: ((Npos (Coq_xO (Coq_xI (Coq_xO (Coq_xO (Coq_xI (Coq_xI
    Coq_xH))))))) :: ((Npos (Coq_xI (Coq_xI (Coq_xI (Coq_xI (Coq_xO (Coq_xI
    Coq_xH))))))) :: ((Npos (Coq_xI (Coq_xI (Coq_xO (Coq_xI (Coq_xO (Coq_xI
    Coq_xH))))))) :: ((Npos (Coq_xI (Coq_xO (Coq_xI (Coq_xO (Coq_xO (Coq_xI
    Coq_xH))))))) :: ((Npos (Coq_xI (Coq_xO (Coq_xI (Coq_xI (Coq_xO
    Coq_xH)))))) :: ((Npos (Coq_xO (Coq_xO (Coq_xI (Coq_xO (Coq_xO (Coq_xI
    Coq_xH))))))) :: ((Npos (Coq_xI (Coq_xO (Coq_xO (Coq_xO (Coq_xO (Coq_xI
    Coq_xH))))))) :: ((Npos (Coq_xI (Coq_xI (Coq_xO (Coq_xO (Coq_xI (Coq_xI
    Coq_xH))))))) :: ((Npos (Coq_xO (Coq_xO (Coq_xO (Coq_xI (Coq_xO (Coq_xI
    Coq_xH))))))) :: [])))))))))))) :: ((((Npos (Coq_xI (Coq_xO (Coq_xI
    (Coq_xO (Coq_xI (Coq_xI Coq_xH))))))) :: ((Npos (Coq_xO (Coq_xI (Coq_xO
    (Coq_xO (Coq_xI (Coq_xI Coq_xH))))))) :: ((Npos (Coq_xO (Coq_xI (Coq_xI
    (Coq_xI (Coq_xO (Coq_xI Coq_xH))))))) :: ((Npos (Coq_xO (Coq_xI (Coq_xO
    (Coq_xI (Coq_xI Coq_xH)))))) :: ((Npos (Coq_xI (Coq_xI (Coq_xI (Coq_xI
    (Coq_xO (Coq_xI Coq_xH))))))) :: ((Npos (Coq_xI (Coq_xO (Coq_xO (Coq_xO
    (Coq_xO (Coq_xI Coq_xH))))))) :: ((Npos (Coq_xI (Coq_xI (Coq_xO (Coq_xO
    (Coq_xI (Coq_xI Coq_xH))))))) :: ((Npos (Coq_xI (Coq_xO (Coq_xO (Coq_xI
    (Coq_xO (Coq_xI Coq_xH))))))) :: ((Npos (Coq_xI (Coq_xI (Coq_xO (Coq_xO
    (Coq_xI (Coq_xI Coq_xH))))))) :: ((Npos (Coq_xO (Coq_xI (Coq_xO (Coq_xI
    (Coq_xI Coq_xH)))))) :: ((Npos (Coq_xO (Coq_xI (Coq_xI (Coq_xI (Coq_xO
    (Coq_xI Coq_xH))))))) :: ((Npos (Coq_xI (Coq_xO (Coq_xO (Coq_xO (Coq_xO
    (Coq_xI Coq_xH))))))) :: ((Npos (Coq_xI (Coq_xO (Coq_xI (Coq_xI (Coq_xO
    (Coq_xI Coq_xH))))))) :: ((Npos (Coq_xI (Coq_xO (Coq_xI (Coq_xO (Coq_xO
    (Coq_xI Coq_xH))))))) :: ((Npos (Coq_xI (Coq_xI (Coq_xO (Coq_xO (Coq_xI
    (Coq_xI Coq_xH))))))) :: ((Npos (Coq_xO (Coq_xI (Coq_xO (Coq_xI (Coq_xI
    Coq_xH)))))) :: ((Npos (Coq_xO (Coq_xO (Coq_xI (Coq_xO (Coq_xI (Coq_xI
    Coq_xH))))))) :: ((Npos (Coq_xI (Coq_xI (Coq_xO (Coq_xO (Coq_xO (Coq_xI
    Coq_xH))))))) :: ((Npos (Coq_xO (Coq_xI (Coq_xO (Coq_xI (Coq_xI
    Coq_xH)))))) :: ((Npos (Coq_xI (Coq_xI (Coq_xI (Coq_xI (Coq_xO (Coq_xI
    Coq_xH))))))) :: ((Npos (Coq_xO (Coq_xO (Coq_xO (Coq_xO (Coq_xI (Coq_xI
    Coq_xH))))))) :: ((Npos (Coq_xI (Coq_xO (Coq_xI (Coq_xO (Coq_xO (Coq_xI
    Coq_xH))))))) :: ((Npos (Coq_xO (Coq_xI (Coq_xI (Coq_xI (Coq_xO (Coq_xI
    Coq_xH))))))) :: ((Npos (Coq_xO (Coq_xO (Coq_xI (Coq_xO (Coq_xO (Coq_xI
    Coq_xH))))))) :: ((Npos (Coq_xI (Coq_xI (Coq_xI (Coq_xI (Coq_xO (Coq_xI
    Coq_xH))))))) :: ((Npos (Coq_xI (Coq_xI (Coq_xO (Coq_xO (Coq_xO (Coq_xI
    Coq_xH))))))) :: ((Npos (Coq_xI (Coq_xO (Coq_xI (Coq_xO (Coq_xI (Coq_xI
    Coq_xH))))))) :: ((Npos (Coq_xI (Coq_xO (Coq_xI (Coq_xI (Coq_xO (Coq_xI
    Coq_xH))))))) :: ((Npos (Coq_xI (Coq_xO (Coq_xI (Coq_xO (Coq_xO (Coq_xI
    Coq_xH))))))) :: ((Npos (Coq_xO (Coq_xI (Coq_xI (Coq_xI (Coq_xO (Coq_xI
    Coq_xH))))))) :: ((Npos (Coq_xO (Coq_xO (Coq_xI (Coq_xO (Coq_xI (Coq_xI
    Coq_xH))))))) :: ((Npos (Coq_xO (Coq_xI (Coq_xO (Coq_xI (Coq_xI
    Coq_xH)))))) :: ((Npos (Coq_xO (Coq_xO (Coq_xO (Coq_xI (Coq_xI (Coq_xI
    Coq_xH))))))) :: ((Npos (Coq_xI (Coq_xO (Coq_xI (Coq_xI (Coq_xO (Coq_xI
    Coq_xH))))))) :: ((Npos (Coq_xO (Coq_xO (Coq_xI (Coq_xI (Coq_xO (Coq_xI
    Coq_xH))))))) :: ((Npos (Coq_xO (Coq_xI (Coq_xI (Coq_xI (Coq_xO (Coq_xI
    Coq_xH))))))) :: ((Npos (Coq_xI (Coq_xI (Coq_xO (Coq_xO (Coq_xI (Coq_xI
    Coq_xH))))))) :: ((Npos (Coq_xO (Coq_xI (Coq_xO (Coq_xI (Coq_xI
    Coq_xH)))))) :: ((Npos (Coq_xO (Coq_xO (Coq_xI (Coq_xO (Coq_xO (Coq_xI
    Coq_xH))))))) :: ((Npos (Coq_xO (Coq_xI (Coq_xO (Coq_xO (Coq_xI (Coq_xI
    Coq_xH))))))) :: ((Npos (Coq_xI (Coq_xO (Coq_xO (Coq_xO (Coq_xO (Coq_xI
    Coq_xH))))))) :: ((Npos (Coq_xI (Coq_xI (Coq_xI (Coq_xO (Coq_xI (Coq_xI
    Coq_xH))))))) :: ((Npos (Coq_xI (Coq_xO (Coq_xO (Coq_xI (Coq_xO (Coq_xI
    Coq_xH))))))) :: ((Npos (Coq_xO (Coq_xI (Coq_xI (Coq_xI (Coq_xO (Coq_xI
    Coq_xH))))))) :: ((Npos (Coq_xI (Coq_xI (Coq_xI (Coq_xO (Coq_xO (Coq_xI
    Coq_xH))))))) :: ((Npos (Coq_xO (Coq_xI (Coq_xO (Coq_xI (Coq_xI
    Coq_xH)))))) :: ((Npos (Coq_xI (Coq_xO (Coq_xO (Coq_xO (Coq_xI
    Coq_xH)))))) :: ((Npos (Coq_xO (Coq_xI (Coq_xI (Coq_xI (Coq_xO
    Coq_xH)))))) :: ((Npos (Coq_xO (Coq_xO (Coq_xO (Coq_xO (Coq_xI
    Coq_xH)))))) :: []))))))))))))))))))))))))))))))))))))))))))))))))),
    ((Npos (Coq_xI (Coq_xI (Coq_xO (Coq_xO (Coq_xI (Coq_xI
    Coq_xH))))))) :: ((Npos (Coq_xO (Coq_xO (Coq_xI (Coq_xO (Coq_xI (Coq_xI
    Coq_xH))))))) :: ((Npos (Coq_xO (Coq_xI (Coq_xO (Coq_xO (Coq_xI (Coq_xI
    Coq_xH))))))) :: ((Npos (Coq_xI (Coq_xI (Coq_xI (Coq_xI (Coq_xO (Coq_xI
    Coq_xH))))))) :: ((Npos (Coq_xI (Coq_xI (Coq_xO (Coq_xI (Coq_xO (Coq_xI
    Coq_xH))))))) :: ((Npos (Coq_xI (Coq_xO (Coq_xI (Coq_xO (Coq_xO (Coq_xI
    Coq_xH))))))) :: ((Npos (Coq_xI (Coq_xO (Coq_xI (Coq_xI (Coq_xO
    Coq_xH)))))) :: ((Npos (Coq_xO (Coq_xO (Coq_xI (Coq_xO (Coq_xO (Coq_xI
    Coq_xH))))))) :: ((Npos (Coq_xI (Coq_xO (Coq_xO (Coq_xO (Coq_xO (Coq_xI
    Coq_xH))))))) :: ((Npos (Coq_xI (Coq_xI (Coq_xO (Coq_xO (Coq_xI (Coq_xI
    Coq_xH))))))) :: ((Npos (Coq_xO (Coq_xO (Coq_xO (Coq_xI (Coq_xO (Coq_xI
    Coq_xH))))))) :: ((Npos (Coq_xI (Coq_xO (Coq_xI (Coq_xI (Coq_xO
    Coq_xH)))))) :: ((Npos (Coq_xO (Coq_xI (Coq_xI (Coq_xI (Coq_xO (Coq_xI
    Coq_xH))))))) :: ((Npos (Coq_xI (Coq_xO (Coq_xO (Coq_xO (Coq_xO (Coq_xI
    Coq_xH))))))) :: ((Npos (Coq_xI (Coq_xO (Coq_xI (Coq_xI (Coq_xO (Coq_xI
    Coq_xH))))))) :: ((Npos (Coq_xI (Coq_xO (Coq_xI (Coq_xO (Coq_xO (Coq_xI
    Coq_xH))))))) :: ((Npos (Coq_xI (Coq_xI (Coq_xO (Coq_xO (Coq_xI (Coq_xI
    Coq_xH))))))) :: [])))))))))))))))))) :: ((((Npos (Coq_xI (Coq_xO (Coq_xI
    (Coq_xO (Coq_xI (Coq_xI Coq_xH))))))) :: ((Npos (Coq_xO (Coq_xI (Coq_xO
    (Coq_xO (Coq_xI (Coq_xI Coq_xH))))))) :: ((Npos (Coq_xO (Coq_xI (Coq_xI
    (Coq_xI (Coq_xO (Coq_xI Coq_xH))))))) :: ((Npos (Coq_xO (Coq_xI (Coq_xO
    (Coq_xI (Coq_xI Coq_xH)))))) :: ((Npos (Coq_xI (Coq_xI (Coq_xI (Coq_xI
    (Coq_xO (Coq_xI Coq_xH))))))) :: ((Npos (Coq_xI (Coq_xO (Coq_xO (Coq_xO
    (Coq_xO (Coq_xI Coq_xH))))))) :: ((Npos (Coq_xI (Coq_xI (Coq_xO (Coq_xO
    (Coq_xI (Coq_xI Coq_xH))))))) :: ((Npos (Coq_xI (Coq_xO (Coq_xO (Coq_xI
    (Coq_xO (Coq_xI Coq_xH))))))) :: ((Npos (Coq_xI (Coq_xI (Coq_xO (Coq_xO
    (Coq_xI (Coq_xI Coq_xH))))))) :: ((Npos (Coq_xO (Coq_xI (Coq_xO (Coq_xI
    (Coq_xI Coq_xH)))))) :: ((Npos (Coq_xO (Coq_xI (Coq_xI (Coq_xI (Coq_xO
    (Coq_xI Coq_xH))))))) :: ((Npos (Coq_xI (Coq_xO (Coq_xO (Coq_xO (Coq_xO
    (Coq_xI Coq_xH))))))) :: ((Npos (Coq_xI (Coq_xO (Coq_xI (Coq_xI (Coq_xO
    (Coq_xI Coq_xH))))))) :: ((Npos (Coq_xI (Coq_xO (Coq_xI (Coq_xO (Coq_xO
    (Coq_xI Coq_xH))))))) :: ((Npos (Coq_xI (Coq_xI (Coq_xO (Coq_xO (Coq_xI
    (Coq_xI Coq_xH))))))) :: ((Npos (Coq_xO (Coq_xI (Coq_xO (Coq_xI (Coq_xI
    Coq_xH)))))) :: ((Npos (Coq_xO (Coq_xO (Coq_xI (Coq_xO (Coq_xI (Coq_xI
    Coq_xH))))))) :: ((Npos (Coq_xI (Coq_xI (Coq_xO (Coq_xO (Coq_xO (Coq_xI
    Coq_xH))))))) :: ((Npos (Coq_xO (Coq_xI (Coq_xO (Coq_xI (Coq_xI
    Coq_xH)))))) :: ((Npos (Coq_xI (Coq_xI (Coq_xI (Coq_xI (Coq_xO (Coq_xI
    Coq_xH))))))) :: ((Npos (Coq_xO (Coq_xO (Coq_xO (Coq_xO (Coq_xI (Coq_xI
    Coq_xH))))))) :: ((Npos (Coq_xI (Coq_xO (Coq_xI (Coq_xO (Coq_xO (Coq_xI
    Coq_xH))))))) :: ((Npos (Coq_xO (Coq_xI (Coq_xI (Coq_xI (Coq_xO (Coq_xI
    Coq_xH))))))) :: ((Npos (Coq_xO (Coq_xO (Coq_xI (Coq_xO (Coq_xO (Coq_xI
    Coq_xH))))))) :: ((Npos (Coq_xI (Coq_xI (Coq_xI (Coq_xI (Coq_xO (Coq_xI
    Coq_xH))))))) :: ((Npos (Coq_xI (Coq_xI (Coq_xO (Coq_xO (Coq_xO (Coq_xI
    Coq_xH))))))) :: ((Npos (Coq_xI (Coq_xO (Coq_xI (Coq_xO (Coq_xI (Coq_xI
    Coq_xH))))))) :: ((Npos (Coq_xI (Coq_xO (Coq_xI (Coq_xI (Coq_xO (Coq_xI
    Coq_xH))))))) :: ((Npos (Coq_xI (Coq_xO (Coq_xI (Coq_xO (Coq_xO (Coq_xI
    Coq_xH))))))) :: ((Npos (Coq_xO (Coq_xI (Coq_xI (Coq_xI (Coq_xO (Coq_xI
    Coq_xH))))))) :: ((Npos (Coq_xO (Coq_xO (Coq_xI (Coq_xO (Coq_xI (Coq_xI
    Coq_xH))))))) :: ((Npos (Coq_xO (Coq_xI (Coq_xO (Coq_xI (Coq_xI
    Coq_xH)))))) :: ((Npos (Coq_xO (Coq_xO (Coq_xO (Coq_xI (Coq_xI (Coq_xI
    Coq_xH))))))) :: ((Npos (Coq_xI (Coq_xO (Coq_xI (Coq_xI (Coq_xO (Coq_xI
    Coq_xH))))))) :: ((Npos (Coq_xO (Coq_xO (Coq_xI (Coq_xI (Coq_xO (Coq_xI
    Coq_xH))))))) :: ((Npos (Coq_xO (Coq_xI (Coq_xI (Coq_xI (Coq_xO (Coq_xI
    Coq_xH))))))) :: ((Npos (Coq_xI (Coq_xI (Coq_xO (Coq_xO (Coq_xI (Coq_xI
    Coq_xH))))))) :: ((Npos (Coq_xO (Coq_xI (Coq_xO (Coq_xI (Coq_xI
    Coq_xH)))))) :: ((Npos (Coq_xO (Coq_xO (Coq_xO (Coq_xO (Coq_xI (Coq_xI
    Coq_xH))))))) :: ((Npos (Coq_xO (Coq_xI (Coq_xO (Coq_xO (Coq_xI (Coq_xI
    Coq_xH))))))) :: ((Npos (Coq_xI (Coq_xO (Coq_xI (Coq_xO (Coq_xO (Coq_xI
    Coq_xH))))))) :: ((Npos (Coq_xI (Coq_xI (Coq_xO (Coq_xO (Coq_xI (Coq_xI
    Coq_xH))))))) :: ((Npos (Coq_xI (Coq_xO (Coq_xI (Coq_xO (Coq_xO (Coq_xI
    Coq_xH))))))) :: ((Npos (Coq_xO (Coq_xI (Coq_xI (Coq_xI (Coq_xO (Coq_xI
    Coq_xH))))))) :: ((Npos (Coq_xO (Coq_xO (Coq_xI (Coq_xO (Coq_xI (Coq_xI
    Coq_xH))))))) :: ((Npos (Coq_xI (Coq_xO (Coq_xO (Coq_xO (Coq_xO (Coq_xI
    Coq_xH))))))) :: ((Npos (Coq_xO (Coq_xO (Coq_xI (Coq_xO (Coq_xI (Coq_xI
    Coq_xH))))))) :: ((Npos (Coq_xI (Coq_xO (Coq_xO (Coq_xI (Coq_xO (Coq_xI
    Coq_xH))))))) :: ((Npos (Coq_xI (Coq_xI (Coq_xI (Coq_xI (Coq_xO (Coq_xI
    Coq_xH))))))) :: ((Npos (Coq_xO (Coq_xI (Coq_xI (Coq_xI (Coq_xO (Coq_xI
    Coq_xH))))))) :: ((Npos (Coq_xO (Coq_xI (Coq_xO (Coq_xI (Coq_xI
    Coq_xH)))))) :: ((Npos (Coq_xI (Coq_xO (Coq_xO (Coq_xO (Coq_xI
    Coq_xH)))))) :: ((Npos (Coq_xO (Coq_xI (Coq_xI (Coq_xI (Coq_xO
    Coq_xH)))))) :: ((Npos (Coq_xO (Coq_xO (Coq_xO (Coq_xO (Coq_xI
    Coq_xH)))))) :: [])))))))))))))))))))))))))))))))))))))))))))))))))))))),
    ((Npos (Coq_xO (Coq_xO (Coq_xO (Coq_xO (Coq_xI (Coq_xI
    Coq_xH))))))) :: ((Npos (Coq_xO (Coq_xI (Coq_xO (Coq_xO (Coq_xI (Coq_xI
    Coq_xH))))))) :: ((Npos (Coq_xI (Coq_xO (Coq_xI (Coq_xO (Coq_xO (Coq_xI
    Coq_xH))))))) :: ((Npos (Coq_xI (Coq_xI (Coq_xO (Coq_xO (Coq_xI (Coq_xI
    Coq_xH))))))) :: ((Npos (Coq_xI (Coq_xO (Coq_xI (Coq_xO (Coq_xO (Coq_xI
    Coq_xH))))))) :: ((Npos (Coq_xO (Coq_xI (Coq_xI (Coq_xI (Coq_xO (Coq_xI
    Coq_xH))))))) :: ((Npos (Coq_xO (Coq_xO (Coq_xI (Coq_xO (Coq_xI (Coq_xI
    Coq_xH))))))) :: ((Npos (Coq_xI (Coq_xO (Coq_xO (Coq_xO (Coq_xO (Coq_xI
    Coq_xH))))))) :: ((Npos (Coq_xO (Coq_xO (Coq_xI (Coq_xO (Coq_xI (Coq_xI
    Coq_xH))))))) :: ((Npos (Coq_xI (Coq_xO (Coq_xO (Coq_xI (Coq_xO (Coq_xI
    Coq_xH))))))) :: ((Npos (Coq_xI (Coq_xI (Coq_xI (Coq_xI (Coq_xO (Coq_xI
    Coq_xH))))))) :: ((Npos (Coq_xO (Coq_xI (Coq_xI (Coq_xI (Coq_xO (Coq_xI
    Coq_xH))))))) :: ((Npos (Coq_xI (Coq_xO (Coq_xI (Coq_xI (Coq_xO
    Coq_xH)))))) :: ((Npos (Coq_xO (Coq_xO (Coq_xO (Coq_xO (Coq_xI (Coq_xI
    Coq_xH))))))) :: ((Npos (Coq_xI (Coq_xO (Coq_xO (Coq_xO (Coq_xO (Coq_xI
    Coq_xH))))))) :: ((Npos (Coq_xI (Coq_xI (Coq_xI (Coq_xO (Coq_xO (Coq_xI
    Coq_xH))))))) :: ((Npos (Coq_xI (Coq_xO (Coq_xI (Coq_xO (Coq_xO (Coq_xI
    Coq_xH))))))) :: ((Npos (Coq_xI (Coq_xO (Coq_xI (Coq_xI (Coq_xO
    Coq_xH)))))) :: ((Npos (Coq_xO (Coq_xO (Coq_xI (Coq_xI (Coq_xO (Coq_xI
    Coq_xH))))))) :: ((Npos (Coq_xI (Coq_xO (Coq_xO (Coq_xO (Coq_xO (Coq_xI
    Coq_xH))))))) :: ((Npos (Coq_xI (Coq_xO (Coq_xO (Coq_xI (Coq_xI (Coq_xI
    Coq_xH))))))) :: ((Npos (Coq_xI (Coq_xI (Coq_xI (Coq_xI (Coq_xO (Coq_xI
    Coq_xH))))))) :: ((Npos (Coq_xI (Coq_xO (Coq_xI (Coq_xO (Coq_xI (Coq_xI
    Coq_xH))))))) :: ((Npos (Coq_xO (Coq_xO (Coq_xI (Coq_xO (Coq_xI (Coq_xI
    Coq_xH))))))) :: ((Npos (Coq_xI (Coq_xO (Coq_xI (Coq_xI (Coq_xO
    Coq_xH)))))) :: ((Npos (Coq_xO (Coq_xI (Coq_xI (Coq_xI (Coq_xO (Coq_xI
    Coq_xH))))))) :: ((Npos (Coq_xI (Coq_xO (Coq_xO (Coq_xO (Coq_xO (Coq_xI
    Coq_xH))))))) :: ((Npos (Coq_xI (Coq_xO (Coq_xI (Coq_xI (Coq_xO (Coq_xI
    Coq_xH))))))) :: ((Npos (Coq_xI (Coq_xO (Coq_xI (Coq_xO (Coq_xO (Coq_xI
    Coq_xH))))))) :: [])))))))))))))))))))))))))))))) :: ((((Npos (Coq_xI
    (Coq_xO (Coq_xI (Coq_xO (Coq_xI (Coq_xI Coq_xH))))))) :: ((Npos (Coq_xO
    (Coq_xI (Coq_xO (Coq_xO (Coq_xI (Coq_xI Coq_xH))))))) :: ((Npos (Coq_xO
    (Coq_xI (Coq_xI (Coq_xI (Coq_xO (Coq_xI Coq_xH))))))) :: ((Npos (Coq_xO
    (Coq_xI (Coq_xO (Coq_xI (Coq_xI Coq_xH)))))) :: ((Npos (Coq_xI (Coq_xI
    (Coq_xI (Coq_xI (Coq_xO (Coq_xI Coq_xH))))))) :: ((Npos (Coq_xI (Coq_xO
    (Coq_xO (Coq_xO (Coq_xO (Coq_xI Coq_xH))))))) :: ((Npos (Coq_xI (Coq_xI
    (Coq_xO (Coq_xO (Coq_xI (Coq_xI Coq_xH))))))) :: ((Npos (Coq_xI (Coq_xO
    (Coq_xO (Coq_xI (Coq_xO (Coq_xI Coq_xH))))))) :: ((Npos (Coq_xI (Coq_xI
    (Coq_xO (Coq_xO (Coq_xI (Coq_xI Coq_xH))))))) :: ((Npos (Coq_xO (Coq_xI
    (Coq_xO (Coq_xI (Coq_xI Coq_xH)))))) :: ((Npos (Coq_xO (Coq_xI (Coq_xI
    (Coq_xI (Coq_xO (Coq_xI Coq_xH))))))) :: ((Npos (Coq_xI (Coq_xO (Coq_xO
    (Coq_xO (Coq_xO (Coq_xI Coq_xH))))))) :: ((Npos (Coq_xI (Coq_xO (Coq_xI
    (Coq_xI (Coq_xO (Coq_xI Coq_xH))))))) :: ((Npos (Coq_xI (Coq_xO (Coq_xI
    (Coq_xO (Coq_xO (Coq_xI Coq_xH))))))) :: ((Npos (Coq_xI (Coq_xI (Coq_xO
    (Coq_xO (Coq_xI (Coq_xI Coq_xH))))))) :: ((Npos (Coq_xO (Coq_xI (Coq_xO
    (Coq_xI (Coq_xI Coq_xH)))))) :: ((Npos (Coq_xO (Coq_xO (Coq_xI (Coq_xO
    (Coq_xI (Coq_xI Coq_xH))))))) :: ((Npos (Coq_xI (Coq_xI (Coq_xO (Coq_xO
    (Coq_xO (Coq_xI Coq_xH))))))) :: ((Npos (Coq_xO (Coq_xI (Coq_xO (Coq_xI
    (Coq_xI Coq_xH)))))) :: ((Npos (Coq_xI (Coq_xI (Coq_xI (Coq_xI (Coq_xO
    (Coq_xI Coq_xH))))))) :: ((Npos (Coq_xO (Coq_xO (Coq_xO (Coq_xO (Coq_xI
    (Coq_xI Coq_xH))))))) :: ((Npos (Coq_xI (Coq_xO (Coq_xI (Coq_xO (Coq_xO
    (Coq_xI Coq_xH))))))) :: ((Npos (Coq_xO (Coq_xI (Coq_xI (Coq_xI (Coq_xO
    (Coq_xI Coq_xH))))))) :: ((Npos (Coq_xO (Coq_xO (Coq_xI (Coq_xO (Coq_xO
    (Coq_xI Coq_xH))))))) :: ((Npos (Coq_xI (Coq_xI (Coq_xI (Coq_xI (Coq_xO
    (Coq_xI Coq_xH))))))) :: ((Npos (Coq_xI (Coq_xI (Coq_xO (Coq_xO (Coq_xO
    (Coq_xI Coq_xH))))))) :: ((Npos (Coq_xI (Coq_xO (Coq_xI (Coq_xO (Coq_xI
    (Coq_xI Coq_xH))))))) :: ((Npos (Coq_xI (Coq_xO (Coq_xI (Coq_xI (Coq_xO
    (Coq_xI Coq_xH))))))) :: ((Npos (Coq_xI (Coq_xO (Coq_xI (Coq_xO (Coq_xO
    (Coq_xI Coq_xH))))))) :: ((Npos (Coq_xO (Coq_xI (Coq_xI (Coq_xI (Coq_xO
    (Coq_xI Coq_xH))))))) :: ((Npos (Coq_xO (Coq_xO (Coq_xI (Coq_xO (Coq_xI
    (Coq_xI Coq_xH))))))) :: ((Npos (Coq_xO (Coq_xI (Coq_xO (Coq_xI (Coq_xI
    Coq_xH)))))) :: ((Npos (Coq_xO (Coq_xO (Coq_xO (Coq_xI (Coq_xI (Coq_xI
    Coq_xH))))))) :: ((Npos (Coq_xI (Coq_xO (Coq_xI (Coq_xI (Coq_xO (Coq_xI
    Coq_xH))))))) :: ((Npos (Coq_xO (Coq_xO (Coq_xI (Coq_xI (Coq_xO (Coq_xI
    Coq_xH))))))) :: ((Npos (Coq_xO (Coq_xI (Coq_xI (Coq_xI (Coq_xO (Coq_xI
    Coq_xH))))))) :: ((Npos (Coq_xI (Coq_xI (Coq_xO (Coq_xO (Coq_xI (Coq_xI
    Coq_xH))))))) :: ((Npos (Coq_xO (Coq_xI (Coq_xO (Coq_xI (Coq_xI
    Coq_xH)))))) :: ((Npos (Coq_xI (Coq_xI (Coq_xO (Coq_xO (Coq_xI (Coq_xI
    Coq_xH))))))) :: ((Npos (Coq_xO (Coq_xO (Coq_xI (Coq_xO (Coq_xI (Coq_xI
    Coq_xH))))))) :: ((Npos (Coq_xI (Coq_xO (Coq_xO (Coq_xI (Coq_xI (Coq_xI
    Coq_xH))))))) :: ((Npos (Coq_xO (Coq_xO (Coq_xI (Coq_xI (Coq_xO (Coq_xI
    Coq_xH))))))) :: ((Npos (Coq_xI (Coq_xO (Coq_xI (Coq_xO (Coq_xO (Coq_xI
    Coq_xH))))))) :: ((Npos (Coq_xO (Coq_xI (Coq_xO (Coq_xI (Coq_xI
    Coq_xH)))))) :: ((Npos (Coq_xI (Coq_xO (Coq_xO (Coq_xO (Coq_xI
    Coq_xH)))))) :: ((Npos (Coq_xO (Coq_xI (Coq_xI (Coq_xI (Coq_xO
    Coq_xH)))))) :: ((Npos (Coq_xO (Coq_xO (Coq_xO (Coq_xO (Coq_xI
    Coq_xH)))))) :: []))))))))))))))))))))))))))))))))))))))))))))))), ((Npos
    (Coq_xO (Coq_xO (Coq_xI (Coq_xO (Coq_xO (Coq_xI Coq_xH))))))) :: ((Npos
    (Coq_xI (Coq_xO (Coq_xO (Coq_xO (Coq_xO (Coq_xI Coq_xH))))))) :: ((Npos
    (Coq_xO (Coq_xO (Coq_xI (Coq_xO (Coq_xI (Coq_xI Coq_xH))))))) :: ((Npos
    (Coq_xI (Coq_xO (Coq_xO (Coq_xO (Coq_xO (Coq_xI Coq_xH))))))) :: ((Npos
    (Coq_xI (Coq_xO (Coq_xI (Coq_xI (Coq_xO Coq_xH)))))) :: ((Npos (Coq_xI
    (Coq_xI (Coq_xO (Coq_xO (Coq_xI (Coq_xI Coq_xH))))))) :: ((Npos (Coq_xO
    (Coq_xO (Coq_xI (Coq_xO (Coq_xI (Coq_xI Coq_xH))))))) :: ((Npos (Coq_xI
    (Coq_xO (Coq_xO (Coq_xI (Coq_xI (Coq_xI Coq_xH))))))) :: ((Npos (Coq_xO
    (Coq_xO (Coq_xI (Coq_xI (Coq_xO (Coq_xI Coq_xH))))))) :: ((Npos (Coq_xI
    (Coq_xO (Coq_xI (Coq_xO (Coq_xO (Coq_xI Coq_xH))))))) :: ((Npos (Coq_xI
    (Coq_xO (Coq_xI (Coq_xI (Coq_xO Coq_xH)))))) :: ((Npos (Coq_xO (Coq_xI
    (Coq_xI (Coq_xI (Coq_xO (Coq_xI Coq_xH))))))) :: ((Npos (Coq_xI (Coq_xO
    (Coq_xO (Coq_xO (Coq_xO (Coq_xI Coq_xH))))))) :: ((Npos (Coq_xI (Coq_xO
    (Coq_xI (Coq_xI (Coq_xO (Coq_xI Coq_xH))))))) :: ((Npos (Coq_xI (Coq_xO
    (Coq_xI (Coq_xO (Coq_xO (Coq_xI
    Coq_xH))))))) :: [])))))))))))))))) :: ((((Npos (Coq_xI (Coq_xO (Coq_xI
    (Coq_xO (Coq_xI (Coq_xI Coq_xH))))))) :: ((Npos (Coq_xO (Coq_xI (Coq_xO
    (Coq_xO (Coq_xI (Coq_xI Coq_xH))))))) :: ((Npos (Coq_xO (Coq_xI (Coq_xI
    (Coq_xI (Coq_xO (Coq_xI Coq_xH))))))) :: ((Npos (Coq_xO (Coq_xI (Coq_xO
    (Coq_xI (Coq_xI Coq_xH)))))) :: ((Npos (Coq_xI (Coq_xI (Coq_xI (Coq_xI
    (Coq_xO (Coq_xI Coq_xH))))))) :: ((Npos (Coq_xI (Coq_xO (Coq_xO (Coq_xO
    (Coq_xO (Coq_xI Coq_xH))))))) :: ((Npos (Coq_xI (Coq_xI (Coq_xO (Coq_xO
    (Coq_xI (Coq_xI Coq_xH))))))) :: ((Npos (Coq_xI (Coq_xO (Coq_xO (Coq_xI
    (Coq_xO (Coq_xI Coq_xH))))))) :: ((Npos (Coq_xI (Coq_xI (Coq_xO (Coq_xO
    (Coq_xI (Coq_xI Coq_xH))))))) :: ((Npos (Coq_xO (Coq_xI (Coq_xO (Coq_xI
    (Coq_xI Coq_xH)))))) :: ((Npos (Coq_xO (Coq_xI (Coq_xI (Coq_xI (Coq_xO
    (Coq_xI Coq_xH))))))) :: ((Npos (Coq_xI (Coq_xO (Coq_xO (Coq_xO (Coq_xO
    (Coq_xI Coq_xH))))))) :: ((Npos (Coq_xI (Coq_xO (Coq_xI (Coq_xI (Coq_xO
    (Coq_xI Coq_xH))))))) :: ((Npos (Coq_xI (Coq_xO (Coq_xI (Coq_xO (Coq_xO
    (Coq_xI Coq_xH))))))) :: ((Npos (Coq_xI (Coq_xI (Coq_xO (Coq_xO (Coq_xI
    (Coq_xI Coq_xH))))))) :: ((Npos (Coq_xO (Coq_xI (Coq_xO (Coq_xI (Coq_xI
    Coq_xH)))))) :: ((Npos (Coq_xO (Coq_xO (Coq_xI (Coq_xO (Coq_xI (Coq_xI
    Coq_xH))))))) :: ((Npos (Coq_xI (Coq_xI (Coq_xO (Coq_xO (Coq_xO (Coq_xI
    Coq_xH))))))) :: ((Npos (Coq_xO (Coq_xI (Coq_xO (Coq_xI (Coq_xI
    Coq_xH)))))) :: ((Npos (Coq_xI (Coq_xI (Coq_xI (Coq_xI (Coq_xO (Coq_xI
    Coq_xH))))))) :: ((Npos (Coq_xO (Coq_xO (Coq_xO (Coq_xO (Coq_xI (Coq_xI
    Coq_xH))))))) :: ((Npos (Coq_xI (Coq_xO (Coq_xI (Coq_xO (Coq_xO (Coq_xI
    Coq_xH))))))) :: ((Npos (Coq_xO (Coq_xI (Coq_xI (Coq_xI (Coq_xO (Coq_xI
    Coq_xH))))))) :: ((Npos (Coq_xO (Coq_xO (Coq_xI (Coq_xO (Coq_xO (Coq_xI
    Coq_xH))))))) :: ((Npos (Coq_xI (Coq_xI (Coq_xI (Coq_xI (Coq_xO (Coq_xI
    Coq_xH))))))) :: ((Npos (Coq_xI (Coq_xI (Coq_xO (Coq_xO (Coq_xO (Coq_xI
    Coq_xH))))))) :: ((Npos (Coq_xI (Coq_xO (Coq_xI (Coq_xO (Coq_xI (Coq_xI
    Coq_xH))))))) :: ((Npos (Coq_xI (Coq_xO (Coq_xI (Coq_xI (Coq_xO (Coq_xI
    Coq_xH))))))) :: ((Npos (Coq_xI (Coq_xO (Coq_xI (Coq_xO (Coq_xO (Coq_xI
    Coq_xH))))))) :: ((Npos (Coq_xO (Coq_xI (Coq_xI (Coq_xI (Coq_xO (Coq_xI
    Coq_xH))))))) :: ((Npos (Coq_xO (Coq_xO (Coq_xI (Coq_xO (Coq_xI (Coq_xI
    Coq_xH))))))) :: ((Npos (Coq_xO (Coq_xI (Coq_xO (Coq_xI (Coq_xI
    Coq_xH)))))) :: ((Npos (Coq_xO (Coq_xO (Coq_xO (Coq_xI (Coq_xI (Coq_xI
    Coq_xH))))))) :: ((Npos (Coq_xI (Coq_xO (Coq_xI (Coq_xI (Coq_xO (Coq_xI
    Coq_xH))))))) :: ((Npos (Coq_xO (Coq_xO (Coq_xI (Coq_xI (Coq_xO (Coq_xI
    Coq_xH))))))) :: ((Npos (Coq_xO (Coq_xI (Coq_xI (Coq_xI (Coq_xO (Coq_xI
    Coq_xH))))))) :: ((Npos (Coq_xI (Coq_xI (Coq_xO (Coq_xO (Coq_xI (Coq_xI
    Coq_xH))))))) :: ((Npos (Coq_xO (Coq_xI (Coq_xO (Coq_xI (Coq_xI
    Coq_xH)))))) :: ((Npos (Coq_xI (Coq_xI (Coq_xO (Coq_xO (Coq_xI (Coq_xI
    Coq_xH))))))) :: ((Npos (Coq_xO (Coq_xO (Coq_xI (Coq_xO (Coq_xI (Coq_xI
    Coq_xH))))))) :: ((Npos (Coq_xI (Coq_xO (Coq_xO (Coq_xI (Coq_xI (Coq_xI
    Coq_xH))))))) :: ((Npos (Coq_xO (Coq_xO (Coq_xI (Coq_xI (Coq_xO (Coq_xI
    Coq_xH))))))) :: ((Npos (Coq_xI (Coq_xO (Coq_xI (Coq_xO (Coq_xO (Coq_xI
    Coq_xH))))))) :: ((Npos (Coq_xO (Coq_xI (Coq_xO (Coq_xI (Coq_xI
    Coq_xH)))))) :: ((Npos (Coq_xI (Coq_xO (Coq_xO (Coq_xO (Coq_xI
    Coq_xH)))))) :: ((Npos (Coq_xO (Coq_xI (Coq_xI (Coq_xI (Coq_xO
    Coq_xH)))))) :: ((Npos (Coq_xO (Coq_xO (Coq_xO (Coq_xO (Coq_xI
    Coq_xH)))))) :: []))))))))))))))))))))))))))))))))))))))))))))))), ((Npos
    (Coq_xO (Coq_xO (Coq_xI (Coq_xI (Coq_xO (Coq_xI Coq_xH))))))) :: ((Npos
    (Coq_xI (Coq_xO (Coq_xO (Coq_xI (Coq_xO (Coq_xI Coq_xH))))))) :: ((Npos
    (Coq_xI (Coq_xI (Coq_xO (Coq_xO (Coq_xI (Coq_xI Coq_xH))))))) :: ((Npos
    (Coq_xO (Coq_xO (Coq_xI (Coq_xO (Coq_xI (Coq_xI Coq_xH))))))) :: ((Npos
    (Coq_xI (Coq_xO (Coq_xI (Coq_xI (Coq_xO Coq_xH)))))) :: ((Npos (Coq_xI
    (Coq_xI (Coq_xO (Coq_xO (Coq_xI (Coq_xI Coq_xH))))))) :: ((Npos (Coq_xO
    (Coq_xO (Coq_xI (Coq_xO (Coq_xI (Coq_xI Coq_xH))))))) :: ((Npos (Coq_xI
    (Coq_xO (Coq_xO (Coq_xI (Coq_xI (Coq_xI Coq_xH))))))) :: ((Npos (Coq_xO
    (Coq_xO (Coq_xI (Coq_xI (Coq_xO (Coq_xI Coq_xH))))))) :: ((Npos (Coq_xI
    (Coq_xO (Coq_xI (Coq_xO (Coq_xO (Coq_xI Coq_xH))))))) :: ((Npos (Coq_xI
    (Coq_xO (Coq_xI (Coq_xI (Coq_xO Coq_xH)))))) :: ((Npos (Coq_xO (Coq_xI
    (Coq_xI (Coq_xI (Coq_xO (Coq_xI Coq_xH))))))) :: ((Npos (Coq_xI (Coq_xO
    (Coq_xO (Coq_xO (Coq_xO (Coq_xI Coq_xH))))))) :: ((Npos (Coq_xI (Coq_xO
    (Coq_xI (Coq_xI (Coq_xO (Coq_xI Coq_xH))))))) :: ((Npos (Coq_xI (Coq_xO
    (Coq_xI (Coq_xO (Coq_xO (Coq_xI
    Coq_xH))))))) :: [])))))))))))))))) :: ((((Npos (Coq_xI (Coq_xO (Coq_xI
    (Coq_xO (Coq_xI (Coq_xI Coq_xH))))))) :: ((Npos (Coq_xO (Coq_xI (Coq_xO
    (Coq_xO (Coq_xI (Coq_xI Coq_xH))))))) :: ((Npos (Coq_xO (Coq_xI (Coq_xI
    (Coq_xI (Coq_xO (Coq_xI Coq_xH))))))) :: ((Npos (Coq_xO (Coq_xI (Coq_xO
    (Coq_xI (Coq_xI Coq_xH)))))) :: ((Npos (Coq_xI (Coq_xI (Coq_xI (Coq_xI
    (Coq_xO (Coq_xI Coq_xH))))))) :: ((Npos (Coq_xI (Coq_xO (Coq_xO (Coq_xO
    (Coq_xO (Coq_xI Coq_xH))))))) :: ((Npos (Coq_xI (Coq_xI (Coq_xO (Coq_xO
    (Coq_xI (Coq_xI Coq_xH))))))) :: ((Npos (Coq_xI (Coq_xO (Coq_xO (Coq_xI
    (Coq_xO (Coq_xI Coq_xH))))))) :: ((Npos (Coq_xI (Coq_xI (Coq_xO (Coq_xO
    (Coq_xI (Coq_xI Coq_xH))))))) :: ((Npos (Coq_xO (Coq_xI (Coq_xO (Coq_xI
    (Coq_xI Coq_xH)))))) :: ((Npos (Coq_xO (Coq_xI (Coq_xI (Coq_xI (Coq_xO
    (Coq_xI Coq_xH))))))) :: ((Npos (Coq_xI (Coq_xO (Coq_xO (Coq_xO (Coq_xO
    (Coq_xI Coq_xH))))))) :: ((Npos (Coq_xI (Coq_xO (Coq_xI (Coq_xI (Coq_xO
    (Coq_xI Coq_xH))))))) :: ((Npos (Coq_xI (Coq_xO (Coq_xI (Coq_xO (Coq_xO
    (Coq_xI Coq_xH))))))) :: ((Npos (Coq_xI (Coq_xI (Coq_xO (Coq_xO (Coq_xI
    (Coq_xI Coq_xH))))))) :: ((Npos (Coq_xO (Coq_xI (Coq_xO (Coq_xI (Coq_xI
    Coq_xH)))))) :: ((Npos (Coq_xO (Coq_xO (Coq_xI (Coq_xO (Coq_xI (Coq_xI
    Coq_xH))))))) :: ((Npos (Coq_xI (Coq_xI (Coq_xO (Coq_xO (Coq_xO (Coq_xI
    Coq_xH))))))) :: ((Npos (Coq_xO (Coq_xI (Coq_xO (Coq_xI (Coq_xI
    Coq_xH)))))) :: ((Npos (Coq_xI (Coq_xI (Coq_xI (Coq_xI (Coq_xO (Coq_xI
    Coq_xH))))))) :: ((Npos (Coq_xO (Coq_xO (Coq_xO (Coq_xO (Coq_xI (Coq_xI
    Coq_xH))))))) :: ((Npos (Coq_xI (Coq_xO (Coq_xI (Coq_xO (Coq_xO (Coq_xI
    Coq_xH))))))) :: ((Npos (Coq_xO (Coq_xI (Coq_xI (Coq_xI (Coq_xO (Coq_xI
    Coq_xH))))))) :: ((Npos (Coq_xO (Coq_xO (Coq_xI (Coq_xO (Coq_xO (Coq_xI
    Coq_xH))))))) :: ((Npos (Coq_xI (Coq_xI (Coq_xI (Coq_xI (Coq_xO (Coq_xI
    Coq_xH))))))) :: ((Npos (Coq_xI (Coq_xI (Coq_xO (Coq_xO (Coq_xO (Coq_xI
    Coq_xH))))))) :: ((Npos (Coq_xI (Coq_xO (Coq_xI (Coq_xO (Coq_xI (Coq_xI
    Coq_xH))))))) :: ((Npos (Coq_xI (Coq_xO (Coq_xI (Coq_xI (Coq_xO (Coq_xI
    Coq_xH))))))) :: ((Npos (Coq_xI (Coq_xO (Coq_xI (Coq_xO (Coq_xO (Coq_xI
    Coq_xH))))))) :: ((Npos (Coq_xO (Coq_xI (Coq_xI (Coq_xI (Coq_xO (Coq_xI
    Coq_xH))))))) :: ((Npos (Coq_xO (Coq_xO (Coq_xI (Coq_xO (Coq_xI (Coq_xI
    Coq_xH))))))) :: ((Npos (Coq_xO (Coq_xI (Coq_xO (Coq_xI (Coq_xI
    Coq_xH)))))) :: ((Npos (Coq_xO (Coq_xO (Coq_xO (Coq_xI (Coq_xI (Coq_xI
    Coq_xH))))))) :: ((Npos (Coq_xI (Coq_xO (Coq_xI (Coq_xI (Coq_xO (Coq_xI
    Coq_xH))))))) :: ((Npos (Coq_xO (Coq_xO (Coq_xI (Coq_xI (Coq_xO (Coq_xI
    Coq_xH))))))) :: ((Npos (Coq_xO (Coq_xI (Coq_xI (Coq_xI (Coq_xO (Coq_xI
    Coq_xH))))))) :: ((Npos (Coq_xI (Coq_xI (Coq_xO (Coq_xO (Coq_xI (Coq_xI
    Coq_xH))))))) :: ((Npos (Coq_xO (Coq_xI (Coq_xO (Coq_xI (Coq_xI
    Coq_xH)))))) :: ((Npos (Coq_xI (Coq_xI (Coq_xO (Coq_xO (Coq_xI (Coq_xI
    Coq_xH))))))) :: ((Npos (Coq_xO (Coq_xO (Coq_xI (Coq_xO (Coq_xI (Coq_xI
    Coq_xH))))))) :: ((Npos (Coq_xI (Coq_xO (Coq_xO (Coq_xI (Coq_xI (Coq_xI
    Coq_xH))))))) :: ((Npos (Coq_xO (Coq_xO (Coq_xI (Coq_xI (Coq_xO (Coq_xI
    Coq_xH))))))) :: ((Npos (Coq_xI (Coq_xO (Coq_xI (Coq_xO (Coq_xO (Coq_xI
    Coq_xH))))))) :: ((Npos (Coq_xO (Coq_xI (Coq_xO (Coq_xI (Coq_xI
    Coq_xH)))))) :: ((Npos (Coq_xI (Coq_xO (Coq_xO (Coq_xO (Coq_xI
    Coq_xH)))))) :: ((Npos (Coq_xO (Coq_xI (Coq_xI (Coq_xI (Coq_xO
    Coq_xH)))))) :: ((Npos (Coq_xO (Coq_xO (Coq_xO (Coq_xO (Coq_xI
    Coq_xH)))))) :: []))))))))))))))))))))))))))))))))))))))))))))))), ((Npos
    (Coq_xI (Coq_xO (Coq_xI (Coq_xI (Coq_xO (Coq_xI Coq_xH))))))) :: ((Npos
    (Coq_xI (Coq_xO (Coq_xO (Coq_xO (Coq_xO (Coq_xI Coq_xH))))))) :: ((Npos
    (Coq_xI (Coq_xI (Coq_xO (Coq_xO (Coq_xI (Coq_xI Coq_xH))))))) :: ((Npos
    (Coq_xO (Coq_xO (Coq_xI (Coq_xO (Coq_xI (Coq_xI Coq_xH))))))) :: ((Npos
    (Coq_xI (Coq_xO (Coq_xI (Coq_xO (Coq_xO (Coq_xI Coq_xH))))))) :: ((Npos
    (Coq_xO (Coq_xI (Coq_xO (Coq_xO (Coq_xI (Coq_xI Coq_xH))))))) :: ((Npos
    (Coq_xI (Coq_xO (Coq_xI (Coq_xI (Coq_xO Coq_xH)))))) :: ((Npos (Coq_xO
    (Coq_xO (Coq_xO (Coq_xO (Coq_xI (Coq_xI Coq_xH))))))) :: ((Npos (Coq_xI
    (Coq_xO (Coq_xO (Coq_xO (Coq_xO (Coq_xI Coq_xH))))))) :: ((Npos (Coq_xI
    (Coq_xI (Coq_xI (Coq_xO (Coq_xO (Coq_xI Coq_xH))))))) :: ((Npos (Coq_xI
    (Coq_xO (Coq_xI (Coq_xO (Coq_xO (Coq_xI Coq_xH))))))) :: ((Npos (Coq_xI
    (Coq_xO (Coq_xI (Coq_xI (Coq_xO Coq_xH)))))) :: ((Npos (Coq_xO (Coq_xI
    (Coq_xI (Coq_xI (Coq_xO (Coq_xI Coq_xH))))))) :: ((Npos (Coq_xI (Coq_xO
    (Coq_xO (Coq_xO (Coq_xO (Coq_xI Coq_xH))))))) :: ((Npos (Coq_xI (Coq_xO
    (Coq_xI (Coq_xI (Coq_xO (Coq_xI Coq_xH))))))) :: ((Npos (Coq_xI (Coq_xO
    (Coq_xI (Coq_xO (Coq_xO (Coq_xI
    Coq_xH))))))) :: []))))))))))))))))) :: ((((Npos (Coq_xI (Coq_xO (Coq_xI
    (Coq_xO (Coq_xI (Coq_xI Coq_xH))))))) :: ((Npos (Coq_xO (Coq_xI (Coq_xO
    (Coq_xO (Coq_xI (Coq_xI Coq_xH))))))) :: ((Npos (Coq_xO (Coq_xI (Coq_xI
    (Coq_xI (Coq_xO (Coq_xI Coq_xH))))))) :: ((Npos (Coq_xO (Coq_xI (Coq_xO
    (Coq_xI (Coq_xI Coq_xH)))))) :: ((Npos (Coq_xI (Coq_xI (Coq_xI (Coq_xI
    (Coq_xO (Coq_xI Coq_xH))))))) :: ((Npos (Coq_xI (Coq_xO (Coq_xO (Coq_xO
    (Coq_xO (Coq_xI Coq_xH))))))) :: ((Npos (Coq_xI (Coq_xI (Coq_xO (Coq_xO
    (Coq_xI (Coq_xI Coq_xH))))))) :: ((Npos (Coq_xI (Coq_xO (Coq_xO (Coq_xI
    (Coq_xO (Coq_xI Coq_xH))))))) :: ((Npos (Coq_xI (Coq_xI (Coq_xO (Coq_xO
    (Coq_xI (Coq_xI Coq_xH))))))) :: ((Npos (Coq_xO (Coq_xI (Coq_xO (Coq_xI
    (Coq_xI Coq_xH)))))) :: ((Npos (Coq_xO (Coq_xI (Coq_xI (Coq_xI (Coq_xO
    (Coq_xI Coq_xH))))))) :: ((Npos (Coq_xI (Coq_xO (Coq_xO (Coq_xO (Coq_xO
    (Coq_xI Coq_xH))))))) :: ((Npos (Coq_xI (Coq_xO (Coq_xI (Coq_xI (Coq_xO
    (Coq_xI Coq_xH))))))) :: ((Npos (Coq_xI (Coq_xO (Coq_xI (Coq_xO (Coq_xO
    (Coq_xI Coq_xH))))))) :: ((Npos (Coq_xI (Coq_xI (Coq_xO (Coq_xO (Coq_xI
    (Coq_xI Coq_xH))))))) :: ((Npos (Coq_xO (Coq_xI (Coq_xO (Coq_xI (Coq_xI
    Coq_xH)))))) :: ((Npos (Coq_xO (Coq_xO (Coq_xI (Coq_xO (Coq_xI (Coq_xI
    Coq_xH))))))) :: ((Npos (Coq_xI (Coq_xI (Coq_xO (Coq_xO (Coq_xO (Coq_xI
    Coq_xH))))))) :: ((Npos (Coq_xO (Coq_xI (Coq_xO (Coq_xI (Coq_xI
    Coq_xH)))))) :: ((Npos (Coq_xI (Coq_xI (Coq_xI (Coq_xI (Coq_xO (Coq_xI
    Coq_xH))))))) :: ((Npos (Coq_xO (Coq_xO (Coq_xO (Coq_xO (Coq_xI (Coq_xI
    Coq_xH))))))) :: ((Npos (Coq_xI (Coq_xO (Coq_xI (Coq_xO (Coq_xO (Coq_xI
    Coq_xH))))))) :: ((Npos (Coq_xO (Coq_xI (Coq_xI (Coq_xI (Coq_xO (Coq_xI
    Coq_xH))))))) :: ((Npos (Coq_xO (Coq_xO (Coq_xI (Coq_xO (Coq_xO (Coq_xI
    Coq_xH))))))) :: ((Npos (Coq_xI (Coq_xI (Coq_xI (Coq_xI (Coq_xO (Coq_xI
    Coq_xH))))))) :: ((Npos (Coq_xI (Coq_xI (Coq_xO (Coq_xO (Coq_xO (Coq_xI
    Coq_xH))))))) :: ((Npos (Coq_xI (Coq_xO (Coq_xI (Coq_xO (Coq_xI (Coq_xI
    Coq_xH))))))) :: ((Npos (Coq_xI (Coq_xO (Coq_xI (Coq_xI (Coq_xO (Coq_xI
    Coq_xH))))))) :: ((Npos (Coq_xI (Coq_xO (Coq_xI (Coq_xO (Coq_xO (Coq_xI
    Coq_xH))))))) :: ((Npos (Coq_xO (Coq_xI (Coq_xI (Coq_xI (Coq_xO (Coq_xI
    Coq_xH))))))) :: ((Npos (Coq_xO (Coq_xO (Coq_xI (Coq_xO (Coq_xI (Coq_xI
    Coq_xH))))))) :: ((Npos (Coq_xO (Coq_xI (Coq_xO (Coq_xI (Coq_xI
    Coq_xH)))))) :: ((Npos (Coq_xO (Coq_xO (Coq_xO (Coq_xI (Coq_xI (Coq_xI
    Coq_xH))))))) :: ((Npos (Coq_xI (Coq_xO (Coq_xI (Coq_xI (Coq_xO (Coq_xI
    Coq_xH))))))) :: ((Npos (Coq_xO (Coq_xO (Coq_xI (Coq_xI (Coq_xO (Coq_xI
    Coq_xH))))))) :: ((Npos (Coq_xO (Coq_xI (Coq_xI (Coq_xI (Coq_xO (Coq_xI
    Coq_xH))))))) :: ((Npos (Coq_xI (Coq_xI (Coq_xO (Coq_xO (Coq_xI (Coq_xI
    Coq_xH))))))) :: ((Npos (Coq_xO (Coq_xI (Coq_xO (Coq_xI (Coq_xI
    Coq_xH)))))) :: ((Npos (Coq_xI (Coq_xI (Coq_xO (Coq_xO (Coq_xI (Coq_xI
    Coq_xH))))))) :: ((Npos (Coq_xO (Coq_xO (Coq_xI (Coq_xO (Coq_xI (Coq_xI
    Coq_xH))))))) :: ((Npos (Coq_xI (Coq_xO (Coq_xO (Coq_xI (Coq_xI (Coq_xI
    Coq_xH))))))) :: ((Npos (Coq_xO (Coq_xO (Coq_xI (Coq_xI (Coq_xO (Coq_xI
    Coq_xH))))))) :: ((Npos (Coq_xI (Coq_xO (Coq_xI (Coq_xO (Coq_xO (Coq_xI
    Coq_xH))))))) :: ((Npos (Coq_xO (Coq_xI (Coq_xO (Coq_xI (Coq_xI
    Coq_xH)))))) :: ((Npos (Coq_xI (Coq_xO (Coq_xO (Coq_xO (Coq_xI
    Coq_xH)))))) :: ((Npos (Coq_xO (Coq_xI (Coq_xI (Coq_xI (Coq_xO
    Coq_xH)))))) :: ((Npos (Coq_xO (Coq_xO (Coq_xO (Coq_xO (Coq_xI
    Coq_xH)))))) :: []))))))))))))))))))))))))))))))))))))))))))))))), ((Npos
    (Coq_xO (Coq_xO (Coq_xO (Coq_xO (Coq_xI (Coq_xI Coq_xH))))))) :: ((Npos
    (Coq_xI (Coq_xO (Coq_xO (Coq_xO (Coq_xO (Coq_xI Coq_xH))))))) :: ((Npos
    (Coq_xI (Coq_xI (Coq_xI (Coq_xO (Coq_xO (Coq_xI Coq_xH))))))) :: ((Npos
    (Coq_xI (Coq_xO (Coq_xI (Coq_xO (Coq_xO (Coq_xI Coq_xH))))))) :: ((Npos
    (Coq_xI (Coq_xO (Coq_xI (Coq_xI (Coq_xO Coq_xH)))))) :: ((Npos (Coq_xO
    (Coq_xO (Coq_xI (Coq_xI (Coq_xO (Coq_xI Coq_xH))))))) :: ((Npos (Coq_xI
    (Coq_xO (Coq_xO (Coq_xO (Coq_xO (Coq_xI Coq_xH))))))) :: ((Npos (Coq_xI
    (Coq_xO (Coq_xO (Coq_xI (Coq_xI (Coq_xI Coq_xH))))))) :: ((Npos (Coq_xI
    (Coq_xI (Coq_xI (Coq_xI (Coq_xO (Coq_xI Coq_xH))))))) :: ((Npos (Coq_xI
    (Coq_xO (Coq_xI (Coq_xO (Coq_xI (Coq_xI Coq_xH))))))) :: ((Npos (Coq_xO
    (Coq_xO (Coq_xI (Coq_xO (Coq_xI (Coq_xI Coq_xH))))))) :: ((Npos (Coq_xI
    (Coq_xO (Coq_xI (Coq_xI (Coq_xO Coq_xH)))))) :: ((Npos (Coq_xO (Coq_xI
    (Coq_xI (Coq_xI (Coq_xO (Coq_xI Coq_xH))))))) :: ((Npos (Coq_xI (Coq_xO
    (Coq_xO (Coq_xO (Coq_xO (Coq_xI Coq_xH))))))) :: ((Npos (Coq_xI (Coq_xO
    (Coq_xI (Coq_xI (Coq_xO (Coq_xI Coq_xH))))))) :: ((Npos (Coq_xI (Coq_xO
    (Coq_xI (Coq_xO (Coq_xO (Coq_xI
    Coq_xH))))))) :: []))))))))))))))))) :: ((((Npos (Coq_xI (Coq_xO (Coq_xI
    (Coq_xO (Coq_xI (Coq_xI Coq_xH))))))) :: ((Npos (Coq_xO (Coq_xI (Coq_xO
    (Coq_xO (Coq_xI (Coq_xI Coq_xH))))))) :: ((Npos (Coq_xO (Coq_xI (Coq_xI
    (Coq_xI (Coq_xO (Coq_xI Coq_xH))))))) :: ((Npos (Coq_xO (Coq_xI (Coq_xO
    (Coq_xI (Coq_xI Coq_xH)))))) :: ((Npos (Coq_xI (Coq_xI (Coq_xI (Coq_xI
    (Coq_xO (Coq_xI Coq_xH))))))) :: ((Npos (Coq_xI (Coq_xO (Coq_xO (Coq_xO
    (Coq_xO (Coq_xI Coq_xH))))))) :: ((Npos (Coq_xI (Coq_xI (Coq_xO (Coq_xO
    (Coq_xI (Coq_xI Coq_xH))))))) :: ((Npos (Coq_xI (Coq_xO (Coq_xO (Coq_xI
    (Coq_xO (Coq_xI Coq_xH))))))) :: ((Npos (Coq_xI (Coq_xI (Coq_xO (Coq_xO
    (Coq_xI (Coq_xI Coq_xH))))))) :: ((Npos (Coq_xO (Coq_xI (Coq_xO (Coq_xI
    (Coq_xI Coq_xH)))))) :: ((Npos (Coq_xO (Coq_xI (Coq_xI (Coq_xI (Coq_xO
    (Coq_xI Coq_xH))))))) :: ((Npos (Coq_xI (Coq_xO (Coq_xO (Coq_xO (Coq_xO
    (Coq_xI Coq_xH))))))) :: ((Npos (Coq_xI (Coq_xO (Coq_xI (Coq_xI (Coq_xO
    (Coq_xI Coq_xH))))))) :: ((Npos (Coq_xI (Coq_xO (Coq_xI (Coq_xO (Coq_xO
    (Coq_xI Coq_xH))))))) :: ((Npos (Coq_xI (Coq_xI (Coq_xO (Coq_xO (Coq_xI
    (Coq_xI Coq_xH))))))) :: ((Npos (Coq_xO (Coq_xI (Coq_xO (Coq_xI (Coq_xI
    Coq_xH)))))) :: ((Npos (Coq_xO (Coq_xO (Coq_xI (Coq_xO (Coq_xI (Coq_xI
    Coq_xH))))))) :: ((Npos (Coq_xI (Coq_xI (Coq_xO (Coq_xO (Coq_xO (Coq_xI
    Coq_xH))))))) :: ((Npos (Coq_xO (Coq_xI (Coq_xO (Coq_xI (Coq_xI
    Coq_xH)))))) :: ((Npos (Coq_xI (Coq_xI (Coq_xI (Coq_xI (Coq_xO (Coq_xI
    Coq_xH))))))) :: ((Npos (Coq_xO (Coq_xO (Coq_xO (Coq_xO (Coq_xI (Coq_xI
    Coq_xH))))))) :: ((Npos (Coq_xI (Coq_xO (Coq_xI (Coq_xO (Coq_xO (Coq_xI
    Coq_xH))))))) :: ((Npos (Coq_xO (Coq_xI (Coq_xI (Coq_xI (Coq_xO (Coq_xI
    Coq_xH))))))) :: ((Npos (Coq_xO (Coq_xO (Coq_xI (Coq_xO (Coq_xO (Coq_xI
    Coq_xH))))))) :: ((Npos (Coq_xI (Coq_xI (Coq_xI (Coq_xI (Coq_xO (Coq_xI
    Coq_xH))))))) :: ((Npos (Coq_xI (Coq_xI (Coq_xO (Coq_xO (Coq_xO (Coq_xI
    Coq_xH))))))) :: ((Npos (Coq_xI (Coq_xO (Coq_xI (Coq_xO (Coq_xI (Coq_xI
    Coq_xH))))))) :: ((Npos (Coq_xI (Coq_xO (Coq_xI (Coq_xI (Coq_xO (Coq_xI
    Coq_xH))))))) :: ((Npos (Coq_xI (Coq_xO (Coq_xI (Coq_xO (Coq_xO (Coq_xI
    Coq_xH))))))) :: ((Npos (Coq_xO (Coq_xI (Coq_xI (Coq_xI (Coq_xO (Coq_xI
    Coq_xH))))))) :: ((Npos (Coq_xO (Coq_xO (Coq_xI (Coq_xO (Coq_xI (Coq_xI
    Coq_xH))))))) :: ((Npos (Coq_xO (Coq_xI (Coq_xO (Coq_xI (Coq_xI
    Coq_xH)))))) :: ((Npos (Coq_xO (Coq_xO (Coq_xO (Coq_xI (Coq_xI (Coq_xI
    Coq_xH))))))) :: ((Npos (Coq_xI (Coq_xO (Coq_xI (Coq_xI (Coq_xO (Coq_xI
    Coq_xH))))))) :: ((Npos (Coq_xO (Coq_xO (Coq_xI (Coq_xI (Coq_xO (Coq_xI
    Coq_xH))))))) :: ((Npos (Coq_xO (Coq_xI (Coq_xI (Coq_xI (Coq_xO (Coq_xI
    Coq_xH))))))) :: ((Npos (Coq_xI (Coq_xI (Coq_xO (Coq_xO (Coq_xI (Coq_xI
    Coq_xH))))))) :: ((Npos (Coq_xO (Coq_xI (Coq_xO (Coq_xI (Coq_xI
    Coq_xH)))))) :: ((Npos (Coq_xI (Coq_xI (Coq_xO (Coq_xO (Coq_xI (Coq_xI
    Coq_xH))))))) :: ((Npos (Coq_xO (Coq_xO (Coq_xI (Coq_xO (Coq_xI (Coq_xI
    Coq_xH))))))) :: ((Npos (Coq_xI (Coq_xO (Coq_xO (Coq_xI (Coq_xI (Coq_xI
    Coq_xH))))))) :: ((Npos (Coq_xO (Coq_xO (Coq_xI (Coq_xI (Coq_xO (Coq_xI
    Coq_xH))))))) :: ((Npos (Coq_xI (Coq_xO (Coq_xI (Coq_xO (Coq_xO (Coq_xI
    Coq_xH))))))) :: ((Npos (Coq_xO (Coq_xI (Coq_xO (Coq_xI (Coq_xI
    Coq_xH)))))) :: ((Npos (Coq_xI (Coq_xO (Coq_xO (Coq_xO (Coq_xI
    Coq_xH)))))) :: ((Npos (Coq_xO (Coq_xI (Coq_xI (Coq_xI (Coq_xO
    Coq_xH)))))) :: ((Npos (Coq_xO (Coq_xO (Coq_xO (Coq_xO (Coq_xI
    Coq_xH)))))) :: []))))))))))))))))))))))))))))))))))))))))))))))), ((Npos
    (Coq_xO (Coq_xO (Coq_xO (Coq_xO (Coq_xI (Coq_xI Coq_xH))))))) :: ((Npos
    (Coq_xI (Coq_xO (Coq_xI (Coq_xO (Coq_xO (Coq_xI Coq_xH))))))) :: ((Npos
    (Coq_xO (Coq_xI (Coq_xO (Coq_xO (Coq_xI (Coq_xI Coq_xH))))))) :: ((Npos
    (Coq_xI (Coq_xI (Coq_xO (Coq_xO (Coq_xO (Coq_xI Coq_xH))))))) :: ((Npos
    (Coq_xI (Coq_xO (Coq_xI (Coq_xO (Coq_xO (Coq_xI Coq_xH))))))) :: ((Npos
    (Coq_xO (Coq_xI (Coq_xI (Coq_xI (Coq_xO (Coq_xI Coq_xH))))))) :: ((Npos
    (Coq_xO (Coq_xO (Coq_xI (Coq_xO (Coq_xI (Coq_xI Coq_xH))))))) :: ((Npos
    (Coq_xI (Coq_xO (Coq_xO (Coq_xO (Coq_xO (Coq_xI Coq_xH))))))) :: ((Npos
    (Coq_xI (Coq_xI (Coq_xI (Coq_xO (Coq_xO (Coq_xI Coq_xH))))))) :: ((Npos
    (Coq_xI (Coq_xO (Coq_xI (Coq_xO (Coq_xO (Coq_xI Coq_xH))))))) :: ((Npos
    (Coq_xI (Coq_xO (Coq_xI (Coq_xI (Coq_xO Coq_xH)))))) :: ((Npos (Coq_xO
    (Coq_xO (Coq_xI (Coq_xO (Coq_xO (Coq_xI Coq_xH))))))) :: ((Npos (Coq_xI
    (Coq_xO (Coq_xO (Coq_xO (Coq_xO (Coq_xI Coq_xH))))))) :: ((Npos (Coq_xO
    (Coq_xO (Coq_xI (Coq_xO (Coq_xI (Coq_xI Coq_xH))))))) :: ((Npos (Coq_xI
    (Coq_xO (Coq_xO (Coq_xO (Coq_xO (Coq_xI Coq_xH))))))) :: ((Npos (Coq_xI
    (Coq_xO (Coq_xI (Coq_xI (Coq_xO Coq_xH)))))) :: ((Npos (Coq_xI (Coq_xI
    (Coq_xO (Coq_xO (Coq_xI (Coq_xI Coq_xH))))))) :: ((Npos (Coq_xO (Coq_xO
    (Coq_xI (Coq_xO (Coq_xI (Coq_xI Coq_xH))))))) :: ((Npos (Coq_xI (Coq_xO
    (Coq_xO (Coq_xI (Coq_xI (Coq_xI Coq_xH))))))) :: ((Npos (Coq_xO (Coq_xO
    (Coq_xI (Coq_xI (Coq_xO (Coq_xI Coq_xH))))))) :: ((Npos (Coq_xI (Coq_xO
    (Coq_xI (Coq_xO (Coq_xO (Coq_xI Coq_xH))))))) :: ((Npos (Coq_xI (Coq_xO
    (Coq_xI (Coq_xI (Coq_xO Coq_xH)))))) :: ((Npos (Coq_xO (Coq_xI (Coq_xI
    (Coq_xI (Coq_xO (Coq_xI Coq_xH))))))) :: ((Npos (Coq_xI (Coq_xO (Coq_xO
    (Coq_xO (Coq_xO (Coq_xI Coq_xH))))))) :: ((Npos (Coq_xI (Coq_xO (Coq_xI
    (Coq_xI (Coq_xO (Coq_xI Coq_xH))))))) :: ((Npos (Coq_xI (Coq_xO (Coq_xI
    (Coq_xO (Coq_xO (Coq_xI
    Coq_xH))))))) :: []))))))))))))))))))))))))))) :: ((((Npos (Coq_xI
    (Coq_xO (Coq_xI (Coq_xO (Coq_xI (Coq_xI Coq_xH))))))) :: ((Npos (Coq_xO
    (Coq_xI (Coq_xO (Coq_xO (Coq_xI (Coq_xI Coq_xH))))))) :: ((Npos (Coq_xO
    (Coq_xI (Coq_xI (Coq_xI (Coq_xO (Coq_xI Coq_xH))))))) :: ((Npos (Coq_xO
    (Coq_xI (Coq_xO (Coq_xI (Coq_xI Coq_xH)))))) :: ((Npos (Coq_xI (Coq_xI
    (Coq_xI (Coq_xI (Coq_xO (Coq_xI Coq_xH))))))) :: ((Npos (Coq_xI (Coq_xO
    (Coq_xO (Coq_xO (Coq_xO (Coq_xI Coq_xH))))))) :: ((Npos (Coq_xI (Coq_xI
    (Coq_xO (Coq_xO (Coq_xI (Coq_xI Coq_xH))))))) :: ((Npos (Coq_xI (Coq_xO
    (Coq_xO (Coq_xI (Coq_xO (Coq_xI Coq_xH))))))) :: ((Npos (Coq_xI (Coq_xI
    (Coq_xO (Coq_xO (Coq_xI (Coq_xI Coq_xH))))))) :: ((Npos (Coq_xO (Coq_xI
    (Coq_xO (Coq_xI (Coq_xI Coq_xH)))))) :: ((Npos (Coq_xO (Coq_xI (Coq_xI
    (Coq_xI (Coq_xO (Coq_xI Coq_xH))))))) :: ((Npos (Coq_xI (Coq_xO (Coq_xO
    (Coq_xO (Coq_xO (Coq_xI Coq_xH))))))) :: ((Npos (Coq_xI (Coq_xO (Coq_xI
    (Coq_xI (Coq_xO (Coq_xI Coq_xH))))))) :: ((Npos (Coq_xI (Coq_xO (Coq_xI
    (Coq_xO (Coq_xO (Coq_xI Coq_xH))))))) :: ((Npos (Coq_xI (Coq_xI (Coq_xO
    (Coq_xO (Coq_xI (Coq_xI Coq_xH))))))) :: ((Npos (Coq_xO (Coq_xI (Coq_xO
    (Coq_xI (Coq_xI Coq_xH)))))) :: ((Npos (Coq_xO (Coq_xO (Coq_xI (Coq_xO
    (Coq_xI (Coq_xI Coq_xH))))))) :: ((Npos (Coq_xI (Coq_xI (Coq_xO (Coq_xO
    (Coq_xO (Coq_xI Coq_xH))))))) :: ((Npos (Coq_xO (Coq_xI (Coq_xO (Coq_xI
    (Coq_xI Coq_xH)))))) :: ((Npos (Coq_xI (Coq_xI (Coq_xI (Coq_xI (Coq_xO
    (Coq_xI Coq_xH))))))) :: ((Npos (Coq_xO (Coq_xO (Coq_xO (Coq_xO (Coq_xI
    (Coq_xI Coq_xH))))))) :: ((Npos (Coq_xI (Coq_xO (Coq_xI (Coq_xO (Coq_xO
    (Coq_xI Coq_xH))))))) :: ((Npos (Coq_xO (Coq_xI (Coq_xI (Coq_xI (Coq_xO
    (Coq_xI Coq_xH))))))) :: ((Npos (Coq_xO (Coq_xO (Coq_xI (Coq_xO (Coq_xO
    (Coq_xI Coq_xH))))))) :: ((Npos (Coq_xI (Coq_xI (Coq_xI (Coq_xI (Coq_xO
    (Coq_xI Coq_xH))))))) :: ((Npos (Coq_xI (Coq_xI (Coq_xO (Coq_xO (Coq_xO
    (Coq_xI Coq_xH))))))) :: ((Npos (Coq_xI (Coq_xO (Coq_xI (Coq_xO (Coq_xI
    (Coq_xI Coq_xH))))))) :: ((Npos (Coq_xI (Coq_xO (Coq_xI (Coq_xI (Coq_xO
    (Coq_xI Coq_xH))))))) :: ((Npos (Coq_xI (Coq_xO (Coq_xI (Coq_xO (Coq_xO
    (Coq_xI Coq_xH))))))) :: ((Npos (Coq_xO (Coq_xI (Coq_xI (Coq_xI (Coq_xO
    (Coq_xI Coq_xH))))))) :: ((Npos (Coq_xO (Coq_xO (Coq_xI (Coq_xO (Coq_xI
    (Coq_xI Coq_xH))))))) :: ((Npos (Coq_xO (Coq_xI (Coq_xO (Coq_xI (Coq_xI
    Coq_xH)))))) :: ((Npos (Coq_xO (Coq_xO (Coq_xO (Coq_xI (Coq_xI (Coq_xI
    Coq_xH))))))) :: ((Npos (Coq_xI (Coq_xO (Coq_xI (Coq_xI (Coq_xO (Coq_xI
    Coq_xH))))))) :: ((Npos (Coq_xO (Coq_xO (Coq_xI (Coq_xI (Coq_xO (Coq_xI
    Coq_xH))))))) :: ((Npos (Coq_xO (Coq_xI (Coq_xI (Coq_xI (Coq_xO (Coq_xI
    Coq_xH))))))) :: ((Npos (Coq_xI (Coq_xI (Coq_xO (Coq_xO (Coq_xI (Coq_xI
    Coq_xH))))))) :: ((Npos (Coq_xO (Coq_xI (Coq_xO (Coq_xI (Coq_xI
    Coq_xH)))))) :: ((Npos (Coq_xO (Coq_xO (Coq_xI (Coq_xO (Coq_xI (Coq_xI
    Coq_xH))))))) :: ((Npos (Coq_xI (Coq_xO (Coq_xI (Coq_xO (Coq_xO (Coq_xI
    Coq_xH))))))) :: ((Npos (Coq_xO (Coq_xO (Coq_xO (Coq_xI (Coq_xI (Coq_xI
    Coq_xH))))))) :: ((Npos (Coq_xO (Coq_xO (Coq_xI (Coq_xO (Coq_xI (Coq_xI
    Coq_xH))))))) :: ((Npos (Coq_xO (Coq_xI (Coq_xO (Coq_xI (Coq_xI
    Coq_xH)))))) :: ((Npos (Coq_xI (Coq_xO (Coq_xO (Coq_xO (Coq_xI
    Coq_xH)))))) :: ((Npos (Coq_xO (Coq_xI (Coq_xI (Coq_xI (Coq_xO
    Coq_xH)))))) :: ((Npos (Coq_xO (Coq_xO (Coq_xO (Coq_xO (Coq_xI
    Coq_xH)))))) :: [])))))))))))))))))))))))))))))))))))))))))))))), ((Npos
    (Coq_xI (Coq_xO (Coq_xI (Coq_xI (Coq_xO (Coq_xI Coq_xH))))))) :: ((Npos
    (Coq_xI (Coq_xO (Coq_xO (Coq_xO (Coq_xO (Coq_xI Coq_xH))))))) :: ((Npos
    (Coq_xI (Coq_xI (Coq_xO (Coq_xO (Coq_xI (Coq_xI Coq_xH))))))) :: ((Npos
    (Coq_xO (Coq_xO (Coq_xI (Coq_xO (Coq_xI (Coq_xI Coq_xH))))))) :: ((Npos
    (Coq_xI (Coq_xO (Coq_xI (Coq_xO (Coq_xO (Coq_xI Coq_xH))))))) :: ((Npos
    (Coq_xO (Coq_xI (Coq_xO (Coq_xO (Coq_xI (Coq_xI Coq_xH))))))) :: ((Npos
    (Coq_xI (Coq_xO (Coq_xI (Coq_xI (Coq_xO Coq_xH)))))) :: ((Npos (Coq_xO
    (Coq_xO (Coq_xO (Coq_xO (Coq_xI (Coq_xI Coq_xH))))))) :: ((Npos (Coq_xI
    (Coq_xO (Coq_xO (Coq_xO (Coq_xO (Coq_xI Coq_xH))))))) :: ((Npos (Coq_xI
    (Coq_xI (Coq_xI (Coq_xO (Coq_xO (Coq_xI Coq_xH))))))) :: ((Npos (Coq_xI
    (Coq_xO (Coq_xI (Coq_xO (Coq_xO (Coq_xI Coq_xH))))))) :: ((Npos (Coq_xI
    (Coq_xO (Coq_xI (Coq_xI (Coq_xO Coq_xH)))))) :: ((Npos (Coq_xO (Coq_xI
    (Coq_xI (Coq_xI (Coq_xO (Coq_xI Coq_xH))))))) :: ((Npos (Coq_xI (Coq_xO
    (Coq_xO (Coq_xO (Coq_xO (Coq_xI Coq_xH))))))) :: ((Npos (Coq_xI (Coq_xO
    (Coq_xI (Coq_xI (Coq_xO (Coq_xI Coq_xH))))))) :: ((Npos (Coq_xI (Coq_xO
    (Coq_xI (Coq_xO (Coq_xO (Coq_xI
    Coq_xH))))))) :: []))))))))))))))))) :: ((((Npos (Coq_xI (Coq_xO (Coq_xI
    (Coq_xO (Coq_xI (Coq_xI Coq_xH))))))) :: ((Npos (Coq_xO (Coq_xI (Coq_xO
    (Coq_xO (Coq_xI (Coq_xI Coq_xH))))))) :: ((Npos (Coq_xO (Coq_xI (Coq_xI
    (Coq_xI (Coq_xO (Coq_xI Coq_xH))))))) :: ((Npos (Coq_xO (Coq_xI (Coq_xO
    (Coq_xI (Coq_xI Coq_xH)))))) :: ((Npos (Coq_xI (Coq_xI (Coq_xI (Coq_xI
    (Coq_xO (Coq_xI Coq_xH))))))) :: ((Npos (Coq_xI (Coq_xO (Coq_xO (Coq_xO
    (Coq_xO (Coq_xI Coq_xH))))))) :: ((Npos (Coq_xI (Coq_xI (Coq_xO (Coq_xO
    (Coq_xI (Coq_xI Coq_xH))))))) :: ((Npos (Coq_xI (Coq_xO (Coq_xO (Coq_xI
    (Coq_xO (Coq_xI Coq_xH))))))) :: ((Npos (Coq_xI (Coq_xI (Coq_xO (Coq_xO
    (Coq_xI (Coq_xI Coq_xH))))))) :: ((Npos (Coq_xO (Coq_xI (Coq_xO (Coq_xI
    (Coq_xI Coq_xH)))))) :: ((Npos (Coq_xO (Coq_xI (Coq_xI (Coq_xI (Coq_xO
    (Coq_xI Coq_xH))))))) :: ((Npos (Coq_xI (Coq_xO (Coq_xO (Coq_xO (Coq_xO
    (Coq_xI Coq_xH))))))) :: ((Npos (Coq_xI (Coq_xO (Coq_xI (Coq_xI (Coq_xO
    (Coq_xI Coq_xH))))))) :: ((Npos (Coq_xI (Coq_xO (Coq_xI (Coq_xO (Coq_xO
    (Coq_xI Coq_xH))))))) :: ((Npos (Coq_xI (Coq_xI (Coq_xO (Coq_xO (Coq_xI
    (Coq_xI Coq_xH))))))) :: ((Npos (Coq_xO (Coq_xI (Coq_xO (Coq_xI (Coq_xI
    Coq_xH)))))) :: ((Npos (Coq_xO (Coq_xO (Coq_xI (Coq_xO (Coq_xI (Coq_xI
    Coq_xH))))))) :: ((Npos (Coq_xI (Coq_xI (Coq_xO (Coq_xO (Coq_xO (Coq_xI
    Coq_xH))))))) :: ((Npos (Coq_xO (Coq_xI (Coq_xO (Coq_xI (Coq_xI
    Coq_xH)))))) :: ((Npos (Coq_xI (Coq_xI (Coq_xI (Coq_xI (Coq_xO (Coq_xI
    Coq_xH))))))) :: ((Npos (Coq_xO (Coq_xO (Coq_xO (Coq_xO (Coq_xI (Coq_xI
    Coq_xH))))))) :: ((Npos (Coq_xI (Coq_xO (Coq_xI (Coq_xO (Coq_xO (Coq_xI
    Coq_xH))))))) :: ((Npos (Coq_xO (Coq_xI (Coq_xI (Coq_xI (Coq_xO (Coq_xI
    Coq_xH))))))) :: ((Npos (Coq_xO (Coq_xO (Coq_xI (Coq_xO (Coq_xO (Coq_xI
    Coq_xH))))))) :: ((Npos (Coq_xI (Coq_xI (Coq_xI (Coq_xI (Coq_xO (Coq_xI
    Coq_xH))))))) :: ((Npos (Coq_xI (Coq_xI (Coq_xO (Coq_xO (Coq_xO (Coq_xI
    Coq_xH))))))) :: ((Npos (Coq_xI (Coq_xO (Coq_xI (Coq_xO (Coq_xI (Coq_xI
    Coq_xH))))))) :: ((Npos (Coq_xI (Coq_xO (Coq_xI (Coq_xI (Coq_xO (Coq_xI
    Coq_xH))))))) :: ((Npos (Coq_xI (Coq_xO (Coq_xI (Coq_xO (Coq_xO (Coq_xI
    Coq_xH))))))) :: ((Npos (Coq_xO (Coq_xI (Coq_xI (Coq_xI (Coq_xO (Coq_xI
    Coq_xH))))))) :: ((Npos (Coq_xO (Coq_xO (Coq_xI (Coq_xO (Coq_xI (Coq_xI
    Coq_xH))))))) :: ((Npos (Coq_xO (Coq_xI (Coq_xO (Coq_xI (Coq_xI
    Coq_xH)))))) :: ((Npos (Coq_xO (Coq_xO (Coq_xO (Coq_xI (Coq_xI (Coq_xI
    Coq_xH))))))) :: ((Npos (Coq_xI (Coq_xO (Coq_xI (Coq_xI (Coq_xO (Coq_xI
    Coq_xH))))))) :: ((Npos (Coq_xO (Coq_xO (Coq_xI (Coq_xI (Coq_xO (Coq_xI
    Coq_xH))))))) :: ((Npos (Coq_xO (Coq_xI (Coq_xI (Coq_xI (Coq_xO (Coq_xI
    Coq_xH))))))) :: ((Npos (Coq_xI (Coq_xI (Coq_xO (Coq_xO (Coq_xI (Coq_xI
    Coq_xH))))))) :: ((Npos (Coq_xO (Coq_xI (Coq_xO (Coq_xI (Coq_xI
    Coq_xH)))))) :: ((Npos (Coq_xO (Coq_xO (Coq_xI (Coq_xO (Coq_xI (Coq_xI
    Coq_xH))))))) :: ((Npos (Coq_xI (Coq_xO (Coq_xI (Coq_xO (Coq_xO (Coq_xI
    Coq_xH))))))) :: ((Npos (Coq_xO (Coq_xO (Coq_xO (Coq_xI (Coq_xI (Coq_xI
    Coq_xH))))))) :: ((Npos (Coq_xO (Coq_xO (Coq_xI (Coq_xO (Coq_xI (Coq_xI
    Coq_xH))))))) :: ((Npos (Coq_xO (Coq_xI (Coq_xO (Coq_xI (Coq_xI
    Coq_xH)))))) :: ((Npos (Coq_xI (Coq_xO (Coq_xO (Coq_xO (Coq_xI
    Coq_xH)))))) :: ((Npos (Coq_xO (Coq_xI (Coq_xI (Coq_xI (Coq_xO
    Coq_xH)))))) :: ((Npos (Coq_xO (Coq_xO (Coq_xO (Coq_xO (Coq_xI
    Coq_xH)))))) :: [])))))))))))))))))))))))))))))))))))))))))))))), ((Npos
    (Coq_xI (Coq_xI (Coq_xO (Coq_xO (Coq_xI (Coq_xI Coq_xH))))))) :: ((Npos
    (Coq_xO (Coq_xO (Coq_xI (Coq_xO (Coq_xI (Coq_xI Coq_xH))))))) :: ((Npos
    (Coq_xI (Coq_xO (Coq_xO (Coq_xI (Coq_xI (Coq_xI Coq_xH))))))) :: ((Npos
    (Coq_xO (Coq_xO (Coq_xI (Coq_xI (Coq_xO (Coq_xI Coq_xH))))))) :: ((Npos
    (Coq_xI (Coq_xO (Coq_xI (Coq_xO (Coq_xO (Coq_xI Coq_xH))))))) :: ((Npos
    (Coq_xI (Coq_xO (Coq_xI (Coq_xI (Coq_xO Coq_xH)))))) :: ((Npos (Coq_xI
    (Coq_xI (Coq_xI (Coq_xI (Coq_xO (Coq_xI Coq_xH))))))) :: ((Npos (Coq_xO
    (Coq_xI (Coq_xI (Coq_xO (Coq_xI (Coq_xI Coq_xH))))))) :: ((Npos (Coq_xI
    (Coq_xO (Coq_xI (Coq_xO (Coq_xO (Coq_xI Coq_xH))))))) :: ((Npos (Coq_xO
    (Coq_xI (Coq_xO (Coq_xO (Coq_xI (Coq_xI Coq_xH))))))) :: ((Npos (Coq_xO
    (Coq_xI (Coq_xO (Coq_xO (Coq_xI (Coq_xI Coq_xH))))))) :: ((Npos (Coq_xI
    (Coq_xO (Coq_xO (Coq_xI (Coq_xO (Coq_xI Coq_xH))))))) :: ((Npos (Coq_xO
    (Coq_xO (Coq_xI (Coq_xO (Coq_xO (Coq_xI Coq_xH))))))) :: ((Npos (Coq_xI
    (Coq_xO (Coq_xI (Coq_xO (Coq_xO (Coq_xI
    Coq_xH))))))) :: []))))))))))))))) :: []))))))))))))))))

(** val redirect_excluded_on :
    ((coq_N list * coq_N list) * (coq_N list * coq_N list)) list **)

let redirect_excluded_on =
  ((((Npos (Coq_xI (Coq_xO (Coq_xI (Coq_xO (Coq_xI (Coq_xI
    Coq_xH))))))) :: ((Npos (Coq_xO (Coq_xI (Coq_xO (Coq_xO (Coq_xI (Coq_xI
    Coq_xH))))))) :: ((Npos (Coq_xO (Coq_xI (Coq_xI (Coq_xI (Coq_xO (Coq_xI
    Coq_xH))))))) :: ((Npos (Coq_xO (Coq_xI (Coq_xO (Coq_xI (Coq_xI
    Coq_xH)))))) :: ((Npos (Coq_xI (Coq_xI (Coq_xI (Coq_xI (Coq_xO (Coq_xI
    Coq_xH))))))) :: ((Npos (Coq_xI (Coq_xO (Coq_xO (Coq_xO (Coq_xO (Coq_xI
    Coq_xH))))))) :: ((Npos (Coq_xI (Coq_xI (Coq_xO (Coq_xO (Coq_xI (Coq_xI
    Coq_xH))))))) :: ((Npos (Coq_xI (Coq_xO (Coq_xO (Coq_xI (Coq_xO (Coq_xI
    Coq_xH))))))) :: ((Npos (Coq_xI (Coq_xI (Coq_xO (Coq_xO (Coq_xI (Coq_xI
    Coq_xH))))))) :: ((Npos (Coq_xO (Coq_xI (Coq_xO (Coq_xI (Coq_xI
    Coq_xH)))))) :: ((Npos (Coq_xO (Coq_xI (Coq_xI (Coq_xI (Coq_xO (Coq_xI
    Coq_xH))))))) :: ((Npos (Coq_xI (Coq_xO (Coq_xO (Coq_xO (Coq_xO (Coq_xI
    Coq_xH))))))) :: ((Npos (Coq_xI (Coq_xO (Coq_xI (Coq_xI (Coq_xO (Coq_xI
    Coq_xH))))))) :: ((Npos (Coq_xI (Coq_xO (Coq_xI (Coq_xO (Coq_xO (Coq_xI
    Coq_xH))))))) :: ((Npos (Coq_xI (Coq_xI (Coq_xO (Coq_xO (Coq_xI (Coq_xI
    Coq_xH))))))) :: ((Npos (Coq_xO (Coq_xI (Coq_xO (Coq_xI (Coq_xI
    Coq_xH)))))) :: ((Npos (Coq_xO (Coq_xO (Coq_xI (Coq_xO (Coq_xI (Coq_xI
    Coq_xH))))))) :: ((Npos (Coq_xI (Coq_xI (Coq_xO (Coq_xO (Coq_xO (Coq_xI
    Coq_xH))))))) :: ((Npos (Coq_xO (Coq_xI (Coq_xO (Coq_xI (Coq_xI
    Coq_xH)))))) :: ((Npos (Coq_xI (Coq_xI (Coq_xI (Coq_xI (Coq_xO (Coq_xI
    Coq_xH))))))) :: ((Npos (Coq_xO (Coq_xO (Coq_xO (Coq_xO (Coq_xI (Coq_xI
    Coq_xH))))))) :: ((Npos (Coq_xI (Coq_xO (Coq_xI (Coq_xO (Coq_xO (Coq_xI
    Coq_xH))))))) :: ((Npos (Coq_xO (Coq_xI (Coq_xI (Coq_xI (Coq_xO (Coq_xI
    Coq_xH))))))) :: ((Npos (Coq_xO (Coq_xO (Coq_xI (Coq_xO (Coq_xO (Coq_xI
    Coq_xH))))))) :: ((Npos (Coq_xI (Coq_xI (Coq_xI (Coq_xI (Coq_xO (Coq_xI
    Coq_xH))))))) :: ((Npos (Coq_xI (Coq_xI (Coq_xO (Coq_xO (Coq_xO (Coq_xI
    Coq_xH))))))) :: ((Npos (Coq_xI (Coq_xO (Coq_xI (Coq_xO (Coq_xI (Coq_xI
    Coq_xH))))))) :: ((Npos (Coq_xI (Coq_xO (Coq_xI (Coq_xI (Coq_xO (Coq_xI
    Coq_xH))))))) :: ((Npos (Coq_xI (Coq_xO (Coq_xI (Coq_xO (Coq_xO (Coq_xI
    Coq_xH))))))) :: ((Npos (Coq_xO (Coq_xI (Coq_xI (Coq_xI (Coq_xO (Coq_xI
    Coq_xH))))))) :: ((Npos (Coq_xO (Coq_xO (Coq_xI (Coq_xO (Coq_xI (Coq_xI
    Coq_xH))))))) :: ((Npos (Coq_xO (Coq_xI (Coq_xO (Coq_xI (Coq_xI
    Coq_xH)))))) :: ((Npos (Coq_xO (Coq_xO (Coq_xO (Coq_xI (Coq_xI (Coq_xI
    Coq_xH))))))) :: ((Npos (Coq_xI (Coq_xO (Coq_xI (Coq_xI (Coq_xO (Coq_xI
    Coq_xH))))))) :: ((Npos (Coq_xO (Coq_xO (Coq_xI (Coq_xI (Coq_xO (Coq_xI
    Coq_xH))))))) :: ((Npos (Coq_xO (Coq_xI (Coq_xI (Coq_xI (Coq_xO (Coq_xI
    Coq_xH))))))) :: ((Npos (Coq_xI (Coq_xI (Coq_xO (Coq_xO (Coq_xI (Coq_xI
    Coq_xH))))))) :: ((Npos (Coq_xO (Coq_xI (Coq_xO (Coq_xI (Coq_xI
    Coq_xH)))))) :: ((Npos (Coq_xI (Coq_xI (Coq_xO (Coq_xO (Coq_xI (Coq_xI
    Coq_xH))))))) :: ((Npos (Coq_xO (Coq_xO (Coq_xI (Coq_xO (Coq_xI (Coq_xI
    Coq_xH))))))) :: ((Npos (Coq_xI (Coq_xO (Coq_xO (Coq_xI (Coq_xI (Coq_xI
    Coq_xH))))))) :: ((Npos (Coq_xO (Coq_xO (Coq_xI (Coq_xI (Coq_xO (Coq_xI
    Coq_xH))))))) :: ((Npos (Coq_xI (Coq_xO (Coq_xI (Coq_xO (Coq_xO (Coq_xI
    Coq_xH))))))) :: ((Npos (Coq_xO (Coq_xI (Coq_xO (Coq_xI (Coq_xI
    Coq_xH)))))) :: ((Npos (Coq_xI (Coq_xO (Coq_xO (Coq_xO (Coq_xI
    Coq_xH)))))) :: ((Npos (Coq_xO (Coq_xI (Coq_xI (Coq_xI (Coq_xO
    Coq_xH)))))) :: ((Npos (Coq_xO (Coq_xO (Coq_xO (Coq_xO (Coq_xI
    Coq_xH)))))) :: []))))))))))))))))))))))))))))))))))))))))))))))), ((Npos
    (Coq_xI (Coq_xO (Coq_xI (Coq_xI (Coq_xO (Coq_xI Coq_xH))))))) :: ((Npos
    (Coq_xI (Coq_xO (Coq_xO (Coq_xO (Coq_xO (Coq_xI Coq_xH))))))) :: ((Npos
    (Coq_xI (Coq_xI (Coq_xO (Coq_xO (Coq_xI (Coq_xI Coq_xH))))))) :: ((Npos
    (Coq_xO (Coq_xO (Coq_xI (Coq_xO (Coq_xI (Coq_xI Coq_xH))))))) :: ((Npos
    (Coq_xI (Coq_xO (Coq_xI (Coq_xO (Coq_xO (Coq_xI Coq_xH))))))) :: ((Npos
    (Coq_xO (Coq_xI (Coq_xO (Coq_xO (Coq_xI (Coq_xI Coq_xH))))))) :: ((Npos
    (Coq_xI (Coq_xO (Coq_xI (Coq_xI (Coq_xO Coq_xH)))))) :: ((Npos (Coq_xO
    (Coq_xO (Coq_xO (Coq_xO (Coq_xI (Coq_xI Coq_xH))))))) :: ((Npos (Coq_xI
    (Coq_xO (Coq_xO (Coq_xO (Coq_xO (Coq_xI Coq_xH))))))) :: ((Npos (Coq_xI
    (Coq_xI (Coq_xI (Coq_xO (Coq_xO (Coq_xI Coq_xH))))))) :: ((Npos (Coq_xI
    (Coq_xO (Coq_xI (Coq_xO (Coq_xO (Coq_xI Coq_xH))))))) :: [])))))))))))),
    (((Npos (Coq_xI (Coq_xO (Coq_xI (Coq_xO (Coq_xI (Coq_xI
    Coq_xH))))))) :: ((Npos (Coq_xO (Coq_xI (Coq_xO (Coq_xO (Coq_xI (Coq_xI
    Coq_xH))))))) :: ((Npos (Coq_xO (Coq_xI (Coq_xI (Coq_xI (Coq_xO (Coq_xI
    Coq_xH))))))) :: ((Npos (Coq_xO (Coq_xI (Coq_xO (Coq_xI (Coq_xI
    Coq_xH)))))) :: ((Npos (Coq_xI (Coq_xI (Coq_xI (Coq_xI (Coq_xO (Coq_xI
    Coq_xH))))))) :: ((Npos (Coq_xI (Coq_xO (Coq_xO (Coq_xO (Coq_xO (Coq_xI
    Coq_xH))))))) :: ((Npos (Coq_xI (Coq_xI (Coq_xO (Coq_xO (Coq_xI (Coq_xI
    Coq_xH))))))) :: ((Npos (Coq_xI (Coq_xO (Coq_xO (Coq_xI (Coq_xO (Coq_xI
    Coq_xH))))))) :: ((Npos (Coq_xI (Coq_xI (Coq_xO (Coq_xO (Coq_xI (Coq_xI
    Coq_xH))))))) :: ((Npos (Coq_xO (Coq_xI (Coq_xO (Coq_xI (Coq_xI
    Coq_xH)))))) :: ((Npos (Coq_xO (Coq_xI (Coq_xI (Coq_xI (Coq_xO (Coq_xI
    Coq_xH))))))) :: ((Npos (Coq_xI (Coq_xO (Coq_xO (Coq_xO (Coq_xO (Coq_xI
    Coq_xH))))))) :: ((Npos (Coq_xI (Coq_xO (Coq_xI (Coq_xI (Coq_xO (Coq_xI
    Coq_xH))))))) :: ((Npos (Coq_xI (Coq_xO (Coq_xI (Coq_xO (Coq_xO (Coq_xI
    Coq_xH))))))) :: ((Npos (Coq_xI (Coq_xI (Coq_xO (Coq_xO (Coq_xI (Coq_xI
    Coq_xH))))))) :: ((Npos (Coq_xO (Coq_xI (Coq_xO (Coq_xI (Coq_xI
    Coq_xH)))))) :: ((Npos (Coq_xO (Coq_xO (Coq_xI (Coq_xO (Coq_xI (Coq_xI
    Coq_xH))))))) :: ((Npos (Coq_xI (Coq_xI (Coq_xO (Coq_xO (Coq_xO (Coq_xI
    Coq_xH))))))) :: ((Npos (Coq_xO (Coq_xI (Coq_xO (Coq_xI (Coq_xI
    Coq_xH)))))) :: ((Npos (Coq_xI (Coq_xI (Coq_xI (Coq_xI (Coq_xO (Coq_xI
    Coq_xH))))))) :: ((Npos (Coq_xO (Coq_xO (Coq_xO (Coq_xO (Coq_xI (Coq_xI
    Coq_xH))))))) :: ((Npos (Coq_xI (Coq_xO (Coq_xI (Coq_xO (Coq_xO (Coq_xI
    Coq_xH))))))) :: ((Npos (Coq_xO (Coq_xI (Coq_xI (Coq_xI (Coq_xO (Coq_xI
    Coq_xH))))))) :: ((Npos (Coq_xO (Coq_xO (Coq_xI (Coq_xO (Coq_xO (Coq_xI
    Coq_xH))))))) :: ((Npos (Coq_xI (Coq_xI (Coq_xI (Coq_xI (Coq_xO (Coq_xI
    Coq_xH))))))) :: ((Npos (Coq_xI (Coq_xI (Coq_xO (Coq_xO (Coq_xO (Coq_xI
    Coq_xH))))))) :: ((Npos (Coq_xI (Coq_xO (Coq_xI (Coq_xO (Coq_xI (Coq_xI
    Coq_xH))))))) :: ((Npos (Coq_xI (Coq_xO (Coq_xI (Coq_xI (Coq_xO (Coq_xI
    Coq_xH))))))) :: ((Npos (Coq_xI (Coq_xO (Coq_xI (Coq_xO (Coq_xO (Coq_xI
    Coq_xH))))))) :: ((Npos (Coq_xO (Coq_xI (Coq_xI (Coq_xI (Coq_xO (Coq_xI
    Coq_xH))))))) :: ((Npos (Coq_xO (Coq_xO (Coq_xI (Coq_xO (Coq_xI (Coq_xI
    Coq_xH))))))) :: ((Npos (Coq_xO (Coq_xI (Coq_xO (Coq_xI (Coq_xI
    Coq_xH)))))) :: ((Npos (Coq_xO (Coq_xO (Coq_xO (Coq_xI (Coq_xI (Coq_xI
    Coq_xH))))))) :: ((Npos (Coq_xI (Coq_xO (Coq_xI (Coq_xI (Coq_xO (Coq_xI
    Coq_xH))))))) :: ((Npos (Coq_xO (Coq_xO (Coq_xI (Coq_xI (Coq_xO (Coq_xI
    Coq_xH))))))) :: ((Npos (Coq_xO (Coq_xI (Coq_xI (Coq_xI (Coq_xO (Coq_xI
    Coq_xH))))))) :: ((Npos (Coq_xI (Coq_xI (Coq_xO (Coq_xO (Coq_xI (Coq_xI
    Coq_xH))))))) :: ((Npos (Coq_xO (Coq_xI (Coq_xO (Coq_xI (Coq_xI
    Coq_xH)))))) :: ((Npos (Coq_xI (Coq_xI (Coq_xO (Coq_xO (Coq_xI (Coq_xI
    Coq_xH))))))) :: ((Npos (Coq_xO (Coq_xO (Coq_xI (Coq_xO (Coq_xI (Coq_xI
    Coq_xH))))))) :: ((Npos (Coq_xI (Coq_xO (Coq_xO (Coq_xI (Coq_xI (Coq_xI
    Coq_xH))))))) :: ((Npos (Coq_xO (Coq_xO (Coq_xI (Coq_xI (Coq_xO (Coq_xI
    Coq_xH))))))) :: ((Npos (Coq_xI (Coq_xO (Coq_xI (Coq_xO (Coq_xO (Coq_xI
    Coq_xH))))))) :: ((Npos (Coq_xO (Coq_xI (Coq_xO (Coq_xI (Coq_xI
    Coq_xH)))))) :: ((Npos (Coq_xI (Coq_xO (Coq_xO (Coq_xO (Coq_xI
    Coq_xH)))))) :: ((Npos (Coq_xO (Coq_xI (Coq_xI (Coq_xI (Coq_xO
    Coq_xH)))))) :: ((Npos (Coq_xO (Coq_xO (Coq_xO (Coq_xO (Coq_xI
    Coq_xH)))))) :: []))))))))))))))))))))))))))))))))))))))))))))))), ((Npos
    (Coq_xO (Coq_xI (Coq_xI (Coq_xI (Coq_xO (Coq_xI Coq_xH))))))) :: ((Npos
    (Coq_xI (Coq_xO (Coq_xI (Coq_xO (Coq_xO (Coq_xI Coq_xH))))))) :: ((Npos
    (Coq_xO (Coq_xO (Coq_xO (Coq_xI (Coq_xI (Coq_xI Coq_xH))))))) :: ((Npos
    (Coq_xO (Coq_xO (Coq_xI (Coq_xO (Coq_xI (Coq_xI Coq_xH))))))) :: ((Npos
    (Coq_xI (Coq_xO (Coq_xI (Coq_xI (Coq_xO Coq_xH)))))) :: ((Npos (Coq_xI
    (Coq_xI (Coq_xO (Coq_xO (Coq_xI (Coq_xI Coq_xH))))))) :: ((Npos (Coq_xO
    (Coq_xO (Coq_xI (Coq_xO (Coq_xI (Coq_xI Coq_xH))))))) :: ((Npos (Coq_xI
    (Coq_xO (Coq_xO (Coq_xI (Coq_xI (Coq_xI Coq_xH))))))) :: ((Npos (Coq_xO
    (Coq_xO (Coq_xI (Coq_xI (Coq_xO (Coq_xI Coq_xH))))))) :: ((Npos (Coq_xI
    (Coq_xO (Coq_xI (Coq_xO (Coq_xO (Coq_xI Coq_xH))))))) :: ((Npos (Coq_xI
    (Coq_xO (Coq_xI (Coq_xI (Coq_xO Coq_xH)))))) :: ((Npos (Coq_xO (Coq_xI
    (Coq_xI (Coq_xI (Coq_xO (Coq_xI Coq_xH))))))) :: ((Npos (Coq_xI (Coq_xO
    (Coq_xO (Coq_xO (Coq_xO (Coq_xI Coq_xH))))))) :: ((Npos (Coq_xI (Coq_xO
    (Coq_xI (Coq_xI (Coq_xO (Coq_xI Coq_xH))))))) :: ((Npos (Coq_xI (Coq_xO
    (Coq_xI (Coq_xO (Coq_xO (Coq_xI
    Coq_xH))))))) :: []))))))))))))))))) :: (((((Npos (Coq_xI (Coq_xO (Coq_xI
    (Coq_xO (Coq_xI (Coq_xI Coq_xH))))))) :: ((Npos (Coq_xO (Coq_xI (Coq_xO
    (Coq_xO (Coq_xI (Coq_xI Coq_xH))))))) :: ((Npos (Coq_xO (Coq_xI (Coq_xI
    (Coq_xI (Coq_xO (Coq_xI Coq_xH))))))) :: ((Npos (Coq_xO (Coq_xI (Coq_xO
    (Coq_xI (Coq_xI Coq_xH)))))) :: ((Npos (Coq_xI (Coq_xI (Coq_xI (Coq_xI
    (Coq_xO (Coq_xI Coq_xH))))))) :: ((Npos (Coq_xI (Coq_xO (Coq_xO (Coq_xO
    (Coq_xO (Coq_xI Coq_xH))))))) :: ((Npos (Coq_xI (Coq_xI (Coq_xO (Coq_xO
    (Coq_xI (Coq_xI Coq_xH))))))) :: ((Npos (Coq_xI (Coq_xO (Coq_xO (Coq_xI
    (Coq_xO (Coq_xI Coq_xH))))))) :: ((Npos (Coq_xI (Coq_xI (Coq_xO (Coq_xO
    (Coq_xI (Coq_xI Coq_xH))))))) :: ((Npos (Coq_xO (Coq_xI (Coq_xO (Coq_xI
    (Coq_xI Coq_xH)))))) :: ((Npos (Coq_xO (Coq_xI (Coq_xI (Coq_xI (Coq_xO
    (Coq_xI Coq_xH))))))) :: ((Npos (Coq_xI (Coq_xO (Coq_xO (Coq_xO (Coq_xO
    (Coq_xI Coq_xH))))))) :: ((Npos (Coq_xI (Coq_xO (Coq_xI (Coq_xI (Coq_xO
    (Coq_xI Coq_xH))))))) :: ((Npos (Coq_xI (Coq_xO (Coq_xI (Coq_xO (Coq_xO
    (Coq_xI Coq_xH))))))) :: ((Npos (Coq_xI (Coq_xI (Coq_xO (Coq_xO (Coq_xI
    (Coq_xI Coq_xH))))))) :: ((Npos (Coq_xO (Coq_xI (Coq_xO (Coq_xI (Coq_xI
    Coq_xH)))))) :: ((Npos (Coq_xO (Coq_xO (Coq_xI (Coq_xO (Coq_xI (Coq_xI
    Coq_xH))))))) :: ((Npos (Coq_xI (Coq_xI (Coq_xO (Coq_xO (Coq_xO (Coq_xI
    Coq_xH))))))) :: ((Npos (Coq_xO (Coq_xI (Coq_xO (Coq_xI (Coq_xI
    Coq_xH)))))) :: ((Npos (Coq_xI (Coq_xI (Coq_xI (Coq_xI (Coq_xO (Coq_xI
    Coq_xH))))))) :: ((Npos (Coq_xO (Coq_xO (Coq_xO (Coq_xO (Coq_xI (Coq_xI
    Coq_xH))))))) :: ((Npos (Coq_xI (Coq_xO (Coq_xI (Coq_xO (Coq_xO (Coq_xI
    Coq_xH))))))) :: ((Npos (Coq_xO (Coq_xI (Coq_xI (Coq_xI (Coq_xO (Coq_xI
    Coq_xH))))))) :: ((Npos (Coq_xO (Coq_xO (Coq_xI (Coq_xO (Coq_xO (Coq_xI
    Coq_xH))))))) :: ((Npos (Coq_xI (Coq_xI (Coq_xI (Coq_xI (Coq_xO (Coq_xI
    Coq_xH))))))) :: ((Npos (Coq_xI (Coq_xI (Coq_xO (Coq_xO (Coq_xO (Coq_xI
    Coq_xH))))))) :: ((Npos (Coq_xI (Coq_xO (Coq_xI (Coq_xO (Coq_xI (Coq_xI
    Coq_xH))))))) :: ((Npos (Coq_xI (Coq_xO (Coq_xI (Coq_xI (Coq_xO (Coq_xI
    Coq_xH))))))) :: ((Npos (Coq_xI (Coq_xO (Coq_xI (Coq_xO (Coq_xO (Coq_xI
    Coq_xH))))))) :: ((Npos (Coq_xO (Coq_xI (Coq_xI (Coq_xI (Coq_xO (Coq_xI
    Coq_xH))))))) :: ((Npos (Coq_xO (Coq_xO (Coq_xI (Coq_xO (Coq_xI (Coq_xI
    Coq_xH))))))) :: ((Npos (Coq_xO (Coq_xI (Coq_xO (Coq_xI (Coq_xI
    Coq_xH)))))) :: ((Npos (Coq_xO (Coq_xO (Coq_xO (Coq_xI (Coq_xI (Coq_xI
    Coq_xH))))))) :: ((Npos (Coq_xI (Coq_xO (Coq_xI (Coq_xI (Coq_xO (Coq_xI
    Coq_xH))))))) :: ((Npos (Coq_xO (Coq_xO (Coq_xI (Coq_xI (Coq_xO (Coq_xI
    Coq_xH))))))) :: ((Npos (Coq_xO (Coq_xI (Coq_xI (Coq_xI (Coq_xO (Coq_xI
    Coq_xH))))))) :: ((Npos (Coq_xI (Coq_xI (Coq_xO (Coq_xO (Coq_xI (Coq_xI
    Coq_xH))))))) :: ((Npos (Coq_xO (Coq_xI (Coq_xO (Coq_xI (Coq_xI
    Coq_xH)))))) :: ((Npos (Coq_xO (Coq_xO (Coq_xI (Coq_xO (Coq_xI (Coq_xI
    Coq_xH))))))) :: ((Npos (Coq_xI (Coq_xO (Coq_xI (Coq_xO (Coq_xO (Coq_xI
    Coq_xH))))))) :: ((Npos (Coq_xO (Coq_xO (Coq_xO (Coq_xI (Coq_xI (Coq_xI
    Coq_xH))))))) :: ((Npos (Coq_xO (Coq_xO (Coq_xI (Coq_xO (Coq_xI (Coq_xI
    Coq_xH))))))) :: ((Npos (Coq_xO (Coq_xI (Coq_xO (Coq_xI (Coq_xI
    Coq_xH)))))) :: ((Npos (Coq_xI (Coq_xO (Coq_xO (Coq_xO (Coq_xI
    Coq_xH)))))) :: ((Npos (Coq_xO (Coq_xI (Coq_xI (Coq_xI (Coq_xO
    Coq_xH)))))) :: ((Npos (Coq_xO (Coq_xO (Coq_xO (Coq_xO (Coq_xI
    Coq_xH)))))) :: [])))))))))))))))))))))))))))))))))))))))))))))), ((Npos
    (Coq_xO (Coq_xO (Coq_xI (Coq_xI (Coq_xO (Coq_xI Coq_xH))))))) :: ((Npos
    (Coq_xI (Coq_xO (Coq_xO (Coq_xI (Coq_xO (Coq_xI Coq_xH))))))) :: ((Npos
    (Coq_xI (Coq_xI (Coq_xO (Coq_xO (Coq_xI (Coq_xI Coq_xH))))))) :: ((Npos
    (Coq_xO (Coq_xO (Coq_xI (Coq_xO (Coq_xI (Coq_xI Coq_xH))))))) :: []))))),
    (((Npos (Coq_xI (Coq_xO (Coq_xI (Coq_xO (Coq_xI (Coq_xI
    Coq_xH))))))) :: ((Npos (Coq_xO (Coq_xI (Coq_xO (Coq_xO (Coq_xI (Coq_xI
    Coq_xH))))))) :: ((Npos (Coq_xO (Coq_xI (Coq_xI (Coq_xI (Coq_xO (Coq_xI
    Coq_xH))))))) :: ((Npos (Coq_xO (Coq_xI (Coq_xO (Coq_xI (Coq_xI
    Coq_xH)))))) :: ((Npos (Coq_xI (Coq_xI (Coq_xI (Coq_xI (Coq_xO (Coq_xI
    Coq_xH))))))) :: ((Npos (Coq_xI (Coq_xO (Coq_xO (Coq_xO (Coq_xO (Coq_xI
    Coq_xH))))))) :: ((Npos (Coq_xI (Coq_xI (Coq_xO (Coq_xO (Coq_xI (Coq_xI
    Coq_xH))))))) :: ((Npos (Coq_xI (Coq_xO (Coq_xO (Coq_xI (Coq_xO (Coq_xI
    Coq_xH))))))) :: ((Npos (Coq_xI (Coq_xI (Coq_xO (Coq_xO (Coq_xI (Coq_xI
    Coq_xH))))))) :: ((Npos (Coq_xO (Coq_xI (Coq_xO (Coq_xI (Coq_xI
    Coq_xH)))))) :: ((Npos (Coq_xO (Coq_xI (Coq_xI (Coq_xI (Coq_xO (Coq_xI
    Coq_xH))))))) :: ((Npos (Coq_xI (Coq_xO (Coq_xO (Coq_xO (Coq_xO (Coq_xI
    Coq_xH))))))) :: ((Npos (Coq_xI (Coq_xO (Coq_xI (Coq_xI (Coq_xO (Coq_xI
    Coq_xH))))))) :: ((Npos (Coq_xI (Coq_xO (Coq_xI (Coq_xO (Coq_xO (Coq_xI
    Coq_xH))))))) :: ((Npos (Coq_xI (Coq_xI (Coq_xO (Coq_xO (Coq_xI (Coq_xI
    Coq_xH))))))) :: ((Npos (Coq_xO (Coq_xI (Coq_xO (Coq_xI (Coq_xI
    Coq_xH)))))) :: ((Npos (Coq_xO (Coq_xO (Coq_xI (Coq_xO (Coq_xI (Coq_xI
    Coq_xH))))))) :: ((Npos (Coq_xI (Coq_xI (Coq_xO (Coq_xO (Coq_xO (Coq_xI
    Coq_xH))))))) :: ((Npos (Coq_xO (Coq_xI (Coq_xO (Coq_xI (Coq_xI
    Coq_xH)))))) :: ((Npos (Coq_xI (Coq_xI (Coq_xI (Coq_xI (Coq_xO (Coq_xI
    Coq_xH))))))) :: ((Npos (Coq_xO (Coq_xO (Coq_xO (Coq_xO (Coq_xI (Coq_xI
    Coq_xH))))))) :: ((Npos (Coq_xI (Coq_xO (Coq_xI (Coq_xO (Coq_xO (Coq_xI
    Coq_xH))))))) :: ((Npos (Coq_xO (Coq_xI (Coq_xI (Coq_xI (Coq_xO (Coq_xI
    Coq_xH))))))) :: ((Npos (Coq_xO (Coq_xO (Coq_xI (Coq_xO (Coq_xO (Coq_xI
    Coq_xH))))))) :: ((Npos (Coq_xI (Coq_xI (Coq_xI (Coq_xI (Coq_xO (Coq_xI
    Coq_xH))))))) :: ((Npos (Coq_xI (Coq_xI (Coq_xO (Coq_xO (Coq_xO (Coq_xI
    Coq_xH))))))) :: ((Npos (Coq_xI (Coq_xO (Coq_xI (Coq_xO (Coq_xI (Coq_xI
    Coq_xH))))))) :: ((Npos (Coq_xI (Coq_xO (Coq_xI (Coq_xI (Coq_xO (Coq_xI
    Coq_xH))))))) :: ((Npos (Coq_xI (Coq_xO (Coq_xI (Coq_xO (Coq_xO (Coq_xI
    Coq_xH))))))) :: ((Npos (Coq_xO (Coq_xI (Coq_xI (Coq_xI (Coq_xO (Coq_xI
    Coq_xH))))))) :: ((Npos (Coq_xO (Coq_xO (Coq_xI (Coq_xO (Coq_xI (Coq_xI
    Coq_xH))))))) :: ((Npos (Coq_xO (Coq_xI (Coq_xO (Coq_xI (Coq_xI
    Coq_xH)))))) :: ((Npos (Coq_xO (Coq_xO (Coq_xO (Coq_xI (Coq_xI (Coq_xI
    Coq_xH))))))) :: ((Npos (Coq_xI (Coq_xO (Coq_xI (Coq_xI (Coq_xO (Coq_xI
    Coq_xH))))))) :: ((Npos (Coq_xO (Coq_xO (Coq_xI (Coq_xI (Coq_xO (Coq_xI
    Coq_xH))))))) :: ((Npos (Coq_xO (Coq_xI (Coq_xI (Coq_xI (Coq_xO (Coq_xI
    Coq_xH))))))) :: ((Npos (Coq_xI (Coq_xI (Coq_xO (Coq_xO (Coq_xI (Coq_xI
    Coq_xH))))))) :: ((Npos (Coq_xO (Coq_xI (Coq_xO (Coq_xI (Coq_xI
    Coq_xH)))))) :: ((Npos (Coq_xO (Coq_xO (Coq_xI (Coq_xO (Coq_xI (Coq_xI
    Coq_xH))))))) :: ((Npos (Coq_xI (Coq_xO (Coq_xI (Coq_xO (Coq_xO (Coq_xI
    Coq_xH))))))) :: ((Npos (Coq_xO (Coq_xO (Coq_xO (Coq_xI (Coq_xI (Coq_xI
    Coq_xH))))))) :: ((Npos (Coq_xO (Coq_xO (Coq_xI (Coq_xO (Coq_xI (Coq_xI
    Coq_xH))))))) :: ((Npos (Coq_xO (Coq_xI (Coq_xO (Coq_xI (Coq_xI
    Coq_xH)))))) :: ((Npos (Coq_xI (Coq_xO (Coq_xO (Coq_xO (Coq_xI
    Coq_xH)))))) :: ((Npos (Coq_xO (Coq_xI (Coq_xI (Coq_xI (Coq_xO
    Coq_xH)))))) :: ((Npos (Coq_xO (Coq_xO (Coq_xO (Coq_xO (Coq_xI
    Coq_xH)))))) :: [])))))))))))))))))))))))))))))))))))))))))))))), ((Npos
    (Coq_xI (Coq_xI (Coq_xO (Coq_xO (Coq_xI (Coq_xI Coq_xH))))))) :: ((Npos
    (Coq_xO (Coq_xO (Coq_xI (Coq_xO (Coq_xI (Coq_xI Coq_xH))))))) :: ((Npos
    (Coq_xI (Coq_xO (Coq_xO (Coq_xI (Coq_xI (Coq_xI Coq_xH))))))) :: ((Npos
    (Coq_xO (Coq_xO (Coq_xI (Coq_xI (Coq_xO (Coq_xI Coq_xH))))))) :: ((Npos
    (Coq_xI (Coq_xO (Coq_xI (Coq_xO (Coq_xO (Coq_xI Coq_xH))))))) :: ((Npos
    (Coq_xI (Coq_xO (Coq_xI (Coq_xI (Coq_xO Coq_xH)))))) :: ((Npos (Coq_xO
    (Coq_xI (Coq_xI (Coq_xI (Coq_xO (Coq_xI Coq_xH))))))) :: ((Npos (Coq_xI
    (Coq_xO (Coq_xO (Coq_xO (Coq_xO (Coq_xI Coq_xH))))))) :: ((Npos (Coq_xI
    (Coq_xO (Coq_xI (Coq_xI (Coq_xO (Coq_xI Coq_xH))))))) :: ((Npos (Coq_xI
    (Coq_xO (Coq_xI (Coq_xO (Coq_xO (Coq_xI
    Coq_xH))))))) :: [])))))))))))) :: (((((Npos (Coq_xI (Coq_xO (Coq_xI
    (Coq_xO (Coq_xI (Coq_xI Coq_xH))))))) :: ((Npos (Coq_xO (Coq_xI (Coq_xO
    (Coq_xO (Coq_xI (Coq_xI Coq_xH))))))) :: ((Npos (Coq_xO (Coq_xI (Coq_xI
    (Coq_xI (Coq_xO (Coq_xI Coq_xH))))))) :: ((Npos (Coq_xO (Coq_xI (Coq_xO
    (Coq_xI (Coq_xI Coq_xH)))))) :: ((Npos (Coq_xI (Coq_xI (Coq_xI (Coq_xI
    (Coq_xO (Coq_xI Coq_xH))))))) :: ((Npos (Coq_xI (Coq_xO (Coq_xO (Coq_xO
    (Coq_xO (Coq_xI Coq_xH))))))) :: ((Npos (Coq_xI (Coq_xI (Coq_xO (Coq_xO
    (Coq_xI (Coq_xI Coq_xH))))))) :: ((Npos (Coq_xI (Coq_xO (Coq_xO (Coq_xI
    (Coq_xO (Coq_xI Coq_xH))))))) :: ((Npos (Coq_xI (Coq_xI (Coq_xO (Coq_xO
    (Coq_xI (Coq_xI Coq_xH))))))) :: ((Npos (Coq_xO (Coq_xI (Coq_xO (Coq_xI
    (Coq_xI Coq_xH)))))) :: ((Npos (Coq_xO (Coq_xI (Coq_xI (Coq_xI (Coq_xO
    (Coq_xI Coq_xH))))))) :: ((Npos (Coq_xI (Coq_xO (Coq_xO (Coq_xO (Coq_xO
    (Coq_xI Coq_xH))))))) :: ((Npos (Coq_xI (Coq_xO (Coq_xI (Coq_xI (Coq_xO
    (Coq_xI Coq_xH))))))) :: ((Npos (Coq_xI (Coq_xO (Coq_xI (Coq_xO (Coq_xO
    (Coq_xI Coq_xH))))))) :: ((Npos (Coq_xI (Coq_xI (Coq_xO (Coq_xO (Coq_xI
    (Coq_xI Coq_xH))))))) :: ((Npos (Coq_xO (Coq_xI (Coq_xO (Coq_xI (Coq_xI
    Coq_xH)))))) :: ((Npos (Coq_xO (Coq_xO (Coq_xI (Coq_xO (Coq_xI (Coq_xI
    Coq_xH))))))) :: ((Npos (Coq_xI (Coq_xI (Coq_xO (Coq_xO (Coq_xO (Coq_xI
    Coq_xH))))))) :: ((Npos (Coq_xO (Coq_xI (Coq_xO (Coq_xI (Coq_xI
    Coq_xH)))))) :: ((Npos (Coq_xI (Coq_xI (Coq_xI (Coq_xI (Coq_xO (Coq_xI
    Coq_xH))))))) :: ((Npos (Coq_xO (Coq_xO (Coq_xO (Coq_xO (Coq_xI (Coq_xI
    Coq_xH))))))) :: ((Npos (Coq_xI (Coq_xO (Coq_xI (Coq_xO (Coq_xO (Coq_xI
    Coq_xH))))))) :: ((Npos (Coq_xO (Coq_xI (Coq_xI (Coq_xI (Coq_xO (Coq_xI
    Coq_xH))))))) :: ((Npos (Coq_xO (Coq_xO (Coq_xI (Coq_xO (Coq_xO (Coq_xI
    Coq_xH))))))) :: ((Npos (Coq_xI (Coq_xI (Coq_xI (Coq_xI (Coq_xO (Coq_xI
    Coq_xH))))))) :: ((Npos (Coq_xI (Coq_xI (Coq_xO (Coq_xO (Coq_xO (Coq_xI
    Coq_xH))))))) :: ((Npos (Coq_xI (Coq_xO (Coq_xI (Coq_xO (Coq_xI (Coq_xI
    Coq_xH))))))) :: ((Npos (Coq_xI (Coq_xO (Coq_xI (Coq_xI (Coq_xO (Coq_xI
    Coq_xH))))))) :: ((Npos (Coq_xI (Coq_xO (Coq_xI (Coq_xO (Coq_xO (Coq_xI
    Coq_xH))))))) :: ((Npos (Coq_xO (Coq_xI (Coq_xI (Coq_xI (Coq_xO (Coq_xI
    Coq_xH))))))) :: ((Npos (Coq_xO (Coq_xO (Coq_xI (Coq_xO (Coq_xI (Coq_xI
    Coq_xH))))))) :: ((Npos (Coq_xO (Coq_xI (Coq_xO (Coq_xI (Coq_xI
    Coq_xH)))))) :: ((Npos (Coq_xO (Coq_xO (Coq_xO (Coq_xI (Coq_xI (Coq_xI
    Coq_xH))))))) :: ((Npos (Coq_xI (Coq_xO (Coq_xI (Coq_xI (Coq_xO (Coq_xI
    Coq_xH))))))) :: ((Npos (Coq_xO (Coq_xO (Coq_xI (Coq_xI (Coq_xO (Coq_xI
    Coq_xH))))))) :: ((Npos (Coq_xO (Coq_xI (Coq_xI (Coq_xI (Coq_xO (Coq_xI
    Coq_xH))))))) :: ((Npos (Coq_xI (Coq_xI (Coq_xO (Coq_xO (Coq_xI (Coq_xI
    Coq_xH))))))) :: ((Npos (Coq_xO (Coq_xI (Coq_xO (Coq_xI (Coq_xI
    Coq_xH)))))) :: ((Npos (Coq_xO (Coq_xO (Coq_xI (Coq_xO (Coq_xI (Coq_xI
    Coq_xH))))))) :: ((Npos (Coq_xI (Coq_xO (Coq_xI (Coq_xO (Coq_xO (Coq_xI
    Coq_xH))))))) :: ((Npos (Coq_xO (Coq_xO (Coq_xO (Coq_xI (Coq_xI (Coq_xI
    Coq_xH))))))) :: ((Npos (Coq_xO (Coq_xO (Coq_xI (Coq_xO (Coq_xI (Coq_xI
    Coq_xH))))))) :: ((Npos (Coq_xO (Coq_xI (Coq_xO (Coq_xI (Coq_xI
    Coq_xH)))))) :: ((Npos (Coq_xI (Coq_xO (Coq_xO (Coq_xO (Coq_xI
    Coq_xH)))))) :: ((Npos (Coq_xO (Coq_xI (Coq_xI (Coq_xI (Coq_xO
    Coq_xH)))))) :: ((Npos (Coq_xO (Coq_xO (Coq_xO (Coq_xO (Coq_xI
    Coq_xH)))))) :: [])))))))))))))))))))))))))))))))))))))))))))))), ((Npos
    (Coq_xO (Coq_xI (Coq_xI (Coq_xI (Coq_xO (Coq_xI Coq_xH))))))) :: ((Npos
    (Coq_xI (Coq_xO (Coq_xI (Coq_xO (Coq_xI (Coq_xI Coq_xH))))))) :: ((Npos
    (Coq_xI (Coq_xO (Coq_xI (Coq_xI (Coq_xO (Coq_xI Coq_xH))))))) :: ((Npos
    (Coq_xO (Coq_xI (Coq_xO (Coq_xO (Coq_xO (Coq_xI Coq_xH))))))) :: ((Npos
    (Coq_xI (Coq_xO (Coq_xI (Coq_xO (Coq_xO (Coq_xI Coq_xH))))))) :: ((Npos
    (Coq_xO (Coq_xI (Coq_xO (Coq_xO (Coq_xI (Coq_xI Coq_xH))))))) :: ((Npos
    (Coq_xI (Coq_xO (Coq_xI (Coq_xO (Coq_xO (Coq_xI Coq_xH))))))) :: ((Npos
    (Coq_xO (Coq_xO (Coq_xI (Coq_xO (Coq_xO (Coq_xI Coq_xH))))))) :: ((Npos
    (Coq_xI (Coq_xO (Coq_xI (Coq_xI (Coq_xO Coq_xH)))))) :: ((Npos (Coq_xO
    (Coq_xO (Coq_xO (Coq_xO (Coq_xI (Coq_xI Coq_xH))))))) :: ((Npos (Coq_xI
    (Coq_xO (Coq_xO (Coq_xO (Coq_xO (Coq_xI Coq_xH))))))) :: ((Npos (Coq_xO
    (Coq_xI (Coq_xO (Coq_xO (Coq_xI (Coq_xI Coq_xH))))))) :: ((Npos (Coq_xI
    (Coq_xO (Coq_xO (Coq_xO (Coq_xO (Coq_xI Coq_xH))))))) :: ((Npos (Coq_xI
    (Coq_xI (Coq_xI (Coq_xO (Coq_xO (Coq_xI Coq_xH))))))) :: ((Npos (Coq_xO
    (Coq_xI (Coq_xO (Coq_xO (Coq_xI (Coq_xI Coq_xH))))))) :: ((Npos (Coq_xI
    (Coq_xO (Coq_xO (Coq_xO (Coq_xO (Coq_xI Coq_xH))))))) :: ((Npos (Coq_xO
    (Coq_xO (Coq_xO (Coq_xO (Coq_xI (Coq_xI Coq_xH))))))) :: ((Npos (Coq_xO
    (Coq_xO (Coq_xO (Coq_xI (Coq_xO (Coq_xI
    Coq_xH))))))) :: []))))))))))))))))))), (((Npos (Coq_xI (Coq_xO (Coq_xI
    (Coq_xO (Coq_xI (Coq_xI Coq_xH))))))) :: ((Npos (Coq_xO (Coq_xI (Coq_xO
    (Coq_xO (Coq_xI (Coq_xI Coq_xH))))))) :: ((Npos (Coq_xO (Coq_xI (Coq_xI
    (Coq_xI (Coq_xO (Coq_xI Coq_xH))))))) :: ((Npos (Coq_xO (Coq_xI (Coq_xO
    (Coq_xI (Coq_xI Coq_xH)))))) :: ((Npos (Coq_xI (Coq_xI (Coq_xI (Coq_xI
    (Coq_xO (Coq_xI Coq_xH))))))) :: ((Npos (Coq_xI (Coq_xO (Coq_xO (Coq_xO
    (Coq_xO (Coq_xI Coq_xH))))))) :: ((Npos (Coq_xI (Coq_xI (Coq_xO (Coq_xO
    (Coq_xI (Coq_xI Coq_xH))))))) :: ((Npos (Coq_xI (Coq_xO (Coq_xO (Coq_xI
    (Coq_xO (Coq_xI Coq_xH))))))) :: ((Npos (Coq_xI (Coq_xI (Coq_xO (Coq_xO
    (Coq_xI (Coq_xI Coq_xH))))))) :: ((Npos (Coq_xO (Coq_xI (Coq_xO (Coq_xI
    (Coq_xI Coq_xH)))))) :: ((Npos (Coq_xO (Coq_xI (Coq_xI (Coq_xI (Coq_xO
    (Coq_xI Coq_xH))))))) :: ((Npos (Coq_xI (Coq_xO (Coq_xO (Coq_xO (Coq_xO
    (Coq_xI Coq_xH))))))) :: ((Npos (Coq_xI (Coq_xO (Coq_xI (Coq_xI (Coq_xO
    (Coq_xI Coq_xH))))))) :: ((Npos (Coq_xI (Coq_xO (Coq_xI (Coq_xO (Coq_xO
    (Coq_xI Coq_xH))))))) :: ((Npos (Coq_xI (Coq_xI (Coq_xO (Coq_xO (Coq_xI
    (Coq_xI Coq_xH))))))) :: ((Npos (Coq_xO (Coq_xI (Coq_xO (Coq_xI (Coq_xI
    Coq_xH)))))) :: ((Npos (Coq_xO (Coq_xO (Coq_xI (Coq_xO (Coq_xI (Coq_xI
    Coq_xH))))))) :: ((Npos (Coq_xI (Coq_xI (Coq_xO (Coq_xO (Coq_xO (Coq_xI
    Coq_xH))))))) :: ((Npos (Coq_xO (Coq_xI (Coq_xO (Coq_xI (Coq_xI
    Coq_xH)))))) :: ((Npos (Coq_xI (Coq_xI (Coq_xI (Coq_xI (Coq_xO (Coq_xI
    Coq_xH))))))) :: ((Npos (Coq_xO (Coq_xO (Coq_xO (Coq_xO (Coq_xI (Coq_xI
    Coq_xH))))))) :: ((Npos (Coq_xI (Coq_xO (Coq_xI (Coq_xO (Coq_xO (Coq_xI
    Coq_xH))))))) :: ((Npos (Coq_xO (Coq_xI (Coq_xI (Coq_xI (Coq_xO (Coq_xI
    Coq_xH))))))) :: ((Npos (Coq_xO (Coq_xO (Coq_xI (Coq_xO (Coq_xO (Coq_xI
    Coq_xH))))))) :: ((Npos (Coq_xI (Coq_xI (Coq_xI (Coq_xI (Coq_xO (Coq_xI
    Coq_xH))))))) :: ((Npos (Coq_xI (Coq_xI (Coq_xO (Coq_xO (Coq_xO (Coq_xI
    Coq_xH))))))) :: ((Npos (Coq_xI (Coq_xO (Coq_xI (Coq_xO (Coq_xI (Coq_xI
    Coq_xH))))))) :: ((Npos (Coq_xI (Coq_xO (Coq_xI (Coq_xI (Coq_xO (Coq_xI
    Coq_xH))))))) :: ((Npos (Coq_xI (Coq_xO (Coq_xI (Coq_xO (Coq_xO (Coq_xI
    Coq_xH))))))) :: ((Npos (Coq_xO (Coq_xI (Coq_xI (Coq_xI (Coq_xO (Coq_xI
    Coq_xH))))))) :: ((Npos (Coq_xO (Coq_xO (Coq_xI (Coq_xO (Coq_xI (Coq_xI
    Coq_xH))))))) :: ((Npos (Coq_xO (Coq_xI (Coq_xO (Coq_xI (Coq_xI
    Coq_xH)))))) :: ((Npos (Coq_xO (Coq_xO (Coq_xO (Coq_xI (Coq_xI (Coq_xI
    Coq_xH))))))) :: ((Npos (Coq_xI (Coq_xO (Coq_xI (Coq_xI (Coq_xO (Coq_xI
    Coq_xH))))))) :: ((Npos (Coq_xO (Coq_xO (Coq_xI (Coq_xI (Coq_xO (Coq_xI
    Coq_xH))))))) :: ((Npos (Coq_xO (Coq_xI (Coq_xI (Coq_xI (Coq_xO (Coq_xI
    Coq_xH))))))) :: ((Npos (Coq_xI (Coq_xI (Coq_xO (Coq_xO (Coq_xI (Coq_xI
    Coq_xH))))))) :: ((Npos (Coq_xO (Coq_xI (Coq_xO (Coq_xI (Coq_xI
    Coq_xH)))))) :: ((Npos (Coq_xO (Coq_xO (Coq_xI (Coq_xO (Coq_xI (Coq_xI
    Coq_xH))))))) :: ((Npos (Coq_xI (Coq_xO (Coq_xI (Coq_xO (Coq_xO (Coq_xI
    Coq_xH))))))) :: ((Npos (Coq_xO (Coq_xO (Coq_xO (Coq_xI (Coq_xI (Coq_xI
    Coq_xH))))))) :: ((Npos (Coq_xO (Coq_xO (Coq_xI (Coq_xO (Coq_xI (Coq_xI
    Coq_xH))))))) :: ((Npos (Coq_xO (Coq_xI (Coq_xO (Coq_xI (Coq_xI
    Coq_xH)))))) :: ((Npos (Coq_xI (Coq_xO (Coq_xO (Coq_xO (Coq_xI
    Coq_xH)))))) :: ((Npos (Coq_xO (Coq_xI (Coq_xI (Coq_xI (Coq_xO
    Coq_xH)))))) :: ((Npos (Coq_xO (Coq_xO (Coq_xO (Coq_xO (Coq_xI
    Coq_xH)))))) :: [])))))))))))))))))))))))))))))))))))))))))))))), ((Npos
    (Coq_xI (Coq_xI (Coq_xO (Coq_xO (Coq_xI (Coq_xI Coq_xH))))))) :: ((Npos
    (Coq_xO (Coq_xO (Coq_xI (Coq_xO (Coq_xI (Coq_xI Coq_xH))))))) :: ((Npos
    (Coq_xI (Coq_xO (Coq_xO (Coq_xI (Coq_xI (Coq_xI Coq_xH))))))) :: ((Npos
    (Coq_xO (Coq_xO (Coq_xI (Coq_xI (Coq_xO (Coq_xI Coq_xH))))))) :: ((Npos
    (Coq_xI (Coq_xO (Coq_xI (Coq_xO (Coq_xO (Coq_xI Coq_xH))))))) :: ((Npos
    (Coq_xI (Coq_xO (Coq_xI (Coq_xI (Coq_xO Coq_xH)))))) :: ((Npos (Coq_xO
    (Coq_xI (Coq_xI (Coq_xI (Coq_xO (Coq_xI Coq_xH))))))) :: ((Npos (Coq_xI
    (Coq_xO (Coq_xO (Coq_xO (Coq_xO (Coq_xI Coq_xH))))))) :: ((Npos (Coq_xI
    (Coq_xO (Coq_xI (Coq_xI (Coq_xO (Coq_xI Coq_xH))))))) :: ((Npos (Coq_xI
    (Coq_xO (Coq_xI (Coq_xO (Coq_xO (Coq_xI
    Coq_xH))))))) :: [])))))))))))) :: []))
