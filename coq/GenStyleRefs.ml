open BinNums

(** val scanned_refattrs : (coq_N list * coq_N list) list **)

let scanned_refattrs =
  (((Npos (Coq_xI (Coq_xO (Coq_xI (Coq_xO (Coq_xI (Coq_xI
    Coq_xH))))))) :: ((Npos (Coq_xO (Coq_xI (Coq_xO (Coq_xO (Coq_xI (Coq_xI
    Coq_xH))))))) :: ((Npos (Coq_xO (Coq_xI (Coq_xI (Coq_xI (Coq_xO (Coq_xI
    Coq_xH))))))) :: ((Npos (Coq_xO (Coq_xI (Coq_xO (Coq_xI (Coq_xI
    Coq_xH)))))) :: ((Npos (Coq_xI (Coq_xI (Coq_xI (Coq_xI (Coq_xO (Coq_xI
    Coq_xH))))))) :: ((Npos (Coq_xI (Coq_xO (Coq_xO (Coq_xO (Coq_xO (Coq_xI
    Coq_xH))))))) :: ((Npos (Coq_xI (Coq_xI (Coq_xO (Coq_xO (Coq_xI (Coq_xI
    Coq_xH))))))) :: ((Npos (Coq_xI (Coq_xO (Coq_xO (Coq_xI (Coq_xO (Coq_xI
    Coq_xH))))))) :: ((Npos (Coq_xI (Coq_xI (Coq_xO (Coq_xO (Coq_xI (Coq_xI
    Coq_xH))))))) :: ((Npos (Coq_xO (Coq_xI (Coq_xO (Coq_xI (Coq_xI
    Coq_xH)))))) :: ((Npos (Coq_xO (Coq_xI (Coq_xI (Coq_xI (Coq_xO (Coq_xI
    Coq_xH))))))) :: ((Npos (Coq_xI (Coq_xO (Coq_xO (Coq_xO (Coq_xO (Coq_xI
    Coq_xH))))))) :: ((Npos (Coq_xI (Coq_xO (Coq_xI (Coq_xI (Coq_xO (Coq_xI
    Coq_xH))))))) :: ((Npos (Coq_xI (Coq_xO (Coq_xI (Coq_xO (Coq_xO (Coq_xI
    Coq_xH))))))) :: ((Npos (Coq_xI (Coq_xI (Coq_xO (Coq_xO (Coq_xI (Coq_xI
    Coq_xH))))))) :: ((Npos (Coq_xO (Coq_xI (Coq_xO (Coq_xI (Coq_xI
    Coq_xH)))))) :: ((Npos (Coq_xO (Coq_xO (Coq_xI (Coq_xO (Coq_xI (Coq_xI
    Coq_xH))))))) :: ((Npos (Coq_xI (Coq_xI (Coq_xO (Coq_xO (Coq_xO (Coq_xI
    Coq_xH))))))) :: ((Npos (Coq_xO (Coq_xI (Coq_xO (Coq_xI (Coq_xI
    Coq_xH)))))) :: ((Npos (Coq_xI (Coq_xI (Coq_xI (Coq_xI (Coq_xO (Coq_xI
    Coq_xH))))))) :: ((Npos (Coq_xO (Coq_xO (Coq_xO (Coq_xO (Coq_xI (Coq_xI
    Coq_xH))))))) :: ((Npos (Coq_xI (Coq_xO (Coq_xI (Coq_xO (Coq_xO (Coq_xI
    Coq_xH))))))) :: ((Npos (Coq_xO (Coq_xI (Coq_xI (Coq_xI (Coq_xO (Coq_xI
    Coq_xH))))))) :: ((Npos (Coq_xO (Coq_xO (Coq_xI (Coq_xO (Coq_xO (Coq_xI
    Coq_xH))))))) :: ((Npos (Coq_xI (Coq_xI (Coq_xI (Coq_xI (Coq_xO (Coq_xI
    Coq_xH))))))) :: ((Npos (Coq_xI (Coq_xI (Coq_xO (Coq_xO (Coq_xO (Coq_xI
    Coq_xH))))))) :: ((Npos (Coq_xI (Coq_xO (Coq_xI (Coq_xO (Coq_xI (Coq_xI
    Coq_xH))))))) :: ((Npos (Coq_xI (Coq_xO (Coq_xI (Coq_xI (Coq_xO (Coq_xI
    Coq_xH))))))) :: ((Npos (Coq_xI (Coq_xO (Coq_xI (Coq_xO (Coq_xO (Coq_xI
    Coq_xH))))))) :: ((Npos (Coq_xO (Coq_xI (Coq_xI (Coq_xI (Coq_xO (Coq_xI
    Coq_xH))))))) :: ((Npos (Coq_xO (Coq_xO (Coq_xI (Coq_xO (Coq_xI (Coq_xI
    Coq_xH))))))) :: ((Npos (Coq_xO (Coq_xI (Coq_xO (Coq_xI (Coq_xI
    Coq_xH)))))) :: ((Npos (Coq_xO (Coq_xO (Coq_xO (Coq_xI (Coq_xI (Coq_xI
    Coq_xH))))))) :: ((Npos (Coq_xI (Coq_xO (Coq_xI (Coq_xI (Coq_xO (Coq_xI
    Coq_xH))))))) :: ((Npos (Coq_xO (Coq_xO (Coq_xI (Coq_xI (Coq_xO (Coq_xI
    Coq_xH))))))) :: ((Npos (Coq_xO (Coq_xI (Coq_xI (Coq_xI (Coq_xO (Coq_xI
    Coq_xH))))))) :: ((Npos (Coq_xI (Coq_xI (Coq_xO (Coq_xO (Coq_xI (Coq_xI
    Coq_xH))))))) :: ((Npos (Coq_xO (Coq_xI (Coq_xO (Coq_xI (Coq_xI
    Coq_xH)))))) :: ((Npos (Coq_xI (Coq_xI (Coq_xO (Coq_xO (Coq_xO (Coq_xI
    Coq_xH))))))) :: ((Npos (Coq_xO (Coq_xO (Coq_xO (Coq_xI (Coq_xO (Coq_xI
    Coq_xH))))))) :: ((Npos (Coq_xI (Coq_xO (Coq_xO (Coq_xO (Coq_xO (Coq_xI
    Coq_xH))))))) :: ((Npos (Coq_xO (Coq_xI (Coq_xO (Coq_xO (Coq_xI (Coq_xI
    Coq_xH))))))) :: ((Npos (Coq_xO (Coq_xO (Coq_xI (Coq_xO (Coq_xI (Coq_xI
    Coq_xH))))))) :: ((Npos (Coq_xO (Coq_xI (Coq_xO (Coq_xI (Coq_xI
    Coq_xH)))))) :: ((Npos (Coq_xI (Coq_xO (Coq_xO (Coq_xO (Coq_xI
    Coq_xH)))))) :: ((Npos (Coq_xO (Coq_xI (Coq_xI (Coq_xI (Coq_xO
    Coq_xH)))))) :: ((Npos (Coq_xO (Coq_xO (Coq_xO (Coq_xO (Coq_xI
    Coq_xH)))))) :: []))))))))))))))))))))))))))))))))))))))))))))))), ((Npos
    (Coq_xI (Coq_xI (Coq_xO (Coq_xO (Coq_xI (Coq_xI Coq_xH))))))) :: ((Npos
    (Coq_xO (Coq_xO (Coq_xI (Coq_xO (Coq_xI (Coq_xI Coq_xH))))))) :: ((Npos
    (Coq_xI (Coq_xO (Coq_xO (Coq_xI (Coq_xI (Coq_xI Coq_xH))))))) :: ((Npos
    (Coq_xO (Coq_xO (Coq_xI (Coq_xI (Coq_xO (Coq_xI Coq_xH))))))) :: ((Npos
    (Coq_xI (Coq_xO (Coq_xI (Coq_xO (Coq_xO (Coq_xI Coq_xH))))))) :: ((Npos
    (Coq_xI (Coq_xO (Coq_xI (Coq_xI (Coq_xO Coq_xH)))))) :: ((Npos (Coq_xO
    (Coq_xI (Coq_xI (Coq_xI (Coq_xO (Coq_xI Coq_xH))))))) :: ((Npos (Coq_xI
    (Coq_xO (Coq_xO (Coq_xO (Coq_xO (Coq_xI Coq_xH))))))) :: ((Npos (Coq_xI
    (Coq_xO (Coq_xI (Coq_xI (Coq_xO (Coq_xI Coq_xH))))))) :: ((Npos (Coq_xI
    (Coq_xO (Coq_xI (Coq_xO (Coq_xO (Coq_xI
    Coq_xH))))))) :: []))))))))))) :: ((((Npos (Coq_xI (Coq_xO (Coq_xI
    (Coq_xO (Coq_xI (Coq_xI Coq_xH))))))) :: ((Npos (Coq_xO (Coq_xI (Coq_xO
    (Coq_xO (Coq_xI (Coq_xI Coq_xH))))))) :: ((Npos (Coq_xO (Coq_xI (Coq_xI
    (Coq_xI (Coq_xO (Coq_xI Coq_xH))))))) :: ((Npos (Coq_xO (Coq_xI (Coq_xO
    (Coq_xI (Coq_xI Coq_xH)))))) :: ((Npos (Coq_xI (Coq_xI (Coq_xI (Coq_xI
    (Coq_xO (Coq_xI Coq_xH))))))) :: ((Npos (Coq_xI (Coq_xO (Coq_xO (Coq_xO
    (Coq_xO (Coq_xI Coq_xH))))))) :: ((Npos (Coq_xI (Coq_xI (Coq_xO (Coq_xO
    (Coq_xI (Coq_xI Coq_xH))))))) :: ((Npos (Coq_xI (Coq_xO (Coq_xO (Coq_xI
    (Coq_xO (Coq_xI Coq_xH))))))) :: ((Npos (Coq_xI (Coq_xI (Coq_xO (Coq_xO
    (Coq_xI (Coq_xI Coq_xH))))))) :: ((Npos (Coq_xO (Coq_xI (Coq_xO (Coq_xI
    (Coq_xI Coq_xH)))))) :: ((Npos (Coq_xO (Coq_xI (Coq_xI (Coq_xI (Coq_xO
    (Coq_xI Coq_xH))))))) :: ((Npos (Coq_xI (Coq_xO (Coq_xO (Coq_xO (Coq_xO
    (Coq_xI Coq_xH))))))) :: ((Npos (Coq_xI (Coq_xO (Coq_xI (Coq_xI (Coq_xO
    (Coq_xI Coq_xH))))))) :: ((Npos (Coq_xI (Coq_xO (Coq_xI (Coq_xO (Coq_xO
    (Coq_xI Coq_xH))))))) :: ((Npos (Coq_xI (Coq_xI (Coq_xO (Coq_xO (Coq_xI
    (Coq_xI Coq_xH))))))) :: ((Npos (Coq_xO (Coq_xI (Coq_xO (Coq_xI (Coq_xI
    Coq_xH)))))) :: ((Npos (Coq_xO (Coq_xO (Coq_xI (Coq_xO (Coq_xI (Coq_xI
    Coq_xH))))))) :: ((Npos (Coq_xI (Coq_xI (Coq_xO (Coq_xO (Coq_xO (Coq_xI
    Coq_xH))))))) :: ((Npos (Coq_xO (Coq_xI (Coq_xO (Coq_xI (Coq_xI
    Coq_xH)))))) :: ((Npos (Coq_xI (Coq_xI (Coq_xI (Coq_xI (Coq_xO (Coq_xI
    Coq_xH))))))) :: ((Npos (Coq_xO (Coq_xO (Coq_xO (Coq_xO (Coq_xI (Coq_xI
    Coq_xH))))))) :: ((Npos (Coq_xI (Coq_xO (Coq_xI (Coq_xO (Coq_xO (Coq_xI
    Coq_xH))))))) :: ((Npos (Coq_xO (Coq_xI (Coq_xI (Coq_xI (Coq_xO (Coq_xI
    Coq_xH))))))) :: ((Npos (Coq_xO (Coq_xO (Coq_xI (Coq_xO (Coq_xO (Coq_xI
    Coq_xH))))))) :: ((Npos (Coq_xI (Coq_xI (Coq_xI (Coq_xI (Coq_xO (Coq_xI
    Coq_xH))))))) :: ((Npos (Coq_xI (Coq_xI (Coq_xO (Coq_xO (Coq_xO (Coq_xI
    Coq_xH))))))) :: ((Npos (Coq_xI (Coq_xO (Coq_xI (Coq_xO (Coq_xI (Coq_xI
    Coq_xH))))))) :: ((Npos (Coq_xI (Coq_xO (Coq_xI (Coq_xI (Coq_xO (Coq_xI
    Coq_xH))))))) :: ((Npos (Coq_xI (Coq_xO (Coq_xI (Coq_xO (Coq_xO (Coq_xI
    Coq_xH))))))) :: ((Npos (Coq_xO (Coq_xI (Coq_xI (Coq_xI (Coq_xO (Coq_xI
    Coq_xH))))))) :: ((Npos (Coq_xO (Coq_xO (Coq_xI (Coq_xO (Coq_xI (Coq_xI
    Coq_xH))))))) :: ((Npos (Coq_xO (Coq_xI (Coq_xO (Coq_xI (Coq_xI
    Coq_xH)))))) :: ((Npos (Coq_xO (Coq_xO (Coq_xO (Coq_xI (Coq_xI (Coq_xI
    Coq_xH))))))) :: ((Npos (Coq_xI (Coq_xO (Coq_xI (Coq_xI (Coq_xO (Coq_xI
    Coq_xH))))))) :: ((Npos (Coq_xO (Coq_xO (Coq_xI (Coq_xI (Coq_xO (Coq_xI
    Coq_xH))))))) :: ((Npos (Coq_xO (Coq_xI (Coq_xI (Coq_xI (Coq_xO (Coq_xI
    Coq_xH))))))) :: ((Npos (Coq_xI (Coq_xI (Coq_xO (Coq_xO (Coq_xI (Coq_xI
    Coq_xH))))))) :: ((Npos (Coq_xO (Coq_xI (Coq_xO (Coq_xI (Coq_xI
    Coq_xH)))))) :: ((Npos (Coq_xO (Coq_xO (Coq_xI (Coq_xO (Coq_xO (Coq_xI
    Coq_xH))))))) :: ((Npos (Coq_xI (Coq_xO (Coq_xO (Coq_xO (Coq_xO (Coq_xI
    Coq_xH))))))) :: ((Npos (Coq_xO (Coq_xO (Coq_xI (Coq_xO (Coq_xI (Coq_xI
    Coq_xH))))))) :: ((Npos (Coq_xI (Coq_xO (Coq_xO (Coq_xO (Coq_xO (Coq_xI
    Coq_xH))))))) :: ((Npos (Coq_xO (Coq_xI (Coq_xO (Coq_xO (Coq_xO (Coq_xI
    Coq_xH))))))) :: ((Npos (Coq_xI (Coq_xO (Coq_xO (Coq_xO (Coq_xO (Coq_xI
    Coq_xH))))))) :: ((Npos (Coq_xI (Coq_xI (Coq_xO (Coq_xO (Coq_xI (Coq_xI
    Coq_xH))))))) :: ((Npos (Coq_xI (Coq_xO (Coq_xI (Coq_xO (Coq_xO (Coq_xI
    Coq_xH))))))) :: ((Npos (Coq_xO (Coq_xI (Coq_xO (Coq_xI (Coq_xI
    Coq_xH)))))) :: ((Npos (Coq_xI (Coq_xO (Coq_xO (Coq_xO (Coq_xI
    Coq_xH)))))) :: ((Npos (Coq_xO (Coq_xI (Coq_xI (Coq_xI (Coq_xO
    Coq_xH)))))) :: ((Npos (Coq_xO (Coq_xO (Coq_xO (Coq_xO (Coq_xI
    Coq_xH)))))) :: [])))))))))))))))))))))))))))))))))))))))))))))))))),
    ((Npos (Coq_xO (Coq_xO (Coq_xI (Coq_xO (Coq_xO (Coq_xI
    Coq_xH))))))) :: ((Npos (Coq_xI (Coq_xO (Coq_xI (Coq_xO (Coq_xO (Coq_xI
    Coq_xH))))))) :: ((Npos (Coq_xO (Coq_xI (Coq_xI (Coq_xO (Coq_xO (Coq_xI
    Coq_xH))))))) :: ((Npos (Coq_xI (Coq_xO (Coq_xO (Coq_xO (Coq_xO (Coq_xI
    Coq_xH))))))) :: ((Npos (Coq_xI (Coq_xO (Coq_xI (Coq_xO (Coq_xI (Coq_xI
    Coq_xH))))))) :: ((Npos (Coq_xO (Coq_xO (Coq_xI (Coq_xI (Coq_xO (Coq_xI
    Coq_xH))))))) :: ((Npos (Coq_xO (Coq_xO (Coq_xI (Coq_xO (Coq_xI (Coq_xI
    Coq_xH))))))) :: ((Npos (Coq_xI (Coq_xO (Coq_xI (Coq_xI (Coq_xO
    Coq_xH)))))) :: ((Npos (Coq_xI (Coq_xI (Coq_xO (Coq_xO (Coq_xO (Coq_xI
    Coq_xH))))))) :: ((Npos (Coq_xI (Coq_xO (Coq_xI (Coq_xO (Coq_xO (Coq_xI
    Coq_xH))))))) :: ((Npos (Coq_xO (Coq_xO (Coq_xI (Coq_xI (Coq_xO (Coq_xI
    Coq_xH))))))) :: ((Npos (Coq_xO (Coq_xO (Coq_xI (Coq_xI (Coq_xO (Coq_xI
    Coq_xH))))))) :: ((Npos (Coq_xI (Coq_xO (Coq_xI (Coq_xI (Coq_xO
    Coq_xH)))))) :: ((Npos (Coq_xI (Coq_xI (Coq_xO (Coq_xO (Coq_xI (Coq_xI
    Coq_xH))))))) :: ((Npos (Coq_xO (Coq_xO (Coq_xI (Coq_xO (Coq_xI (Coq_xI
    Coq_xH))))))) :: ((Npos (Coq_xI (Coq_xO (Coq_xO (Coq_xI (Coq_xI (Coq_xI
    Coq_xH))))))) :: ((Npos (Coq_xO (Coq_xO (Coq_xI (Coq_xI (Coq_xO (Coq_xI
    Coq_xH))))))) :: ((Npos (Coq_xI (Coq_xO (Coq_xI (Coq_xO (Coq_xO (Coq_xI
    Coq_xH))))))) :: ((Npos (Coq_xI (Coq_xO (Coq_xI (Coq_xI (Coq_xO
    Coq_xH)))))) :: ((Npos (Coq_xO (Coq_xI (Coq_xI (Coq_xI (Coq_xO (Coq_xI
    Coq_xH))))))) :: ((Npos (Coq_xI (Coq_xO (Coq_xO (Coq_xO (Coq_xO (Coq_xI
    Coq_xH))))))) :: ((Npos (Coq_xI (Coq_xO (Coq_xI (Coq_xI (Coq_xO (Coq_xI
    Coq_xH))))))) :: ((Npos (Coq_xI (Coq_xO (Coq_xI (Coq_xO (Coq_xO (Coq_xI
    Coq_xH))))))) :: [])))))))))))))))))))))))) :: ((((Npos (Coq_xI (Coq_xO
    (Coq_xI (Coq_xO (Coq_xI (Coq_xI Coq_xH))))))) :: ((Npos (Coq_xO (Coq_xI
    (Coq_xO (Coq_xO (Coq_xI (Coq_xI Coq_xH))))))) :: ((Npos (Coq_xO (Coq_xI
    (Coq_xI (Coq_xI (Coq_xO (Coq_xI Coq_xH))))))) :: ((Npos (Coq_xO (Coq_xI
    (Coq_xO (Coq_xI (Coq_xI Coq_xH)))))) :: ((Npos (Coq_xI (Coq_xI (Coq_xI
    (Coq_xI (Coq_xO (Coq_xI Coq_xH))))))) :: ((Npos (Coq_xI (Coq_xO (Coq_xO
    (Coq_xO (Coq_xO (Coq_xI Coq_xH))))))) :: ((Npos (Coq_xI (Coq_xI (Coq_xO
    (Coq_xO (Coq_xI (Coq_xI Coq_xH))))))) :: ((Npos (Coq_xI (Coq_xO (Coq_xO
    (Coq_xI (Coq_xO (Coq_xI Coq_xH))))))) :: ((Npos (Coq_xI (Coq_xI (Coq_xO
    (Coq_xO (Coq_xI (Coq_xI Coq_xH))))))) :: ((Npos (Coq_xO (Coq_xI (Coq_xO
    (Coq_xI (Coq_xI Coq_xH)))))) :: ((Npos (Coq_xO (Coq_xI (Coq_xI (Coq_xI
    (Coq_xO (Coq_xI Coq_xH))))))) :: ((Npos (Coq_xI (Coq_xO (Coq_xO (Coq_xO
    (Coq_xO (Coq_xI Coq_xH))))))) :: ((Npos (Coq_xI (Coq_xO (Coq_xI (Coq_xI
    (Coq_xO (Coq_xI Coq_xH))))))) :: ((Npos (Coq_xI (Coq_xO (Coq_xI (Coq_xO
    (Coq_xO (Coq_xI Coq_xH))))))) :: ((Npos (Coq_xI (Coq_xI (Coq_xO (Coq_xO
    (Coq_xI (Coq_xI Coq_xH))))))) :: ((Npos (Coq_xO (Coq_xI (Coq_xO (Coq_xI
    (Coq_xI Coq_xH)))))) :: ((Npos (Coq_xO (Coq_xO (Coq_xI (Coq_xO (Coq_xI
    (Coq_xI Coq_xH))))))) :: ((Npos (Coq_xI (Coq_xI (Coq_xO (Coq_xO (Coq_xO
    (Coq_xI Coq_xH))))))) :: ((Npos (Coq_xO (Coq_xI (Coq_xO (Coq_xI (Coq_xI
    Coq_xH)))))) :: ((Npos (Coq_xI (Coq_xI (Coq_xI (Coq_xI (Coq_xO (Coq_xI
    Coq_xH))))))) :: ((Npos (Coq_xO (Coq_xO (Coq_xO (Coq_xO (Coq_xI (Coq_xI
    Coq_xH))))))) :: ((Npos (Coq_xI (Coq_xO (Coq_xI (Coq_xO (Coq_xO (Coq_xI
    Coq_xH))))))) :: ((Npos (Coq_xO (Coq_xI (Coq_xI (Coq_xI (Coq_xO (Coq_xI
    Coq_xH))))))) :: ((Npos (Coq_xO (Coq_xO (Coq_xI (Coq_xO (Coq_xO (Coq_xI
    Coq_xH))))))) :: ((Npos (Coq_xI (Coq_xI (Coq_xI (Coq_xI (Coq_xO (Coq_xI
    Coq_xH))))))) :: ((Npos (Coq_xI (Coq_xI (Coq_xO (Coq_xO (Coq_xO (Coq_xI
    Coq_xH))))))) :: ((Npos (Coq_xI (Coq_xO (Coq_xI (Coq_xO (Coq_xI (Coq_xI
    Coq_xH))))))) :: ((Npos (Coq_xI (Coq_xO (Coq_xI (Coq_xI (Coq_xO (Coq_xI
    Coq_xH))))))) :: ((Npos (Coq_xI (Coq_xO (Coq_xI (Coq_xO (Coq_xO (Coq_xI
    Coq_xH))))))) :: ((Npos (Coq_xO (Coq_xI (Coq_xI (Coq_xI (Coq_xO (Coq_xI
    Coq_xH))))))) :: ((Npos (Coq_xO (Coq_xO (Coq_xI (Coq_xO (Coq_xI (Coq_xI
    Coq_xH))))))) :: ((Npos (Coq_xO (Coq_xI (Coq_xO (Coq_xI (Coq_xI
    Coq_xH)))))) :: ((Npos (Coq_xO (Coq_xO (Coq_xO (Coq_xI (Coq_xI (Coq_xI
    Coq_xH))))))) :: ((Npos (Coq_xI (Coq_xO (Coq_xI (Coq_xI (Coq_xO (Coq_xI
    Coq_xH))))))) :: ((Npos (Coq_xO (Coq_xO (Coq_xI (Coq_xI (Coq_xO (Coq_xI
    Coq_xH))))))) :: ((Npos (Coq_xO (Coq_xI (Coq_xI (Coq_xI (Coq_xO (Coq_xI
    Coq_xH))))))) :: ((Npos (Coq_xI (Coq_xI (Coq_xO (Coq_xO (Coq_xI (Coq_xI
    Coq_xH))))))) :: ((Npos (Coq_xO (Coq_xI (Coq_xO (Coq_xI (Coq_xI
    Coq_xH)))))) :: ((Npos (Coq_xO (Coq_xO (Coq_xI (Coq_xO (Coq_xO (Coq_xI
    Coq_xH))))))) :: ((Npos (Coq_xI (Coq_xO (Coq_xO (Coq_xO (Coq_xO (Coq_xI
    Coq_xH))))))) :: ((Npos (Coq_xO (Coq_xO (Coq_xI (Coq_xO (Coq_xI (Coq_xI
    Coq_xH))))))) :: ((Npos (Coq_xI (Coq_xO (Coq_xO (Coq_xO (Coq_xO (Coq_xI
    Coq_xH))))))) :: ((Npos (Coq_xO (Coq_xI (Coq_xO (Coq_xO (Coq_xO (Coq_xI
    Coq_xH))))))) :: ((Npos (Coq_xI (Coq_xO (Coq_xO (Coq_xO (Coq_xO (Coq_xI
    Coq_xH))))))) :: ((Npos (Coq_xI (Coq_xI (Coq_xO (Coq_xO (Coq_xI (Coq_xI
    Coq_xH))))))) :: ((Npos (Coq_xI (Coq_xO (Coq_xI (Coq_xO (Coq_xO (Coq_xI
    Coq_xH))))))) :: ((Npos (Coq_xO (Coq_xI (Coq_xO (Coq_xI (Coq_xI
    Coq_xH)))))) :: ((Npos (Coq_xI (Coq_xO (Coq_xO (Coq_xO (Coq_xI
    Coq_xH)))))) :: ((Npos (Coq_xO (Coq_xI (Coq_xI (Coq_xI (Coq_xO
    Coq_xH)))))) :: ((Npos (Coq_xO (Coq_xO (Coq_xO (Coq_xO (Coq_xI
    Coq_xH)))))) :: [])))))))))))))))))))))))))))))))))))))))))))))))))),
    ((Npos (Coq_xO (Coq_xO (Coq_xI (Coq_xO (Coq_xO (Coq_xI
    Coq_xH))))))) :: ((Npos (Coq_xI (Coq_xO (Coq_xI (Coq_xO (Coq_xO (Coq_xI
    Coq_xH))))))) :: ((Npos (Coq_xO (Coq_xI (Coq_xI (Coq_xO (Coq_xO (Coq_xI
    Coq_xH))))))) :: ((Npos (Coq_xI (Coq_xO (Coq_xO (Coq_xO (Coq_xO (Coq_xI
    Coq_xH))))))) :: ((Npos (Coq_xI (Coq_xO (Coq_xI (Coq_xO (Coq_xI (Coq_xI
    Coq_xH))))))) :: ((Npos (Coq_xO (Coq_xO (Coq_xI (Coq_xI (Coq_xO (Coq_xI
    Coq_xH))))))) :: ((Npos (Coq_xO (Coq_xO (Coq_xI (Coq_xO (Coq_xI (Coq_xI
    Coq_xH))))))) :: ((Npos (Coq_xI (Coq_xO (Coq_xI (Coq_xI (Coq_xO
    Coq_xH)))))) :: ((Npos (Coq_xO (Coq_xI (Coq_xO (Coq_xO (Coq_xI (Coq_xI
    Coq_xH))))))) :: ((Npos (Coq_xI (Coq_xI (Coq_xI (Coq_xI (Coq_xO (Coq_xI
    Coq_xH))))))) :: ((Npos (Coq_xI (Coq_xI (Coq_xI (Coq_xO (Coq_xI (Coq_xI
    Coq_xH))))))) :: ((Npos (Coq_xI (Coq_xO (Coq_xI (Coq_xI (Coq_xO
    Coq_xH)))))) :: ((Npos (Coq_xI (Coq_xI (Coq_xO (Coq_xO (Coq_xI (Coq_xI
    Coq_xH))))))) :: ((Npos (Coq_xO (Coq_xO (Coq_xI (Coq_xO (Coq_xI (Coq_xI
    Coq_xH))))))) :: ((Npos (Coq_xI (Coq_xO (Coq_xO (Coq_xI (Coq_xI (Coq_xI
    Coq_xH))))))) :: ((Npos (Coq_xO (Coq_xO (Coq_xI (Coq_xI (Coq_xO (Coq_xI
    Coq_xH))))))) :: ((Npos (Coq_xI (Coq_xO (Coq_xI (Coq_xO (Coq_xO (Coq_xI
    Coq_xH))))))) :: ((Npos (Coq_xI (Coq_xO (Coq_xI (Coq_xI (Coq_xO
    Coq_xH)))))) :: ((Npos (Coq_xO (Coq_xI (Coq_xI (Coq_xI (Coq_xO (Coq_xI
    Coq_xH))))))) :: ((Npos (Coq_xI (Coq_xO (Coq_xO (Coq_xO (Coq_xO (Coq_xI
    Coq_xH))))))) :: ((Npos (Coq_xI (Coq_xO (Coq_xI (Coq_xI (Coq_xO (Coq_xI
    Coq_xH))))))) :: ((Npos (Coq_xI (Coq_xO (Coq_xI (Coq_xO (Coq_xO (Coq_xI
    Coq_xH))))))) :: []))))))))))))))))))))))) :: ((((Npos (Coq_xI (Coq_xO
    (Coq_xI (Coq_xO (Coq_xI (Coq_xI Coq_xH))))))) :: ((Npos (Coq_xO (Coq_xI
    (Coq_xO (Coq_xO (Coq_xI (Coq_xI Coq_xH))))))) :: ((Npos (Coq_xO (Coq_xI
    (Coq_xI (Coq_xI (Coq_xO (Coq_xI Coq_xH))))))) :: ((Npos (Coq_xO (Coq_xI
    (Coq_xO (Coq_xI (Coq_xI Coq_xH)))))) :: ((Npos (Coq_xI (Coq_xI (Coq_xI
    (Coq_xI (Coq_xO (Coq_xI Coq_xH))))))) :: ((Npos (Coq_xI (Coq_xO (Coq_xO
    (Coq_xO (Coq_xO (Coq_xI Coq_xH))))))) :: ((Npos (Coq_xI (Coq_xI (Coq_xO
    (Coq_xO (Coq_xI (Coq_xI Coq_xH))))))) :: ((Npos (Coq_xI (Coq_xO (Coq_xO
    (Coq_xI (Coq_xO (Coq_xI Coq_xH))))))) :: ((Npos (Coq_xI (Coq_xI (Coq_xO
    (Coq_xO (Coq_xI (Coq_xI Coq_xH))))))) :: ((Npos (Coq_xO (Coq_xI (Coq_xO
    (Coq_xI (Coq_xI Coq_xH)))))) :: ((Npos (Coq_xO (Coq_xI (Coq_xI (Coq_xI
    (Coq_xO (Coq_xI Coq_xH))))))) :: ((Npos (Coq_xI (Coq_xO (Coq_xO (Coq_xO
    (Coq_xO (Coq_xI Coq_xH))))))) :: ((Npos (Coq_xI (Coq_xO (Coq_xI (Coq_xI
    (Coq_xO (Coq_xI Coq_xH))))))) :: ((Npos (Coq_xI (Coq_xO (Coq_xI (Coq_xO
    (Coq_xO (Coq_xI Coq_xH))))))) :: ((Npos (Coq_xI (Coq_xI (Coq_xO (Coq_xO
    (Coq_xI (Coq_xI Coq_xH))))))) :: ((Npos (Coq_xO (Coq_xI (Coq_xO (Coq_xI
    (Coq_xI Coq_xH)))))) :: ((Npos (Coq_xO (Coq_xO (Coq_xI (Coq_xO (Coq_xI
    (Coq_xI Coq_xH))))))) :: ((Npos (Coq_xI (Coq_xI (Coq_xO (Coq_xO (Coq_xO
    (Coq_xI Coq_xH))))))) :: ((Npos (Coq_xO (Coq_xI (Coq_xO (Coq_xI (Coq_xI
    Coq_xH)))))) :: ((Npos (Coq_xI (Coq_xI (Coq_xI (Coq_xI (Coq_xO (Coq_xI
    Coq_xH))))))) :: ((Npos (Coq_xO (Coq_xO (Coq_xO (Coq_xO (Coq_xI (Coq_xI
    Coq_xH))))))) :: ((Npos (Coq_xI (Coq_xO (Coq_xI (Coq_xO (Coq_xO (Coq_xI
    Coq_xH))))))) :: ((Npos (Coq_xO (Coq_xI (Coq_xI (Coq_xI (Coq_xO (Coq_xI
    Coq_xH))))))) :: ((Npos (Coq_xO (Coq_xO (Coq_xI (Coq_xO (Coq_xO (Coq_xI
    Coq_xH))))))) :: ((Npos (Coq_xI (Coq_xI (Coq_xI (Coq_xI (Coq_xO (Coq_xI
    Coq_xH))))))) :: ((Npos (Coq_xI (Coq_xI (Coq_xO (Coq_xO (Coq_xO (Coq_xI
    Coq_xH))))))) :: ((Npos (Coq_xI (Coq_xO (Coq_xI (Coq_xO (Coq_xI (Coq_xI
    Coq_xH))))))) :: ((Npos (Coq_xI (Coq_xO (Coq_xI (Coq_xI (Coq_xO (Coq_xI
    Coq_xH))))))) :: ((Npos (Coq_xI (Coq_xO (Coq_xI (Coq_xO (Coq_xO (Coq_xI
    Coq_xH))))))) :: ((Npos (Coq_xO (Coq_xI (Coq_xI (Coq_xI (Coq_xO (Coq_xI
    Coq_xH))))))) :: ((Npos (Coq_xO (Coq_xO (Coq_xI (Coq_xO (Coq_xI (Coq_xI
    Coq_xH))))))) :: ((Npos (Coq_xO (Coq_xI (Coq_xO (Coq_xI (Coq_xI
    Coq_xH)))))) :: ((Npos (Coq_xO (Coq_xO (Coq_xO (Coq_xI (Coq_xI (Coq_xI
    Coq_xH))))))) :: ((Npos (Coq_xI (Coq_xO (Coq_xI (Coq_xI (Coq_xO (Coq_xI
    Coq_xH))))))) :: ((Npos (Coq_xO (Coq_xO (Coq_xI (Coq_xI (Coq_xO (Coq_xI
    Coq_xH))))))) :: ((Npos (Coq_xO (Coq_xI (Coq_xI (Coq_xI (Coq_xO (Coq_xI
    Coq_xH))))))) :: ((Npos (Coq_xI (Coq_xI (Coq_xO (Coq_xO (Coq_xI (Coq_xI
    Coq_xH))))))) :: ((Npos (Coq_xO (Coq_xI (Coq_xO (Coq_xI (Coq_xI
    Coq_xH)))))) :: ((Npos (Coq_xO (Coq_xO (Coq_xI (Coq_xO (Coq_xO (Coq_xI
    Coq_xH))))))) :: ((Npos (Coq_xI (Coq_xO (Coq_xO (Coq_xO (Coq_xO (Coq_xI
    Coq_xH))))))) :: ((Npos (Coq_xO (Coq_xO (Coq_xI (Coq_xO (Coq_xI (Coq_xI
    Coq_xH))))))) :: ((Npos (Coq_xI (Coq_xO (Coq_xO (Coq_xO (Coq_xO (Coq_xI
    Coq_xH))))))) :: ((Npos (Coq_xO (Coq_xI (Coq_xO (Coq_xO (Coq_xO (Coq_xI
    Coq_xH))))))) :: ((Npos (Coq_xI (Coq_xO (Coq_xO (Coq_xO (Coq_xO (Coq_xI
    Coq_xH))))))) :: ((Npos (Coq_xI (Coq_xI (Coq_xO (Coq_xO (Coq_xI (Coq_xI
    Coq_xH))))))) :: ((Npos (Coq_xI (Coq_xO (Coq_xI (Coq_xO (Coq_xO (Coq_xI
    Coq_xH))))))) :: ((Npos (Coq_xO (Coq_xI (Coq_xO (Coq_xI (Coq_xI
    Coq_xH)))))) :: ((Npos (Coq_xI (Coq_xO (Coq_xO (Coq_xO (Coq_xI
    Coq_xH)))))) :: ((Npos (Coq_xO (Coq_xI (Coq_xI (Coq_xI (Coq_xO
    Coq_xH)))))) :: ((Npos (Coq_xO (Coq_xO (Coq_xO (Coq_xO (Coq_xI
    Coq_xH)))))) :: [])))))))))))))))))))))))))))))))))))))))))))))))))),
    ((Npos (Coq_xI (Coq_xI (Coq_xO (Coq_xO (Coq_xI (Coq_xI
    Coq_xH))))))) :: ((Npos (Coq_xO (Coq_xO (Coq_xI (Coq_xO (Coq_xI (Coq_xI
    Coq_xH))))))) :: ((Npos (Coq_xI (Coq_xO (Coq_xO (Coq_xI (Coq_xI (Coq_xI
    Coq_xH))))))) :: ((Npos (Coq_xO (Coq_xO (Coq_xI (Coq_xI (Coq_xO (Coq_xI
    Coq_xH))))))) :: ((Npos (Coq_xI (Coq_xO (Coq_xI (Coq_xO (Coq_xO (Coq_xI
    Coq_xH))))))) :: ((Npos (Coq_xI (Coq_xO (Coq_xI (Coq_xI (Coq_xO
    Coq_xH)))))) :: ((Npos (Coq_xO (Coq_xI (Coq_xI (Coq_xI (Coq_xO (Coq_xI
    Coq_xH))))))) :: ((Npos (Coq_xI (Coq_xO (Coq_xO (Coq_xO (Coq_xO (Coq_xI
    Coq_xH))))))) :: ((Npos (Coq_xI (Coq_xO (Coq_xI (Coq_xI (Coq_xO (Coq_xI
    Coq_xH))))))) :: ((Npos (Coq_xI (Coq_xO (Coq_xI (Coq_xO (Coq_xO (Coq_xI
    Coq_xH))))))) :: []))))))))))) :: ((((Npos (Coq_xI (Coq_xO (Coq_xI
    (Coq_xO (Coq_xI (Coq_xI Coq_xH))))))) :: ((Npos (Coq_xO (Coq_xI (Coq_xO
    (Coq_xO (Coq_xI (Coq_xI Coq_xH))))))) :: ((Npos (Coq_xO (Coq_xI (Coq_xI
    (Coq_xI (Coq_xO (Coq_xI Coq_xH))))))) :: ((Npos (Coq_xO (Coq_xI (Coq_xO
    (Coq_xI (Coq_xI Coq_xH)))))) :: ((Npos (Coq_xI (Coq_xI (Coq_xI (Coq_xI
    (Coq_xO (Coq_xI Coq_xH))))))) :: ((Npos (Coq_xI (Coq_xO (Coq_xO (Coq_xO
    (Coq_xO (Coq_xI Coq_xH))))))) :: ((Npos (Coq_xI (Coq_xI (Coq_xO (Coq_xO
    (Coq_xI (Coq_xI Coq_xH))))))) :: ((Npos (Coq_xI (Coq_xO (Coq_xO (Coq_xI
    (Coq_xO (Coq_xI Coq_xH))))))) :: ((Npos (Coq_xI (Coq_xI (Coq_xO (Coq_xO
    (Coq_xI (Coq_xI Coq_xH))))))) :: ((Npos (Coq_xO (Coq_xI (Coq_xO (Coq_xI
    (Coq_xI Coq_xH)))))) :: ((Npos (Coq_xO (Coq_xI (Coq_xI (Coq_xI (Coq_xO
    (Coq_xI Coq_xH))))))) :: ((Npos (Coq_xI (Coq_xO (Coq_xO (Coq_xO (Coq_xO
    (Coq_xI Coq_xH))))))) :: ((Npos (Coq_xI (Coq_xO (Coq_xI (Coq_xI (Coq_xO
    (Coq_xI Coq_xH))))))) :: ((Npos (Coq_xI (Coq_xO (Coq_xI (Coq_xO (Coq_xO
    (Coq_xI Coq_xH))))))) :: ((Npos (Coq_xI (Coq_xI (Coq_xO (Coq_xO (Coq_xI
    (Coq_xI Coq_xH))))))) :: ((Npos (Coq_xO (Coq_xI (Coq_xO (Coq_xI (Coq_xI
    Coq_xH)))))) :: ((Npos (Coq_xO (Coq_xO (Coq_xI (Coq_xO (Coq_xI (Coq_xI
    Coq_xH))))))) :: ((Npos (Coq_xI (Coq_xI (Coq_xO (Coq_xO (Coq_xO (Coq_xI
    Coq_xH))))))) :: ((Npos (Coq_xO (Coq_xI (Coq_xO (Coq_xI (Coq_xI
    Coq_xH)))))) :: ((Npos (Coq_xI (Coq_xI (Coq_xI (Coq_xI (Coq_xO (Coq_xI
    Coq_xH))))))) :: ((Npos (Coq_xO (Coq_xO (Coq_xO (Coq_xO (Coq_xI (Coq_xI
    Coq_xH))))))) :: ((Npos (Coq_xI (Coq_xO (Coq_xI (Coq_xO (Coq_xO (Coq_xI
    Coq_xH))))))) :: ((Npos (Coq_xO (Coq_xI (Coq_xI (Coq_xI (Coq_xO (Coq_xI
    Coq_xH))))))) :: ((Npos (Coq_xO (Coq_xO (Coq_xI (Coq_xO (Coq_xO (Coq_xI
    Coq_xH))))))) :: ((Npos (Coq_xI (Coq_xI (Coq_xI (Coq_xI (Coq_xO (Coq_xI
    Coq_xH))))))) :: ((Npos (Coq_xI (Coq_xI (Coq_xO (Coq_xO (Coq_xO (Coq_xI
    Coq_xH))))))) :: ((Npos (Coq_xI (Coq_xO (Coq_xI (Coq_xO (Coq_xI (Coq_xI
    Coq_xH))))))) :: ((Npos (Coq_xI (Coq_xO (Coq_xI (Coq_xI (Coq_xO (Coq_xI
    Coq_xH))))))) :: ((Npos (Coq_xI (Coq_xO (Coq_xI (Coq_xO (Coq_xO (Coq_xI
    Coq_xH))))))) :: ((Npos (Coq_xO (Coq_xI (Coq_xI (Coq_xI (Coq_xO (Coq_xI
    Coq_xH))))))) :: ((Npos (Coq_xO (Coq_xO (Coq_xI (Coq_xO (Coq_xI (Coq_xI
    Coq_xH))))))) :: ((Npos (Coq_xO (Coq_xI (Coq_xO (Coq_xI (Coq_xI
    Coq_xH)))))) :: ((Npos (Coq_xO (Coq_xO (Coq_xO (Coq_xI (Coq_xI (Coq_xI
    Coq_xH))))))) :: ((Npos (Coq_xI (Coq_xO (Coq_xI (Coq_xI (Coq_xO (Coq_xI
    Coq_xH))))))) :: ((Npos (Coq_xO (Coq_xO (Coq_xI (Coq_xI (Coq_xO (Coq_xI
    Coq_xH))))))) :: ((Npos (Coq_xO (Coq_xI (Coq_xI (Coq_xI (Coq_xO (Coq_xI
    Coq_xH))))))) :: ((Npos (Coq_xI (Coq_xI (Coq_xO (Coq_xO (Coq_xI (Coq_xI
    Coq_xH))))))) :: ((Npos (Coq_xO (Coq_xI (Coq_xO (Coq_xI (Coq_xI
    Coq_xH)))))) :: ((Npos (Coq_xO (Coq_xO (Coq_xI (Coq_xO (Coq_xO (Coq_xI
    Coq_xH))))))) :: ((Npos (Coq_xO (Coq_xI (Coq_xO (Coq_xO (Coq_xI (Coq_xI
    Coq_xH))))))) :: ((Npos (Coq_xI (Coq_xO (Coq_xO (Coq_xO (Coq_xO (Coq_xI
    Coq_xH))))))) :: ((Npos (Coq_xI (Coq_xI (Coq_xI (Coq_xO (Coq_xI (Coq_xI
    Coq_xH))))))) :: ((Npos (Coq_xI (Coq_xO (Coq_xO (Coq_xI (Coq_xO (Coq_xI
    Coq_xH))))))) :: ((Npos (Coq_xO (Coq_xI (Coq_xI (Coq_xI (Coq_xO (Coq_xI
    Coq_xH))))))) :: ((Npos (Coq_xI (Coq_xI (Coq_xI (Coq_xO (Coq_xO (Coq_xI
    Coq_xH))))))) :: ((Npos (Coq_xO (Coq_xI (Coq_xO (Coq_xI (Coq_xI
    Coq_xH)))))) :: ((Npos (Coq_xI (Coq_xO (Coq_xO (Coq_xO (Coq_xI
    Coq_xH)))))) :: ((Npos (Coq_xO (Coq_xI (Coq_xI (Coq_xI (Coq_xO
    Coq_xH)))))) :: ((Npos (Coq_xO (Coq_xO (Coq_xO (Coq_xO (Coq_xI
    Coq_xH)))))) :: []))))))))))))))))))))))))))))))))))))))))))))))))),
    ((Npos (Coq_xI (Coq_xI (Coq_xO (Coq_xO (Coq_xO (Coq_xI
    Coq_xH))))))) :: ((Npos (Coq_xO (Coq_xO (Coq_xI (Coq_xI (Coq_xO (Coq_xI
    Coq_xH))))))) :: ((Npos (Coq_xI (Coq_xO (Coq_xO (Coq_xO (Coq_xO (Coq_xI
    Coq_xH))))))) :: ((Npos (Coq_xI (Coq_xI (Coq_xO (Coq_xO (Coq_xI (Coq_xI
    Coq_xH))))))) :: ((Npos (Coq_xI (Coq_xI (Coq_xO (Coq_xO (Coq_xI (Coq_xI
    Coq_xH))))))) :: ((Npos (Coq_xI (Coq_xO (Coq_xI (Coq_xI (Coq_xO
    Coq_xH)))))) :: ((Npos (Coq_xO (Coq_xI (Coq_xI (Coq_xI (Coq_xO (Coq_xI
    Coq_xH))))))) :: ((Npos (Coq_xI (Coq_xO (Coq_xO (Coq_xO (Coq_xO (Coq_xI
    Coq_xH))))))) :: ((Npos (Coq_xI (Coq_xO (Coq_xI (Coq_xI (Coq_xO (Coq_xI
    Coq_xH))))))) :: ((Npos (Coq_xI (Coq_xO (Coq_xI (Coq_xO (Coq_xO (Coq_xI
    Coq_xH))))))) :: ((Npos (Coq_xI (Coq_xI (Coq_xO (Coq_xO (Coq_xI (Coq_xI
    Coq_xH))))))) :: [])))))))))))) :: ((((Npos (Coq_xI (Coq_xO (Coq_xI
    (Coq_xO (Coq_xI (Coq_xI Coq_xH))))))) :: ((Npos (Coq_xO (Coq_xI (Coq_xO
    (Coq_xO (Coq_xI (Coq_xI Coq_xH))))))) :: ((Npos (Coq_xO (Coq_xI (Coq_xI
    (Coq_xI (Coq_xO (Coq_xI Coq_xH))))))) :: ((Npos (Coq_xO (Coq_xI (Coq_xO
    (Coq_xI (Coq_xI Coq_xH)))))) :: ((Npos (Coq_xI (Coq_xI (Coq_xI (Coq_xI
    (Coq_xO (Coq_xI Coq_xH))))))) :: ((Npos (Coq_xI (Coq_xO (Coq_xO (Coq_xO
    (Coq_xO (Coq_xI Coq_xH))))))) :: ((Npos (Coq_xI (Coq_xI (Coq_xO (Coq_xO
    (Coq_xI (Coq_xI Coq_xH))))))) :: ((Npos (Coq_xI (Coq_xO (Coq_xO (Coq_xI
    (Coq_xO (Coq_xI Coq_xH))))))) :: ((Npos (Coq_xI (Coq_xI (Coq_xO (Coq_xO
    (Coq_xI (Coq_xI Coq_xH))))))) :: ((Npos (Coq_xO (Coq_xI (Coq_xO (Coq_xI
    (Coq_xI Coq_xH)))))) :: ((Npos (Coq_xO (Coq_xI (Coq_xI (Coq_xI (Coq_xO
    (Coq_xI Coq_xH))))))) :: ((Npos (Coq_xI (Coq_xO (Coq_xO (Coq_xO (Coq_xO
    (Coq_xI Coq_xH))))))) :: ((Npos (Coq_xI (Coq_xO (Coq_xI (Coq_xI (Coq_xO
    (Coq_xI Coq_xH))))))) :: ((Npos (Coq_xI (Coq_xO (Coq_xI (Coq_xO (Coq_xO
    (Coq_xI Coq_xH))))))) :: ((Npos (Coq_xI (Coq_xI (Coq_xO (Coq_xO (Coq_xI
    (Coq_xI Coq_xH))))))) :: ((Npos (Coq_xO (Coq_xI (Coq_xO (Coq_xI (Coq_xI
    Coq_xH)))))) :: ((Npos (Coq_xO (Coq_xO (Coq_xI (Coq_xO (Coq_xI (Coq_xI
    Coq_xH))))))) :: ((Npos (Coq_xI (Coq_xI (Coq_xO (Coq_xO (Coq_xO (Coq_xI
    Coq_xH))))))) :: ((Npos (Coq_xO (Coq_xI (Coq_xO (Coq_xI (Coq_xI
    Coq_xH)))))) :: ((Npos (Coq_xI (Coq_xI (Coq_xI (Coq_xI (Coq_xO (Coq_xI
    Coq_xH))))))) :: ((Npos (Coq_xO (Coq_xO (Coq_xO (Coq_xO (Coq_xI (Coq_xI
    Coq_xH))))))) :: ((Npos (Coq_xI (Coq_xO (Coq_xI (Coq_xO (Coq_xO (Coq_xI
    Coq_xH))))))) :: ((Npos (Coq_xO (Coq_xI (Coq_xI (Coq_xI (Coq_xO (Coq_xI
    Coq_xH))))))) :: ((Npos (Coq_xO (Coq_xO (Coq_xI (Coq_xO (Coq_xO (Coq_xI
    Coq_xH))))))) :: ((Npos (Coq_xI (Coq_xI (Coq_xI (Coq_xI (Coq_xO (Coq_xI
    Coq_xH))))))) :: ((Npos (Coq_xI (Coq_xI (Coq_xO (Coq_xO (Coq_xO (Coq_xI
    Coq_xH))))))) :: ((Npos (Coq_xI (Coq_xO (Coq_xI (Coq_xO (Coq_xI (Coq_xI
    Coq_xH))))))) :: ((Npos (Coq_xI (Coq_xO (Coq_xI (Coq_xI (Coq_xO (Coq_xI
    Coq_xH))))))) :: ((Npos (Coq_xI (Coq_xO (Coq_xI (Coq_xO (Coq_xO (Coq_xI
    Coq_xH))))))) :: ((Npos (Coq_xO (Coq_xI (Coq_xI (Coq_xI (Coq_xO (Coq_xI
    Coq_xH))))))) :: ((Npos (Coq_xO (Coq_xO (Coq_xI (Coq_xO (Coq_xI (Coq_xI
    Coq_xH))))))) :: ((Npos (Coq_xO (Coq_xI (Coq_xO (Coq_xI (Coq_xI
    Coq_xH)))))) :: ((Npos (Coq_xO (Coq_xO (Coq_xO (Coq_xI (Coq_xI (Coq_xI
    Coq_xH))))))) :: ((Npos (Coq_xI (Coq_xO (Coq_xI (Coq_xI (Coq_xO (Coq_xI
    Coq_xH))))))) :: ((Npos (Coq_xO (Coq_xO (Coq_xI (Coq_xI (Coq_xO (Coq_xI
    Coq_xH))))))) :: ((Npos (Coq_xO (Coq_xI (Coq_xI (Coq_xI (Coq_xO (Coq_xI
    Coq_xH))))))) :: ((Npos (Coq_xI (Coq_xI (Coq_xO (Coq_xO (Coq_xI (Coq_xI
    Coq_xH))))))) :: ((Npos (Coq_xO (Coq_xI (Coq_xO (Coq_xI (Coq_xI
    Coq_xH)))))) :: ((Npos (Coq_xO (Coq_xO (Coq_xI (Coq_xO (Coq_xO (Coq_xI
    Coq_xH))))))) :: ((Npos (Coq_xO (Coq_xI (Coq_xO (Coq_xO (Coq_xI (Coq_xI
    Coq_xH))))))) :: ((Npos (Coq_xI (Coq_xO (Coq_xO (Coq_xO (Coq_xO (Coq_xI
    Coq_xH))))))) :: ((Npos (Coq_xI (Coq_xI (Coq_xI (Coq_xO (Coq_xI (Coq_xI
    Coq_xH))))))) :: ((Npos (Coq_xI (Coq_xO (Coq_xO (Coq_xI (Coq_xO (Coq_xI
    Coq_xH))))))) :: ((Npos (Coq_xO (Coq_xI (Coq_xI (Coq_xI (Coq_xO (Coq_xI
    Coq_xH))))))) :: ((Npos (Coq_xI (Coq_xI (Coq_xI (Coq_xO (Coq_xO (Coq_xI
    Coq_xH))))))) :: ((Npos (Coq_xO (Coq_xI (Coq_xO (Coq_xI (Coq_xI
    Coq_xH)))))) :: ((Npos (Coq_xI (Coq_xO (Coq_xO (Coq_xO (Coq_xI
    Coq_xH)))))) :: ((Npos (Coq_xO (Coq_xI (Coq_xI (Coq_xI (Coq_xO
    Coq_xH)))))) :: ((Npos (Coq_xO (Coq_xO (Coq_xO (Coq_xO (Coq_xI
    Coq_xH)))))) :: []))))))))))))))))))))))))))))))))))))))))))))))))),
    ((Npos (Coq_xO (Coq_xI (Coq_xI (Coq_xO (Coq_xO (Coq_xI
    Coq_xH))))))) :: ((Npos (Coq_xI (Coq_xO (Coq_xO (Coq_xI (Coq_xO (Coq_xI
    Coq_xH))))))) :: ((Npos (Coq_xO (Coq_xO (Coq_xI (Coq_xI (Coq_xO (Coq_xI
    Coq_xH))))))) :: ((Npos (Coq_xO (Coq_xO (Coq_xI (Coq_xI (Coq_xO (Coq_xI
    Coq_xH))))))) :: ((Npos (Coq_xI (Coq_xO (Coq_xI (Coq_xI (Coq_xO
    Coq_xH)))))) :: ((Npos (Coq_xI (Coq_xI (Coq_xI (Coq_xO (Coq_xO (Coq_xI
    Coq_xH))))))) :: ((Npos (Coq_xO (Coq_xI (Coq_xO (Coq_xO (Coq_xI (Coq_xI
    Coq_xH))))))) :: ((Npos (Coq_xI (Coq_xO (Coq_xO (Coq_xO (Coq_xO (Coq_xI
    Coq_xH))))))) :: ((Npos (Coq_xO (Coq_xO (Coq_xI (Coq_xO (Coq_xO (Coq_xI
    Coq_xH))))))) :: ((Npos (Coq_xI (Coq_xO (Coq_xO (Coq_xI (Coq_xO (Coq_xI
    Coq_xH))))))) :: ((Npos (Coq_xI (Coq_xO (Coq_xI (Coq_xO (Coq_xO (Coq_xI
    Coq_xH))))))) :: ((Npos (Coq_xO (Coq_xI (Coq_xI (Coq_xI (Coq_xO (Coq_xI
    Coq_xH))))))) :: ((Npos (Coq_xO (Coq_xO (Coq_xI (Coq_xO (Coq_xI (Coq_xI
    Coq_xH))))))) :: ((Npos (Coq_xI (Coq_xO (Coq_xI (Coq_xI (Coq_xO
    Coq_xH)))))) :: ((Npos (Coq_xO (Coq_xI (Coq_xI (Coq_xI (Coq_xO (Coq_xI
    Coq_xH))))))) :: ((Npos (Coq_xI (Coq_xO (Coq_xO (Coq_xO (Coq_xO (Coq_xI
    Coq_xH))))))) :: ((Npos (Coq_xI (Coq_xO (Coq_xI (Coq_xI (Coq_xO (Coq_xI
    Coq_xH))))))) :: ((Npos (Coq_xI (Coq_xO (Coq_xI (Coq_xO (Coq_xO (Coq_xI
    Coq_xH))))))) :: []))))))))))))))))))) :: ((((Npos (Coq_xI (Coq_xO
    (Coq_xI (Coq_xO (Coq_xI (Coq_xI Coq_xH))))))) :: ((Npos (Coq_xO (Coq_xI
    (Coq_xO (Coq_xO (Coq_xI (Coq_xI Coq_xH))))))) :: ((Npos (Coq_xO (Coq_xI
    (Coq_xI (Coq_xI (Coq_xO (Coq_xI Coq_xH))))))) :: ((Npos (Coq_xO (Coq_xI
    (Coq_xO (Coq_xI (Coq_xI Coq_xH)))))) :: ((Npos (Coq_xI (Coq_xI (Coq_xI
    (Coq_xI (Coq_xO (Coq_xI Coq_xH))))))) :: ((Npos (Coq_xI (Coq_xO (Coq_xO
    (Coq_xO (Coq_xO (Coq_xI Coq_xH))))))) :: ((Npos (Coq_xI (Coq_xI (Coq_xO
    (Coq_xO (Coq_xI (Coq_xI Coq_xH))))))) :: ((Npos (Coq_xI (Coq_xO (Coq_xO
    (Coq_xI (Coq_xO (Coq_xI Coq_xH))))))) :: ((Npos (Coq_xI (Coq_xI (Coq_xO
    (Coq_xO (Coq_xI (Coq_xI Coq_xH))))))) :: ((Npos (Coq_xO (Coq_xI (Coq_xO
    (Coq_xI (Coq_xI Coq_xH)))))) :: ((Npos (Coq_xO (Coq_xI (Coq_xI (Coq_xI
    (Coq_xO (Coq_xI Coq_xH))))))) :: ((Npos (Coq_xI (Coq_xO (Coq_xO (Coq_xO
    (Coq_xO (Coq_xI Coq_xH))))))) :: ((Npos (Coq_xI (Coq_xO (Coq_xI (Coq_xI
    (Coq_xO (Coq_xI Coq_xH))))))) :: ((Npos (Coq_xI (Coq_xO (Coq_xI (Coq_xO
    (Coq_xO (Coq_xI Coq_xH))))))) :: ((Npos (Coq_xI (Coq_xI (Coq_xO (Coq_xO
    (Coq_xI (Coq_xI Coq_xH))))))) :: ((Npos (Coq_xO (Coq_xI (Coq_xO (Coq_xI
    (Coq_xI Coq_xH)))))) :: ((Npos (Coq_xO (Coq_xO (Coq_xI (Coq_xO (Coq_xI
    (Coq_xI Coq_xH))))))) :: ((Npos (Coq_xI (Coq_xI (Coq_xO (Coq_xO (Coq_xO
    (Coq_xI Coq_xH))))))) :: ((Npos (Coq_xO (Coq_xI (Coq_xO (Coq_xI (Coq_xI
    Coq_xH)))))) :: ((Npos (Coq_xI (Coq_xI (Coq_xI (Coq_xI (Coq_xO (Coq_xI
    Coq_xH))))))) :: ((Npos (Coq_xO (Coq_xO (Coq_xO (Coq_xO (Coq_xI (Coq_xI
    Coq_xH))))))) :: ((Npos (Coq_xI (Coq_xO (Coq_xI (Coq_xO (Coq_xO (Coq_xI
    Coq_xH))))))) :: ((Npos (Coq_xO (Coq_xI (Coq_xI (Coq_xI (Coq_xO (Coq_xI
    Coq_xH))))))) :: ((Npos (Coq_xO (Coq_xO (Coq_xI (Coq_xO (Coq_xO (Coq_xI
    Coq_xH))))))) :: ((Npos (Coq_xI (Coq_xI (Coq_xI (Coq_xI (Coq_xO (Coq_xI
    Coq_xH))))))) :: ((Npos (Coq_xI (Coq_xI (Coq_xO (Coq_xO (Coq_xO (Coq_xI
    Coq_xH))))))) :: ((Npos (Coq_xI (Coq_xO (Coq_xI (Coq_xO (Coq_xI (Coq_xI
    Coq_xH))))))) :: ((Npos (Coq_xI (Coq_xO (Coq_xI (Coq_xI (Coq_xO (Coq_xI
    Coq_xH))))))) :: ((Npos (Coq_xI (Coq_xO (Coq_xI (Coq_xO (Coq_xO (Coq_xI
    Coq_xH))))))) :: ((Npos (Coq_xO (Coq_xI (Coq_xI (Coq_xI (Coq_xO (Coq_xI
    Coq_xH))))))) :: ((Npos (Coq_xO (Coq_xO (Coq_xI (Coq_xO (Coq_xI (Coq_xI
    Coq_xH))))))) :: ((Npos (Coq_xO (Coq_xI (Coq_xO (Coq_xI (Coq_xI
    Coq_xH)))))) :: ((Npos (Coq_xO (Coq_xO (Coq_xO (Coq_xI (Coq_xI (Coq_xI
    Coq_xH))))))) :: ((Npos (Coq_xI (Coq_xO (Coq_xI (Coq_xI (Coq_xO (Coq_xI
    Coq_xH))))))) :: ((Npos (Coq_xO (Coq_xO (Coq_xI (Coq_xI (Coq_xO (Coq_xI
    Coq_xH))))))) :: ((Npos (Coq_xO (Coq_xI (Coq_xI (Coq_xI (Coq_xO (Coq_xI
    Coq_xH))))))) :: ((Npos (Coq_xI (Coq_xI (Coq_xO (Coq_xO (Coq_xI (Coq_xI
    Coq_xH))))))) :: ((Npos (Coq_xO (Coq_xI (Coq_xO (Coq_xI (Coq_xI
    Coq_xH)))))) :: ((Npos (Coq_xO (Coq_xO (Coq_xI (Coq_xO (Coq_xO (Coq_xI
    Coq_xH))))))) :: ((Npos (Coq_xO (Coq_xI (Coq_xO (Coq_xO (Coq_xI (Coq_xI
    Coq_xH))))))) :: ((Npos (Coq_xI (Coq_xO (Coq_xO (Coq_xO (Coq_xO (Coq_xI
    Coq_xH))))))) :: ((Npos (Coq_xI (Coq_xI (Coq_xI (Coq_xO (Coq_xI (Coq_xI
    Coq_xH))))))) :: ((Npos (Coq_xI (Coq_xO (Coq_xO (Coq_xI (Coq_xO (Coq_xI
    Coq_xH))))))) :: ((Npos (Coq_xO (Coq_xI (Coq_xI (Coq_xI (Coq_xO (Coq_xI
    Coq_xH))))))) :: ((Npos (Coq_xI (Coq_xI (Coq_xI (Coq_xO (Coq_xO (Coq_xI
    Coq_xH))))))) :: ((Npos (Coq_xO (Coq_xI (Coq_xO (Coq_xI (Coq_xI
    Coq_xH)))))) :: ((Npos (Coq_xI (Coq_xO (Coq_xO (Coq_xO (Coq_xI
    Coq_xH)))))) :: ((Npos (Coq_xO (Coq_xI (Coq_xI (Coq_xI (Coq_xO
    Coq_xH)))))) :: ((Npos (Coq_xO (Coq_xO (Coq_xO (Coq_xO (Coq_xI
    Coq_xH)))))) :: []))))))))))))))))))))))))))))))))))))))))))))))))),
    ((Npos (Coq_xO (Coq_xI (Coq_xI (Coq_xO (Coq_xO (Coq_xI
    Coq_xH))))))) :: ((Npos (Coq_xI (Coq_xO (Coq_xO (Coq_xI (Coq_xO (Coq_xI
    Coq_xH))))))) :: ((Npos (Coq_xO (Coq_xO (Coq_xI (Coq_xI (Coq_xO (Coq_xI
    Coq_xH))))))) :: ((Npos (Coq_xO (Coq_xO (Coq_xI (Coq_xI (Coq_xO (Coq_xI
    Coq_xH))))))) :: ((Npos (Coq_xI (Coq_xO (Coq_xI (Coq_xI (Coq_xO
    Coq_xH)))))) :: ((Npos (Coq_xO (Coq_xO (Coq_xO (Coq_xI (Coq_xO (Coq_xI
    Coq_xH))))))) :: ((Npos (Coq_xI (Coq_xO (Coq_xO (Coq_xO (Coq_xO (Coq_xI
    Coq_xH))))))) :: ((Npos (Coq_xO (Coq_xO (Coq_xI (Coq_xO (Coq_xI (Coq_xI
    Coq_xH))))))) :: ((Npos (Coq_xI (Coq_xI (Coq_xO (Coq_xO (Coq_xO (Coq_xI
    Coq_xH))))))) :: ((Npos (Coq_xO (Coq_xO (Coq_xO (Coq_xI (Coq_xO (Coq_xI
    Coq_xH))))))) :: ((Npos (Coq_xI (Coq_xO (Coq_xI (Coq_xI (Coq_xO
    Coq_xH)))))) :: ((Npos (Coq_xO (Coq_xI (Coq_xI (Coq_xI (Coq_xO (Coq_xI
    Coq_xH))))))) :: ((Npos (Coq_xI (Coq_xO (Coq_xO (Coq_xO (Coq_xO (Coq_xI
    Coq_xH))))))) :: ((Npos (Coq_xI (Coq_xO (Coq_xI (Coq_xI (Coq_xO (Coq_xI
    Coq_xH))))))) :: ((Npos (Coq_xI (Coq_xO (Coq_xI (Coq_xO (Coq_xO (Coq_xI
    Coq_xH))))))) :: [])))))))))))))))) :: ((((Npos (Coq_xI (Coq_xO (Coq_xI
    (Coq_xO (Coq_xI (Coq_xI Coq_xH))))))) :: ((Npos (Coq_xO (Coq_xI (Coq_xO
    (Coq_xO (Coq_xI (Coq_xI Coq_xH))))))) :: ((Npos (Coq_xO (Coq_xI (Coq_xI
    (Coq_xI (Coq_xO (Coq_xI Coq_xH))))))) :: ((Npos (Coq_xO (Coq_xI (Coq_xO
    (Coq_xI (Coq_xI Coq_xH)))))) :: ((Npos (Coq_xI (Coq_xI (Coq_xI (Coq_xI
    (Coq_xO (Coq_xI Coq_xH))))))) :: ((Npos (Coq_xI (Coq_xO (Coq_xO (Coq_xO
    (Coq_xO (Coq_xI Coq_xH))))))) :: ((Npos (Coq_xI (Coq_xI (Coq_xO (Coq_xO
    (Coq_xI (Coq_xI Coq_xH))))))) :: ((Npos (Coq_xI (Coq_xO (Coq_xO (Coq_xI
    (Coq_xO (Coq_xI Coq_xH))))))) :: ((Npos (Coq_xI (Coq_xI (Coq_xO (Coq_xO
    (Coq_xI (Coq_xI Coq_xH))))))) :: ((Npos (Coq_xO (Coq_xI (Coq_xO (Coq_xI
    (Coq_xI Coq_xH)))))) :: ((Npos (Coq_xO (Coq_xI (Coq_xI (Coq_xI (Coq_xO
    (Coq_xI Coq_xH))))))) :: ((Npos (Coq_xI (Coq_xO (Coq_xO (Coq_xO (Coq_xO
    (Coq_xI Coq_xH))))))) :: ((Npos (Coq_xI (Coq_xO (Coq_xI (Coq_xI (Coq_xO
    (Coq_xI Coq_xH))))))) :: ((Npos (Coq_xI (Coq_xO (Coq_xI (Coq_xO (Coq_xO
    (Coq_xI Coq_xH))))))) :: ((Npos (Coq_xI (Coq_xI (Coq_xO (Coq_xO (Coq_xI
    (Coq_xI Coq_xH))))))) :: ((Npos (Coq_xO (Coq_xI (Coq_xO (Coq_xI (Coq_xI
    Coq_xH)))))) :: ((Npos (Coq_xO (Coq_xO (Coq_xI (Coq_xO (Coq_xI (Coq_xI
    Coq_xH))))))) :: ((Npos (Coq_xI (Coq_xI (Coq_xO (Coq_xO (Coq_xO (Coq_xI
    Coq_xH))))))) :: ((Npos (Coq_xO (Coq_xI (Coq_xO (Coq_xI (Coq_xI
    Coq_xH)))))) :: ((Npos (Coq_xI (Coq_xI (Coq_xI (Coq_xI (Coq_xO (Coq_xI
    Coq_xH))))))) :: ((Npos (Coq_xO (Coq_xO (Coq_xO (Coq_xO (Coq_xI (Coq_xI
    Coq_xH))))))) :: ((Npos (Coq_xI (Coq_xO (Coq_xI (Coq_xO (Coq_xO (Coq_xI
    Coq_xH))))))) :: ((Npos (Coq_xO (Coq_xI (Coq_xI (Coq_xI (Coq_xO (Coq_xI
    Coq_xH))))))) :: ((Npos (Coq_xO (Coq_xO (Coq_xI (Coq_xO (Coq_xO (Coq_xI
    Coq_xH))))))) :: ((Npos (Coq_xI (Coq_xI (Coq_xI (Coq_xI (Coq_xO (Coq_xI
    Coq_xH))))))) :: ((Npos (Coq_xI (Coq_xI (Coq_xO (Coq_xO (Coq_xO (Coq_xI
    Coq_xH))))))) :: ((Npos (Coq_xI (Coq_xO (Coq_xI (Coq_xO (Coq_xI (Coq_xI
    Coq_xH))))))) :: ((Npos (Coq_xI (Coq_xO (Coq_xI (Coq_xI (Coq_xO (Coq_xI
    Coq_xH))))))) :: ((Npos (Coq_xI (Coq_xO (Coq_xI (Coq_xO (Coq_xO (Coq_xI
    Coq_xH))))))) :: ((Npos (Coq_xO (Coq_xI (Coq_xI (Coq_xI (Coq_xO (Coq_xI
    Coq_xH))))))) :: ((Npos (Coq_xO (Coq_xO (Coq_xI (Coq_xO (Coq_xI (Coq_xI
    Coq_xH))))))) :: ((Npos (Coq_xO (Coq_xI (Coq_xO (Coq_xI (Coq_xI
    Coq_xH)))))) :: ((Npos (Coq_xO (Coq_xO (Coq_xO (Coq_xI (Coq_xI (Coq_xI
    Coq_xH))))))) :: ((Npos (Coq_xI (Coq_xO (Coq_xI (Coq_xI (Coq_xO (Coq_xI
    Coq_xH))))))) :: ((Npos (Coq_xO (Coq_xO (Coq_xI (Coq_xI (Coq_xO (Coq_xI
    Coq_xH))))))) :: ((Npos (Coq_xO (Coq_xI (Coq_xI (Coq_xI (Coq_xO (Coq_xI
    Coq_xH))))))) :: ((Npos (Coq_xI (Coq_xI (Coq_xO (Coq_xO (Coq_xI (Coq_xI
    Coq_xH))))))) :: ((Npos (Coq_xO (Coq_xI (Coq_xO (Coq_xI (Coq_xI
    Coq_xH)))))) :: ((Npos (Coq_xO (Coq_xO (Coq_xI (Coq_xO (Coq_xO (Coq_xI
    Coq_xH))))))) :: ((Npos (Coq_xO (Coq_xI (Coq_xO (Coq_xO (Coq_xI (Coq_xI
    Coq_xH))))))) :: ((Npos (Coq_xI (Coq_xO (Coq_xO (Coq_xO (Coq_xO (Coq_xI
    Coq_xH))))))) :: ((Npos (Coq_xI (Coq_xI (Coq_xI (Coq_xO (Coq_xI (Coq_xI
    Coq_xH))))))) :: ((Npos (Coq_xI (Coq_xO (Coq_xO (Coq_xI (Coq_xO (Coq_xI
    Coq_xH))))))) :: ((Npos (Coq_xO (Coq_xI (Coq_xI (Coq_xI (Coq_xO (Coq_xI
    Coq_xH))))))) :: ((Npos (Coq_xI (Coq_xI (Coq_xI (Coq_xO (Coq_xO (Coq_xI
    Coq_xH))))))) :: ((Npos (Coq_xO (Coq_xI (Coq_xO (Coq_xI (Coq_xI
    Coq_xH)))))) :: ((Npos (Coq_xI (Coq_xO (Coq_xO (Coq_xO (Coq_xI
    Coq_xH)))))) :: ((Npos (Coq_xO (Coq_xI (Coq_xI (Coq_xI (Coq_xO
    Coq_xH)))))) :: ((Npos (Coq_xO (Coq_xO (Coq_xO (Coq_xO (Coq_xI
    Coq_xH)))))) :: []))))))))))))))))))))))))))))))))))))))))))))))))),
    ((Npos (Coq_xO (Coq_xI (Coq_xI (Coq_xO (Coq_xO (Coq_xI
    Coq_xH))))))) :: ((Npos (Coq_xI (Coq_xO (Coq_xO (Coq_xI (Coq_xO (Coq_xI
    Coq_xH))))))) :: ((Npos (Coq_xO (Coq_xO (Coq_xI (Coq_xI (Coq_xO (Coq_xI
    Coq_xH))))))) :: ((Npos (Coq_xO (Coq_xO (Coq_xI (Coq_xI (Coq_xO (Coq_xI
    Coq_xH))))))) :: ((Npos (Coq_xI (Coq_xO (Coq_xI (Coq_xI (Coq_xO
    Coq_xH)))))) :: ((Npos (Coq_xI (Coq_xO (Coq_xO (Coq_xI (Coq_xO (Coq_xI
    Coq_xH))))))) :: ((Npos (Coq_xI (Coq_xO (Coq_xI (Coq_xI (Coq_xO (Coq_xI
    Coq_xH))))))) :: ((Npos (Coq_xI (Coq_xO (Coq_xO (Coq_xO (Coq_xO (Coq_xI
    Coq_xH))))))) :: ((Npos (Coq_xI (Coq_xI (Coq_xI (Coq_xO (Coq_xO (Coq_xI
    Coq_xH))))))) :: ((Npos (Coq_xI (Coq_xO (Coq_xI (Coq_xO (Coq_xO (Coq_xI
    Coq_xH))))))) :: ((Npos (Coq_xI (Coq_xO (Coq_xI (Coq_xI (Coq_xO
    Coq_xH)))))) :: ((Npos (Coq_xO (Coq_xI (Coq_xI (Coq_xI (Coq_xO (Coq_xI
    Coq_xH))))))) :: ((Npos (Coq_xI (Coq_xO (Coq_xO (Coq_xO (Coq_xO (Coq_xI
    Coq_xH))))))) :: ((Npos (Coq_xI (Coq_xO (Coq_xI (Coq_xI (Coq_xO (Coq_xI
    Coq_xH))))))) :: ((Npos (Coq_xI (Coq_xO (Coq_xI (Coq_xO (Coq_xO (Coq_xI
    Coq_xH))))))) :: [])))))))))))))))) :: ((((Npos (Coq_xI (Coq_xO (Coq_xI
    (Coq_xO (Coq_xI (Coq_xI Coq_xH))))))) :: ((Npos (Coq_xO (Coq_xI (Coq_xO
    (Coq_xO (Coq_xI (Coq_xI Coq_xH))))))) :: ((Npos (Coq_xO (Coq_xI (Coq_xI
    (Coq_xI (Coq_xO (Coq_xI Coq_xH))))))) :: ((Npos (Coq_xO (Coq_xI (Coq_xO
    (Coq_xI (Coq_xI Coq_xH)))))) :: ((Npos (Coq_xI (Coq_xI (Coq_xI (Coq_xI
    (Coq_xO (Coq_xI Coq_xH))))))) :: ((Npos (Coq_xI (Coq_xO (Coq_xO (Coq_xO
    (Coq_xO (Coq_xI Coq_xH))))))) :: ((Npos (Coq_xI (Coq_xI (Coq_xO (Coq_xO
    (Coq_xI (Coq_xI Coq_xH))))))) :: ((Npos (Coq_xI (Coq_xO (Coq_xO (Coq_xI
    (Coq_xO (Coq_xI Coq_xH))))))) :: ((Npos (Coq_xI (Coq_xI (Coq_xO (Coq_xO
    (Coq_xI (Coq_xI Coq_xH))))))) :: ((Npos (Coq_xO (Coq_xI (Coq_xO (Coq_xI
    (Coq_xI Coq_xH)))))) :: ((Npos (Coq_xO (Coq_xI (Coq_xI (Coq_xI (Coq_xO
    (Coq_xI Coq_xH))))))) :: ((Npos (Coq_xI (Coq_xO (Coq_xO (Coq_xO (Coq_xO
    (Coq_xI Coq_xH))))))) :: ((Npos (Coq_xI (Coq_xO (Coq_xI (Coq_xI (Coq_xO
    (Coq_xI Coq_xH))))))) :: ((Npos (Coq_xI (Coq_xO (Coq_xI (Coq_xO (Coq_xO
    (Coq_xI Coq_xH))))))) :: ((Npos (Coq_xI (Coq_xI (Coq_xO (Coq_xO (Coq_xI
    (Coq_xI Coq_xH))))))) :: ((Npos (Coq_xO (Coq_xI (Coq_xO (Coq_xI (Coq_xI
    Coq_xH)))))) :: ((Npos (Coq_xO (Coq_xO (Coq_xI (Coq_xO (Coq_xI (Coq_xI
    Coq_xH))))))) :: ((Npos (Coq_xI (Coq_xI (Coq_xO (Coq_xO (Coq_xO (Coq_xI
    Coq_xH))))))) :: ((Npos (Coq_xO (Coq_xI (Coq_xO (Coq_xI (Coq_xI
    Coq_xH)))))) :: ((Npos (Coq_xI (Coq_xI (Coq_xI (Coq_xI (Coq_xO (Coq_xI
    Coq_xH))))))) :: ((Npos (Coq_xO (Coq_xO (Coq_xO (Coq_xO (Coq_xI (Coq_xI
    Coq_xH))))))) :: ((Npos (Coq_xI (Coq_xO (Coq_xI (Coq_xO (Coq_xO (Coq_xI
    Coq_xH))))))) :: ((Npos (Coq_xO (Coq_xI (Coq_xI (Coq_xI (Coq_xO (Coq_xI
    Coq_xH))))))) :: ((Npos (Coq_xO (Coq_xO (Coq_xI (Coq_xO (Coq_xO (Coq_xI
    Coq_xH))))))) :: ((Npos (Coq_xI (Coq_xI (Coq_xI (Coq_xI (Coq_xO (Coq_xI
    Coq_xH))))))) :: ((Npos (Coq_xI (Coq_xI (Coq_xO (Coq_xO (Coq_xO (Coq_xI
    Coq_xH))))))) :: ((Npos (Coq_xI (Coq_xO (Coq_xI (Coq_xO (Coq_xI (Coq_xI
    Coq_xH))))))) :: ((Npos (Coq_xI (Coq_xO (Coq_xI (Coq_xI (Coq_xO (Coq_xI
    Coq_xH))))))) :: ((Npos (Coq_xI (Coq_xO (Coq_xI (Coq_xO (Coq_xO (Coq_xI
    Coq_xH))))))) :: ((Npos (Coq_xO (Coq_xI (Coq_xI (Coq_xI (Coq_xO (Coq_xI
    Coq_xH))))))) :: ((Npos (Coq_xO (Coq_xO (Coq_xI (Coq_xO (Coq_xI (Coq_xI
    Coq_xH))))))) :: ((Npos (Coq_xO (Coq_xI (Coq_xO (Coq_xI (Coq_xI
    Coq_xH)))))) :: ((Npos (Coq_xO (Coq_xO (Coq_xO (Coq_xI (Coq_xI (Coq_xI
    Coq_xH))))))) :: ((Npos (Coq_xI (Coq_xO (Coq_xI (Coq_xI (Coq_xO (Coq_xI
    Coq_xH))))))) :: ((Npos (Coq_xO (Coq_xO (Coq_xI (Coq_xI (Coq_xO (Coq_xI
    Coq_xH))))))) :: ((Npos (Coq_xO (Coq_xI (Coq_xI (Coq_xI (Coq_xO (Coq_xI
    Coq_xH))))))) :: ((Npos (Coq_xI (Coq_xI (Coq_xO (Coq_xO (Coq_xI (Coq_xI
    Coq_xH))))))) :: ((Npos (Coq_xO (Coq_xI (Coq_xO (Coq_xI (Coq_xI
    Coq_xH)))))) :: ((Npos (Coq_xO (Coq_xO (Coq_xI (Coq_xO (Coq_xO (Coq_xI
    Coq_xH))))))) :: ((Npos (Coq_xO (Coq_xI (Coq_xO (Coq_xO (Coq_xI (Coq_xI
    Coq_xH))))))) :: ((Npos (Coq_xI (Coq_xO (Coq_xO (Coq_xO (Coq_xO (Coq_xI
    Coq_xH))))))) :: ((Npos (Coq_xI (Coq_xI (Coq_xI (Coq_xO (Coq_xI (Coq_xI
    Coq_xH))))))) :: ((Npos (Coq_xI (Coq_xO (Coq_xO (Coq_xI (Coq_xO (Coq_xI
    Coq_xH))))))) :: ((Npos (Coq_xO (Coq_xI (Coq_xI (Coq_xI (Coq_xO (Coq_xI
    Coq_xH))))))) :: ((Npos (Coq_xI (Coq_xI (Coq_xI (Coq_xO (Coq_xO (Coq_xI
    Coq_xH))))))) :: ((Npos (Coq_xO (Coq_xI (Coq_xO (Coq_xI (Coq_xI
    Coq_xH)))))) :: ((Npos (Coq_xI (Coq_xO (Coq_xO (Coq_xO (Coq_xI
    Coq_xH)))))) :: ((Npos (Coq_xO (Coq_xI (Coq_xI (Coq_xI (Coq_xO
    Coq_xH)))))) :: ((Npos (Coq_xO (Coq_xO (Coq_xO (Coq_xO (Coq_xI
    Coq_xH)))))) :: []))))))))))))))))))))))))))))))))))))))))))))))))),
    ((Npos (Coq_xI (Coq_xO (Coq_xI (Coq_xI (Coq_xO (Coq_xI
    Coq_xH))))))) :: ((Npos (Coq_xI (Coq_xO (Coq_xO (Coq_xO (Coq_xO (Coq_xI
    Coq_xH))))))) :: ((Npos (Coq_xO (Coq_xI (Coq_xO (Coq_xO (Coq_xI (Coq_xI
    Coq_xH))))))) :: ((Npos (Coq_xI (Coq_xI (Coq_xO (Coq_xI (Coq_xO (Coq_xI
    Coq_xH))))))) :: ((Npos (Coq_xI (Coq_xO (Coq_xI (Coq_xO (Coq_xO (Coq_xI
    Coq_xH))))))) :: ((Npos (Coq_xO (Coq_xI (Coq_xO (Coq_xO (Coq_xI (Coq_xI
    Coq_xH))))))) :: ((Npos (Coq_xI (Coq_xO (Coq_xI (Coq_xI (Coq_xO
    Coq_xH)))))) :: ((Npos (Coq_xI (Coq_xO (Coq_xI (Coq_xO (Coq_xO (Coq_xI
    Coq_xH))))))) :: ((Npos (Coq_xO (Coq_xI (Coq_xI (Coq_xI (Coq_xO (Coq_xI
    Coq_xH))))))) :: ((Npos (Coq_xO (Coq_xO (Coq_xI (Coq_xO (Coq_xO (Coq_xI
    Coq_xH))))))) :: []))))))))))) :: ((((Npos (Coq_xI (Coq_xO (Coq_xI
    (Coq_xO (Coq_xI (Coq_xI Coq_xH))))))) :: ((Npos (Coq_xO (Coq_xI (Coq_xO
    (Coq_xO (Coq_xI (Coq_xI Coq_xH))))))) :: ((Npos (Coq_xO (Coq_xI (Coq_xI
    (Coq_xI (Coq_xO (Coq_xI Coq_xH))))))) :: ((Npos (Coq_xO (Coq_xI (Coq_xO
    (Coq_xI (Coq_xI Coq_xH)))))) :: ((Npos (Coq_xI (Coq_xI (Coq_xI (Coq_xI
    (Coq_xO (Coq_xI Coq_xH))))))) :: ((Npos (Coq_xI (Coq_xO (Coq_xO (Coq_xO
    (Coq_xO (Coq_xI Coq_xH))))))) :: ((Npos (Coq_xI (Coq_xI (Coq_xO (Coq_xO
    (Coq_xI (Coq_xI Coq_xH))))))) :: ((Npos (Coq_xI (Coq_xO (Coq_xO (Coq_xI
    (Coq_xO (Coq_xI Coq_xH))))))) :: ((Npos (Coq_xI (Coq_xI (Coq_xO (Coq_xO
    (Coq_xI (Coq_xI Coq_xH))))))) :: ((Npos (Coq_xO (Coq_xI (Coq_xO (Coq_xI
    (Coq_xI Coq_xH)))))) :: ((Npos (Coq_xO (Coq_xI (Coq_xI (Coq_xI (Coq_xO
    (Coq_xI Coq_xH))))))) :: ((Npos (Coq_xI (Coq_xO (Coq_xO (Coq_xO (Coq_xO
    (Coq_xI Coq_xH))))))) :: ((Npos (Coq_xI (Coq_xO (Coq_xI (Coq_xI (Coq_xO
    (Coq_xI Coq_xH))))))) :: ((Npos (Coq_xI (Coq_xO (Coq_xI (Coq_xO (Coq_xO
    (Coq_xI Coq_xH))))))) :: ((Npos (Coq_xI (Coq_xI (Coq_xO (Coq_xO (Coq_xI
    (Coq_xI Coq_xH))))))) :: ((Npos (Coq_xO (Coq_xI (Coq_xO (Coq_xI (Coq_xI
    Coq_xH)))))) :: ((Npos (Coq_xO (Coq_xO (Coq_xI (Coq_xO (Coq_xI (Coq_xI
    Coq_xH))))))) :: ((Npos (Coq_xI (Coq_xI (Coq_xO (Coq_xO (Coq_xO (Coq_xI
    Coq_xH))))))) :: ((Npos (Coq_xO (Coq_xI (Coq_xO (Coq_xI (Coq_xI
    Coq_xH)))))) :: ((Npos (Coq_xI (Coq_xI (Coq_xI (Coq_xI (Coq_xO (Coq_xI
    Coq_xH))))))) :: ((Npos (Coq_xO (Coq_xO (Coq_xO (Coq_xO (Coq_xI (Coq_xI
    Coq_xH))))))) :: ((Npos (Coq_xI (Coq_xO (Coq_xI (Coq_xO (Coq_xO (Coq_xI
    Coq_xH))))))) :: ((Npos (Coq_xO (Coq_xI (Coq_xI (Coq_xI (Coq_xO (Coq_xI
    Coq_xH))))))) :: ((Npos (Coq_xO (Coq_xO (Coq_xI (Coq_xO (Coq_xO (Coq_xI
    Coq_xH))))))) :: ((Npos (Coq_xI (Coq_xI (Coq_xI (Coq_xI (Coq_xO (Coq_xI
    Coq_xH))))))) :: ((Npos (Coq_xI (Coq_xI (Coq_xO (Coq_xO (Coq_xO (Coq_xI
    Coq_xH))))))) :: ((Npos (Coq_xI (Coq_xO (Coq_xI (Coq_xO (Coq_xI (Coq_xI
    Coq_xH))))))) :: ((Npos (Coq_xI (Coq_xO (Coq_xI (Coq_xI (Coq_xO (Coq_xI
    Coq_xH))))))) :: ((Npos (Coq_xI (Coq_xO (Coq_xI (Coq_xO (Coq_xO (Coq_xI
    Coq_xH))))))) :: ((Npos (Coq_xO (Coq_xI (Coq_xI (Coq_xI (Coq_xO (Coq_xI
    Coq_xH))))))) :: ((Npos (Coq_xO (Coq_xO (Coq_xI (Coq_xO (Coq_xI (Coq_xI
    Coq_xH))))))) :: ((Npos (Coq_xO (Coq_xI (Coq_xO (Coq_xI (Coq_xI
    Coq_xH)))))) :: ((Npos (Coq_xO (Coq_xO (Coq_xO (Coq_xI (Coq_xI (Coq_xI
    Coq_xH))))))) :: ((Npos (Coq_xI (Coq_xO (Coq_xI (Coq_xI (Coq_xO (Coq_xI
    Coq_xH))))))) :: ((Npos (Coq_xO (Coq_xO (Coq_xI (Coq_xI (Coq_xO (Coq_xI
    Coq_xH))))))) :: ((Npos (Coq_xO (Coq_xI (Coq_xI (Coq_xI (Coq_xO (Coq_xI
    Coq_xH))))))) :: ((Npos (Coq_xI (Coq_xI (Coq_xO (Coq_xO (Coq_xI (Coq_xI
    Coq_xH))))))) :: ((Npos (Coq_xO (Coq_xI (Coq_xO (Coq_xI (Coq_xI
    Coq_xH)))))) :: ((Npos (Coq_xO (Coq_xO (Coq_xI (Coq_xO (Coq_xO (Coq_xI
    Coq_xH))))))) :: ((Npos (Coq_xO (Coq_xI (Coq_xO (Coq_xO (Coq_xI (Coq_xI
    Coq_xH))))))) :: ((Npos (Coq_xI (Coq_xO (Coq_xO (Coq_xO (Coq_xO (Coq_xI
    Coq_xH))))))) :: ((Npos (Coq_xI (Coq_xI (Coq_xI (Coq_xO (Coq_xI (Coq_xI
    Coq_xH))))))) :: ((Npos (Coq_xI (Coq_xO (Coq_xO (Coq_xI (Coq_xO (Coq_xI
    Coq_xH))))))) :: ((Npos (Coq_xO (Coq_xI (Coq_xI (Coq_xI (Coq_xO (Coq_xI
    Coq_xH))))))) :: ((Npos (Coq_xI (Coq_xI (Coq_xI (Coq_xO (Coq_xO (Coq_xI
    Coq_xH))))))) :: ((Npos (Coq_xO (Coq_xI (Coq_xO (Coq_xI (Coq_xI
    Coq_xH)))))) :: ((Npos (Coq_xI (Coq_xO (Coq_xO (Coq_xO (Coq_xI
    Coq_xH)))))) :: ((Npos (Coq_xO (Coq_xI (Coq_xI (Coq_xI (Coq_xO
    Coq_xH)))))) :: ((Npos (Coq_xO (Coq_xO (Coq_xO (Coq_xO (Coq_xI
    Coq_xH)))))) :: []))))))))))))))))))))))))))))))))))))))))))))))))),
    ((Npos (Coq_xI (Coq_xO (Coq_xI (Coq_xI (Coq_xO (Coq_xI
    Coq_xH))))))) :: ((Npos (Coq_xI (Coq_xO (Coq_xO (Coq_xO (Coq_xO (Coq_xI
    Coq_xH))))))) :: ((Npos (Coq_xO (Coq_xI (Coq_xO (Coq_xO (Coq_xI (Coq_xI
    Coq_xH))))))) :: ((Npos (Coq_xI (Coq_xI (Coq_xO (Coq_xI (Coq_xO (Coq_xI
    Coq_xH))))))) :: ((Npos (Coq_xI (Coq_xO (Coq_xI (Coq_xO (Coq_xO (Coq_xI
    Coq_xH))))))) :: ((Npos (Coq_xO (Coq_xI (Coq_xO (Coq_xO (Coq_xI (Coq_xI
    Coq_xH))))))) :: ((Npos (Coq_xI (Coq_xO (Coq_xI (Coq_xI (Coq_xO
    Coq_xH)))))) :: ((Npos (Coq_xI (Coq_xI (Coq_xO (Coq_xO (Coq_xI (Coq_xI
    Coq_xH))))))) :: ((Npos (Coq_xO (Coq_xO (Coq_xI (Coq_xO (Coq_xI (Coq_xI
    Coq_xH))))))) :: ((Npos (Coq_xI (Coq_xO (Coq_xO (Coq_xO (Coq_xO (Coq_xI
    Coq_xH))))))) :: ((Npos (Coq_xO (Coq_xI (Coq_xO (Coq_xO (Coq_xI (Coq_xI
    Coq_xH))))))) :: ((Npos (Coq_xO (Coq_xO (Coq_xI (Coq_xO (Coq_xI (Coq_xI
    Coq_xH))))))) :: []))))))))))))) :: ((((Npos (Coq_xI (Coq_xO (Coq_xI
    (Coq_xO (Coq_xI (Coq_xI Coq_xH))))))) :: ((Npos (Coq_xO (Coq_xI (Coq_xO
    (Coq_xO (Coq_xI (Coq_xI Coq_xH))))))) :: ((Npos (Coq_xO (Coq_xI (Coq_xI
    (Coq_xI (Coq_xO (Coq_xI Coq_xH))))))) :: ((Npos (Coq_xO (Coq_xI (Coq_xO
    (Coq_xI (Coq_xI Coq_xH)))))) :: ((Npos (Coq_xI (Coq_xI (Coq_xI (Coq_xI
    (Coq_xO (Coq_xI Coq_xH))))))) :: ((Npos (Coq_xI (Coq_xO (Coq_xO (Coq_xO
    (Coq_xO (Coq_xI Coq_xH))))))) :: ((Npos (Coq_xI (Coq_xI (Coq_xO (Coq_xO
    (Coq_xI (Coq_xI Coq_xH))))))) :: ((Npos (Coq_xI (Coq_xO (Coq_xO (Coq_xI
    (Coq_xO (Coq_xI Coq_xH))))))) :: ((Npos (Coq_xI (Coq_xI (Coq_xO (Coq_xO
    (Coq_xI (Coq_xI Coq_xH))))))) :: ((Npos (Coq_xO (Coq_xI (Coq_xO (Coq_xI
    (Coq_xI Coq_xH)))))) :: ((Npos (Coq_xO (Coq_xI (Coq_xI (Coq_xI (Coq_xO
    (Coq_xI Coq_xH))))))) :: ((Npos (Coq_xI (Coq_xO (Coq_xO (Coq_xO (Coq_xO
    (Coq_xI Coq_xH))))))) :: ((Npos (Coq_xI (Coq_xO (Coq_xI (Coq_xI (Coq_xO
    (Coq_xI Coq_xH))))))) :: ((Npos (Coq_xI (Coq_xO (Coq_xI (Coq_xO (Coq_xO
    (Coq_xI Coq_xH))))))) :: ((Npos (Coq_xI (Coq_xI (Coq_xO (Coq_xO (Coq_xI
    (Coq_xI Coq_xH))))))) :: ((Npos (Coq_xO (Coq_xI (Coq_xO (Coq_xI (Coq_xI
    Coq_xH)))))) :: ((Npos (Coq_xO (Coq_xO (Coq_xI (Coq_xO (Coq_xI (Coq_xI
    Coq_xH))))))) :: ((Npos (Coq_xI (Coq_xI (Coq_xO (Coq_xO (Coq_xO (Coq_xI
    Coq_xH))))))) :: ((Npos (Coq_xO (Coq_xI (Coq_xO (Coq_xI (Coq_xI
    Coq_xH)))))) :: ((Npos (Coq_xI (Coq_xI (Coq_xI (Coq_xI (Coq_xO (Coq_xI
    Coq_xH))))))) :: ((Npos (Coq_xO (Coq_xO (Coq_xO (Coq_xO (Coq_xI (Coq_xI
    Coq_xH))))))) :: ((Npos (Coq_xI (Coq_xO (Coq_xI (Coq_xO (Coq_xO (Coq_xI
    Coq_xH))))))) :: ((Npos (Coq_xO (Coq_xI (Coq_xI (Coq_xI (Coq_xO (Coq_xI
    Coq_xH))))))) :: ((Npos (Coq_xO (Coq_xO (Coq_xI (Coq_xO (Coq_xO (Coq_xI
    Coq_xH))))))) :: ((Npos (Coq_xI (Coq_xI (Coq_xI (Coq_xI (Coq_xO (Coq_xI
    Coq_xH))))))) :: ((Npos (Coq_xI (Coq_xI (Coq_xO (Coq_xO (Coq_xO (Coq_xI
    Coq_xH))))))) :: ((Npos (Coq_xI (Coq_xO (Coq_xI (Coq_xO (Coq_xI (Coq_xI
    Coq_xH))))))) :: ((Npos (Coq_xI (Coq_xO (Coq_xI (Coq_xI (Coq_xO (Coq_xI
    Coq_xH))))))) :: ((Npos (Coq_xI (Coq_xO (Coq_xI (Coq_xO (Coq_xO (Coq_xI
    Coq_xH))))))) :: ((Npos (Coq_xO (Coq_xI (Coq_xI (Coq_xI (Coq_xO (Coq_xI
    Coq_xH))))))) :: ((Npos (Coq_xO (Coq_xO (Coq_xI (Coq_xO (Coq_xI (Coq_xI
    Coq_xH))))))) :: ((Npos (Coq_xO (Coq_xI (Coq_xO (Coq_xI (Coq_xI
    Coq_xH)))))) :: ((Npos (Coq_xO (Coq_xO (Coq_xO (Coq_xI (Coq_xI (Coq_xI
    Coq_xH))))))) :: ((Npos (Coq_xI (Coq_xO (Coq_xI (Coq_xI (Coq_xO (Coq_xI
    Coq_xH))))))) :: ((Npos (Coq_xO (Coq_xO (Coq_xI (Coq_xI (Coq_xO (Coq_xI
    Coq_xH))))))) :: ((Npos (Coq_xO (Coq_xI (Coq_xI (Coq_xI (Coq_xO (Coq_xI
    Coq_xH))))))) :: ((Npos (Coq_xI (Coq_xI (Coq_xO (Coq_xO (Coq_xI (Coq_xI
    Coq_xH))))))) :: ((Npos (Coq_xO (Coq_xI (Coq_xO (Coq_xI (Coq_xI
    Coq_xH)))))) :: ((Npos (Coq_xO (Coq_xO (Coq_xI (Coq_xO (Coq_xO (Coq_xI
    Coq_xH))))))) :: ((Npos (Coq_xO (Coq_xI (Coq_xO (Coq_xO (Coq_xI (Coq_xI
    Coq_xH))))))) :: ((Npos (Coq_xI (Coq_xO (Coq_xO (Coq_xO (Coq_xO (Coq_xI
    Coq_xH))))))) :: ((Npos (Coq_xI (Coq_xI (Coq_xI (Coq_xO (Coq_xI (Coq_xI
    Coq_xH))))))) :: ((Npos (Coq_xI (Coq_xO (Coq_xO (Coq_xI (Coq_xO (Coq_xI
    Coq_xH))))))) :: ((Npos (Coq_xO (Coq_xI (Coq_xI (Coq_xI (Coq_xO (Coq_xI
    Coq_xH))))))) :: ((Npos (Coq_xI (Coq_xI (Coq_xI (Coq_xO (Coq_xO (Coq_xI
    Coq_xH))))))) :: ((Npos (Coq_xO (Coq_xI (Coq_xO (Coq_xI (Coq_xI
    Coq_xH)))))) :: ((Npos (Coq_xI (Coq_xO (Coq_xO (Coq_xO (Coq_xI
    Coq_xH)))))) :: ((Npos (Coq_xO (Coq_xI (Coq_xI (Coq_xI (Coq_xO
    Coq_xH)))))) :: ((Npos (Coq_xO (Coq_xO (Coq_xO (Coq_xO (Coq_xI
    Coq_xH)))))) :: []))))))))))))))))))))))))))))))))))))))))))))))))),
    ((Npos (Coq_xI (Coq_xO (Coq_xI (Coq_xI (Coq_xO (Coq_xI
    Coq_xH))))))) :: ((Npos (Coq_xI (Coq_xO (Coq_xO (Coq_xO (Coq_xO (Coq_xI
    Coq_xH))))))) :: ((Npos (Coq_xI (Coq_xI (Coq_xO (Coq_xO (Coq_xI (Coq_xI
    Coq_xH))))))) :: ((Npos (Coq_xO (Coq_xO (Coq_xI (Coq_xO (Coq_xI (Coq_xI
    Coq_xH))))))) :: ((Npos (Coq_xI (Coq_xO (Coq_xI (Coq_xO (Coq_xO (Coq_xI
    Coq_xH))))))) :: ((Npos (Coq_xO (Coq_xI (Coq_xO (Coq_xO (Coq_xI (Coq_xI
    Coq_xH))))))) :: ((Npos (Coq_xI (Coq_xO (Coq_xI (Coq_xI (Coq_xO
    Coq_xH)))))) :: ((Npos (Coq_xO (Coq_xO (Coq_xO (Coq_xO (Coq_xI (Coq_xI
    Coq_xH))))))) :: ((Npos (Coq_xI (Coq_xO (Coq_xO (Coq_xO (Coq_xO (Coq_xI
    Coq_xH))))))) :: ((Npos (Coq_xI (Coq_xI (Coq_xI (Coq_xO (Coq_xO (Coq_xI
    Coq_xH))))))) :: ((Npos (Coq_xI (Coq_xO (Coq_xI (Coq_xO (Coq_xO (Coq_xI
    Coq_xH))))))) :: ((Npos (Coq_xI (Coq_xO (Coq_xI (Coq_xI (Coq_xO
    Coq_xH)))))) :: ((Npos (Coq_xO (Coq_xI (Coq_xI (Coq_xI (Coq_xO (Coq_xI
    Coq_xH))))))) :: ((Npos (Coq_xI (Coq_xO (Coq_xO (Coq_xO (Coq_xO (Coq_xI
    Coq_xH))))))) :: ((Npos (Coq_xI (Coq_xO (Coq_xI (Coq_xI (Coq_xO (Coq_xI
    Coq_xH))))))) :: ((Npos (Coq_xI (Coq_xO (Coq_xI (Coq_xO (Coq_xO (Coq_xI
    Coq_xH))))))) :: []))))))))))))))))) :: ((((Npos (Coq_xI (Coq_xO (Coq_xI
    (Coq_xO (Coq_xI (Coq_xI Coq_xH))))))) :: ((Npos (Coq_xO (Coq_xI (Coq_xO
    (Coq_xO (Coq_xI (Coq_xI Coq_xH))))))) :: ((Npos (Coq_xO (Coq_xI (Coq_xI
    (Coq_xI (Coq_xO (Coq_xI Coq_xH))))))) :: ((Npos (Coq_xO (Coq_xI (Coq_xO
    (Coq_xI (Coq_xI Coq_xH)))))) :: ((Npos (Coq_xI (Coq_xI (Coq_xI (Coq_xI
    (Coq_xO (Coq_xI Coq_xH))))))) :: ((Npos (Coq_xI (Coq_xO (Coq_xO (Coq_xO
    (Coq_xO (Coq_xI Coq_xH))))))) :: ((Npos (Coq_xI (Coq_xI (Coq_xO (Coq_xO
    (Coq_xI (Coq_xI Coq_xH))))))) :: ((Npos (Coq_xI (Coq_xO (Coq_xO (Coq_xI
    (Coq_xO (Coq_xI Coq_xH))))))) :: ((Npos (Coq_xI (Coq_xI (Coq_xO (Coq_xO
    (Coq_xI (Coq_xI Coq_xH))))))) :: ((Npos (Coq_xO (Coq_xI (Coq_xO (Coq_xI
    (Coq_xI Coq_xH)))))) :: ((Npos (Coq_xO (Coq_xI (Coq_xI (Coq_xI (Coq_xO
    (Coq_xI Coq_xH))))))) :: ((Npos (Coq_xI (Coq_xO (Coq_xO (Coq_xO (Coq_xO
    (Coq_xI Coq_xH))))))) :: ((Npos (Coq_xI (Coq_xO (Coq_xI (Coq_xI (Coq_xO
    (Coq_xI Coq_xH))))))) :: ((Npos (Coq_xI (Coq_xO (Coq_xI (Coq_xO (Coq_xO
    (Coq_xI Coq_xH))))))) :: ((Npos (Coq_xI (Coq_xI (Coq_xO (Coq_xO (Coq_xI
    (Coq_xI Coq_xH))))))) :: ((Npos (Coq_xO (Coq_xI (Coq_xO (Coq_xI (Coq_xI
    Coq_xH)))))) :: ((Npos (Coq_xO (Coq_xO (Coq_xI (Coq_xO (Coq_xI (Coq_xI
    Coq_xH))))))) :: ((Npos (Coq_xI (Coq_xI (Coq_xO (Coq_xO (Coq_xO (Coq_xI
    Coq_xH))))))) :: ((Npos (Coq_xO (Coq_xI (Coq_xO (Coq_xI (Coq_xI
    Coq_xH)))))) :: ((Npos (Coq_xI (Coq_xI (Coq_xI (Coq_xI (Coq_xO (Coq_xI
    Coq_xH))))))) :: ((Npos (Coq_xO (Coq_xO (Coq_xO (Coq_xO (Coq_xI (Coq_xI
    Coq_xH))))))) :: ((Npos (Coq_xI (Coq_xO (Coq_xI (Coq_xO (Coq_xO (Coq_xI
    Coq_xH))))))) :: ((Npos (Coq_xO (Coq_xI (Coq_xI (Coq_xI (Coq_xO (Coq_xI
    Coq_xH))))))) :: ((Npos (Coq_xO (Coq_xO (Coq_xI (Coq_xO (Coq_xO (Coq_xI
    Coq_xH))))))) :: ((Npos (Coq_xI (Coq_xI (Coq_xI (Coq_xI (Coq_xO (Coq_xI
    Coq_xH))))))) :: ((Npos (Coq_xI (Coq_xI (Coq_xO (Coq_xO (Coq_xO (Coq_xI
    Coq_xH))))))) :: ((Npos (Coq_xI (Coq_xO (Coq_xI (Coq_xO (Coq_xI (Coq_xI
    Coq_xH))))))) :: ((Npos (Coq_xI (Coq_xO (Coq_xI (Coq_xI (Coq_xO (Coq_xI
    Coq_xH))))))) :: ((Npos (Coq_xI (Coq_xO (Coq_xI (Coq_xO (Coq_xO (Coq_xI
    Coq_xH))))))) :: ((Npos (Coq_xO (Coq_xI (Coq_xI (Coq_xI (Coq_xO (Coq_xI
    Coq_xH))))))) :: ((Npos (Coq_xO (Coq_xO (Coq_xI (Coq_xO (Coq_xI (Coq_xI
    Coq_xH))))))) :: ((Npos (Coq_xO (Coq_xI (Coq_xO (Coq_xI (Coq_xI
    Coq_xH)))))) :: ((Npos (Coq_xO (Coq_xO (Coq_xO (Coq_xI (Coq_xI (Coq_xI
    Coq_xH))))))) :: ((Npos (Coq_xI (Coq_xO (Coq_xI (Coq_xI (Coq_xO (Coq_xI
    Coq_xH))))))) :: ((Npos (Coq_xO (Coq_xO (Coq_xI (Coq_xI (Coq_xO (Coq_xI
    Coq_xH))))))) :: ((Npos (Coq_xO (Coq_xI (Coq_xI (Coq_xI (Coq_xO (Coq_xI
    Coq_xH))))))) :: ((Npos (Coq_xI (Coq_xI (Coq_xO (Coq_xO (Coq_xI (Coq_xI
    Coq_xH))))))) :: ((Npos (Coq_xO (Coq_xI (Coq_xO (Coq_xI (Coq_xI
    Coq_xH)))))) :: ((Npos (Coq_xO (Coq_xO (Coq_xI (Coq_xO (Coq_xO (Coq_xI
    Coq_xH))))))) :: ((Npos (Coq_xO (Coq_xI (Coq_xO (Coq_xO (Coq_xI (Coq_xI
    Coq_xH))))))) :: ((Npos (Coq_xI (Coq_xO (Coq_xO (Coq_xO (Coq_xO (Coq_xI
    Coq_xH))))))) :: ((Npos (Coq_xI (Coq_xI (Coq_xI (Coq_xO (Coq_xI (Coq_xI
    Coq_xH))))))) :: ((Npos (Coq_xI (Coq_xO (Coq_xO (Coq_xI (Coq_xO (Coq_xI
    Coq_xH))))))) :: ((Npos (Coq_xO (Coq_xI (Coq_xI (Coq_xI (Coq_xO (Coq_xI
    Coq_xH))))))) :: ((Npos (Coq_xI (Coq_xI (Coq_xI (Coq_xO (Coq_xO (Coq_xI
    Coq_xH))))))) :: ((Npos (Coq_xO (Coq_xI (Coq_xO (Coq_xI (Coq_xI
    Coq_xH)))))) :: ((Npos (Coq_xI (Coq_xO (Coq_xO (Coq_xO (Coq_xI
    Coq_xH)))))) :: ((Npos (Coq_xO (Coq_xI (Coq_xI (Coq_xI (Coq_xO
    Coq_xH)))))) :: ((Npos (Coq_xO (Coq_xO (Coq_xO (Coq_xO (Coq_xI
    Coq_xH)))))) :: []))))))))))))))))))))))))))))))))))))))))))))))))),
    ((Npos (Coq_xI (Coq_xI (Coq_xI (Coq_xI (Coq_xO (Coq_xI
    Coq_xH))))))) :: ((Npos (Coq_xO (Coq_xO (Coq_xO (Coq_xO (Coq_xI (Coq_xI
    Coq_xH))))))) :: ((Npos (Coq_xI (Coq_xO (Coq_xO (Coq_xO (Coq_xO (Coq_xI
    Coq_xH))))))) :: ((Npos (Coq_xI (Coq_xI (Coq_xO (Coq_xO (Coq_xO (Coq_xI
    Coq_xH))))))) :: ((Npos (Coq_xI (Coq_xO (Coq_xO (Coq_xI (Coq_xO (Coq_xI
    Coq_xH))))))) :: ((Npos (Coq_xO (Coq_xO (Coq_xI (Coq_xO (Coq_xI (Coq_xI
    Coq_xH))))))) :: ((Npos (Coq_xI (Coq_xO (Coq_xO (Coq_xI (Coq_xI (Coq_xI
    Coq_xH))))))) :: ((Npos (Coq_xI (Coq_xO (Coq_xI (Coq_xI (Coq_xO
    Coq_xH)))))) :: ((Npos (Coq_xO (Coq_xI (Coq_xI (Coq_xI (Coq_xO (Coq_xI
    Coq_xH))))))) :: ((Npos (Coq_xI (Coq_xO (Coq_xO (Coq_xO (Coq_xO (Coq_xI
    Coq_xH))))))) :: ((Npos (Coq_xI (Coq_xO (Coq_xI (Coq_xI (Coq_xO (Coq_xI
    Coq_xH))))))) :: ((Npos (Coq_xI (Coq_xO (Coq_xI (Coq_xO (Coq_xO (Coq_xI
    Coq_xH))))))) :: []))))))))))))) :: ((((Npos (Coq_xI (Coq_xO (Coq_xI
    (Coq_xO (Coq_xI (Coq_xI Coq_xH))))))) :: ((Npos (Coq_xO (Coq_xI (Coq_xO
    (Coq_xO (Coq_xI (Coq_xI Coq_xH))))))) :: ((Npos (Coq_xO (Coq_xI (Coq_xI
    (Coq_xI (Coq_xO (Coq_xI Coq_xH))))))) :: ((Npos (Coq_xO (Coq_xI (Coq_xO
    (Coq_xI (Coq_xI Coq_xH)))))) :: ((Npos (Coq_xI (Coq_xI (Coq_xI (Coq_xI
    (Coq_xO (Coq_xI Coq_xH))))))) :: ((Npos (Coq_xI (Coq_xO (Coq_xO (Coq_xO
    (Coq_xO (Coq_xI Coq_xH))))))) :: ((Npos (Coq_xI (Coq_xI (Coq_xO (Coq_xO
    (Coq_xI (Coq_xI Coq_xH))))))) :: ((Npos (Coq_xI (Coq_xO (Coq_xO (Coq_xI
    (Coq_xO (Coq_xI Coq_xH))))))) :: ((Npos (Coq_xI (Coq_xI (Coq_xO (Coq_xO
    (Coq_xI (Coq_xI Coq_xH))))))) :: ((Npos (Coq_xO (Coq_xI (Coq_xO (Coq_xI
    (Coq_xI Coq_xH)))))) :: ((Npos (Coq_xO (Coq_xI (Coq_xI (Coq_xI (Coq_xO
    (Coq_xI Coq_xH))))))) :: ((Npos (Coq_xI (Coq_xO (Coq_xO (Coq_xO (Coq_xO
    (Coq_xI Coq_xH))))))) :: ((Npos (Coq_xI (Coq_xO (Coq_xI (Coq_xI (Coq_xO
    (Coq_xI Coq_xH))))))) :: ((Npos (Coq_xI (Coq_xO (Coq_xI (Coq_xO (Coq_xO
    (Coq_xI Coq_xH))))))) :: ((Npos (Coq_xI (Coq_xI (Coq_xO (Coq_xO (Coq_xI
    (Coq_xI Coq_xH))))))) :: ((Npos (Coq_xO (Coq_xI (Coq_xO (Coq_xI (Coq_xI
    Coq_xH)))))) :: ((Npos (Coq_xO (Coq_xO (Coq_xI (Coq_xO (Coq_xI (Coq_xI
    Coq_xH))))))) :: ((Npos (Coq_xI (Coq_xI (Coq_xO (Coq_xO (Coq_xO (Coq_xI
    Coq_xH))))))) :: ((Npos (Coq_xO (Coq_xI (Coq_xO (Coq_xI (Coq_xI
    Coq_xH)))))) :: ((Npos (Coq_xI (Coq_xI (Coq_xI (Coq_xI (Coq_xO (Coq_xI
    Coq_xH))))))) :: ((Npos (Coq_xO (Coq_xO (Coq_xO (Coq_xO (Coq_xI (Coq_xI
    Coq_xH))))))) :: ((Npos (Coq_xI (Coq_xO (Coq_xI (Coq_xO (Coq_xO (Coq_xI
    Coq_xH))))))) :: ((Npos (Coq_xO (Coq_xI (Coq_xI (Coq_xI (Coq_xO (Coq_xI
    Coq_xH))))))) :: ((Npos (Coq_xO (Coq_xO (Coq_xI (Coq_xO (Coq_xO (Coq_xI
    Coq_xH))))))) :: ((Npos (Coq_xI (Coq_xI (Coq_xI (Coq_xI (Coq_xO (Coq_xI
    Coq_xH))))))) :: ((Npos (Coq_xI (Coq_xI (Coq_xO (Coq_xO (Coq_xO (Coq_xI
    Coq_xH))))))) :: ((Npos (Coq_xI (Coq_xO (Coq_xI (Coq_xO (Coq_xI (Coq_xI
    Coq_xH))))))) :: ((Npos (Coq_xI (Coq_xO (Coq_xI (Coq_xI (Coq_xO (Coq_xI
    Coq_xH))))))) :: ((Npos (Coq_xI (Coq_xO (Coq_xI (Coq_xO (Coq_xO (Coq_xI
    Coq_xH))))))) :: ((Npos (Coq_xO (Coq_xI (Coq_xI (Coq_xI (Coq_xO (Coq_xI
    Coq_xH))))))) :: ((Npos (Coq_xO (Coq_xO (Coq_xI (Coq_xO (Coq_xI (Coq_xI
    Coq_xH))))))) :: ((Npos (Coq_xO (Coq_xI (Coq_xO (Coq_xI (Coq_xI
    Coq_xH)))))) :: ((Npos (Coq_xO (Coq_xO (Coq_xO (Coq_xI (Coq_xI (Coq_xI
    Coq_xH))))))) :: ((Npos (Coq_xI (Coq_xO (Coq_xI (Coq_xI (Coq_xO (Coq_xI
    Coq_xH))))))) :: ((Npos (Coq_xO (Coq_xO (Coq_xI (Coq_xI (Coq_xO (Coq_xI
    Coq_xH))))))) :: ((Npos (Coq_xO (Coq_xI (Coq_xI (Coq_xI (Coq_xO (Coq_xI
    Coq_xH))))))) :: ((Npos (Coq_xI (Coq_xI (Coq_xO (Coq_xO (Coq_xI (Coq_xI
    Coq_xH))))))) :: ((Npos (Coq_xO (Coq_xI (Coq_xO (Coq_xI (Coq_xI
    Coq_xH)))))) :: ((Npos (Coq_xO (Coq_xO (Coq_xI (Coq_xO (Coq_xO (Coq_xI
    Coq_xH))))))) :: ((Npos (Coq_xO (Coq_xI (Coq_xO (Coq_xO (Coq_xI (Coq_xI
    Coq_xH))))))) :: ((Npos (Coq_xI (Coq_xO (Coq_xO (Coq_xO (Coq_xO (Coq_xI
    Coq_xH))))))) :: ((Npos (Coq_xI (Coq_xI (Coq_xI (Coq_xO (Coq_xI (Coq_xI
    Coq_xH))))))) :: ((Npos (Coq_xI (Coq_xO (Coq_xO (Coq_xI (Coq_xO (Coq_xI
    Coq_xH))))))) :: ((Npos (Coq_xO (Coq_xI (Coq_xI (Coq_xI (Coq_xO (Coq_xI
    Coq_xH))))))) :: ((Npos (Coq_xI (Coq_xI (Coq_xI (Coq_xO (Coq_xO (Coq_xI
    Coq_xH))))))) :: ((Npos (Coq_xO (Coq_xI (Coq_xO (Coq_xI (Coq_xI
    Coq_xH)))))) :: ((Npos (Coq_xI (Coq_xO (Coq_xO (Coq_xO (Coq_xI
    Coq_xH)))))) :: ((Npos (Coq_xO (Coq_xI (Coq_xI (Coq_xI (Coq_xO
    Coq_xH)))))) :: ((Npos (Coq_xO (Coq_xO (Coq_xO (Coq_xO (Coq_xI
    Coq_xH)))))) :: []))))))))))))))))))))))))))))))))))))))))))))))))),
    ((Npos (Coq_xI (Coq_xI (Coq_xO (Coq_xO (Coq_xI (Coq_xI
    Coq_xH))))))) :: ((Npos (Coq_xO (Coq_xO (Coq_xI (Coq_xO (Coq_xI (Coq_xI
    Coq_xH))))))) :: ((Npos (Coq_xO (Coq_xI (Coq_xO (Coq_xO (Coq_xI (Coq_xI
    Coq_xH))))))) :: ((Npos (Coq_xI (Coq_xI (Coq_xI (Coq_xI (Coq_xO (Coq_xI
    Coq_xH))))))) :: ((Npos (Coq_xI (Coq_xI (Coq_xO (Coq_xI (Coq_xO (Coq_xI
    Coq_xH))))))) :: ((Npos (Coq_xI (Coq_xO (Coq_xI (Coq_xO (Coq_xO (Coq_xI
    Coq_xH))))))) :: ((Npos (Coq_xI (Coq_xO (Coq_xI (Coq_xI (Coq_xO
    Coq_xH)))))) :: ((Npos (Coq_xO (Coq_xO (Coq_xI (Coq_xO (Coq_xO (Coq_xI
    Coq_xH))))))) :: ((Npos (Coq_xI (Coq_xO (Coq_xO (Coq_xO (Coq_xO (Coq_xI
    Coq_xH))))))) :: ((Npos (Coq_xI (Coq_xI (Coq_xO (Coq_xO (Coq_xI (Coq_xI
    Coq_xH))))))) :: ((Npos (Coq_xO (Coq_xO (Coq_xO (Coq_xI (Coq_xO (Coq_xI
    Coq_xH))))))) :: [])))))))))))) :: ((((Npos (Coq_xI (Coq_xO (Coq_xI
    (Coq_xO (Coq_xI (Coq_xI Coq_xH))))))) :: ((Npos (Coq_xO (Coq_xI (Coq_xO
    (Coq_xO (Coq_xI (Coq_xI Coq_xH))))))) :: ((Npos (Coq_xO (Coq_xI (Coq_xI
    (Coq_xI (Coq_xO (Coq_xI Coq_xH))))))) :: ((Npos (Coq_xO (Coq_xI (Coq_xO
    (Coq_xI (Coq_xI Coq_xH)))))) :: ((Npos (Coq_xI (Coq_xI (Coq_xI (Coq_xI
    (Coq_xO (Coq_xI Coq_xH))))))) :: ((Npos (Coq_xI (Coq_xO (Coq_xO (Coq_xO
    (Coq_xO (Coq_xI Coq_xH))))))) :: ((Npos (Coq_xI (Coq_xI (Coq_xO (Coq_xO
    (Coq_xI (Coq_xI Coq_xH))))))) :: ((Npos (Coq_xI (Coq_xO (Coq_xO (Coq_xI
    (Coq_xO (Coq_xI Coq_xH))))))) :: ((Npos (Coq_xI (Coq_xI (Coq_xO (Coq_xO
    (Coq_xI (Coq_xI Coq_xH))))))) :: ((Npos (Coq_xO (Coq_xI (Coq_xO (Coq_xI
    (Coq_xI Coq_xH)))))) :: ((Npos (Coq_xO (Coq_xI (Coq_xI (Coq_xI (Coq_xO
    (Coq_xI Coq_xH))))))) :: ((Npos (Coq_xI (Coq_xO (Coq_xO (Coq_xO (Coq_xO
    (Coq_xI Coq_xH))))))) :: ((Npos (Coq_xI (Coq_xO (Coq_xI (Coq_xI (Coq_xO
    (Coq_xI Coq_xH))))))) :: ((Npos (Coq_xI (Coq_xO (Coq_xI (Coq_xO (Coq_xO
    (Coq_xI Coq_xH))))))) :: ((Npos (Coq_xI (Coq_xI (Coq_xO (Coq_xO (Coq_xI
    (Coq_xI Coq_xH))))))) :: ((Npos (Coq_xO (Coq_xI (Coq_xO (Coq_xI (Coq_xI
    Coq_xH)))))) :: ((Npos (Coq_xO (Coq_xO (Coq_xI (Coq_xO (Coq_xI (Coq_xI
    Coq_xH))))))) :: ((Npos (Coq_xI (Coq_xI (Coq_xO (Coq_xO (Coq_xO (Coq_xI
    Coq_xH))))))) :: ((Npos (Coq_xO (Coq_xI (Coq_xO (Coq_xI (Coq_xI
    Coq_xH)))))) :: ((Npos (Coq_xI (Coq_xI (Coq_xI (Coq_xI (Coq_xO (Coq_xI
    Coq_xH))))))) :: ((Npos (Coq_xO (Coq_xO (Coq_xO (Coq_xO (Coq_xI (Coq_xI
    Coq_xH))))))) :: ((Npos (Coq_xI (Coq_xO (Coq_xI (Coq_xO (Coq_xO (Coq_xI
    Coq_xH))))))) :: ((Npos (Coq_xO (Coq_xI (Coq_xI (Coq_xI (Coq_xO (Coq_xI
    Coq_xH))))))) :: ((Npos (Coq_xO (Coq_xO (Coq_xI (Coq_xO (Coq_xO (Coq_xI
    Coq_xH))))))) :: ((Npos (Coq_xI (Coq_xI (Coq_xI (Coq_xI (Coq_xO (Coq_xI
    Coq_xH))))))) :: ((Npos (Coq_xI (Coq_xI (Coq_xO (Coq_xO (Coq_xO (Coq_xI
    Coq_xH))))))) :: ((Npos (Coq_xI (Coq_xO (Coq_xI (Coq_xO (Coq_xI (Coq_xI
    Coq_xH))))))) :: ((Npos (Coq_xI (Coq_xO (Coq_xI (Coq_xI (Coq_xO (Coq_xI
    Coq_xH))))))) :: ((Npos (Coq_xI (Coq_xO (Coq_xI (Coq_xO (Coq_xO (Coq_xI
    Coq_xH))))))) :: ((Npos (Coq_xO (Coq_xI (Coq_xI (Coq_xI (Coq_xO (Coq_xI
    Coq_xH))))))) :: ((Npos (Coq_xO (Coq_xO (Coq_xI (Coq_xO (Coq_xI (Coq_xI
    Coq_xH))))))) :: ((Npos (Coq_xO (Coq_xI (Coq_xO (Coq_xI (Coq_xI
    Coq_xH)))))) :: ((Npos (Coq_xO (Coq_xO (Coq_xO (Coq_xI (Coq_xI (Coq_xI
    Coq_xH))))))) :: ((Npos (Coq_xI (Coq_xO (Coq_xI (Coq_xI (Coq_xO (Coq_xI
    Coq_xH))))))) :: ((Npos (Coq_xO (Coq_xO (Coq_xI (Coq_xI (Coq_xO (Coq_xI
    Coq_xH))))))) :: ((Npos (Coq_xO (Coq_xI (Coq_xI (Coq_xI (Coq_xO (Coq_xI
    Coq_xH))))))) :: ((Npos (Coq_xI (Coq_xI (Coq_xO (Coq_xO (Coq_xI (Coq_xI
    Coq_xH))))))) :: ((Npos (Coq_xO (Coq_xI (Coq_xO (Coq_xI (Coq_xI
    Coq_xH)))))) :: ((Npos (Coq_xO (Coq_xO (Coq_xI (Coq_xO (Coq_xO (Coq_xI
    Coq_xH))))))) :: ((Npos (Coq_xO (Coq_xI (Coq_xO (Coq_xO (Coq_xI (Coq_xI
    Coq_xH))))))) :: ((Npos (Coq_xI (Coq_xO (Coq_xO (Coq_xO (Coq_xO (Coq_xI
    Coq_xH))))))) :: ((Npos (Coq_xI (Coq_xI (Coq_xI (Coq_xO (Coq_xI (Coq_xI
    Coq_xH))))))) :: ((Npos (Coq_xI (Coq_xO (Coq_xO (Coq_xI (Coq_xO (Coq_xI
    Coq_xH))))))) :: ((Npos (Coq_xO (Coq_xI (Coq_xI (Coq_xI (Coq_xO (Coq_xI
    Coq_xH))))))) :: ((Npos (Coq_xI (Coq_xI (Coq_xI (Coq_xO (Coq_xO (Coq_xI
    Coq_xH))))))) :: ((Npos (Coq_xO (Coq_xI (Coq_xO (Coq_xI (Coq_xI
    Coq_xH)))))) :: ((Npos (Coq_xI (Coq_xO (Coq_xO (Coq_xO (Coq_xI
    Coq_xH)))))) :: ((Npos (Coq_xO (Coq_xI (Coq_xI (Coq_xI (Coq_xO
    Coq_xH)))))) :: ((Npos (Coq_xO (Coq_xO (Coq_xO (Coq_xO (Coq_xI
    Coq_xH)))))) :: []))))))))))))))))))))))))))))))))))))))))))))))))),
    ((Npos (Coq_xI (Coq_xI (Coq_xO (Coq_xO (Coq_xI (Coq_xI
    Coq_xH))))))) :: ((Npos (Coq_xO (Coq_xO (Coq_xI (Coq_xO (Coq_xI (Coq_xI
    Coq_xH))))))) :: ((Npos (Coq_xO (Coq_xI (Coq_xO (Coq_xO (Coq_xI (Coq_xI
    Coq_xH))))))) :: ((Npos (Coq_xI (Coq_xI (Coq_xI (Coq_xI (Coq_xO (Coq_xI
    Coq_xH))))))) :: ((Npos (Coq_xI (Coq_xI (Coq_xO (Coq_xI (Coq_xO (Coq_xI
    Coq_xH))))))) :: ((Npos (Coq_xI (Coq_xO (Coq_xI (Coq_xO (Coq_xO (Coq_xI
    Coq_xH))))))) :: ((Npos (Coq_xI (Coq_xO (Coq_xI (Coq_xI (Coq_xO
    Coq_xH)))))) :: ((Npos (Coq_xO (Coq_xO (Coq_xI (Coq_xO (Coq_xO (Coq_xI
    Coq_xH))))))) :: ((Npos (Coq_xI (Coq_xO (Coq_xO (Coq_xO (Coq_xO (Coq_xI
    Coq_xH))))))) :: ((Npos (Coq_xI (Coq_xI (Coq_xO (Coq_xO (Coq_xI (Coq_xI
    Coq_xH))))))) :: ((Npos (Coq_xO (Coq_xO (Coq_xO (Coq_xI (Coq_xO (Coq_xI
    Coq_xH))))))) :: ((Npos (Coq_xI (Coq_xO (Coq_xI (Coq_xI (Coq_xO
    Coq_xH)))))) :: ((Npos (Coq_xO (Coq_xI (Coq_xI (Coq_xI (Coq_xO (Coq_xI
    Coq_xH))))))) :: ((Npos (Coq_xI (Coq_xO (Coq_xO (Coq_xO (Coq_xO (Coq_xI
    Coq_xH))))))) :: ((Npos (Coq_xI (Coq_xO (Coq_xI (Coq_xI (Coq_xO (Coq_xI
    Coq_xH))))))) :: ((Npos (Coq_xI (Coq_xO (Coq_xI (Coq_xO (Coq_xO (Coq_xI
    Coq_xH))))))) :: ((Npos (Coq_xI (Coq_xI (Coq_xO (Coq_xO (Coq_xI (Coq_xI
    Coq_xH))))))) :: [])))))))))))))))))) :: ((((Npos (Coq_xI (Coq_xO (Coq_xI
    (Coq_xO (Coq_xI (Coq_xI Coq_xH))))))) :: ((Npos (Coq_xO (Coq_xI (Coq_xO
    (Coq_xO (Coq_xI (Coq_xI Coq_xH))))))) :: ((Npos (Coq_xO (Coq_xI (Coq_xI
    (Coq_xI (Coq_xO (Coq_xI Coq_xH))))))) :: ((Npos (Coq_xO (Coq_xI (Coq_xO
    (Coq_xI (Coq_xI Coq_xH)))))) :: ((Npos (Coq_xI (Coq_xI (Coq_xI (Coq_xI
    (Coq_xO (Coq_xI Coq_xH))))))) :: ((Npos (Coq_xI (Coq_xO (Coq_xO (Coq_xO
    (Coq_xO (Coq_xI Coq_xH))))))) :: ((Npos (Coq_xI (Coq_xI (Coq_xO (Coq_xO
    (Coq_xI (Coq_xI Coq_xH))))))) :: ((Npos (Coq_xI (Coq_xO (Coq_xO (Coq_xI
    (Coq_xO (Coq_xI Coq_xH))))))) :: ((Npos (Coq_xI (Coq_xI (Coq_xO (Coq_xO
    (Coq_xI (Coq_xI Coq_xH))))))) :: ((Npos (Coq_xO (Coq_xI (Coq_xO (Coq_xI
    (Coq_xI Coq_xH)))))) :: ((Npos (Coq_xO (Coq_xI (Coq_xI (Coq_xI (Coq_xO
    (Coq_xI Coq_xH))))))) :: ((Npos (Coq_xI (Coq_xO (Coq_xO (Coq_xO (Coq_xO
    (Coq_xI Coq_xH))))))) :: ((Npos (Coq_xI (Coq_xO (Coq_xI (Coq_xI (Coq_xO
    (Coq_xI Coq_xH))))))) :: ((Npos (Coq_xI (Coq_xO (Coq_xI (Coq_xO (Coq_xO
    (Coq_xI Coq_xH))))))) :: ((Npos (Coq_xI (Coq_xI (Coq_xO (Coq_xO (Coq_xI
    (Coq_xI Coq_xH))))))) :: ((Npos (Coq_xO (Coq_xI (Coq_xO (Coq_xI (Coq_xI
    Coq_xH)))))) :: ((Npos (Coq_xO (Coq_xO (Coq_xI (Coq_xO (Coq_xI (Coq_xI
    Coq_xH))))))) :: ((Npos (Coq_xI (Coq_xI (Coq_xO (Coq_xO (Coq_xO (Coq_xI
    Coq_xH))))))) :: ((Npos (Coq_xO (Coq_xI (Coq_xO (Coq_xI (Coq_xI
    Coq_xH)))))) :: ((Npos (Coq_xI (Coq_xI (Coq_xI (Coq_xI (Coq_xO (Coq_xI
    Coq_xH))))))) :: ((Npos (Coq_xO (Coq_xO (Coq_xO (Coq_xO (Coq_xI (Coq_xI
    Coq_xH))))))) :: ((Npos (Coq_xI (Coq_xO (Coq_xI (Coq_xO (Coq_xO (Coq_xI
    Coq_xH))))))) :: ((Npos (Coq_xO (Coq_xI (Coq_xI (Coq_xI (Coq_xO (Coq_xI
    Coq_xH))))))) :: ((Npos (Coq_xO (Coq_xO (Coq_xI (Coq_xO (Coq_xO (Coq_xI
    Coq_xH))))))) :: ((Npos (Coq_xI (Coq_xI (Coq_xI (Coq_xI (Coq_xO (Coq_xI
    Coq_xH))))))) :: ((Npos (Coq_xI (Coq_xI (Coq_xO (Coq_xO (Coq_xO (Coq_xI
    Coq_xH))))))) :: ((Npos (Coq_xI (Coq_xO (Coq_xI (Coq_xO (Coq_xI (Coq_xI
    Coq_xH))))))) :: ((Npos (Coq_xI (Coq_xO (Coq_xI (Coq_xI (Coq_xO (Coq_xI
    Coq_xH))))))) :: ((Npos (Coq_xI (Coq_xO (Coq_xI (Coq_xO (Coq_xO (Coq_xI
    Coq_xH))))))) :: ((Npos (Coq_xO (Coq_xI (Coq_xI (Coq_xI (Coq_xO (Coq_xI
    Coq_xH))))))) :: ((Npos (Coq_xO (Coq_xO (Coq_xI (Coq_xO (Coq_xI (Coq_xI
    Coq_xH))))))) :: ((Npos (Coq_xO (Coq_xI (Coq_xO (Coq_xI (Coq_xI
    Coq_xH)))))) :: ((Npos (Coq_xO (Coq_xO (Coq_xO (Coq_xI (Coq_xI (Coq_xI
    Coq_xH))))))) :: ((Npos (Coq_xI (Coq_xO (Coq_xI (Coq_xI (Coq_xO (Coq_xI
    Coq_xH))))))) :: ((Npos (Coq_xO (Coq_xO (Coq_xI (Coq_xI (Coq_xO (Coq_xI
    Coq_xH))))))) :: ((Npos (Coq_xO (Coq_xI (Coq_xI (Coq_xI (Coq_xO (Coq_xI
    Coq_xH))))))) :: ((Npos (Coq_xI (Coq_xI (Coq_xO (Coq_xO (Coq_xI (Coq_xI
    Coq_xH))))))) :: ((Npos (Coq_xO (Coq_xI (Coq_xO (Coq_xI (Coq_xI
    Coq_xH)))))) :: ((Npos (Coq_xO (Coq_xO (Coq_xI (Coq_xO (Coq_xO (Coq_xI
    Coq_xH))))))) :: ((Npos (Coq_xO (Coq_xI (Coq_xO (Coq_xO (Coq_xI (Coq_xI
    Coq_xH))))))) :: ((Npos (Coq_xI (Coq_xO (Coq_xO (Coq_xO (Coq_xO (Coq_xI
    Coq_xH))))))) :: ((Npos (Coq_xI (Coq_xI (Coq_xI (Coq_xO (Coq_xI (Coq_xI
    Coq_xH))))))) :: ((Npos (Coq_xI (Coq_xO (Coq_xO (Coq_xI (Coq_xO (Coq_xI
    Coq_xH))))))) :: ((Npos (Coq_xO (Coq_xI (Coq_xI (Coq_xI (Coq_xO (Coq_xI
    Coq_xH))))))) :: ((Npos (Coq_xI (Coq_xI (Coq_xI (Coq_xO (Coq_xO (Coq_xI
    Coq_xH))))))) :: ((Npos (Coq_xO (Coq_xI (Coq_xO (Coq_xI (Coq_xI
    Coq_xH)))))) :: ((Npos (Coq_xI (Coq_xO (Coq_xO (Coq_xO (Coq_xI
    Coq_xH)))))) :: ((Npos (Coq_xO (Coq_xI (Coq_xI (Coq_xI (Coq_xO
    Coq_xH)))))) :: ((Npos (Coq_xO (Coq_xO (Coq_xO (Coq_xO (Coq_xI
    Coq_xH)))))) :: []))))))))))))))))))))))))))))))))))))))))))))))))),
    ((Npos (Coq_xI (Coq_xI (Coq_xO (Coq_xO (Coq_xI (Coq_xI
    Coq_xH))))))) :: ((Npos (Coq_xO (Coq_xO (Coq_xI (Coq_xO (Coq_xI (Coq_xI
    Coq_xH))))))) :: ((Npos (Coq_xI (Coq_xO (Coq_xO (Coq_xI (Coq_xI (Coq_xI
    Coq_xH))))))) :: ((Npos (Coq_xO (Coq_xO (Coq_xI (Coq_xI (Coq_xO (Coq_xI
    Coq_xH))))))) :: ((Npos (Coq_xI (Coq_xO (Coq_xI (Coq_xO (Coq_xO (Coq_xI
    Coq_xH))))))) :: ((Npos (Coq_xI (Coq_xO (Coq_xI (Coq_xI (Coq_xO
    Coq_xH)))))) :: ((Npos (Coq_xO (Coq_xI (Coq_xI (Coq_xI (Coq_xO (Coq_xI
    Coq_xH))))))) :: ((Npos (Coq_xI (Coq_xO (Coq_xO (Coq_xO (Coq_xO (Coq_xI
    Coq_xH))))))) :: ((Npos (Coq_xI (Coq_xO (Coq_xI (Coq_xI (Coq_xO (Coq_xI
    Coq_xH))))))) :: ((Npos (Coq_xI (Coq_xO (Coq_xI (Coq_xO (Coq_xO (Coq_xI
    Coq_xH))))))) :: []))))))))))) :: ((((Npos (Coq_xI (Coq_xO (Coq_xI
    (Coq_xO (Coq_xI (Coq_xI Coq_xH))))))) :: ((Npos (Coq_xO (Coq_xI (Coq_xO
    (Coq_xO (Coq_xI (Coq_xI Coq_xH))))))) :: ((Npos (Coq_xO (Coq_xI (Coq_xI
    (Coq_xI (Coq_xO (Coq_xI Coq_xH))))))) :: ((Npos (Coq_xO (Coq_xI (Coq_xO
    (Coq_xI (Coq_xI Coq_xH)))))) :: ((Npos (Coq_xI (Coq_xI (Coq_xI (Coq_xI
    (Coq_xO (Coq_xI Coq_xH))))))) :: ((Npos (Coq_xI (Coq_xO (Coq_xO (Coq_xO
    (Coq_xO (Coq_xI Coq_xH))))))) :: ((Npos (Coq_xI (Coq_xI (Coq_xO (Coq_xO
    (Coq_xI (Coq_xI Coq_xH))))))) :: ((Npos (Coq_xI (Coq_xO (Coq_xO (Coq_xI
    (Coq_xO (Coq_xI Coq_xH))))))) :: ((Npos (Coq_xI (Coq_xI (Coq_xO (Coq_xO
    (Coq_xI (Coq_xI Coq_xH))))))) :: ((Npos (Coq_xO (Coq_xI (Coq_xO (Coq_xI
    (Coq_xI Coq_xH)))))) :: ((Npos (Coq_xO (Coq_xI (Coq_xI (Coq_xI (Coq_xO
    (Coq_xI Coq_xH))))))) :: ((Npos (Coq_xI (Coq_xO (Coq_xO (Coq_xO (Coq_xO
    (Coq_xI Coq_xH))))))) :: ((Npos (Coq_xI (Coq_xO (Coq_xI (Coq_xI (Coq_xO
    (Coq_xI Coq_xH))))))) :: ((Npos (Coq_xI (Coq_xO (Coq_xI (Coq_xO (Coq_xO
    (Coq_xI Coq_xH))))))) :: ((Npos (Coq_xI (Coq_xI (Coq_xO (Coq_xO (Coq_xI
    (Coq_xI Coq_xH))))))) :: ((Npos (Coq_xO (Coq_xI (Coq_xO (Coq_xI (Coq_xI
    Coq_xH)))))) :: ((Npos (Coq_xO (Coq_xO (Coq_xI (Coq_xO (Coq_xI (Coq_xI
    Coq_xH))))))) :: ((Npos (Coq_xI (Coq_xI (Coq_xO (Coq_xO (Coq_xO (Coq_xI
    Coq_xH))))))) :: ((Npos (Coq_xO (Coq_xI (Coq_xO (Coq_xI (Coq_xI
    Coq_xH)))))) :: ((Npos (Coq_xI (Coq_xI (Coq_xI (Coq_xI (Coq_xO (Coq_xI
    Coq_xH))))))) :: ((Npos (Coq_xO (Coq_xO (Coq_xO (Coq_xO (Coq_xI (Coq_xI
    Coq_xH))))))) :: ((Npos (Coq_xI (Coq_xO (Coq_xI (Coq_xO (Coq_xO (Coq_xI
    Coq_xH))))))) :: ((Npos (Coq_xO (Coq_xI (Coq_xI (Coq_xI (Coq_xO (Coq_xI
    Coq_xH))))))) :: ((Npos (Coq_xO (Coq_xO (Coq_xI (Coq_xO (Coq_xO (Coq_xI
    Coq_xH))))))) :: ((Npos (Coq_xI (Coq_xI (Coq_xI (Coq_xI (Coq_xO (Coq_xI
    Coq_xH))))))) :: ((Npos (Coq_xI (Coq_xI (Coq_xO (Coq_xO (Coq_xO (Coq_xI
    Coq_xH))))))) :: ((Npos (Coq_xI (Coq_xO (Coq_xI (Coq_xO (Coq_xI (Coq_xI
    Coq_xH))))))) :: ((Npos (Coq_xI (Coq_xO (Coq_xI (Coq_xI (Coq_xO (Coq_xI
    Coq_xH))))))) :: ((Npos (Coq_xI (Coq_xO (Coq_xI (Coq_xO (Coq_xO (Coq_xI
    Coq_xH))))))) :: ((Npos (Coq_xO (Coq_xI (Coq_xI (Coq_xI (Coq_xO (Coq_xI
    Coq_xH))))))) :: ((Npos (Coq_xO (Coq_xO (Coq_xI (Coq_xO (Coq_xI (Coq_xI
    Coq_xH))))))) :: ((Npos (Coq_xO (Coq_xI (Coq_xO (Coq_xI (Coq_xI
    Coq_xH)))))) :: ((Npos (Coq_xO (Coq_xO (Coq_xO (Coq_xI (Coq_xI (Coq_xI
    Coq_xH))))))) :: ((Npos (Coq_xI (Coq_xO (Coq_xI (Coq_xI (Coq_xO (Coq_xI
    Coq_xH))))))) :: ((Npos (Coq_xO (Coq_xO (Coq_xI (Coq_xI (Coq_xO (Coq_xI
    Coq_xH))))))) :: ((Npos (Coq_xO (Coq_xI (Coq_xI (Coq_xI (Coq_xO (Coq_xI
    Coq_xH))))))) :: ((Npos (Coq_xI (Coq_xI (Coq_xO (Coq_xO (Coq_xI (Coq_xI
    Coq_xH))))))) :: ((Npos (Coq_xO (Coq_xI (Coq_xO (Coq_xI (Coq_xI
    Coq_xH)))))) :: ((Npos (Coq_xO (Coq_xO (Coq_xI (Coq_xO (Coq_xO (Coq_xI
    Coq_xH))))))) :: ((Npos (Coq_xO (Coq_xI (Coq_xO (Coq_xO (Coq_xI (Coq_xI
    Coq_xH))))))) :: ((Npos (Coq_xI (Coq_xO (Coq_xO (Coq_xO (Coq_xO (Coq_xI
    Coq_xH))))))) :: ((Npos (Coq_xI (Coq_xI (Coq_xI (Coq_xO (Coq_xI (Coq_xI
    Coq_xH))))))) :: ((Npos (Coq_xI (Coq_xO (Coq_xO (Coq_xI (Coq_xO (Coq_xI
    Coq_xH))))))) :: ((Npos (Coq_xO (Coq_xI (Coq_xI (Coq_xI (Coq_xO (Coq_xI
    Coq_xH))))))) :: ((Npos (Coq_xI (Coq_xI (Coq_xI (Coq_xO (Coq_xO (Coq_xI
    Coq_xH))))))) :: ((Npos (Coq_xO (Coq_xI (Coq_xO (Coq_xI (Coq_xI
    Coq_xH)))))) :: ((Npos (Coq_xI (Coq_xO (Coq_xO (Coq_xO (Coq_xI
    Coq_xH)))))) :: ((Npos (Coq_xO (Coq_xI (Coq_xI (Coq_xI (Coq_xO
    Coq_xH)))))) :: ((Npos (Coq_xO (Coq_xO (Coq_xO (Coq_xO (Coq_xI
    Coq_xH)))))) :: []))))))))))))))))))))))))))))))))))))))))))))))))),
    ((Npos (Coq_xO (Coq_xO (Coq_xI (Coq_xO (Coq_xI (Coq_xI
    Coq_xH))))))) :: ((Npos (Coq_xI (Coq_xO (Coq_xI (Coq_xO (Coq_xO (Coq_xI
    Coq_xH))))))) :: ((Npos (Coq_xO (Coq_xO (Coq_xO (Coq_xI (Coq_xI (Coq_xI
    Coq_xH))))))) :: ((Npos (Coq_xO (Coq_xO (Coq_xI (Coq_xO (Coq_xI (Coq_xI
    Coq_xH))))))) :: ((Npos (Coq_xI (Coq_xO (Coq_xI (Coq_xI (Coq_xO
    Coq_xH)))))) :: ((Npos (Coq_xI (Coq_xI (Coq_xO (Coq_xO (Coq_xI (Coq_xI
    Coq_xH))))))) :: ((Npos (Coq_xO (Coq_xO (Coq_xI (Coq_xO (Coq_xI (Coq_xI
    Coq_xH))))))) :: ((Npos (Coq_xI (Coq_xO (Coq_xO (Coq_xI (Coq_xI (Coq_xI
    Coq_xH))))))) :: ((Npos (Coq_xO (Coq_xO (Coq_xI (Coq_xI (Coq_xO (Coq_xI
    Coq_xH))))))) :: ((Npos (Coq_xI (Coq_xO (Coq_xI (Coq_xO (Coq_xO (Coq_xI
    Coq_xH))))))) :: ((Npos (Coq_xI (Coq_xO (Coq_xI (Coq_xI (Coq_xO
    Coq_xH)))))) :: ((Npos (Coq_xO (Coq_xI (Coq_xI (Coq_xI (Coq_xO (Coq_xI
    Coq_xH))))))) :: ((Npos (Coq_xI (Coq_xO (Coq_xO (Coq_xO (Coq_xO (Coq_xI
    Coq_xH))))))) :: ((Npos (Coq_xI (Coq_xO (Coq_xI (Coq_xI (Coq_xO (Coq_xI
    Coq_xH))))))) :: ((Npos (Coq_xI (Coq_xO (Coq_xI (Coq_xO (Coq_xO (Coq_xI
    Coq_xH))))))) :: [])))))))))))))))) :: ((((Npos (Coq_xI (Coq_xO (Coq_xI
    (Coq_xO (Coq_xI (Coq_xI Coq_xH))))))) :: ((Npos (Coq_xO (Coq_xI (Coq_xO
    (Coq_xO (Coq_xI (Coq_xI Coq_xH))))))) :: ((Npos (Coq_xO (Coq_xI (Coq_xI
    (Coq_xI (Coq_xO (Coq_xI Coq_xH))))))) :: ((Npos (Coq_xO (Coq_xI (Coq_xO
    (Coq_xI (Coq_xI Coq_xH)))))) :: ((Npos (Coq_xI (Coq_xI (Coq_xI (Coq_xI
    (Coq_xO (Coq_xI Coq_xH))))))) :: ((Npos (Coq_xI (Coq_xO (Coq_xO (Coq_xO
    (Coq_xO (Coq_xI Coq_xH))))))) :: ((Npos (Coq_xI (Coq_xI (Coq_xO (Coq_xO
    (Coq_xI (Coq_xI Coq_xH))))))) :: ((Npos (Coq_xI (Coq_xO (Coq_xO (Coq_xI
    (Coq_xO (Coq_xI Coq_xH))))))) :: ((Npos (Coq_xI (Coq_xI (Coq_xO (Coq_xO
    (Coq_xI (Coq_xI Coq_xH))))))) :: ((Npos (Coq_xO (Coq_xI (Coq_xO (Coq_xI
    (Coq_xI Coq_xH)))))) :: ((Npos (Coq_xO (Coq_xI (Coq_xI (Coq_xI (Coq_xO
    (Coq_xI Coq_xH))))))) :: ((Npos (Coq_xI (Coq_xO (Coq_xO (Coq_xO (Coq_xO
    (Coq_xI Coq_xH))))))) :: ((Npos (Coq_xI (Coq_xO (Coq_xI (Coq_xI (Coq_xO
    (Coq_xI Coq_xH))))))) :: ((Npos (Coq_xI (Coq_xO (Coq_xI (Coq_xO (Coq_xO
    (Coq_xI Coq_xH))))))) :: ((Npos (Coq_xI (Coq_xI (Coq_xO (Coq_xO (Coq_xI
    (Coq_xI Coq_xH))))))) :: ((Npos (Coq_xO (Coq_xI (Coq_xO (Coq_xI (Coq_xI
    Coq_xH)))))) :: ((Npos (Coq_xO (Coq_xO (Coq_xI (Coq_xO (Coq_xI (Coq_xI
    Coq_xH))))))) :: ((Npos (Coq_xI (Coq_xI (Coq_xO (Coq_xO (Coq_xO (Coq_xI
    Coq_xH))))))) :: ((Npos (Coq_xO (Coq_xI (Coq_xO (Coq_xI (Coq_xI
    Coq_xH)))))) :: ((Npos (Coq_xI (Coq_xI (Coq_xI (Coq_xI (Coq_xO (Coq_xI
    Coq_xH))))))) :: ((Npos (Coq_xO (Coq_xO (Coq_xO (Coq_xO (Coq_xI (Coq_xI
    Coq_xH))))))) :: ((Npos (Coq_xI (Coq_xO (Coq_xI (Coq_xO (Coq_xO (Coq_xI
    Coq_xH))))))) :: ((Npos (Coq_xO (Coq_xI (Coq_xI (Coq_xI (Coq_xO (Coq_xI
    Coq_xH))))))) :: ((Npos (Coq_xO (Coq_xO (Coq_xI (Coq_xO (Coq_xO (Coq_xI
    Coq_xH))))))) :: ((Npos (Coq_xI (Coq_xI (Coq_xI (Coq_xI (Coq_xO (Coq_xI
    Coq_xH))))))) :: ((Npos (Coq_xI (Coq_xI (Coq_xO (Coq_xO (Coq_xO (Coq_xI
    Coq_xH))))))) :: ((Npos (Coq_xI (Coq_xO (Coq_xI (Coq_xO (Coq_xI (Coq_xI
    Coq_xH))))))) :: ((Npos (Coq_xI (Coq_xO (Coq_xI (Coq_xI (Coq_xO (Coq_xI
    Coq_xH))))))) :: ((Npos (Coq_xI (Coq_xO (Coq_xI (Coq_xO (Coq_xO (Coq_xI
    Coq_xH))))))) :: ((Npos (Coq_xO (Coq_xI (Coq_xI (Coq_xI (Coq_xO (Coq_xI
    Coq_xH))))))) :: ((Npos (Coq_xO (Coq_xO (Coq_xI (Coq_xO (Coq_xI (Coq_xI
    Coq_xH))))))) :: ((Npos (Coq_xO (Coq_xI (Coq_xO (Coq_xI (Coq_xI
    Coq_xH)))))) :: ((Npos (Coq_xO (Coq_xO (Coq_xO (Coq_xI (Coq_xI (Coq_xI
    Coq_xH))))))) :: ((Npos (Coq_xI (Coq_xO (Coq_xI (Coq_xI (Coq_xO (Coq_xI
    Coq_xH))))))) :: ((Npos (Coq_xO (Coq_xO (Coq_xI (Coq_xI (Coq_xO (Coq_xI
    Coq_xH))))))) :: ((Npos (Coq_xO (Coq_xI (Coq_xI (Coq_xI (Coq_xO (Coq_xI
    Coq_xH))))))) :: ((Npos (Coq_xI (Coq_xI (Coq_xO (Coq_xO (Coq_xI (Coq_xI
    Coq_xH))))))) :: ((Npos (Coq_xO (Coq_xI (Coq_xO (Coq_xI (Coq_xI
    Coq_xH)))))) :: ((Npos (Coq_xO (Coq_xI (Coq_xI (Coq_xO (Coq_xO (Coq_xI
    Coq_xH))))))) :: ((Npos (Coq_xI (Coq_xI (Coq_xI (Coq_xI (Coq_xO (Coq_xI
    Coq_xH))))))) :: ((Npos (Coq_xO (Coq_xI (Coq_xO (Coq_xO (Coq_xI (Coq_xI
    Coq_xH))))))) :: ((Npos (Coq_xI (Coq_xO (Coq_xI (Coq_xI (Coq_xO (Coq_xI
    Coq_xH))))))) :: ((Npos (Coq_xO (Coq_xI (Coq_xO (Coq_xI (Coq_xI
    Coq_xH)))))) :: ((Npos (Coq_xI (Coq_xO (Coq_xO (Coq_xO (Coq_xI
    Coq_xH)))))) :: ((Npos (Coq_xO (Coq_xI (Coq_xI (Coq_xI (Coq_xO
    Coq_xH)))))) :: ((Npos (Coq_xO (Coq_xO (Coq_xO (Coq_xO (Coq_xI
    Coq_xH)))))) :: [])))))))))))))))))))))))))))))))))))))))))))))), ((Npos
    (Coq_xO (Coq_xO (Coq_xI (Coq_xO (Coq_xI (Coq_xI Coq_xH))))))) :: ((Npos
    (Coq_xI (Coq_xO (Coq_xI (Coq_xO (Coq_xO (Coq_xI Coq_xH))))))) :: ((Npos
    (Coq_xO (Coq_xO (Coq_xO (Coq_xI (Coq_xI (Coq_xI Coq_xH))))))) :: ((Npos
    (Coq_xO (Coq_xO (Coq_xI (Coq_xO (Coq_xI (Coq_xI Coq_xH))))))) :: ((Npos
    (Coq_xI (Coq_xO (Coq_xI (Coq_xI (Coq_xO Coq_xH)))))) :: ((Npos (Coq_xI
    (Coq_xI (Coq_xO (Coq_xO (Coq_xI (Coq_xI Coq_xH))))))) :: ((Npos (Coq_xO
    (Coq_xO (Coq_xI (Coq_xO (Coq_xI (Coq_xI Coq_xH))))))) :: ((Npos (Coq_xI
    (Coq_xO (Coq_xO (Coq_xI (Coq_xI (Coq_xI Coq_xH))))))) :: ((Npos (Coq_xO
    (Coq_xO (Coq_xI (Coq_xI (Coq_xO (Coq_xI Coq_xH))))))) :: ((Npos (Coq_xI
    (Coq_xO (Coq_xI (Coq_xO (Coq_xO (Coq_xI Coq_xH))))))) :: ((Npos (Coq_xI
    (Coq_xO (Coq_xI (Coq_xI (Coq_xO Coq_xH)))))) :: ((Npos (Coq_xO (Coq_xI
    (Coq_xI (Coq_xI (Coq_xO (Coq_xI Coq_xH))))))) :: ((Npos (Coq_xI (Coq_xO
    (Coq_xO (Coq_xO (Coq_xO (Coq_xI Coq_xH))))))) :: ((Npos (Coq_xI (Coq_xO
    (Coq_xI (Coq_xI (Coq_xO (Coq_xI Coq_xH))))))) :: ((Npos (Coq_xI (Coq_xO
    (Coq_xI (Coq_xO (Coq_xO (Coq_xI
    Coq_xH))))))) :: [])))))))))))))))) :: ((((Npos (Coq_xI (Coq_xO (Coq_xI
    (Coq_xO (Coq_xI (Coq_xI Coq_xH))))))) :: ((Npos (Coq_xO (Coq_xI (Coq_xO
    (Coq_xO (Coq_xI (Coq_xI Coq_xH))))))) :: ((Npos (Coq_xO (Coq_xI (Coq_xI
    (Coq_xI (Coq_xO (Coq_xI Coq_xH))))))) :: ((Npos (Coq_xO (Coq_xI (Coq_xO
    (Coq_xI (Coq_xI Coq_xH)))))) :: ((Npos (Coq_xI (Coq_xI (Coq_xI (Coq_xI
    (Coq_xO (Coq_xI Coq_xH))))))) :: ((Npos (Coq_xI (Coq_xO (Coq_xO (Coq_xO
    (Coq_xO (Coq_xI Coq_xH))))))) :: ((Npos (Coq_xI (Coq_xI (Coq_xO (Coq_xO
    (Coq_xI (Coq_xI Coq_xH))))))) :: ((Npos (Coq_xI (Coq_xO (Coq_xO (Coq_xI
    (Coq_xO (Coq_xI Coq_xH))))))) :: ((Npos (Coq_xI (Coq_xI (Coq_xO (Coq_xO
    (Coq_xI (Coq_xI Coq_xH))))))) :: ((Npos (Coq_xO (Coq_xI (Coq_xO (Coq_xI
    (Coq_xI Coq_xH)))))) :: ((Npos (Coq_xO (Coq_xI (Coq_xI (Coq_xI (Coq_xO
    (Coq_xI Coq_xH))))))) :: ((Npos (Coq_xI (Coq_xO (Coq_xO (Coq_xO (Coq_xO
    (Coq_xI Coq_xH))))))) :: ((Npos (Coq_xI (Coq_xO (Coq_xI (Coq_xI (Coq_xO
    (Coq_xI Coq_xH))))))) :: ((Npos (Coq_xI (Coq_xO (Coq_xI (Coq_xO (Coq_xO
    (Coq_xI Coq_xH))))))) :: ((Npos (Coq_xI (Coq_xI (Coq_xO (Coq_xO (Coq_xI
    (Coq_xI Coq_xH))))))) :: ((Npos (Coq_xO (Coq_xI (Coq_xO (Coq_xI (Coq_xI
    Coq_xH)))))) :: ((Npos (Coq_xO (Coq_xO (Coq_xI (Coq_xO (Coq_xI (Coq_xI
    Coq_xH))))))) :: ((Npos (Coq_xI (Coq_xI (Coq_xO (Coq_xO (Coq_xO (Coq_xI
    Coq_xH))))))) :: ((Npos (Coq_xO (Coq_xI (Coq_xO (Coq_xI (Coq_xI
    Coq_xH)))))) :: ((Npos (Coq_xI (Coq_xI (Coq_xI (Coq_xI (Coq_xO (Coq_xI
    Coq_xH))))))) :: ((Npos (Coq_xO (Coq_xO (Coq_xO (Coq_xO (Coq_xI (Coq_xI
    Coq_xH))))))) :: ((Npos (Coq_xI (Coq_xO (Coq_xI (Coq_xO (Coq_xO (Coq_xI
    Coq_xH))))))) :: ((Npos (Coq_xO (Coq_xI (Coq_xI (Coq_xI (Coq_xO (Coq_xI
    Coq_xH))))))) :: ((Npos (Coq_xO (Coq_xO (Coq_xI (Coq_xO (Coq_xO (Coq_xI
    Coq_xH))))))) :: ((Npos (Coq_xI (Coq_xI (Coq_xI (Coq_xI (Coq_xO (Coq_xI
    Coq_xH))))))) :: ((Npos (Coq_xI (Coq_xI (Coq_xO (Coq_xO (Coq_xO (Coq_xI
    Coq_xH))))))) :: ((Npos (Coq_xI (Coq_xO (Coq_xI (Coq_xO (Coq_xI (Coq_xI
    Coq_xH))))))) :: ((Npos (Coq_xI (Coq_xO (Coq_xI (Coq_xI (Coq_xO (Coq_xI
    Coq_xH))))))) :: ((Npos (Coq_xI (Coq_xO (Coq_xI (Coq_xO (Coq_xO (Coq_xI
    Coq_xH))))))) :: ((Npos (Coq_xO (Coq_xI (Coq_xI (Coq_xI (Coq_xO (Coq_xI
    Coq_xH))))))) :: ((Npos (Coq_xO (Coq_xO (Coq_xI (Coq_xO (Coq_xI (Coq_xI
    Coq_xH))))))) :: ((Npos (Coq_xO (Coq_xI (Coq_xO (Coq_xI (Coq_xI
    Coq_xH)))))) :: ((Npos (Coq_xO (Coq_xO (Coq_xO (Coq_xI (Coq_xI (Coq_xI
    Coq_xH))))))) :: ((Npos (Coq_xI (Coq_xO (Coq_xI (Coq_xI (Coq_xO (Coq_xI
    Coq_xH))))))) :: ((Npos (Coq_xO (Coq_xO (Coq_xI (Coq_xI (Coq_xO (Coq_xI
    Coq_xH))))))) :: ((Npos (Coq_xO (Coq_xI (Coq_xI (Coq_xI (Coq_xO (Coq_xI
    Coq_xH))))))) :: ((Npos (Coq_xI (Coq_xI (Coq_xO (Coq_xO (Coq_xI (Coq_xI
    Coq_xH))))))) :: ((Npos (Coq_xO (Coq_xI (Coq_xO (Coq_xI (Coq_xI
    Coq_xH)))))) :: ((Npos (Coq_xO (Coq_xO (Coq_xO (Coq_xO (Coq_xI (Coq_xI
    Coq_xH))))))) :: ((Npos (Coq_xO (Coq_xI (Coq_xO (Coq_xO (Coq_xI (Coq_xI
    Coq_xH))))))) :: ((Npos (Coq_xI (Coq_xO (Coq_xI (Coq_xO (Coq_xO (Coq_xI
    Coq_xH))))))) :: ((Npos (Coq_xI (Coq_xI (Coq_xO (Coq_xO (Coq_xI (Coq_xI
    Coq_xH))))))) :: ((Npos (Coq_xI (Coq_xO (Coq_xI (Coq_xO (Coq_xO (Coq_xI
    Coq_xH))))))) :: ((Npos (Coq_xO (Coq_xI (Coq_xI (Coq_xI (Coq_xO (Coq_xI
    Coq_xH))))))) :: ((Npos (Coq_xO (Coq_xO (Coq_xI (Coq_xO (Coq_xI (Coq_xI
    Coq_xH))))))) :: ((Npos (Coq_xI (Coq_xO (Coq_xO (Coq_xO (Coq_xO (Coq_xI
    Coq_xH))))))) :: ((Npos (Coq_xO (Coq_xO (Coq_xI (Coq_xO (Coq_xI (Coq_xI
    Coq_xH))))))) :: ((Npos (Coq_xI (Coq_xO (Coq_xO (Coq_xI (Coq_xO (Coq_xI
    Coq_xH))))))) :: ((Npos (Coq_xI (Coq_xI (Coq_xI (Coq_xI (Coq_xO (Coq_xI
    Coq_xH))))))) :: ((Npos (Coq_xO (Coq_xI (Coq_xI (Coq_xI (Coq_xO (Coq_xI
    Coq_xH))))))) :: ((Npos (Coq_xO (Coq_xI (Coq_xO (Coq_xI (Coq_xI
    Coq_xH)))))) :: ((Npos (Coq_xI (Coq_xO (Coq_xO (Coq_xO (Coq_xI
    Coq_xH)))))) :: ((Npos (Coq_xO (Coq_xI (Coq_xI (Coq_xI (Coq_xO
    Coq_xH)))))) :: ((Npos (Coq_xO (Coq_xO (Coq_xO (Coq_xO (Coq_xI
    Coq_xH)))))) :: [])))))))))))))))))))))))))))))))))))))))))))))))))))))),
    ((Npos (Coq_xI (Coq_xI (Coq_xO (Coq_xO (Coq_xO (Coq_xI
    Coq_xH))))))) :: ((Npos (Coq_xO (Coq_xO (Coq_xI (Coq_xI (Coq_xO (Coq_xI
    Coq_xH))))))) :: ((Npos (Coq_xI (Coq_xO (Coq_xO (Coq_xO (Coq_xO (Coq_xI
    Coq_xH))))))) :: ((Npos (Coq_xI (Coq_xI (Coq_xO (Coq_xO (Coq_xI (Coq_xI
    Coq_xH))))))) :: ((Npos (Coq_xI (Coq_xI (Coq_xO (Coq_xO (Coq_xI (Coq_xI
    Coq_xH))))))) :: ((Npos (Coq_xI (Coq_xO (Coq_xI (Coq_xI (Coq_xO
    Coq_xH)))))) :: ((Npos (Coq_xO (Coq_xI (Coq_xI (Coq_xI (Coq_xO (Coq_xI
    Coq_xH))))))) :: ((Npos (Coq_xI (Coq_xO (Coq_xO (Coq_xO (Coq_xO (Coq_xI
    Coq_xH))))))) :: ((Npos (Coq_xI (Coq_xO (Coq_xI (Coq_xI (Coq_xO (Coq_xI
    Coq_xH))))))) :: ((Npos (Coq_xI (Coq_xO (Coq_xI (Coq_xO (Coq_xO (Coq_xI
    Coq_xH))))))) :: ((Npos (Coq_xI (Coq_xI (Coq_xO (Coq_xO (Coq_xI (Coq_xI
    Coq_xH))))))) :: [])))))))))))) :: ((((Npos (Coq_xI (Coq_xO (Coq_xI
    (Coq_xO (Coq_xI (Coq_xI Coq_xH))))))) :: ((Npos (Coq_xO (Coq_xI (Coq_xO
    (Coq_xO (Coq_xI (Coq_xI Coq_xH))))))) :: ((Npos (Coq_xO (Coq_xI (Coq_xI
    (Coq_xI (Coq_xO (Coq_xI Coq_xH))))))) :: ((Npos (Coq_xO (Coq_xI (Coq_xO
    (Coq_xI (Coq_xI Coq_xH)))))) :: ((Npos (Coq_xI (Coq_xI (Coq_xI (Coq_xI
    (Coq_xO (Coq_xI Coq_xH))))))) :: ((Npos (Coq_xI (Coq_xO (Coq_xO (Coq_xO
    (Coq_xO (Coq_xI Coq_xH))))))) :: ((Npos (Coq_xI (Coq_xI (Coq_xO (Coq_xO
    (Coq_xI (Coq_xI Coq_xH))))))) :: ((Npos (Coq_xI (Coq_xO (Coq_xO (Coq_xI
    (Coq_xO (Coq_xI Coq_xH))))))) :: ((Npos (Coq_xI (Coq_xI (Coq_xO (Coq_xO
    (Coq_xI (Coq_xI Coq_xH))))))) :: ((Npos (Coq_xO (Coq_xI (Coq_xO (Coq_xI
    (Coq_xI Coq_xH)))))) :: ((Npos (Coq_xO (Coq_xI (Coq_xI (Coq_xI (Coq_xO
    (Coq_xI Coq_xH))))))) :: ((Npos (Coq_xI (Coq_xO (Coq_xO (Coq_xO (Coq_xO
    (Coq_xI Coq_xH))))))) :: ((Npos (Coq_xI (Coq_xO (Coq_xI (Coq_xI (Coq_xO
    (Coq_xI Coq_xH))))))) :: ((Npos (Coq_xI (Coq_xO (Coq_xI (Coq_xO (Coq_xO
    (Coq_xI Coq_xH))))))) :: ((Npos (Coq_xI (Coq_xI (Coq_xO (Coq_xO (Coq_xI
    (Coq_xI Coq_xH))))))) :: ((Npos (Coq_xO (Coq_xI (Coq_xO (Coq_xI (Coq_xI
    Coq_xH)))))) :: ((Npos (Coq_xO (Coq_xO (Coq_xI (Coq_xO (Coq_xI (Coq_xI
    Coq_xH))))))) :: ((Npos (Coq_xI (Coq_xI (Coq_xO (Coq_xO (Coq_xO (Coq_xI
    Coq_xH))))))) :: ((Npos (Coq_xO (Coq_xI (Coq_xO (Coq_xI (Coq_xI
    Coq_xH)))))) :: ((Npos (Coq_xI (Coq_xI (Coq_xI (Coq_xI (Coq_xO (Coq_xI
    Coq_xH))))))) :: ((Npos (Coq_xO (Coq_xO (Coq_xO (Coq_xO (Coq_xI (Coq_xI
    Coq_xH))))))) :: ((Npos (Coq_xI (Coq_xO (Coq_xI (Coq_xO (Coq_xO (Coq_xI
    Coq_xH))))))) :: ((Npos (Coq_xO (Coq_xI (Coq_xI (Coq_xI (Coq_xO (Coq_xI
    Coq_xH))))))) :: ((Npos (Coq_xO (Coq_xO (Coq_xI (Coq_xO (Coq_xO (Coq_xI
    Coq_xH))))))) :: ((Npos (Coq_xI (Coq_xI (Coq_xI (Coq_xI (Coq_xO (Coq_xI
    Coq_xH))))))) :: ((Npos (Coq_xI (Coq_xI (Coq_xO (Coq_xO (Coq_xO (Coq_xI
    Coq_xH))))))) :: ((Npos (Coq_xI (Coq_xO (Coq_xI (Coq_xO (Coq_xI (Coq_xI
    Coq_xH))))))) :: ((Npos (Coq_xI (Coq_xO (Coq_xI (Coq_xI (Coq_xO (Coq_xI
    Coq_xH))))))) :: ((Npos (Coq_xI (Coq_xO (Coq_xI (Coq_xO (Coq_xO (Coq_xI
    Coq_xH))))))) :: ((Npos (Coq_xO (Coq_xI (Coq_xI (Coq_xI (Coq_xO (Coq_xI
    Coq_xH))))))) :: ((Npos (Coq_xO (Coq_xO (Coq_xI (Coq_xO (Coq_xI (Coq_xI
    Coq_xH))))))) :: ((Npos (Coq_xO (Coq_xI (Coq_xO (Coq_xI (Coq_xI
    Coq_xH)))))) :: ((Npos (Coq_xO (Coq_xO (Coq_xO (Coq_xI (Coq_xI (Coq_xI
    Coq_xH))))))) :: ((Npos (Coq_xI (Coq_xO (Coq_xI (Coq_xI (Coq_xO (Coq_xI
    Coq_xH))))))) :: ((Npos (Coq_xO (Coq_xO (Coq_xI (Coq_xI (Coq_xO (Coq_xI
    Coq_xH))))))) :: ((Npos (Coq_xO (Coq_xI (Coq_xI (Coq_xI (Coq_xO (Coq_xI
    Coq_xH))))))) :: ((Npos (Coq_xI (Coq_xI (Coq_xO (Coq_xO (Coq_xI (Coq_xI
    Coq_xH))))))) :: ((Npos (Coq_xO (Coq_xI (Coq_xO (Coq_xI (Coq_xI
    Coq_xH)))))) :: ((Npos (Coq_xO (Coq_xO (Coq_xO (Coq_xO (Coq_xI (Coq_xI
    Coq_xH))))))) :: ((Npos (Coq_xO (Coq_xI (Coq_xO (Coq_xO (Coq_xI (Coq_xI
    Coq_xH))))))) :: ((Npos (Coq_xI (Coq_xO (Coq_xI (Coq_xO (Coq_xO (Coq_xI
    Coq_xH))))))) :: ((Npos (Coq_xI (Coq_xI (Coq_xO (Coq_xO (Coq_xI (Coq_xI
    Coq_xH))))))) :: ((Npos (Coq_xI (Coq_xO (Coq_xI (Coq_xO (Coq_xO (Coq_xI
    Coq_xH))))))) :: ((Npos (Coq_xO (Coq_xI (Coq_xI (Coq_xI (Coq_xO (Coq_xI
    Coq_xH))))))) :: ((Npos (Coq_xO (Coq_xO (Coq_xI (Coq_xO (Coq_xI (Coq_xI
    Coq_xH))))))) :: ((Npos (Coq_xI (Coq_xO (Coq_xO (Coq_xO (Coq_xO (Coq_xI
    Coq_xH))))))) :: ((Npos (Coq_xO (Coq_xO (Coq_xI (Coq_xO (Coq_xI (Coq_xI
    Coq_xH))))))) :: ((Npos (Coq_xI (Coq_xO (Coq_xO (Coq_xI (Coq_xO (Coq_xI
    Coq_xH))))))) :: ((Npos (Coq_xI (Coq_xI (Coq_xI (Coq_xI (Coq_xO (Coq_xI
    Coq_xH))))))) :: ((Npos (Coq_xO (Coq_xI (Coq_xI (Coq_xI (Coq_xO (Coq_xI
    Coq_xH))))))) :: ((Npos (Coq_xO (Coq_xI (Coq_xO (Coq_xI (Coq_xI
    Coq_xH)))))) :: ((Npos (Coq_xI (Coq_xO (Coq_xO (Coq_xO (Coq_xI
    Coq_xH)))))) :: ((Npos (Coq_xO (Coq_xI (Coq_xI (Coq_xI (Coq_xO
    Coq_xH)))))) :: ((Npos (Coq_xO (Coq_xO (Coq_xO (Coq_xO (Coq_xI
    Coq_xH)))))) :: [])))))))))))))))))))))))))))))))))))))))))))))))))))))),
    ((Npos (Coq_xO (Coq_xO (Coq_xO (Coq_xO (Coq_xI (Coq_xI
    Coq_xH))))))) :: ((Npos (Coq_xO (Coq_xI (Coq_xO (Coq_xO (Coq_xI (Coq_xI
    Coq_xH))))))) :: ((Npos (Coq_xI (Coq_xO (Coq_xI (Coq_xO (Coq_xO (Coq_xI
    Coq_xH))))))) :: ((Npos (Coq_xI (Coq_xI (Coq_xO (Coq_xO (Coq_xI (Coq_xI
    Coq_xH))))))) :: ((Npos (Coq_xI (Coq_xO (Coq_xI (Coq_xO (Coq_xO (Coq_xI
    Coq_xH))))))) :: ((Npos (Coq_xO (Coq_xI (Coq_xI (Coq_xI (Coq_xO (Coq_xI
    Coq_xH))))))) :: ((Npos (Coq_xO (Coq_xO (Coq_xI (Coq_xO (Coq_xI (Coq_xI
    Coq_xH))))))) :: ((Npos (Coq_xI (Coq_xO (Coq_xO (Coq_xO (Coq_xO (Coq_xI
    Coq_xH))))))) :: ((Npos (Coq_xO (Coq_xO (Coq_xI (Coq_xO (Coq_xI (Coq_xI
    Coq_xH))))))) :: ((Npos (Coq_xI (Coq_xO (Coq_xO (Coq_xI (Coq_xO (Coq_xI
    Coq_xH))))))) :: ((Npos (Coq_xI (Coq_xI (Coq_xI (Coq_xI (Coq_xO (Coq_xI
    Coq_xH))))))) :: ((Npos (Coq_xO (Coq_xI (Coq_xI (Coq_xI (Coq_xO (Coq_xI
    Coq_xH))))))) :: ((Npos (Coq_xI (Coq_xO (Coq_xI (Coq_xI (Coq_xO
    Coq_xH)))))) :: ((Npos (Coq_xO (Coq_xO (Coq_xO (Coq_xO (Coq_xI (Coq_xI
    Coq_xH))))))) :: ((Npos (Coq_xI (Coq_xO (Coq_xO (Coq_xO (Coq_xO (Coq_xI
    Coq_xH))))))) :: ((Npos (Coq_xI (Coq_xI (Coq_xI (Coq_xO (Coq_xO (Coq_xI
    Coq_xH))))))) :: ((Npos (Coq_xI (Coq_xO (Coq_xI (Coq_xO (Coq_xO (Coq_xI
    Coq_xH))))))) :: ((Npos (Coq_xI (Coq_xO (Coq_xI (Coq_xI (Coq_xO
    Coq_xH)))))) :: ((Npos (Coq_xO (Coq_xO (Coq_xI (Coq_xI (Coq_xO (Coq_xI
    Coq_xH))))))) :: ((Npos (Coq_xI (Coq_xO (Coq_xO (Coq_xO (Coq_xO (Coq_xI
    Coq_xH))))))) :: ((Npos (Coq_xI (Coq_xO (Coq_xO (Coq_xI (Coq_xI (Coq_xI
    Coq_xH))))))) :: ((Npos (Coq_xI (Coq_xI (Coq_xI (Coq_xI (Coq_xO (Coq_xI
    Coq_xH))))))) :: ((Npos (Coq_xI (Coq_xO (Coq_xI (Coq_xO (Coq_xI (Coq_xI
    Coq_xH))))))) :: ((Npos (Coq_xO (Coq_xO (Coq_xI (Coq_xO (Coq_xI (Coq_xI
    Coq_xH))))))) :: ((Npos (Coq_xI (Coq_xO (Coq_xI (Coq_xI (Coq_xO
    Coq_xH)))))) :: ((Npos (Coq_xO (Coq_xI (Coq_xI (Coq_xI (Coq_xO (Coq_xI
    Coq_xH))))))) :: ((Npos (Coq_xI (Coq_xO (Coq_xO (Coq_xO (Coq_xO (Coq_xI
    Coq_xH))))))) :: ((Npos (Coq_xI (Coq_xO (Coq_xI (Coq_xI (Coq_xO (Coq_xI
    Coq_xH))))))) :: ((Npos (Coq_xI (Coq_xO (Coq_xI (Coq_xO (Coq_xO (Coq_xI
    Coq_xH))))))) :: [])))))))))))))))))))))))))))))) :: ((((Npos (Coq_xI
    (Coq_xO (Coq_xI (Coq_xO (Coq_xI (Coq_xI Coq_xH))))))) :: ((Npos (Coq_xO
    (Coq_xI (Coq_xO (Coq_xO (Coq_xI (Coq_xI Coq_xH))))))) :: ((Npos (Coq_xO
    (Coq_xI (Coq_xI (Coq_xI (Coq_xO (Coq_xI Coq_xH))))))) :: ((Npos (Coq_xO
    (Coq_xI (Coq_xO (Coq_xI (Coq_xI Coq_xH)))))) :: ((Npos (Coq_xI (Coq_xI
    (Coq_xI (Coq_xI (Coq_xO (Coq_xI Coq_xH))))))) :: ((Npos (Coq_xI (Coq_xO
    (Coq_xO (Coq_xO (Coq_xO (Coq_xI Coq_xH))))))) :: ((Npos (Coq_xI (Coq_xI
    (Coq_xO (Coq_xO (Coq_xI (Coq_xI Coq_xH))))))) :: ((Npos (Coq_xI (Coq_xO
    (Coq_xO (Coq_xI (Coq_xO (Coq_xI Coq_xH))))))) :: ((Npos (Coq_xI (Coq_xI
    (Coq_xO (Coq_xO (Coq_xI (Coq_xI Coq_xH))))))) :: ((Npos (Coq_xO (Coq_xI
    (Coq_xO (Coq_xI (Coq_xI Coq_xH)))))) :: ((Npos (Coq_xO (Coq_xI (Coq_xI
    (Coq_xI (Coq_xO (Coq_xI Coq_xH))))))) :: ((Npos (Coq_xI (Coq_xO (Coq_xO
    (Coq_xO (Coq_xO (Coq_xI Coq_xH))))))) :: ((Npos (Coq_xI (Coq_xO (Coq_xI
    (Coq_xI (Coq_xO (Coq_xI Coq_xH))))))) :: ((Npos (Coq_xI (Coq_xO (Coq_xI
    (Coq_xO (Coq_xO (Coq_xI Coq_xH))))))) :: ((Npos (Coq_xI (Coq_xI (Coq_xO
    (Coq_xO (Coq_xI (Coq_xI Coq_xH))))))) :: ((Npos (Coq_xO (Coq_xI (Coq_xO
    (Coq_xI (Coq_xI Coq_xH)))))) :: ((Npos (Coq_xO (Coq_xO (Coq_xI (Coq_xO
    (Coq_xI (Coq_xI Coq_xH))))))) :: ((Npos (Coq_xI (Coq_xI (Coq_xO (Coq_xO
    (Coq_xO (Coq_xI Coq_xH))))))) :: ((Npos (Coq_xO (Coq_xI (Coq_xO (Coq_xI
    (Coq_xI Coq_xH)))))) :: ((Npos (Coq_xI (Coq_xI (Coq_xI (Coq_xI (Coq_xO
    (Coq_xI Coq_xH))))))) :: ((Npos (Coq_xO (Coq_xO (Coq_xO (Coq_xO (Coq_xI
    (Coq_xI Coq_xH))))))) :: ((Npos (Coq_xI (Coq_xO (Coq_xI (Coq_xO (Coq_xO
    (Coq_xI Coq_xH))))))) :: ((Npos (Coq_xO (Coq_xI (Coq_xI (Coq_xI (Coq_xO
    (Coq_xI Coq_xH))))))) :: ((Npos (Coq_xO (Coq_xO (Coq_xI (Coq_xO (Coq_xO
    (Coq_xI Coq_xH))))))) :: ((Npos (Coq_xI (Coq_xI (Coq_xI (Coq_xI (Coq_xO
    (Coq_xI Coq_xH))))))) :: ((Npos (Coq_xI (Coq_xI (Coq_xO (Coq_xO (Coq_xO
    (Coq_xI Coq_xH))))))) :: ((Npos (Coq_xI (Coq_xO (Coq_xI (Coq_xO (Coq_xI
    (Coq_xI Coq_xH))))))) :: ((Npos (Coq_xI (Coq_xO (Coq_xI (Coq_xI (Coq_xO
    (Coq_xI Coq_xH))))))) :: ((Npos (Coq_xI (Coq_xO (Coq_xI (Coq_xO (Coq_xO
    (Coq_xI Coq_xH))))))) :: ((Npos (Coq_xO (Coq_xI (Coq_xI (Coq_xI (Coq_xO
    (Coq_xI Coq_xH))))))) :: ((Npos (Coq_xO (Coq_xO (Coq_xI (Coq_xO (Coq_xI
    (Coq_xI Coq_xH))))))) :: ((Npos (Coq_xO (Coq_xI (Coq_xO (Coq_xI (Coq_xI
    Coq_xH)))))) :: ((Npos (Coq_xO (Coq_xO (Coq_xO (Coq_xI (Coq_xI (Coq_xI
    Coq_xH))))))) :: ((Npos (Coq_xI (Coq_xO (Coq_xI (Coq_xI (Coq_xO (Coq_xI
    Coq_xH))))))) :: ((Npos (Coq_xO (Coq_xO (Coq_xI (Coq_xI (Coq_xO (Coq_xI
    Coq_xH))))))) :: ((Npos (Coq_xO (Coq_xI (Coq_xI (Coq_xI (Coq_xO (Coq_xI
    Coq_xH))))))) :: ((Npos (Coq_xI (Coq_xI (Coq_xO (Coq_xO (Coq_xI (Coq_xI
    Coq_xH))))))) :: ((Npos (Coq_xO (Coq_xI (Coq_xO (Coq_xI (Coq_xI
    Coq_xH)))))) :: ((Npos (Coq_xO (Coq_xO (Coq_xO (Coq_xO (Coq_xI (Coq_xI
    Coq_xH))))))) :: ((Npos (Coq_xO (Coq_xI (Coq_xO (Coq_xO (Coq_xI (Coq_xI
    Coq_xH))))))) :: ((Npos (Coq_xI (Coq_xO (Coq_xI (Coq_xO (Coq_xO (Coq_xI
    Coq_xH))))))) :: ((Npos (Coq_xI (Coq_xI (Coq_xO (Coq_xO (Coq_xI (Coq_xI
    Coq_xH))))))) :: ((Npos (Coq_xI (Coq_xO (Coq_xI (Coq_xO (Coq_xO (Coq_xI
    Coq_xH))))))) :: ((Npos (Coq_xO (Coq_xI (Coq_xI (Coq_xI (Coq_xO (Coq_xI
    Coq_xH))))))) :: ((Npos (Coq_xO (Coq_xO (Coq_xI (Coq_xO (Coq_xI (Coq_xI
    Coq_xH))))))) :: ((Npos (Coq_xI (Coq_xO (Coq_xO (Coq_xO (Coq_xO (Coq_xI
    Coq_xH))))))) :: ((Npos (Coq_xO (Coq_xO (Coq_xI (Coq_xO (Coq_xI (Coq_xI
    Coq_xH))))))) :: ((Npos (Coq_xI (Coq_xO (Coq_xO (Coq_xI (Coq_xO (Coq_xI
    Coq_xH))))))) :: ((Npos (Coq_xI (Coq_xI (Coq_xI (Coq_xI (Coq_xO (Coq_xI
    Coq_xH))))))) :: ((Npos (Coq_xO (Coq_xI (Coq_xI (Coq_xI (Coq_xO (Coq_xI
    Coq_xH))))))) :: ((Npos (Coq_xO (Coq_xI (Coq_xO (Coq_xI (Coq_xI
    Coq_xH)))))) :: ((Npos (Coq_xI (Coq_xO (Coq_xO (Coq_xO (Coq_xI
    Coq_xH)))))) :: ((Npos (Coq_xO (Coq_xI (Coq_xI (Coq_xI (Coq_xO
    Coq_xH)))))) :: ((Npos (Coq_xO (Coq_xO (Coq_xO (Coq_xO (Coq_xI
    Coq_xH)))))) :: [])))))))))))))))))))))))))))))))))))))))))))))))))))))),
    ((Npos (Coq_xI (Coq_xI (Coq_xO (Coq_xO (Coq_xI (Coq_xI
    Coq_xH))))))) :: ((Npos (Coq_xO (Coq_xO (Coq_xI (Coq_xO (Coq_xI (Coq_xI
    Coq_xH))))))) :: ((Npos (Coq_xI (Coq_xO (Coq_xO (Coq_xI (Coq_xI (Coq_xI
    Coq_xH))))))) :: ((Npos (Coq_xO (Coq_xO (Coq_xI (Coq_xI (Coq_xO (Coq_xI
    Coq_xH))))))) :: ((Npos (Coq_xI (Coq_xO (Coq_xI (Coq_xO (Coq_xO (Coq_xI
    Coq_xH))))))) :: ((Npos (Coq_xI (Coq_xO (Coq_xI (Coq_xI (Coq_xO
    Coq_xH)))))) :: ((Npos (Coq_xO (Coq_xI (Coq_xI (Coq_xI (Coq_xO (Coq_xI
    Coq_xH))))))) :: ((Npos (Coq_xI (Coq_xO (Coq_xO (Coq_xO (Coq_xO (Coq_xI
    Coq_xH))))))) :: ((Npos (Coq_xI (Coq_xO (Coq_xI (Coq_xI (Coq_xO (Coq_xI
    Coq_xH))))))) :: ((Npos (Coq_xI (Coq_xO (Coq_xI (Coq_xO (Coq_xO (Coq_xI
    Coq_xH))))))) :: []))))))))))) :: ((((Npos (Coq_xI (Coq_xO (Coq_xI
    (Coq_xO (Coq_xI (Coq_xI Coq_xH))))))) :: ((Npos (Coq_xO (Coq_xI (Coq_xO
    (Coq_xO (Coq_xI (Coq_xI Coq_xH))))))) :: ((Npos (Coq_xO (Coq_xI (Coq_xI
    (Coq_xI (Coq_xO (Coq_xI Coq_xH))))))) :: ((Npos (Coq_xO (Coq_xI (Coq_xO
    (Coq_xI (Coq_xI Coq_xH)))))) :: ((Npos (Coq_xI (Coq_xI (Coq_xI (Coq_xI
    (Coq_xO (Coq_xI Coq_xH))))))) :: ((Npos (Coq_xI (Coq_xO (Coq_xO (Coq_xO
    (Coq_xO (Coq_xI Coq_xH))))))) :: ((Npos (Coq_xI (Coq_xI (Coq_xO (Coq_xO
    (Coq_xI (Coq_xI Coq_xH))))))) :: ((Npos (Coq_xI (Coq_xO (Coq_xO (Coq_xI
    (Coq_xO (Coq_xI Coq_xH))))))) :: ((Npos (Coq_xI (Coq_xI (Coq_xO (Coq_xO
    (Coq_xI (Coq_xI Coq_xH))))))) :: ((Npos (Coq_xO (Coq_xI (Coq_xO (Coq_xI
    (Coq_xI Coq_xH)))))) :: ((Npos (Coq_xO (Coq_xI (Coq_xI (Coq_xI (Coq_xO
    (Coq_xI Coq_xH))))))) :: ((Npos (Coq_xI (Coq_xO (Coq_xO (Coq_xO (Coq_xO
    (Coq_xI Coq_xH))))))) :: ((Npos (Coq_xI (Coq_xO (Coq_xI (Coq_xI (Coq_xO
    (Coq_xI Coq_xH))))))) :: ((Npos (Coq_xI (Coq_xO (Coq_xI (Coq_xO (Coq_xO
    (Coq_xI Coq_xH))))))) :: ((Npos (Coq_xI (Coq_xI (Coq_xO (Coq_xO (Coq_xI
    (Coq_xI Coq_xH))))))) :: ((Npos (Coq_xO (Coq_xI (Coq_xO (Coq_xI (Coq_xI
    Coq_xH)))))) :: ((Npos (Coq_xO (Coq_xO (Coq_xI (Coq_xO (Coq_xI (Coq_xI
    Coq_xH))))))) :: ((Npos (Coq_xI (Coq_xI (Coq_xO (Coq_xO (Coq_xO (Coq_xI
    Coq_xH))))))) :: ((Npos (Coq_xO (Coq_xI (Coq_xO (Coq_xI (Coq_xI
    Coq_xH)))))) :: ((Npos (Coq_xI (Coq_xI (Coq_xI (Coq_xI (Coq_xO (Coq_xI
    Coq_xH))))))) :: ((Npos (Coq_xO (Coq_xO (Coq_xO (Coq_xO (Coq_xI (Coq_xI
    Coq_xH))))))) :: ((Npos (Coq_xI (Coq_xO (Coq_xI (Coq_xO (Coq_xO (Coq_xI
    Coq_xH))))))) :: ((Npos (Coq_xO (Coq_xI (Coq_xI (Coq_xI (Coq_xO (Coq_xI
    Coq_xH))))))) :: ((Npos (Coq_xO (Coq_xO (Coq_xI (Coq_xO (Coq_xO (Coq_xI
    Coq_xH))))))) :: ((Npos (Coq_xI (Coq_xI (Coq_xI (Coq_xI (Coq_xO (Coq_xI
    Coq_xH))))))) :: ((Npos (Coq_xI (Coq_xI (Coq_xO (Coq_xO (Coq_xO (Coq_xI
    Coq_xH))))))) :: ((Npos (Coq_xI (Coq_xO (Coq_xI (Coq_xO (Coq_xI (Coq_xI
    Coq_xH))))))) :: ((Npos (Coq_xI (Coq_xO (Coq_xI (Coq_xI (Coq_xO (Coq_xI
    Coq_xH))))))) :: ((Npos (Coq_xI (Coq_xO (Coq_xI (Coq_xO (Coq_xO (Coq_xI
    Coq_xH))))))) :: ((Npos (Coq_xO (Coq_xI (Coq_xI (Coq_xI (Coq_xO (Coq_xI
    Coq_xH))))))) :: ((Npos (Coq_xO (Coq_xO (Coq_xI (Coq_xO (Coq_xI (Coq_xI
    Coq_xH))))))) :: ((Npos (Coq_xO (Coq_xI (Coq_xO (Coq_xI (Coq_xI
    Coq_xH)))))) :: ((Npos (Coq_xO (Coq_xO (Coq_xO (Coq_xI (Coq_xI (Coq_xI
    Coq_xH))))))) :: ((Npos (Coq_xI (Coq_xO (Coq_xI (Coq_xI (Coq_xO (Coq_xI
    Coq_xH))))))) :: ((Npos (Coq_xO (Coq_xO (Coq_xI (Coq_xI (Coq_xO (Coq_xI
    Coq_xH))))))) :: ((Npos (Coq_xO (Coq_xI (Coq_xI (Coq_xI (Coq_xO (Coq_xI
    Coq_xH))))))) :: ((Npos (Coq_xI (Coq_xI (Coq_xO (Coq_xO (Coq_xI (Coq_xI
    Coq_xH))))))) :: ((Npos (Coq_xO (Coq_xI (Coq_xO (Coq_xI (Coq_xI
    Coq_xH)))))) :: ((Npos (Coq_xI (Coq_xI (Coq_xO (Coq_xO (Coq_xI (Coq_xI
    Coq_xH))))))) :: ((Npos (Coq_xO (Coq_xO (Coq_xI (Coq_xO (Coq_xI (Coq_xI
    Coq_xH))))))) :: ((Npos (Coq_xI (Coq_xO (Coq_xO (Coq_xI (Coq_xI (Coq_xI
    Coq_xH))))))) :: ((Npos (Coq_xO (Coq_xO (Coq_xI (Coq_xI (Coq_xO (Coq_xI
    Coq_xH))))))) :: ((Npos (Coq_xI (Coq_xO (Coq_xI (Coq_xO (Coq_xO (Coq_xI
    Coq_xH))))))) :: ((Npos (Coq_xO (Coq_xI (Coq_xO (Coq_xI (Coq_xI
    Coq_xH)))))) :: ((Npos (Coq_xI (Coq_xO (Coq_xO (Coq_xO (Coq_xI
    Coq_xH)))))) :: ((Npos (Coq_xO (Coq_xI (Coq_xI (Coq_xI (Coq_xO
    Coq_xH)))))) :: ((Npos (Coq_xO (Coq_xO (Coq_xO (Coq_xO (Coq_xI
    Coq_xH)))))) :: []))))))))))))))))))))))))))))))))))))))))))))))), ((Npos
    (Coq_xI (Coq_xO (Coq_xO (Coq_xO (Coq_xO (Coq_xI Coq_xH))))))) :: ((Npos
    (Coq_xO (Coq_xO (Coq_xO (Coq_xO (Coq_xI (Coq_xI Coq_xH))))))) :: ((Npos
    (Coq_xO (Coq_xO (Coq_xO (Coq_xO (Coq_xI (Coq_xI Coq_xH))))))) :: ((Npos
    (Coq_xO (Coq_xO (Coq_xI (Coq_xI (Coq_xO (Coq_xI Coq_xH))))))) :: ((Npos
    (Coq_xI (Coq_xO (Coq_xO (Coq_xI (Coq_xI (Coq_xI Coq_xH))))))) :: ((Npos
    (Coq_xI (Coq_xO (Coq_xI (Coq_xI (Coq_xO Coq_xH)))))) :: ((Npos (Coq_xI
    (Coq_xI (Coq_xO (Coq_xO (Coq_xI (Coq_xI Coq_xH))))))) :: ((Npos (Coq_xO
    (Coq_xO (Coq_xI (Coq_xO (Coq_xI (Coq_xI Coq_xH))))))) :: ((Npos (Coq_xI
    (Coq_xO (Coq_xO (Coq_xI (Coq_xI (Coq_xI Coq_xH))))))) :: ((Npos (Coq_xO
    (Coq_xO (Coq_xI (Coq_xI (Coq_xO (Coq_xI Coq_xH))))))) :: ((Npos (Coq_xI
    (Coq_xO (Coq_xI (Coq_xO (Coq_xO (Coq_xI Coq_xH))))))) :: ((Npos (Coq_xI
    (Coq_xO (Coq_xI (Coq_xI (Coq_xO Coq_xH)))))) :: ((Npos (Coq_xO (Coq_xI
    (Coq_xI (Coq_xI (Coq_xO (Coq_xI Coq_xH))))))) :: ((Npos (Coq_xI (Coq_xO
    (Coq_xO (Coq_xO (Coq_xO (Coq_xI Coq_xH))))))) :: ((Npos (Coq_xI (Coq_xO
    (Coq_xI (Coq_xI (Coq_xO (Coq_xI Coq_xH))))))) :: ((Npos (Coq_xI (Coq_xO
    (Coq_xI (Coq_xO (Coq_xO (Coq_xI
    Coq_xH))))))) :: []))))))))))))))))) :: ((((Npos (Coq_xI (Coq_xO (Coq_xI
    (Coq_xO (Coq_xI (Coq_xI Coq_xH))))))) :: ((Npos (Coq_xO (Coq_xI (Coq_xO
    (Coq_xO (Coq_xI (Coq_xI Coq_xH))))))) :: ((Npos (Coq_xO (Coq_xI (Coq_xI
    (Coq_xI (Coq_xO (Coq_xI Coq_xH))))))) :: ((Npos (Coq_xO (Coq_xI (Coq_xO
    (Coq_xI (Coq_xI Coq_xH)))))) :: ((Npos (Coq_xI (Coq_xI (Coq_xI (Coq_xI
    (Coq_xO (Coq_xI Coq_xH))))))) :: ((Npos (Coq_xI (Coq_xO (Coq_xO (Coq_xO
    (Coq_xO (Coq_xI Coq_xH))))))) :: ((Npos (Coq_xI (Coq_xI (Coq_xO (Coq_xO
    (Coq_xI (Coq_xI Coq_xH))))))) :: ((Npos (Coq_xI (Coq_xO (Coq_xO (Coq_xI
    (Coq_xO (Coq_xI Coq_xH))))))) :: ((Npos (Coq_xI (Coq_xI (Coq_xO (Coq_xO
    (Coq_xI (Coq_xI Coq_xH))))))) :: ((Npos (Coq_xO (Coq_xI (Coq_xO (Coq_xI
    (Coq_xI Coq_xH)))))) :: ((Npos (Coq_xO (Coq_xI (Coq_xI (Coq_xI (Coq_xO
    (Coq_xI Coq_xH))))))) :: ((Npos (Coq_xI (Coq_xO (Coq_xO (Coq_xO (Coq_xO
    (Coq_xI Coq_xH))))))) :: ((Npos (Coq_xI (Coq_xO (Coq_xI (Coq_xI (Coq_xO
    (Coq_xI Coq_xH))))))) :: ((Npos (Coq_xI (Coq_xO (Coq_xI (Coq_xO (Coq_xO
    (Coq_xI Coq_xH))))))) :: ((Npos (Coq_xI (Coq_xI (Coq_xO (Coq_xO (Coq_xI
    (Coq_xI Coq_xH))))))) :: ((Npos (Coq_xO (Coq_xI (Coq_xO (Coq_xI (Coq_xI
    Coq_xH)))))) :: ((Npos (Coq_xO (Coq_xO (Coq_xI (Coq_xO (Coq_xI (Coq_xI
    Coq_xH))))))) :: ((Npos (Coq_xI (Coq_xI (Coq_xO (Coq_xO (Coq_xO (Coq_xI
    Coq_xH))))))) :: ((Npos (Coq_xO (Coq_xI (Coq_xO (Coq_xI (Coq_xI
    Coq_xH)))))) :: ((Npos (Coq_xI (Coq_xI (Coq_xI (Coq_xI (Coq_xO (Coq_xI
    Coq_xH))))))) :: ((Npos (Coq_xO (Coq_xO (Coq_xO (Coq_xO (Coq_xI (Coq_xI
    Coq_xH))))))) :: ((Npos (Coq_xI (Coq_xO (Coq_xI (Coq_xO (Coq_xO (Coq_xI
    Coq_xH))))))) :: ((Npos (Coq_xO (Coq_xI (Coq_xI (Coq_xI (Coq_xO (Coq_xI
    Coq_xH))))))) :: ((Npos (Coq_xO (Coq_xO (Coq_xI (Coq_xO (Coq_xO (Coq_xI
    Coq_xH))))))) :: ((Npos (Coq_xI (Coq_xI (Coq_xI (Coq_xI (Coq_xO (Coq_xI
    Coq_xH))))))) :: ((Npos (Coq_xI (Coq_xI (Coq_xO (Coq_xO (Coq_xO (Coq_xI
    Coq_xH))))))) :: ((Npos (Coq_xI (Coq_xO (Coq_xI (Coq_xO (Coq_xI (Coq_xI
    Coq_xH))))))) :: ((Npos (Coq_xI (Coq_xO (Coq_xI (Coq_xI (Coq_xO (Coq_xI
    Coq_xH))))))) :: ((Npos (Coq_xI (Coq_xO (Coq_xI (Coq_xO (Coq_xO (Coq_xI
    Coq_xH))))))) :: ((Npos (Coq_xO (Coq_xI (Coq_xI (Coq_xI (Coq_xO (Coq_xI
    Coq_xH))))))) :: ((Npos (Coq_xO (Coq_xO (Coq_xI (Coq_xO (Coq_xI (Coq_xI
    Coq_xH))))))) :: ((Npos (Coq_xO (Coq_xI (Coq_xO (Coq_xI (Coq_xI
    Coq_xH)))))) :: ((Npos (Coq_xO (Coq_xO (Coq_xO (Coq_xI (Coq_xI (Coq_xI
    Coq_xH))))))) :: ((Npos (Coq_xI (Coq_xO (Coq_xI (Coq_xI (Coq_xO (Coq_xI
    Coq_xH))))))) :: ((Npos (Coq_xO (Coq_xO (Coq_xI (Coq_xI (Coq_xO (Coq_xI
    Coq_xH))))))) :: ((Npos (Coq_xO (Coq_xI (Coq_xI (Coq_xI (Coq_xO (Coq_xI
    Coq_xH))))))) :: ((Npos (Coq_xI (Coq_xI (Coq_xO (Coq_xO (Coq_xI (Coq_xI
    Coq_xH))))))) :: ((Npos (Coq_xO (Coq_xI (Coq_xO (Coq_xI (Coq_xI
    Coq_xH)))))) :: ((Npos (Coq_xI (Coq_xI (Coq_xO (Coq_xO (Coq_xI (Coq_xI
    Coq_xH))))))) :: ((Npos (Coq_xO (Coq_xO (Coq_xI (Coq_xO (Coq_xI (Coq_xI
    Coq_xH))))))) :: ((Npos (Coq_xI (Coq_xO (Coq_xO (Coq_xI (Coq_xI (Coq_xI
    Coq_xH))))))) :: ((Npos (Coq_xO (Coq_xO (Coq_xI (Coq_xI (Coq_xO (Coq_xI
    Coq_xH))))))) :: ((Npos (Coq_xI (Coq_xO (Coq_xI (Coq_xO (Coq_xO (Coq_xI
    Coq_xH))))))) :: ((Npos (Coq_xO (Coq_xI (Coq_xO (Coq_xI (Coq_xI
    Coq_xH)))))) :: ((Npos (Coq_xI (Coq_xO (Coq_xO (Coq_xO (Coq_xI
    Coq_xH)))))) :: ((Npos (Coq_xO (Coq_xI (Coq_xI (Coq_xI (Coq_xO
    Coq_xH)))))) :: ((Npos (Coq_xO (Coq_xO (Coq_xO (Coq_xO (Coq_xI
    Coq_xH)))))) :: []))))))))))))))))))))))))))))))))))))))))))))))), ((Npos
    (Coq_xO (Coq_xO (Coq_xI (Coq_xO (Coq_xO (Coq_xI Coq_xH))))))) :: ((Npos
    (Coq_xI (Coq_xO (Coq_xO (Coq_xO (Coq_xO (Coq_xI Coq_xH))))))) :: ((Npos
    (Coq_xO (Coq_xO (Coq_xI (Coq_xO (Coq_xI (Coq_xI Coq_xH))))))) :: ((Npos
    (Coq_xI (Coq_xO (Coq_xO (Coq_xO (Coq_xO (Coq_xI Coq_xH))))))) :: ((Npos
    (Coq_xI (Coq_xO (Coq_xI (Coq_xI (Coq_xO Coq_xH)))))) :: ((Npos (Coq_xI
    (Coq_xI (Coq_xO (Coq_xO (Coq_xI (Coq_xI Coq_xH))))))) :: ((Npos (Coq_xO
    (Coq_xO (Coq_xI (Coq_xO (Coq_xI (Coq_xI Coq_xH))))))) :: ((Npos (Coq_xI
    (Coq_xO (Coq_xO (Coq_xI (Coq_xI (Coq_xI Coq_xH))))))) :: ((Npos (Coq_xO
    (Coq_xO (Coq_xI (Coq_xI (Coq_xO (Coq_xI Coq_xH))))))) :: ((Npos (Coq_xI
    (Coq_xO (Coq_xI (Coq_xO (Coq_xO (Coq_xI Coq_xH))))))) :: ((Npos (Coq_xI
    (Coq_xO (Coq_xI (Coq_xI (Coq_xO Coq_xH)))))) :: ((Npos (Coq_xO (Coq_xI
    (Coq_xI (Coq_xI (Coq_xO (Coq_xI Coq_xH))))))) :: ((Npos (Coq_xI (Coq_xO
    (Coq_xO (Coq_xO (Coq_xO (Coq_xI Coq_xH))))))) :: ((Npos (Coq_xI (Coq_xO
    (Coq_xI (Coq_xI (Coq_xO (Coq_xI Coq_xH))))))) :: ((Npos (Coq_xI (Coq_xO
    (Coq_xI (Coq_xO (Coq_xO (Coq_xI
    Coq_xH))))))) :: [])))))))))))))))) :: ((((Npos (Coq_xI (Coq_xO (Coq_xI
    (Coq_xO (Coq_xI (Coq_xI Coq_xH))))))) :: ((Npos (Coq_xO (Coq_xI (Coq_xO
    (Coq_xO (Coq_xI (Coq_xI Coq_xH))))))) :: ((Npos (Coq_xO (Coq_xI (Coq_xI
    (Coq_xI (Coq_xO (Coq_xI Coq_xH))))))) :: ((Npos (Coq_xO (Coq_xI (Coq_xO
    (Coq_xI (Coq_xI Coq_xH)))))) :: ((Npos (Coq_xI (Coq_xI (Coq_xI (Coq_xI
    (Coq_xO (Coq_xI Coq_xH))))))) :: ((Npos (Coq_xI (Coq_xO (Coq_xO (Coq_xO
    (Coq_xO (Coq_xI Coq_xH))))))) :: ((Npos (Coq_xI (Coq_xI (Coq_xO (Coq_xO
    (Coq_xI (Coq_xI Coq_xH))))))) :: ((Npos (Coq_xI (Coq_xO (Coq_xO (Coq_xI
    (Coq_xO (Coq_xI Coq_xH))))))) :: ((Npos (Coq_xI (Coq_xI (Coq_xO (Coq_xO
    (Coq_xI (Coq_xI Coq_xH))))))) :: ((Npos (Coq_xO (Coq_xI (Coq_xO (Coq_xI
    (Coq_xI Coq_xH)))))) :: ((Npos (Coq_xO (Coq_xI (Coq_xI (Coq_xI (Coq_xO
    (Coq_xI Coq_xH))))))) :: ((Npos (Coq_xI (Coq_xO (Coq_xO (Coq_xO (Coq_xO
    (Coq_xI Coq_xH))))))) :: ((Npos (Coq_xI (Coq_xO (Coq_xI (Coq_xI (Coq_xO
    (Coq_xI Coq_xH))))))) :: ((Npos (Coq_xI (Coq_xO (Coq_xI (Coq_xO (Coq_xO
    (Coq_xI Coq_xH))))))) :: ((Npos (Coq_xI (Coq_xI (Coq_xO (Coq_xO (Coq_xI
    (Coq_xI Coq_xH))))))) :: ((Npos (Coq_xO (Coq_xI (Coq_xO (Coq_xI (Coq_xI
    Coq_xH)))))) :: ((Npos (Coq_xO (Coq_xO (Coq_xI (Coq_xO (Coq_xI (Coq_xI
    Coq_xH))))))) :: ((Npos (Coq_xI (Coq_xI (Coq_xO (Coq_xO (Coq_xO (Coq_xI
    Coq_xH))))))) :: ((Npos (Coq_xO (Coq_xI (Coq_xO (Coq_xI (Coq_xI
    Coq_xH)))))) :: ((Npos (Coq_xI (Coq_xI (Coq_xI (Coq_xI (Coq_xO (Coq_xI
    Coq_xH))))))) :: ((Npos (Coq_xO (Coq_xO (Coq_xO (Coq_xO (Coq_xI (Coq_xI
    Coq_xH))))))) :: ((Npos (Coq_xI (Coq_xO (Coq_xI (Coq_xO (Coq_xO (Coq_xI
    Coq_xH))))))) :: ((Npos (Coq_xO (Coq_xI (Coq_xI (Coq_xI (Coq_xO (Coq_xI
    Coq_xH))))))) :: ((Npos (Coq_xO (Coq_xO (Coq_xI (Coq_xO (Coq_xO (Coq_xI
    Coq_xH))))))) :: ((Npos (Coq_xI (Coq_xI (Coq_xI (Coq_xI (Coq_xO (Coq_xI
    Coq_xH))))))) :: ((Npos (Coq_xI (Coq_xI (Coq_xO (Coq_xO (Coq_xO (Coq_xI
    Coq_xH))))))) :: ((Npos (Coq_xI (Coq_xO (Coq_xI (Coq_xO (Coq_xI (Coq_xI
    Coq_xH))))))) :: ((Npos (Coq_xI (Coq_xO (Coq_xI (Coq_xI (Coq_xO (Coq_xI
    Coq_xH))))))) :: ((Npos (Coq_xI (Coq_xO (Coq_xI (Coq_xO (Coq_xO (Coq_xI
    Coq_xH))))))) :: ((Npos (Coq_xO (Coq_xI (Coq_xI (Coq_xI (Coq_xO (Coq_xI
    Coq_xH))))))) :: ((Npos (Coq_xO (Coq_xO (Coq_xI (Coq_xO (Coq_xI (Coq_xI
    Coq_xH))))))) :: ((Npos (Coq_xO (Coq_xI (Coq_xO (Coq_xI (Coq_xI
    Coq_xH)))))) :: ((Npos (Coq_xO (Coq_xO (Coq_xO (Coq_xI (Coq_xI (Coq_xI
    Coq_xH))))))) :: ((Npos (Coq_xI (Coq_xO (Coq_xI (Coq_xI (Coq_xO (Coq_xI
    Coq_xH))))))) :: ((Npos (Coq_xO (Coq_xO (Coq_xI (Coq_xI (Coq_xO (Coq_xI
    Coq_xH))))))) :: ((Npos (Coq_xO (Coq_xI (Coq_xI (Coq_xI (Coq_xO (Coq_xI
    Coq_xH))))))) :: ((Npos (Coq_xI (Coq_xI (Coq_xO (Coq_xO (Coq_xI (Coq_xI
    Coq_xH))))))) :: ((Npos (Coq_xO (Coq_xI (Coq_xO (Coq_xI (Coq_xI
    Coq_xH)))))) :: ((Npos (Coq_xI (Coq_xI (Coq_xO (Coq_xO (Coq_xI (Coq_xI
    Coq_xH))))))) :: ((Npos (Coq_xO (Coq_xO (Coq_xI (Coq_xO (Coq_xI (Coq_xI
    Coq_xH))))))) :: ((Npos (Coq_xI (Coq_xO (Coq_xO (Coq_xI (Coq_xI (Coq_xI
    Coq_xH))))))) :: ((Npos (Coq_xO (Coq_xO (Coq_xI (Coq_xI (Coq_xO (Coq_xI
    Coq_xH))))))) :: ((Npos (Coq_xI (Coq_xO (Coq_xI (Coq_xO (Coq_xO (Coq_xI
    Coq_xH))))))) :: ((Npos (Coq_xO (Coq_xI (Coq_xO (Coq_xI (Coq_xI
    Coq_xH)))))) :: ((Npos (Coq_xI (Coq_xO (Coq_xO (Coq_xO (Coq_xI
    Coq_xH)))))) :: ((Npos (Coq_xO (Coq_xI (Coq_xI (Coq_xI (Coq_xO
    Coq_xH)))))) :: ((Npos (Coq_xO (Coq_xO (Coq_xO (Coq_xO (Coq_xI
    Coq_xH)))))) :: []))))))))))))))))))))))))))))))))))))))))))))))), ((Npos
    (Coq_xO (Coq_xO (Coq_xI (Coq_xI (Coq_xO (Coq_xI Coq_xH))))))) :: ((Npos
    (Coq_xI (Coq_xO (Coq_xI (Coq_xO (Coq_xO (Coq_xI Coq_xH))))))) :: ((Npos
    (Coq_xI (Coq_xO (Coq_xO (Coq_xO (Coq_xO (Coq_xI Coq_xH))))))) :: ((Npos
    (Coq_xO (Coq_xO (Coq_xI (Coq_xO (Coq_xO (Coq_xI Coq_xH))))))) :: ((Npos
    (Coq_xI (Coq_xO (Coq_xI (Coq_xO (Coq_xO (Coq_xI Coq_xH))))))) :: ((Npos
    (Coq_xO (Coq_xI (Coq_xO (Coq_xO (Coq_xI (Coq_xI Coq_xH))))))) :: ((Npos
    (Coq_xI (Coq_xO (Coq_xI (Coq_xI (Coq_xO Coq_xH)))))) :: ((Npos (Coq_xO
    (Coq_xO (Coq_xI (Coq_xO (Coq_xI (Coq_xI Coq_xH))))))) :: ((Npos (Coq_xI
    (Coq_xO (Coq_xI (Coq_xO (Coq_xO (Coq_xI Coq_xH))))))) :: ((Npos (Coq_xO
    (Coq_xO (Coq_xO (Coq_xI (Coq_xI (Coq_xI Coq_xH))))))) :: ((Npos (Coq_xO
    (Coq_xO (Coq_xI (Coq_xO (Coq_xI (Coq_xI Coq_xH))))))) :: ((Npos (Coq_xI
    (Coq_xO (Coq_xI (Coq_xI (Coq_xO Coq_xH)))))) :: ((Npos (Coq_xI (Coq_xI
    (Coq_xO (Coq_xO (Coq_xI (Coq_xI Coq_xH))))))) :: ((Npos (Coq_xO (Coq_xO
    (Coq_xI (Coq_xO (Coq_xI (Coq_xI Coq_xH))))))) :: ((Npos (Coq_xI (Coq_xO
    (Coq_xO (Coq_xI (Coq_xI (Coq_xI Coq_xH))))))) :: ((Npos (Coq_xO (Coq_xO
    (Coq_xI (Coq_xI (Coq_xO (Coq_xI Coq_xH))))))) :: ((Npos (Coq_xI (Coq_xO
    (Coq_xI (Coq_xO (Coq_xO (Coq_xI
    Coq_xH))))))) :: [])))))))))))))))))) :: ((((Npos (Coq_xI (Coq_xO (Coq_xI
    (Coq_xO (Coq_xI (Coq_xI Coq_xH))))))) :: ((Npos (Coq_xO (Coq_xI (Coq_xO
    (Coq_xO (Coq_xI (Coq_xI Coq_xH))))))) :: ((Npos (Coq_xO (Coq_xI (Coq_xI
    (Coq_xI (Coq_xO (Coq_xI Coq_xH))))))) :: ((Npos (Coq_xO (Coq_xI (Coq_xO
    (Coq_xI (Coq_xI Coq_xH)))))) :: ((Npos (Coq_xI (Coq_xI (Coq_xI (Coq_xI
    (Coq_xO (Coq_xI Coq_xH))))))) :: ((Npos (Coq_xI (Coq_xO (Coq_xO (Coq_xO
    (Coq_xO (Coq_xI Coq_xH))))))) :: ((Npos (Coq_xI (Coq_xI (Coq_xO (Coq_xO
    (Coq_xI (Coq_xI Coq_xH))))))) :: ((Npos (Coq_xI (Coq_xO (Coq_xO (Coq_xI
    (Coq_xO (Coq_xI Coq_xH))))))) :: ((Npos (Coq_xI (Coq_xI (Coq_xO (Coq_xO
    (Coq_xI (Coq_xI Coq_xH))))))) :: ((Npos (Coq_xO (Coq_xI (Coq_xO (Coq_xI
    (Coq_xI Coq_xH)))))) :: ((Npos (Coq_xO (Coq_xI (Coq_xI (Coq_xI (Coq_xO
    (Coq_xI Coq_xH))))))) :: ((Npos (Coq_xI (Coq_xO (Coq_xO (Coq_xO (Coq_xO
    (Coq_xI Coq_xH))))))) :: ((Npos (Coq_xI (Coq_xO (Coq_xI (Coq_xI (Coq_xO
    (Coq_xI Coq_xH))))))) :: ((Npos (Coq_xI (Coq_xO (Coq_xI (Coq_xO (Coq_xO
    (Coq_xI Coq_xH))))))) :: ((Npos (Coq_xI (Coq_xI (Coq_xO (Coq_xO (Coq_xI
    (Coq_xI Coq_xH))))))) :: ((Npos (Coq_xO (Coq_xI (Coq_xO (Coq_xI (Coq_xI
    Coq_xH)))))) :: ((Npos (Coq_xO (Coq_xO (Coq_xI (Coq_xO (Coq_xI (Coq_xI
    Coq_xH))))))) :: ((Npos (Coq_xI (Coq_xI (Coq_xO (Coq_xO (Coq_xO (Coq_xI
    Coq_xH))))))) :: ((Npos (Coq_xO (Coq_xI (Coq_xO (Coq_xI (Coq_xI
    Coq_xH)))))) :: ((Npos (Coq_xI (Coq_xI (Coq_xI (Coq_xI (Coq_xO (Coq_xI
    Coq_xH))))))) :: ((Npos (Coq_xO (Coq_xO (Coq_xO (Coq_xO (Coq_xI (Coq_xI
    Coq_xH))))))) :: ((Npos (Coq_xI (Coq_xO (Coq_xI (Coq_xO (Coq_xO (Coq_xI
    Coq_xH))))))) :: ((Npos (Coq_xO (Coq_xI (Coq_xI (Coq_xI (Coq_xO (Coq_xI
    Coq_xH))))))) :: ((Npos (Coq_xO (Coq_xO (Coq_xI (Coq_xO (Coq_xO (Coq_xI
    Coq_xH))))))) :: ((Npos (Coq_xI (Coq_xI (Coq_xI (Coq_xI (Coq_xO (Coq_xI
    Coq_xH))))))) :: ((Npos (Coq_xI (Coq_xI (Coq_xO (Coq_xO (Coq_xO (Coq_xI
    Coq_xH))))))) :: ((Npos (Coq_xI (Coq_xO (Coq_xI (Coq_xO (Coq_xI (Coq_xI
    Coq_xH))))))) :: ((Npos (Coq_xI (Coq_xO (Coq_xI (Coq_xI (Coq_xO (Coq_xI
    Coq_xH))))))) :: ((Npos (Coq_xI (Coq_xO (Coq_xI (Coq_xO (Coq_xO (Coq_xI
    Coq_xH))))))) :: ((Npos (Coq_xO (Coq_xI (Coq_xI (Coq_xI (Coq_xO (Coq_xI
    Coq_xH))))))) :: ((Npos (Coq_xO (Coq_xO (Coq_xI (Coq_xO (Coq_xI (Coq_xI
    Coq_xH))))))) :: ((Npos (Coq_xO (Coq_xI (Coq_xO (Coq_xI (Coq_xI
    Coq_xH)))))) :: ((Npos (Coq_xO (Coq_xO (Coq_xO (Coq_xI (Coq_xI (Coq_xI
    Coq_xH))))))) :: ((Npos (Coq_xI (Coq_xO (Coq_xI (Coq_xI (Coq_xO (Coq_xI
    Coq_xH))))))) :: ((Npos (Coq_xO (Coq_xO (Coq_xI (Coq_xI (Coq_xO (Coq_xI
    Coq_xH))))))) :: ((Npos (Coq_xO (Coq_xI (Coq_xI (Coq_xI (Coq_xO (Coq_xI
    Coq_xH))))))) :: ((Npos (Coq_xI (Coq_xI (Coq_xO (Coq_xO (Coq_xI (Coq_xI
    Coq_xH))))))) :: ((Npos (Coq_xO (Coq_xI (Coq_xO (Coq_xI (Coq_xI
    Coq_xH)))))) :: ((Npos (Coq_xI (Coq_xI (Coq_xO (Coq_xO (Coq_xI (Coq_xI
    Coq_xH))))))) :: ((Npos (Coq_xO (Coq_xO (Coq_xI (Coq_xO (Coq_xI (Coq_xI
    Coq_xH))))))) :: ((Npos (Coq_xI (Coq_xO (Coq_xO (Coq_xI (Coq_xI (Coq_xI
    Coq_xH))))))) :: ((Npos (Coq_xO (Coq_xO (Coq_xI (Coq_xI (Coq_xO (Coq_xI
    Coq_xH))))))) :: ((Npos (Coq_xI (Coq_xO (Coq_xI (Coq_xO (Coq_xO (Coq_xI
    Coq_xH))))))) :: ((Npos (Coq_xO (Coq_xI (Coq_xO (Coq_xI (Coq_xI
    Coq_xH)))))) :: ((Npos (Coq_xI (Coq_xO (Coq_xO (Coq_xO (Coq_xI
    Coq_xH)))))) :: ((Npos (Coq_xO (Coq_xI (Coq_xI (Coq_xI (Coq_xO
    Coq_xH)))))) :: ((Npos (Coq_xO (Coq_xO (Coq_xO (Coq_xO (Coq_xI
    Coq_xH)))))) :: []))))))))))))))))))))))))))))))))))))))))))))))), ((Npos
    (Coq_xO (Coq_xO (Coq_xI (Coq_xI (Coq_xO (Coq_xI Coq_xH))))))) :: ((Npos
    (Coq_xI (Coq_xO (Coq_xO (Coq_xI (Coq_xO (Coq_xI Coq_xH))))))) :: ((Npos
    (Coq_xI (Coq_xI (Coq_xO (Coq_xO (Coq_xI (Coq_xI Coq_xH))))))) :: ((Npos
    (Coq_xO (Coq_xO (Coq_xI (Coq_xO (Coq_xI (Coq_xI Coq_xH))))))) :: ((Npos
    (Coq_xI (Coq_xO (Coq_xI (Coq_xI (Coq_xO Coq_xH)))))) :: ((Npos (Coq_xI
    (Coq_xI (Coq_xO (Coq_xO (Coq_xI (Coq_xI Coq_xH))))))) :: ((Npos (Coq_xO
    (Coq_xO (Coq_xI (Coq_xO (Coq_xI (Coq_xI Coq_xH))))))) :: ((Npos (Coq_xI
    (Coq_xO (Coq_xO (Coq_xI (Coq_xI (Coq_xI Coq_xH))))))) :: ((Npos (Coq_xO
    (Coq_xO (Coq_xI (Coq_xI (Coq_xO (Coq_xI Coq_xH))))))) :: ((Npos (Coq_xI
    (Coq_xO (Coq_xI (Coq_xO (Coq_xO (Coq_xI Coq_xH))))))) :: ((Npos (Coq_xI
    (Coq_xO (Coq_xI (Coq_xI (Coq_xO Coq_xH)))))) :: ((Npos (Coq_xO (Coq_xI
    (Coq_xI (Coq_xI (Coq_xO (Coq_xI Coq_xH))))))) :: ((Npos (Coq_xI (Coq_xO
    (Coq_xO (Coq_xO (Coq_xO (Coq_xI Coq_xH))))))) :: ((Npos (Coq_xI (Coq_xO
    (Coq_xI (Coq_xI (Coq_xO (Coq_xI Coq_xH))))))) :: ((Npos (Coq_xI (Coq_xO
    (Coq_xI (Coq_xO (Coq_xO (Coq_xI
    Coq_xH))))))) :: [])))))))))))))))) :: ((((Npos (Coq_xI (Coq_xO (Coq_xI
    (Coq_xO (Coq_xI (Coq_xI Coq_xH))))))) :: ((Npos (Coq_xO (Coq_xI (Coq_xO
    (Coq_xO (Coq_xI (Coq_xI Coq_xH))))))) :: ((Npos (Coq_xO (Coq_xI (Coq_xI
    (Coq_xI (Coq_xO (Coq_xI Coq_xH))))))) :: ((Npos (Coq_xO (Coq_xI (Coq_xO
    (Coq_xI (Coq_xI Coq_xH)))))) :: ((Npos (Coq_xI (Coq_xI (Coq_xI (Coq_xI
    (Coq_xO (Coq_xI Coq_xH))))))) :: ((Npos (Coq_xI (Coq_xO (Coq_xO (Coq_xO
    (Coq_xO (Coq_xI Coq_xH))))))) :: ((Npos (Coq_xI (Coq_xI (Coq_xO (Coq_xO
    (Coq_xI (Coq_xI Coq_xH))))))) :: ((Npos (Coq_xI (Coq_xO (Coq_xO (Coq_xI
    (Coq_xO (Coq_xI Coq_xH))))))) :: ((Npos (Coq_xI (Coq_xI (Coq_xO (Coq_xO
    (Coq_xI (Coq_xI Coq_xH))))))) :: ((Npos (Coq_xO (Coq_xI (Coq_xO (Coq_xI
    (Coq_xI Coq_xH)))))) :: ((Npos (Coq_xO (Coq_xI (Coq_xI (Coq_xI (Coq_xO
    (Coq_xI Coq_xH))))))) :: ((Npos (Coq_xI (Coq_xO (Coq_xO (Coq_xO (Coq_xO
    (Coq_xI Coq_xH))))))) :: ((Npos (Coq_xI (Coq_xO (Coq_xI (Coq_xI (Coq_xO
    (Coq_xI Coq_xH))))))) :: ((Npos (Coq_xI (Coq_xO (Coq_xI (Coq_xO (Coq_xO
    (Coq_xI Coq_xH))))))) :: ((Npos (Coq_xI (Coq_xI (Coq_xO (Coq_xO (Coq_xI
    (Coq_xI Coq_xH))))))) :: ((Npos (Coq_xO (Coq_xI (Coq_xO (Coq_xI (Coq_xI
    Coq_xH)))))) :: ((Npos (Coq_xO (Coq_xO (Coq_xI (Coq_xO (Coq_xI (Coq_xI
    Coq_xH))))))) :: ((Npos (Coq_xI (Coq_xI (Coq_xO (Coq_xO (Coq_xO (Coq_xI
    Coq_xH))))))) :: ((Npos (Coq_xO (Coq_xI (Coq_xO (Coq_xI (Coq_xI
    Coq_xH)))))) :: ((Npos (Coq_xI (Coq_xI (Coq_xI (Coq_xI (Coq_xO (Coq_xI
    Coq_xH))))))) :: ((Npos (Coq_xO (Coq_xO (Coq_xO (Coq_xO (Coq_xI (Coq_xI
    Coq_xH))))))) :: ((Npos (Coq_xI (Coq_xO (Coq_xI (Coq_xO (Coq_xO (Coq_xI
    Coq_xH))))))) :: ((Npos (Coq_xO (Coq_xI (Coq_xI (Coq_xI (Coq_xO (Coq_xI
    Coq_xH))))))) :: ((Npos (Coq_xO (Coq_xO (Coq_xI (Coq_xO (Coq_xO (Coq_xI
    Coq_xH))))))) :: ((Npos (Coq_xI (Coq_xI (Coq_xI (Coq_xI (Coq_xO (Coq_xI
    Coq_xH))))))) :: ((Npos (Coq_xI (Coq_xI (Coq_xO (Coq_xO (Coq_xO (Coq_xI
    Coq_xH))))))) :: ((Npos (Coq_xI (Coq_xO (Coq_xI (Coq_xO (Coq_xI (Coq_xI
    Coq_xH))))))) :: ((Npos (Coq_xI (Coq_xO (Coq_xI (Coq_xI (Coq_xO (Coq_xI
    Coq_xH))))))) :: ((Npos (Coq_xI (Coq_xO (Coq_xI (Coq_xO (Coq_xO (Coq_xI
    Coq_xH))))))) :: ((Npos (Coq_xO (Coq_xI (Coq_xI (Coq_xI (Coq_xO (Coq_xI
    Coq_xH))))))) :: ((Npos (Coq_xO (Coq_xO (Coq_xI (Coq_xO (Coq_xI (Coq_xI
    Coq_xH))))))) :: ((Npos (Coq_xO (Coq_xI (Coq_xO (Coq_xI (Coq_xI
    Coq_xH)))))) :: ((Npos (Coq_xO (Coq_xO (Coq_xO (Coq_xI (Coq_xI (Coq_xI
    Coq_xH))))))) :: ((Npos (Coq_xI (Coq_xO (Coq_xI (Coq_xI (Coq_xO (Coq_xI
    Coq_xH))))))) :: ((Npos (Coq_xO (Coq_xO (Coq_xI (Coq_xI (Coq_xO (Coq_xI
    Coq_xH))))))) :: ((Npos (Coq_xO (Coq_xI (Coq_xI (Coq_xI (Coq_xO (Coq_xI
    Coq_xH))))))) :: ((Npos (Coq_xI (Coq_xI (Coq_xO (Coq_xO (Coq_xI (Coq_xI
    Coq_xH))))))) :: ((Npos (Coq_xO (Coq_xI (Coq_xO (Coq_xI (Coq_xI
    Coq_xH)))))) :: ((Npos (Coq_xI (Coq_xI (Coq_xO (Coq_xO (Coq_xI (Coq_xI
    Coq_xH))))))) :: ((Npos (Coq_xO (Coq_xO (Coq_xI (Coq_xO (Coq_xI (Coq_xI
    Coq_xH))))))) :: ((Npos (Coq_xI (Coq_xO (Coq_xO (Coq_xI (Coq_xI (Coq_xI
    Coq_xH))))))) :: ((Npos (Coq_xO (Coq_xO (Coq_xI (Coq_xI (Coq_xO (Coq_xI
    Coq_xH))))))) :: ((Npos (Coq_xI (Coq_xO (Coq_xI (Coq_xO (Coq_xO (Coq_xI
    Coq_xH))))))) :: ((Npos (Coq_xO (Coq_xI (Coq_xO (Coq_xI (Coq_xI
    Coq_xH)))))) :: ((Npos (Coq_xI (Coq_xO (Coq_xO (Coq_xO (Coq_xI
    Coq_xH)))))) :: ((Npos (Coq_xO (Coq_xI (Coq_xI (Coq_xI (Coq_xO
    Coq_xH)))))) :: ((Npos (Coq_xO (Coq_xO (Coq_xO (Coq_xO (Coq_xI
    Coq_xH)))))) :: []))))))))))))))))))))))))))))))))))))))))))))))), ((Npos
    (Coq_xI (Coq_xO (Coq_xI (Coq_xI (Coq_xO (Coq_xI Coq_xH))))))) :: ((Npos
    (Coq_xI (Coq_xO (Coq_xO (Coq_xO (Coq_xO (Coq_xI Coq_xH))))))) :: ((Npos
    (Coq_xI (Coq_xI (Coq_xO (Coq_xO (Coq_xI (Coq_xI Coq_xH))))))) :: ((Npos
    (Coq_xO (Coq_xO (Coq_xI (Coq_xO (Coq_xI (Coq_xI Coq_xH))))))) :: ((Npos
    (Coq_xI (Coq_xO (Coq_xI (Coq_xO (Coq_xO (Coq_xI Coq_xH))))))) :: ((Npos
    (Coq_xO (Coq_xI (Coq_xO (Coq_xO (Coq_xI (Coq_xI Coq_xH))))))) :: ((Npos
    (Coq_xI (Coq_xO (Coq_xI (Coq_xI (Coq_xO Coq_xH)))))) :: ((Npos (Coq_xO
    (Coq_xO (Coq_xO (Coq_xO (Coq_xI (Coq_xI Coq_xH))))))) :: ((Npos (Coq_xI
    (Coq_xO (Coq_xO (Coq_xO (Coq_xO (Coq_xI Coq_xH))))))) :: ((Npos (Coq_xI
    (Coq_xI (Coq_xI (Coq_xO (Coq_xO (Coq_xI Coq_xH))))))) :: ((Npos (Coq_xI
    (Coq_xO (Coq_xI (Coq_xO (Coq_xO (Coq_xI Coq_xH))))))) :: ((Npos (Coq_xI
    (Coq_xO (Coq_xI (Coq_xI (Coq_xO Coq_xH)))))) :: ((Npos (Coq_xO (Coq_xI
    (Coq_xI (Coq_xI (Coq_xO (Coq_xI Coq_xH))))))) :: ((Npos (Coq_xI (Coq_xO
    (Coq_xO (Coq_xO (Coq_xO (Coq_xI Coq_xH))))))) :: ((Npos (Coq_xI (Coq_xO
    (Coq_xI (Coq_xI (Coq_xO (Coq_xI Coq_xH))))))) :: ((Npos (Coq_xI (Coq_xO
    (Coq_xI (Coq_xO (Coq_xO (Coq_xI
    Coq_xH))))))) :: []))))))))))))))))) :: ((((Npos (Coq_xI (Coq_xO (Coq_xI
    (Coq_xO (Coq_xI (Coq_xI Coq_xH))))))) :: ((Npos (Coq_xO (Coq_xI (Coq_xO
    (Coq_xO (Coq_xI (Coq_xI Coq_xH))))))) :: ((Npos (Coq_xO (Coq_xI (Coq_xI
    (Coq_xI (Coq_xO (Coq_xI Coq_xH))))))) :: ((Npos (Coq_xO (Coq_xI (Coq_xO
    (Coq_xI (Coq_xI Coq_xH)))))) :: ((Npos (Coq_xI (Coq_xI (Coq_xI (Coq_xI
    (Coq_xO (Coq_xI Coq_xH))))))) :: ((Npos (Coq_xI (Coq_xO (Coq_xO (Coq_xO
    (Coq_xO (Coq_xI Coq_xH))))))) :: ((Npos (Coq_xI (Coq_xI (Coq_xO (Coq_xO
    (Coq_xI (Coq_xI Coq_xH))))))) :: ((Npos (Coq_xI (Coq_xO (Coq_xO (Coq_xI
    (Coq_xO (Coq_xI Coq_xH))))))) :: ((Npos (Coq_xI (Coq_xI (Coq_xO (Coq_xO
    (Coq_xI (Coq_xI Coq_xH))))))) :: ((Npos (Coq_xO (Coq_xI (Coq_xO (Coq_xI
    (Coq_xI Coq_xH)))))) :: ((Npos (Coq_xO (Coq_xI (Coq_xI (Coq_xI (Coq_xO
    (Coq_xI Coq_xH))))))) :: ((Npos (Coq_xI (Coq_xO (Coq_xO (Coq_xO (Coq_xO
    (Coq_xI Coq_xH))))))) :: ((Npos (Coq_xI (Coq_xO (Coq_xI (Coq_xI (Coq_xO
    (Coq_xI Coq_xH))))))) :: ((Npos (Coq_xI (Coq_xO (Coq_xI (Coq_xO (Coq_xO
    (Coq_xI Coq_xH))))))) :: ((Npos (Coq_xI (Coq_xI (Coq_xO (Coq_xO (Coq_xI
    (Coq_xI Coq_xH))))))) :: ((Npos (Coq_xO (Coq_xI (Coq_xO (Coq_xI (Coq_xI
    Coq_xH)))))) :: ((Npos (Coq_xO (Coq_xO (Coq_xI (Coq_xO (Coq_xI (Coq_xI
    Coq_xH))))))) :: ((Npos (Coq_xI (Coq_xI (Coq_xO (Coq_xO (Coq_xO (Coq_xI
    Coq_xH))))))) :: ((Npos (Coq_xO (Coq_xI (Coq_xO (Coq_xI (Coq_xI
    Coq_xH)))))) :: ((Npos (Coq_xI (Coq_xI (Coq_xI (Coq_xI (Coq_xO (Coq_xI
    Coq_xH))))))) :: ((Npos (Coq_xO (Coq_xO (Coq_xO (Coq_xO (Coq_xI (Coq_xI
    Coq_xH))))))) :: ((Npos (Coq_xI (Coq_xO (Coq_xI (Coq_xO (Coq_xO (Coq_xI
    Coq_xH))))))) :: ((Npos (Coq_xO (Coq_xI (Coq_xI (Coq_xI (Coq_xO (Coq_xI
    Coq_xH))))))) :: ((Npos (Coq_xO (Coq_xO (Coq_xI (Coq_xO (Coq_xO (Coq_xI
    Coq_xH))))))) :: ((Npos (Coq_xI (Coq_xI (Coq_xI (Coq_xI (Coq_xO (Coq_xI
    Coq_xH))))))) :: ((Npos (Coq_xI (Coq_xI (Coq_xO (Coq_xO (Coq_xO (Coq_xI
    Coq_xH))))))) :: ((Npos (Coq_xI (Coq_xO (Coq_xI (Coq_xO (Coq_xI (Coq_xI
    Coq_xH))))))) :: ((Npos (Coq_xI (Coq_xO (Coq_xI (Coq_xI (Coq_xO (Coq_xI
    Coq_xH))))))) :: ((Npos (Coq_xI (Coq_xO (Coq_xI (Coq_xO (Coq_xO (Coq_xI
    Coq_xH))))))) :: ((Npos (Coq_xO (Coq_xI (Coq_xI (Coq_xI (Coq_xO (Coq_xI
    Coq_xH))))))) :: ((Npos (Coq_xO (Coq_xO (Coq_xI (Coq_xO (Coq_xI (Coq_xI
    Coq_xH))))))) :: ((Npos (Coq_xO (Coq_xI (Coq_xO (Coq_xI (Coq_xI
    Coq_xH)))))) :: ((Npos (Coq_xO (Coq_xO (Coq_xO (Coq_xI (Coq_xI (Coq_xI
    Coq_xH))))))) :: ((Npos (Coq_xI (Coq_xO (Coq_xI (Coq_xI (Coq_xO (Coq_xI
    Coq_xH))))))) :: ((Npos (Coq_xO (Coq_xO (Coq_xI (Coq_xI (Coq_xO (Coq_xI
    Coq_xH))))))) :: ((Npos (Coq_xO (Coq_xI (Coq_xI (Coq_xI (Coq_xO (Coq_xI
    Coq_xH))))))) :: ((Npos (Coq_xI (Coq_xI (Coq_xO (Coq_xO (Coq_xI (Coq_xI
    Coq_xH))))))) :: ((Npos (Coq_xO (Coq_xI (Coq_xO (Coq_xI (Coq_xI
    Coq_xH)))))) :: ((Npos (Coq_xI (Coq_xI (Coq_xO (Coq_xO (Coq_xI (Coq_xI
    Coq_xH))))))) :: ((Npos (Coq_xO (Coq_xO (Coq_xI (Coq_xO (Coq_xI (Coq_xI
    Coq_xH))))))) :: ((Npos (Coq_xI (Coq_xO (Coq_xO (Coq_xI (Coq_xI (Coq_xI
    Coq_xH))))))) :: ((Npos (Coq_xO (Coq_xO (Coq_xI (Coq_xI (Coq_xO (Coq_xI
    Coq_xH))))))) :: ((Npos (Coq_xI (Coq_xO (Coq_xI (Coq_xO (Coq_xO (Coq_xI
    Coq_xH))))))) :: ((Npos (Coq_xO (Coq_xI (Coq_xO (Coq_xI (Coq_xI
    Coq_xH)))))) :: ((Npos (Coq_xI (Coq_xO (Coq_xO (Coq_xO (Coq_xI
    Coq_xH)))))) :: ((Npos (Coq_xO (Coq_xI (Coq_xI (Coq_xI (Coq_xO
    Coq_xH)))))) :: ((Npos (Coq_xO (Coq_xO (Coq_xO (Coq_xO (Coq_xI
    Coq_xH)))))) :: []))))))))))))))))))))))))))))))))))))))))))))))), ((Npos
    (Coq_xO (Coq_xI (Coq_xI (Coq_xI (Coq_xO (Coq_xI Coq_xH))))))) :: ((Npos
    (Coq_xI (Coq_xO (Coq_xI (Coq_xO (Coq_xO (Coq_xI Coq_xH))))))) :: ((Npos
    (Coq_xO (Coq_xO (Coq_xO (Coq_xI (Coq_xI (Coq_xI Coq_xH))))))) :: ((Npos
    (Coq_xO (Coq_xO (Coq_xI (Coq_xO (Coq_xI (Coq_xI Coq_xH))))))) :: ((Npos
    (Coq_xI (Coq_xO (Coq_xI (Coq_xI (Coq_xO Coq_xH)))))) :: ((Npos (Coq_xI
    (Coq_xI (Coq_xO (Coq_xO (Coq_xI (Coq_xI Coq_xH))))))) :: ((Npos (Coq_xO
    (Coq_xO (Coq_xI (Coq_xO (Coq_xI (Coq_xI Coq_xH))))))) :: ((Npos (Coq_xI
    (Coq_xO (Coq_xO (Coq_xI (Coq_xI (Coq_xI Coq_xH))))))) :: ((Npos (Coq_xO
    (Coq_xO (Coq_xI (Coq_xI (Coq_xO (Coq_xI Coq_xH))))))) :: ((Npos (Coq_xI
    (Coq_xO (Coq_xI (Coq_xO (Coq_xO (Coq_xI Coq_xH))))))) :: ((Npos (Coq_xI
    (Coq_xO (Coq_xI (Coq_xI (Coq_xO Coq_xH)))))) :: ((Npos (Coq_xO (Coq_xI
    (Coq_xI (Coq_xI (Coq_xO (Coq_xI Coq_xH))))))) :: ((Npos (Coq_xI (Coq_xO
    (Coq_xO (Coq_xO (Coq_xO (Coq_xI Coq_xH))))))) :: ((Npos (Coq_xI (Coq_xO
    (Coq_xI (Coq_xI (Coq_xO (Coq_xI Coq_xH))))))) :: ((Npos (Coq_xI (Coq_xO
    (Coq_xI (Coq_xO (Coq_xO (Coq_xI
    Coq_xH))))))) :: [])))))))))))))))) :: ((((Npos (Coq_xI (Coq_xO (Coq_xI
    (Coq_xO (Coq_xI (Coq_xI Coq_xH))))))) :: ((Npos (Coq_xO (Coq_xI (Coq_xO
    (Coq_xO (Coq_xI (Coq_xI Coq_xH))))))) :: ((Npos (Coq_xO (Coq_xI (Coq_xI
    (Coq_xI (Coq_xO (Coq_xI Coq_xH))))))) :: ((Npos (Coq_xO (Coq_xI (Coq_xO
    (Coq_xI (Coq_xI Coq_xH)))))) :: ((Npos (Coq_xI (Coq_xI (Coq_xI (Coq_xI
    (Coq_xO (Coq_xI Coq_xH))))))) :: ((Npos (Coq_xI (Coq_xO (Coq_xO (Coq_xO
    (Coq_xO (Coq_xI Coq_xH))))))) :: ((Npos (Coq_xI (Coq_xI (Coq_xO (Coq_xO
    (Coq_xI (Coq_xI Coq_xH))))))) :: ((Npos (Coq_xI (Coq_xO (Coq_xO (Coq_xI
    (Coq_xO (Coq_xI Coq_xH))))))) :: ((Npos (Coq_xI (Coq_xI (Coq_xO (Coq_xO
    (Coq_xI (Coq_xI Coq_xH))))))) :: ((Npos (Coq_xO (Coq_xI (Coq_xO (Coq_xI
    (Coq_xI Coq_xH)))))) :: ((Npos (Coq_xO (Coq_xI (Coq_xI (Coq_xI (Coq_xO
    (Coq_xI Coq_xH))))))) :: ((Npos (Coq_xI (Coq_xO (Coq_xO (Coq_xO (Coq_xO
    (Coq_xI Coq_xH))))))) :: ((Npos (Coq_xI (Coq_xO (Coq_xI (Coq_xI (Coq_xO
    (Coq_xI Coq_xH))))))) :: ((Npos (Coq_xI (Coq_xO (Coq_xI (Coq_xO (Coq_xO
    (Coq_xI Coq_xH))))))) :: ((Npos (Coq_xI (Coq_xI (Coq_xO (Coq_xO (Coq_xI
    (Coq_xI Coq_xH))))))) :: ((Npos (Coq_xO (Coq_xI (Coq_xO (Coq_xI (Coq_xI
    Coq_xH)))))) :: ((Npos (Coq_xO (Coq_xO (Coq_xI (Coq_xO (Coq_xI (Coq_xI
    Coq_xH))))))) :: ((Npos (Coq_xI (Coq_xI (Coq_xO (Coq_xO (Coq_xO (Coq_xI
    Coq_xH))))))) :: ((Npos (Coq_xO (Coq_xI (Coq_xO (Coq_xI (Coq_xI
    Coq_xH)))))) :: ((Npos (Coq_xI (Coq_xI (Coq_xI (Coq_xI (Coq_xO (Coq_xI
    Coq_xH))))))) :: ((Npos (Coq_xO (Coq_xO (Coq_xO (Coq_xO (Coq_xI (Coq_xI
    Coq_xH))))))) :: ((Npos (Coq_xI (Coq_xO (Coq_xI (Coq_xO (Coq_xO (Coq_xI
    Coq_xH))))))) :: ((Npos (Coq_xO (Coq_xI (Coq_xI (Coq_xI (Coq_xO (Coq_xI
    Coq_xH))))))) :: ((Npos (Coq_xO (Coq_xO (Coq_xI (Coq_xO (Coq_xO (Coq_xI
    Coq_xH))))))) :: ((Npos (Coq_xI (Coq_xI (Coq_xI (Coq_xI (Coq_xO (Coq_xI
    Coq_xH))))))) :: ((Npos (Coq_xI (Coq_xI (Coq_xO (Coq_xO (Coq_xO (Coq_xI
    Coq_xH))))))) :: ((Npos (Coq_xI (Coq_xO (Coq_xI (Coq_xO (Coq_xI (Coq_xI
    Coq_xH))))))) :: ((Npos (Coq_xI (Coq_xO (Coq_xI (Coq_xI (Coq_xO (Coq_xI
    Coq_xH))))))) :: ((Npos (Coq_xI (Coq_xO (Coq_xI (Coq_xO (Coq_xO (Coq_xI
    Coq_xH))))))) :: ((Npos (Coq_xO (Coq_xI (Coq_xI (Coq_xI (Coq_xO (Coq_xI
    Coq_xH))))))) :: ((Npos (Coq_xO (Coq_xO (Coq_xI (Coq_xO (Coq_xI (Coq_xI
    Coq_xH))))))) :: ((Npos (Coq_xO (Coq_xI (Coq_xO (Coq_xI (Coq_xI
    Coq_xH)))))) :: ((Npos (Coq_xO (Coq_xO (Coq_xO (Coq_xI (Coq_xI (Coq_xI
    Coq_xH))))))) :: ((Npos (Coq_xI (Coq_xO (Coq_xI (Coq_xI (Coq_xO (Coq_xI
    Coq_xH))))))) :: ((Npos (Coq_xO (Coq_xO (Coq_xI (Coq_xI (Coq_xO (Coq_xI
    Coq_xH))))))) :: ((Npos (Coq_xO (Coq_xI (Coq_xI (Coq_xI (Coq_xO (Coq_xI
    Coq_xH))))))) :: ((Npos (Coq_xI (Coq_xI (Coq_xO (Coq_xO (Coq_xI (Coq_xI
    Coq_xH))))))) :: ((Npos (Coq_xO (Coq_xI (Coq_xO (Coq_xI (Coq_xI
    Coq_xH)))))) :: ((Npos (Coq_xI (Coq_xI (Coq_xO (Coq_xO (Coq_xI (Coq_xI
    Coq_xH))))))) :: ((Npos (Coq_xO (Coq_xO (Coq_xI (Coq_xO (Coq_xI (Coq_xI
    Coq_xH))))))) :: ((Npos (Coq_xI (Coq_xO (Coq_xO (Coq_xI (Coq_xI (Coq_xI
    Coq_xH))))))) :: ((Npos (Coq_xO (Coq_xO (Coq_xI (Coq_xI (Coq_xO (Coq_xI
    Coq_xH))))))) :: ((Npos (Coq_xI (Coq_xO (Coq_xI (Coq_xO (Coq_xO (Coq_xI
    Coq_xH))))))) :: ((Npos (Coq_xO (Coq_xI (Coq_xO (Coq_xI (Coq_xI
    Coq_xH)))))) :: ((Npos (Coq_xI (Coq_xO (Coq_xO (Coq_xO (Coq_xI
    Coq_xH)))))) :: ((Npos (Coq_xO (Coq_xI (Coq_xI (Coq_xI (Coq_xO
    Coq_xH)))))) :: ((Npos (Coq_xO (Coq_xO (Coq_xO (Coq_xO (Coq_xI
    Coq_xH)))))) :: []))))))))))))))))))))))))))))))))))))))))))))))), ((Npos
    (Coq_xO (Coq_xO (Coq_xO (Coq_xO (Coq_xI (Coq_xI Coq_xH))))))) :: ((Npos
    (Coq_xI (Coq_xO (Coq_xO (Coq_xO (Coq_xO (Coq_xI Coq_xH))))))) :: ((Npos
    (Coq_xI (Coq_xI (Coq_xI (Coq_xO (Coq_xO (Coq_xI Coq_xH))))))) :: ((Npos
    (Coq_xI (Coq_xO (Coq_xI (Coq_xO (Coq_xO (Coq_xI Coq_xH))))))) :: ((Npos
    (Coq_xI (Coq_xO (Coq_xI (Coq_xI (Coq_xO Coq_xH)))))) :: ((Npos (Coq_xO
    (Coq_xO (Coq_xI (Coq_xI (Coq_xO (Coq_xI Coq_xH))))))) :: ((Npos (Coq_xI
    (Coq_xO (Coq_xO (Coq_xO (Coq_xO (Coq_xI Coq_xH))))))) :: ((Npos (Coq_xI
    (Coq_xO (Coq_xO (Coq_xI (Coq_xI (Coq_xI Coq_xH))))))) :: ((Npos (Coq_xI
    (Coq_xI (Coq_xI (Coq_xI (Coq_xO (Coq_xI Coq_xH))))))) :: ((Npos (Coq_xI
    (Coq_xO (Coq_xI (Coq_xO (Coq_xI (Coq_xI Coq_xH))))))) :: ((Npos (Coq_xO
    (Coq_xO (Coq_xI (Coq_xO (Coq_xI (Coq_xI Coq_xH))))))) :: ((Npos (Coq_xI
    (Coq_xO (Coq_xI (Coq_xI (Coq_xO Coq_xH)))))) :: ((Npos (Coq_xO (Coq_xI
    (Coq_xI (Coq_xI (Coq_xO (Coq_xI Coq_xH))))))) :: ((Npos (Coq_xI (Coq_xO
    (Coq_xO (Coq_xO (Coq_xO (Coq_xI Coq_xH))))))) :: ((Npos (Coq_xI (Coq_xO
    (Coq_xI (Coq_xI (Coq_xO (Coq_xI Coq_xH))))))) :: ((Npos (Coq_xI (Coq_xO
    (Coq_xI (Coq_xO (Coq_xO (Coq_xI
    Coq_xH))))))) :: []))))))))))))))))) :: ((((Npos (Coq_xI (Coq_xO (Coq_xI
    (Coq_xO (Coq_xI (Coq_xI Coq_xH))))))) :: ((Npos (Coq_xO (Coq_xI (Coq_xO
    (Coq_xO (Coq_xI (Coq_xI Coq_xH))))))) :: ((Npos (Coq_xO (Coq_xI (Coq_xI
    (Coq_xI (Coq_xO (Coq_xI Coq_xH))))))) :: ((Npos (Coq_xO (Coq_xI (Coq_xO
    (Coq_xI (Coq_xI Coq_xH)))))) :: ((Npos (Coq_xI (Coq_xI (Coq_xI (Coq_xI
    (Coq_xO (Coq_xI Coq_xH))))))) :: ((Npos (Coq_xI (Coq_xO (Coq_xO (Coq_xO
    (Coq_xO (Coq_xI Coq_xH))))))) :: ((Npos (Coq_xI (Coq_xI (Coq_xO (Coq_xO
    (Coq_xI (Coq_xI Coq_xH))))))) :: ((Npos (Coq_xI (Coq_xO (Coq_xO (Coq_xI
    (Coq_xO (Coq_xI Coq_xH))))))) :: ((Npos (Coq_xI (Coq_xI (Coq_xO (Coq_xO
    (Coq_xI (Coq_xI Coq_xH))))))) :: ((Npos (Coq_xO (Coq_xI (Coq_xO (Coq_xI
    (Coq_xI Coq_xH)))))) :: ((Npos (Coq_xO (Coq_xI (Coq_xI (Coq_xI (Coq_xO
    (Coq_xI Coq_xH))))))) :: ((Npos (Coq_xI (Coq_xO (Coq_xO (Coq_xO (Coq_xO
    (Coq_xI Coq_xH))))))) :: ((Npos (Coq_xI (Coq_xO (Coq_xI (Coq_xI (Coq_xO
    (Coq_xI Coq_xH))))))) :: ((Npos (Coq_xI (Coq_xO (Coq_xI (Coq_xO (Coq_xO
    (Coq_xI Coq_xH))))))) :: ((Npos (Coq_xI (Coq_xI (Coq_xO (Coq_xO (Coq_xI
    (Coq_xI Coq_xH))))))) :: ((Npos (Coq_xO (Coq_xI (Coq_xO (Coq_xI (Coq_xI
    Coq_xH)))))) :: ((Npos (Coq_xO (Coq_xO (Coq_xI (Coq_xO (Coq_xI (Coq_xI
    Coq_xH))))))) :: ((Npos (Coq_xI (Coq_xI (Coq_xO (Coq_xO (Coq_xO (Coq_xI
    Coq_xH))))))) :: ((Npos (Coq_xO (Coq_xI (Coq_xO (Coq_xI (Coq_xI
    Coq_xH)))))) :: ((Npos (Coq_xI (Coq_xI (Coq_xI (Coq_xI (Coq_xO (Coq_xI
    Coq_xH))))))) :: ((Npos (Coq_xO (Coq_xO (Coq_xO (Coq_xO (Coq_xI (Coq_xI
    Coq_xH))))))) :: ((Npos (Coq_xI (Coq_xO (Coq_xI (Coq_xO (Coq_xO (Coq_xI
    Coq_xH))))))) :: ((Npos (Coq_xO (Coq_xI (Coq_xI (Coq_xI (Coq_xO (Coq_xI
    Coq_xH))))))) :: ((Npos (Coq_xO (Coq_xO (Coq_xI (Coq_xO (Coq_xO (Coq_xI
    Coq_xH))))))) :: ((Npos (Coq_xI (Coq_xI (Coq_xI (Coq_xI (Coq_xO (Coq_xI
    Coq_xH))))))) :: ((Npos (Coq_xI (Coq_xI (Coq_xO (Coq_xO (Coq_xO (Coq_xI
    Coq_xH))))))) :: ((Npos (Coq_xI (Coq_xO (Coq_xI (Coq_xO (Coq_xI (Coq_xI
    Coq_xH))))))) :: ((Npos (Coq_xI (Coq_xO (Coq_xI (Coq_xI (Coq_xO (Coq_xI
    Coq_xH))))))) :: ((Npos (Coq_xI (Coq_xO (Coq_xI (Coq_xO (Coq_xO (Coq_xI
    Coq_xH))))))) :: ((Npos (Coq_xO (Coq_xI (Coq_xI (Coq_xI (Coq_xO (Coq_xI
    Coq_xH))))))) :: ((Npos (Coq_xO (Coq_xO (Coq_xI (Coq_xO (Coq_xI (Coq_xI
    Coq_xH))))))) :: ((Npos (Coq_xO (Coq_xI (Coq_xO (Coq_xI (Coq_xI
    Coq_xH)))))) :: ((Npos (Coq_xO (Coq_xO (Coq_xO (Coq_xI (Coq_xI (Coq_xI
    Coq_xH))))))) :: ((Npos (Coq_xI (Coq_xO (Coq_xI (Coq_xI (Coq_xO (Coq_xI
    Coq_xH))))))) :: ((Npos (Coq_xO (Coq_xO (Coq_xI (Coq_xI (Coq_xO (Coq_xI
    Coq_xH))))))) :: ((Npos (Coq_xO (Coq_xI (Coq_xI (Coq_xI (Coq_xO (Coq_xI
    Coq_xH))))))) :: ((Npos (Coq_xI (Coq_xI (Coq_xO (Coq_xO (Coq_xI (Coq_xI
    Coq_xH))))))) :: ((Npos (Coq_xO (Coq_xI (Coq_xO (Coq_xI (Coq_xI
    Coq_xH)))))) :: ((Npos (Coq_xI (Coq_xI (Coq_xO (Coq_xO (Coq_xI (Coq_xI
    Coq_xH))))))) :: ((Npos (Coq_xO (Coq_xO (Coq_xI (Coq_xO (Coq_xI (Coq_xI
    Coq_xH))))))) :: ((Npos (Coq_xI (Coq_xO (Coq_xO (Coq_xI (Coq_xI (Coq_xI
    Coq_xH))))))) :: ((Npos (Coq_xO (Coq_xO (Coq_xI (Coq_xI (Coq_xO (Coq_xI
    Coq_xH))))))) :: ((Npos (Coq_xI (Coq_xO (Coq_xI (Coq_xO (Coq_xO (Coq_xI
    Coq_xH))))))) :: ((Npos (Coq_xO (Coq_xI (Coq_xO (Coq_xI (Coq_xI
    Coq_xH)))))) :: ((Npos (Coq_xI (Coq_xO (Coq_xO (Coq_xO (Coq_xI
    Coq_xH)))))) :: ((Npos (Coq_xO (Coq_xI (Coq_xI (Coq_xI (Coq_xO
    Coq_xH)))))) :: ((Npos (Coq_xO (Coq_xO (Coq_xO (Coq_xO (Coq_xI
    Coq_xH)))))) :: []))))))))))))))))))))))))))))))))))))))))))))))), ((Npos
    (Coq_xO (Coq_xO (Coq_xO (Coq_xO (Coq_xI (Coq_xI Coq_xH))))))) :: ((Npos
    (Coq_xI (Coq_xO (Coq_xO (Coq_xO (Coq_xO (Coq_xI Coq_xH))))))) :: ((Npos
    (Coq_xO (Coq_xI (Coq_xO (Coq_xO (Coq_xI (Coq_xI Coq_xH))))))) :: ((Npos
    (Coq_xI (Coq_xO (Coq_xI (Coq_xO (Coq_xO (Coq_xI Coq_xH))))))) :: ((Npos
    (Coq_xO (Coq_xI (Coq_xI (Coq_xI (Coq_xO (Coq_xI Coq_xH))))))) :: ((Npos
    (Coq_xO (Coq_xO (Coq_xI (Coq_xO (Coq_xI (Coq_xI Coq_xH))))))) :: ((Npos
    (Coq_xI (Coq_xO (Coq_xI (Coq_xI (Coq_xO Coq_xH)))))) :: ((Npos (Coq_xI
    (Coq_xI (Coq_xO (Coq_xO (Coq_xI (Coq_xI Coq_xH))))))) :: ((Npos (Coq_xO
    (Coq_xO (Coq_xI (Coq_xO (Coq_xI (Coq_xI Coq_xH))))))) :: ((Npos (Coq_xI
    (Coq_xO (Coq_xO (Coq_xI (Coq_xI (Coq_xI Coq_xH))))))) :: ((Npos (Coq_xO
    (Coq_xO (Coq_xI (Coq_xI (Coq_xO (Coq_xI Coq_xH))))))) :: ((Npos (Coq_xI
    (Coq_xO (Coq_xI (Coq_xO (Coq_xO (Coq_xI Coq_xH))))))) :: ((Npos (Coq_xI
    (Coq_xO (Coq_xI (Coq_xI (Coq_xO Coq_xH)))))) :: ((Npos (Coq_xO (Coq_xI
    (Coq_xI (Coq_xI (Coq_xO (Coq_xI Coq_xH))))))) :: ((Npos (Coq_xI (Coq_xO
    (Coq_xO (Coq_xO (Coq_xO (Coq_xI Coq_xH))))))) :: ((Npos (Coq_xI (Coq_xO
    (Coq_xI (Coq_xI (Coq_xO (Coq_xI Coq_xH))))))) :: ((Npos (Coq_xI (Coq_xO
    (Coq_xI (Coq_xO (Coq_xO (Coq_xI
    Coq_xH))))))) :: [])))))))))))))))))) :: ((((Npos (Coq_xI (Coq_xO (Coq_xI
    (Coq_xO (Coq_xI (Coq_xI Coq_xH))))))) :: ((Npos (Coq_xO (Coq_xI (Coq_xO
    (Coq_xO (Coq_xI (Coq_xI Coq_xH))))))) :: ((Npos (Coq_xO (Coq_xI (Coq_xI
    (Coq_xI (Coq_xO (Coq_xI Coq_xH))))))) :: ((Npos (Coq_xO (Coq_xI (Coq_xO
    (Coq_xI (Coq_xI Coq_xH)))))) :: ((Npos (Coq_xI (Coq_xI (Coq_xI (Coq_xI
    (Coq_xO (Coq_xI Coq_xH))))))) :: ((Npos (Coq_xI (Coq_xO (Coq_xO (Coq_xO
    (Coq_xO (Coq_xI Coq_xH))))))) :: ((Npos (Coq_xI (Coq_xI (Coq_xO (Coq_xO
    (Coq_xI (Coq_xI Coq_xH))))))) :: ((Npos (Coq_xI (Coq_xO (Coq_xO (Coq_xI
    (Coq_xO (Coq_xI Coq_xH))))))) :: ((Npos (Coq_xI (Coq_xI (Coq_xO (Coq_xO
    (Coq_xI (Coq_xI Coq_xH))))))) :: ((Npos (Coq_xO (Coq_xI (Coq_xO (Coq_xI
    (Coq_xI Coq_xH)))))) :: ((Npos (Coq_xO (Coq_xI (Coq_xI (Coq_xI (Coq_xO
    (Coq_xI Coq_xH))))))) :: ((Npos (Coq_xI (Coq_xO (Coq_xO (Coq_xO (Coq_xO
    (Coq_xI Coq_xH))))))) :: ((Npos (Coq_xI (Coq_xO (Coq_xI (Coq_xI (Coq_xO
    (Coq_xI Coq_xH))))))) :: ((Npos (Coq_xI (Coq_xO (Coq_xI (Coq_xO (Coq_xO
    (Coq_xI Coq_xH))))))) :: ((Npos (Coq_xI (Coq_xI (Coq_xO (Coq_xO (Coq_xI
    (Coq_xI Coq_xH))))))) :: ((Npos (Coq_xO (Coq_xI (Coq_xO (Coq_xI (Coq_xI
    Coq_xH)))))) :: ((Npos (Coq_xO (Coq_xO (Coq_xI (Coq_xO (Coq_xI (Coq_xI
    Coq_xH))))))) :: ((Npos (Coq_xI (Coq_xI (Coq_xO (Coq_xO (Coq_xO (Coq_xI
    Coq_xH))))))) :: ((Npos (Coq_xO (Coq_xI (Coq_xO (Coq_xI (Coq_xI
    Coq_xH)))))) :: ((Npos (Coq_xI (Coq_xI (Coq_xI (Coq_xI (Coq_xO (Coq_xI
    Coq_xH))))))) :: ((Npos (Coq_xO (Coq_xO (Coq_xO (Coq_xO (Coq_xI (Coq_xI
    Coq_xH))))))) :: ((Npos (Coq_xI (Coq_xO (Coq_xI (Coq_xO (Coq_xO (Coq_xI
    Coq_xH))))))) :: ((Npos (Coq_xO (Coq_xI (Coq_xI (Coq_xI (Coq_xO (Coq_xI
    Coq_xH))))))) :: ((Npos (Coq_xO (Coq_xO (Coq_xI (Coq_xO (Coq_xO (Coq_xI
    Coq_xH))))))) :: ((Npos (Coq_xI (Coq_xI (Coq_xI (Coq_xI (Coq_xO (Coq_xI
    Coq_xH))))))) :: ((Npos (Coq_xI (Coq_xI (Coq_xO (Coq_xO (Coq_xO (Coq_xI
    Coq_xH))))))) :: ((Npos (Coq_xI (Coq_xO (Coq_xI (Coq_xO (Coq_xI (Coq_xI
    Coq_xH))))))) :: ((Npos (Coq_xI (Coq_xO (Coq_xI (Coq_xI (Coq_xO (Coq_xI
    Coq_xH))))))) :: ((Npos (Coq_xI (Coq_xO (Coq_xI (Coq_xO (Coq_xO (Coq_xI
    Coq_xH))))))) :: ((Npos (Coq_xO (Coq_xI (Coq_xI (Coq_xI (Coq_xO (Coq_xI
    Coq_xH))))))) :: ((Npos (Coq_xO (Coq_xO (Coq_xI (Coq_xO (Coq_xI (Coq_xI
    Coq_xH))))))) :: ((Npos (Coq_xO (Coq_xI (Coq_xO (Coq_xI (Coq_xI
    Coq_xH)))))) :: ((Npos (Coq_xO (Coq_xO (Coq_xO (Coq_xI (Coq_xI (Coq_xI
    Coq_xH))))))) :: ((Npos (Coq_xI (Coq_xO (Coq_xI (Coq_xI (Coq_xO (Coq_xI
    Coq_xH))))))) :: ((Npos (Coq_xO (Coq_xO (Coq_xI (Coq_xI (Coq_xO (Coq_xI
    Coq_xH))))))) :: ((Npos (Coq_xO (Coq_xI (Coq_xI (Coq_xI (Coq_xO (Coq_xI
    Coq_xH))))))) :: ((Npos (Coq_xI (Coq_xI (Coq_xO (Coq_xO (Coq_xI (Coq_xI
    Coq_xH))))))) :: ((Npos (Coq_xO (Coq_xI (Coq_xO (Coq_xI (Coq_xI
    Coq_xH)))))) :: ((Npos (Coq_xI (Coq_xI (Coq_xO (Coq_xO (Coq_xI (Coq_xI
    Coq_xH))))))) :: ((Npos (Coq_xO (Coq_xO (Coq_xI (Coq_xO (Coq_xI (Coq_xI
    Coq_xH))))))) :: ((Npos (Coq_xI (Coq_xO (Coq_xO (Coq_xI (Coq_xI (Coq_xI
    Coq_xH))))))) :: ((Npos (Coq_xO (Coq_xO (Coq_xI (Coq_xI (Coq_xO (Coq_xI
    Coq_xH))))))) :: ((Npos (Coq_xI (Coq_xO (Coq_xI (Coq_xO (Coq_xO (Coq_xI
    Coq_xH))))))) :: ((Npos (Coq_xO (Coq_xI (Coq_xO (Coq_xI (Coq_xI
    Coq_xH)))))) :: ((Npos (Coq_xI (Coq_xO (Coq_xO (Coq_xO (Coq_xI
    Coq_xH)))))) :: ((Npos (Coq_xO (Coq_xI (Coq_xI (Coq_xI (Coq_xO
    Coq_xH)))))) :: ((Npos (Coq_xO (Coq_xO (Coq_xO (Coq_xO (Coq_xI
    Coq_xH)))))) :: []))))))))))))))))))))))))))))))))))))))))))))))), ((Npos
    (Coq_xO (Coq_xO (Coq_xO (Coq_xO (Coq_xI (Coq_xI Coq_xH))))))) :: ((Npos
    (Coq_xI (Coq_xO (Coq_xI (Coq_xO (Coq_xO (Coq_xI Coq_xH))))))) :: ((Npos
    (Coq_xO (Coq_xI (Coq_xO (Coq_xO (Coq_xI (Coq_xI Coq_xH))))))) :: ((Npos
    (Coq_xI (Coq_xI (Coq_xO (Coq_xO (Coq_xO (Coq_xI Coq_xH))))))) :: ((Npos
    (Coq_xI (Coq_xO (Coq_xI (Coq_xO (Coq_xO (Coq_xI Coq_xH))))))) :: ((Npos
    (Coq_xO (Coq_xI (Coq_xI (Coq_xI (Coq_xO (Coq_xI Coq_xH))))))) :: ((Npos
    (Coq_xO (Coq_xO (Coq_xI (Coq_xO (Coq_xI (Coq_xI Coq_xH))))))) :: ((Npos
    (Coq_xI (Coq_xO (Coq_xO (Coq_xO (Coq_xO (Coq_xI Coq_xH))))))) :: ((Npos
    (Coq_xI (Coq_xI (Coq_xI (Coq_xO (Coq_xO (Coq_xI Coq_xH))))))) :: ((Npos
    (Coq_xI (Coq_xO (Coq_xI (Coq_xO (Coq_xO (Coq_xI Coq_xH))))))) :: ((Npos
    (Coq_xI (Coq_xO (Coq_xI (Coq_xI (Coq_xO Coq_xH)))))) :: ((Npos (Coq_xO
    (Coq_xO (Coq_xI (Coq_xO (Coq_xO (Coq_xI Coq_xH))))))) :: ((Npos (Coq_xI
    (Coq_xO (Coq_xO (Coq_xO (Coq_xO (Coq_xI Coq_xH))))))) :: ((Npos (Coq_xO
    (Coq_xO (Coq_xI (Coq_xO (Coq_xI (Coq_xI Coq_xH))))))) :: ((Npos (Coq_xI
    (Coq_xO (Coq_xO (Coq_xO (Coq_xO (Coq_xI Coq_xH))))))) :: ((Npos (Coq_xI
    (Coq_xO (Coq_xI (Coq_xI (Coq_xO Coq_xH)))))) :: ((Npos (Coq_xI (Coq_xI
    (Coq_xO (Coq_xO (Coq_xI (Coq_xI Coq_xH))))))) :: ((Npos (Coq_xO (Coq_xO
    (Coq_xI (Coq_xO (Coq_xI (Coq_xI Coq_xH))))))) :: ((Npos (Coq_xI (Coq_xO
    (Coq_xO (Coq_xI (Coq_xI (Coq_xI Coq_xH))))))) :: ((Npos (Coq_xO (Coq_xO
    (Coq_xI (Coq_xI (Coq_xO (Coq_xI Coq_xH))))))) :: ((Npos (Coq_xI (Coq_xO
    (Coq_xI (Coq_xO (Coq_xO (Coq_xI Coq_xH))))))) :: ((Npos (Coq_xI (Coq_xO
    (Coq_xI (Coq_xI (Coq_xO Coq_xH)))))) :: ((Npos (Coq_xO (Coq_xI (Coq_xI
    (Coq_xI (Coq_xO (Coq_xI Coq_xH))))))) :: ((Npos (Coq_xI (Coq_xO (Coq_xO
    (Coq_xO (Coq_xO (Coq_xI Coq_xH))))))) :: ((Npos (Coq_xI (Coq_xO (Coq_xI
    (Coq_xI (Coq_xO (Coq_xI Coq_xH))))))) :: ((Npos (Coq_xI (Coq_xO (Coq_xI
    (Coq_xO (Coq_xO (Coq_xI
    Coq_xH))))))) :: []))))))))))))))))))))))))))) :: ((((Npos (Coq_xI
    (Coq_xO (Coq_xI (Coq_xO (Coq_xI (Coq_xI Coq_xH))))))) :: ((Npos (Coq_xO
    (Coq_xI (Coq_xO (Coq_xO (Coq_xI (Coq_xI Coq_xH))))))) :: ((Npos (Coq_xO
    (Coq_xI (Coq_xI (Coq_xI (Coq_xO (Coq_xI Coq_xH))))))) :: ((Npos (Coq_xO
    (Coq_xI (Coq_xO (Coq_xI (Coq_xI Coq_xH)))))) :: ((Npos (Coq_xI (Coq_xI
    (Coq_xI (Coq_xI (Coq_xO (Coq_xI Coq_xH))))))) :: ((Npos (Coq_xI (Coq_xO
    (Coq_xO (Coq_xO (Coq_xO (Coq_xI Coq_xH))))))) :: ((Npos (Coq_xI (Coq_xI
    (Coq_xO (Coq_xO (Coq_xI (Coq_xI Coq_xH))))))) :: ((Npos (Coq_xI (Coq_xO
    (Coq_xO (Coq_xI (Coq_xO (Coq_xI Coq_xH))))))) :: ((Npos (Coq_xI (Coq_xI
    (Coq_xO (Coq_xO (Coq_xI (Coq_xI Coq_xH))))))) :: ((Npos (Coq_xO (Coq_xI
    (Coq_xO (Coq_xI (Coq_xI Coq_xH)))))) :: ((Npos (Coq_xO (Coq_xI (Coq_xI
    (Coq_xI (Coq_xO (Coq_xI Coq_xH))))))) :: ((Npos (Coq_xI (Coq_xO (Coq_xO
    (Coq_xO (Coq_xO (Coq_xI Coq_xH))))))) :: ((Npos (Coq_xI (Coq_xO (Coq_xI
    (Coq_xI (Coq_xO (Coq_xI Coq_xH))))))) :: ((Npos (Coq_xI (Coq_xO (Coq_xI
    (Coq_xO (Coq_xO (Coq_xI Coq_xH))))))) :: ((Npos (Coq_xI (Coq_xI (Coq_xO
    (Coq_xO (Coq_xI (Coq_xI Coq_xH))))))) :: ((Npos (Coq_xO (Coq_xI (Coq_xO
    (Coq_xI (Coq_xI Coq_xH)))))) :: ((Npos (Coq_xO (Coq_xO (Coq_xI (Coq_xO
    (Coq_xI (Coq_xI Coq_xH))))))) :: ((Npos (Coq_xI (Coq_xI (Coq_xO (Coq_xO
    (Coq_xO (Coq_xI Coq_xH))))))) :: ((Npos (Coq_xO (Coq_xI (Coq_xO (Coq_xI
    (Coq_xI Coq_xH)))))) :: ((Npos (Coq_xI (Coq_xI (Coq_xI (Coq_xI (Coq_xO
    (Coq_xI Coq_xH))))))) :: ((Npos (Coq_xO (Coq_xO (Coq_xO (Coq_xO (Coq_xI
    (Coq_xI Coq_xH))))))) :: ((Npos (Coq_xI (Coq_xO (Coq_xI (Coq_xO (Coq_xO
    (Coq_xI Coq_xH))))))) :: ((Npos (Coq_xO (Coq_xI (Coq_xI (Coq_xI (Coq_xO
    (Coq_xI Coq_xH))))))) :: ((Npos (Coq_xO (Coq_xO (Coq_xI (Coq_xO (Coq_xO
    (Coq_xI Coq_xH))))))) :: ((Npos (Coq_xI (Coq_xI (Coq_xI (Coq_xI (Coq_xO
    (Coq_xI Coq_xH))))))) :: ((Npos (Coq_xI (Coq_xI (Coq_xO (Coq_xO (Coq_xO
    (Coq_xI Coq_xH))))))) :: ((Npos (Coq_xI (Coq_xO (Coq_xI (Coq_xO (Coq_xI
    (Coq_xI Coq_xH))))))) :: ((Npos (Coq_xI (Coq_xO (Coq_xI (Coq_xI (Coq_xO
    (Coq_xI Coq_xH))))))) :: ((Npos (Coq_xI (Coq_xO (Coq_xI (Coq_xO (Coq_xO
    (Coq_xI Coq_xH))))))) :: ((Npos (Coq_xO (Coq_xI (Coq_xI (Coq_xI (Coq_xO
    (Coq_xI Coq_xH))))))) :: ((Npos (Coq_xO (Coq_xO (Coq_xI (Coq_xO (Coq_xI
    (Coq_xI Coq_xH))))))) :: ((Npos (Coq_xO (Coq_xI (Coq_xO (Coq_xI (Coq_xI
    Coq_xH)))))) :: ((Npos (Coq_xO (Coq_xO (Coq_xO (Coq_xI (Coq_xI (Coq_xI
    Coq_xH))))))) :: ((Npos (Coq_xI (Coq_xO (Coq_xI (Coq_xI (Coq_xO (Coq_xI
    Coq_xH))))))) :: ((Npos (Coq_xO (Coq_xO (Coq_xI (Coq_xI (Coq_xO (Coq_xI
    Coq_xH))))))) :: ((Npos (Coq_xO (Coq_xI (Coq_xI (Coq_xI (Coq_xO (Coq_xI
    Coq_xH))))))) :: ((Npos (Coq_xI (Coq_xI (Coq_xO (Coq_xO (Coq_xI (Coq_xI
    Coq_xH))))))) :: ((Npos (Coq_xO (Coq_xI (Coq_xO (Coq_xI (Coq_xI
    Coq_xH)))))) :: ((Npos (Coq_xI (Coq_xI (Coq_xO (Coq_xO (Coq_xI (Coq_xI
    Coq_xH))))))) :: ((Npos (Coq_xO (Coq_xO (Coq_xI (Coq_xO (Coq_xI (Coq_xI
    Coq_xH))))))) :: ((Npos (Coq_xI (Coq_xO (Coq_xO (Coq_xI (Coq_xI (Coq_xI
    Coq_xH))))))) :: ((Npos (Coq_xO (Coq_xO (Coq_xI (Coq_xI (Coq_xO (Coq_xI
    Coq_xH))))))) :: ((Npos (Coq_xI (Coq_xO (Coq_xI (Coq_xO (Coq_xO (Coq_xI
    Coq_xH))))))) :: ((Npos (Coq_xO (Coq_xI (Coq_xO (Coq_xI (Coq_xI
    Coq_xH)))))) :: ((Npos (Coq_xI (Coq_xO (Coq_xO (Coq_xO (Coq_xI
    Coq_xH)))))) :: ((Npos (Coq_xO (Coq_xI (Coq_xI (Coq_xI (Coq_xO
    Coq_xH)))))) :: ((Npos (Coq_xO (Coq_xO (Coq_xO (Coq_xO (Coq_xI
    Coq_xH)))))) :: []))))))))))))))))))))))))))))))))))))))))))))))), ((Npos
    (Coq_xO (Coq_xI (Coq_xO (Coq_xO (Coq_xI (Coq_xI Coq_xH))))))) :: ((Npos
    (Coq_xI (Coq_xO (Coq_xI (Coq_xO (Coq_xO (Coq_xI Coq_xH))))))) :: ((Npos
    (Coq_xI (Coq_xI (Coq_xI (Coq_xO (Coq_xO (Coq_xI Coq_xH))))))) :: ((Npos
    (Coq_xI (Coq_xO (Coq_xO (Coq_xI (Coq_xO (Coq_xI Coq_xH))))))) :: ((Npos
    (Coq_xI (Coq_xI (Coq_xO (Coq_xO (Coq_xI (Coq_xI Coq_xH))))))) :: ((Npos
    (Coq_xO (Coq_xO (Coq_xI (Coq_xO (Coq_xI (Coq_xI Coq_xH))))))) :: ((Npos
    (Coq_xI (Coq_xO (Coq_xI (Coq_xO (Coq_xO (Coq_xI Coq_xH))))))) :: ((Npos
    (Coq_xO (Coq_xI (Coq_xO (Coq_xO (Coq_xI (Coq_xI Coq_xH))))))) :: ((Npos
    (Coq_xI (Coq_xO (Coq_xI (Coq_xI (Coq_xO Coq_xH)))))) :: ((Npos (Coq_xO
    (Coq_xO (Coq_xI (Coq_xO (Coq_xI (Coq_xI Coq_xH))))))) :: ((Npos (Coq_xO
    (Coq_xI (Coq_xO (Coq_xO (Coq_xI (Coq_xI Coq_xH))))))) :: ((Npos (Coq_xI
    (Coq_xO (Coq_xI (Coq_xO (Coq_xI (Coq_xI Coq_xH))))))) :: ((Npos (Coq_xO
    (Coq_xO (Coq_xI (Coq_xO (Coq_xI (Coq_xI Coq_xH))))))) :: ((Npos (Coq_xO
    (Coq_xO (Coq_xO (Coq_xI (Coq_xO (Coq_xI Coq_xH))))))) :: ((Npos (Coq_xI
    (Coq_xO (Coq_xI (Coq_xI (Coq_xO Coq_xH)))))) :: ((Npos (Coq_xO (Coq_xI
    (Coq_xO (Coq_xO (Coq_xI (Coq_xI Coq_xH))))))) :: ((Npos (Coq_xI (Coq_xO
    (Coq_xI (Coq_xO (Coq_xO (Coq_xI Coq_xH))))))) :: ((Npos (Coq_xO (Coq_xI
    (Coq_xI (Coq_xO (Coq_xO (Coq_xI Coq_xH))))))) :: ((Npos (Coq_xI (Coq_xO
    (Coq_xI (Coq_xI (Coq_xO Coq_xH)))))) :: ((Npos (Coq_xI (Coq_xI (Coq_xO
    (Coq_xO (Coq_xI (Coq_xI Coq_xH))))))) :: ((Npos (Coq_xO (Coq_xO (Coq_xI
    (Coq_xO (Coq_xI (Coq_xI Coq_xH))))))) :: ((Npos (Coq_xI (Coq_xO (Coq_xO
    (Coq_xI (Coq_xI (Coq_xI Coq_xH))))))) :: ((Npos (Coq_xO (Coq_xO (Coq_xI
    (Coq_xI (Coq_xO (Coq_xI Coq_xH))))))) :: ((Npos (Coq_xI (Coq_xO (Coq_xI
    (Coq_xO (Coq_xO (Coq_xI Coq_xH))))))) :: ((Npos (Coq_xI (Coq_xO (Coq_xI
    (Coq_xI (Coq_xO Coq_xH)))))) :: ((Npos (Coq_xO (Coq_xI (Coq_xI (Coq_xI
    (Coq_xO (Coq_xI Coq_xH))))))) :: ((Npos (Coq_xI (Coq_xO (Coq_xO (Coq_xO
    (Coq_xO (Coq_xI Coq_xH))))))) :: ((Npos (Coq_xI (Coq_xO (Coq_xI (Coq_xI
    (Coq_xO (Coq_xI Coq_xH))))))) :: ((Npos (Coq_xI (Coq_xO (Coq_xI (Coq_xO
    (Coq_xO (Coq_xI
    Coq_xH))))))) :: [])))))))))))))))))))))))))))))) :: ((((Npos (Coq_xI
    (Coq_xO (Coq_xI (Coq_xO (Coq_xI (Coq_xI Coq_xH))))))) :: ((Npos (Coq_xO
    (Coq_xI (Coq_xO (Coq_xO (Coq_xI (Coq_xI Coq_xH))))))) :: ((Npos (Coq_xO
    (Coq_xI (Coq_xI (Coq_xI (Coq_xO (Coq_xI Coq_xH))))))) :: ((Npos (Coq_xO
    (Coq_xI (Coq_xO (Coq_xI (Coq_xI Coq_xH)))))) :: ((Npos (Coq_xI (Coq_xI
    (Coq_xI (Coq_xI (Coq_xO (Coq_xI Coq_xH))))))) :: ((Npos (Coq_xI (Coq_xO
    (Coq_xO (Coq_xO (Coq_xO (Coq_xI Coq_xH))))))) :: ((Npos (Coq_xI (Coq_xI
    (Coq_xO (Coq_xO (Coq_xI (Coq_xI Coq_xH))))))) :: ((Npos (Coq_xI (Coq_xO
    (Coq_xO (Coq_xI (Coq_xO (Coq_xI Coq_xH))))))) :: ((Npos (Coq_xI (Coq_xI
    (Coq_xO (Coq_xO (Coq_xI (Coq_xI Coq_xH))))))) :: ((Npos (Coq_xO (Coq_xI
    (Coq_xO (Coq_xI (Coq_xI Coq_xH)))))) :: ((Npos (Coq_xO (Coq_xI (Coq_xI
    (Coq_xI (Coq_xO (Coq_xI Coq_xH))))))) :: ((Npos (Coq_xI (Coq_xO (Coq_xO
    (Coq_xO (Coq_xO (Coq_xI Coq_xH))))))) :: ((Npos (Coq_xI (Coq_xO (Coq_xI
    (Coq_xI (Coq_xO (Coq_xI Coq_xH))))))) :: ((Npos (Coq_xI (Coq_xO (Coq_xI
    (Coq_xO (Coq_xO (Coq_xI Coq_xH))))))) :: ((Npos (Coq_xI (Coq_xI (Coq_xO
    (Coq_xO (Coq_xI (Coq_xI Coq_xH))))))) :: ((Npos (Coq_xO (Coq_xI (Coq_xO
    (Coq_xI (Coq_xI Coq_xH)))))) :: ((Npos (Coq_xO (Coq_xO (Coq_xI (Coq_xO
    (Coq_xI (Coq_xI Coq_xH))))))) :: ((Npos (Coq_xI (Coq_xI (Coq_xO (Coq_xO
    (Coq_xO (Coq_xI Coq_xH))))))) :: ((Npos (Coq_xO (Coq_xI (Coq_xO (Coq_xI
    (Coq_xI Coq_xH)))))) :: ((Npos (Coq_xI (Coq_xI (Coq_xI (Coq_xI (Coq_xO
    (Coq_xI Coq_xH))))))) :: ((Npos (Coq_xO (Coq_xO (Coq_xO (Coq_xO (Coq_xI
    (Coq_xI Coq_xH))))))) :: ((Npos (Coq_xI (Coq_xO (Coq_xI (Coq_xO (Coq_xO
    (Coq_xI Coq_xH))))))) :: ((Npos (Coq_xO (Coq_xI (Coq_xI (Coq_xI (Coq_xO
    (Coq_xI Coq_xH))))))) :: ((Npos (Coq_xO (Coq_xO (Coq_xI (Coq_xO (Coq_xO
    (Coq_xI Coq_xH))))))) :: ((Npos (Coq_xI (Coq_xI (Coq_xI (Coq_xI (Coq_xO
    (Coq_xI Coq_xH))))))) :: ((Npos (Coq_xI (Coq_xI (Coq_xO (Coq_xO (Coq_xO
    (Coq_xI Coq_xH))))))) :: ((Npos (Coq_xI (Coq_xO (Coq_xI (Coq_xO (Coq_xI
    (Coq_xI Coq_xH))))))) :: ((Npos (Coq_xI (Coq_xO (Coq_xI (Coq_xI (Coq_xO
    (Coq_xI Coq_xH))))))) :: ((Npos (Coq_xI (Coq_xO (Coq_xI (Coq_xO (Coq_xO
    (Coq_xI Coq_xH))))))) :: ((Npos (Coq_xO (Coq_xI (Coq_xI (Coq_xI (Coq_xO
    (Coq_xI Coq_xH))))))) :: ((Npos (Coq_xO (Coq_xO (Coq_xI (Coq_xO (Coq_xI
    (Coq_xI Coq_xH))))))) :: ((Npos (Coq_xO (Coq_xI (Coq_xO (Coq_xI (Coq_xI
    Coq_xH)))))) :: ((Npos (Coq_xO (Coq_xO (Coq_xO (Coq_xI (Coq_xI (Coq_xI
    Coq_xH))))))) :: ((Npos (Coq_xI (Coq_xO (Coq_xI (Coq_xI (Coq_xO (Coq_xI
    Coq_xH))))))) :: ((Npos (Coq_xO (Coq_xO (Coq_xI (Coq_xI (Coq_xO (Coq_xI
    Coq_xH))))))) :: ((Npos (Coq_xO (Coq_xI (Coq_xI (Coq_xI (Coq_xO (Coq_xI
    Coq_xH))))))) :: ((Npos (Coq_xI (Coq_xI (Coq_xO (Coq_xO (Coq_xI (Coq_xI
    Coq_xH))))))) :: ((Npos (Coq_xO (Coq_xI (Coq_xO (Coq_xI (Coq_xI
    Coq_xH)))))) :: ((Npos (Coq_xI (Coq_xI (Coq_xO (Coq_xO (Coq_xI (Coq_xI
    Coq_xH))))))) :: ((Npos (Coq_xO (Coq_xO (Coq_xI (Coq_xO (Coq_xI (Coq_xI
    Coq_xH))))))) :: ((Npos (Coq_xI (Coq_xO (Coq_xO (Coq_xI (Coq_xI (Coq_xI
    Coq_xH))))))) :: ((Npos (Coq_xO (Coq_xO (Coq_xI (Coq_xI (Coq_xO (Coq_xI
    Coq_xH))))))) :: ((Npos (Coq_xI (Coq_xO (Coq_xI (Coq_xO (Coq_xO (Coq_xI
    Coq_xH))))))) :: ((Npos (Coq_xO (Coq_xI (Coq_xO (Coq_xI (Coq_xI
    Coq_xH)))))) :: ((Npos (Coq_xI (Coq_xO (Coq_xO (Coq_xO (Coq_xI
    Coq_xH)))))) :: ((Npos (Coq_xO (Coq_xI (Coq_xI (Coq_xI (Coq_xO
    Coq_xH)))))) :: ((Npos (Coq_xO (Coq_xO (Coq_xO (Coq_xO (Coq_xI
    Coq_xH)))))) :: []))))))))))))))))))))))))))))))))))))))))))))))), ((Npos
    (Coq_xI (Coq_xI (Coq_xO (Coq_xO (Coq_xI (Coq_xI Coq_xH))))))) :: ((Npos
    (Coq_xO (Coq_xO (Coq_xI (Coq_xO (Coq_xI (Coq_xI Coq_xH))))))) :: ((Npos
    (Coq_xI (Coq_xO (Coq_xO (Coq_xI (Coq_xI (Coq_xI Coq_xH))))))) :: ((Npos
    (Coq_xO (Coq_xO (Coq_xI (Coq_xI (Coq_xO (Coq_xI Coq_xH))))))) :: ((Npos
    (Coq_xI (Coq_xO (Coq_xI (Coq_xO (Coq_xO (Coq_xI Coq_xH))))))) :: ((Npos
    (Coq_xI (Coq_xO (Coq_xI (Coq_xI (Coq_xO Coq_xH)))))) :: ((Npos (Coq_xO
    (Coq_xI (Coq_xI (Coq_xI (Coq_xO (Coq_xI Coq_xH))))))) :: ((Npos (Coq_xI
    (Coq_xO (Coq_xO (Coq_xO (Coq_xO (Coq_xI Coq_xH))))))) :: ((Npos (Coq_xI
    (Coq_xO (Coq_xI (Coq_xI (Coq_xO (Coq_xI Coq_xH))))))) :: ((Npos (Coq_xI
    (Coq_xO (Coq_xI (Coq_xO (Coq_xO (Coq_xI
    Coq_xH))))))) :: []))))))))))) :: ((((Npos (Coq_xI (Coq_xO (Coq_xI
    (Coq_xO (Coq_xI (Coq_xI Coq_xH))))))) :: ((Npos (Coq_xO (Coq_xI (Coq_xO
    (Coq_xO (Coq_xI (Coq_xI Coq_xH))))))) :: ((Npos (Coq_xO (Coq_xI (Coq_xI
    (Coq_xI (Coq_xO (Coq_xI Coq_xH))))))) :: ((Npos (Coq_xO (Coq_xI (Coq_xO
    (Coq_xI (Coq_xI Coq_xH)))))) :: ((Npos (Coq_xI (Coq_xI (Coq_xI (Coq_xI
    (Coq_xO (Coq_xI Coq_xH))))))) :: ((Npos (Coq_xI (Coq_xO (Coq_xO (Coq_xO
    (Coq_xO (Coq_xI Coq_xH))))))) :: ((Npos (Coq_xI (Coq_xI (Coq_xO (Coq_xO
    (Coq_xI (Coq_xI Coq_xH))))))) :: ((Npos (Coq_xI (Coq_xO (Coq_xO (Coq_xI
    (Coq_xO (Coq_xI Coq_xH))))))) :: ((Npos (Coq_xI (Coq_xI (Coq_xO (Coq_xO
    (Coq_xI (Coq_xI Coq_xH))))))) :: ((Npos (Coq_xO (Coq_xI (Coq_xO (Coq_xI
    (Coq_xI Coq_xH)))))) :: ((Npos (Coq_xO (Coq_xI (Coq_xI (Coq_xI (Coq_xO
    (Coq_xI Coq_xH))))))) :: ((Npos (Coq_xI (Coq_xO (Coq_xO (Coq_xO (Coq_xO
    (Coq_xI Coq_xH))))))) :: ((Npos (Coq_xI (Coq_xO (Coq_xI (Coq_xI (Coq_xO
    (Coq_xI Coq_xH))))))) :: ((Npos (Coq_xI (Coq_xO (Coq_xI (Coq_xO (Coq_xO
    (Coq_xI Coq_xH))))))) :: ((Npos (Coq_xI (Coq_xI (Coq_xO (Coq_xO (Coq_xI
    (Coq_xI Coq_xH))))))) :: ((Npos (Coq_xO (Coq_xI (Coq_xO (Coq_xI (Coq_xI
    Coq_xH)))))) :: ((Npos (Coq_xO (Coq_xO (Coq_xI (Coq_xO (Coq_xI (Coq_xI
    Coq_xH))))))) :: ((Npos (Coq_xI (Coq_xI (Coq_xO (Coq_xO (Coq_xO (Coq_xI
    Coq_xH))))))) :: ((Npos (Coq_xO (Coq_xI (Coq_xO (Coq_xI (Coq_xI
    Coq_xH)))))) :: ((Npos (Coq_xI (Coq_xI (Coq_xI (Coq_xI (Coq_xO (Coq_xI
    Coq_xH))))))) :: ((Npos (Coq_xO (Coq_xO (Coq_xO (Coq_xO (Coq_xI (Coq_xI
    Coq_xH))))))) :: ((Npos (Coq_xI (Coq_xO (Coq_xI (Coq_xO (Coq_xO (Coq_xI
    Coq_xH))))))) :: ((Npos (Coq_xO (Coq_xI (Coq_xI (Coq_xI (Coq_xO (Coq_xI
    Coq_xH))))))) :: ((Npos (Coq_xO (Coq_xO (Coq_xI (Coq_xO (Coq_xO (Coq_xI
    Coq_xH))))))) :: ((Npos (Coq_xI (Coq_xI (Coq_xI (Coq_xI (Coq_xO (Coq_xI
    Coq_xH))))))) :: ((Npos (Coq_xI (Coq_xI (Coq_xO (Coq_xO (Coq_xO (Coq_xI
    Coq_xH))))))) :: ((Npos (Coq_xI (Coq_xO (Coq_xI (Coq_xO (Coq_xI (Coq_xI
    Coq_xH))))))) :: ((Npos (Coq_xI (Coq_xO (Coq_xI (Coq_xI (Coq_xO (Coq_xI
    Coq_xH))))))) :: ((Npos (Coq_xI (Coq_xO (Coq_xI (Coq_xO (Coq_xO (Coq_xI
    Coq_xH))))))) :: ((Npos (Coq_xO (Coq_xI (Coq_xI (Coq_xI (Coq_xO (Coq_xI
    Coq_xH))))))) :: ((Npos (Coq_xO (Coq_xO (Coq_xI (Coq_xO (Coq_xI (Coq_xI
    Coq_xH))))))) :: ((Npos (Coq_xO (Coq_xI (Coq_xO (Coq_xI (Coq_xI
    Coq_xH)))))) :: ((Npos (Coq_xO (Coq_xO (Coq_xO (Coq_xI (Coq_xI (Coq_xI
    Coq_xH))))))) :: ((Npos (Coq_xI (Coq_xO (Coq_xI (Coq_xI (Coq_xO (Coq_xI
    Coq_xH))))))) :: ((Npos (Coq_xO (Coq_xO (Coq_xI (Coq_xI (Coq_xO (Coq_xI
    Coq_xH))))))) :: ((Npos (Coq_xO (Coq_xI (Coq_xI (Coq_xI (Coq_xO (Coq_xI
    Coq_xH))))))) :: ((Npos (Coq_xI (Coq_xI (Coq_xO (Coq_xO (Coq_xI (Coq_xI
    Coq_xH))))))) :: ((Npos (Coq_xO (Coq_xI (Coq_xO (Coq_xI (Coq_xI
    Coq_xH)))))) :: ((Npos (Coq_xI (Coq_xI (Coq_xO (Coq_xO (Coq_xI (Coq_xI
    Coq_xH))))))) :: ((Npos (Coq_xO (Coq_xO (Coq_xI (Coq_xO (Coq_xI (Coq_xI
    Coq_xH))))))) :: ((Npos (Coq_xI (Coq_xO (Coq_xO (Coq_xI (Coq_xI (Coq_xI
    Coq_xH))))))) :: ((Npos (Coq_xO (Coq_xO (Coq_xI (Coq_xI (Coq_xO (Coq_xI
    Coq_xH))))))) :: ((Npos (Coq_xI (Coq_xO (Coq_xI (Coq_xO (Coq_xO (Coq_xI
    Coq_xH))))))) :: ((Npos (Coq_xO (Coq_xI (Coq_xO (Coq_xI (Coq_xI
    Coq_xH)))))) :: ((Npos (Coq_xI (Coq_xO (Coq_xO (Coq_xO (Coq_xI
    Coq_xH)))))) :: ((Npos (Coq_xO (Coq_xI (Coq_xI (Coq_xI (Coq_xO
    Coq_xH)))))) :: ((Npos (Coq_xO (Coq_xO (Coq_xO (Coq_xO (Coq_xI
    Coq_xH)))))) :: []))))))))))))))))))))))))))))))))))))))))))))))), ((Npos
    (Coq_xO (Coq_xO (Coq_xI (Coq_xO (Coq_xI (Coq_xI Coq_xH))))))) :: ((Npos
    (Coq_xI (Coq_xO (Coq_xI (Coq_xO (Coq_xO (Coq_xI Coq_xH))))))) :: ((Npos
    (Coq_xO (Coq_xO (Coq_xO (Coq_xI (Coq_xI (Coq_xI Coq_xH))))))) :: ((Npos
    (Coq_xO (Coq_xO (Coq_xI (Coq_xO (Coq_xI (Coq_xI Coq_xH))))))) :: ((Npos
    (Coq_xI (Coq_xO (Coq_xI (Coq_xI (Coq_xO Coq_xH)))))) :: ((Npos (Coq_xO
    (Coq_xO (Coq_xI (Coq_xI (Coq_xO (Coq_xI Coq_xH))))))) :: ((Npos (Coq_xI
    (Coq_xO (Coq_xO (Coq_xI (Coq_xO (Coq_xI Coq_xH))))))) :: ((Npos (Coq_xO
    (Coq_xI (Coq_xI (Coq_xI (Coq_xO (Coq_xI Coq_xH))))))) :: ((Npos (Coq_xI
    (Coq_xO (Coq_xI (Coq_xO (Coq_xO (Coq_xI Coq_xH))))))) :: ((Npos (Coq_xI
    (Coq_xO (Coq_xI (Coq_xI (Coq_xO Coq_xH)))))) :: ((Npos (Coq_xO (Coq_xO
    (Coq_xI (Coq_xO (Coq_xI (Coq_xI Coq_xH))))))) :: ((Npos (Coq_xO (Coq_xO
    (Coq_xO (Coq_xI (Coq_xO (Coq_xI Coq_xH))))))) :: ((Npos (Coq_xO (Coq_xI
    (Coq_xO (Coq_xO (Coq_xI (Coq_xI Coq_xH))))))) :: ((Npos (Coq_xI (Coq_xI
    (Coq_xI (Coq_xI (Coq_xO (Coq_xI Coq_xH))))))) :: ((Npos (Coq_xI (Coq_xO
    (Coq_xI (Coq_xO (Coq_xI (Coq_xI Coq_xH))))))) :: ((Npos (Coq_xI (Coq_xI
    (Coq_xI (Coq_xO (Coq_xO (Coq_xI Coq_xH))))))) :: ((Npos (Coq_xO (Coq_xO
    (Coq_xO (Coq_xI (Coq_xO (Coq_xI Coq_xH))))))) :: ((Npos (Coq_xI (Coq_xO
    (Coq_xI (Coq_xI (Coq_xO Coq_xH)))))) :: ((Npos (Coq_xO (Coq_xO (Coq_xI
    (Coq_xO (Coq_xI (Coq_xI Coq_xH))))))) :: ((Npos (Coq_xI (Coq_xO (Coq_xI
    (Coq_xO (Coq_xO (Coq_xI Coq_xH))))))) :: ((Npos (Coq_xO (Coq_xO (Coq_xO
    (Coq_xI (Coq_xI (Coq_xI Coq_xH))))))) :: ((Npos (Coq_xO (Coq_xO (Coq_xI
    (Coq_xO (Coq_xI (Coq_xI Coq_xH))))))) :: ((Npos (Coq_xI (Coq_xO (Coq_xI
    (Coq_xI (Coq_xO Coq_xH)))))) :: ((Npos (Coq_xI (Coq_xI (Coq_xO (Coq_xO
    (Coq_xI (Coq_xI Coq_xH))))))) :: ((Npos (Coq_xO (Coq_xO (Coq_xI (Coq_xO
    (Coq_xI (Coq_xI Coq_xH))))))) :: ((Npos (Coq_xI (Coq_xO (Coq_xO (Coq_xI
    (Coq_xI (Coq_xI Coq_xH))))))) :: ((Npos (Coq_xO (Coq_xO (Coq_xI (Coq_xI
    (Coq_xO (Coq_xI Coq_xH))))))) :: ((Npos (Coq_xI (Coq_xO (Coq_xI (Coq_xO
    (Coq_xO (Coq_xI
    Coq_xH))))))) :: []))))))))))))))))))))))))))))) :: ((((Npos (Coq_xI
    (Coq_xO (Coq_xI (Coq_xO (Coq_xI (Coq_xI Coq_xH))))))) :: ((Npos (Coq_xO
    (Coq_xI (Coq_xO (Coq_xO (Coq_xI (Coq_xI Coq_xH))))))) :: ((Npos (Coq_xO
    (Coq_xI (Coq_xI (Coq_xI (Coq_xO (Coq_xI Coq_xH))))))) :: ((Npos (Coq_xO
    (Coq_xI (Coq_xO (Coq_xI (Coq_xI Coq_xH)))))) :: ((Npos (Coq_xI (Coq_xI
    (Coq_xI (Coq_xI (Coq_xO (Coq_xI Coq_xH))))))) :: ((Npos (Coq_xI (Coq_xO
    (Coq_xO (Coq_xO (Coq_xO (Coq_xI Coq_xH))))))) :: ((Npos (Coq_xI (Coq_xI
    (Coq_xO (Coq_xO (Coq_xI (Coq_xI Coq_xH))))))) :: ((Npos (Coq_xI (Coq_xO
    (Coq_xO (Coq_xI (Coq_xO (Coq_xI Coq_xH))))))) :: ((Npos (Coq_xI (Coq_xI
    (Coq_xO (Coq_xO (Coq_xI (Coq_xI Coq_xH))))))) :: ((Npos (Coq_xO (Coq_xI
    (Coq_xO (Coq_xI (Coq_xI Coq_xH)))))) :: ((Npos (Coq_xO (Coq_xI (Coq_xI
    (Coq_xI (Coq_xO (Coq_xI Coq_xH))))))) :: ((Npos (Coq_xI (Coq_xO (Coq_xO
    (Coq_xO (Coq_xO (Coq_xI Coq_xH))))))) :: ((Npos (Coq_xI (Coq_xO (Coq_xI
    (Coq_xI (Coq_xO (Coq_xI Coq_xH))))))) :: ((Npos (Coq_xI (Coq_xO (Coq_xI
    (Coq_xO (Coq_xO (Coq_xI Coq_xH))))))) :: ((Npos (Coq_xI (Coq_xI (Coq_xO
    (Coq_xO (Coq_xI (Coq_xI Coq_xH))))))) :: ((Npos (Coq_xO (Coq_xI (Coq_xO
    (Coq_xI (Coq_xI Coq_xH)))))) :: ((Npos (Coq_xO (Coq_xO (Coq_xI (Coq_xO
    (Coq_xI (Coq_xI Coq_xH))))))) :: ((Npos (Coq_xI (Coq_xI (Coq_xO (Coq_xO
    (Coq_xO (Coq_xI Coq_xH))))))) :: ((Npos (Coq_xO (Coq_xI (Coq_xO (Coq_xI
    (Coq_xI Coq_xH)))))) :: ((Npos (Coq_xI (Coq_xI (Coq_xI (Coq_xI (Coq_xO
    (Coq_xI Coq_xH))))))) :: ((Npos (Coq_xO (Coq_xO (Coq_xO (Coq_xO (Coq_xI
    (Coq_xI Coq_xH))))))) :: ((Npos (Coq_xI (Coq_xO (Coq_xI (Coq_xO (Coq_xO
    (Coq_xI Coq_xH))))))) :: ((Npos (Coq_xO (Coq_xI (Coq_xI (Coq_xI (Coq_xO
    (Coq_xI Coq_xH))))))) :: ((Npos (Coq_xO (Coq_xO (Coq_xI (Coq_xO (Coq_xO
    (Coq_xI Coq_xH))))))) :: ((Npos (Coq_xI (Coq_xI (Coq_xI (Coq_xI (Coq_xO
    (Coq_xI Coq_xH))))))) :: ((Npos (Coq_xI (Coq_xI (Coq_xO (Coq_xO (Coq_xO
    (Coq_xI Coq_xH))))))) :: ((Npos (Coq_xI (Coq_xO (Coq_xI (Coq_xO (Coq_xI
    (Coq_xI Coq_xH))))))) :: ((Npos (Coq_xI (Coq_xO (Coq_xI (Coq_xI (Coq_xO
    (Coq_xI Coq_xH))))))) :: ((Npos (Coq_xI (Coq_xO (Coq_xI (Coq_xO (Coq_xO
    (Coq_xI Coq_xH))))))) :: ((Npos (Coq_xO (Coq_xI (Coq_xI (Coq_xI (Coq_xO
    (Coq_xI Coq_xH))))))) :: ((Npos (Coq_xO (Coq_xO (Coq_xI (Coq_xO (Coq_xI
    (Coq_xI Coq_xH))))))) :: ((Npos (Coq_xO (Coq_xI (Coq_xO (Coq_xI (Coq_xI
    Coq_xH)))))) :: ((Npos (Coq_xO (Coq_xO (Coq_xO (Coq_xI (Coq_xI (Coq_xI
    Coq_xH))))))) :: ((Npos (Coq_xI (Coq_xO (Coq_xI (Coq_xI (Coq_xO (Coq_xI
    Coq_xH))))))) :: ((Npos (Coq_xO (Coq_xO (Coq_xI (Coq_xI (Coq_xO (Coq_xI
    Coq_xH))))))) :: ((Npos (Coq_xO (Coq_xI (Coq_xI (Coq_xI (Coq_xO (Coq_xI
    Coq_xH))))))) :: ((Npos (Coq_xI (Coq_xI (Coq_xO (Coq_xO (Coq_xI (Coq_xI
    Coq_xH))))))) :: ((Npos (Coq_xO (Coq_xI (Coq_xO (Coq_xI (Coq_xI
    Coq_xH)))))) :: ((Npos (Coq_xO (Coq_xO (Coq_xI (Coq_xO (Coq_xI (Coq_xI
    Coq_xH))))))) :: ((Npos (Coq_xI (Coq_xO (Coq_xO (Coq_xO (Coq_xO (Coq_xI
    Coq_xH))))))) :: ((Npos (Coq_xO (Coq_xI (Coq_xO (Coq_xO (Coq_xO (Coq_xI
    Coq_xH))))))) :: ((Npos (Coq_xO (Coq_xO (Coq_xI (Coq_xI (Coq_xO (Coq_xI
    Coq_xH))))))) :: ((Npos (Coq_xI (Coq_xO (Coq_xI (Coq_xO (Coq_xO (Coq_xI
    Coq_xH))))))) :: ((Npos (Coq_xO (Coq_xI (Coq_xO (Coq_xI (Coq_xI
    Coq_xH)))))) :: ((Npos (Coq_xI (Coq_xO (Coq_xO (Coq_xO (Coq_xI
    Coq_xH)))))) :: ((Npos (Coq_xO (Coq_xI (Coq_xI (Coq_xI (Coq_xO
    Coq_xH)))))) :: ((Npos (Coq_xO (Coq_xO (Coq_xO (Coq_xO (Coq_xI
    Coq_xH)))))) :: []))))))))))))))))))))))))))))))))))))))))))))))), ((Npos
    (Coq_xO (Coq_xO (Coq_xI (Coq_xO (Coq_xO (Coq_xI Coq_xH))))))) :: ((Npos
    (Coq_xI (Coq_xO (Coq_xI (Coq_xO (Coq_xO (Coq_xI Coq_xH))))))) :: ((Npos
    (Coq_xO (Coq_xI (Coq_xI (Coq_xO (Coq_xO (Coq_xI Coq_xH))))))) :: ((Npos
    (Coq_xI (Coq_xO (Coq_xO (Coq_xO (Coq_xO (Coq_xI Coq_xH))))))) :: ((Npos
    (Coq_xI (Coq_xO (Coq_xI (Coq_xO (Coq_xI (Coq_xI Coq_xH))))))) :: ((Npos
    (Coq_xO (Coq_xO (Coq_xI (Coq_xI (Coq_xO (Coq_xI Coq_xH))))))) :: ((Npos
    (Coq_xO (Coq_xO (Coq_xI (Coq_xO (Coq_xI (Coq_xI Coq_xH))))))) :: ((Npos
    (Coq_xI (Coq_xO (Coq_xI (Coq_xI (Coq_xO Coq_xH)))))) :: ((Npos (Coq_xI
    (Coq_xI (Coq_xO (Coq_xO (Coq_xO (Coq_xI Coq_xH))))))) :: ((Npos (Coq_xI
    (Coq_xO (Coq_xI (Coq_xO (Coq_xO (Coq_xI Coq_xH))))))) :: ((Npos (Coq_xO
    (Coq_xO (Coq_xI (Coq_xI (Coq_xO (Coq_xI Coq_xH))))))) :: ((Npos (Coq_xO
    (Coq_xO (Coq_xI (Coq_xI (Coq_xO (Coq_xI Coq_xH))))))) :: ((Npos (Coq_xI
    (Coq_xO (Coq_xI (Coq_xI (Coq_xO Coq_xH)))))) :: ((Npos (Coq_xI (Coq_xI
    (Coq_xO (Coq_xO (Coq_xI (Coq_xI Coq_xH))))))) :: ((Npos (Coq_xO (Coq_xO
    (Coq_xI (Coq_xO (Coq_xI (Coq_xI Coq_xH))))))) :: ((Npos (Coq_xI (Coq_xO
    (Coq_xO (Coq_xI (Coq_xI (Coq_xI Coq_xH))))))) :: ((Npos (Coq_xO (Coq_xO
    (Coq_xI (Coq_xI (Coq_xO (Coq_xI Coq_xH))))))) :: ((Npos (Coq_xI (Coq_xO
    (Coq_xI (Coq_xO (Coq_xO (Coq_xI Coq_xH))))))) :: ((Npos (Coq_xI (Coq_xO
    (Coq_xI (Coq_xI (Coq_xO Coq_xH)))))) :: ((Npos (Coq_xO (Coq_xI (Coq_xI
    (Coq_xI (Coq_xO (Coq_xI Coq_xH))))))) :: ((Npos (Coq_xI (Coq_xO (Coq_xO
    (Coq_xO (Coq_xO (Coq_xI Coq_xH))))))) :: ((Npos (Coq_xI (Coq_xO (Coq_xI
    (Coq_xI (Coq_xO (Coq_xI Coq_xH))))))) :: ((Npos (Coq_xI (Coq_xO (Coq_xI
    (Coq_xO (Coq_xO (Coq_xI
    Coq_xH))))))) :: [])))))))))))))))))))))))) :: ((((Npos (Coq_xI (Coq_xO
    (Coq_xI (Coq_xO (Coq_xI (Coq_xI Coq_xH))))))) :: ((Npos (Coq_xO (Coq_xI
    (Coq_xO (Coq_xO (Coq_xI (Coq_xI Coq_xH))))))) :: ((Npos (Coq_xO (Coq_xI
    (Coq_xI (Coq_xI (Coq_xO (Coq_xI Coq_xH))))))) :: ((Npos (Coq_xO (Coq_xI
    (Coq_xO (Coq_xI (Coq_xI Coq_xH)))))) :: ((Npos (Coq_xI (Coq_xI (Coq_xI
    (Coq_xI (Coq_xO (Coq_xI Coq_xH))))))) :: ((Npos (Coq_xI (Coq_xO (Coq_xO
    (Coq_xO (Coq_xO (Coq_xI Coq_xH))))))) :: ((Npos (Coq_xI (Coq_xI (Coq_xO
    (Coq_xO (Coq_xI (Coq_xI Coq_xH))))))) :: ((Npos (Coq_xI (Coq_xO (Coq_xO
    (Coq_xI (Coq_xO (Coq_xI Coq_xH))))))) :: ((Npos (Coq_xI (Coq_xI (Coq_xO
    (Coq_xO (Coq_xI (Coq_xI Coq_xH))))))) :: ((Npos (Coq_xO (Coq_xI (Coq_xO
    (Coq_xI (Coq_xI Coq_xH)))))) :: ((Npos (Coq_xO (Coq_xI (Coq_xI (Coq_xI
    (Coq_xO (Coq_xI Coq_xH))))))) :: ((Npos (Coq_xI (Coq_xO (Coq_xO (Coq_xO
    (Coq_xO (Coq_xI Coq_xH))))))) :: ((Npos (Coq_xI (Coq_xO (Coq_xI (Coq_xI
    (Coq_xO (Coq_xI Coq_xH))))))) :: ((Npos (Coq_xI (Coq_xO (Coq_xI (Coq_xO
    (Coq_xO (Coq_xI Coq_xH))))))) :: ((Npos (Coq_xI (Coq_xI (Coq_xO (Coq_xO
    (Coq_xI (Coq_xI Coq_xH))))))) :: ((Npos (Coq_xO (Coq_xI (Coq_xO (Coq_xI
    (Coq_xI Coq_xH)))))) :: ((Npos (Coq_xO (Coq_xO (Coq_xI (Coq_xO (Coq_xI
    (Coq_xI Coq_xH))))))) :: ((Npos (Coq_xI (Coq_xI (Coq_xO (Coq_xO (Coq_xO
    (Coq_xI Coq_xH))))))) :: ((Npos (Coq_xO (Coq_xI (Coq_xO (Coq_xI (Coq_xI
    Coq_xH)))))) :: ((Npos (Coq_xI (Coq_xI (Coq_xI (Coq_xI (Coq_xO (Coq_xI
    Coq_xH))))))) :: ((Npos (Coq_xO (Coq_xO (Coq_xO (Coq_xO (Coq_xI (Coq_xI
    Coq_xH))))))) :: ((Npos (Coq_xI (Coq_xO (Coq_xI (Coq_xO (Coq_xO (Coq_xI
    Coq_xH))))))) :: ((Npos (Coq_xO (Coq_xI (Coq_xI (Coq_xI (Coq_xO (Coq_xI
    Coq_xH))))))) :: ((Npos (Coq_xO (Coq_xO (Coq_xI (Coq_xO (Coq_xO (Coq_xI
    Coq_xH))))))) :: ((Npos (Coq_xI (Coq_xI (Coq_xI (Coq_xI (Coq_xO (Coq_xI
    Coq_xH))))))) :: ((Npos (Coq_xI (Coq_xI (Coq_xO (Coq_xO (Coq_xO (Coq_xI
    Coq_xH))))))) :: ((Npos (Coq_xI (Coq_xO (Coq_xI (Coq_xO (Coq_xI (Coq_xI
    Coq_xH))))))) :: ((Npos (Coq_xI (Coq_xO (Coq_xI (Coq_xI (Coq_xO (Coq_xI
    Coq_xH))))))) :: ((Npos (Coq_xI (Coq_xO (Coq_xI (Coq_xO (Coq_xO (Coq_xI
    Coq_xH))))))) :: ((Npos (Coq_xO (Coq_xI (Coq_xI (Coq_xI (Coq_xO (Coq_xI
    Coq_xH))))))) :: ((Npos (Coq_xO (Coq_xO (Coq_xI (Coq_xO (Coq_xI (Coq_xI
    Coq_xH))))))) :: ((Npos (Coq_xO (Coq_xI (Coq_xO (Coq_xI (Coq_xI
    Coq_xH)))))) :: ((Npos (Coq_xO (Coq_xO (Coq_xO (Coq_xI (Coq_xI (Coq_xI
    Coq_xH))))))) :: ((Npos (Coq_xI (Coq_xO (Coq_xI (Coq_xI (Coq_xO (Coq_xI
    Coq_xH))))))) :: ((Npos (Coq_xO (Coq_xO (Coq_xI (Coq_xI (Coq_xO (Coq_xI
    Coq_xH))))))) :: ((Npos (Coq_xO (Coq_xI (Coq_xI (Coq_xI (Coq_xO (Coq_xI
    Coq_xH))))))) :: ((Npos (Coq_xI (Coq_xI (Coq_xO (Coq_xO (Coq_xI (Coq_xI
    Coq_xH))))))) :: ((Npos (Coq_xO (Coq_xI (Coq_xO (Coq_xI (Coq_xI
    Coq_xH)))))) :: ((Npos (Coq_xO (Coq_xO (Coq_xI (Coq_xO (Coq_xI (Coq_xI
    Coq_xH))))))) :: ((Npos (Coq_xI (Coq_xO (Coq_xO (Coq_xO (Coq_xO (Coq_xI
    Coq_xH))))))) :: ((Npos (Coq_xO (Coq_xI (Coq_xO (Coq_xO (Coq_xO (Coq_xI
    Coq_xH))))))) :: ((Npos (Coq_xO (Coq_xO (Coq_xI (Coq_xI (Coq_xO (Coq_xI
    Coq_xH))))))) :: ((Npos (Coq_xI (Coq_xO (Coq_xI (Coq_xO (Coq_xO (Coq_xI
    Coq_xH))))))) :: ((Npos (Coq_xO (Coq_xI (Coq_xO (Coq_xI (Coq_xI
    Coq_xH)))))) :: ((Npos (Coq_xI (Coq_xO (Coq_xO (Coq_xO (Coq_xI
    Coq_xH)))))) :: ((Npos (Coq_xO (Coq_xI (Coq_xI (Coq_xI (Coq_xO
    Coq_xH)))))) :: ((Npos (Coq_xO (Coq_xO (Coq_xO (Coq_xO (Coq_xI
    Coq_xH)))))) :: []))))))))))))))))))))))))))))))))))))))))))))))), ((Npos
    (Coq_xO (Coq_xO (Coq_xO (Coq_xO (Coq_xI (Coq_xI Coq_xH))))))) :: ((Npos
    (Coq_xI (Coq_xO (Coq_xO (Coq_xO (Coq_xO (Coq_xI Coq_xH))))))) :: ((Npos
    (Coq_xO (Coq_xI (Coq_xO (Coq_xO (Coq_xI (Coq_xI Coq_xH))))))) :: ((Npos
    (Coq_xI (Coq_xO (Coq_xO (Coq_xO (Coq_xO (Coq_xI Coq_xH))))))) :: ((Npos
    (Coq_xI (Coq_xI (Coq_xI (Coq_xO (Coq_xO (Coq_xI Coq_xH))))))) :: ((Npos
    (Coq_xO (Coq_xI (Coq_xO (Coq_xO (Coq_xI (Coq_xI Coq_xH))))))) :: ((Npos
    (Coq_xI (Coq_xO (Coq_xO (Coq_xO (Coq_xO (Coq_xI Coq_xH))))))) :: ((Npos
    (Coq_xO (Coq_xO (Coq_xO (Coq_xO (Coq_xI (Coq_xI Coq_xH))))))) :: ((Npos
    (Coq_xO (Coq_xO (Coq_xO (Coq_xI (Coq_xO (Coq_xI Coq_xH))))))) :: ((Npos
    (Coq_xI (Coq_xO (Coq_xI (Coq_xI (Coq_xO Coq_xH)))))) :: ((Npos (Coq_xI
    (Coq_xI (Coq_xO (Coq_xO (Coq_xI (Coq_xI Coq_xH))))))) :: ((Npos (Coq_xO
    (Coq_xO (Coq_xI (Coq_xO (Coq_xI (Coq_xI Coq_xH))))))) :: ((Npos (Coq_xI
    (Coq_xO (Coq_xO (Coq_xI (Coq_xI (Coq_xI Coq_xH))))))) :: ((Npos (Coq_xO
    (Coq_xO (Coq_xI (Coq_xI (Coq_xO (Coq_xI Coq_xH))))))) :: ((Npos (Coq_xI
    (Coq_xO (Coq_xI (Coq_xO (Coq_xO (Coq_xI Coq_xH))))))) :: ((Npos (Coq_xI
    (Coq_xO (Coq_xI (Coq_xI (Coq_xO Coq_xH)))))) :: ((Npos (Coq_xO (Coq_xI
    (Coq_xI (Coq_xI (Coq_xO (Coq_xI Coq_xH))))))) :: ((Npos (Coq_xI (Coq_xO
    (Coq_xO (Coq_xO (Coq_xO (Coq_xI Coq_xH))))))) :: ((Npos (Coq_xI (Coq_xO
    (Coq_xI (Coq_xI (Coq_xO (Coq_xI Coq_xH))))))) :: ((Npos (Coq_xI (Coq_xO
    (Coq_xI (Coq_xO (Coq_xO (Coq_xI
    Coq_xH))))))) :: []))))))))))))))))))))) :: ((((Npos (Coq_xI (Coq_xO
    (Coq_xI (Coq_xO (Coq_xI (Coq_xI Coq_xH))))))) :: ((Npos (Coq_xO (Coq_xI
    (Coq_xO (Coq_xO (Coq_xI (Coq_xI Coq_xH))))))) :: ((Npos (Coq_xO (Coq_xI
    (Coq_xI (Coq_xI (Coq_xO (Coq_xI Coq_xH))))))) :: ((Npos (Coq_xO (Coq_xI
    (Coq_xO (Coq_xI (Coq_xI Coq_xH)))))) :: ((Npos (Coq_xI (Coq_xI (Coq_xI
    (Coq_xI (Coq_xO (Coq_xI Coq_xH))))))) :: ((Npos (Coq_xI (Coq_xO (Coq_xO
    (Coq_xO (Coq_xO (Coq_xI Coq_xH))))))) :: ((Npos (Coq_xI (Coq_xI (Coq_xO
    (Coq_xO (Coq_xI (Coq_xI Coq_xH))))))) :: ((Npos (Coq_xI (Coq_xO (Coq_xO
    (Coq_xI (Coq_xO (Coq_xI Coq_xH))))))) :: ((Npos (Coq_xI (Coq_xI (Coq_xO
    (Coq_xO (Coq_xI (Coq_xI Coq_xH))))))) :: ((Npos (Coq_xO (Coq_xI (Coq_xO
    (Coq_xI (Coq_xI Coq_xH)))))) :: ((Npos (Coq_xO (Coq_xI (Coq_xI (Coq_xI
    (Coq_xO (Coq_xI Coq_xH))))))) :: ((Npos (Coq_xI (Coq_xO (Coq_xO (Coq_xO
    (Coq_xO (Coq_xI Coq_xH))))))) :: ((Npos (Coq_xI (Coq_xO (Coq_xI (Coq_xI
    (Coq_xO (Coq_xI Coq_xH))))))) :: ((Npos (Coq_xI (Coq_xO (Coq_xI (Coq_xO
    (Coq_xO (Coq_xI Coq_xH))))))) :: ((Npos (Coq_xI (Coq_xI (Coq_xO (Coq_xO
    (Coq_xI (Coq_xI Coq_xH))))))) :: ((Npos (Coq_xO (Coq_xI (Coq_xO (Coq_xI
    (Coq_xI Coq_xH)))))) :: ((Npos (Coq_xO (Coq_xO (Coq_xI (Coq_xO (Coq_xI
    (Coq_xI Coq_xH))))))) :: ((Npos (Coq_xI (Coq_xI (Coq_xO (Coq_xO (Coq_xO
    (Coq_xI Coq_xH))))))) :: ((Npos (Coq_xO (Coq_xI (Coq_xO (Coq_xI (Coq_xI
    Coq_xH)))))) :: ((Npos (Coq_xI (Coq_xI (Coq_xI (Coq_xI (Coq_xO (Coq_xI
    Coq_xH))))))) :: ((Npos (Coq_xO (Coq_xO (Coq_xO (Coq_xO (Coq_xI (Coq_xI
    Coq_xH))))))) :: ((Npos (Coq_xI (Coq_xO (Coq_xI (Coq_xO (Coq_xO (Coq_xI
    Coq_xH))))))) :: ((Npos (Coq_xO (Coq_xI (Coq_xI (Coq_xI (Coq_xO (Coq_xI
    Coq_xH))))))) :: ((Npos (Coq_xO (Coq_xO (Coq_xI (Coq_xO (Coq_xO (Coq_xI
    Coq_xH))))))) :: ((Npos (Coq_xI (Coq_xI (Coq_xI (Coq_xI (Coq_xO (Coq_xI
    Coq_xH))))))) :: ((Npos (Coq_xI (Coq_xI (Coq_xO (Coq_xO (Coq_xO (Coq_xI
    Coq_xH))))))) :: ((Npos (Coq_xI (Coq_xO (Coq_xI (Coq_xO (Coq_xI (Coq_xI
    Coq_xH))))))) :: ((Npos (Coq_xI (Coq_xO (Coq_xI (Coq_xI (Coq_xO (Coq_xI
    Coq_xH))))))) :: ((Npos (Coq_xI (Coq_xO (Coq_xI (Coq_xO (Coq_xO (Coq_xI
    Coq_xH))))))) :: ((Npos (Coq_xO (Coq_xI (Coq_xI (Coq_xI (Coq_xO (Coq_xI
    Coq_xH))))))) :: ((Npos (Coq_xO (Coq_xO (Coq_xI (Coq_xO (Coq_xI (Coq_xI
    Coq_xH))))))) :: ((Npos (Coq_xO (Coq_xI (Coq_xO (Coq_xI (Coq_xI
    Coq_xH)))))) :: ((Npos (Coq_xO (Coq_xO (Coq_xO (Coq_xI (Coq_xI (Coq_xI
    Coq_xH))))))) :: ((Npos (Coq_xI (Coq_xO (Coq_xI (Coq_xI (Coq_xO (Coq_xI
    Coq_xH))))))) :: ((Npos (Coq_xO (Coq_xO (Coq_xI (Coq_xI (Coq_xO (Coq_xI
    Coq_xH))))))) :: ((Npos (Coq_xO (Coq_xI (Coq_xI (Coq_xI (Coq_xO (Coq_xI
    Coq_xH))))))) :: ((Npos (Coq_xI (Coq_xI (Coq_xO (Coq_xO (Coq_xI (Coq_xI
    Coq_xH))))))) :: ((Npos (Coq_xO (Coq_xI (Coq_xO (Coq_xI (Coq_xI
    Coq_xH)))))) :: ((Npos (Coq_xO (Coq_xO (Coq_xI (Coq_xO (Coq_xI (Coq_xI
    Coq_xH))))))) :: ((Npos (Coq_xI (Coq_xO (Coq_xO (Coq_xO (Coq_xO (Coq_xI
    Coq_xH))))))) :: ((Npos (Coq_xO (Coq_xI (Coq_xO (Coq_xO (Coq_xO (Coq_xI
    Coq_xH))))))) :: ((Npos (Coq_xO (Coq_xO (Coq_xI (Coq_xI (Coq_xO (Coq_xI
    Coq_xH))))))) :: ((Npos (Coq_xI (Coq_xO (Coq_xI (Coq_xO (Coq_xO (Coq_xI
    Coq_xH))))))) :: ((Npos (Coq_xO (Coq_xI (Coq_xO (Coq_xI (Coq_xI
    Coq_xH)))))) :: ((Npos (Coq_xI (Coq_xO (Coq_xO (Coq_xO (Coq_xI
    Coq_xH)))))) :: ((Npos (Coq_xO (Coq_xI (Coq_xI (Coq_xI (Coq_xO
    Coq_xH)))))) :: ((Npos (Coq_xO (Coq_xO (Coq_xO (Coq_xO (Coq_xI
    Coq_xH)))))) :: []))))))))))))))))))))))))))))))))))))))))))))))), ((Npos
    (Coq_xI (Coq_xI (Coq_xO (Coq_xO (Coq_xI (Coq_xI Coq_xH))))))) :: ((Npos
    (Coq_xO (Coq_xO (Coq_xI (Coq_xO (Coq_xI (Coq_xI Coq_xH))))))) :: ((Npos
    (Coq_xI (Coq_xO (Coq_xO (Coq_xI (Coq_xI (Coq_xI Coq_xH))))))) :: ((Npos
    (Coq_xO (Coq_xO (Coq_xI (Coq_xI (Coq_xO (Coq_xI Coq_xH))))))) :: ((Npos
    (Coq_xI (Coq_xO (Coq_xI (Coq_xO (Coq_xO (Coq_xI Coq_xH))))))) :: ((Npos
    (Coq_xI (Coq_xO (Coq_xI (Coq_xI (Coq_xO Coq_xH)))))) :: ((Npos (Coq_xO
    (Coq_xI (Coq_xI (Coq_xI (Coq_xO (Coq_xI Coq_xH))))))) :: ((Npos (Coq_xI
    (Coq_xO (Coq_xO (Coq_xO (Coq_xO (Coq_xI Coq_xH))))))) :: ((Npos (Coq_xI
    (Coq_xO (Coq_xI (Coq_xI (Coq_xO (Coq_xI Coq_xH))))))) :: ((Npos (Coq_xI
    (Coq_xO (Coq_xI (Coq_xO (Coq_xO (Coq_xI
    Coq_xH))))))) :: []))))))))))) :: ((((Npos (Coq_xI (Coq_xO (Coq_xI
    (Coq_xO (Coq_xI (Coq_xI Coq_xH))))))) :: ((Npos (Coq_xO (Coq_xI (Coq_xO
    (Coq_xO (Coq_xI (Coq_xI Coq_xH))))))) :: ((Npos (Coq_xO (Coq_xI (Coq_xI
    (Coq_xI (Coq_xO (Coq_xI Coq_xH))))))) :: ((Npos (Coq_xO (Coq_xI (Coq_xO
    (Coq_xI (Coq_xI Coq_xH)))))) :: ((Npos (Coq_xI (Coq_xI (Coq_xI (Coq_xI
    (Coq_xO (Coq_xI Coq_xH))))))) :: ((Npos (Coq_xI (Coq_xO (Coq_xO (Coq_xO
    (Coq_xO (Coq_xI Coq_xH))))))) :: ((Npos (Coq_xI (Coq_xI (Coq_xO (Coq_xO
    (Coq_xI (Coq_xI Coq_xH))))))) :: ((Npos (Coq_xI (Coq_xO (Coq_xO (Coq_xI
    (Coq_xO (Coq_xI Coq_xH))))))) :: ((Npos (Coq_xI (Coq_xI (Coq_xO (Coq_xO
    (Coq_xI (Coq_xI Coq_xH))))))) :: ((Npos (Coq_xO (Coq_xI (Coq_xO (Coq_xI
    (Coq_xI Coq_xH)))))) :: ((Npos (Coq_xO (Coq_xI (Coq_xI (Coq_xI (Coq_xO
    (Coq_xI Coq_xH))))))) :: ((Npos (Coq_xI (Coq_xO (Coq_xO (Coq_xO (Coq_xO
    (Coq_xI Coq_xH))))))) :: ((Npos (Coq_xI (Coq_xO (Coq_xI (Coq_xI (Coq_xO
    (Coq_xI Coq_xH))))))) :: ((Npos (Coq_xI (Coq_xO (Coq_xI (Coq_xO (Coq_xO
    (Coq_xI Coq_xH))))))) :: ((Npos (Coq_xI (Coq_xI (Coq_xO (Coq_xO (Coq_xI
    (Coq_xI Coq_xH))))))) :: ((Npos (Coq_xO (Coq_xI (Coq_xO (Coq_xI (Coq_xI
    Coq_xH)))))) :: ((Npos (Coq_xO (Coq_xO (Coq_xI (Coq_xO (Coq_xI (Coq_xI
    Coq_xH))))))) :: ((Npos (Coq_xI (Coq_xI (Coq_xO (Coq_xO (Coq_xO (Coq_xI
    Coq_xH))))))) :: ((Npos (Coq_xO (Coq_xI (Coq_xO (Coq_xI (Coq_xI
    Coq_xH)))))) :: ((Npos (Coq_xI (Coq_xI (Coq_xI (Coq_xI (Coq_xO (Coq_xI
    Coq_xH))))))) :: ((Npos (Coq_xO (Coq_xO (Coq_xO (Coq_xO (Coq_xI (Coq_xI
    Coq_xH))))))) :: ((Npos (Coq_xI (Coq_xO (Coq_xI (Coq_xO (Coq_xO (Coq_xI
    Coq_xH))))))) :: ((Npos (Coq_xO (Coq_xI (Coq_xI (Coq_xI (Coq_xO (Coq_xI
    Coq_xH))))))) :: ((Npos (Coq_xO (Coq_xO (Coq_xI (Coq_xO (Coq_xO (Coq_xI
    Coq_xH))))))) :: ((Npos (Coq_xI (Coq_xI (Coq_xI (Coq_xI (Coq_xO (Coq_xI
    Coq_xH))))))) :: ((Npos (Coq_xI (Coq_xI (Coq_xO (Coq_xO (Coq_xO (Coq_xI
    Coq_xH))))))) :: ((Npos (Coq_xI (Coq_xO (Coq_xI (Coq_xO (Coq_xI (Coq_xI
    Coq_xH))))))) :: ((Npos (Coq_xI (Coq_xO (Coq_xI (Coq_xI (Coq_xO (Coq_xI
    Coq_xH))))))) :: ((Npos (Coq_xI (Coq_xO (Coq_xI (Coq_xO (Coq_xO (Coq_xI
    Coq_xH))))))) :: ((Npos (Coq_xO (Coq_xI (Coq_xI (Coq_xI (Coq_xO (Coq_xI
    Coq_xH))))))) :: ((Npos (Coq_xO (Coq_xO (Coq_xI (Coq_xO (Coq_xI (Coq_xI
    Coq_xH))))))) :: ((Npos (Coq_xO (Coq_xI (Coq_xO (Coq_xI (Coq_xI
    Coq_xH)))))) :: ((Npos (Coq_xO (Coq_xO (Coq_xO (Coq_xI (Coq_xI (Coq_xI
    Coq_xH))))))) :: ((Npos (Coq_xI (Coq_xO (Coq_xI (Coq_xI (Coq_xO (Coq_xI
    Coq_xH))))))) :: ((Npos (Coq_xO (Coq_xO (Coq_xI (Coq_xI (Coq_xO (Coq_xI
    Coq_xH))))))) :: ((Npos (Coq_xO (Coq_xI (Coq_xI (Coq_xI (Coq_xO (Coq_xI
    Coq_xH))))))) :: ((Npos (Coq_xI (Coq_xI (Coq_xO (Coq_xO (Coq_xI (Coq_xI
    Coq_xH))))))) :: ((Npos (Coq_xO (Coq_xI (Coq_xO (Coq_xI (Coq_xI
    Coq_xH)))))) :: ((Npos (Coq_xO (Coq_xO (Coq_xI (Coq_xO (Coq_xI (Coq_xI
    Coq_xH))))))) :: ((Npos (Coq_xI (Coq_xO (Coq_xI (Coq_xO (Coq_xO (Coq_xI
    Coq_xH))))))) :: ((Npos (Coq_xO (Coq_xO (Coq_xO (Coq_xI (Coq_xI (Coq_xI
    Coq_xH))))))) :: ((Npos (Coq_xO (Coq_xO (Coq_xI (Coq_xO (Coq_xI (Coq_xI
    Coq_xH))))))) :: ((Npos (Coq_xO (Coq_xI (Coq_xO (Coq_xI (Coq_xI
    Coq_xH)))))) :: ((Npos (Coq_xI (Coq_xO (Coq_xO (Coq_xO (Coq_xI
    Coq_xH)))))) :: ((Npos (Coq_xO (Coq_xI (Coq_xI (Coq_xI (Coq_xO
    Coq_xH)))))) :: ((Npos (Coq_xO (Coq_xO (Coq_xO (Coq_xO (Coq_xI
    Coq_xH)))))) :: [])))))))))))))))))))))))))))))))))))))))))))))), ((Npos
    (Coq_xI (Coq_xI (Coq_xO (Coq_xO (Coq_xO (Coq_xI Coq_xH))))))) :: ((Npos
    (Coq_xI (Coq_xO (Coq_xO (Coq_xI (Coq_xO (Coq_xI Coq_xH))))))) :: ((Npos
    (Coq_xO (Coq_xO (Coq_xI (Coq_xO (Coq_xI (Coq_xI Coq_xH))))))) :: ((Npos
    (Coq_xI (Coq_xO (Coq_xO (Coq_xO (Coq_xO (Coq_xI Coq_xH))))))) :: ((Npos
    (Coq_xO (Coq_xO (Coq_xI (Coq_xO (Coq_xI (Coq_xI Coq_xH))))))) :: ((Npos
    (Coq_xI (Coq_xO (Coq_xO (Coq_xI (Coq_xO (Coq_xI Coq_xH))))))) :: ((Npos
    (Coq_xI (Coq_xI (Coq_xI (Coq_xI (Coq_xO (Coq_xI Coq_xH))))))) :: ((Npos
    (Coq_xO (Coq_xI (Coq_xI (Coq_xI (Coq_xO (Coq_xI Coq_xH))))))) :: ((Npos
    (Coq_xI (Coq_xO (Coq_xI (Coq_xI (Coq_xO Coq_xH)))))) :: ((Npos (Coq_xO
    (Coq_xI (Coq_xO (Coq_xO (Coq_xO (Coq_xI Coq_xH))))))) :: ((Npos (Coq_xI
    (Coq_xI (Coq_xI (Coq_xI (Coq_xO (Coq_xI Coq_xH))))))) :: ((Npos (Coq_xO
    (Coq_xO (Coq_xI (Coq_xO (Coq_xO (Coq_xI Coq_xH))))))) :: ((Npos (Coq_xI
    (Coq_xO (Coq_xO (Coq_xI (Coq_xI (Coq_xI Coq_xH))))))) :: ((Npos (Coq_xI
    (Coq_xO (Coq_xI (Coq_xI (Coq_xO Coq_xH)))))) :: ((Npos (Coq_xI (Coq_xI
    (Coq_xO (Coq_xO (Coq_xI (Coq_xI Coq_xH))))))) :: ((Npos (Coq_xO (Coq_xO
    (Coq_xI (Coq_xO (Coq_xI (Coq_xI Coq_xH))))))) :: ((Npos (Coq_xI (Coq_xO
    (Coq_xO (Coq_xI (Coq_xI (Coq_xI Coq_xH))))))) :: ((Npos (Coq_xO (Coq_xO
    (Coq_xI (Coq_xI (Coq_xO (Coq_xI Coq_xH))))))) :: ((Npos (Coq_xI (Coq_xO
    (Coq_xI (Coq_xO (Coq_xO (Coq_xI Coq_xH))))))) :: ((Npos (Coq_xI (Coq_xO
    (Coq_xI (Coq_xI (Coq_xO Coq_xH)))))) :: ((Npos (Coq_xO (Coq_xI (Coq_xI
    (Coq_xI (Coq_xO (Coq_xI Coq_xH))))))) :: ((Npos (Coq_xI (Coq_xO (Coq_xO
    (Coq_xO (Coq_xO (Coq_xI Coq_xH))))))) :: ((Npos (Coq_xI (Coq_xO (Coq_xI
    (Coq_xI (Coq_xO (Coq_xI Coq_xH))))))) :: ((Npos (Coq_xI (Coq_xO (Coq_xI
    (Coq_xO (Coq_xO (Coq_xI
    Coq_xH))))))) :: []))))))))))))))))))))))))) :: ((((Npos (Coq_xI (Coq_xO
    (Coq_xI (Coq_xO (Coq_xI (Coq_xI Coq_xH))))))) :: ((Npos (Coq_xO (Coq_xI
    (Coq_xO (Coq_xO (Coq_xI (Coq_xI Coq_xH))))))) :: ((Npos (Coq_xO (Coq_xI
    (Coq_xI (Coq_xI (Coq_xO (Coq_xI Coq_xH))))))) :: ((Npos (Coq_xO (Coq_xI
    (Coq_xO (Coq_xI (Coq_xI Coq_xH)))))) :: ((Npos (Coq_xI (Coq_xI (Coq_xI
    (Coq_xI (Coq_xO (Coq_xI Coq_xH))))))) :: ((Npos (Coq_xI (Coq_xO (Coq_xO
    (Coq_xO (Coq_xO (Coq_xI Coq_xH))))))) :: ((Npos (Coq_xI (Coq_xI (Coq_xO
    (Coq_xO (Coq_xI (Coq_xI Coq_xH))))))) :: ((Npos (Coq_xI (Coq_xO (Coq_xO
    (Coq_xI (Coq_xO (Coq_xI Coq_xH))))))) :: ((Npos (Coq_xI (Coq_xI (Coq_xO
    (Coq_xO (Coq_xI (Coq_xI Coq_xH))))))) :: ((Npos (Coq_xO (Coq_xI (Coq_xO
    (Coq_xI (Coq_xI Coq_xH)))))) :: ((Npos (Coq_xO (Coq_xI (Coq_xI (Coq_xI
    (Coq_xO (Coq_xI Coq_xH))))))) :: ((Npos (Coq_xI (Coq_xO (Coq_xO (Coq_xO
    (Coq_xO (Coq_xI Coq_xH))))))) :: ((Npos (Coq_xI (Coq_xO (Coq_xI (Coq_xI
    (Coq_xO (Coq_xI Coq_xH))))))) :: ((Npos (Coq_xI (Coq_xO (Coq_xI (Coq_xO
    (Coq_xO (Coq_xI Coq_xH))))))) :: ((Npos (Coq_xI (Coq_xI (Coq_xO (Coq_xO
    (Coq_xI (Coq_xI Coq_xH))))))) :: ((Npos (Coq_xO (Coq_xI (Coq_xO (Coq_xI
    (Coq_xI Coq_xH)))))) :: ((Npos (Coq_xO (Coq_xO (Coq_xI (Coq_xO (Coq_xI
    (Coq_xI Coq_xH))))))) :: ((Npos (Coq_xI (Coq_xI (Coq_xO (Coq_xO (Coq_xO
    (Coq_xI Coq_xH))))))) :: ((Npos (Coq_xO (Coq_xI (Coq_xO (Coq_xI (Coq_xI
    Coq_xH)))))) :: ((Npos (Coq_xI (Coq_xI (Coq_xI (Coq_xI (Coq_xO (Coq_xI
    Coq_xH))))))) :: ((Npos (Coq_xO (Coq_xO (Coq_xO (Coq_xO (Coq_xI (Coq_xI
    Coq_xH))))))) :: ((Npos (Coq_xI (Coq_xO (Coq_xI (Coq_xO (Coq_xO (Coq_xI
    Coq_xH))))))) :: ((Npos (Coq_xO (Coq_xI (Coq_xI (Coq_xI (Coq_xO (Coq_xI
    Coq_xH))))))) :: ((Npos (Coq_xO (Coq_xO (Coq_xI (Coq_xO (Coq_xO (Coq_xI
    Coq_xH))))))) :: ((Npos (Coq_xI (Coq_xI (Coq_xI (Coq_xI (Coq_xO (Coq_xI
    Coq_xH))))))) :: ((Npos (Coq_xI (Coq_xI (Coq_xO (Coq_xO (Coq_xO (Coq_xI
    Coq_xH))))))) :: ((Npos (Coq_xI (Coq_xO (Coq_xI (Coq_xO (Coq_xI (Coq_xI
    Coq_xH))))))) :: ((Npos (Coq_xI (Coq_xO (Coq_xI (Coq_xI (Coq_xO (Coq_xI
    Coq_xH))))))) :: ((Npos (Coq_xI (Coq_xO (Coq_xI (Coq_xO (Coq_xO (Coq_xI
    Coq_xH))))))) :: ((Npos (Coq_xO (Coq_xI (Coq_xI (Coq_xI (Coq_xO (Coq_xI
    Coq_xH))))))) :: ((Npos (Coq_xO (Coq_xO (Coq_xI (Coq_xO (Coq_xI (Coq_xI
    Coq_xH))))))) :: ((Npos (Coq_xO (Coq_xI (Coq_xO (Coq_xI (Coq_xI
    Coq_xH)))))) :: ((Npos (Coq_xO (Coq_xO (Coq_xO (Coq_xI (Coq_xI (Coq_xI
    Coq_xH))))))) :: ((Npos (Coq_xI (Coq_xO (Coq_xI (Coq_xI (Coq_xO (Coq_xI
    Coq_xH))))))) :: ((Npos (Coq_xO (Coq_xO (Coq_xI (Coq_xI (Coq_xO (Coq_xI
    Coq_xH))))))) :: ((Npos (Coq_xO (Coq_xI (Coq_xI (Coq_xI (Coq_xO (Coq_xI
    Coq_xH))))))) :: ((Npos (Coq_xI (Coq_xI (Coq_xO (Coq_xO (Coq_xI (Coq_xI
    Coq_xH))))))) :: ((Npos (Coq_xO (Coq_xI (Coq_xO (Coq_xI (Coq_xI
    Coq_xH)))))) :: ((Npos (Coq_xO (Coq_xO (Coq_xI (Coq_xO (Coq_xI (Coq_xI
    Coq_xH))))))) :: ((Npos (Coq_xI (Coq_xO (Coq_xI (Coq_xO (Coq_xO (Coq_xI
    Coq_xH))))))) :: ((Npos (Coq_xO (Coq_xO (Coq_xO (Coq_xI (Coq_xI (Coq_xI
    Coq_xH))))))) :: ((Npos (Coq_xO (Coq_xO (Coq_xI (Coq_xO (Coq_xI (Coq_xI
    Coq_xH))))))) :: ((Npos (Coq_xO (Coq_xI (Coq_xO (Coq_xI (Coq_xI
    Coq_xH)))))) :: ((Npos (Coq_xI (Coq_xO (Coq_xO (Coq_xO (Coq_xI
    Coq_xH)))))) :: ((Npos (Coq_xO (Coq_xI (Coq_xI (Coq_xI (Coq_xO
    Coq_xH)))))) :: ((Npos (Coq_xO (Coq_xO (Coq_xO (Coq_xO (Coq_xI
    Coq_xH)))))) :: [])))))))))))))))))))))))))))))))))))))))))))))), ((Npos
    (Coq_xI (Coq_xI (Coq_xO (Coq_xO (Coq_xO (Coq_xI Coq_xH))))))) :: ((Npos
    (Coq_xI (Coq_xO (Coq_xO (Coq_xI (Coq_xO (Coq_xI Coq_xH))))))) :: ((Npos
    (Coq_xO (Coq_xO (Coq_xI (Coq_xO (Coq_xI (Coq_xI Coq_xH))))))) :: ((Npos
    (Coq_xI (Coq_xO (Coq_xO (Coq_xO (Coq_xO (Coq_xI Coq_xH))))))) :: ((Npos
    (Coq_xO (Coq_xO (Coq_xI (Coq_xO (Coq_xI (Coq_xI Coq_xH))))))) :: ((Npos
    (Coq_xI (Coq_xO (Coq_xO (Coq_xI (Coq_xO (Coq_xI Coq_xH))))))) :: ((Npos
    (Coq_xI (Coq_xI (Coq_xI (Coq_xI (Coq_xO (Coq_xI Coq_xH))))))) :: ((Npos
    (Coq_xO (Coq_xI (Coq_xI (Coq_xI (Coq_xO (Coq_xI Coq_xH))))))) :: ((Npos
    (Coq_xI (Coq_xO (Coq_xI (Coq_xI (Coq_xO Coq_xH)))))) :: ((Npos (Coq_xI
    (Coq_xI (Coq_xO (Coq_xO (Coq_xI (Coq_xI Coq_xH))))))) :: ((Npos (Coq_xO
    (Coq_xO (Coq_xI (Coq_xO (Coq_xI (Coq_xI Coq_xH))))))) :: ((Npos (Coq_xI
    (Coq_xO (Coq_xO (Coq_xI (Coq_xI (Coq_xI Coq_xH))))))) :: ((Npos (Coq_xO
    (Coq_xO (Coq_xI (Coq_xI (Coq_xO (Coq_xI Coq_xH))))))) :: ((Npos (Coq_xI
    (Coq_xO (Coq_xI (Coq_xO (Coq_xO (Coq_xI Coq_xH))))))) :: ((Npos (Coq_xI
    (Coq_xO (Coq_xI (Coq_xI (Coq_xO Coq_xH)))))) :: ((Npos (Coq_xO (Coq_xI
    (Coq_xI (Coq_xI (Coq_xO (Coq_xI Coq_xH))))))) :: ((Npos (Coq_xI (Coq_xO
    (Coq_xO (Coq_xO (Coq_xO (Coq_xI Coq_xH))))))) :: ((Npos (Coq_xI (Coq_xO
    (Coq_xI (Coq_xI (Coq_xO (Coq_xI Coq_xH))))))) :: ((Npos (Coq_xI (Coq_xO
    (Coq_xI (Coq_xO (Coq_xO (Coq_xI
    Coq_xH))))))) :: [])))))))))))))))))))) :: ((((Npos (Coq_xI (Coq_xO
    (Coq_xI (Coq_xO (Coq_xI (Coq_xI Coq_xH))))))) :: ((Npos (Coq_xO (Coq_xI
    (Coq_xO (Coq_xO (Coq_xI (Coq_xI Coq_xH))))))) :: ((Npos (Coq_xO (Coq_xI
    (Coq_xI (Coq_xI (Coq_xO (Coq_xI Coq_xH))))))) :: ((Npos (Coq_xO (Coq_xI
    (Coq_xO (Coq_xI (Coq_xI Coq_xH)))))) :: ((Npos (Coq_xI (Coq_xI (Coq_xI
    (Coq_xI (Coq_xO (Coq_xI Coq_xH))))))) :: ((Npos (Coq_xI (Coq_xO (Coq_xO
    (Coq_xO (Coq_xO (Coq_xI Coq_xH))))))) :: ((Npos (Coq_xI (Coq_xI (Coq_xO
    (Coq_xO (Coq_xI (Coq_xI Coq_xH))))))) :: ((Npos (Coq_xI (Coq_xO (Coq_xO
    (Coq_xI (Coq_xO (Coq_xI Coq_xH))))))) :: ((Npos (Coq_xI (Coq_xI (Coq_xO
    (Coq_xO (Coq_xI (Coq_xI Coq_xH))))))) :: ((Npos (Coq_xO (Coq_xI (Coq_xO
    (Coq_xI (Coq_xI Coq_xH)))))) :: ((Npos (Coq_xO (Coq_xI (Coq_xI (Coq_xI
    (Coq_xO (Coq_xI Coq_xH))))))) :: ((Npos (Coq_xI (Coq_xO (Coq_xO (Coq_xO
    (Coq_xO (Coq_xI Coq_xH))))))) :: ((Npos (Coq_xI (Coq_xO (Coq_xI (Coq_xI
    (Coq_xO (Coq_xI Coq_xH))))))) :: ((Npos (Coq_xI (Coq_xO (Coq_xI (Coq_xO
    (Coq_xO (Coq_xI Coq_xH))))))) :: ((Npos (Coq_xI (Coq_xI (Coq_xO (Coq_xO
    (Coq_xI (Coq_xI Coq_xH))))))) :: ((Npos (Coq_xO (Coq_xI (Coq_xO (Coq_xI
    (Coq_xI Coq_xH)))))) :: ((Npos (Coq_xO (Coq_xO (Coq_xI (Coq_xO (Coq_xI
    (Coq_xI Coq_xH))))))) :: ((Npos (Coq_xI (Coq_xI (Coq_xO (Coq_xO (Coq_xO
    (Coq_xI Coq_xH))))))) :: ((Npos (Coq_xO (Coq_xI (Coq_xO (Coq_xI (Coq_xI
    Coq_xH)))))) :: ((Npos (Coq_xI (Coq_xI (Coq_xI (Coq_xI (Coq_xO (Coq_xI
    Coq_xH))))))) :: ((Npos (Coq_xO (Coq_xO (Coq_xO (Coq_xO (Coq_xI (Coq_xI
    Coq_xH))))))) :: ((Npos (Coq_xI (Coq_xO (Coq_xI (Coq_xO (Coq_xO (Coq_xI
    Coq_xH))))))) :: ((Npos (Coq_xO (Coq_xI (Coq_xI (Coq_xI (Coq_xO (Coq_xI
    Coq_xH))))))) :: ((Npos (Coq_xO (Coq_xO (Coq_xI (Coq_xO (Coq_xO (Coq_xI
    Coq_xH))))))) :: ((Npos (Coq_xI (Coq_xI (Coq_xI (Coq_xI (Coq_xO (Coq_xI
    Coq_xH))))))) :: ((Npos (Coq_xI (Coq_xI (Coq_xO (Coq_xO (Coq_xO (Coq_xI
    Coq_xH))))))) :: ((Npos (Coq_xI (Coq_xO (Coq_xI (Coq_xO (Coq_xI (Coq_xI
    Coq_xH))))))) :: ((Npos (Coq_xI (Coq_xO (Coq_xI (Coq_xI (Coq_xO (Coq_xI
    Coq_xH))))))) :: ((Npos (Coq_xI (Coq_xO (Coq_xI (Coq_xO (Coq_xO (Coq_xI
    Coq_xH))))))) :: ((Npos (Coq_xO (Coq_xI (Coq_xI (Coq_xI (Coq_xO (Coq_xI
    Coq_xH))))))) :: ((Npos (Coq_xO (Coq_xO (Coq_xI (Coq_xO (Coq_xI (Coq_xI
    Coq_xH))))))) :: ((Npos (Coq_xO (Coq_xI (Coq_xO (Coq_xI (Coq_xI
    Coq_xH)))))) :: ((Npos (Coq_xO (Coq_xO (Coq_xO (Coq_xI (Coq_xI (Coq_xI
    Coq_xH))))))) :: ((Npos (Coq_xI (Coq_xO (Coq_xI (Coq_xI (Coq_xO (Coq_xI
    Coq_xH))))))) :: ((Npos (Coq_xO (Coq_xO (Coq_xI (Coq_xI (Coq_xO (Coq_xI
    Coq_xH))))))) :: ((Npos (Coq_xO (Coq_xI (Coq_xI (Coq_xI (Coq_xO (Coq_xI
    Coq_xH))))))) :: ((Npos (Coq_xI (Coq_xI (Coq_xO (Coq_xO (Coq_xI (Coq_xI
    Coq_xH))))))) :: ((Npos (Coq_xO (Coq_xI (Coq_xO (Coq_xI (Coq_xI
    Coq_xH)))))) :: ((Npos (Coq_xO (Coq_xO (Coq_xI (Coq_xO (Coq_xI (Coq_xI
    Coq_xH))))))) :: ((Npos (Coq_xI (Coq_xO (Coq_xI (Coq_xO (Coq_xO (Coq_xI
    Coq_xH))))))) :: ((Npos (Coq_xO (Coq_xO (Coq_xO (Coq_xI (Coq_xI (Coq_xI
    Coq_xH))))))) :: ((Npos (Coq_xO (Coq_xO (Coq_xI (Coq_xO (Coq_xI (Coq_xI
    Coq_xH))))))) :: ((Npos (Coq_xO (Coq_xI (Coq_xO (Coq_xI (Coq_xI
    Coq_xH)))))) :: ((Npos (Coq_xI (Coq_xO (Coq_xO (Coq_xO (Coq_xI
    Coq_xH)))))) :: ((Npos (Coq_xO (Coq_xI (Coq_xI (Coq_xI (Coq_xO
    Coq_xH)))))) :: ((Npos (Coq_xO (Coq_xO (Coq_xO (Coq_xO (Coq_xI
    Coq_xH)))))) :: [])))))))))))))))))))))))))))))))))))))))))))))), ((Npos
    (Coq_xI (Coq_xI (Coq_xO (Coq_xO (Coq_xO (Coq_xI Coq_xH))))))) :: ((Npos
    (Coq_xO (Coq_xO (Coq_xI (Coq_xI (Coq_xO (Coq_xI Coq_xH))))))) :: ((Npos
    (Coq_xI (Coq_xO (Coq_xO (Coq_xO (Coq_xO (Coq_xI Coq_xH))))))) :: ((Npos
    (Coq_xI (Coq_xI (Coq_xO (Coq_xO (Coq_xI (Coq_xI Coq_xH))))))) :: ((Npos
    (Coq_xI (Coq_xI (Coq_xO (Coq_xO (Coq_xI (Coq_xI Coq_xH))))))) :: ((Npos
    (Coq_xI (Coq_xO (Coq_xI (Coq_xI (Coq_xO Coq_xH)))))) :: ((Npos (Coq_xO
    (Coq_xI (Coq_xI (Coq_xI (Coq_xO (Coq_xI Coq_xH))))))) :: ((Npos (Coq_xI
    (Coq_xO (Coq_xO (Coq_xO (Coq_xO (Coq_xI Coq_xH))))))) :: ((Npos (Coq_xI
    (Coq_xO (Coq_xI (Coq_xI (Coq_xO (Coq_xI Coq_xH))))))) :: ((Npos (Coq_xI
    (Coq_xO (Coq_xI (Coq_xO (Coq_xO (Coq_xI Coq_xH))))))) :: ((Npos (Coq_xI
    (Coq_xI (Coq_xO (Coq_xO (Coq_xI (Coq_xI
    Coq_xH))))))) :: [])))))))))))) :: ((((Npos (Coq_xI (Coq_xO (Coq_xI
    (Coq_xO (Coq_xI (Coq_xI Coq_xH))))))) :: ((Npos (Coq_xO (Coq_xI (Coq_xO
    (Coq_xO (Coq_xI (Coq_xI Coq_xH))))))) :: ((Npos (Coq_xO (Coq_xI (Coq_xI
    (Coq_xI (Coq_xO (Coq_xI Coq_xH))))))) :: ((Npos (Coq_xO (Coq_xI (Coq_xO
    (Coq_xI (Coq_xI Coq_xH)))))) :: ((Npos (Coq_xI (Coq_xI (Coq_xI (Coq_xI
    (Coq_xO (Coq_xI Coq_xH))))))) :: ((Npos (Coq_xI (Coq_xO (Coq_xO (Coq_xO
    (Coq_xO (Coq_xI Coq_xH))))))) :: ((Npos (Coq_xI (Coq_xI (Coq_xO (Coq_xO
    (Coq_xI (Coq_xI Coq_xH))))))) :: ((Npos (Coq_xI (Coq_xO (Coq_xO (Coq_xI
    (Coq_xO (Coq_xI Coq_xH))))))) :: ((Npos (Coq_xI (Coq_xI (Coq_xO (Coq_xO
    (Coq_xI (Coq_xI Coq_xH))))))) :: ((Npos (Coq_xO (Coq_xI (Coq_xO (Coq_xI
    (Coq_xI Coq_xH)))))) :: ((Npos (Coq_xO (Coq_xI (Coq_xI (Coq_xI (Coq_xO
    (Coq_xI Coq_xH))))))) :: ((Npos (Coq_xI (Coq_xO (Coq_xO (Coq_xO (Coq_xO
    (Coq_xI Coq_xH))))))) :: ((Npos (Coq_xI (Coq_xO (Coq_xI (Coq_xI (Coq_xO
    (Coq_xI Coq_xH))))))) :: ((Npos (Coq_xI (Coq_xO (Coq_xI (Coq_xO (Coq_xO
    (Coq_xI Coq_xH))))))) :: ((Npos (Coq_xI (Coq_xI (Coq_xO (Coq_xO (Coq_xI
    (Coq_xI Coq_xH))))))) :: ((Npos (Coq_xO (Coq_xI (Coq_xO (Coq_xI (Coq_xI
    Coq_xH)))))) :: ((Npos (Coq_xO (Coq_xO (Coq_xI (Coq_xO (Coq_xI (Coq_xI
    Coq_xH))))))) :: ((Npos (Coq_xI (Coq_xI (Coq_xO (Coq_xO (Coq_xO (Coq_xI
    Coq_xH))))))) :: ((Npos (Coq_xO (Coq_xI (Coq_xO (Coq_xI (Coq_xI
    Coq_xH)))))) :: ((Npos (Coq_xI (Coq_xI (Coq_xI (Coq_xI (Coq_xO (Coq_xI
    Coq_xH))))))) :: ((Npos (Coq_xO (Coq_xO (Coq_xO (Coq_xO (Coq_xI (Coq_xI
    Coq_xH))))))) :: ((Npos (Coq_xI (Coq_xO (Coq_xI (Coq_xO (Coq_xO (Coq_xI
    Coq_xH))))))) :: ((Npos (Coq_xO (Coq_xI (Coq_xI (Coq_xI (Coq_xO (Coq_xI
    Coq_xH))))))) :: ((Npos (Coq_xO (Coq_xO (Coq_xI (Coq_xO (Coq_xO (Coq_xI
    Coq_xH))))))) :: ((Npos (Coq_xI (Coq_xI (Coq_xI (Coq_xI (Coq_xO (Coq_xI
    Coq_xH))))))) :: ((Npos (Coq_xI (Coq_xI (Coq_xO (Coq_xO (Coq_xO (Coq_xI
    Coq_xH))))))) :: ((Npos (Coq_xI (Coq_xO (Coq_xI (Coq_xO (Coq_xI (Coq_xI
    Coq_xH))))))) :: ((Npos (Coq_xI (Coq_xO (Coq_xI (Coq_xI (Coq_xO (Coq_xI
    Coq_xH))))))) :: ((Npos (Coq_xI (Coq_xO (Coq_xI (Coq_xO (Coq_xO (Coq_xI
    Coq_xH))))))) :: ((Npos (Coq_xO (Coq_xI (Coq_xI (Coq_xI (Coq_xO (Coq_xI
    Coq_xH))))))) :: ((Npos (Coq_xO (Coq_xO (Coq_xI (Coq_xO (Coq_xI (Coq_xI
    Coq_xH))))))) :: ((Npos (Coq_xO (Coq_xI (Coq_xO (Coq_xI (Coq_xI
    Coq_xH)))))) :: ((Npos (Coq_xO (Coq_xO (Coq_xO (Coq_xI (Coq_xI (Coq_xI
    Coq_xH))))))) :: ((Npos (Coq_xI (Coq_xO (Coq_xI (Coq_xI (Coq_xO (Coq_xI
    Coq_xH))))))) :: ((Npos (Coq_xO (Coq_xO (Coq_xI (Coq_xI (Coq_xO (Coq_xI
    Coq_xH))))))) :: ((Npos (Coq_xO (Coq_xI (Coq_xI (Coq_xI (Coq_xO (Coq_xI
    Coq_xH))))))) :: ((Npos (Coq_xI (Coq_xI (Coq_xO (Coq_xO (Coq_xI (Coq_xI
    Coq_xH))))))) :: ((Npos (Coq_xO (Coq_xI (Coq_xO (Coq_xI (Coq_xI
    Coq_xH)))))) :: ((Npos (Coq_xO (Coq_xO (Coq_xI (Coq_xO (Coq_xI (Coq_xI
    Coq_xH))))))) :: ((Npos (Coq_xI (Coq_xO (Coq_xI (Coq_xO (Coq_xO (Coq_xI
    Coq_xH))))))) :: ((Npos (Coq_xO (Coq_xO (Coq_xO (Coq_xI (Coq_xI (Coq_xI
    Coq_xH))))))) :: ((Npos (Coq_xO (Coq_xO (Coq_xI (Coq_xO (Coq_xI (Coq_xI
    Coq_xH))))))) :: ((Npos (Coq_xO (Coq_xI (Coq_xO (Coq_xI (Coq_xI
    Coq_xH)))))) :: ((Npos (Coq_xI (Coq_xO (Coq_xO (Coq_xO (Coq_xI
    Coq_xH)))))) :: ((Npos (Coq_xO (Coq_xI (Coq_xI (Coq_xI (Coq_xO
    Coq_xH)))))) :: ((Npos (Coq_xO (Coq_xO (Coq_xO (Coq_xO (Coq_xI
    Coq_xH)))))) :: [])))))))))))))))))))))))))))))))))))))))))))))), ((Npos
    (Coq_xI (Coq_xI (Coq_xO (Coq_xO (Coq_xO (Coq_xI Coq_xH))))))) :: ((Npos
    (Coq_xI (Coq_xI (Coq_xI (Coq_xI (Coq_xO (Coq_xI Coq_xH))))))) :: ((Npos
    (Coq_xO (Coq_xI (Coq_xI (Coq_xI (Coq_xO (Coq_xI Coq_xH))))))) :: ((Npos
    (Coq_xO (Coq_xO (Coq_xI (Coq_xO (Coq_xO (Coq_xI Coq_xH))))))) :: ((Npos
    (Coq_xI (Coq_xO (Coq_xI (Coq_xI (Coq_xO Coq_xH)))))) :: ((Npos (Coq_xI
    (Coq_xI (Coq_xO (Coq_xO (Coq_xI (Coq_xI Coq_xH))))))) :: ((Npos (Coq_xO
    (Coq_xO (Coq_xI (Coq_xO (Coq_xI (Coq_xI Coq_xH))))))) :: ((Npos (Coq_xI
    (Coq_xO (Coq_xO (Coq_xI (Coq_xI (Coq_xI Coq_xH))))))) :: ((Npos (Coq_xO
    (Coq_xO (Coq_xI (Coq_xI (Coq_xO (Coq_xI Coq_xH))))))) :: ((Npos (Coq_xI
    (Coq_xO (Coq_xI (Coq_xO (Coq_xO (Coq_xI Coq_xH))))))) :: ((Npos (Coq_xI
    (Coq_xO (Coq_xI (Coq_xI (Coq_xO Coq_xH)))))) :: ((Npos (Coq_xO (Coq_xI
    (Coq_xI (Coq_xI (Coq_xO (Coq_xI Coq_xH))))))) :: ((Npos (Coq_xI (Coq_xO
    (Coq_xO (Coq_xO (Coq_xO (Coq_xI Coq_xH))))))) :: ((Npos (Coq_xI (Coq_xO
    (Coq_xI (Coq_xI (Coq_xO (Coq_xI Coq_xH))))))) :: ((Npos (Coq_xI (Coq_xO
    (Coq_xI (Coq_xO (Coq_xO (Coq_xI
    Coq_xH))))))) :: [])))))))))))))))) :: ((((Npos (Coq_xI (Coq_xO (Coq_xI
    (Coq_xO (Coq_xI (Coq_xI Coq_xH))))))) :: ((Npos (Coq_xO (Coq_xI (Coq_xO
    (Coq_xO (Coq_xI (Coq_xI Coq_xH))))))) :: ((Npos (Coq_xO (Coq_xI (Coq_xI
    (Coq_xI (Coq_xO (Coq_xI Coq_xH))))))) :: ((Npos (Coq_xO (Coq_xI (Coq_xO
    (Coq_xI (Coq_xI Coq_xH)))))) :: ((Npos (Coq_xI (Coq_xI (Coq_xI (Coq_xI
    (Coq_xO (Coq_xI Coq_xH))))))) :: ((Npos (Coq_xI (Coq_xO (Coq_xO (Coq_xO
    (Coq_xO (Coq_xI Coq_xH))))))) :: ((Npos (Coq_xI (Coq_xI (Coq_xO (Coq_xO
    (Coq_xI (Coq_xI Coq_xH))))))) :: ((Npos (Coq_xI (Coq_xO (Coq_xO (Coq_xI
    (Coq_xO (Coq_xI Coq_xH))))))) :: ((Npos (Coq_xI (Coq_xI (Coq_xO (Coq_xO
    (Coq_xI (Coq_xI Coq_xH))))))) :: ((Npos (Coq_xO (Coq_xI (Coq_xO (Coq_xI
    (Coq_xI Coq_xH)))))) :: ((Npos (Coq_xO (Coq_xI (Coq_xI (Coq_xI (Coq_xO
    (Coq_xI Coq_xH))))))) :: ((Npos (Coq_xI (Coq_xO (Coq_xO (Coq_xO (Coq_xO
    (Coq_xI Coq_xH))))))) :: ((Npos (Coq_xI (Coq_xO (Coq_xI (Coq_xI (Coq_xO
    (Coq_xI Coq_xH))))))) :: ((Npos (Coq_xI (Coq_xO (Coq_xI (Coq_xO (Coq_xO
    (Coq_xI Coq_xH))))))) :: ((Npos (Coq_xI (Coq_xI (Coq_xO (Coq_xO (Coq_xI
    (Coq_xI Coq_xH))))))) :: ((Npos (Coq_xO (Coq_xI (Coq_xO (Coq_xI (Coq_xI
    Coq_xH)))))) :: ((Npos (Coq_xO (Coq_xO (Coq_xI (Coq_xO (Coq_xI (Coq_xI
    Coq_xH))))))) :: ((Npos (Coq_xI (Coq_xI (Coq_xO (Coq_xO (Coq_xO (Coq_xI
    Coq_xH))))))) :: ((Npos (Coq_xO (Coq_xI (Coq_xO (Coq_xI (Coq_xI
    Coq_xH)))))) :: ((Npos (Coq_xI (Coq_xI (Coq_xI (Coq_xI (Coq_xO (Coq_xI
    Coq_xH))))))) :: ((Npos (Coq_xO (Coq_xO (Coq_xO (Coq_xO (Coq_xI (Coq_xI
    Coq_xH))))))) :: ((Npos (Coq_xI (Coq_xO (Coq_xI (Coq_xO (Coq_xO (Coq_xI
    Coq_xH))))))) :: ((Npos (Coq_xO (Coq_xI (Coq_xI (Coq_xI (Coq_xO (Coq_xI
    Coq_xH))))))) :: ((Npos (Coq_xO (Coq_xO (Coq_xI (Coq_xO (Coq_xO (Coq_xI
    Coq_xH))))))) :: ((Npos (Coq_xI (Coq_xI (Coq_xI (Coq_xI (Coq_xO (Coq_xI
    Coq_xH))))))) :: ((Npos (Coq_xI (Coq_xI (Coq_xO (Coq_xO (Coq_xO (Coq_xI
    Coq_xH))))))) :: ((Npos (Coq_xI (Coq_xO (Coq_xI (Coq_xO (Coq_xI (Coq_xI
    Coq_xH))))))) :: ((Npos (Coq_xI (Coq_xO (Coq_xI (Coq_xI (Coq_xO (Coq_xI
    Coq_xH))))))) :: ((Npos (Coq_xI (Coq_xO (Coq_xI (Coq_xO (Coq_xO (Coq_xI
    Coq_xH))))))) :: ((Npos (Coq_xO (Coq_xI (Coq_xI (Coq_xI (Coq_xO (Coq_xI
    Coq_xH))))))) :: ((Npos (Coq_xO (Coq_xO (Coq_xI (Coq_xO (Coq_xI (Coq_xI
    Coq_xH))))))) :: ((Npos (Coq_xO (Coq_xI (Coq_xO (Coq_xI (Coq_xI
    Coq_xH)))))) :: ((Npos (Coq_xO (Coq_xO (Coq_xO (Coq_xI (Coq_xI (Coq_xI
    Coq_xH))))))) :: ((Npos (Coq_xI (Coq_xO (Coq_xI (Coq_xI (Coq_xO (Coq_xI
    Coq_xH))))))) :: ((Npos (Coq_xO (Coq_xO (Coq_xI (Coq_xI (Coq_xO (Coq_xI
    Coq_xH))))))) :: ((Npos (Coq_xO (Coq_xI (Coq_xI (Coq_xI (Coq_xO (Coq_xI
    Coq_xH))))))) :: ((Npos (Coq_xI (Coq_xI (Coq_xO (Coq_xO (Coq_xI (Coq_xI
    Coq_xH))))))) :: ((Npos (Coq_xO (Coq_xI (Coq_xO (Coq_xI (Coq_xI
    Coq_xH)))))) :: ((Npos (Coq_xO (Coq_xO (Coq_xI (Coq_xO (Coq_xI (Coq_xI
    Coq_xH))))))) :: ((Npos (Coq_xI (Coq_xO (Coq_xI (Coq_xO (Coq_xO (Coq_xI
    Coq_xH))))))) :: ((Npos (Coq_xO (Coq_xO (Coq_xO (Coq_xI (Coq_xI (Coq_xI
    Coq_xH))))))) :: ((Npos (Coq_xO (Coq_xO (Coq_xI (Coq_xO (Coq_xI (Coq_xI
    Coq_xH))))))) :: ((Npos (Coq_xO (Coq_xI (Coq_xO (Coq_xI (Coq_xI
    Coq_xH)))))) :: ((Npos (Coq_xI (Coq_xO (Coq_xO (Coq_xO (Coq_xI
    Coq_xH)))))) :: ((Npos (Coq_xO (Coq_xI (Coq_xI (Coq_xI (Coq_xO
    Coq_xH)))))) :: ((Npos (Coq_xO (Coq_xO (Coq_xO (Coq_xO (Coq_xI
    Coq_xH)))))) :: [])))))))))))))))))))))))))))))))))))))))))))))), ((Npos
    (Coq_xO (Coq_xO (Coq_xI (Coq_xO (Coq_xO (Coq_xI Coq_xH))))))) :: ((Npos
    (Coq_xI (Coq_xO (Coq_xI (Coq_xO (Coq_xO (Coq_xI Coq_xH))))))) :: ((Npos
    (Coq_xO (Coq_xI (Coq_xI (Coq_xO (Coq_xO (Coq_xI Coq_xH))))))) :: ((Npos
    (Coq_xI (Coq_xO (Coq_xO (Coq_xO (Coq_xO (Coq_xI Coq_xH))))))) :: ((Npos
    (Coq_xI (Coq_xO (Coq_xI (Coq_xO (Coq_xI (Coq_xI Coq_xH))))))) :: ((Npos
    (Coq_xO (Coq_xO (Coq_xI (Coq_xI (Coq_xO (Coq_xI Coq_xH))))))) :: ((Npos
    (Coq_xO (Coq_xO (Coq_xI (Coq_xO (Coq_xI (Coq_xI Coq_xH))))))) :: ((Npos
    (Coq_xI (Coq_xO (Coq_xI (Coq_xI (Coq_xO Coq_xH)))))) :: ((Npos (Coq_xI
    (Coq_xI (Coq_xO (Coq_xO (Coq_xI (Coq_xI Coq_xH))))))) :: ((Npos (Coq_xO
    (Coq_xO (Coq_xI (Coq_xO (Coq_xI (Coq_xI Coq_xH))))))) :: ((Npos (Coq_xI
    (Coq_xO (Coq_xO (Coq_xI (Coq_xI (Coq_xI Coq_xH))))))) :: ((Npos (Coq_xO
    (Coq_xO (Coq_xI (Coq_xI (Coq_xO (Coq_xI Coq_xH))))))) :: ((Npos (Coq_xI
    (Coq_xO (Coq_xI (Coq_xO (Coq_xO (Coq_xI Coq_xH))))))) :: ((Npos (Coq_xI
    (Coq_xO (Coq_xI (Coq_xI (Coq_xO Coq_xH)))))) :: ((Npos (Coq_xO (Coq_xI
    (Coq_xI (Coq_xI (Coq_xO (Coq_xI Coq_xH))))))) :: ((Npos (Coq_xI (Coq_xO
    (Coq_xO (Coq_xO (Coq_xO (Coq_xI Coq_xH))))))) :: ((Npos (Coq_xI (Coq_xO
    (Coq_xI (Coq_xI (Coq_xO (Coq_xI Coq_xH))))))) :: ((Npos (Coq_xI (Coq_xO
    (Coq_xI (Coq_xO (Coq_xO (Coq_xI
    Coq_xH))))))) :: []))))))))))))))))))) :: ((((Npos (Coq_xI (Coq_xO
    (Coq_xI (Coq_xO (Coq_xI (Coq_xI Coq_xH))))))) :: ((Npos (Coq_xO (Coq_xI
    (Coq_xO (Coq_xO (Coq_xI (Coq_xI Coq_xH))))))) :: ((Npos (Coq_xO (Coq_xI
    (Coq_xI (Coq_xI (Coq_xO (Coq_xI Coq_xH))))))) :: ((Npos (Coq_xO (Coq_xI
    (Coq_xO (Coq_xI (Coq_xI Coq_xH)))))) :: ((Npos (Coq_xI (Coq_xI (Coq_xI
    (Coq_xI (Coq_xO (Coq_xI Coq_xH))))))) :: ((Npos (Coq_xI (Coq_xO (Coq_xO
    (Coq_xO (Coq_xO (Coq_xI Coq_xH))))))) :: ((Npos (Coq_xI (Coq_xI (Coq_xO
    (Coq_xO (Coq_xI (Coq_xI Coq_xH))))))) :: ((Npos (Coq_xI (Coq_xO (Coq_xO
    (Coq_xI (Coq_xO (Coq_xI Coq_xH))))))) :: ((Npos (Coq_xI (Coq_xI (Coq_xO
    (Coq_xO (Coq_xI (Coq_xI Coq_xH))))))) :: ((Npos (Coq_xO (Coq_xI (Coq_xO
    (Coq_xI (Coq_xI Coq_xH)))))) :: ((Npos (Coq_xO (Coq_xI (Coq_xI (Coq_xI
    (Coq_xO (Coq_xI Coq_xH))))))) :: ((Npos (Coq_xI (Coq_xO (Coq_xO (Coq_xO
    (Coq_xO (Coq_xI Coq_xH))))))) :: ((Npos (Coq_xI (Coq_xO (Coq_xI (Coq_xI
    (Coq_xO (Coq_xI Coq_xH))))))) :: ((Npos (Coq_xI (Coq_xO (Coq_xI (Coq_xO
    (Coq_xO (Coq_xI Coq_xH))))))) :: ((Npos (Coq_xI (Coq_xI (Coq_xO (Coq_xO
    (Coq_xI (Coq_xI Coq_xH))))))) :: ((Npos (Coq_xO (Coq_xI (Coq_xO (Coq_xI
    (Coq_xI Coq_xH)))))) :: ((Npos (Coq_xO (Coq_xO (Coq_xI (Coq_xO (Coq_xI
    (Coq_xI Coq_xH))))))) :: ((Npos (Coq_xI (Coq_xI (Coq_xO (Coq_xO (Coq_xO
    (Coq_xI Coq_xH))))))) :: ((Npos (Coq_xO (Coq_xI (Coq_xO (Coq_xI (Coq_xI
    Coq_xH)))))) :: ((Npos (Coq_xI (Coq_xI (Coq_xI (Coq_xI (Coq_xO (Coq_xI
    Coq_xH))))))) :: ((Npos (Coq_xO (Coq_xO (Coq_xO (Coq_xO (Coq_xI (Coq_xI
    Coq_xH))))))) :: ((Npos (Coq_xI (Coq_xO (Coq_xI (Coq_xO (Coq_xO (Coq_xI
    Coq_xH))))))) :: ((Npos (Coq_xO (Coq_xI (Coq_xI (Coq_xI (Coq_xO (Coq_xI
    Coq_xH))))))) :: ((Npos (Coq_xO (Coq_xO (Coq_xI (Coq_xO (Coq_xO (Coq_xI
    Coq_xH))))))) :: ((Npos (Coq_xI (Coq_xI (Coq_xI (Coq_xI (Coq_xO (Coq_xI
    Coq_xH))))))) :: ((Npos (Coq_xI (Coq_xI (Coq_xO (Coq_xO (Coq_xO (Coq_xI
    Coq_xH))))))) :: ((Npos (Coq_xI (Coq_xO (Coq_xI (Coq_xO (Coq_xI (Coq_xI
    Coq_xH))))))) :: ((Npos (Coq_xI (Coq_xO (Coq_xI (Coq_xI (Coq_xO (Coq_xI
    Coq_xH))))))) :: ((Npos (Coq_xI (Coq_xO (Coq_xI (Coq_xO (Coq_xO (Coq_xI
    Coq_xH))))))) :: ((Npos (Coq_xO (Coq_xI (Coq_xI (Coq_xI (Coq_xO (Coq_xI
    Coq_xH))))))) :: ((Npos (Coq_xO (Coq_xO (Coq_xI (Coq_xO (Coq_xI (Coq_xI
    Coq_xH))))))) :: ((Npos (Coq_xO (Coq_xI (Coq_xO (Coq_xI (Coq_xI
    Coq_xH)))))) :: ((Npos (Coq_xO (Coq_xO (Coq_xO (Coq_xI (Coq_xI (Coq_xI
    Coq_xH))))))) :: ((Npos (Coq_xI (Coq_xO (Coq_xI (Coq_xI (Coq_xO (Coq_xI
    Coq_xH))))))) :: ((Npos (Coq_xO (Coq_xO (Coq_xI (Coq_xI (Coq_xO (Coq_xI
    Coq_xH))))))) :: ((Npos (Coq_xO (Coq_xI (Coq_xI (Coq_xI (Coq_xO (Coq_xI
    Coq_xH))))))) :: ((Npos (Coq_xI (Coq_xI (Coq_xO (Coq_xO (Coq_xI (Coq_xI
    Coq_xH))))))) :: ((Npos (Coq_xO (Coq_xI (Coq_xO (Coq_xI (Coq_xI
    Coq_xH)))))) :: ((Npos (Coq_xO (Coq_xO (Coq_xI (Coq_xO (Coq_xI (Coq_xI
    Coq_xH))))))) :: ((Npos (Coq_xI (Coq_xO (Coq_xI (Coq_xO (Coq_xO (Coq_xI
    Coq_xH))))))) :: ((Npos (Coq_xO (Coq_xO (Coq_xO (Coq_xI (Coq_xI (Coq_xI
    Coq_xH))))))) :: ((Npos (Coq_xO (Coq_xO (Coq_xI (Coq_xO (Coq_xI (Coq_xI
    Coq_xH))))))) :: ((Npos (Coq_xO (Coq_xI (Coq_xO (Coq_xI (Coq_xI
    Coq_xH)))))) :: ((Npos (Coq_xI (Coq_xO (Coq_xO (Coq_xO (Coq_xI
    Coq_xH)))))) :: ((Npos (Coq_xO (Coq_xI (Coq_xI (Coq_xI (Coq_xO
    Coq_xH)))))) :: ((Npos (Coq_xO (Coq_xO (Coq_xO (Coq_xO (Coq_xI
    Coq_xH)))))) :: [])))))))))))))))))))))))))))))))))))))))))))))), ((Npos
    (Coq_xI (Coq_xO (Coq_xI (Coq_xI (Coq_xO (Coq_xI Coq_xH))))))) :: ((Npos
    (Coq_xI (Coq_xO (Coq_xO (Coq_xO (Coq_xO (Coq_xI Coq_xH))))))) :: ((Npos
    (Coq_xI (Coq_xO (Coq_xO (Coq_xI (Coq_xO (Coq_xI Coq_xH))))))) :: ((Npos
    (Coq_xO (Coq_xI (Coq_xI (Coq_xI (Coq_xO (Coq_xI Coq_xH))))))) :: ((Npos
    (Coq_xI (Coq_xO (Coq_xI (Coq_xI (Coq_xO Coq_xH)))))) :: ((Npos (Coq_xI
    (Coq_xO (Coq_xI (Coq_xO (Coq_xO (Coq_xI Coq_xH))))))) :: ((Npos (Coq_xO
    (Coq_xI (Coq_xI (Coq_xI (Coq_xO (Coq_xI Coq_xH))))))) :: ((Npos (Coq_xO
    (Coq_xO (Coq_xI (Coq_xO (Coq_xI (Coq_xI Coq_xH))))))) :: ((Npos (Coq_xO
    (Coq_xI (Coq_xO (Coq_xO (Coq_xI (Coq_xI Coq_xH))))))) :: ((Npos (Coq_xI
    (Coq_xO (Coq_xO (Coq_xI (Coq_xI (Coq_xI Coq_xH))))))) :: ((Npos (Coq_xI
    (Coq_xO (Coq_xI (Coq_xI (Coq_xO Coq_xH)))))) :: ((Npos (Coq_xI (Coq_xI
    (Coq_xO (Coq_xO (Coq_xI (Coq_xI Coq_xH))))))) :: ((Npos (Coq_xO (Coq_xO
    (Coq_xI (Coq_xO (Coq_xI (Coq_xI Coq_xH))))))) :: ((Npos (Coq_xI (Coq_xO
    (Coq_xO (Coq_xI (Coq_xI (Coq_xI Coq_xH))))))) :: ((Npos (Coq_xO (Coq_xO
    (Coq_xI (Coq_xI (Coq_xO (Coq_xI Coq_xH))))))) :: ((Npos (Coq_xI (Coq_xO
    (Coq_xI (Coq_xO (Coq_xO (Coq_xI Coq_xH))))))) :: ((Npos (Coq_xI (Coq_xO
    (Coq_xI (Coq_xI (Coq_xO Coq_xH)))))) :: ((Npos (Coq_xO (Coq_xI (Coq_xI
    (Coq_xI (Coq_xO (Coq_xI Coq_xH))))))) :: ((Npos (Coq_xI (Coq_xO (Coq_xO
    (Coq_xO (Coq_xO (Coq_xI Coq_xH))))))) :: ((Npos (Coq_xI (Coq_xO (Coq_xI
    (Coq_xI (Coq_xO (Coq_xI Coq_xH))))))) :: ((Npos (Coq_xI (Coq_xO (Coq_xI
    (Coq_xO (Coq_xO (Coq_xI
    Coq_xH))))))) :: [])))))))))))))))))))))) :: ((((Npos (Coq_xI (Coq_xO
    (Coq_xI (Coq_xO (Coq_xI (Coq_xI Coq_xH))))))) :: ((Npos (Coq_xO (Coq_xI
    (Coq_xO (Coq_xO (Coq_xI (Coq_xI Coq_xH))))))) :: ((Npos (Coq_xO (Coq_xI
    (Coq_xI (Coq_xI (Coq_xO (Coq_xI Coq_xH))))))) :: ((Npos (Coq_xO (Coq_xI
    (Coq_xO (Coq_xI (Coq_xI Coq_xH)))))) :: ((Npos (Coq_xI (Coq_xI (Coq_xI
    (Coq_xI (Coq_xO (Coq_xI Coq_xH))))))) :: ((Npos (Coq_xI (Coq_xO (Coq_xO
    (Coq_xO (Coq_xO (Coq_xI Coq_xH))))))) :: ((Npos (Coq_xI (Coq_xI (Coq_xO
    (Coq_xO (Coq_xI (Coq_xI Coq_xH))))))) :: ((Npos (Coq_xI (Coq_xO (Coq_xO
    (Coq_xI (Coq_xO (Coq_xI Coq_xH))))))) :: ((Npos (Coq_xI (Coq_xI (Coq_xO
    (Coq_xO (Coq_xI (Coq_xI Coq_xH))))))) :: ((Npos (Coq_xO (Coq_xI (Coq_xO
    (Coq_xI (Coq_xI Coq_xH)))))) :: ((Npos (Coq_xO (Coq_xI (Coq_xI (Coq_xI
    (Coq_xO (Coq_xI Coq_xH))))))) :: ((Npos (Coq_xI (Coq_xO (Coq_xO (Coq_xO
    (Coq_xO (Coq_xI Coq_xH))))))) :: ((Npos (Coq_xI (Coq_xO (Coq_xI (Coq_xI
    (Coq_xO (Coq_xI Coq_xH))))))) :: ((Npos (Coq_xI (Coq_xO (Coq_xI (Coq_xO
    (Coq_xO (Coq_xI Coq_xH))))))) :: ((Npos (Coq_xI (Coq_xI (Coq_xO (Coq_xO
    (Coq_xI (Coq_xI Coq_xH))))))) :: ((Npos (Coq_xO (Coq_xI (Coq_xO (Coq_xI
    (Coq_xI Coq_xH)))))) :: ((Npos (Coq_xO (Coq_xO (Coq_xI (Coq_xO (Coq_xI
    (Coq_xI Coq_xH))))))) :: ((Npos (Coq_xI (Coq_xI (Coq_xO (Coq_xO (Coq_xO
    (Coq_xI Coq_xH))))))) :: ((Npos (Coq_xO (Coq_xI (Coq_xO (Coq_xI (Coq_xI
    Coq_xH)))))) :: ((Npos (Coq_xI (Coq_xI (Coq_xI (Coq_xI (Coq_xO (Coq_xI
    Coq_xH))))))) :: ((Npos (Coq_xO (Coq_xO (Coq_xO (Coq_xO (Coq_xI (Coq_xI
    Coq_xH))))))) :: ((Npos (Coq_xI (Coq_xO (Coq_xI (Coq_xO (Coq_xO (Coq_xI
    Coq_xH))))))) :: ((Npos (Coq_xO (Coq_xI (Coq_xI (Coq_xI (Coq_xO (Coq_xI
    Coq_xH))))))) :: ((Npos (Coq_xO (Coq_xO (Coq_xI (Coq_xO (Coq_xO (Coq_xI
    Coq_xH))))))) :: ((Npos (Coq_xI (Coq_xI (Coq_xI (Coq_xI (Coq_xO (Coq_xI
    Coq_xH))))))) :: ((Npos (Coq_xI (Coq_xI (Coq_xO (Coq_xO (Coq_xO (Coq_xI
    Coq_xH))))))) :: ((Npos (Coq_xI (Coq_xO (Coq_xI (Coq_xO (Coq_xI (Coq_xI
    Coq_xH))))))) :: ((Npos (Coq_xI (Coq_xO (Coq_xI (Coq_xI (Coq_xO (Coq_xI
    Coq_xH))))))) :: ((Npos (Coq_xI (Coq_xO (Coq_xI (Coq_xO (Coq_xO (Coq_xI
    Coq_xH))))))) :: ((Npos (Coq_xO (Coq_xI (Coq_xI (Coq_xI (Coq_xO (Coq_xI
    Coq_xH))))))) :: ((Npos (Coq_xO (Coq_xO (Coq_xI (Coq_xO (Coq_xI (Coq_xI
    Coq_xH))))))) :: ((Npos (Coq_xO (Coq_xI (Coq_xO (Coq_xI (Coq_xI
    Coq_xH)))))) :: ((Npos (Coq_xO (Coq_xO (Coq_xO (Coq_xI (Coq_xI (Coq_xI
    Coq_xH))))))) :: ((Npos (Coq_xI (Coq_xO (Coq_xI (Coq_xI (Coq_xO (Coq_xI
    Coq_xH))))))) :: ((Npos (Coq_xO (Coq_xO (Coq_xI (Coq_xI (Coq_xO (Coq_xI
    Coq_xH))))))) :: ((Npos (Coq_xO (Coq_xI (Coq_xI (Coq_xI (Coq_xO (Coq_xI
    Coq_xH))))))) :: ((Npos (Coq_xI (Coq_xI (Coq_xO (Coq_xO (Coq_xI (Coq_xI
    Coq_xH))))))) :: ((Npos (Coq_xO (Coq_xI (Coq_xO (Coq_xI (Coq_xI
    Coq_xH)))))) :: ((Npos (Coq_xO (Coq_xO (Coq_xI (Coq_xO (Coq_xI (Coq_xI
    Coq_xH))))))) :: ((Npos (Coq_xI (Coq_xO (Coq_xI (Coq_xO (Coq_xO (Coq_xI
    Coq_xH))))))) :: ((Npos (Coq_xO (Coq_xO (Coq_xO (Coq_xI (Coq_xI (Coq_xI
    Coq_xH))))))) :: ((Npos (Coq_xO (Coq_xO (Coq_xI (Coq_xO (Coq_xI (Coq_xI
    Coq_xH))))))) :: ((Npos (Coq_xO (Coq_xI (Coq_xO (Coq_xI (Coq_xI
    Coq_xH)))))) :: ((Npos (Coq_xI (Coq_xO (Coq_xO (Coq_xO (Coq_xI
    Coq_xH)))))) :: ((Npos (Coq_xO (Coq_xI (Coq_xI (Coq_xI (Coq_xO
    Coq_xH)))))) :: ((Npos (Coq_xO (Coq_xO (Coq_xO (Coq_xO (Coq_xI
    Coq_xH)))))) :: [])))))))))))))))))))))))))))))))))))))))))))))), ((Npos
    (Coq_xI (Coq_xO (Coq_xI (Coq_xI (Coq_xO (Coq_xI Coq_xH))))))) :: ((Npos
    (Coq_xI (Coq_xO (Coq_xO (Coq_xO (Coq_xO (Coq_xI Coq_xH))))))) :: ((Npos
    (Coq_xI (Coq_xI (Coq_xO (Coq_xO (Coq_xI (Coq_xI Coq_xH))))))) :: ((Npos
    (Coq_xO (Coq_xO (Coq_xI (Coq_xO (Coq_xI (Coq_xI Coq_xH))))))) :: ((Npos
    (Coq_xI (Coq_xO (Coq_xI (Coq_xO (Coq_xO (Coq_xI Coq_xH))))))) :: ((Npos
    (Coq_xO (Coq_xI (Coq_xO (Coq_xO (Coq_xI (Coq_xI Coq_xH))))))) :: ((Npos
    (Coq_xI (Coq_xO (Coq_xI (Coq_xI (Coq_xO Coq_xH)))))) :: ((Npos (Coq_xO
    (Coq_xO (Coq_xO (Coq_xO (Coq_xI (Coq_xI Coq_xH))))))) :: ((Npos (Coq_xI
    (Coq_xO (Coq_xO (Coq_xO (Coq_xO (Coq_xI Coq_xH))))))) :: ((Npos (Coq_xI
    (Coq_xI (Coq_xI (Coq_xO (Coq_xO (Coq_xI Coq_xH))))))) :: ((Npos (Coq_xI
    (Coq_xO (Coq_xI (Coq_xO (Coq_xO (Coq_xI Coq_xH))))))) :: ((Npos (Coq_xI
    (Coq_xO (Coq_xI (Coq_xI (Coq_xO Coq_xH)))))) :: ((Npos (Coq_xO (Coq_xI
    (Coq_xI (Coq_xI (Coq_xO (Coq_xI Coq_xH))))))) :: ((Npos (Coq_xI (Coq_xO
    (Coq_xO (Coq_xO (Coq_xO (Coq_xI Coq_xH))))))) :: ((Npos (Coq_xI (Coq_xO
    (Coq_xI (Coq_xI (Coq_xO (Coq_xI Coq_xH))))))) :: ((Npos (Coq_xI (Coq_xO
    (Coq_xI (Coq_xO (Coq_xO (Coq_xI
    Coq_xH))))))) :: []))))))))))))))))) :: ((((Npos (Coq_xI (Coq_xO (Coq_xI
    (Coq_xO (Coq_xI (Coq_xI Coq_xH))))))) :: ((Npos (Coq_xO (Coq_xI (Coq_xO
    (Coq_xO (Coq_xI (Coq_xI Coq_xH))))))) :: ((Npos (Coq_xO (Coq_xI (Coq_xI
    (Coq_xI (Coq_xO (Coq_xI Coq_xH))))))) :: ((Npos (Coq_xO (Coq_xI (Coq_xO
    (Coq_xI (Coq_xI Coq_xH)))))) :: ((Npos (Coq_xI (Coq_xI (Coq_xI (Coq_xI
    (Coq_xO (Coq_xI Coq_xH))))))) :: ((Npos (Coq_xI (Coq_xO (Coq_xO (Coq_xO
    (Coq_xO (Coq_xI Coq_xH))))))) :: ((Npos (Coq_xI (Coq_xI (Coq_xO (Coq_xO
    (Coq_xI (Coq_xI Coq_xH))))))) :: ((Npos (Coq_xI (Coq_xO (Coq_xO (Coq_xI
    (Coq_xO (Coq_xI Coq_xH))))))) :: ((Npos (Coq_xI (Coq_xI (Coq_xO (Coq_xO
    (Coq_xI (Coq_xI Coq_xH))))))) :: ((Npos (Coq_xO (Coq_xI (Coq_xO (Coq_xI
    (Coq_xI Coq_xH)))))) :: ((Npos (Coq_xO (Coq_xI (Coq_xI (Coq_xI (Coq_xO
    (Coq_xI Coq_xH))))))) :: ((Npos (Coq_xI (Coq_xO (Coq_xO (Coq_xO (Coq_xO
    (Coq_xI Coq_xH))))))) :: ((Npos (Coq_xI (Coq_xO (Coq_xI (Coq_xI (Coq_xO
    (Coq_xI Coq_xH))))))) :: ((Npos (Coq_xI (Coq_xO (Coq_xI (Coq_xO (Coq_xO
    (Coq_xI Coq_xH))))))) :: ((Npos (Coq_xI (Coq_xI (Coq_xO (Coq_xO (Coq_xI
    (Coq_xI Coq_xH))))))) :: ((Npos (Coq_xO (Coq_xI (Coq_xO (Coq_xI (Coq_xI
    Coq_xH)))))) :: ((Npos (Coq_xO (Coq_xO (Coq_xI (Coq_xO (Coq_xI (Coq_xI
    Coq_xH))))))) :: ((Npos (Coq_xI (Coq_xI (Coq_xO (Coq_xO (Coq_xO (Coq_xI
    Coq_xH))))))) :: ((Npos (Coq_xO (Coq_xI (Coq_xO (Coq_xI (Coq_xI
    Coq_xH)))))) :: ((Npos (Coq_xI (Coq_xI (Coq_xI (Coq_xI (Coq_xO (Coq_xI
    Coq_xH))))))) :: ((Npos (Coq_xO (Coq_xO (Coq_xO (Coq_xO (Coq_xI (Coq_xI
    Coq_xH))))))) :: ((Npos (Coq_xI (Coq_xO (Coq_xI (Coq_xO (Coq_xO (Coq_xI
    Coq_xH))))))) :: ((Npos (Coq_xO (Coq_xI (Coq_xI (Coq_xI (Coq_xO (Coq_xI
    Coq_xH))))))) :: ((Npos (Coq_xO (Coq_xO (Coq_xI (Coq_xO (Coq_xO (Coq_xI
    Coq_xH))))))) :: ((Npos (Coq_xI (Coq_xI (Coq_xI (Coq_xI (Coq_xO (Coq_xI
    Coq_xH))))))) :: ((Npos (Coq_xI (Coq_xI (Coq_xO (Coq_xO (Coq_xO (Coq_xI
    Coq_xH))))))) :: ((Npos (Coq_xI (Coq_xO (Coq_xI (Coq_xO (Coq_xI (Coq_xI
    Coq_xH))))))) :: ((Npos (Coq_xI (Coq_xO (Coq_xI (Coq_xI (Coq_xO (Coq_xI
    Coq_xH))))))) :: ((Npos (Coq_xI (Coq_xO (Coq_xI (Coq_xO (Coq_xO (Coq_xI
    Coq_xH))))))) :: ((Npos (Coq_xO (Coq_xI (Coq_xI (Coq_xI (Coq_xO (Coq_xI
    Coq_xH))))))) :: ((Npos (Coq_xO (Coq_xO (Coq_xI (Coq_xO (Coq_xI (Coq_xI
    Coq_xH))))))) :: ((Npos (Coq_xO (Coq_xI (Coq_xO (Coq_xI (Coq_xI
    Coq_xH)))))) :: ((Npos (Coq_xO (Coq_xO (Coq_xO (Coq_xI (Coq_xI (Coq_xI
    Coq_xH))))))) :: ((Npos (Coq_xI (Coq_xO (Coq_xI (Coq_xI (Coq_xO (Coq_xI
    Coq_xH))))))) :: ((Npos (Coq_xO (Coq_xO (Coq_xI (Coq_xI (Coq_xO (Coq_xI
    Coq_xH))))))) :: ((Npos (Coq_xO (Coq_xI (Coq_xI (Coq_xI (Coq_xO (Coq_xI
    Coq_xH))))))) :: ((Npos (Coq_xI (Coq_xI (Coq_xO (Coq_xO (Coq_xI (Coq_xI
    Coq_xH))))))) :: ((Npos (Coq_xO (Coq_xI (Coq_xO (Coq_xI (Coq_xI
    Coq_xH)))))) :: ((Npos (Coq_xO (Coq_xO (Coq_xI (Coq_xO (Coq_xI (Coq_xI
    Coq_xH))))))) :: ((Npos (Coq_xI (Coq_xO (Coq_xI (Coq_xO (Coq_xO (Coq_xI
    Coq_xH))))))) :: ((Npos (Coq_xO (Coq_xO (Coq_xO (Coq_xI (Coq_xI (Coq_xI
    Coq_xH))))))) :: ((Npos (Coq_xO (Coq_xO (Coq_xI (Coq_xO (Coq_xI (Coq_xI
    Coq_xH))))))) :: ((Npos (Coq_xO (Coq_xI (Coq_xO (Coq_xI (Coq_xI
    Coq_xH)))))) :: ((Npos (Coq_xI (Coq_xO (Coq_xO (Coq_xO (Coq_xI
    Coq_xH)))))) :: ((Npos (Coq_xO (Coq_xI (Coq_xI (Coq_xI (Coq_xO
    Coq_xH)))))) :: ((Npos (Coq_xO (Coq_xO (Coq_xO (Coq_xO (Coq_xI
    Coq_xH)))))) :: [])))))))))))))))))))))))))))))))))))))))))))))), ((Npos
    (Coq_xI (Coq_xI (Coq_xO (Coq_xO (Coq_xI (Coq_xI Coq_xH))))))) :: ((Npos
    (Coq_xO (Coq_xO (Coq_xI (Coq_xO (Coq_xI (Coq_xI Coq_xH))))))) :: ((Npos
    (Coq_xI (Coq_xO (Coq_xO (Coq_xI (Coq_xI (Coq_xI Coq_xH))))))) :: ((Npos
    (Coq_xO (Coq_xO (Coq_xI (Coq_xI (Coq_xO (Coq_xI Coq_xH))))))) :: ((Npos
    (Coq_xI (Coq_xO (Coq_xI (Coq_xO (Coq_xO (Coq_xI Coq_xH))))))) :: ((Npos
    (Coq_xI (Coq_xO (Coq_xI (Coq_xI (Coq_xO Coq_xH)))))) :: ((Npos (Coq_xO
    (Coq_xI (Coq_xI (Coq_xI (Coq_xO (Coq_xI Coq_xH))))))) :: ((Npos (Coq_xI
    (Coq_xO (Coq_xO (Coq_xO (Coq_xO (Coq_xI Coq_xH))))))) :: ((Npos (Coq_xI
    (Coq_xO (Coq_xI (Coq_xI (Coq_xO (Coq_xI Coq_xH))))))) :: ((Npos (Coq_xI
    (Coq_xO (Coq_xI (Coq_xO (Coq_xO (Coq_xI
    Coq_xH))))))) :: []))))))))))) :: ((((Npos (Coq_xI (Coq_xO (Coq_xI
    (Coq_xO (Coq_xI (Coq_xI Coq_xH))))))) :: ((Npos (Coq_xO (Coq_xI (Coq_xO
    (Coq_xO (Coq_xI (Coq_xI Coq_xH))))))) :: ((Npos (Coq_xO (Coq_xI (Coq_xI
    (Coq_xI (Coq_xO (Coq_xI Coq_xH))))))) :: ((Npos (Coq_xO (Coq_xI (Coq_xO
    (Coq_xI (Coq_xI Coq_xH)))))) :: ((Npos (Coq_xI (Coq_xI (Coq_xI (Coq_xI
    (Coq_xO (Coq_xI Coq_xH))))))) :: ((Npos (Coq_xI (Coq_xO (Coq_xO (Coq_xO
    (Coq_xO (Coq_xI Coq_xH))))))) :: ((Npos (Coq_xI (Coq_xI (Coq_xO (Coq_xO
    (Coq_xI (Coq_xI Coq_xH))))))) :: ((Npos (Coq_xI (Coq_xO (Coq_xO (Coq_xI
    (Coq_xO (Coq_xI Coq_xH))))))) :: ((Npos (Coq_xI (Coq_xI (Coq_xO (Coq_xO
    (Coq_xI (Coq_xI Coq_xH))))))) :: ((Npos (Coq_xO (Coq_xI (Coq_xO (Coq_xI
    (Coq_xI Coq_xH)))))) :: ((Npos (Coq_xO (Coq_xI (Coq_xI (Coq_xI (Coq_xO
    (Coq_xI Coq_xH))))))) :: ((Npos (Coq_xI (Coq_xO (Coq_xO (Coq_xO (Coq_xO
    (Coq_xI Coq_xH))))))) :: ((Npos (Coq_xI (Coq_xO (Coq_xI (Coq_xI (Coq_xO
    (Coq_xI Coq_xH))))))) :: ((Npos (Coq_xI (Coq_xO (Coq_xI (Coq_xO (Coq_xO
    (Coq_xI Coq_xH))))))) :: ((Npos (Coq_xI (Coq_xI (Coq_xO (Coq_xO (Coq_xI
    (Coq_xI Coq_xH))))))) :: ((Npos (Coq_xO (Coq_xI (Coq_xO (Coq_xI (Coq_xI
    Coq_xH)))))) :: ((Npos (Coq_xO (Coq_xO (Coq_xI (Coq_xO (Coq_xI (Coq_xI
    Coq_xH))))))) :: ((Npos (Coq_xI (Coq_xI (Coq_xO (Coq_xO (Coq_xO (Coq_xI
    Coq_xH))))))) :: ((Npos (Coq_xO (Coq_xI (Coq_xO (Coq_xI (Coq_xI
    Coq_xH)))))) :: ((Npos (Coq_xI (Coq_xI (Coq_xI (Coq_xI (Coq_xO (Coq_xI
    Coq_xH))))))) :: ((Npos (Coq_xO (Coq_xO (Coq_xO (Coq_xO (Coq_xI (Coq_xI
    Coq_xH))))))) :: ((Npos (Coq_xI (Coq_xO (Coq_xI (Coq_xO (Coq_xO (Coq_xI
    Coq_xH))))))) :: ((Npos (Coq_xO (Coq_xI (Coq_xI (Coq_xI (Coq_xO (Coq_xI
    Coq_xH))))))) :: ((Npos (Coq_xO (Coq_xO (Coq_xI (Coq_xO (Coq_xO (Coq_xI
    Coq_xH))))))) :: ((Npos (Coq_xI (Coq_xI (Coq_xI (Coq_xI (Coq_xO (Coq_xI
    Coq_xH))))))) :: ((Npos (Coq_xI (Coq_xI (Coq_xO (Coq_xO (Coq_xO (Coq_xI
    Coq_xH))))))) :: ((Npos (Coq_xI (Coq_xO (Coq_xI (Coq_xO (Coq_xI (Coq_xI
    Coq_xH))))))) :: ((Npos (Coq_xI (Coq_xO (Coq_xI (Coq_xI (Coq_xO (Coq_xI
    Coq_xH))))))) :: ((Npos (Coq_xI (Coq_xO (Coq_xI (Coq_xO (Coq_xO (Coq_xI
    Coq_xH))))))) :: ((Npos (Coq_xO (Coq_xI (Coq_xI (Coq_xI (Coq_xO (Coq_xI
    Coq_xH))))))) :: ((Npos (Coq_xO (Coq_xO (Coq_xI (Coq_xO (Coq_xI (Coq_xI
    Coq_xH))))))) :: ((Npos (Coq_xO (Coq_xI (Coq_xO (Coq_xI (Coq_xI
    Coq_xH)))))) :: ((Npos (Coq_xO (Coq_xO (Coq_xO (Coq_xI (Coq_xI (Coq_xI
    Coq_xH))))))) :: ((Npos (Coq_xI (Coq_xO (Coq_xI (Coq_xI (Coq_xO (Coq_xI
    Coq_xH))))))) :: ((Npos (Coq_xO (Coq_xO (Coq_xI (Coq_xI (Coq_xO (Coq_xI
    Coq_xH))))))) :: ((Npos (Coq_xO (Coq_xI (Coq_xI (Coq_xI (Coq_xO (Coq_xI
    Coq_xH))))))) :: ((Npos (Coq_xI (Coq_xI (Coq_xO (Coq_xO (Coq_xI (Coq_xI
    Coq_xH))))))) :: ((Npos (Coq_xO (Coq_xI (Coq_xO (Coq_xI (Coq_xI
    Coq_xH)))))) :: ((Npos (Coq_xO (Coq_xO (Coq_xI (Coq_xO (Coq_xI (Coq_xI
    Coq_xH))))))) :: ((Npos (Coq_xI (Coq_xO (Coq_xI (Coq_xO (Coq_xO (Coq_xI
    Coq_xH))))))) :: ((Npos (Coq_xO (Coq_xO (Coq_xO (Coq_xI (Coq_xI (Coq_xI
    Coq_xH))))))) :: ((Npos (Coq_xO (Coq_xO (Coq_xI (Coq_xO (Coq_xI (Coq_xI
    Coq_xH))))))) :: ((Npos (Coq_xO (Coq_xI (Coq_xO (Coq_xI (Coq_xI
    Coq_xH)))))) :: ((Npos (Coq_xI (Coq_xO (Coq_xO (Coq_xO (Coq_xI
    Coq_xH)))))) :: ((Npos (Coq_xO (Coq_xI (Coq_xI (Coq_xI (Coq_xO
    Coq_xH)))))) :: ((Npos (Coq_xO (Coq_xO (Coq_xO (Coq_xO (Coq_xI
    Coq_xH)))))) :: [])))))))))))))))))))))))))))))))))))))))))))))), ((Npos
    (Coq_xI (Coq_xI (Coq_xO (Coq_xO (Coq_xI (Coq_xI Coq_xH))))))) :: ((Npos
    (Coq_xO (Coq_xO (Coq_xI (Coq_xO (Coq_xI (Coq_xI Coq_xH))))))) :: ((Npos
    (Coq_xI (Coq_xO (Coq_xO (Coq_xI (Coq_xI (Coq_xI Coq_xH))))))) :: ((Npos
    (Coq_xO (Coq_xO (Coq_xI (Coq_xI (Coq_xO (Coq_xI Coq_xH))))))) :: ((Npos
    (Coq_xI (Coq_xO (Coq_xI (Coq_xO (Coq_xO (Coq_xI Coq_xH))))))) :: ((Npos
    (Coq_xI (Coq_xO (Coq_xI (Coq_xI (Coq_xO Coq_xH)))))) :: ((Npos (Coq_xI
    (Coq_xI (Coq_xI (Coq_xI (Coq_xO (Coq_xI Coq_xH))))))) :: ((Npos (Coq_xO
    (Coq_xI (Coq_xI (Coq_xO (Coq_xI (Coq_xI Coq_xH))))))) :: ((Npos (Coq_xI
    (Coq_xO (Coq_xI (Coq_xO (Coq_xO (Coq_xI Coq_xH))))))) :: ((Npos (Coq_xO
    (Coq_xI (Coq_xO (Coq_xO (Coq_xI (Coq_xI Coq_xH))))))) :: ((Npos (Coq_xO
    (Coq_xI (Coq_xO (Coq_xO (Coq_xI (Coq_xI Coq_xH))))))) :: ((Npos (Coq_xI
    (Coq_xO (Coq_xO (Coq_xI (Coq_xO (Coq_xI Coq_xH))))))) :: ((Npos (Coq_xO
    (Coq_xO (Coq_xI (Coq_xO (Coq_xO (Coq_xI Coq_xH))))))) :: ((Npos (Coq_xI
    (Coq_xO (Coq_xI (Coq_xO (Coq_xO (Coq_xI
    Coq_xH))))))) :: []))))))))))))))) :: ((((Npos (Coq_xI (Coq_xO (Coq_xI
    (Coq_xO (Coq_xI (Coq_xI Coq_xH))))))) :: ((Npos (Coq_xO (Coq_xI (Coq_xO
    (Coq_xO (Coq_xI (Coq_xI Coq_xH))))))) :: ((Npos (Coq_xO (Coq_xI (Coq_xI
    (Coq_xI (Coq_xO (Coq_xI Coq_xH))))))) :: ((Npos (Coq_xO (Coq_xI (Coq_xO
    (Coq_xI (Coq_xI Coq_xH)))))) :: ((Npos (Coq_xI (Coq_xI (Coq_xI (Coq_xI
    (Coq_xO (Coq_xI Coq_xH))))))) :: ((Npos (Coq_xI (Coq_xO (Coq_xO (Coq_xO
    (Coq_xO (Coq_xI Coq_xH))))))) :: ((Npos (Coq_xI (Coq_xI (Coq_xO (Coq_xO
    (Coq_xI (Coq_xI Coq_xH))))))) :: ((Npos (Coq_xI (Coq_xO (Coq_xO (Coq_xI
    (Coq_xO (Coq_xI Coq_xH))))))) :: ((Npos (Coq_xI (Coq_xI (Coq_xO (Coq_xO
    (Coq_xI (Coq_xI Coq_xH))))))) :: ((Npos (Coq_xO (Coq_xI (Coq_xO (Coq_xI
    (Coq_xI Coq_xH)))))) :: ((Npos (Coq_xO (Coq_xI (Coq_xI (Coq_xI (Coq_xO
    (Coq_xI Coq_xH))))))) :: ((Npos (Coq_xI (Coq_xO (Coq_xO (Coq_xO (Coq_xO
    (Coq_xI Coq_xH))))))) :: ((Npos (Coq_xI (Coq_xO (Coq_xI (Coq_xI (Coq_xO
    (Coq_xI Coq_xH))))))) :: ((Npos (Coq_xI (Coq_xO (Coq_xI (Coq_xO (Coq_xO
    (Coq_xI Coq_xH))))))) :: ((Npos (Coq_xI (Coq_xI (Coq_xO (Coq_xO (Coq_xI
    (Coq_xI Coq_xH))))))) :: ((Npos (Coq_xO (Coq_xI (Coq_xO (Coq_xI (Coq_xI
    Coq_xH)))))) :: ((Npos (Coq_xO (Coq_xO (Coq_xI (Coq_xO (Coq_xI (Coq_xI
    Coq_xH))))))) :: ((Npos (Coq_xI (Coq_xI (Coq_xO (Coq_xO (Coq_xO (Coq_xI
    Coq_xH))))))) :: ((Npos (Coq_xO (Coq_xI (Coq_xO (Coq_xI (Coq_xI
    Coq_xH)))))) :: ((Npos (Coq_xI (Coq_xI (Coq_xI (Coq_xI (Coq_xO (Coq_xI
    Coq_xH))))))) :: ((Npos (Coq_xO (Coq_xO (Coq_xO (Coq_xO (Coq_xI (Coq_xI
    Coq_xH))))))) :: ((Npos (Coq_xI (Coq_xO (Coq_xI (Coq_xO (Coq_xO (Coq_xI
    Coq_xH))))))) :: ((Npos (Coq_xO (Coq_xI (Coq_xI (Coq_xI (Coq_xO (Coq_xI
    Coq_xH))))))) :: ((Npos (Coq_xO (Coq_xO (Coq_xI (Coq_xO (Coq_xO (Coq_xI
    Coq_xH))))))) :: ((Npos (Coq_xI (Coq_xI (Coq_xI (Coq_xI (Coq_xO (Coq_xI
    Coq_xH))))))) :: ((Npos (Coq_xI (Coq_xI (Coq_xO (Coq_xO (Coq_xO (Coq_xI
    Coq_xH))))))) :: ((Npos (Coq_xI (Coq_xO (Coq_xI (Coq_xO (Coq_xI (Coq_xI
    Coq_xH))))))) :: ((Npos (Coq_xI (Coq_xO (Coq_xI (Coq_xI (Coq_xO (Coq_xI
    Coq_xH))))))) :: ((Npos (Coq_xI (Coq_xO (Coq_xI (Coq_xO (Coq_xO (Coq_xI
    Coq_xH))))))) :: ((Npos (Coq_xO (Coq_xI (Coq_xI (Coq_xI (Coq_xO (Coq_xI
    Coq_xH))))))) :: ((Npos (Coq_xO (Coq_xO (Coq_xI (Coq_xO (Coq_xI (Coq_xI
    Coq_xH))))))) :: ((Npos (Coq_xO (Coq_xI (Coq_xO (Coq_xI (Coq_xI
    Coq_xH)))))) :: ((Npos (Coq_xO (Coq_xO (Coq_xO (Coq_xI (Coq_xI (Coq_xI
    Coq_xH))))))) :: ((Npos (Coq_xI (Coq_xO (Coq_xI (Coq_xI (Coq_xO (Coq_xI
    Coq_xH))))))) :: ((Npos (Coq_xO (Coq_xO (Coq_xI (Coq_xI (Coq_xO (Coq_xI
    Coq_xH))))))) :: ((Npos (Coq_xO (Coq_xI (Coq_xI (Coq_xI (Coq_xO (Coq_xI
    Coq_xH))))))) :: ((Npos (Coq_xI (Coq_xI (Coq_xO (Coq_xO (Coq_xI (Coq_xI
    Coq_xH))))))) :: ((Npos (Coq_xO (Coq_xI (Coq_xO (Coq_xI (Coq_xI
    Coq_xH)))))) :: ((Npos (Coq_xO (Coq_xO (Coq_xI (Coq_xO (Coq_xI (Coq_xI
    Coq_xH))))))) :: ((Npos (Coq_xI (Coq_xO (Coq_xI (Coq_xO (Coq_xO (Coq_xI
    Coq_xH))))))) :: ((Npos (Coq_xO (Coq_xO (Coq_xO (Coq_xI (Coq_xI (Coq_xI
    Coq_xH))))))) :: ((Npos (Coq_xO (Coq_xO (Coq_xI (Coq_xO (Coq_xI (Coq_xI
    Coq_xH))))))) :: ((Npos (Coq_xO (Coq_xI (Coq_xO (Coq_xI (Coq_xI
    Coq_xH)))))) :: ((Npos (Coq_xI (Coq_xO (Coq_xO (Coq_xO (Coq_xI
    Coq_xH)))))) :: ((Npos (Coq_xO (Coq_xI (Coq_xI (Coq_xI (Coq_xO
    Coq_xH)))))) :: ((Npos (Coq_xO (Coq_xO (Coq_xO (Coq_xO (Coq_xI
    Coq_xH)))))) :: [])))))))))))))))))))))))))))))))))))))))))))))), ((Npos
    (Coq_xO (Coq_xI (Coq_xI (Coq_xO (Coq_xI (Coq_xI Coq_xH))))))) :: ((Npos
    (Coq_xI (Coq_xO (Coq_xO (Coq_xI (Coq_xO (Coq_xI Coq_xH))))))) :: ((Npos
    (Coq_xI (Coq_xI (Coq_xO (Coq_xO (Coq_xI (Coq_xI Coq_xH))))))) :: ((Npos
    (Coq_xI (Coq_xO (Coq_xO (Coq_xI (Coq_xO (Coq_xI Coq_xH))))))) :: ((Npos
    (Coq_xO (Coq_xO (Coq_xI (Coq_xO (Coq_xI (Coq_xI Coq_xH))))))) :: ((Npos
    (Coq_xI (Coq_xO (Coq_xI (Coq_xO (Coq_xO (Coq_xI Coq_xH))))))) :: ((Npos
    (Coq_xO (Coq_xO (Coq_xI (Coq_xO (Coq_xO (Coq_xI Coq_xH))))))) :: ((Npos
    (Coq_xI (Coq_xO (Coq_xI (Coq_xI (Coq_xO Coq_xH)))))) :: ((Npos (Coq_xI
    (Coq_xI (Coq_xO (Coq_xO (Coq_xI (Coq_xI Coq_xH))))))) :: ((Npos (Coq_xO
    (Coq_xO (Coq_xI (Coq_xO (Coq_xI (Coq_xI Coq_xH))))))) :: ((Npos (Coq_xI
    (Coq_xO (Coq_xO (Coq_xI (Coq_xI (Coq_xI Coq_xH))))))) :: ((Npos (Coq_xO
    (Coq_xO (Coq_xI (Coq_xI (Coq_xO (Coq_xI Coq_xH))))))) :: ((Npos (Coq_xI
    (Coq_xO (Coq_xI (Coq_xO (Coq_xO (Coq_xI Coq_xH))))))) :: ((Npos (Coq_xI
    (Coq_xO (Coq_xI (Coq_xI (Coq_xO Coq_xH)))))) :: ((Npos (Coq_xO (Coq_xI
    (Coq_xI (Coq_xI (Coq_xO (Coq_xI Coq_xH))))))) :: ((Npos (Coq_xI (Coq_xO
    (Coq_xO (Coq_xO (Coq_xO (Coq_xI Coq_xH))))))) :: ((Npos (Coq_xI (Coq_xO
    (Coq_xI (Coq_xI (Coq_xO (Coq_xI Coq_xH))))))) :: ((Npos (Coq_xI (Coq_xO
    (Coq_xI (Coq_xO (Coq_xO (Coq_xI
    Coq_xH))))))) :: []))))))))))))))))))) :: []))))))))))))))))))))))))))))))))))))))))))))
