open Ascii
open Base
open BinNat
open BinNums
open Datatypes
open Decimal
open String
open XmlTree

type nstab = (str * str) list

type nsstate = { nd : nstab; nsp : nstab }

val uint_chars : uint -> str

val dec : coq_N -> str

val sNS : str

val gen_prefix : nat -> str

val nsassign : nstab -> str -> nstab * str

val get_nsprefix : nsstate -> str -> nsstate * str

val get_knownns : nstab -> str -> str option

val save_prefix : nsstate -> str -> nsstate

type nsop =
| OpPrefix of str
| OpSavePrefix of str

val ns_step : nsstate -> nsop -> nsstate
