open Base
open BinNums
open Doc
open GenChars
open GenNs
open GenStyleRefs
open XmlLex
open XmlPrint
open XmlTree

(** val coq_F : (coq_N * coq_N) list **)

let coq_F =
  filtered_ranges

(** val i_text_toXml : str -> str **)

let i_text_toXml =
  textnode_toXml coq_F

(** val i_quoteattr : str -> str **)

let i_quoteattr =
  quoteattr coq_F

(** val i_cdata_toXml : str -> str **)

let i_cdata_toXml =
  cdata_toXml coq_F

(** val i_node_toXml : nsenv -> bool -> node -> str **)

let i_node_toXml =
  node_toXml coq_F

(** val i_canon : node -> node **)

let i_canon =
  canon coq_F

(** val i_write_open_tag :
    nsenv -> bool -> qname -> (qname * str) list -> str **)

let i_write_open_tag =
  write_open_tag coq_F

(** val i_xml_parse : str -> node option **)

let i_xml_parse =
  xml_parse

(** val i_lex : str -> tok list option **)

let i_lex =
  lex

(** val coq_RA : qname list **)

let coq_RA =
  scanned_refattrs

(** val i_used_auto_styles : node list -> node -> node list **)

let i_used_auto_styles =
  used_auto_styles coq_RA

(** val i_contentxml : nsenv -> odfdoc -> str **)

let i_contentxml =
  contentxml coq_F coq_RA xml_prologue

(** val i_stylesxml : nsenv -> odfdoc -> str **)

let i_stylesxml =
  stylesxml coq_F coq_RA xml_prologue

(** val i_metaxml : nsenv -> odfdoc -> odfdoc * str **)

let i_metaxml =
  metaxml coq_F xml_prologue toolsversion

(** val i_settingsxml : nsenv -> odfdoc -> str **)

let i_settingsxml =
  settingsxml coq_F xml_prologue

(** val i_flatxml : nsenv -> odfdoc -> odfdoc * str **)

let i_flatxml =
  flatxml coq_F xml_prologue toolsversion
