open Ascii
open Base
open BinNat
open BinNums
open Chars
open Datatypes
open List
open Nat
open String

type tok =
| TkStart of str * (str * str) list
| TkEmpty of str * (str * str) list
| TkEnd of str
| TkChars of str

type attlist = (str * str) list

type mode =
| MText of str * nat
| MRefT of str * str
| MLt of str
| MBang of str * nat
| MCData of str * nat
| MTagName of str
| MAttrs of str * attlist * bool
| MAttName of str * attlist * str
| MAttNameWs of str * attlist * str
| MAttEq of str * attlist * str
| MAttVal of str * attlist * str * cp * str
| MRefA of str * attlist * str * cp * str * str
| MSlash of str * attlist
| MEndName of str
| MEndWs of str
| MBad

type lstate = { toks : tok list; md : mode }

(** val cBANG : cp **)

let cBANG =
  Npos (Coq_xI (Coq_xO (Coq_xO (Coq_xO (Coq_xO Coq_xH)))))

(** val cHASH : cp **)

let cHASH =
  Npos (Coq_xI (Coq_xI (Coq_xO (Coq_xO (Coq_xO Coq_xH)))))

(** val cSLASH : cp **)

let cSLASH =
  Npos (Coq_xI (Coq_xI (Coq_xI (Coq_xI (Coq_xO Coq_xH)))))

(** val cSEMI : cp **)

let cSEMI =
  Npos (Coq_xI (Coq_xI (Coq_xO (Coq_xI (Coq_xI Coq_xH)))))

(** val cx : cp **)

let cx =
  Npos (Coq_xO (Coq_xO (Coq_xO (Coq_xI (Coq_xI (Coq_xI Coq_xH))))))

(** val dec_digit : cp -> coq_N option **)

let dec_digit c =
  if is_digit c
  then Some
         (N.sub c (Npos (Coq_xO (Coq_xO (Coq_xO (Coq_xO (Coq_xI Coq_xH)))))))
  else None

(** val hex_digit : cp -> coq_N option **)

let hex_digit c =
  if is_digit c
  then Some
         (N.sub c (Npos (Coq_xO (Coq_xO (Coq_xO (Coq_xO (Coq_xI Coq_xH)))))))
  else if (&&)
            (N.leb (Npos (Coq_xI (Coq_xO (Coq_xO (Coq_xO (Coq_xO (Coq_xI
              Coq_xH))))))) c)
            (N.leb c (Npos (Coq_xO (Coq_xI (Coq_xI (Coq_xO (Coq_xO (Coq_xI
              Coq_xH))))))))
       then Some
              (N.sub c (Npos (Coq_xI (Coq_xI (Coq_xI (Coq_xO (Coq_xI (Coq_xO
                Coq_xH))))))))
       else if (&&)
                 (N.leb (Npos (Coq_xI (Coq_xO (Coq_xO (Coq_xO (Coq_xO (Coq_xO
                   Coq_xH))))))) c)
                 (N.leb c (Npos (Coq_xO (Coq_xI (Coq_xI (Coq_xO (Coq_xO
                   (Coq_xO Coq_xH))))))))
            then Some
                   (N.sub c (Npos (Coq_xI (Coq_xI (Coq_xI (Coq_xO (Coq_xI
                     Coq_xH)))))))
            else None

(** val digits_val :
    coq_N -> (cp -> coq_N option) -> str -> coq_N -> coq_N option **)

let rec digits_val base dig s acc =
  match s with
  | [] -> Some acc
  | c :: r ->
    (match dig c with
     | Some d -> digits_val base dig r (N.add (N.mul acc base) d)
     | None -> None)

(** val strip_prefix : str -> str -> str option **)

let rec strip_prefix p s =
  match p with
  | [] -> Some s
  | a :: p' ->
    (match s with
     | [] -> None
     | b :: s' -> if N.eqb a b then strip_prefix p' s' else None)

(** val char_of_val : coq_N option -> cp option **)

let char_of_val = function
| Some v0 -> if xml10_char v0 then Some v0 else None
| None -> None

(** val resolve_ref : str -> cp option **)

let resolve_ref r =
  if str_eqb r
       (s2l (String ((Ascii (true, false, false, false, false, true, true,
         false)), (String ((Ascii (true, false, true, true, false, true,
         true, false)), (String ((Ascii (false, false, false, false, true,
         true, true, false)), EmptyString)))))))
  then Some cAMP
  else if str_eqb r
            (s2l (String ((Ascii (false, false, true, true, false, true,
              true, false)), (String ((Ascii (false, false, true, false,
              true, true, true, false)), EmptyString)))))
       then Some cLT
       else if str_eqb r
                 (s2l (String ((Ascii (true, true, true, false, false, true,
                   true, false)), (String ((Ascii (false, false, true, false,
                   true, true, true, false)), EmptyString)))))
            then Some cGT
            else if str_eqb r
                      (s2l (String ((Ascii (true, false, false, false, true,
                        true, true, false)), (String ((Ascii (true, false,
                        true, false, true, true, true, false)), (String
                        ((Ascii (true, true, true, true, false, true, true,
                        false)), (String ((Ascii (false, false, true, false,
                        true, true, true, false)), EmptyString)))))))))
                 then Some cQUOT
                 else if str_eqb r
                           (s2l (String ((Ascii (true, false, false, false,
                             false, true, true, false)), (String ((Ascii
                             (false, false, false, false, true, true, true,
                             false)), (String ((Ascii (true, true, true,
                             true, false, true, true, false)), (String
                             ((Ascii (true, true, false, false, true, true,
                             true, false)), EmptyString)))))))))
                      then Some cAPOS
                      else (match strip_prefix (cHASH :: (cx :: [])) r with
                            | Some s ->
                              (match s with
                               | [] ->
                                 (match strip_prefix (cHASH :: []) r with
                                  | Some s0 ->
                                    (match s0 with
                                     | [] -> None
                                     | c :: d ->
                                       char_of_val
                                         (digits_val (Npos (Coq_xO (Coq_xI
                                           (Coq_xO Coq_xH)))) dec_digit
                                           (c :: d) N0))
                                  | None -> None)
                               | c :: h ->
                                 char_of_val
                                   (digits_val (Npos (Coq_xO (Coq_xO (Coq_xO
                                     (Coq_xO Coq_xH))))) hex_digit (c :: h)
                                     N0))
                            | None ->
                              (match strip_prefix (cHASH :: []) r with
                               | Some s ->
                                 (match s with
                                  | [] -> None
                                  | c :: d ->
                                    char_of_val
                                      (digits_val (Npos (Coq_xO (Coq_xI
                                        (Coq_xO Coq_xH)))) dec_digit (c :: d)
                                        N0))
                               | None -> None))

(** val ref_char : cp -> bool **)

let ref_char c =
  (||) ((||) (is_alpha c) (is_digit c)) (N.eqb c cHASH)

(** val flush_text : tok list -> str -> tok list **)

let flush_text ts acc = match acc with
| [] -> ts
| _ :: _ -> app ts ((TkChars acc) :: [])

(** val sCDATA_KW : str **)

let sCDATA_KW =
  s2l (String ((Ascii (true, true, false, true, true, false, true, false)),
    (String ((Ascii (true, true, false, false, false, false, true, false)),
    (String ((Ascii (false, false, true, false, false, false, true, false)),
    (String ((Ascii (true, false, false, false, false, false, true, false)),
    (String ((Ascii (false, false, true, false, true, false, true, false)),
    (String ((Ascii (true, false, false, false, false, false, true, false)),
    (String ((Ascii (true, true, false, true, true, false, true, false)),
    EmptyString))))))))))))))

(** val lstep : lstate -> cp -> lstate **)

let lstep st c =
  let ts = st.toks in
  let bad = { toks = ts; md = MBad } in
  (match st.md with
   | MText (acc, k) ->
     if N.eqb c cLT
     then { toks = ts; md = (MLt acc) }
     else if N.eqb c cAMP
          then { toks = ts; md = (MRefT (acc, [])) }
          else if N.eqb c cGT
               then if leb (S (S O)) k
                    then bad
                    else { toks = ts; md = (MText ((app acc (c :: [])), O)) }
               else if N.eqb c cRSQB
                    then { toks = ts; md = (MText ((app acc (c :: [])),
                           (min (S (S O)) (S k)))) }
                    else if xml10_char c
                         then { toks = ts; md = (MText ((app acc (c :: [])),
                                O)) }
                         else bad
   | MRefT (acc, r) ->
     if N.eqb c cSEMI
     then (match resolve_ref r with
           | Some ch -> { toks = ts; md = (MText ((app acc (ch :: [])), O)) }
           | None -> bad)
     else if ref_char c
          then { toks = ts; md = (MRefT (acc, (app r (c :: [])))) }
          else bad
   | MLt acc ->
     if N.eqb c cSLASH
     then { toks = (flush_text ts acc); md = (MEndName []) }
     else if N.eqb c cBANG
          then { toks = ts; md = (MBang (acc, O)) }
          else if name_start c
               then { toks = (flush_text ts acc); md = (MTagName (c :: [])) }
               else bad
   | MBang (acc, i) ->
     (match nth_error sCDATA_KW i with
      | Some e ->
        if N.eqb c e
        then if eqb i (S (S (S (S (S (S O))))))
             then { toks = ts; md = (MCData (acc, O)) }
             else { toks = ts; md = (MBang (acc, (S i))) }
        else bad
      | None -> bad)
   | MCData (acc, k) ->
     if N.eqb c cRSQB
     then if leb (S (S O)) k
          then { toks = ts; md = (MCData ((app acc (cRSQB :: [])), (S (S
                 O)))) }
          else { toks = ts; md = (MCData (acc, (S k))) }
     else if N.eqb c cGT
          then if leb (S (S O)) k
               then { toks = ts; md = (MText (acc, O)) }
               else { toks = ts; md = (MCData
                      ((app acc (app (repeat cRSQB k) (c :: []))), O)) }
          else if xml10_char c
               then { toks = ts; md = (MCData
                      ((app acc (app (repeat cRSQB k) (c :: []))), O)) }
               else bad
   | MTagName n ->
     if name_char c
     then { toks = ts; md = (MTagName (app n (c :: []))) }
     else if is_ws c
          then { toks = ts; md = (MAttrs (n, [], true)) }
          else if N.eqb c cGT
               then { toks = (app ts ((TkStart (n, [])) :: [])); md = (MText
                      ([], O)) }
               else if N.eqb c cSLASH
                    then { toks = ts; md = (MSlash (n, [])) }
                    else bad
   | MAttrs (n, atts, ws) ->
     if is_ws c
     then { toks = ts; md = (MAttrs (n, atts, true)) }
     else if N.eqb c cGT
          then { toks = (app ts ((TkStart (n, atts)) :: [])); md = (MText
                 ([], O)) }
          else if N.eqb c cSLASH
               then { toks = ts; md = (MSlash (n, atts)) }
               else if name_start c
                    then if ws
                         then { toks = ts; md = (MAttName (n, atts,
                                (c :: []))) }
                         else bad
                    else bad
   | MAttName (n, atts, an) ->
     if name_char c
     then { toks = ts; md = (MAttName (n, atts, (app an (c :: [])))) }
     else if N.eqb c cEQ
          then { toks = ts; md = (MAttEq (n, atts, an)) }
          else if is_ws c
               then { toks = ts; md = (MAttNameWs (n, atts, an)) }
               else bad
   | MAttNameWs (n, atts, an) ->
     if is_ws c
     then st
     else if N.eqb c cEQ
          then { toks = ts; md = (MAttEq (n, atts, an)) }
          else bad
   | MAttEq (n, atts, an) ->
     if is_ws c
     then st
     else if (||) (N.eqb c cQUOT) (N.eqb c cAPOS)
          then { toks = ts; md = (MAttVal (n, atts, an, c, [])) }
          else bad
   | MAttVal (n, atts, an, q, acc) ->
     if N.eqb c q
     then { toks = ts; md = (MAttrs (n, (app atts ((an, acc) :: [])),
            false)) }
     else if N.eqb c cLT
          then bad
          else if N.eqb c cAMP
               then { toks = ts; md = (MRefA (n, atts, an, q, acc, [])) }
               else if (||) ((||) (N.eqb c cTAB) (N.eqb c cLF)) (N.eqb c cCR)
                    then { toks = ts; md = (MAttVal (n, atts, an, q,
                           (app acc (cSP :: [])))) }
                    else if xml10_char c
                         then { toks = ts; md = (MAttVal (n, atts, an, q,
                                (app acc (c :: [])))) }
                         else bad
   | MRefA (n, atts, an, q, acc, r) ->
     if N.eqb c cSEMI
     then (match resolve_ref r with
           | Some ch ->
             { toks = ts; md = (MAttVal (n, atts, an, q,
               (app acc (ch :: [])))) }
           | None -> bad)
     else if ref_char c
          then { toks = ts; md = (MRefA (n, atts, an, q, acc,
                 (app r (c :: [])))) }
          else bad
   | MSlash (n, atts) ->
     if N.eqb c cGT
     then { toks = (app ts ((TkEmpty (n, atts)) :: [])); md = (MText ([],
            O)) }
     else bad
   | MEndName n ->
     (match n with
      | [] ->
        if name_start c then { toks = ts; md = (MEndName (c :: [])) } else bad
      | _ :: _ ->
        if name_char c
        then { toks = ts; md = (MEndName (app n (c :: []))) }
        else if is_ws c
             then { toks = ts; md = (MEndWs n) }
             else if N.eqb c cGT
                  then { toks = (app ts ((TkEnd n) :: [])); md = (MText ([],
                         O)) }
                  else bad)
   | MEndWs n ->
     if is_ws c
     then st
     else if N.eqb c cGT
          then { toks = (app ts ((TkEnd n) :: [])); md = (MText ([], O)) }
          else bad
   | MBad -> st)

(** val run : str -> lstate -> lstate **)

let run s st =
  fold_left lstep s st

(** val linit : lstate **)

let linit =
  { toks = []; md = (MText ([], O)) }

(** val lfinish : lstate -> tok list option **)

let lfinish st =
  match st.md with
  | MText (acc, _) -> Some (flush_text st.toks acc)
  | _ -> None

(** val eol_norm : str -> str **)

let rec eol_norm = function
| [] -> []
| c :: r ->
  if N.eqb c cCR
  then (match r with
        | [] -> cLF :: []
        | d :: r' ->
          if N.eqb d cLF then cLF :: (eol_norm r') else cLF :: (eol_norm r))
  else c :: (eol_norm r)

(** val skip_decl_body : str -> str option **)

let rec skip_decl_body = function
| [] -> None
| c :: r ->
  if N.eqb c (Npos (Coq_xI (Coq_xI (Coq_xI (Coq_xI (Coq_xI Coq_xH))))))
  then (match r with
        | [] -> None
        | d :: r' -> if N.eqb d cGT then Some r' else skip_decl_body r)
  else if N.eqb c cLT then None else skip_decl_body r

(** val sXMLDECL : str **)

let sXMLDECL =
  s2l (String ((Ascii (false, false, true, true, true, true, false, false)),
    (String ((Ascii (true, true, true, true, true, true, false, false)),
    (String ((Ascii (false, false, false, true, true, true, true, false)),
    (String ((Ascii (true, false, true, true, false, true, true, false)),
    (String ((Ascii (false, false, true, true, false, true, true, false)),
    EmptyString))))))))))

(** val strip_decl : str -> str option **)

let strip_decl s =
  match strip_prefix sXMLDECL s with
  | Some s0 ->
    (match s0 with
     | [] -> None
     | c :: r -> if is_ws c then skip_decl_body r else None)
  | None -> Some s

(** val lex : str -> tok list option **)

let lex s =
  match strip_decl (eol_norm s) with
  | Some body -> lfinish (run body linit)
  | None -> None
