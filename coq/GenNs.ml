open BinNums

(** val toolsversion : coq_N list **)

let toolsversion =
  (Npos (Coq_xI (Coq_xI (Coq_xI (Coq_xI (Coq_xO (Coq_xO
    Coq_xH))))))) :: ((Npos (Coq_xO (Coq_xO (Coq_xI (Coq_xO (Coq_xO (Coq_xO
    Coq_xH))))))) :: ((Npos (Coq_xO (Coq_xI (Coq_xI (Coq_xO (Coq_xO (Coq_xO
    Coq_xH))))))) :: ((Npos (Coq_xO (Coq_xO (Coq_xO (Coq_xO (Coq_xI (Coq_xO
    Coq_xH))))))) :: ((Npos (Coq_xI (Coq_xO (Coq_xO (Coq_xI (Coq_xI (Coq_xO
    Coq_xH))))))) :: ((Npos (Coq_xI (Coq_xI (Coq_xI (Coq_xI (Coq_xO
    Coq_xH)))))) :: ((Npos (Coq_xI (Coq_xO (Coq_xO (Coq_xO (Coq_xI
    Coq_xH)))))) :: ((Npos (Coq_xO (Coq_xI (Coq_xI (Coq_xI (Coq_xO
    Coq_xH)))))) :: ((Npos (Coq_xO (Coq_xO (Coq_xI (Coq_xO (Coq_xI
    Coq_xH)))))) :: ((Npos (Coq_xO (Coq_xI (Coq_xI (Coq_xI (Coq_xO
    Coq_xH)))))) :: ((Npos (Coq_xI (Coq_xI (Coq_xO (Coq_xO (Coq_xI
    Coq_xH)))))) :: ((Npos (Coq_xO (Coq_xI (Coq_xI (Coq_xI (Coq_xO
    Coq_xH)))))) :: ((Npos (Coq_xO (Coq_xO (Coq_xI (Coq_xO (Coq_xO (Coq_xI
    Coq_xH))))))) :: ((Npos (Coq_xI (Coq_xO (Coq_xI (Coq_xO (Coq_xO (Coq_xI
    Coq_xH))))))) :: ((Npos (Coq_xO (Coq_xI (Coq_xI (Coq_xO (Coq_xI (Coq_xI
    Coq_xH))))))) :: ((Npos (Coq_xO (Coq_xO (Coq_xO (Coq_xO (Coq_xI
    Coq_xH)))))) :: [])))))))))))))))
