(* C14 — namespaces keep their identity; output is independent of process history. *)
From Odf Require Import model.Base model.Chars model.XmlPrint model.XmlLex model.XmlTree model.NsTable model.Inst
  gen.GenChars gen.GenNs
  proofs.XmlPrintProofs proofs.XmlTokProofs proofs.XmlResolveProofs proofs.XmlRoundTrip proofs.XmlInst
  proofs.NsTableProofs proofs.NsInst.

(* after ANY history of prefix requests (unknown namespaces, unqualified names, formula prefixes) the table written
   on root elements binds NCName prefixes, one per namespace and one namespace per prefix, never "xmlns", never the
   empty namespace name *)
Theorem C14_invariant : forall ops, Forall (op_ok F) ops ->
  env_ok F (nsp (reach ops)) = true /\ env_ok2 (nsp (reach ops)) = true.
Proof. exact reachable_env_ok. Qed.
Print Assumptions C14_invariant.

Theorem C14_empty_namespace_never_bound : forall ops p, Forall (op_ok F) ops ->
  lookup_str [] (nsp (reach ops)) <> Some p.
Proof. exact reachable_no_empty. Qed.
Print Assumptions C14_empty_namespace_never_bound.

(* bindings are only added, never changed *)
Theorem C14_monotone : forall ops o ns p, Forall (op_ok F) ops ->
  (lookup_str ns (nd (reach ops)) = Some p -> lookup_str ns (nd (ns_step (reach ops) o)) = Some p) /\
  (lookup_str ns (nsp (reach ops)) = Some p -> lookup_str ns (nsp (ns_step (reach ops) o)) = Some p).
Proof.
  intros ops o ns p H. apply (step_monotone F).
  apply (Inv_reachable F nsdict_init nsdict_init_ok ops H).
Qed.
Print Assumptions C14_monotone.

(* what a document serialises to does not depend on the history: under any two reachable tables the parse
   result is the same tree (names by namespace name, not by prefix) *)
Theorem C14_history : forall ops1 ops2 q atts kids,
  Forall (op_ok F) ops1 -> Forall (op_ok F) ops2 ->
  tree_ok (nsp (reach ops1)) (Elem q atts kids) = true -> tree_ok (nsp (reach ops2)) (Elem q atts kids) = true ->
  atts_distinct (Elem q atts kids) = true ->
  xml_parse (xml_prologue ++ node_toXml F (nsp (reach ops1)) true (Elem q atts kids))
  = xml_parse (xml_prologue ++ node_toXml F (nsp (reach ops2)) true (Elem q atts kids)).
Proof. intros. rewrite !reachable_roundtrip by assumption. reflexivity. Qed.
Print Assumptions C14_history.

(* a name in no namespace is written without prefix (and, by C02, read back unqualified) *)
Theorem C14_unqualified : forall env l, tag_of env ([], l) = l.
Proof. reflexivity. Qed.
Print Assumptions C14_unqualified.

(* a prefix inside an attribute value that the library knows gets its namespace declared, under that prefix *)
Theorem C14_value_prefix : forall ops p rest ns, Forall (op_ok F) ops -> no_colon p = true ->
  get_knownns (nd (reach ops)) p = Some ns ->
  lookup_str ns (nsp (save_prefix (reach ops) (p ++ cCOLON :: rest))) = Some p.
Proof.
  intros ops p rest ns H. apply (save_prefix_declares F).
  apply (Inv_reachable F nsdict_init nsdict_init_ok ops H).
Qed.
Print Assumptions C14_value_prefix.

(* ... but a prefix the library does not know is left alone: nothing is declared for it (known finding) *)
Theorem C14_value_prefix_unknown : forall s p rest, no_colon p = true -> get_knownns (nd s) p = None ->
  save_prefix s (p ++ cCOLON :: rest) = s.
Proof. exact save_prefix_unknown. Qed.
Print Assumptions C14_value_prefix_unknown.
