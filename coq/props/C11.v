(* C11 — loading keeps style references right when content.xml and styles.xml reuse a name. *)
From Odf Require Import model.Base model.XmlTree model.Doc model.LoadStyles gen.GenStyleRefs proofs.DocInst proofs.LoadStylesProofs proofs.LoadStylesInst.

(* The loader attaches the elements of content.xml, then those of styles.xml, in document order (load_all = the fold of
   build_caches over them).  An element is its registrable definition (a named style:style child of office:styles or
   office:automatic-styles), if it is one, and the names held by its style reference attributes.
   find_def n L 0 = the element of L whose definition is named n; positions identify elements (C11_length). *)

Theorem C11_length : forall es, List.length (load_all es) = List.length es.
Proof. exact loaded_length. Qed.
Print Assumptions C11_length.

(* whatever the package, no two definitions of the loaded document share a name *)
Theorem C11_names_distinct : forall es, NoDup (defs_of (load_all es)).
Proof. exact loaded_names_distinct. Qed.
Print Assumptions C11_names_distinct.

(* the renaming loop ends on a name that is free *)
Theorem C11_new_name_free : forall names n, ~ In (new_name names n) names.
Proof. exact new_name_free. Qed.
Print Assumptions C11_new_name_free.

(* any element sequence: a reference to a name defined at or before the referring element holds, after loading, a name
   that finds the last such definition *)
Theorem C11_reference_follows : forall pre e post x, In x (defs_of (pre ++ [e])) ->
  let fx := ls_fix (fst (load_elems s0 (pre ++ [e]))) in
  let L := load_all (pre ++ e :: post) in
  (exists e', nth_error L (List.length pre) = Some e' /\ le_refs e' = redirected fx e) /\
  find_def (redirect fx x) L 0 = last_def x (pre ++ [e]) 0.
Proof. exact ref_resolves. Qed.
Print Assumptions C11_reference_follows.

(* styles.xml (spre ++ e :: spost, names distinct) loaded after any content.xml ce: a reference made by e - a master
   page element or a style - to a name styles.xml defines at or before e finds the element that defines it in
   styles.xml, whether or not ce uses that name, or the name with M in front, too *)
Theorem C11_styles_part : forall ce spre e spost x, NoDup (defs_of (spre ++ e :: spost)) -> In x (defs_of (spre ++ [e])) ->
  let fx := ls_fix (fst (load_elems s0 ((ce ++ spre) ++ [e]))) in
  find_def (redirect fx x) (load_all ((ce ++ spre) ++ e :: spost)) 0 = find_def x (spre ++ e :: spost) (List.length ce).
Proof. exact styles_ref_resolves. Qed.
Print Assumptions C11_styles_part.

(* content.xml (cpre ++ e :: cpost, names distinct): a reference to one of its own styles still finds it, whatever
   styles.xml holds *)
Theorem C11_content_part : forall cpre e cpost se x, NoDup (defs_of (cpre ++ e :: cpost)) -> In x (defs_of (cpre ++ [e])) ->
  let fx := ls_fix (fst (load_elems s0 (cpre ++ [e]))) in
  find_def (redirect fx x) (load_all (cpre ++ e :: cpost ++ se)) 0 = find_def x (cpre ++ e :: cpost) 0.
Proof. exact content_ref_resolves. Qed.
Print Assumptions C11_content_part.

(* content.xml is loaded as it is (names distinct), so are the common styles that follow it, and a reference to a common
   style keeps finding it *)
Theorem C11_content_unchanged : forall a b, NoDup (defs_of a) -> exists b', load_all (a ++ b) = a ++ b' /\ List.length b' = List.length b.
Proof. exact load_prefix_unchanged. Qed.
Print Assumptions C11_content_unchanged.

Theorem C11_common_styles : forall ce cm rest x, NoDup (defs_of ce ++ defs_of cm) -> In x (defs_of cm) ->
  exists rest', load_all (ce ++ cm ++ rest) = ce ++ cm ++ rest' /\
  find_def x (load_all (ce ++ cm ++ rest)) 0 = find_def x (ce ++ cm) 0.
Proof. exact content_ref_common. Qed.
Print Assumptions C11_common_styles.

(* a name not defined so far is left alone *)
Theorem C11_untouched : forall pre e x, ~ In x (defs_of (pre ++ [e])) -> redirect (ls_fix (fst (load_elems s0 (pre ++ [e])))) x = x.
Proof. exact ref_untouched. Qed.
Print Assumptions C11_untouched.

(* table obligations (regenerated tables vs the specification's classification, LoadStyles.spec_other_kind and spec_other_kind_on): an
   attribute of the schema's reference attributes, on an element el, is treated as a reference to a style:style by
   the loader iff it can name one there; and every such attribute is also scanned when automatic styles are selected *)
Theorem C11_redirected_iff_can_name_a_style : forall el a, In a schema_refattrs ->
  is_redirected scanned_refattrs redirect_excluded redirect_excluded_on el a = spec_style_ref schema_refattrs el a.
Proof. exact redirected_iff_spec. Qed.
Print Assumptions C11_redirected_iff_can_name_a_style.

Theorem C11_all_schema_reference_attributes_scanned :
  forallb (fun a => existsb (qname_eqb a) scanned_refattrs) schema_refattrs = true.
Proof. exact schema_refs_scanned. Qed.
Print Assumptions C11_all_schema_reference_attributes_scanned.
