(* C08 — placeholder until the invariant proofs land (proofs/DomProofs.v). *)
From Odf Require Import model.Base model.Dom.
