(* C08 — the node tree stays structurally consistent under any sequence of edits. *)
From Odf Require Import model.Base model.Dom model.DomCheck proofs.DomProofs proofs.IndexProofs proofs.DomCheckProofs.

(* Consistent: every node listed among a parent's children has that parent and vice versa, each once;
   previous/next links follow the child order; a detached node has no siblings; childless kinds have no
   children.  WF adds: ids beyond `alloc` are unused. *)

(* every operation keeps the heap consistent: appendChild, insertBefore (any reference, None included),
   removeChild, addElement, addText, addCDATA; whether the operation succeeds or raises; attached to a
   document or not. The only precondition is the one the property states: a node is not inserted into
   itself (op_ok: ids allocated, c <> p) *)
Theorem C08_step : forall h o, WF h -> op_ok h o -> WF (heap_of (step h o)).
Proof. intros h o H1 H2. exact (proj1 (step_wf h o H1 H2)). Qed.
Print Assumptions C08_step.

(* hence every reachable heap, for histories of ANY length *)
Theorem C08_reachable : forall ops h, WF h -> ops_ok h ops -> WF (run h ops).
Proof. exact run_wf. Qed.
Print Assumptions C08_reachable.

(* ... starting, for instance, from any number of unlinked element and text nodes *)
Theorem C08_from_scratch : forall a b ops, ops_ok (heap0 a b) ops -> Consistent (nodes (run (heap0 a b) ops)).
Proof. intros a b ops H. exact (proj1 (run_wf ops _ (heap0_wf a b) H)). Qed.
Print Assumptions C08_from_scratch.

(* not-a-child: the DOM not-found error, and nothing changes *)
Theorem C08_remove_not_child : forall h p c, ~ In c (kids (nodes h p)) -> remove_child h p c = RRaise NotFoundErr h.
Proof. exact remove_not_child. Qed.
Print Assumptions C08_remove_not_child.

Theorem C08_insert_ref_not_child : forall h p c r, is_elem (nodes h p) = true -> ~ In r (kids (nodes h p)) ->
  insert_before h p c (Some r) = RRaise NotFoundErr h.
Proof. exact insert_ref_not_child. Qed.
Print Assumptions C08_insert_ref_not_child.

(* at most one parent, listed once; a moved node ends up exactly at the new place *)
Theorem C08_one_parent : forall f q1 q2 c, Consistent f -> In c (kids (f q1)) -> In c (kids (f q2)) -> q1 = q2.
Proof. exact one_parent. Qed.
Print Assumptions C08_one_parent.

Theorem C08_move_to_end : forall h p c h', Consistent (nodes h) -> c <> p ->
  append_child h p c = ROk h' -> exists ks, kids (nodes h' p) = ks ++ [c].
Proof. exact append_child_last. Qed.
Print Assumptions C08_move_to_end.

(* ... and from any snapshot of a real document that the executable checker accepts (the harness runs wf_ok on the
   snapshot every history starts from): the checker is sound *)
Theorem C08_checked_start : forall l ed sd, wf_ok l = true -> WF (lheap l ed sd).
Proof. exact wf_checked. Qed.
Print Assumptions C08_checked_start.
