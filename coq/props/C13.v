(* C13 — reading a package never expands entities or touches external resources. (partial: see below) *)
From Odf Require Import model.Base model.XmlLex model.XmlTree model.NsTable model.Package model.ParseSites model.FixPart gen.GenSites
  proofs.ParseSitesProofs proofs.FixPartProofs.

(* every place in the odf package where an XML parser is constructed or an XML parse function is called uses
   defusedxml (table regenerated from the working tree by an ast walk with import resolution) *)
Theorem C13_sites : forallb site_guarded parser_sites = true.
Proof. exact all_sites_guarded. Qed.
Print Assumptions C13_sites.

Theorem C13_entry_point_sites : forall e, forallb site_guarded (ep_sites parser_sites e) = true.
Proof. exact ep_sites_guarded. Qed.
Print Assumptions C13_entry_point_sites.

Theorem C13_sites_exist :
  forallb (fun e => forallb (fun f => existsb (site_in f) parser_sites) (ep_functions e))
          [EPLoad; EPManifest; EPUserField; EPXhtml; EPMoinMoin] = true.
Proof. exact entry_points_have_sites. Qed.
Print Assumptions C13_sites_exist.

(* ASSUMING a guarded parser raises on a document that declares entities or has an external subset
   (hypothesis guarded_refuses: run-time behaviour of defusedxml, tested by the injection matrix), an entry point
   all of whose reads go through guarded sites fails as soon as one member it reads is dangerous *)
Theorem C13_refuses : forall (xdoc : Type) (dangerous : xdoc -> bool) (parse : bool -> xdoc -> bool),
  (forall d, dangerous d = true -> parse true d = false) ->
  forall reads, forallb fst reads = true -> existsb (fun r => dangerous (snd r)) reads = true ->
  run_entry xdoc parse reads = false.
Proof. exact entry_refuses. Qed.
Print Assumptions C13_refuses.

(* the members load() parses: the manifest, every listed part of the main document and of every embedded object *)
Theorem C13_members_root : forall foreign m n, In n part_names -> in_manifest m n = true -> In n (load_reads foreign m).
Proof. exact load_reads_root. Qed.
Print Assumptions C13_members_root.

Theorem C13_members_object : forall foreign m p mtv n, In (p, mtv) m -> classify foreign m p = IsObject -> In n part_names ->
  in_manifest m (p ++ n) = true -> In (p ++ n) (load_reads foreign m).
Proof. exact load_reads_object. Qed.
Print Assumptions C13_members_object.

(* what reaches the parser: load() patches every member textually before parsing it (fix_part = __fixXmlPart: namespace
   declarations some producers leave out are inserted at the first " xmlns:").  For EVERY string: the member is unchanged up
   to the end of its document type declaration (root_start: quotes and the internal subset respected), so every entity
   declaration and every external identifier reaches the guarded parser as it stands in the package *)
Theorem C13_dtd_untouched : forall s, firstn (root_start s) (fix_part s) = firstn (root_start s) s.
Proof. exact dtd_untouched. Qed.
Print Assumptions C13_dtd_untouched.
Theorem C13_patched_shape : forall s, exists tail, fix_part s = firstn (root_start s) s ++ tail.
Proof. exact fix_part_shape. Qed.
Print Assumptions C13_patched_shape.
