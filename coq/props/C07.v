(* C07 — a refused or failed operation leaves the document untouched. *)
From Odf Require Import model.Base model.Dom model.Construct proofs.DomProofs proofs.ConstructProofs.

(* every DOM / Element operation that raises returns the heap it was given: tree, link fields,
   owner marks, element index and style dictionary all unchanged (illegal child, illegal text,
   reference child that is not a child, removal of a non-child, child of a childless node) *)
Theorem C07_dom_atomic : forall h o e h', Consistent (nodes h) -> op_ok h o -> step h o = RRaise e h' -> h' = h.
Proof. exact step_raise_unchanged. Qed.
Print Assumptions C07_dom_atomic.

(* a constructor call that raises - failing text/attribute step, missing required attribute, or a parent
   that refuses the new element - leaves every existing node and both lookups as they were *)
Theorem C07_constructor_atomic : forall h q sn steps check req par e h',
  WF h -> (match par with Some (p, _) => (p < alloc h)%nat | None => True end) ->
  construct h q sn steps check req par = RRaise e h' -> same_document h h'.
Proof. exact construct_atomic. Qed.
Print Assumptions C07_constructor_atomic.

(* in particular the element whose construction was refused is nobody's child *)
Theorem C07_never_found : forall h q sn steps check req par e h',
  WF h -> (match par with Some (p, _) => (p < alloc h)%nat | None => True end) ->
  construct h q sn steps check req par = RRaise e h' ->
  forall j, (j < alloc h)%nat -> ~ In (alloc h) (kids (nodes h' j)).
Proof. exact construct_refused_not_found. Qed.
Print Assumptions C07_never_found.

(* attribute stores: a raising setAttribute/setAttrNS produces no new store *)
Theorem C07_attribute_atomic : forall a known conv e, set_attribute a known conv = Raise e ->
  known = None /\ e = AttributeErr \/ conv = Raise e.
Proof. exact set_attribute_atomic. Qed.
Print Assumptions C07_attribute_atomic.
