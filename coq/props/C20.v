(* C20 — the list-style builder yields one correct level definition per specification. *)
From Odf Require Import model.Base model.EasyList proofs.EasyListProofs.

(* one level per specification, numbered 1..n in order, indentation factor = level (space-before = num * level) *)
Theorem C20_levels : forall specs show_all, Forall (fun s => s <> []) specs ->
  exists ls, style_from_list specs show_all = Ok ls /\
    map lv_level ls = seq 1 (List.length specs) /\ map lv_factor ls = seq 1 (List.length specs).
Proof. exact style_from_list_levels. Qed.
Print Assumptions C20_levels.

(* a specification containing one of 1 I i A a: a numbering level using that format, text before it as prefix,
   text after it as suffix (prefix ++ format ++ suffix is the specification; no format character in the prefix),
   showing all levels or one as requested *)
Theorem C20_number : forall show_all i spec pre f suf, first_format spec [] = Some (pre, f, suf) ->
  make_level show_all i spec = Ok (mkLevel (S i) (LNumber f pre suf (if show_all then S i else 1%nat)) (S i)) /\
  spec = pre ++ f :: suf /\ is_format f = true /\ forallb (fun c => negb (is_format c)) pre = true.
Proof. exact number_level_correct. Qed.
Print Assumptions C20_number.

(* any other specification: a bullet level whose bullet is its first character *)
Theorem C20_bullet : forall show_all i c r, forallb (fun x => negb (is_format x)) (c :: r) = true ->
  make_level show_all i (c :: r) = Ok (mkLevel (S i) (LBullet c) (S i)).
Proof. exact bullet_level_correct. Qed.
Print Assumptions C20_bullet.

Theorem C20_dichotomy : forall spec, (exists p f s, first_format spec [] = Some (p, f, s)) \/
  (first_format spec [] = None /\ forallb (fun x => negb (is_format x)) spec = true).
Proof. exact format_or_bullet. Qed.
Print Assumptions C20_dichotomy.

(* the string form agrees with the list form for every delimiter the specifications do not contain *)
Theorem C20_string : forall d specs show_all, specs <> [] -> Forall (fun s => mem_cp d s = false) specs ->
  style_from_string (join1 d specs) d show_all = style_from_list specs show_all.
Proof. exact style_from_string_eq. Qed.
Print Assumptions C20_string.

(* the spacing is cut into a number (no letters) and a unit (letters only, any case) that are adjacent pieces of it *)
Theorem C20_spacing : forall spacing num unit, css_split spacing = Some (num, unit) ->
  exists pre post, spacing = pre ++ num ++ unit ++ post /\ forallb is_letter unit = true /\
                   forallb (fun c => negb (is_letter c)) num = true /\ forallb is_letter pre = true.
Proof. exact css_split_spec. Qed.
Print Assumptions C20_spacing.
