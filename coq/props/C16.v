(* C16 — references to embedded sub-documents resolve to where they are stored. *)
From Odf Require Import model.Base model.XmlLex model.XmlTree model.NsTable model.Package proofs.PackageProofs.

(* the reference returned by addObject is "./" + x and the object is stored in folder x + "/"
   (default names, explicit names with or without a leading slash, any nesting) *)
Theorem C16_reference : forall pf taken child name, (pf = [] \/ exists x, pf = cSLASHc :: x) ->
  exists x, snd (add_object pf taken child name) = 46 :: cSLASHc :: x /\
            objfolder (fst (add_object pf taken child name)) = x ++ [cSLASHc] /\
            o_folder (fst (add_object pf taken child name)) = cSLASHc :: x.
Proof. exact add_object_reference. Qed.
Print Assumptions C16_reference.

(* every embedded sub-document (any depth) has its content.xml and styles.xml in that folder and the
   manifest declares the folder with the sub-document's media type *)
Theorem C16_stored_where_referenced : forall t d, embedded (t_root t) d ->
  In (xml_entry (objfolder d ++ s2l "content.xml") PContent (o_folder d)) (fst (save_m t)) /\
  In (xml_entry (objfolder d ++ s2l "styles.xml") PStyles (o_folder d)) (fst (save_m t)) /\
  In (objfolder d, o_mt d) (snd (save_m t)).
Proof. exact object_where_its_reference_says. Qed.
Print Assumptions C16_stored_where_referenced.

(* the sub-document's own pictures travel in its folder *)
Theorem C16_object_pictures : forall t d p, embedded (t_root t) d -> In p (o_pics d) ->
  In (mkE (objfolder d ++ pc_name p) true [] (DBytes (pc_data p))) (fst (save_m t)) /\
  In (objfolder d ++ pc_name p, pc_mt p) (snd (save_m t)).
Proof. exact pictures_of_embedded_object. Qed.
Print Assumptions C16_object_pictures.

(* load then save: whatever the numbering and manifest order of the source, an object folder is written back
   under the same path with the same media type, so every draw:object href still points at it *)
Theorem C16_load_save : forall foreign m member mime rs os p mtv, In (p, mtv) m -> classify foreign m p = IsObject ->
  In (p ++ s2l "content.xml") (names (fst (save_m (load_m foreign m member mime rs os)))) /\
  In (p ++ s2l "styles.xml") (names (fst (save_m (load_m foreign m member mime rs os)))) /\
  In (p, mtv) (snd (save_m (load_m foreign m member mime rs os))).
Proof. exact object_survives_load_save. Qed.
Print Assumptions C16_load_save.

(* ... and the other files below object folders (and anywhere else) travel byte-identically *)
Theorem C16_other_files : forall foreign m member mime rs os p mtv,
  In (p, mtv) m -> classify foreign m p = IsExtra -> ends_slash p = false -> str_eqb p sSIG = false ->
  In (mkE p false [] (DBytes (member p))) (fst (save_m (load_m foreign m member mime rs os))) /\
  In (p, mtv) (snd (save_m (load_m foreign m member mime rs os))).
Proof. exact extra_survives_load_save. Qed.
Print Assumptions C16_other_files.

(* an embedded object that is not an OpenDocument document (foreign: its content.xml has a root element of another vocabulary -
   the plain MathML of a formula): neither the folder nor any file in it is loaded into a sub-document, whatever the manifest
   lists; they are members of the kind C16_other_files speaks of, so the reference still finds the very bytes it named *)
Theorem C16_foreign_object_files : forall foreign m p, starts_with sOBJ p = true ->
  foreign (fst (split_last_slash p [] [])) = true -> (ends_slash p = true -> foreign p = true) -> classify foreign m p = IsExtra.
Proof. exact foreign_member_is_extra. Qed.
Print Assumptions C16_foreign_object_files.

(* taken: the folders of the objects the parent holds already.  An object attached under the default name gets a folder none
   of them has - whatever numbers a loaded package used for its objects, whatever names a caller gave (the first free
   "Object N"; pigeonhole: among |taken| + 1 consecutive numbers one is free) *)
Theorem C16_folder_of_its_own : forall pf taken child, ~ In (o_folder (fst (add_object pf taken child None))) taken.
Proof. exact add_object_fresh. Qed.
Print Assumptions C16_folder_of_its_own.
