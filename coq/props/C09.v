(* C09 — document-wide lookups always agree with the current tree. *)
From Odf Require Import model.Base model.Dom model.DomCheck proofs.DomProofs proofs.IndexProofs proofs.DomCheckProofs.

(* Idx top h: the state of the document's lookups agrees with the tree of h whose root is top (IndexProofs.Idx: index = the
   owned elements, each once; ownership constant along parent links and meaning "the parent chain ends at top"; the style
   dictionary only holds owned, named style:style children of office:styles / office:automatic-styles).
   attached h top n = the parent chain of n reaches top. *)

(* after ANY history of appendChild / insertBefore / removeChild / addElement / addText / addCDATA over any nodes (text nodes
   included; whole subtrees moved, removed, re-added) that does not make the document root a child *)
Theorem C09_every_history : forall top ops h, WF h -> Idx top h -> ops_ok h ops -> ops_keep_top top ops ->
  WF (run h ops) /\ Idx top (run h ops).
Proof. exact run_idx. Qed.
Print Assumptions C09_every_history.

(* ... getElementsByType returns exactly the elements of that type attached to the document, each once *)
Theorem C09_elements_by_type : forall top h, Idx top h -> forall q,
  NoDup (get_elements_by_type h q) /\
  forall n, In n (get_elements_by_type h q) <-> kind (nodes h n) = KElem q /\ attached h top n.
Proof. exact index_exact. Qed.
Print Assumptions C09_elements_by_type.

(* ... getStyleByName returns nothing but a style of that name that is in the document *)
Theorem C09_style_by_name_sound : forall top h nm n, Idx top h -> get_style_by_name h nm = Some n ->
  kind (nodes h n) = KElem Q_STYLE /\ sname (nodes h n) = Some nm /\ attached h top n /\ style_parent_ok h n = true.
Proof. exact style_lookup_sound. Qed.
Print Assumptions C09_style_by_name_sound.

(* ... and, along histories in which no two registered styles of the document ever share a name (C11 is about the others),
   it returns the style of that name whenever there is one *)
Theorem C09_style_by_name_complete : forall top ops h, WF h -> Idx top h -> Comp h -> ops_ok h ops -> ops_keep_top top ops ->
  ops_uniq h ops -> forall n nm, registrable (nodes (run h ops)) n nm -> get_style_by_name (run h ops) nm = Some n.
Proof. intros top ops h HW HI HC Ho Ht Hu. exact (run_comp top ops h HW HI HC Ho Ht Hu). Qed.
Print Assumptions C09_style_by_name_complete.

(* one step, as used above: the invariant survives every single operation, raising or not *)
Theorem C09_step : forall top h o, WF h -> Idx top h -> op_ok h o -> op_keeps_top top o -> Idx top (heap_of (step h o)).
Proof. exact step_idx. Qed.
Print Assumptions C09_step.

(* the subtree walks of the model, bounded by the number of nodes, reach every descendant (pigeonhole) *)
Theorem C09_walk_complete : forall f N c m p, closed f N -> parent (f m) = Some p -> below f N c p = true -> below f N c m = true.
Proof. exact below_step_down. Qed.
Print Assumptions C09_walk_complete.

(* the hypotheses are satisfiable: a document root with free nodes around it *)
Theorem C09_start : forall a b, WF (heap1 a b) /\ Idx 0 (heap1 a b) /\ Comp (heap1 a b).
Proof. intros a b. exact (conj (heap1_wf a b) (conj (heap1_idx a b) (heap1_comp a b))). Qed.
Print Assumptions C09_start.

(* the executable checkers the harness runs on the snapshot of the real document each history starts from are sound: a
   snapshot they accept satisfies the hypotheses above ... *)
Theorem C09_checked_start : forall top l ed sd, idx_ok top l ed sd = true -> Idx top (lheap l ed sd).
Proof. exact idx_checked. Qed.
Print Assumptions C09_checked_start.
Theorem C09_checked_complete : forall l ed sd, comp_ok l sd = true -> Comp (lheap l ed sd).
Proof. exact comp_checked. Qed.
Print Assumptions C09_checked_complete.

(* ... so every history from an accepted snapshot keeps the lookups exact (the side conditions are checked per step by
   op_okb / keeps_topb, C09_checked_step) *)
Theorem C09_checked_history : forall top l ed sd ops, wf_ok l = true -> idx_ok top l ed sd = true ->
  ops_ok (lheap l ed sd) ops -> ops_keep_top top ops -> WF (run (lheap l ed sd) ops) /\ Idx top (run (lheap l ed sd) ops).
Proof. exact checked_history. Qed.
Print Assumptions C09_checked_history.
Theorem C09_checked_step : forall top h o, WF h -> Idx top h -> op_okb h o = true -> keeps_topb top o = true ->
  WF (heap_of (step h o)) /\ Idx top (heap_of (step h o)).
Proof. exact checked_step. Qed.
Print Assumptions C09_checked_step.
