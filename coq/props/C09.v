(* C09 — placeholder until the index invariant lands. *)
From Odf Require Import model.Base model.Dom.
