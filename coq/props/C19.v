(* C19 — updating user fields changes those fields and nothing else. *)
From Odf Require Import model.Base model.XmlTree model.UserField gen.GenUserField proofs.UserFieldProofs proofs.UserFieldInst.

(* declaration by declaration: name, type and every other attribute unchanged; a named field gets the (converted)
   new value in the attribute of its value type and no other value attribute changes; an unnamed field is untouched;
   order and number of declarations preserved (Forall2) *)
Theorem C19_update : forall data ds ds', update data ds = Ok ds' -> Forall2 (updated data) ds ds'.
Proof. exact update_pointwise. Qed.
Print Assumptions C19_update.

(* listing the output returns the new values of the named fields, the old values of all others, in order *)
Theorem C19_listing : forall data ds ds', update data ds = Ok ds' ->
  list_fields_and_values None ds' =
  map (fun f => match dlookup (d_name f) data with
                | Some v => match conv_value (value_attr (d_type f)) v with Ok v' => (d_name f, d_type f, Some v') | Raise _ => field_row f end
                | None => field_row f end) ds.
Proof. exact list_after_update. Qed.
Print Assumptions C19_listing.

(* the attribute written is the one VALUE_TYPES (regenerated from the working tree) assigns to the value type *)
Theorem C19_attr : 
  forallb (fun e => match attr_index (snd e) with Some k => Nat.eqb (value_attr (fst e)) k | None => false end) value_types = true
  /\ map fst value_types = [s2l "boolean"; s2l "currency"; s2l "date"; s2l "float"; s2l "percentage"; s2l "string"; s2l "time"].
Proof. exact value_types_tie. Qed.
Print Assumptions C19_attr.

(* a refused value aborts the update before anything is written *)
Theorem C19_refused : forall data ds e, update data ds = Raise e -> e = ValueErr.
Proof. exact update_refused. Qed.
Print Assumptions C19_refused.
