(* C17 — the whitespace helper round-trips every string.
   Only statements, closed by `exact`, and Print Assumptions. *)
From Odf Require Import model.Base model.Teletype proofs.TeletypeProofs.

(* direct round trip, for every string and every pre-existing child list *)
Theorem C17_direct : forall (kids : list tnode) (s : str),
  extract (add_text_to_element kids s) = extract kids ++ s.
Proof. exact teletype_roundtrip. Qed.
Print Assumptions C17_direct.

(* no literal TAB / LF, no two adjacent blanks, no empty text node *)
Theorem C17_no_literal : forall s : str, forallb clean_node (encode s) = true.
Proof. exact teletype_clean. Qed.
Print Assumptions C17_no_literal.

(* two text nodes of one call are never neighbours *)
Theorem C17_no_adjacent_text : forall s : str, no_adjacent_text (encode s) = true.
Proof. exact teletype_no_adjacent_text. Qed.
Print Assumptions C17_no_adjacent_text.

(* with grammar checking on, an element that allows text, text:s, text:tab and
   text:line-break accepts every string *)
Theorem C17_checked : forall al kids s,
  a_text al = true -> a_s al = true -> a_tab al = true -> a_lb al = true ->
  exists kids', add_text_checked al kids s = Ok kids' /\ extract kids' = extract kids ++ s.
Proof. exact teletype_checked. Qed.
Print Assumptions C17_checked.

(* after the document has been saved and loaded: what a parser returns for the children
   (`reparse`: CDATA as character data, neighbouring character data as one node, empty
   text nodes gone) reads the same as the children themselves, whatever they are ... *)
Theorem C17_reparse_extract : forall ns,
  forallb no_cdata_node ns = true -> extract (reparse ns) = extract ns.
Proof. exact teletype_reparse_extract. Qed.
Print Assumptions C17_reparse_extract.

(* ... the nodes of one call come back exactly as they were inserted ... *)
Theorem C17_reparse_fixpoint : forall s : str, reparse (encode s) = encode s.
Proof. exact teletype_reparse_fixpoint. Qed.
Print Assumptions C17_reparse_fixpoint.

(* ... and the string is recovered from the reloaded element, after whatever children it had *)
Theorem C17_saved : forall (kids : list tnode) (s : str),
  forallb no_cdata_node kids = true ->
  extract (reparse (add_text_to_element kids s)) = extract kids ++ s.
Proof. exact teletype_saved_roundtrip. Qed.
Print Assumptions C17_saved.

(* the premise is satisfiable, and the merge does happen: a text node in front of the call's own *)
Example C17_saved_example :
  reparse (add_text_to_element [TText [97]; TOther [TText []; TText [98]]] [99; 32; 32; 100])
  = [TText [97]; TOther [TText [98]]; TText [99; 32]; TS (Some 1%nat); TText [100]].
Proof. vm_compute. reflexivity. Qed.
