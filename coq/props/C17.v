(* C17 — the whitespace helper round-trips every string.
   Only statements, closed by `exact`, and Print Assumptions. *)
From Odf Require Import model.Base model.Teletype proofs.TeletypeProofs.

(* direct round trip, for every string and every pre-existing child list *)
Theorem C17_direct : forall (kids : list tnode) (s : str),
  extract (add_text_to_element kids s) = extract kids ++ s.
Proof. exact teletype_roundtrip. Qed.
Print Assumptions C17_direct.

(* no literal TAB / LF, no two adjacent blanks, no empty text node *)
Theorem C17_no_literal : forall s : str, forallb clean_node (encode s) = true.
Proof. exact teletype_clean. Qed.
Print Assumptions C17_no_literal.

(* two text nodes of one call are never neighbours *)
Theorem C17_no_adjacent_text : forall s : str, no_adjacent_text (encode s) = true.
Proof. exact teletype_no_adjacent_text. Qed.
Print Assumptions C17_no_adjacent_text.

(* with grammar checking on, an element that allows text, text:s, text:tab and
   text:line-break accepts every string *)
Theorem C17_checked : forall al kids s,
  a_text al = true -> a_s al = true -> a_tab al = true -> a_lb al = true ->
  exists kids', add_text_checked al kids s = Ok kids' /\ extract kids' = extract kids ++ s.
Proof. exact teletype_checked. Qed.
Print Assumptions C17_checked.
