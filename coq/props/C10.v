(* C10 — saving keeps every referenced automatic style in the part that refers to it. *)
From Odf Require Import model.Base model.Chars model.XmlPrint model.XmlLex model.XmlTree model.Doc model.Inst
  gen.GenStyleRefs proofs.AutoStylesProofs proofs.DocInst.

(* RA = the attributes the working tree scans (regenerated). refs_in RA t n: some element of the subtree t (t included)
   carries one of those attributes and n is one of the (white-space separated) names in its value *)

(* table obligation: the scanned attributes cover every attribute the ODF 1.2 schema types styleNameRef(s) *)
Theorem C10_all_schema_reference_attributes_scanned :
  forallb (fun a => existsb (qname_eqb a) scanned_refattrs) schema_refattrs = true.
Proof. exact schema_refs_scanned. Qed.
Print Assumptions C10_all_schema_reference_attributes_scanned.

(* an automatic style (of any kind: style:style, list, data, page layout - any element with a style:name) referenced
   from below a scanned segment is written *)
Theorem C10_direct : forall segs auto seg c e n,
  In seg segs -> In c (kids_of seg) -> refs_in RA c n ->
  In e (kids_of auto) -> is_element e = true -> style_name e = Some n -> In e (used_auto_styles RA segs auto).
Proof. exact (referenced_style_is_written RA). Qed.
Print Assumptions C10_direct.

(* and so is every automatic style referenced from a written one - chains of any length, by repeating this step *)
Theorem C10_transitive : forall segs auto s e n,
  In s (used_auto_styles RA segs auto) -> refs_in RA s n ->
  In e (kids_of auto) -> is_element e = true -> style_name e = Some n -> In e (used_auto_styles RA segs auto).
Proof. exact (style_referenced_by_written_style_is_written RA). Qed.
Print Assumptions C10_transitive.

(* definitions unchanged (the very nodes of office:automatic-styles), each at most once per part *)
Theorem C10_unchanged : forall segs auto e, In e (used_auto_styles RA segs auto) -> In e (kids_of auto).
Proof. exact (written_styles_are_the_documents RA). Qed.
Print Assumptions C10_unchanged.

Theorem C10_once : forall segs auto, NoDup (kids_of auto) -> NoDup (used_auto_styles RA segs auto).
Proof. exact (written_styles_once RA). Qed.
Print Assumptions C10_once.

(* content.xml scans office:styles, office:automatic-styles and office:body; styles.xml scans office:master-styles
   (Doc.contentxml / Doc.stylesxml, tied to the code by byte-exact correspondence) *)
