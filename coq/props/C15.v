(* C15 — schema-valid attribute values are accepted and kept unchanged. *)
From Odf Require Import model.Base model.Regex model.Convert gen.GenConv model.ConvInst model.Grammar proofs.RegexProofs proofs.ConvProofs proofs.ConvInst.

(* numbered = every (element, attribute) instance of the ODF 1.2 schema with the converter AttrConverters.convert picks for it
   (read from the working tree: the function's source classified by shape, its constants read from the source) and the lexical
   space the schema gives it (exact for enumerations, patterns and the view box; an upper bound - every string, or every string
   without colon and blank - for the XML Schema built-ins, which only widens the claim); dev_accept / dev_strict = the recorded
   deviations.  matches = the derivative matcher, proved to decide the language of the expression (C15_matcher). *)

Theorem C15_accepted_and_kept : forall i f j s, In (i, (f, j)) numbered -> memN i dev_accept = false ->
  i_valid j s = true -> i_convert f s = COk s.
Proof. exact inst_accepts. Qed.
Print Assumptions C15_accepted_and_kept.

(* converting a stored value again is a no-op: every converter, every string *)
Theorem C15_idempotent : forall f s v, i_convert f s = COk v -> i_convert f v = COk v.
Proof. exact inst_idempotent. Qed.
Print Assumptions C15_idempotent.

(* a validating converter (enumeration, pattern) rejects every string outside the type, with ValueError *)
Theorem C15_rejected : forall i f j s, In (i, (f, j)) numbered -> memN i dev_strict = false -> validating (kind_of f) = true ->
  i_valid j s = false -> i_convert f s = CValueError.
Proof. exact inst_rejects. Qed.
Print Assumptions C15_rejected.

(* no pattern is applied to a prefix only *)
Theorem C15_patterns_match_in_full : forallb (fun k => match k with KPatPrefix _ => false | _ => true end) conv_kinds = true.
Proof. exact O_no_prefix_patterns. Qed.
Print Assumptions C15_patterns_match_in_full.

(* the matcher decides the language of the expression *)
Theorem C15_matcher : forall s r, matches r s = true <-> Lang r s.
Proof. exact matches_spec. Qed.
Print Assumptions C15_matcher.

(* generic forms, for any converter kind and lexical space *)
Theorem C15_generic_accept : forall k t s, compatible k t = true -> s_valid t s = true -> convert k s = COk s.
Proof. exact accepted_unchanged. Qed.
Print Assumptions C15_generic_accept.
Theorem C15_generic_reject : forall k t s, strict k t = true -> s_valid t s = false -> convert k s = CValueError.
Proof. exact rejected_outside. Qed.
Print Assumptions C15_generic_reject.
