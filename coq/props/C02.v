(* C02 — parsing emitted XML gives back exactly the in-memory tree.
   Statements only; proofs are in proofs/Xml*.v. F = GenChars.filtered_ranges is
   the set of code points the working tree's _handle_unrepresentable replaces. *)
From Odf Require Import model.Base model.Chars model.XmlPrint model.XmlLex model.XmlTree model.Inst
  gen.GenChars proofs.XmlPrintProofs proofs.XmlLexProofs proofs.XmlTokProofs proofs.XmlResolveProofs
  proofs.XmlRoundTrip proofs.XmlInst model.Doc gen.GenNs gen.GenStyleRefs proofs.DocProofs proofs.DocInst.

(* character data: the written form of a text node lexes back to the node's
   (filtered) string, whatever precedes it *)
Theorem C02_text : forall s ts acc k, in_codespace s ->
  exists k', run (text_toXml F s) (mkL ts (MText acc k)) = mkL ts (MText (acc ++ handle_unrepresentable F s) k').
Proof. intros. apply lex_text_toXml; [exact F_cov|assumption]. Qed.
Print Assumptions C02_text.

(* attribute values: every quoting branch, TAB/LF/CR included *)
Theorem C02_attr : forall s n atts an ts, in_codespace s ->
  run (quoteattr F s) (mkL ts (MAttEq n atts an))
  = mkL ts (MAttrs n (atts ++ [(an, handle_unrepresentable F s)]) false).
Proof. intros. apply lex_quoteattr; [exact F_cov|assumption]. Qed.
Print Assumptions C02_attr.

(* CDATA sections, "]]>" and CR included *)
Theorem C02_cdata : forall s ts acc k, in_codespace s ->
  exists k', run (cdata_toXml F s) (mkL ts (MText acc k)) = mkL ts (MText (acc ++ handle_unrepresentable F s) k').
Proof. intros. apply lex_cdata_toXml; [exact F_cov|assumption]. Qed.
Print Assumptions C02_cdata.

(* whole documents: every tree, every string, every namespace table satisfying doc_ok *)
Theorem C02_roundtrip : forall env q atts kids,
  doc_ok F env (Elem q atts kids) = true ->
  xml_parse (xml_prologue ++ node_toXml F env true (Elem q atts kids)) = Some (canon F (Elem q atts kids)).
Proof. exact roundtrip_doc. Qed.
Print Assumptions C02_roundtrip.

Theorem C02_roundtrip_element : forall env q atts kids,
  doc_ok F env (Elem q atts kids) = true ->
  xml_parse (node_toXml F env true (Elem q atts kids)) = Some (canon F (Elem q atts kids)).
Proof. exact roundtrip_elem. Qed.
Print Assumptions C02_roundtrip_element.

(* `canon F` is the property's canonical form (only XML-1.0-unrepresentable code
   points become U+FFFD) on every string without a code point of F \ illegal ... *)
Theorem C02_canon_strict : forall s, in_codespace s ->
  Forall (fun c => in_ranges F c = true -> xml10_char c = false) s ->
  handle_unrepresentable F s = strict_str s.
Proof. exact canon_is_strict. Qed.
Print Assumptions C02_canon_strict.

(* ... and that exclusion is needed: the full statement (strict canon for all
   strings) is refuted by U+007F — the known finding "discouraged code points" *)
Theorem C02_strict_refuted : exists c, xml10_char c = true /\ in_ranges F c = true.
Proof. exact filter_wider_than_needed. Qed.
Print Assumptions C02_strict_refuted.

(* each rendering of a document: the four package parts and the flat document parse back to the (canonical form of
   the) tree they serialise - the wrapper element around the document's own sections *)
Theorem C02_content : forall env d, doc_ok F env (content_tree RA d) = true ->
  xml_parse (i_contentxml env d) = Some (canon F (content_tree RA d)).
Proof. exact content_roundtrip. Qed.
Print Assumptions C02_content.
Theorem C02_styles : forall env d, doc_ok F env (styles_tree RA d) = true ->
  xml_parse (i_stylesxml env d) = Some (canon F (styles_tree RA d)).
Proof. exact styles_roundtrip. Qed.
Print Assumptions C02_styles.
Theorem C02_meta : forall env d, doc_ok F env (meta_tree toolsversion d) = true ->
  xml_parse (snd (i_metaxml env d)) = Some (canon F (meta_tree toolsversion d)).
Proof. exact meta_roundtrip. Qed.
Print Assumptions C02_meta.
Theorem C02_settings : forall env d, doc_ok F env (settings_tree d) = true ->
  xml_parse (i_settingsxml env d) = Some (canon F (settings_tree d)).
Proof. exact settings_roundtrip. Qed.
Print Assumptions C02_settings.
Theorem C02_flat : forall env d, doc_ok F env (topnode (norm_gen toolsversion d)) = true ->
  xml_parse (snd (i_flatxml env d)) = Some (canon F (topnode (norm_gen toolsversion d))).
Proof. exact flat_roundtrip. Qed.
Print Assumptions C02_flat.
