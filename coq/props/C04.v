(* C04 — saving a document and loading it back reproduces the document. *)
From Odf Require Import model.Base model.Chars model.XmlLex model.XmlTree model.Doc model.Inst model.LoadStyles model.Load model.LoadInst
  gen.GenNs proofs.XmlRoundTrip proofs.DocProofs proofs.AutoStylesExact proofs.LoadProofs proofs.LoadRoundTrip proofs.SecondGen.

(* d: a document as its eight sections (office:* elements without attributes holding elements only: sections_ok);
   i_contentxml / i_stylesxml / i_metaxml / i_settingsxml: the renderers (byte-exact models, C01/C12); xml_parse: a conforming
   parser; i_load_doc: the loader (odf/load.py and the XML part of opendocument.load), part by part, element by element,
   with the style registration of build_caches; expected d: d with every tree normalised as a parser normalises it
   (canon: CDATA is text, adjacent text merged, unrepresentable characters replaced), the generator replaced by the
   library's, and as automatic styles those that content.xml and styles.xml carry (the referenced ones: C10).
   finish: of the named automatic styles, one identical to the first of its name and element type is dropped (a list
   style used by both parts arrives twice); it touches nothing else (C05_finish_section).
   all_regs d: the style names registered during the load, in order; NoDup = no automatic style is needed by both parts
   and no name is used twice (otherwise the second copy is renamed: C11). *)
Theorem C04_roundtrip : forall env d, sections_ok d -> NoDup (all_regs d) ->
  doc_ok F env (settings_tree d) = true -> doc_ok F env (meta_tree tv d) = true ->
  doc_ok F env (content_tree RA d) = true -> doc_ok F env (styles_tree RA d) = true ->
  i_load_doc (d_mime d) (if has_kids (d_settings d) then xml_parse (i_settingsxml env d) else None)
             (xml_parse (snd (i_metaxml env d))) (xml_parse (i_contentxml env d)) (xml_parse (i_stylesxml env d)) = finish (expected d).
Proof. exact save_load_roundtrip. Qed.
Print Assumptions C04_roundtrip.

(* the loader on the parsed parts alone (whatever produced the bytes) *)
Theorem C04_load_of_parts : forall d, sections_ok d -> NoDup (all_regs d) ->
  i_load_doc (d_mime d) (p_settings d) (p_meta d) (p_content d) (p_styles d) = finish (expected d).
Proof. exact load_saved. Qed.
Print Assumptions C04_load_of_parts.

(* the loaded document names the library as generator exactly once *)
Theorem C04_generator : forall d, sections_ok d -> count_gen (d_meta (expected d)) = 1%nat.
Proof. exact one_generator. Qed.
Print Assumptions C04_generator.

(* the second generation: for a document that is already what a parser delivers (canonical), whose two parts use automatic
   styles of different names (none is needed by both), the loaded document is d with its metadata normalised and its used
   automatic styles (reloaded d), and saving it gives the four parts of the first package again, byte for byte *)
Theorem C04_loaded_is_reloaded : forall d, sections_ok d -> canonical d -> NoDup (keys (used_c d ++ used_s d)) -> finish (expected d) = reloaded d.
Proof. exact finish_expected. Qed.
Print Assumptions C04_loaded_is_reloaded.
Theorem C04_second_generation : forall env d,
  (forall e e', In e (used_c d) -> In e' (used_s d) -> style_name e = style_name e' -> style_name e = None) ->
  i_contentxml env (reloaded d) = i_contentxml env d /\ i_stylesxml env (reloaded d) = i_stylesxml env d /\
  i_settingsxml env (reloaded d) = i_settingsxml env d /\ snd (i_metaxml env (reloaded d)) = snd (i_metaxml env d) /\
  has_kids (d_settings (reloaded d)) = has_kids (d_settings d).
Proof. exact second_generation. Qed.
Print Assumptions C04_second_generation.

(* the names collected when automatic styles are selected are exactly the closure of the references (any segments, any styles) *)
Theorem C04_selection_exact : forall segs auto, exists sel names,
  used_auto_styles RA segs auto = pick (kids_of auto) sel /\ List.length sel = List.length (kids_of auto) /\
  (forall x, mem_str x names = true <-> Reach RA (roots_of RA segs) (kids_of auto) x) /\
  (forall i e, nth_error (kids_of auto) i = Some e -> (nth i sel false = true <-> is_element e = true /\ named_in names e = true)).
Proof. exact (used_exact RA). Qed.
Print Assumptions C04_selection_exact.

(* attaching a subtree in which nothing clashes leaves it as it is: any tree without CDATA sections, any depth *)
Theorem C04_attach_identity : forall redirected t st pq, ls_fix st = [] -> nocdata t = true -> NoDup (ls_names st ++ reg_names pq t) ->
  ld_node redirected st pq t = (mkLS (ls_names st ++ reg_names pq t) [], t).
Proof. exact ld_node_id. Qed.
Print Assumptions C04_attach_identity.

(* the hypotheses are satisfiable and the whole pipeline runs on a concrete document *)
Theorem C04_example :
  i_load_doc (d_mime ex_d) None (xml_parse (snd (i_metaxml ex_env ex_d))) (xml_parse (i_contentxml ex_env ex_d)) (xml_parse (i_stylesxml ex_env ex_d)) = finish (expected ex_d).
Proof. exact ex_runs. Qed.
Print Assumptions C04_example.

(* the general form: sections holding anything - text between the elements (a pretty-printed source), CDATA, a section
   with nothing but white space.  expected_gen d: each section with its children as a parser delivers them (canon: CDATA
   is text, adjacent text merged) and kept by the loader's rule (all of them when an element is among them, none
   otherwise); it is expected d when the sections hold elements only *)
Theorem C04_roundtrip_any_sections : forall env d, sections_named d -> NoDup (all_regs d) ->
  doc_ok F env (settings_tree d) = true -> doc_ok F env (meta_tree tv d) = true ->
  doc_ok F env (content_tree RA d) = true -> doc_ok F env (styles_tree RA d) = true ->
  i_load_doc (d_mime d) (if has_kids (d_settings d) then xml_parse (i_settingsxml env d) else None)
             (xml_parse (snd (i_metaxml env d))) (xml_parse (i_contentxml env d)) (xml_parse (i_stylesxml env d)) = finish (expected_gen d).
Proof. exact save_load_roundtrip_gen. Qed.
Print Assumptions C04_roundtrip_any_sections.
Theorem C04_general_form_agrees : forall d, sections_ok d -> expected_gen d = expected d.
Proof. exact expected_gen_strict. Qed.
Print Assumptions C04_general_form_agrees.
Theorem C04_example_with_text_in_sections : sections_named ex_pp /\ ~ sections_ok ex_pp /\ NoDup (all_regs ex_pp) /\
  i_load_doc (d_mime ex_pp) None (xml_parse (snd (i_metaxml ex_env ex_pp))) (xml_parse (i_contentxml ex_env ex_pp)) (xml_parse (i_stylesxml ex_env ex_pp)) = finish (expected_gen ex_pp) /\
  d_scripts (expected_gen ex_pp) = Elem (q_off "scripts") [] [] /\
  d_body (expected_gen ex_pp) = Elem (q_off "body") [] [ws; Elem (q_off "text") [] [ex_p "P1" "a < b"; ws; ex_p "Standard" "x"]; TextN [10; 32]].
Proof. exact ex_pp_runs. Qed.
Print Assumptions C04_example_with_text_in_sections.
