(* C01 — every XML stream the library emits is well-formed. *)
From Odf Require Import model.Base model.Chars model.XmlPrint model.XmlLex model.XmlTree model.Inst
  gen.GenChars proofs.XmlPrintProofs proofs.XmlLexProofs proofs.XmlTokProofs proofs.XmlResolveProofs
  proofs.XmlRoundTrip proofs.XmlInst model.NsTable gen.GenNs proofs.NsTableProofs proofs.NsInst
  model.Doc gen.GenStyleRefs proofs.DocProofs proofs.DocInst.

(* after the filter only XML 1.0 Char code points remain, for every Python string *)
Theorem C01_only_chars : forall s, in_codespace s ->
  Forall (fun c => xml10_char c = true) (handle_unrepresentable F s).
Proof. intros. apply handle_unrepresentable_chars; [exact F_cov|assumption]. Qed.
Print Assumptions C01_only_chars.

(* a conforming namespace-aware parser accepts the serialisation of any element tree
   and of any document (prologue + root) *)
Theorem C01_element : forall env q atts kids,
  doc_ok F env (Elem q atts kids) = true ->
  exists t, xml_parse (node_toXml F env true (Elem q atts kids)) = Some t.
Proof. intros. eexists. now apply roundtrip_elem. Qed.
Print Assumptions C01_element.

Theorem C01_document : forall env q atts kids,
  doc_ok F env (Elem q atts kids) = true ->
  exists t, xml_parse (xml_prologue ++ node_toXml F env true (Elem q atts kids)) = Some t.
Proof. intros. eexists. now apply roundtrip_doc. Qed.
Print Assumptions C01_document.

(* the filter covers the whole complement of Char (obligation on the regenerated table) *)
Theorem C01_filter_covers : ranges_subset xml10_illegal filtered_ranges = true.
Proof. exact F_covers_illegal. Qed.
Print Assumptions C01_filter_covers.

(* "whatever the process has serialised before": under the namespace table reached by ANY history of
   library use, every tree whose names are known to that table serialises to a well-formed document *)
Theorem C01_history : forall ops q atts kids, Forall (op_ok F) ops ->
  tree_ok (nsp (reach ops)) (Elem q atts kids) = true -> atts_distinct (Elem q atts kids) = true ->
  exists t, xml_parse (xml_prologue ++ node_toXml F (nsp (reach ops)) true (Elem q atts kids)) = Some t.
Proof. intros. eexists. now apply reachable_roundtrip. Qed.
Print Assumptions C01_history.

(* the package parts and the flat document are well-formed *)
Theorem C01_parts : forall env d,
  doc_ok F env (content_tree RA d) = true -> doc_ok F env (styles_tree RA d) = true ->
  doc_ok F env (meta_tree toolsversion d) = true -> doc_ok F env (settings_tree d) = true ->
  doc_ok F env (topnode (norm_gen toolsversion d)) = true ->
  (exists t, xml_parse (i_contentxml env d) = Some t) /\ (exists t, xml_parse (i_stylesxml env d) = Some t) /\
  (exists t, xml_parse (snd (i_metaxml env d)) = Some t) /\ (exists t, xml_parse (i_settingsxml env d) = Some t) /\
  (exists t, xml_parse (snd (i_flatxml env d)) = Some t).
Proof.
  intros env d H1 H2 H3 H4 H5. repeat split; eexists;
    [now apply content_roundtrip|now apply styles_roundtrip|now apply meta_roundtrip|now apply settings_roundtrip|now apply flat_roundtrip].
Qed.
Print Assumptions C01_parts.
