(* C03 — a saved package is a conforming ODF zip container with a truthful manifest. *)
From Odf Require Import model.Base model.XmlLex model.XmlTree model.NsTable model.Package model.PackageCheck proofs.PackageProofs proofs.PackageNoDup.

(* first entry: 'mimetype', stored, no extra field, exactly the media type *)
Theorem C03_mimetype_first : forall t,
  hd_error (fst (save_m t)) = Some (mkE sMIMETYPE true [] (DBytes (o_mt (t_root t)))).
Proof. exact mimetype_first. Qed.
Print Assumptions C03_mimetype_first.

Theorem C03_required : forall t,
  In (s2l "content.xml") (names (fst (save_m t))) /\ In (s2l "styles.xml") (names (fst (save_m t))) /\
  In (s2l "meta.xml") (names (fst (save_m t))) /\ In sMANIFEST (names (fst (save_m t))) /\ In sMIMETYPE (names (fst (save_m t))).
Proof. exact required_members. Qed.
Print Assumptions C03_required.

(* the file rows of the manifest are exactly the members of the archive other than mimetype (first) and the
   manifest itself (last), in the same order - for any tree of embedded objects, any pictures, thumbnail, extras *)
Theorem C03_manifest_exact : forall t, pics_ok (t_root t) = true -> extras_ok t = true ->
  file_paths (snd (save_m t)) = removelast (tl (names (fst (save_m t)))).
Proof. exact manifest_lists_exactly_the_files. Qed.
Print Assumptions C03_manifest_exact.

Theorem C03_root_media_type : forall t, In ([cSLASHc], o_mt (t_root t)) (snd (save_m t)).
Proof. exact root_media_type. Qed.
Print Assumptions C03_root_media_type.

(* each embedded object's folder carries that object's media type (any nesting depth) *)
Theorem C03_object_media_type : forall t d, embedded (t_root t) d -> In (objfolder d, o_mt d) (snd (save_m t)).
Proof. intros t d H. exact (proj2 (proj2 (object_where_its_reference_says t d H))). Qed.
Print Assumptions C03_object_media_type.

(* every registered picture is present, byte-identical, under the owner's folder + the name the API returned,
   with the media type given *)
Theorem C03_pictures_main : forall t p, In p (o_pics (t_root t)) ->
  In (mkE (pc_name p) true [] (DBytes (pc_data p))) (fst (save_m t)) /\ In (pc_name p, pc_mt p) (snd (save_m t)).
Proof. exact pictures_of_main_document. Qed.
Print Assumptions C03_pictures_main.

Theorem C03_pictures_embedded : forall t d p, embedded (t_root t) d -> In p (o_pics d) ->
  In (mkE (objfolder d ++ pc_name p) true [] (DBytes (pc_data p))) (fst (save_m t)) /\
  In (objfolder d ++ pc_name p, pc_mt p) (snd (save_m t)).
Proof. exact pictures_of_embedded_object. Qed.
Print Assumptions C03_pictures_embedded.

(* no member name occurring twice.  A member name is a folder path followed by a local name; `core t` lists
   the (folder, local name) pairs of everything the library names itself.  When those pairs are distinct
   (no folder given to two documents of the tree, no picture name twice in one document, none equal to a
   part's name), the folders have the shape addObject gives them and no local name starts like a folder
   (`shape_ok`), and the opaque extra files are called like nothing else (`extras_apart`), no two members
   have one name.  The check evaluates the three premises on the model image of every real document it
   saves; the recorded findings of this clause are inputs on which `pairs_distinct` is false. *)
Theorem C03_no_member_twice : forall t,
  pairs_distinct t = true -> shape_ok (core t) = true -> extras_apart t = true ->
  NoDup (map e_name (fst (save_m t))).
Proof. exact no_member_twice. Qed.
Print Assumptions C03_no_member_twice.

(* what the premises rest on: distinct pairs with well-shaped folders never collide as full names *)
Theorem C03_names_injective : forall l x y, shape_ok l = true -> In x l -> In y l -> cat x = cat y -> x = y.
Proof. exact cat_inj. Qed.
Print Assumptions C03_names_injective.
