(* C05 — load then save preserves a package produced by any application. (theorems follow) *)
From Odf Require Import model.Base model.XmlTree model.Doc model.Load model.LoadInst.
