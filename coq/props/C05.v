(* C05 — load then save preserves a package produced by any application. *)
From Odf Require Import model.Base model.Chars model.XmlLex model.XmlTree model.Doc model.Inst model.LoadStyles model.Load model.LoadInst
  model.FixPart gen.GenNs proofs.XmlRoundTrip proofs.DocProofs proofs.LoadProofs proofs.LoadRoundTrip proofs.FixPartProofs.

(* se me co st: settings.xml, meta.xml, content.xml, styles.xml of the source package as parsed (None: absent) - any root
   element, any attributes on it and on the sections, any number and order of sections, character data between them,
   unknown elements; part_ok: no CDATA node (parsers deliver none); any_regs: the style names registered during the load. *)

(* the loaded document, section by section: the kept children of the source sections routed to it, in load order;
   keep = all children when the section has an element child, nothing otherwise *)
Theorem C05_load : forall mime se me co st, part_ok se -> part_ok me -> part_ok co -> part_ok st -> NoDup (any_regs se me co st) ->
  i_load_doc mime se me co st = finish (loaded_any mime se me co st).
Proof. exact load_any. Qed.
Print Assumptions C05_load.

Theorem C05_sections : forall mime se me co st sid,
  get_sec sid (loaded_any mime se me co st) =
  Elem (sec_q sid) [] (kids_routed PnSettings sid (secs_of se) ++ kids_routed PnMeta sid (secs_of me) ++
                      kids_routed PnContent sid (secs_of co) ++ kids_routed PnStyles sid (secs_of st)).
Proof. exact loaded_section. Qed.
Print Assumptions C05_sections.

(* the last step of the load only drops repeated automatic styles *)
Theorem C05_finish_section : forall sid d, sid <> SAuto -> get_sec sid (finish d) = get_sec sid d.
Proof. exact finish_section. Qed.
Print Assumptions C05_finish_section.
Theorem C05_finish_auto : forall d q a ks, d_auto d = Elem q a ks -> d_auto (finish d) = Elem q a (dedupe [] ks).
Proof. exact finish_auto. Qed.
Print Assumptions C05_finish_auto.

(* element for element: an attached subtree is unchanged (any depth), C04_attach_identity; here the two routing facts that
   are not the identity *)
Theorem C05_content_font_declarations_skipped : forall q a ks, qname_eqb q (q_off "font-face-decls") = true ->
  kids_routed PnContent SFfd [Elem q a ks] = [].
Proof. exact content_font_decls_skipped. Qed.
Print Assumptions C05_content_font_declarations_skipped.
Theorem C05_styles_font_declarations_kept : forall a ks, kids_routed PnStyles SFfd [Elem (q_off "font-face-decls") a ks] = keep ks.
Proof. exact styles_font_decls_kept. Qed.
Print Assumptions C05_styles_font_declarations_kept.

(* saving what was loaded: the parts parse back to the loaded document normalised (C04 applied to the loaded document),
   so the package saved after load() carries body, common styles, master styles, settings, metadata (generator replaced)
   and the used automatic styles of the source *)
Theorem C05_resave : forall env mime se me co st, let d := i_load_doc mime se me co st in
  sections_ok d -> NoDup (all_regs d) ->
  doc_ok F env (settings_tree d) = true -> doc_ok F env (meta_tree tv d) = true ->
  doc_ok F env (content_tree RA d) = true -> doc_ok F env (styles_tree RA d) = true ->
  i_load_doc (d_mime d) (if has_kids (d_settings d) then xml_parse (i_settingsxml env d) else None)
             (xml_parse (snd (i_metaxml env d))) (xml_parse (i_contentxml env d)) (xml_parse (i_stylesxml env d)) = finish (expected d).
Proof. intros env mime se me co st d. exact (save_load_roundtrip env d). Qed.
Print Assumptions C05_resave.

(* without any condition on the source: what load() returns always has the eight sections in the general form
   (C05_loaded_shape), so the general round trip (C04_roundtrip_any_sections) applies to it - also for a pretty-printed
   source, whose white space between the children of a section is kept by load() *)
Theorem C05_loaded_shape : forall mime se me co st, sections_named (i_load_doc mime se me co st).
Proof. exact loaded_named. Qed.
Print Assumptions C05_loaded_shape.
Theorem C05_resave_any : forall env mime se me co st, let d := i_load_doc mime se me co st in
  NoDup (all_regs d) ->
  doc_ok F env (settings_tree d) = true -> doc_ok F env (meta_tree tv d) = true ->
  doc_ok F env (content_tree RA d) = true -> doc_ok F env (styles_tree RA d) = true ->
  i_load_doc (d_mime d) (if has_kids (d_settings d) then xml_parse (i_settingsxml env d) else None)
             (xml_parse (snd (i_metaxml env d))) (xml_parse (i_contentxml env d)) (xml_parse (i_stylesxml env d)) = finish (expected_gen d).
Proof. exact resave_gen. Qed.
Print Assumptions C05_resave_any.

(* what the theorems above take as "the part as parsed" is the part as it stands in the package: before parsing, load() patches
   every XML member textually (fix_part = __fixXmlPart: prefix declarations some producers leave out are put into the root
   element).  For EVERY string: only the start tag of the root element is patched - everything in front of it and everything
   from the '>' that ends it on, so every other tag and every character of text, is parsed as it is in the package *)
Theorem C05_only_root_tag_patched : forall s, exists mid, fix_part s = firstn (root_begin s) s ++ mid ++ skipn (root_stop s) s.
Proof. exact only_root_tag_patched. Qed.
Print Assumptions C05_only_root_tag_patched.
