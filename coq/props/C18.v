(* C18 — the XHTML and MoinMoin converters are total, complete and escape everything.   PARTIAL: the writer layer. *)
From Odf Require Import model.Base model.Chars model.XmlPrint model.XmlLex model.XmlTree model.Html model.HtmlDoc proofs.XmlPrintProofs proofs.XmlLexProofs proofs.XmlRoundTrip proofs.HtmlProofs proofs.HtmlDocProofs.

(* Every handler of odf2xhtml.py writes document-derived strings through writedata() (saxutils.escape) or through the
   attribute dictionaries of opentag()/emptytag() (saxutils.quoteattr).  run = the lexer of a conforming XML parser
   (XmlLex.lstep folded over the characters), as in C02. *)

(* character data: read back as exactly that character data, the lexer never leaves text mode - for EVERY string of
   XML characters without carriage return (a parsed document holds no others) *)
Theorem C18_text_stays_text : forall s ts acc k, Forall (fun c => xml10_char c = true) s -> nocr s ->
  exists k', run (h_writedata s) (mkL ts (MText acc k)) = mkL ts (MText (acc ++ s) k').
Proof. exact text_stays_text. Qed.
Print Assumptions C18_text_stays_text.

(* an attribute value: read back as one attribute with exactly that value - style names, link targets, image names *)
Theorem C18_attribute_stays_attribute : forall s n atts an ts, Forall (fun c => xml10_char c = true) s ->
  run (h_quoteattr s) (mkL ts (MAttEq n atts an)) = mkL ts (MAttrs n (atts ++ [(an, s)]) false).
Proof. exact attribute_stays_attribute. Qed.
Print Assumptions C18_attribute_stays_attribute.

(* escaped character data contains no '<' at all *)
Theorem C18_escaped_has_no_markup_start : forall s, mem_cp cLT (h_escape s) = false.
Proof. exact escaped_has_no_lt. Qed.
Print Assumptions C18_escaped_has_no_markup_start.

(* ---- the whole output as a sequence of writer calls (model/HtmlDoc.v; the harness records the calls of real conversions
   and compares the real output with h_render of the recorded calls) ---- *)

(* ANY sequence of writer calls - opentag, closetag, emptytag, writedata, the character reference of text:s, the
   internal style sheet - whose tag and attribute names are names and whose other strings are arbitrary XML characters,
   is lexed by a conforming parser into exactly one token per tag call, carrying the attribute values as given, with
   the character data between them exactly as given: no string can add, remove or change a token *)
Theorem C18_output_tokens : forall evs, forallb ev_ok evs = true -> forall ts acc k,
  lfinish (run (h_render evs) (mkL ts (MText acc k))) = Some (ts ++ ev_toks evs acc).
Proof. exact lex_events. Qed.
Print Assumptions C18_output_tokens.

Theorem C18_tags_are_the_calls : forall evs acc, tag_toks (ev_toks evs acc) = ev_tags evs.
Proof. exact tags_are_the_calls. Qed.
Print Assumptions C18_tags_are_the_calls.

(* under the tag-stack discipline (every closetag names the innermost open tag, one root, text inside elements) the
   token stream builds a tree: the output is well-formed *)
Theorem C18_output_well_formed : forall evs, forallb ev_ok evs = true -> wellnested evs [] false = true ->
  exists ts r, lfinish (run (h_render evs) linit) = Some ts /\ ts = ev_toks evs [] /\ build ts [] None = Some r.
Proof. exact output_well_formed. Qed.
Print Assumptions C18_output_well_formed.

(* the style sheet: whatever the style properties of the document contain - "]]>" included - the CDATA section ends
   where the writer ends it *)
Theorem C18_style_sheet_stays_text : forall ts acc k s, plain s = true ->
  run (h_css s) (mkL ts (MText acc k)) = mkL ts (MText (acc ++ css_text s) 0).
Proof. exact lex_css. Qed.
Print Assumptions C18_style_sheet_stays_text.
