(* C18 — the XHTML and MoinMoin converters are total, complete and escape everything.   PARTIAL: the writer layer. *)
From Odf Require Import model.Base model.Chars model.XmlPrint model.XmlLex model.Html proofs.XmlPrintProofs proofs.XmlLexProofs proofs.XmlRoundTrip proofs.HtmlProofs.

(* Every handler of odf2xhtml.py writes document-derived strings through writedata() (saxutils.escape) or through the
   attribute dictionaries of opentag()/emptytag() (saxutils.quoteattr).  run = the lexer of a conforming XML parser
   (XmlLex.lstep folded over the characters), as in C02. *)

(* character data: read back as exactly that character data, the lexer never leaves text mode - for EVERY string of
   XML characters without carriage return (a parsed document holds no others) *)
Theorem C18_text_stays_text : forall s ts acc k, Forall (fun c => xml10_char c = true) s -> nocr s ->
  exists k', run (h_writedata s) (mkL ts (MText acc k)) = mkL ts (MText (acc ++ s) k').
Proof. exact text_stays_text. Qed.
Print Assumptions C18_text_stays_text.

(* an attribute value: read back as one attribute with exactly that value - style names, link targets, image names *)
Theorem C18_attribute_stays_attribute : forall s n atts an ts, Forall (fun c => xml10_char c = true) s ->
  run (h_quoteattr s) (mkL ts (MAttEq n atts an)) = mkL ts (MAttrs n (atts ++ [(an, s)]) false).
Proof. exact attribute_stays_attribute. Qed.
Print Assumptions C18_attribute_stays_attribute.

(* escaped character data contains no '<' at all *)
Theorem C18_escaped_has_no_markup_start : forall s, mem_cp cLT (h_escape s) = false.
Proof. exact escaped_has_no_lt. Qed.
Print Assumptions C18_escaped_has_no_markup_start.
