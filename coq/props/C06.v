(* C06 — with checks on, the API accepts exactly what the ODF 1.2 schema permits. *)
From Odf Require Import model.Base model.Grammar gen.GenGrammar model.GrammarInst proofs.GrammarProofs.

(* G = the four tables of odf/grammar.py, S = what grammar/OpenDocument-schema-v1.2-cd04.rng permits, both regenerated on every
   run over one numbering of element and attribute names; selems = the elements of the schema; dev_* = the recorded
   deviations (known_findings.json); known p = p is not one of the elements the library has no tables for (the db namespace). *)

(* adding a child element: every ordered pair of schema elements *)
Theorem C06_child : forall p c, In p selems -> In c selems -> known p = true ->
  accepted (add_element G p c true) = xorb (s_child S p c) (mem2 (p, c) dev_child).
Proof. exact child_exact. Qed.
Print Assumptions C06_child.
Theorem C06_child_refusal_is_IllegalChild : forall p c, add_element G p c true = Accepted \/ add_element G p c true = IllegalChildErr.
Proof. exact child_refusal. Qed.
Print Assumptions C06_child_refusal_is_IllegalChild.

(* adding text or CDATA: every schema element *)
Theorem C06_text : forall p, In p selems -> known p = true -> accepted (add_text G p true) = xorb (s_text S p) (memN p dev_text).
Proof. exact text_exact. Qed.
Print Assumptions C06_text.
Theorem C06_text_refusal_is_IllegalText : forall p, add_text G p true = Accepted \/ add_text G p true = IllegalTextErr.
Proof. exact text_refusal. Qed.
Print Assumptions C06_text_refusal_is_IllegalText.

(* setting an attribute by keyword: every schema element and EVERY keyword string (not only the keywords of known
   attributes), unless the keyword is that of an attribute recorded as deviating for this element *)
Theorem C06_keyword : forall el kw, In el selems -> known el = true -> memN el dev_attrnone = false ->
  (forall a, mem2 (el, a) dev_attr = true -> attr_kw attr_local a <> kw) ->
  accepted (set_attribute G el kw true) = s_attr_kw S attr_local el kw.
Proof. exact keyword_exact. Qed.
Print Assumptions C06_keyword.
Theorem C06_keyword_refusal_is_AttributeError : forall el kw, set_attribute G el kw true = Accepted \/ set_attribute G el kw true = AttributeErr.
Proof. exact keyword_refusal. Qed.
Print Assumptions C06_keyword_refusal_is_AttributeError.
Theorem C06_keyword_table_none : forall el kw check, In el dev_attrnone -> set_attribute G el kw check = AttributeErr.
Proof. exact keyword_none. Qed.
Print Assumptions C06_keyword_table_none.

(* constructing an element fails exactly when a required attribute is missing: every schema element without a recorded
   deviation and EVERY set of attributes given *)
Theorem C06_construct : forall el given, In el selems -> known el = true -> (forall a, mem2 (el, a) dev_req = false) ->
  accepted (construct G el given true) = s_complete S el given.
Proof. exact construct_exact. Qed.
Print Assumptions C06_construct.
Theorem C06_construct_refusal_is_AttributeError : forall el given, construct G el given true = Accepted \/ construct G el given true = AttributeErr.
Proof. exact construct_refusal. Qed.
Print Assumptions C06_construct_refusal_is_AttributeError.

(* switching the check off lets a refused child, refused text and an incomplete element through *)
Theorem C06_unchecked : forall p c given, add_element G p c false = Accepted /\ add_text G p false = Accepted /\ construct G p given false = Accepted.
Proof. exact unchecked. Qed.
Print Assumptions C06_unchecked.

(* every element of the schema has a factory returning it (the recorded ones excepted) *)
Theorem C06_factories : forall e, In e selems -> memN e factory_elems = negb (memN e dev_factory).
Proof. exact factory_exact. Qed.
Print Assumptions C06_factories.

(* attribute local names are ASCII, so str.lower() is the ASCII lower-casing of the model *)
Theorem C06_ascii_locals : forallb (fun r => forallb (fun c => c <? 128) (snd r)) attr_local = true.
Proof. exact O_ascii. Qed.
Print Assumptions C06_ascii_locals.
