(* C12 — producing output never changes the document and is repeatable. *)
From Odf Require Import model.Base model.Chars model.XmlPrint model.XmlLex model.XmlTree model.Doc model.Inst
  gen.GenChars gen.GenNs gen.GenStyleRefs proofs.DocProofs.

Notation rend := (render F RA xml_prologue toolsversion).

(* what a rendering call leaves behind: the document itself (contentxml, stylesxml, settingsxml) or the document
   with its generator normalised (metaxml, xml, save) - nothing else *)
Theorem C12_frame : forall env r d,
  fst (rend env r d) = match r with RContent | RStyles | RSettings => d | _ => norm_gen toolsversion d end.
Proof. intros. apply render_frame_exact. Qed.
Print Assumptions C12_frame.

(* generator normalisation: exactly one generator afterwards, every other child of office:meta kept, in order; idempotent *)
Theorem C12_generator : forall q a k,
  replace_generator toolsversion (Elem q a k) = Elem q a (filter (fun c => negb (is_generator c)) k ++ [Elem q_generator [] [TextN toolsversion]]) /\
  List.length (filter is_generator (kids_of (replace_generator toolsversion (Elem q a k)))) = 1%nat.
Proof. intros. apply replace_generator_spec. Qed.
Print Assumptions C12_generator.

Theorem C12_normalise_idempotent : forall d, norm_gen toolsversion (norm_gen toolsversion d) = norm_gen toolsversion d.
Proof. intros. apply norm_gen_idem. Qed.
Print Assumptions C12_normalise_idempotent.

(* after ANY sequence of rendering calls (any length, any order) every renderer returns exactly what it returns on the
   fresh document, and the document is the original one up to generator normalisation *)
Theorem C12_repeatable : forall env rs r d,
  snd (rend env r (render_all F RA xml_prologue toolsversion env rs d)) = snd (rend env r d).
Proof. intros. apply render_repeatable. Qed.
Print Assumptions C12_repeatable.

Theorem C12_document_after_any_sequence : forall env rs d,
  norm_gen toolsversion (render_all F RA xml_prologue toolsversion env rs d) = norm_gen toolsversion d.
Proof. intros. apply render_all_frame. Qed.
Print Assumptions C12_document_after_any_sequence.
