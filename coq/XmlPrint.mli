open Ascii
open Base
open BinNat
open BinNums
open Chars
open Datatypes
open List
open String

val filter_char : (coq_N * coq_N) list -> cp -> cp

val handle_unrepresentable : (coq_N * coq_N) list -> str -> str

val replace1 : cp -> str -> str -> str

val sAMP : str

val sLT : str

val sGT : str

val sQUOT : str

val sREF10 : str

val sREF13 : str

val sREF9 : str

val escape : (cp * str) list -> str -> str

val sanitize : (coq_N * coq_N) list -> (cp * str) list -> str -> str

val text_ents : (cp * str) list

val text_toXml : (coq_N * coq_N) list -> str -> str

val attr_ents : (cp * str) list

val quoteattr : (coq_N * coq_N) list -> str -> str

val replace_cdend : str -> str -> str

val sCDOPEN : str

val sCDCLOSE : str

val sCDSPLIT : str

val sCDCR : str

val cdata_toXml : (coq_N * coq_N) list -> str -> str

val textnode_toXml : (coq_N * coq_N) list -> str -> str
