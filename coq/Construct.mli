open Base
open Datatypes
open Dom
open Nat

val new_elem : heap -> nat -> nat option -> heap * id

val first_raise : exn option list -> exn option

val construct :
  heap -> nat -> nat option -> exn option list -> bool -> bool -> (id * bool)
  option -> res

type attrs = (nat * str) list

val attr_set : nat -> str -> attrs -> attrs

val set_attr_ns : attrs -> nat -> str result -> attrs result

val set_attribute : attrs -> nat option -> str result -> attrs result
