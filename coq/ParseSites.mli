open Ascii
open Base
open Datatypes
open List
open Package
open String

val part_names : str list

val parts_under : manifest -> str -> str list

val load_reads : manifest -> str list
