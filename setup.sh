#!/bin/sh
# Build the framework from files on disk only: tables from /repo, the whole Coq
# development (full .vo build), extraction, the OCaml correspondence driver.
cd "$(dirname "$0")" || exit 2
export PYTHONPATH=/repo PYTHONHASHSEED=0 PIP_NO_INDEX=1
set -e
/venv/bin/python tools/gen_tables.py
cd coq
coq_makefile -f _CoqProject -o Makefile > /dev/null
timeout 3000 make -k -j16 2>&1 | tail -40
cd ..
/venv/bin/python - <<'PY'
import sys
sys.path.insert(0, 'tools')
import vlib
ok, msg = vlib.build_driver()
print('driver:', ok, msg[:2000])
sys.exit(0 if ok else 1)
PY
